(* Proofs/CstEntCDoc.v -- C07 with content entities: parse_document on the rendering of ANY well-formed document of
   Spec/CstEnt.v (entities whose values are items included). *)
From Coq Require Import Ascii String.
From Coq Require Import List NArith PeanoNat Bool Lia ZifyBool ZifyN ZifyNat.
Import ListNotations.
From RX Require Import Generated.
From RX.Model Require Import Base CharClass Stream Tokenizer Doc Builder Parse.
From RX.Spec Require Cst CstText CstEnt Detector.
From RX.Spec Require Import Text.
From RX.Proofs Require Import Tactics CstLex CstBuild CstTree CstItems CstDoc TextMerge DetectorProofs.
From RX.Proofs Require Import CstTextSem CstTextLex CstTextBuild CstTextItems CstTextDoc.
From RX.Proofs Require Import CstEntSem CstEntText CstEntAttr CstEntMeaning CstEntRun CstEntLex CstEntDtd CstEntBuild CstEntInline CstEntItems CstEntDoc CstEntMain.
From RX.Proofs Require Import CstEntCFloor CstEntCAttr CstEntCBuild CstEntCSem CstEntCLex CstEntCLex2 CstEntCLoop CstEntCText CstEntCItems.
Open Scope N_scope.

(* ------------------------------------------------------------------------------------------ *)
(* every byte of a rendering is a printable ASCII character, TAB, LF or CR                    *)
(* ------------------------------------------------------------------------------------------ *)
Definition tp (l : bytes) : Prop := forallb T.is_tplain l = true.

Lemma tp_app a b0 : tp a -> tp b0 -> tp (a ++ b0).
Proof. apply forallb_app'. Qed.

Lemma tp_of (f : N -> bool) l : (forall x, f x = true -> T.is_tplain x = true) -> forallb f l = true -> tp l.
Proof. intros H. apply forallb_imp. exact H. Qed.

Lemma tp_ws w : Cst.wf_ws w = true -> tp w.
Proof. apply tp_of. intros x H. tcls. lia. Qed.

Lemma tp_name n : Cst.wf_name n = true -> tp n.
Proof.
  destruct n as [|x r]; [discriminate|]. cbn [Cst.wf_name]. intros H. apply andb_true_iff in H. destruct H as [H1 H2].
  unfold tp. cbn [forallb]. apply andb_true_iff. split; [tcls; lia|]. revert H2. apply forallb_imp. intros y Hy. tcls. lia.
Qed.

Lemma tp_vbytes q l : forallb (vbyte q) l = true -> tp l.
Proof. apply tp_of. intros x H. unfold vbyte in H. rewrite !andb_true_iff in H. apply H. Qed.

Lemma tp_epiece q cd ch iv p : q = 39 \/ q = 34 \/ q = 60 -> E.wf_epiece q cd ch iv p = true -> tp (E.r_epiece p).
Proof.
  intros Hq. destruct p as [[bs|hex ds|e|bs]|n]; cbn [E.wf_epiece E.r_epiece]; intros H.
  - rewrite !andb_true_iff in H. destruct H as [[_ H] _]. apply (tp_vbytes q). apply (vpiece_bytes q (T.PLit bs) Hq H).
  - rewrite !andb_true_iff in H. destruct H as [[_ H] _]. apply (tp_vbytes q). apply (vpiece_bytes q (T.PCharRef hex ds) Hq H).
  - apply (tp_vbytes q). apply (vpiece_bytes q (T.PPredef e) Hq). reflexivity.
  - apply andb_true_iff in H. destruct H as [_ H]. cbn [T.wf_tpiece] in H. apply andb_true_iff in H. destruct H as [H _].
    cbn [T.r_piece]. repeat apply tp_app; [reflexivity|exact H|reflexivity].
  - apply andb_true_iff in H. destruct H as [H _]. repeat apply tp_app; [reflexivity|apply tp_name; exact H|reflexivity].
Qed.

Lemma tp_epieces q cd ch iv ps : q = 39 \/ q = 34 \/ q = 60 -> forallb (E.wf_epiece q cd ch iv) ps = true -> tp (E.r_epieces ps).
Proof.
  intros Hq. induction ps as [|p ps IH]; intros H; [reflexivity|]. cbn [forallb] in H. apply andb_true_iff in H.
  destruct H as [H1 H2]. rewrite r_epieces_cons. apply tp_app; [apply (tp_epiece _ _ _ _ _ Hq H1)|apply IH; exact H2].
Qed.

Lemma tp_quote q : q = 39 \/ q = 34 -> tp [q].
Proof. intros [-> | ->]; reflexivity. Qed.

Lemma tp_eattr iv a : E.wf_attr iv a = true -> tp (E.r_attr a).
Proof.
  unfold E.wf_attr, E.wf_epieces. rewrite !andb_true_iff. intros (((((H1 & H2) & H3) & H4) & H5) & (H6 & H7)).
  assert (Hq : E.a_quote a = 39 \/ E.a_quote a = 34) by lia.
  destruct (ws1_parts _ H1) as [_ H1'].
  unfold E.r_attr. repeat apply tp_app; try (apply tp_ws; assumption); try (apply tp_quote; exact Hq).
  - apply tp_name. exact H2.
  - reflexivity.
  - apply (tp_epieces (E.a_quote a) _ _ _ _ ltac:(destruct Hq; auto) H6).
Qed.

Lemma tp_flat {A} (f : A -> bytes) l : Forall (fun x => tp (f x)) l -> tp (flat_map f l).
Proof. induction 1; [reflexivity|]. cbn [flat_map]. apply tp_app; assumption. Qed.

Lemma tp_plain l : forallb Cst.is_plain l = true -> tp l.
Proof. apply tp_of. intros x H. tcls. unfold Cst.is_plain in H. lia. Qed.

Lemma tp_eitem iv : forall i, E.wf_item iv i = true -> tp (E.r_item i).
Proof.
  intros i. induction i as [n a w|n a w cs w2 IH|ps|bs|t s v] using eitem_ind; intros Hwf.
  - destruct (wf_elem_parts_g _ _ _ _ _ Hwf) as (Hn & Ha & _ & _ & Hw & _). rewrite er_item_elem.
    repeat apply tp_app; try reflexivity.
    + apply tp_name; exact Hn.
    + apply tp_flat. apply Forall_forall. intros x Hx. rewrite forallb_forall in Ha. apply (tp_eattr iv). auto.
    + apply tp_ws; exact Hw.
  - destruct (wf_elem_parts_g _ _ _ _ _ Hwf) as (Hn & Ha & _ & _ & Hw & Hw2 & _ & Hcs). rewrite er_item_elem.
    repeat apply tp_app; try reflexivity.
    + apply tp_name; exact Hn.
    + apply tp_flat. apply Forall_forall. intros x Hx. rewrite forallb_forall in Ha. apply (tp_eattr iv). auto.
    + apply tp_ws; exact Hw.
    + clear - IH Hcs. induction IH as [|c r Hc _ IHr]; [reflexivity|].
      cbn [forallb] in Hcs. apply andb_true_iff in Hcs. destruct Hcs as [H1 H2].
      rewrite r_items_cons. apply tp_app; auto.
    + apply tp_name; exact Hn.
    + apply tp_ws; exact Hw2.
  - cbn [E.wf_item E.r_item] in *. unfold E.wf_epieces in Hwf. rewrite !andb_true_iff in Hwf.
    destruct Hwf as [_ [H _]]. apply (tp_epieces 60 _ _ _ _ ltac:(auto) H).
  - assert (H : Cst.wf_item (Cst.IComment bs) = true) by (destruct iv; exact Hwf).
    destruct (wf_comment _ H) as (H1 & _). cbn [E.r_item Cst.r_item]. repeat apply tp_app; [reflexivity|apply tp_plain; exact H1|reflexivity].
  - assert (H : Cst.wf_item (Cst.IPI t s v) = true) by (destruct iv; exact Hwf).
    destruct (wf_pi _ _ _ H) as (H1 & H2 & H3 & _). cbn [E.r_item Cst.r_item].
    repeat apply tp_app; [reflexivity|apply tp_name; exact H1|apply tp_ws; exact H2|apply tp_plain; exact H3|reflexivity].
Qed.

Lemma tp_asc l : tp l -> asc l.
Proof. apply forallb_asc. intros x H. apply (tplain_char _ H). Qed.

(* ------------------------------------------------------------------------------------------ *)
(* declarations                                                                               *)
(* ------------------------------------------------------------------------------------------ *)
Record decl_facts_c (d : E.edecl) : Prop := {
  dc_lex : decl_lex_ok d;
  dc_ok : decl_ok d;
  dc_adj : decl_adj d;
  dc_cont : decl_cont d;
  dc_asc : asc (E.r_decl d)
}.

Lemma wf_decl_facts_c d : E.wf_decl d = true -> decl_facts_c d.
Proof.
  intros Hwf. pose proof (asc_decl_gen d Hwf) as Hasc. revert Hwf.
  unfold E.wf_decl, E.wf_value. rewrite !andb_true_iff.
  intros ((((((H0 & H1) & Hn) & H2) & Hq) & (Hv & Hps)) & H3).
  assert (Hq' : E.e_quote d = 39 \/ E.e_quote d = 34) by lia.
  assert (Htp : tp (E.r_value (E.e_value d))).
  { destruct (E.e_value d) as [ps|its]; cbn [E.r_value].
    - unfold E.wf_epieces in Hps. apply andb_true_iff in Hps. apply (tp_epieces (E.e_quote d) _ _ _ _ ltac:(destruct Hq'; auto) (proj1 Hps)).
    - apply andb_true_iff in Hps. destruct Hps as [Hps _]. apply tp_flat. apply Forall_forall. intros i Hi.
      rewrite forallb_forall in Hps. apply (tp_eitem true). auto. }
  constructor; [| | | |exact Hasc].
  - constructor; try assumption. split; [|split].
    + revert Hv. apply forallb_imp. intros x Hx. apply andb_true_iff in Hx. apply Hx.
    + revert Htp. apply forallb_imp. intros x Hx. destruct (tplain_char _ Hx) as (L & _). lia.
    + revert Htp. apply forallb_imp. intros x Hx. apply (tplain_char _ Hx).
  - unfold decl_ok. destruct (E.e_value d) as [ps|its] eqn:Ev; [|exact I].
    unfold E.wf_epieces in Hps. apply andb_true_iff in Hps. destruct Hps as [Hw Hadj]. split.
    + apply Forall_forall. intros p Hp. rewrite forallb_forall in Hw. apply (wf_epiece_value_ok _ _ (Hw p Hp)).
    + apply estretch_no_cdata_end; [| |exact Hadj].
      * apply Forall_forall. intros p Hp. rewrite forallb_forall in Hw. apply (wf_epiece_weaken _ _ (Hw p Hp)).
      * apply forallb_forall. intros p Hp. rewrite forallb_forall in Hw. rewrite (proj2 (wf_epiece_value_ok _ _ (Hw p Hp))). reflexivity.
  - unfold decl_adj. destruct (E.e_value d) as [ps|its] eqn:Ev; [|exact I].
    unfold E.wf_epieces in Hps. apply andb_true_iff in Hps. apply Hps.
  - unfold decl_cont. destruct (E.e_value d) as [ps|its] eqn:Ev; [exact I|].
    apply andb_true_iff in Hps. exact Hps.
Qed.

(* ------------------------------------------------------------------------------------------ *)
(* the whole input as a part of the input                                                     *)
(* ------------------------------------------------------------------------------------------ *)
Lemma st_top text p r : CstEntCLex.st (tlen text) [] p r = CstLex.st text p r.
Proof. unfold CstEntCLex.st, CstLex.st. rewrite app_nil_r. reflexivity. Qed.

Lemma W_top text p r : CstLex.W text p r -> CstEntCLex.W text (tlen text) [] p r.
Proof. intros H. split; [rewrite app_nil_r; exact H|apply H]. Qed.

Record dtd_facts_c (t : E.dtd) : Prop := {
  tc_ws1 : Cst.wf_ws1 (E.t_ws1 t) = true;
  tc_name : Cst.wf_name (E.t_name t) = true;
  tc_ws2 : Cst.wf_ws (E.t_ws2 t) = true;
  tc_decls : Forall decl_facts_c (E.t_decls t);
  tc_ws3 : Cst.wf_ws (E.t_ws3 t) = true;
  tc_ws4 : Cst.wf_ws (E.t_ws4 t) = true
}.

Lemma wf_dtd_facts_c t : E.wf_dtd t = true -> dtd_facts_c t.
Proof.
  unfold E.wf_dtd. rewrite !andb_true_iff. intros [[[[[H1 H2] H3] H4] H5] H6].
  constructor; try assumption. apply Forall_forall. intros d Hd. rewrite forallb_forall in H4.
  apply wf_decl_facts_c; auto.
Qed.

Ltac clia := repeat match goal with H : @eq bool _ true |- _ => clear H end; lia.

Section Root.
Variable text : bytes.
Hypothesis Hascii : Forall (fun x => x < 128) text.
Variable decls : list E.edecl.
Variable es : list entity.
Hypothesis Henv : Forall2 (ent_ok text) decls es.
Hypothesis Hdecls : Forall decl_ok decls.
Hypothesis Hadjs : Forall decl_adj decls.
Hypothesis Hcont : Forall decl_cont decls.

(* the root element: parse_element, then parse_content at depth 0 *)
Lemma root_ok_c name attrs ws body p post c its tr ld' :
  E.wf_item false (E.IElem name attrs ws body) = true ->
  CstLex.W text p (E.r_item (E.IElem name attrs ws body) ++ post) ->
  CI c -> c_after_text c = [] -> c_entity_floor c = 0 -> c_ld c = ld_init -> c_entities c = es ->
  E.inline_item (E.level decls E.max_level) false (E.IElem name attrs ws body) = Some (its, tr) ->
  ld_run ld_init tr = Some ld' ->
  Pok [] its -> Rooms c [] its ->
  exists c0' c' frs' K ext,
    (let! (open, s, c) := parse_element text context (CstBuild.tok_ev text)
                            (CstLex.st text p (E.r_item (E.IElem name attrs ws body) ++ post)) c in
     if open then parse_content text context (CstBuild.tok_ev text) s c else Ok (s, c)) =
    Ok (CstLex.st text (p + blen (E.r_item (E.IElem name attrs ws body))) post, c') /\
    Res text es c c [] its ld' c0' c' frs' K ext.
Proof.
  intros Hwf HW I Hat Hfl Hld0 Hes Hin Hld HP HR.
  assert (HO : OR es c c []) by (constructor; try assumption; apply same_frame_refl).
  pose proof (W_top _ _ _ HW) as HW'.
  assert (IHk : forall k', E.max_level = S k' -> forall cs, ItemsOK text es (E.level decls k') cs).
  { intros k' _ cs. apply (ItemsOK_all text Hascii decls es Henv Hdecls Hadjs Hcont). }
  rewrite <- !st_top. rewrite evl_top. destruct body as [[cs ws2]|].
  - destruct (wf_elem_parts_g _ _ _ _ _ Hwf) as (_ & _ & _ & _ & _ & _ & _ & Hcs).
    pose proof (esteps_list_le cs (ewf_items_false _ Hcs)) as Hst.
    set (post2 := [60; 47] ++ name ++ ws2 ++ [62] ++ post).
    destruct (elem_open_c text Hascii decls es Henv Hdecls Hadjs E.max_level IHk name attrs ws cs ws2
                (ItemsOK_all text Hascii decls es Henv Hdecls Hadjs Hcont E.max_level cs)
                false (tlen text) [] p post c c [] [] entity_levels 0
                (length (E.r_items cs ++ post2) - esteps_list cs)%nat its tr ld' Hwf HW' HO (SemI_nil text))
      as (c1 & c0' & c' & frs' & K & ext & E1 & E2 & HRes); try assumption.
    { rewrite Hld0. reflexivity. }
    { rewrite Hld0. reflexivity. }
    { rewrite Hfl. lia. }
    { rewrite Hld0. exact Hld. }
    rewrite E1. cbn [bind]. unfold parse_content. cbn [CstEntCLex.st s_rest]. rewrite app_nil_r.
    fold post2.
    replace (S (length (E.r_items cs ++ post2)))
      with (esteps_list cs + S (length (E.r_items cs ++ post2) - esteps_list cs))%nat
      by (rewrite app_length in *; clia).
    fold post2 in E2.
    match goal with |- context [parse_content_loop _ _ _ _ 0 ?s c1] =>
      replace s with (CstEntCLex.st (tlen text) [] (p + 1 + blen name + blen (flat_map E.r_attr attrs) + blen ws + 1) (E.r_items cs ++ post2))
        by (unfold CstEntCLex.st; rewrite app_nil_r; reflexivity) end.
    rewrite E2. change (0 =? 0) with true. cbv iota.
    exists c0', c', frs', K, ext. split; [reflexivity|exact HRes].
  - destruct (elem_empty_c text Hascii decls es Henv Hdecls Hadjs E.max_level IHk name attrs ws
                false (tlen text) [] p post c c [] [] entity_levels its tr ld' Hwf HW' HO (SemI_nil text))
      as (c0' & c' & frs' & K & ext & E1 & HRes); try assumption.
    { rewrite Hld0. reflexivity. }
    { rewrite Hld0. exact Hld. }
    rewrite E1. cbn [bind]. exists c0', c', frs', K, ext. split; [reflexivity|exact HRes].
Qed.

End Root.

(* ------------------------------------------------------------------------------------------ *)
(* parse_document                                                                             *)
(* ------------------------------------------------------------------------------------------ *)
Lemma cparse_document_ok (c : E.doc) (c0 : context) (cT : T.doc) (tr : list Detector.lop) :
  E.wf_doc c = true -> E.inline c = Some (cT, tr) ->
  let text := E.render c in
  CI c0 -> c_ld c0 = ld_init -> c_entities c0 = [] -> c_after_text c0 = [] ->
  node_room c0 (nsizes (doc_items (erase_doc cT))) -> attr_room c0 (nattrs (erase (T.d_root cT))) ->
  exists cf K,
    parse_document text context (tok_ev text) true c0 = Ok cf /\
    absn (c_doc cf) = absn (c_doc c0) ++ K /\ c_parent_prefixes cf = c_parent_prefixes c0 /\ CI cf /\
    Forall2 (km text (d_attrs (c_doc cf))) K
            (tag_list (c_parent_id c0) (len_N (d_nodes (c_doc c0))) (doc_items (erase_doc cT))).
Proof.
  intros Hwf Hinl text I0 Hld0 Hes0 A0 NR AR.
  pose proof (erender_asc_gen c Hwf) as Hascii. fold text in Hascii.
  pose proof (edecl_render c Hwf) as Hdecl. fold text in Hdecl.
  pose proof (erender_shape c Hwf) as Etext. fold text in Etext.
  pose proof (ewf_doc_parts c Hwf) as [H1 H2 H3 H4 H5 H6 (name & attrs & ws & body & Er) H8 H9 (root' & tr' & Hroot & Hinl' & Hlim & Hprov) _].
  rewrite Hinl' in Hinl. injection Hinl as <- <-.
  pose proof (wf_dtd_facts_c _ H5) as [T1 T2 T3 T4 T5 T6]. clear Hwf H5.
  destruct (regroup_wf _ _ H1 H4) as [R1 R2]. clear H1 H4.
  rewrite inlined_items in *. cbn [T.d_root] in AR.
  set (B := CstDoc.regroup (E.d_ws0 c) (bef c)) in *. set (wB := last_ws (E.d_ws0 c) (bef c)) in *.
  set (M := mid c) in *. set (A := aft c) in *. set (wE := E.d_ws_end c) in *. set (w1 := E.d_ws1 c) in *.
  set (t := E.d_dtd c) in *. set (decls := E.t_decls t) in *.
  rewrite Er in *. clear Er. set (root := E.IElem name attrs ws body) in *.
  rewrite !nsizes_app, nsizes_cons in NR.
  pose proof (CstLex.W_new text) as HW0.
  destruct (ewf_elem_parts _ _ _ _ H8) as (Hn & _).
  assert (El : exists n l, E.r_item root = 60 :: n :: l /\ Cst.is_name_start n = true).
  { unfold root. rewrite er_item_elem. destruct name as [|n r]; [discriminate|].
    cbn [Cst.wf_name] in Hn. apply andb_true_iff in Hn. destruct Hn as [Hn _]. eexists. eexists. split; [reflexivity|exact Hn]. }
  destruct El as (n & l & El & Hns).
  destruct (name_start_byte _ Hns) as (_ & _ & Hnsp & _ & _ & H33 & H63 & _). clear Hns Hn.
  remember (E.r_item root ++ r_pairs A ++ wE ++ []) as rest3 eqn:Erest3.
  remember (r_pairs M ++ w1 ++ rest3) as rest2 eqn:Erest2.
  assert (Hstop3 : misc_stop rest3).
  { rewrite Erest3, El. cbn [app]. split; [reflexivity|]. cbn [prefix_b].
    replace (33 =? n) with false by clia. replace (63 =? n) with false by clia. split; reflexivity. }
  assert (Hcb : forall p, CstLex.W text p rest3 ->
            match curr_byte_opt (CstLex.st text p rest3) with Some x => x =? 60 | None => false end = true).
  { intros p HWp. rewrite Erest3, El in *. cbn [app] in *. rewrite CstLex.curr_byte_opt_st by exact HWp. reflexivity. }
  clear El.
  assert (Hstop1 : misc_stop (E.r_dtd t ++ rest2)).
  { unfold E.r_dtd, E.kw_doctype. cbn [app]. split; [reflexivity|]. split; reflexivity. }
  unfold parse_document. rewrite CstLex.st_new.
  rewrite CstLex.starts_with_st by exact HW0. rewrite bom_false by exact Hascii. cbn [bind].
  unfold starts_with_declaration. rewrite CstLex.starts_with_st, CstLex.avail_st by exact HW0.
  change (b "<?xml") with [60; 63; 120; 109; 108]. fold (decl_test text). rewrite Hdecl. cbn [bind].
  (* prolog *)
  unfold parse_misc at 1. cbn [CstLex.st s_rest].
  fold (CstLex.st text 0 text).
  assert (Etext' : text = r_pairs B ++ wB ++ E.r_dtd t ++ rest2) by exact Etext.
  assert (HW0' : CstLex.W text 0 (r_pairs B ++ wB ++ E.r_dtd t ++ rest2)) by (rewrite <- Etext'; exact HW0).
  replace (CstLex.st text 0 text) with (CstLex.st text 0 (r_pairs B ++ wB ++ E.r_dtd t ++ rest2))
    by (rewrite <- Etext'; reflexivity).
  assert (Elen : length text = length (r_pairs B ++ wB ++ E.r_dtd t ++ rest2)) by (rewrite <- Etext'; reflexivity).
  destruct (misc_loop_ok text Hascii B 0 wB (E.r_dtd t ++ rest2) c0 (S (length text)) HW0' R1 R2 Hstop1)
    as (c1 & K1 & E1 & S1 & I1 & A1 & F1).
  { pose proof (pairs_len B R1). rewrite Elen, app_length. clia. }
  { exact I0. } { exact A0. } { unfold node_room in *. clia. }
  rewrite E1. cbn [bind]. clear E1.
  pose proof (CstLex.W_app _ _ _ _ HW0') as HWa. pose proof (CstLex.W_app _ _ _ _ HWa) as HW1.
  set (p1 := 0 + blen (r_pairs B) + blen wB) in *.
  rewrite skip_spaces_none by (try exact HW1; apply Hstop1).
  rewrite CstLex.starts_with_st by exact HW1. change (b "<!DOCTYPE") with E.kw_doctype.
  replace (prefix_b E.kw_doctype (E.r_dtd t ++ rest2)) with true
    by (unfold E.r_dtd; rewrite <- !app_assoc; symmetry; apply prefix_b_app_same).
  change (negb true) with false. cbv iota.
  (* the DOCTYPE *)
  assert (Hlex : Forall decl_lex_ok decls) by (revert T4; apply Forall_impl; intros d Hd; apply (dc_lex _ Hd)).
  rewrite (lex_doctype text Hascii context (tok_ev text) p1 t rest2 c1 HW1 T1 T2 T3 Hlex T5 T6). cbv zeta.
  set (q := p1 + 9 + blen (E.t_ws1 t) + blen (E.t_name t) + blen (E.t_ws2 t) + 1) in *.
  rewrite decls_recorded. cbn [bind].
  destruct (Step_keep _ _ _ _ S1) as [Kld1 Kes1]. rewrite Kes1, Hes0. cbn [app].
  set (es := decl_ents q decls) in *. set (c1' := set_entities c1 es).
  assert (Henv : Forall2 (ent_ok text) decls es).
  { unfold es. pose proof HW1 as X0. unfold E.r_dtd in X0. rewrite <- !app_assoc in X0.
    pose proof (CstLex.W_app _ _ _ _ X0) as X1. change (blen E.kw_doctype) with 9 in X1.
    pose proof (CstLex.W_app _ _ _ _ X1) as X2. pose proof (CstLex.W_app _ _ _ _ X2) as X3. pose proof (CstLex.W_app _ _ _ _ X3) as X4.
    pose proof (CstLex.W_app _ _ _ _ X4) as X5. change (blen [91]) with 1 in X5. fold q in X5.
    apply (decl_ents_ok text decls q _ X5). }
  assert (Hdecls : Forall decl_ok decls) by (revert T4; apply Forall_impl; intros d Hd; apply (dc_ok _ Hd)).
  assert (Hadjs : Forall decl_adj decls) by (revert T4; apply Forall_impl; intros d Hd; apply (dc_adj _ Hd)).
  assert (Hcont : Forall decl_cont decls) by (revert T4; apply Forall_impl; intros d Hd; apply (dc_cont _ Hd)).
  pose proof (CI_set_entities c1 es I1) as I1'. fold c1' in I1'.
  pose proof (CstLex.W_app _ _ _ _ HW1) as HW2. set (p2 := p1 + blen (E.r_dtd t)) in *.
  (* items between the DOCTYPE and the root *)
  pose proof (Step_nodes_len _ _ _ _ S1) as Ln1.
  rewrite (Forall2_len_N _ _ _ F1) in Ln1. unfold len_N at 3 in Ln1. rewrite tag_list_len in Ln1.
  pose proof (Step_opt _ _ _ _ (proj1 S1)) as Lo1.
  pose proof (Step_attrs_len _ _ _ _ (proj1 S1)) as La1. change (len_N []) with 0 in La1.
  unfold parse_misc at 1. cbn [CstLex.st s_rest]. fold (CstLex.st text p2 rest2).
  rewrite Erest2 in HW2 |- *.
  destruct (misc_loop_ok text Hascii M p2 w1 rest3 c1' (S (length (r_pairs M ++ w1 ++ rest3))) HW2 H6 H2 Hstop3)
    as (c2 & K2 & E2 & S2 & I2 & A2 & F2).
  { pose proof (pairs_len M H6). rewrite app_length. clia. }
  { exact I1'. } { exact A1. }
  { unfold node_room in *. change (d_nodes (c_doc c1')) with (d_nodes (c_doc c1)). change (c_opt c1') with (c_opt c1).
    rewrite Ln1, Lo1. clia. }
  change (set_entities c1 (decl_ents q (E.t_decls t))) with c1'. rewrite E2. cbn [bind]. clear E2.
  pose proof (CstLex.W_app _ _ _ _ HW2) as HWb. pose proof (CstLex.W_app _ _ _ _ HWb) as HW3.
  set (p3 := p2 + blen (r_pairs M) + blen w1) in *.
  rewrite skip_spaces_none by (try exact HW3; apply Hstop3).
  rewrite (Hcb p3 HW3).
  (* root *)
  pose proof (Step_nodes_len _ _ _ _ S2) as Ln2.
  rewrite (Forall2_len_N _ _ _ F2) in Ln2. unfold len_N at 3 in Ln2. rewrite tag_list_len in Ln2.
  change (d_nodes (c_doc c1')) with (d_nodes (c_doc c1)) in Ln2.
  pose proof (Step_opt _ _ _ _ (proj1 S2)) as Lo2. change (c_opt c1') with (c_opt c1) in Lo2.
  pose proof (Step_attrs_len _ _ _ _ (proj1 S2)) as La2. change (len_N []) with 0 in La2.
  change (d_attrs (c_doc c1')) with (d_attrs (c_doc c1)) in La2.
  destruct (Step_keep _ _ _ _ S2) as [Kld2 Kes2]. change (c_ld c1') with (c_ld c1) in Kld2.
  change (c_entities c1') with es in Kes2.
  destruct (DetectorProofs.detector_complete_gen tr' 0 0 Hlim) as [ld' Hrun]. change (DetectorProofs.mk 0 0) with ld_init in Hrun.
  assert (Hnt : is_titext root' = false).
  { unfold root in Hroot. rewrite inline_elem in Hroot. destruct (E.inline_attrs _ false attrs) as [[a' ta]|]; [|discriminate].
    cbn [E.obind] in Hroot. destruct body as [[cs w2]|].
    - destruct (E.inline_items _ false cs) as [[b0 tb0]|]; [|discriminate]. cbn [E.obind] in Hroot. injection Hroot as <- _. reflexivity.
    - injection Hroot as <- _. reflexivity. }
  assert (Ew : walk [] [root'] = ([root'], [])) by (rewrite walk_single by exact Hnt; reflexivity).
  rewrite Erest3 in HW3 |- *.
  destruct (root_ok_c text Hascii decls es Henv Hdecls Hadjs Hcont name attrs ws body p3 (r_pairs A ++ wE ++ []) c2
              [root'] tr' ld' H8 HW3 I2 A2 (ci_floor _ I2) ltac:(congruence) Kes2 Hroot Hrun)
    as (c0r & c3 & frs3 & K3 & e3 & E3 & HRes3).
  { split; rewrite Ew; cbn [fst snd forallb]; [rewrite Hprov; reflexivity|reflexivity]. }
  { split; rewrite Ew; cbn [fst snd app flush all_marks forallb map nattrs_items].
    - rewrite nsizes_cons. change (nsizes []) with 0. unfold node_room in *. rewrite Ln2, Lo2, Ln1, Lo1. clia.
    - rewrite Nat.add_0_r. unfold attr_room in *. rewrite La2, La1. clia. }
  fold root in E3, HW3.
  rewrite E3. cbn [bind]. clear E3.
  destruct HRes3 as (S3r & O3 & M3 & F3 & L3 & D3 & D3' & Fl3 & _). rewrite Ew in M3, F3, L3. cbn [fst snd] in M3, F3, L3.
  assert (Efr : frs3 = []) by (apply (proj2 M3); reflexivity). subst frs3.
  destruct O3 as [Or1 Or2 Or3 Or4 Or5 Or6]. cbn [Run] in Or5.
  assert (Efl3 : c_entity_floor c3 = 0) by (rewrite Fl3; apply (ci_floor _ I2)).
  assert (Eld3 : c_ld c3 = ld_init).
  { rewrite D3. apply (ld_run_init tr' ld' Hrun). rewrite D3'. replace (c_ld c2) with ld_init by congruence. reflexivity. }
  assert (I3 : CI c3) by (apply (CI_frame c0r c3 Or5 Efl3 Or1)).
  assert (A3 : c_after_text c3 = []) by (destruct Or5 as (_ & _ & _ & _ & _ & _ & X & _); rewrite <- X; exact Or2).
  assert (S3 : Step c2 c3 K3 e3) by (apply (Step_frame c2 c0r c3 _ _ Or5); [congruence|congruence|exact S3r]).
  assert (F3' : Forall2 (km text (d_attrs (c_doc c3))) K3 (tag_list (c_parent_id c2) (len_N (d_nodes (c_doc c2))) [erase root'])).
  { destruct Or5 as (_ & _ & _ & _ & _ & _ & _ & _ & X). rewrite <- X. exact F3. }
  clear F3. rename F3' into F3. cbn [map nattrs_items] in L3.
  pose proof (CstLex.W_app _ _ _ _ HW3) as HW4.
  set (p4 := p3 + blen (E.r_item root)) in *.
  pose proof (Step_nodes_len _ _ _ _ S3) as Ln3.
  rewrite (Forall2_len_N _ _ _ F3) in Ln3. unfold len_N at 3 in Ln3. rewrite tag_list_len in Ln3.
  pose proof (Step_opt _ _ _ _ (proj1 S3)) as Lo3.
  (* epilog *)
  unfold parse_misc. cbn [CstLex.st s_rest]. fold (CstLex.st text p4 (r_pairs A ++ wE ++ [])).
  destruct (misc_loop_ok text Hascii A p4 wE [] c3
              (S (length (r_pairs A ++ wE ++ []))) HW4 H9 H3)
    as (c4 & K4 & E4 & S4 & I4 & A4 & F4).
  { split; [exact Logic.I|split; reflexivity]. }
  { pose proof (pairs_len A H9). rewrite app_length. clia. }
  { exact I3. } { exact A3. }
  { rewrite nsizes_cons in Ln3. change (nsizes []) with 0 in Ln3. unfold node_room in *. rewrite Ln3, Lo3, Ln2, Lo2, Ln1, Lo1. clia. }
  rewrite E4. cbn [bind]. clear E4.
  pose proof (CstLex.W_app _ _ _ _ HW4) as HWc. pose proof (CstLex.W_app _ _ _ _ HWc) as HW5.
  rewrite CstLex.at_end_st by exact HW5. cbn [negb].
  exists c4, (K1 ++ K2 ++ K3 ++ K4). split; [reflexivity|].
  destruct S1 as (S1 & P1 & Q1). destruct S2 as (S2 & P2 & Q2). destruct S3 as (S3 & P3 & Q3). destruct S4 as (S4 & P4 & Q4).
  change (c_parent_id c1') with (c_parent_id c1) in P2. change (c_parent_prefixes c1') with (c_parent_prefixes c1) in Q2.
  split.
  { rewrite (s_nodes _ _ _ _ S4), (s_nodes _ _ _ _ S3), (s_nodes _ _ _ _ S2). change (c_doc c1') with (c_doc c1).
    rewrite (s_nodes _ _ _ _ S1), <- !app_assoc. reflexivity. }
  split; [congruence|]. split; [exact I4|].
  rewrite !tag_list_app. cbn [tag_list].
  pose proof (s_attrs _ _ _ _ S2) as X2. change (d_attrs (c_doc c1')) with (d_attrs (c_doc c1)) in X2.
  apply Forall2_app; [|apply Forall2_app; [|apply Forall2_app]].
  - rewrite (s_attrs _ _ _ _ S4), (s_attrs _ _ _ _ S3), X2, <- !app_assoc. apply km_Forall2_ext. exact F1.
  - rewrite (s_attrs _ _ _ _ S4), (s_attrs _ _ _ _ S3), <- !app_assoc. apply km_Forall2_ext.
    change (c_parent_id c1') with (c_parent_id c1) in F2. change (d_nodes (c_doc c1')) with (d_nodes (c_doc c1)) in F2.
    rewrite P1, Ln1 in F2. exact F2.
  - rewrite (s_attrs _ _ _ _ S4). apply km_Forall2_ext. rewrite P2, P1, Ln2, Ln1 in F3.
    cbn [tag_list] in F3. rewrite app_nil_r in F3. exact F3.
  - rewrite P3, P2, P1, Ln3, Ln2, Ln1 in F4. cbn [tag_list]. rewrite nsizes_cons in F4. change (nsizes []) with 0 in F4. rewrite N.add_0_r in F4. exact F4.
Qed.


Print Assumptions cparse_document_ok.
