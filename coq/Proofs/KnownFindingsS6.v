(* Proofs/KnownFindingsS6.v -- the "outside the class" half of the known finding D21 (Proofs/KnownFindingsD21.v) on the capstone
   fragment: for a document of Spec/CstFullS6.v -- entities with markup, Unicode, the full prolog -- whose inlined body carries,
   in one start tag, two namespace declarations of the same prefix other than xml (the URIs possibly supplied through
   references, the tag possibly inside the value of an entity), parse answers an error of the namespace family
   (Proofs/CstFullNsRejMain.v [ns_violation_rejected_full_s6]).  The D21 input itself is accepted on this fragment too. *)
From Coq Require Import Ascii String.
From Coq Require Import List NArith PeanoNat Bool Lia ZifyBool ZifyN ZifyNat.
Import ListNotations.
From RX Require Import Generated.
From RX.Model Require Import Base Stream Tokenizer Doc Builder Parse.
From RX.Spec Require Cst CstText CstEnt Detector CstNs CstU Scope.
From RX.Spec Require Import Text CstFull CstFullS4 CstFullS6.
From RX.Proofs Require Import CstNsView CstFullMain CstFullTree CstFullS4Sem CstFullS6Sanity.
From RX.Proofs Require Import CstFullRejSem CstFullRejMain CstFullRejSanity.
From RX.Proofs Require Import CstFullNsRejBuild CstFullNsRejText CstFullNsRejMain.
From RX.Proofs Require NsRejDefs NsRejBuild KnownFindingsD21 CstFullS4Main.
Notation vattrs := CstFullS4Main.vattrs.
Open Scope N_scope.

Notation dup_items := KnownFindingsD21.dup_items.

Lemma dup_items_ns : forall l inh, dup_items true l = true -> NsRejDefs.ns_items inh l = false.
Proof.
  induction l as [|c r IH]; intros inh H; [discriminate|]. cbn [KnownFindingsD21.dup_items] in H. cbn [NsRejDefs.ns_items].
  apply orb_true_iff in H. destruct H as [H|H]; [rewrite (KnownFindingsD21.dup_item_ns c inh H); reflexivity|rewrite (IH inh H); apply andb_false_r].
Qed.

(* some start tag of the inlined body declares a prefix other than xml twice *)
Definition dup_decl_outside_xml6 (cT : CstFull.doc bpieces) : bool := dup_items true (den bmeaning (d_root cT)).

Theorem d21_outside_class_s6 : forall (d : S6.doc) (opt : options) (cT : CstFull.doc bpieces) (tr : list Detector.lop),
  wf_syntax6 d = true -> ginline6 d = Some (cT, tr) ->
  Detector.within_limits 10 255 0 0 tr = true ->
  provisos_item (d_root cT) = true ->
  attrs_named_ok cT = true ->
  (S6.has_dtd d = true -> allow_dtd opt = true) ->
  N.of_nat (length (usem6 d cT)) < nodes_limit opt ->
  N.of_nat (length (usem6 d cT)) < u32_max ->
  N.of_nat (vattrs (usem6 d cT)) < u32_max ->
  CstFull.distinct_decls_le bmeaning cT (N.to_nat 65535) ->
  1 + N.of_nat (CstFull.ns_cost bmeaning cT) <= u32_max ->
  dup_decl_outside_xml6 cT = true ->
  exists e, parse (S6.render d) opt = Err e /\ is_ns_error e = true.
Proof.
  intros d opt cT tr Hwf Hinl Hlim Hprov Hao Hdtd Hn Hmax Hattr Hdist Hcost Hdup.
  apply (ns_violation_rejected_full_s6 d opt cT tr); try assumption.
  rewrite ns_ok_first6, Hao. cbn [andb]. unfold first_violation6. rewrite <- ns_items_viol.
  apply dup_items_ns. exact Hdup.
Qed.

(* the witness of D21, as a document of Spec/CstFullS6.v: accepted, with the meaning the spec gives it *)
Definition xml_uri_s := "http://www.w3.org/XML/1998/namespace"%string.
Definition d21_doc6 : S6.doc :=
  {| S6.x_bom := false; S6.x_decl := None; S6.x_dtd := None;
     S6.x_main := {| d_before := []; d_ws0 := [];
                     d_root := IElem (qn [] (b "a")) [@EDecl epieces (layb [32] [] [] 39) (b "xml") [lit (b xml_uri_s)];
                                                      @EDecl epieces (layb [32] [] [] 39) (b "xml") [lit (b xml_uri_s)]] [] None;
                     d_after := []; d_ws_end := [] |} |}.
Example d21_accepted_s6 :
  S6.render d21_doc6 = KnownFindingsD21.d21_text /\ S6.wf_doc d21_doc6 = true /\
  exists x, parse (S6.render d21_doc6) opt_dtd = Ok x /\ view (S6.render d21_doc6) x = Some (S6.sem d21_doc6).
Proof.
  split; [vm_compute; reflexivity|]. split; [vm_compute; reflexivity|]. apply within_accepted_b; vm_compute; reflexivity.
Qed.
(* ... and its neighbour with another prefix, the URI of the second declaration coming through a reference: rejected *)
Definition d21_neighbour6 : S6.doc :=
  with_sub [XT (b "u") [lit (b "urn:x")]] (em [] (b "a") [dc1 p_ [lit (b "urn:x")]; dc1 p_ [rf (b "u")]]).
Example d21_neighbour6_rejected :
  match ginline6 d21_neighbour6 with Some (cT, _) => dup_decl_outside_xml6 cT | None => false end = true /\
  match parse (S6.render d21_neighbour6) opt_dtd with Err (DuplicatedNamespace _ _) => True | _ => False end.
Proof. split; vm_compute; first [reflexivity|exact I]. Qed.

Print Assumptions d21_outside_class_s6.
Print Assumptions d21_accepted_s6.
