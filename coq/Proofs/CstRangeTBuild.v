(* Proofs/CstRangeTBuild.v -- C13 / C18 on the fragment of Spec/CstText.v, part 2: what the callback
   stores for a text run and for an attribute value, as a function of the pieces
   ([text_store], [value_plain] of CstRangeTDefs.v), and the ranges of the nodes it appends. *)
From Coq Require Import Ascii String.
From Coq Require Import List NArith PeanoNat Bool Lia ZifyBool ZifyN ZifyNat.
Import ListNotations.
From RX Require Import Generated.
From RX.Model Require Import Base CharClass Stream Tokenizer Doc Builder Parse.
From RX.Spec Require Cst CstText.
From RX.Spec Require Import Text.
From RX.Proofs Require Import Tactics BorrowLocal CstLex CstBuild CstTree CstItems TextMerge CstTextSem CstTextLex CstTextBuild CstTextItems
  CstRangeDefs CstRangeBuild CstRangeTDefs.
Open Scope N_scope.

(* ---- a stored value against its description ---- *)
Definition pr (s : slice) : N * N := (sl_start s, sl_end s).

Definition stored (st : storage) (d : tstore) : Prop :=
  match st, d with
  | Borrowed (SIn s), TBorrowed sp => pr s = sp
  | Owned bs, TOwned bs' => bs = bs'
  | _, _ => False
  end.

(* ---- lists ---- *)
Lemma existsb_or {A} (f g : A -> bool) l : existsb (fun x => f x || g x) l = existsb f l || existsb g l.
Proof.
  induction l as [|x l IH]; [reflexivity|]. cbn [existsb]. rewrite IH.
  destruct (f x), (g x), (existsb f l), (existsb g l); reflexivity.
Qed.

Lemma existsb_ext' {A} (f g : A -> bool) l : (forall x, In x l -> f x = g x) -> existsb f l = existsb g l.
Proof.
  induction l as [|x l IH]; intros H; [reflexivity|]. cbn [existsb]. rewrite (H x (or_introl eq_refl)), IH; [reflexivity|].
  intros y Hy. apply H. right. exact Hy.
Qed.

(* ---- where '&' occurs in a rendered value ---- *)
Definition lit_or_nil (ps : list T.piece) : bool :=
  match ps with [] => true | [T.PLit _] => true | _ => false end.

Lemma ref_amp q p : T.wf_vpiece q p = true -> T.is_lit p = false -> exists r, T.r_piece p = 38 :: r.
Proof. destruct p as [bs|hex ds|e|bs]; cbn; intros H N; try discriminate; eexists; reflexivity. Qed.

Lemma lit_no_amp q bs : T.wf_lit q bs = true -> existsb (fun x => x =? 38) bs = false.
Proof.
  intros H. apply lit_not_amp in H. induction bs as [|x r IH]; [reflexivity|].
  cbn [forallb existsb] in *. apply andb_true_iff in H. destruct H as [H1 H2]. rewrite IH by exact H2. lia.
Qed.

Lemma amp_iff_lit q ps : forallb (T.wf_vpiece q) ps = true -> T.no_adjacent_lit ps = true ->
  existsb (fun x => x =? 38) (T.r_pieces ps) = negb (lit_or_nil ps).
Proof.
  intros Hv Hadj. destruct ps as [|p r]; [reflexivity|].
  cbn [forallb] in Hv. apply andb_true_iff in Hv. destruct Hv as [Hp Hr].
  rewrite r_pieces_cons, existsb_app.
  destruct (T.is_lit p) eqn:El.
  - destruct p as [bs| | |]; try discriminate. cbn [T.wf_vpiece] in Hp. cbn [T.r_piece].
    rewrite (lit_no_amp q bs Hp). cbn [orb].
    destruct r as [|d r']; [reflexivity|]. cbn [lit_or_nil negb].
    rewrite no_adj_cons2 in Hadj. apply andb_true_iff in Hadj. destruct Hadj as [Hd _].
    cbn [T.is_lit andb] in Hd. apply negb_true_iff in Hd.
    cbn [forallb] in Hr. apply andb_true_iff in Hr. destruct Hr as [Hd1 _].
    destruct (ref_amp q d Hd1 Hd) as [t Et]. rewrite r_pieces_cons, Et. reflexivity.
  - destruct (ref_amp q p Hp El) as [t Et]. rewrite Et. cbn [existsb orb N.eqb]. rewrite N.eqb_refl. cbn [orb].
    destruct p; try discriminate; destruct r; reflexivity.
Qed.

(* ---- attribute values ---- *)
Lemma needs_norm_plain q ps : T.wf_value q ps = true -> needs_norm (T.r_pieces ps) = negb (value_plain ps).
Proof.
  unfold T.wf_value. intros H. apply andb_true_iff in H. destruct H as [Hv Hadj].
  unfold needs_norm.
  assert (E : existsb (fun x => (x =? 38) || (x =? 9) || (x =? 10) || (x =? 13)) (T.r_pieces ps) =
              existsb (fun x => x =? 38) (T.r_pieces ps) || has_tlc (T.r_pieces ps)).
  { unfold has_tlc. rewrite <- existsb_or. apply existsb_ext'. intros x _.
    destruct (x =? 38), (x =? 9), (x =? 10), (x =? 13); reflexivity. }
  rewrite E, (amp_iff_lit q ps Hv Hadj).
  destruct ps as [|p r]; [reflexivity|]. destruct p as [bs| | |]; try (destruct r; reflexivity).
  destruct r as [|d r']; [|reflexivity]. cbn [lit_or_nil negb orb value_plain].
  cbn [T.r_pieces flat_map T.r_piece]. rewrite app_nil_r, negb_involutive. reflexivity.
Qed.

(* ---- segments ---- *)
Lemma segs_single_ss : forall ps l, segs ps = [SS l] -> l = ps /\ forallb no_cdata ps = true.
Proof.
  induction ps as [|p r IH]; intros l H; [discriminate|].
  destruct p as [bs|hex ds|e|bs]; cbn [segs] in H; try discriminate;
    (destruct (segs r) as [|[l'|b0] t] eqn:Er;
     [injection H as <-; destruct r; [split; reflexivity|];
      exfalso; apply (segs_ne (p :: r)); [discriminate|exact Er]
     |injection H as <- ->; destruct (IH l' eq_refl) as [-> Hn]; split; [reflexivity|cbn [forallb no_cdata]; exact Hn]
     |discriminate]).
Qed.

Lemma segs_single_sc : forall ps bs, segs ps = [SC bs] -> ps = [T.PCData bs].
Proof.
  intros [|p r] bs H; [discriminate|].
  destruct p as [b0|hex ds|e|b0]; cbn [segs] in H; try (destruct (segs r) as [|[l'|b1] t]; discriminate).
  injection H as -> Hr. destruct r as [|d r']; [reflexivity|].
  exfalso. apply (segs_ne (d :: r')); [discriminate|exact Hr].
Qed.

Lemma segs_lit bs : segs [T.PLit bs] = [SS [T.PLit bs]]. Proof. reflexivity. Qed.
Lemma segs_cd bs : segs [T.PCData bs] = [SC bs]. Proof. reflexivity. Qed.

Section TB.
Variable text : bytes.

Notation W := (CstLex.W text).

(* ---- what is stored for a run ---- *)
Lemma ss_store p ps : ps <> [] -> forallb T.wf_tpiece ps = true -> forallb no_cdata ps = true ->
  T.no_adjacent_lit ps = true ->
  stored (cow_storage (frag p (SS ps))) (text_store p ps).
Proof.
  intros Hne H1 H2 H3. pose proof (ss_vpieces ps H1 H2) as Hv.
  cbn [frag]. cbv zeta.
  assert (E : existsb (fun y => (y =? 38) || (y =? 13)) (T.r_pieces ps) =
              existsb (fun x => x =? 38) (T.r_pieces ps) || has_cr (T.r_pieces ps))
    by (unfold has_cr; apply existsb_or).
  rewrite E, (amp_iff_lit 60 ps Hv H3).
  destruct ps as [|p0 r]; [congruence|].
  destruct p0 as [bs|hex ds|e|bs]; try discriminate.
  - destruct r as [|d r'].
    + cbn [lit_or_nil negb orb text_store]. cbn [T.r_pieces flat_map T.r_piece]. rewrite app_nil_r.
      destruct (has_cr bs); cbn [cow_storage stored]; reflexivity.
    + cbn [lit_or_nil negb orb cow_storage stored text_store]. destruct d; reflexivity.
  - cbn [lit_or_nil negb orb cow_storage stored text_store]. destruct r; reflexivity.
  - cbn [lit_or_nil negb orb cow_storage stored text_store]. destruct r; reflexivity.
Qed.

Lemma sc_store p bs : forallb T.is_tplain bs = true -> contains_b T.cdata_close bs = false ->
  stored (cow_storage (frag p (SC bs))) (text_store p [T.PCData bs]).
Proof.
  intros H1 H2. cbn [frag text_store]. rewrite mem_b_existsb. fold (has_cr bs).
  destruct (has_cr bs); cbn [cow_storage stored]; [|reflexivity].
  assert (Hw : forallb T.wf_tpiece [T.PCData bs] = true).
  { cbn [forallb T.wf_tpiece]. rewrite H1, andb_true_r. rewrite CstLex.contains_eq, H2. reflexivity. }
  rewrite (text_sem_segs [T.PCData bs] Hw eq_refl). cbn [segs map seg_sem concat]. rewrite app_nil_r. reflexivity.
Qed.

(* the storage of the Text node of a whole run *)
Lemma run_store p ps post st : T.wf_text ps = true -> W p (T.r_pieces ps ++ post) ->
  (match segs ps with
   | [s0] => st = cow_storage (frag p s0)
   | _ => st = Owned (concat (map (cow_bytes text) (frags p (segs ps))))
   end) ->
  stored st (text_store p ps).
Proof.
  unfold T.wf_text. rewrite !andb_true_iff. intros [[Hne H1] H2] HW Hst.
  destruct (segs_wf ps H1 H2) as (HF & _ & _).
  destruct (segs ps) as [|s0 [|s1 L]] eqn:Es.
  - exfalso. apply (segs_ne ps); [destruct ps; [discriminate|discriminate]|exact Es].
  - subst st. inversion HF as [|? ? Hs0 _]; subst. destruct s0 as [l|bs].
    + destruct (segs_single_ss ps l Es) as [-> Hn]. destruct Hs0 as (Hl & _).
      apply ss_store; assumption.
    + rewrite (segs_single_sc ps bs Es). destruct Hs0 as [A1 A2]. apply sc_store; assumption.
  - subst st. rewrite <- Es.
    rewrite (frags_bytes text (segs ps) p post); [|rewrite segs_render; exact HW|rewrite Es; exact HF].
    rewrite <- (text_sem_segs ps H1 H2).
    assert (Hts : text_store p ps = TOwned (T.text_sem ps)).
    { destruct ps as [|p0 r]; [reflexivity|]. destruct p0 as [bs|hex ds|e|bs]; try (destruct r; reflexivity).
      - destruct r as [|d r']; [rewrite segs_lit in Es; discriminate|reflexivity].
      - destruct r as [|d r']; [rewrite segs_cd in Es; discriminate|reflexivity]. }
    rewrite Hts. reflexivity.
Qed.

(* ---- the length of the first segment ---- *)
Lemma lead_len_plain p r : no_cdata p = true -> lead_len (p :: r) = blen (T.r_piece p) + lead_len r.
Proof. destruct p; try reflexivity. discriminate. Qed.

Lemma segs_sc_head r b0 t : segs r = SC b0 :: t -> lead_len r = 0.
Proof.
  destruct r as [|d r']; [discriminate|]. destruct d as [b1|hex ds|e|b1]; cbn [segs]; try reflexivity;
    destruct (segs r') as [|[?|?] ?]; discriminate.
Qed.

Lemma lead_len_ss : forall ps l t, segs ps = SS l :: t -> lead_len ps = blen (T.r_pieces l).
Proof.
  induction ps as [|p r IH]; intros l t H; [discriminate|].
  destruct (no_cdata p) eqn:Ep.
  2:{ destruct p; try discriminate. }
  rewrite (segs_cons_plain p r Ep) in H. rewrite (lead_len_plain p r Ep).
  destruct (segs r) as [|[l'|b0] t'] eqn:Er; injection H as <- _; rewrite r_pieces_cons, blen_app.
  - destruct r as [|d r']; [reflexivity|]. exfalso. apply (segs_ne (d :: r')); [discriminate|exact Er].
  - rewrite (IH l' t' eq_refl). reflexivity.
  - rewrite (segs_sc_head r b0 t' Er). reflexivity.
Qed.

Lemma run_head_seg ps s0 L : segs ps = s0 :: L -> run_head_len ps = blen (r_seg s0).
Proof.
  intros H. destruct s0 as [l|bs].
  - cbn [r_seg]. rewrite <- (lead_len_ss ps l L H). destruct ps as [|p r]; [discriminate|].
    destruct p; try reflexivity. discriminate.
  - destruct ps as [|p r]; [discriminate|]. destruct p as [b0|hex ds|e|b0]; cbn [segs] in H;
      try (destruct (segs r) as [|[?|?] ?]; discriminate).
    injection H as -> _. reflexivity.
Qed.

(* ---- ranges ---- *)
Lemma first_frag_rng t r c c' : c_after_text c = [] -> append_text t r c = Ok c' -> rng c' = rng c ++ [r].
Proof.
  intros Hat H. unfold append_text in H. rewrite Hat in H.
  apply bind_ok in H. destruct H as [c1 [H1 H]]. injection H as <-.
  apply bind_ok in H1. destruct H1 as [[id c2] [H2 H1]]. injection H1 as <-.
  destruct (append_node_rng _ _ _ _ _ H2) as (E2 & _). exact E2.
Qed.

Lemma attr_toks_attrs' : forall attrs q,
  Forall (fun t => match t with TAttribute _ _ _ _ _ _ => True | _ => False end) (attr_toks' q attrs).
Proof. induction attrs as [|a r IH]; intros q; cbn [attr_toks']; constructor; [exact I|apply IH]. Qed.

Lemma start_tag_rng' p name attrs q empty c c' :
  (let! c1 := evs context (Parse.token text) (start_toks' p name attrs) c in
   Parse.token text (end_tok q empty) c1) = Ok c' ->
  rng c' = rng c ++ [(p, q + (if empty then 2 else 1))].
Proof.
  intros H. apply bind_ok in H. destruct H as [c1 [H1 H2]].
  unfold start_toks' in H1. cbn [evs] in H1. apply bind_ok in H1. destruct H1 as [c0 [H0 H1]].
  destruct (start_rng text _ _ _ _ _ H0) as [E0 T0].
  destruct (attrs_rng text _ _ (attr_toks_attrs' attrs _) _ H1) as (E1 & T1 & _).
  unfold end_tok in H2. apply elem_end_rng in H2; [|destruct empty; exact I].
  rewrite H2, E1, E0, T1, T0. reflexivity.
Qed.

(* ---- the reset that ends a run, with the storage made explicit ---- *)
Lemma run_reset_r c nodes' t0 rest :
  CI c ->
  map abs_nd nodes' = absn (c_doc c) ++ [(Some (c_parent_id c), KText (cow_storage t0))] ->
  exists c2 st,
    reset_after_text text (set_after_text (run_ctx c nodes') (t0 :: rest)) = Ok c2 /\
    Step c c2 [(Some (c_parent_id c), KText st)] [] /\ CI c2 /\ c_after_text c2 = [] /\
    c_tag_name c2 = c_tag_name c /\
    storage_bytes text st = concat (map (cow_bytes text) (t0 :: rest)) /\
    match rest with
    | [] => st = cow_storage t0
    | _ => st = Owned (concat (map (cow_bytes text) (t0 :: rest)))
    end /\
    rng c2 = map nd_range nodes'.
Proof.
  intros I M.
  destruct (run_reset text c nodes' t0 rest I M) as (c2 & st & E & S & I2 & A2 & Tn & Hb & Hs).
  exists c2, st. split; [exact E|]. split; [exact S|]. split; [exact I2|]. split; [exact A2|].
  split; [exact Tn|]. split; [exact Hb|]. split.
  - destruct rest as [|t1 rest]; [apply Hs; reflexivity|].
    (* the merge: compute the reset and compare the last row *)
    destruct (map_snoc_inv abs_nd _ _ _ M) as (l0 & nd & El & M0 & Mr). subst nodes'.
    unfold abs_nd in Mr. injection Mr as Mp Mk.
    unfold reset_after_text in E. cbn [c_after_text set_after_text] in E.
    unfold merge_text in E. cbv zeta in E. cbn [c_doc set_after_text run_ctx set_awaiting set_doc d_nodes set_nodes] in E.
    rewrite rev_unit, Mk in E. cbn [c_after_text set_after_text] in E.
    unfold upd_node in E. replace (N.to_nat (len_N (l0 ++ [nd]) - 1)) with (length l0) in E
      by (unfold len_N; rewrite app_length; cbn; lia).
    rewrite list_upd_snoc in E. cbn [bind] in E. injection E as <-.
    destruct S as [S _]. pose proof (s_nodes _ _ _ _ S) as Hn.
    unfold absn in Hn. cbn [c_doc set_after_text run_ctx set_awaiting set_doc d_nodes set_nodes] in Hn.
    rewrite map_app in Hn. cbn [map] in Hn. fold (absn (c_doc c)) in Hn. rewrite M0 in Hn.
    apply app_inj_tail in Hn. destruct Hn as [_ Hn]. unfold abs_nd, nd_set_kind in Hn. cbn [nd_parent nd_kind] in Hn.
    injection Hn as _ Hn. symmetry. exact Hn.
  - destruct (reset_after_text_Rsame text _ _ E) as (R & _). rewrite R. reflexivity.
Qed.

End TB.

Print Assumptions run_store.
Print Assumptions run_reset_r.
