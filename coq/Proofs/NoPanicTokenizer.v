(* Proofs/NoPanicTokenizer.v -- the tokenizer never panics on valid UTF-8, whatever the callback
   (as long as the callback itself does not panic). *)
From Coq Require Import Ascii String.
From Coq Require Import List Arith NArith Bool Lia ZifyBool ZifyN ZifyNat.
Import ListNotations.
From RX Require Import Generated.
From RX.Model Require Import Base CharClass Stream Tokenizer.
From RX.Proofs Require Import Tactics NoPanicUtf8 NoPanicStream.
Open Scope N_scope.

Section Tok.
Variable text : bytes.
Hypothesis Hvalid : valid_utf8_b text = true.
Variable C : Type.
Variable ev : token -> C -> res C.
Hypothesis Hev : forall tok c0 q, ev tok c0 <> Panic q.

Notation stream := Stream.stream.
Notation SInv := (SInv text).
Notation Ext := (Ext text).
Notation Bd := (Boundary text).

Local Hint Resolve Ext_SInv Ext_refl : core.

Lemma ev_safe tok c : safe (ev tok c) (fun _ => True).
Proof. apply safe_of_no_panic. intros p. apply Hev. Qed.

(* chain of extensions *)
Ltac ext :=
  repeat first [ eassumption
               | apply (Ext_refl text Hvalid); solve [eauto]
               | eapply (Ext_trans text Hvalid); [eassumption|] ].

(* bind step using lemma L for the first computation *)
Ltac sb L := eapply safe_bind; [ eapply L; eauto; try reflexivity | ].

Definition PostS (s : stream) (r : stream * C) : Prop := Ext s (fst r).
Definition PostE (s : stream) (r : bool * stream * C) : Prop := Ext s (snd (fst r)).

Lemma parse_comment_safe s c : SInv s -> starts_with s (b "<!--") = true ->
  safe (parse_comment text C ev s c) (PostS s).
Proof.
  intros Hs Hsw. unfold parse_comment.
  sb (advance_kw text Hvalid (b "<!--")). intros s1 H1. cbv beta.
  sb consume_chars_safe. intros [txt s2] [H2 _]. cbv beta iota.
  sb skip_string_safe. intros s3 H3. cbv beta.
  destruct (contains_b _ _); [apply err_from_safe; auto|].
  destruct (ends_with_byte _ _); [apply err_from_safe; auto|].
  sb ev_safe. intros c1 _. cbn. unfold PostS; cbn [fst]. ext.
Qed.

Lemma parse_pi_safe s c : SInv s -> ascii_ahead 2 s ->
  safe (parse_pi text C ev s c) (PostS s).
Proof.
  intros Hs Ha. unfold parse_pi.
  destruct (starts_with s _); [apply err_at_safe; auto|].
  sb (advance_ascii text Hvalid 2). intros s1 H1. cbv beta.
  sb consume_name_safe. intros [target s2] [H2 _]. cbv beta iota zeta.
  pose proof (skip_spaces_safe text Hvalid s2 ltac:(eauto)) as H3.
  sb consume_chars_safe. intros [content s4] [H4 _]. cbv beta iota.
  sb skip_string_safe. intros s5 H5. cbv beta.
  sb ev_safe. intros c1 _. cbn. unfold PostS; cbn [fst]. ext.
Qed.

Lemma PostS_trans s s1 r : Ext s s1 -> PostS s1 r -> PostS s r.
Proof. unfold PostS. intros. eapply Ext_trans; eauto. Qed.

Lemma parse_misc_loop_safe : forall fu s c, SInv s ->
  safe (parse_misc_loop text C ev fu s c) (PostS s).
Proof.
  induction fu; intros s c Hs; cbn [parse_misc_loop]; [exact I|].
  destruct (at_end s). { cbn. unfold PostS; cbn. auto. }
  cbv zeta. pose proof (skip_spaces_safe text Hvalid s Hs) as H1.
  destruct (starts_with (skip_spaces s) (b "<!--")) eqn:E1.
  { sb parse_comment_safe. intros [s2 c2] H2. cbv beta iota. unfold PostS in H2; cbn [fst] in H2.
    eapply safe_mono; [apply IHfu; eauto|]. intros r Hr. eapply PostS_trans; [|exact Hr]. ext. }
  destruct (starts_with (skip_spaces s) (b "<?")) eqn:E2.
  { sb parse_pi_safe. { apply (starts_with_ascii_ahead text Hvalid _ (b "<?")); eauto. }
    intros [s2 c2] H2. cbv beta iota. unfold PostS in H2; cbn [fst] in H2.
    eapply safe_mono; [apply IHfu; eauto|]. intros r Hr. eapply PostS_trans; [|exact Hr]. ext. }
  cbn. exact H1.
Qed.

Lemma parse_misc_safe s c : SInv s -> safe (parse_misc text C ev s c) (PostS s).
Proof. apply parse_misc_loop_safe. Qed.

Lemma parse_attribute_safe s : SInv s -> safe (parse_attribute text s) (Ext s).
Proof.
  intros Hs. unfold parse_attribute.
  sb consume_qname_safe. intros [[p l] s1] H1. cbv beta iota.
  sb consume_eq_safe. intros s2 H2. cbv beta.
  sb consume_quote_safe. intros [q s3] [H3 Hq]. cbv beta iota.
  sb skip_chars_safe. intros s4 H4. cbv beta.
  sb slice_back_safe. { apply H4. } intros sl _.
  eapply safe_mono; [eapply consume_byte_safe; eauto|]. intros s5 H5. ext.
Qed.

Lemma decl_consume_spaces_safe s : SInv s -> safe (decl_consume_spaces text s) (Ext s).
Proof.
  intros Hs. unfold decl_consume_spaces.
  destruct (starts_with_space s). { cbn. apply skip_spaces_safe; auto. }
  destruct (starts_with s _); cbn [negb andb]. { cbn. auto. }
  destruct (at_end s) eqn:E; cbn [negb]. { cbn. auto. }
  sb curr_byte_unchecked_safe. { apply Hs. } intros x _. apply err_at_safe; auto.
Qed.

Lemma parse_declaration_safe s : SInv s -> starts_with s (b "<?xml") = true ->
  safe (parse_declaration text s) (Ext s).
Proof.
  intros Hs Hsw. unfold parse_declaration.
  sb (advance_kw text Hvalid (b "<?xml")). intros s1 H1. cbv beta.
  sb decl_consume_spaces_safe. intros s2 H2. cbv beta.
  destruct (starts_with s2 (b "version")); cbn [negb].
  2:{ eapply safe_mono; [eapply skip_string_safe; eauto; reflexivity|]. intros s3 H3. ext. }
  sb parse_attribute_safe. intros s3 H3. cbv beta.
  sb decl_consume_spaces_safe. intros s4 H4. cbv beta.
  eapply safe_bind with (Q := Ext s4).
  { destruct (starts_with s4 (b "encoding")); [|cbn; eauto].
    sb parse_attribute_safe. intros s5 H5.
    eapply safe_mono; [eapply decl_consume_spaces_safe; eauto|]. intros s6 H6. ext. }
  intros s5 H5. cbv beta.
  eapply safe_bind with (Q := Ext s5).
  { destruct (starts_with s5 (b "standalone")); [|cbn; eauto].
    eapply parse_attribute_safe; eauto. }
  intros s6 H6. cbv beta zeta.
  pose proof (skip_spaces_safe text Hvalid s6 ltac:(eauto)) as H7.
  eapply safe_mono; [eapply skip_string_safe; eauto; reflexivity|]. intros s8 H8. ext.
Qed.

Lemma parse_external_id_safe s : SInv s ->
  safe (parse_external_id text s) (fun r => Ext s (snd r)).
Proof.
  intros Hs. unfold parse_external_id.
  destruct (starts_with s (b "SYSTEM") || starts_with s (b "PUBLIC")) eqn:E.
  2:{ cbn. auto. }
  cbv zeta.
  eapply safe_bind with (Q := Ext s).
  { apply orb_true_iff in E as [E|E].
    - eapply (advance_kw text Hvalid (b "SYSTEM")); eauto.
    - eapply (advance_kw text Hvalid (b "PUBLIC")); eauto. }
  intros s1 H1. cbv beta.
  sb slice_back_safe. { apply Hs. } { apply H1. } intros id _.
  sb consume_spaces_safe. intros s2 H2. cbv beta.
  sb consume_quote_safe. intros [q s3] [H3 Hq]. cbv beta iota.
  sb consume_bytes_not. intros [sl s4] H4. cbv beta iota.
  sb consume_byte_safe. intros s5 H5. cbv beta.
  destruct (bytes_eqb _ _). { cbn. ext. }
  sb consume_spaces_safe. intros s6 H6. cbv beta.
  sb consume_quote_safe. intros [q' s7] [H7 Hq']. cbv beta iota.
  sb consume_bytes_not. intros [sl' s8] H8. cbv beta iota.
  sb consume_byte_safe. intros s9 H9. cbn. ext.
Qed.

Lemma parse_entity_def_safe s is_ge : SInv s ->
  safe (parse_entity_def text s is_ge) (fun r => Ext s (snd r)).
Proof.
  intros Hs. unfold parse_entity_def.
  sb curr_byte_safe. { apply Hs. } intros x _. cbv beta.
  destruct ((x =? 34) || (x =? 39)).
  { sb consume_quote_safe. intros [q s1] [H1 Hq]. cbv beta iota zeta.
    pose proof (skip_bytes_not text Hvalid s1 q Hq ltac:(eauto)) as H2.
    sb slice_back_safe. { apply H1. } { apply H2. } intros value ->.
    sb is_xml_str_safe. { apply H1. } { apply H2. } { apply H2. } intros _ _.
    sb consume_byte_safe. intros s3 H3. cbn. ext. }
  destruct ((x =? 83) || (x =? 80)).
  2:{ apply err_at_safe; auto. }
  sb parse_external_id_safe. intros [found s1] H1. cbn [snd] in H1. cbv beta iota.
  destruct found; [|apply err_at_safe; eauto].
  destruct is_ge; [|cbn; auto].
  cbv zeta. pose proof (skip_spaces_safe text Hvalid s1 ltac:(eauto)) as H2.
  destruct (starts_with (skip_spaces s1) (b "NDATA")) eqn:E; [|cbn; ext].
  sb (advance_kw text Hvalid (b "NDATA")). intros s3 H3. cbv beta.
  sb consume_spaces_safe. intros s4 H4. cbv beta.
  sb skip_name_safe. intros s5 H5. cbn. ext.
Qed.

Lemma parse_entity_decl_safe s c : SInv s -> starts_with s (b "<!ENTITY") = true ->
  safe (parse_entity_decl text C ev s c) (PostS s).
Proof.
  intros Hs Hsw. unfold parse_entity_decl.
  sb (advance_kw text Hvalid (b "<!ENTITY")). intros s1 H1. cbv beta.
  sb consume_spaces_safe. intros s2 H2. cbv beta.
  pose proof (try_consume_byte_safe text Hvalid 37 s2 ltac:(eauto) eq_refl) as H3.
  destruct (try_consume_byte 37 s2) as [pe s3]. cbn [snd] in H3. cbv zeta.
  eapply safe_bind with (Q := Ext s3).
  { destruct pe; [|cbn; eauto]. eapply consume_spaces_safe; eauto. }
  intros s4 H4. cbv beta.
  sb consume_name_safe. intros [name s5] [H5 _]. cbv beta iota.
  sb consume_spaces_safe. intros s6 H6. cbv beta.
  sb parse_entity_def_safe. intros [def s7] H7. cbn [snd] in H7. cbv beta iota.
  eapply safe_bind with (Q := fun _ => True).
  { destruct def; [|exact I]. destruct (negb pe); [apply ev_safe|exact I]. }
  intros c1 _. cbv beta.
  pose proof (skip_spaces_safe text Hvalid s7 ltac:(eauto)) as H8.
  sb consume_byte_safe. intros s9 H9. cbn. unfold PostS; cbn [fst]. ext.
Qed.

Lemma consume_decl_safe s : SInv s -> safe (consume_decl text s) (Ext s).
Proof.
  intros Hs. unfold consume_decl. cbv zeta.
  pose proof (skip_bytes_not text Hvalid s 62 eq_refl Hs) as H1.
  eapply safe_mono; [eapply consume_byte_safe; eauto; reflexivity|]. intros s2 H2. ext.
Qed.

Lemma parse_doctype_start_safe s : SInv s -> starts_with s (b "<!DOCTYPE") = true ->
  safe (parse_doctype_start text s)
       (fun s' => Ext s s' /\ exists x r, s_rest s' = x :: r /\ s_pos s' < s_end s' /\ ascii x = true
                                          /\ byte_is_space x = false).
Proof.
  intros Hs Hsw. unfold parse_doctype_start.
  sb (advance_kw text Hvalid (b "<!DOCTYPE")). intros s1 H1. cbv beta.
  sb consume_spaces_safe. intros s2 H2. cbv beta.
  sb skip_name_safe. intros s3 H3. cbv beta zeta.
  pose proof (skip_spaces_safe text Hvalid s3 ltac:(eauto)) as H4.
  sb parse_external_id_safe. intros [found s5] H5. cbn [snd] in H5. cbv beta iota.
  pose proof (skip_spaces_safe text Hvalid s5 ltac:(eauto)) as H6.
  sb curr_byte_safe. { apply H6. } intros x (r & Hr & Hlt). cbv beta.
  destruct (negb (x =? 91) && negb (x =? 62)) eqn:E; [apply err_at_safe; eauto|].
  cbn. split; [ext|]. exists x, r. repeat split; auto.
  - unfold ascii. lia.
  - assert (x = 91 \/ x = 62) as [->| ->] by lia; reflexivity.
Qed.

Lemma skip_bytes_nop f (s : stream) x r : s_rest s = x :: r -> f x = false ->
  s_rest (skip_bytes f s) = x :: r /\ s_pos (skip_bytes f s) = s_pos s /\
  s_end (skip_bytes f s) = s_end s.
Proof.
  intros Hr Hx. unfold skip_bytes. cbn [s_rest s_pos s_end]. rewrite Hr.
  assert (E : scan f (x :: r) (N.to_nat (s_end s - s_pos s)) = 0%nat).
  { destruct (N.to_nat (s_end s - s_pos s)); cbn; auto. rewrite Hx. reflexivity. }
  rewrite E. cbn [skipn]. repeat split; auto. lia.
Qed.

Lemma parse_doctype_loop_safe start : forall fu s c, SInv s ->
  safe (parse_doctype_loop text C ev fu start s c) (PostS s).
Proof.
  induction fu; intros s c Hs; cbn [parse_doctype_loop]; [exact I|].
  destruct (at_end s). { cbn. unfold PostS; cbn. auto. }
  cbv zeta. pose proof (skip_spaces_safe text Hvalid s Hs) as H1.
  set (s1 := skip_spaces s) in *.
  assert (Hloop : forall s2 c2, Ext s1 s2 ->
            safe (parse_doctype_loop text C ev fu start s2 c2) (PostS s)).
  { intros s2 c2 H2. eapply safe_mono; [apply IHfu; eauto|].
    intros r Hr. eapply PostS_trans; [|exact Hr]. ext. }
  destruct (starts_with s1 (b "<!ENTITY")) eqn:E1.
  { sb parse_entity_decl_safe. intros [s2 c2] H2. cbv beta iota. apply Hloop. exact H2. }
  destruct (starts_with s1 (b "<!--")) eqn:E2.
  { sb parse_comment_safe. intros [s2 c2] H2. cbv beta iota. apply Hloop. exact H2. }
  destruct (starts_with s1 (b "<?")) eqn:E3.
  { sb parse_pi_safe. { apply (starts_with_ascii_ahead text Hvalid _ (b "<?")); eauto. }
    intros [s2 c2] H2. cbv beta iota. apply Hloop. exact H2. }
  destruct (starts_with s1 (b "]")) eqn:E4.
  { sb (advance_kw text Hvalid (b "]")). intros s2 H2. cbv beta.
    pose proof (skip_spaces_safe text Hvalid s2 ltac:(eauto)) as H3.
    destruct (curr_byte_opt (skip_spaces s2)) as [x|] eqn:Ec; [|exact I].
    destruct (x =? 62) eqn:Ex; [|apply err_at_safe; eauto].
    apply (curr_byte_opt_some text Hvalid) in Ec as (r & Hr & Hlt). assert (x = 62) by lia. subst x.
    sb advance1_safe. intros s4 H4. cbn. unfold PostS; cbn [fst]. ext. }
  destruct (_ || _).
  { pose proof (consume_decl_safe s1 ltac:(eauto)) as Hd.
    destruct (consume_decl text s1) as [s2|e|p|]; cbn in Hd.
    - apply Hloop. exact Hd.
    - apply err_from_safe; auto.
    - contradiction.
    - exact I. }
  apply err_at_safe; eauto.
Qed.

Lemma parse_doctype_safe s c : SInv s -> starts_with s (b "<!DOCTYPE") = true ->
  safe (parse_doctype text C ev s c) (PostS s).
Proof.
  intros Hs Hsw. unfold parse_doctype. cbv zeta.
  sb parse_doctype_start_safe. intros s1 (H1 & x & r & Hr & Hlt & Hx & Hsp). cbv beta.
  pose proof (skip_spaces_safe text Hvalid s1 ltac:(eauto)) as H2.
  destruct (skip_bytes_nop byte_is_space s1 x r Hr Hsp) as (Hr2 & Hp2 & He2).
  fold (skip_spaces s1) in *.
  assert (Hadv : safe (advance 1 (skip_spaces s1)) (Ext (skip_spaces s1))).
  { eapply advance1_safe; eauto. lia. }
  match goal with |- safe (if ?c then _ else _) _ => destruct c end.
  - eapply safe_bind; [exact Hadv|]. intros s3 H3. cbn. unfold PostS; cbn [fst]. ext.
  - eapply safe_bind; [exact Hadv|]. intros s3 H3. cbv beta.
    eapply safe_mono; [apply parse_doctype_loop_safe; eauto|].
    intros r' Hr'. eapply PostS_trans; [|exact Hr']. ext.
Qed.

Lemma parse_element_loop_safe tag_start : forall fu s c, SInv s ->
  safe (parse_element_loop text C ev fu tag_start s c) (PostE s).
Proof.
  induction fu; intros s c Hs; cbn [parse_element_loop]; [exact I|].
  destruct (at_end s); [exact I|]. cbv zeta.
  pose proof (skip_spaces_safe text Hvalid s Hs) as H1. set (s1 := skip_spaces s) in *.
  sb curr_byte_safe. { apply H1. } intros x (r & Hr & Hlt). cbv beta.
  destruct (x =? 47) eqn:E47.
  { assert (x = 47) by lia. subst x.
    sb advance1_safe. intros s2 H2. cbv beta.
    sb consume_byte_safe. intros s3 H3. cbv beta.
    sb ev_safe. intros c1 _. cbn. unfold PostE; cbn [fst snd]. ext. }
  destruct (x =? 62) eqn:E62.
  { assert (x = 62) by lia. subst x.
    sb advance1_safe. intros s2 H2. cbv beta.
    sb ev_safe. intros c1 _. cbn. unfold PostE; cbn [fst snd]. ext. }
  eapply safe_bind with (Q := Ext s1).
  { destruct (starts_with_space s); [cbn; eauto|]. eapply consume_spaces_safe; eauto. }
  intros s2 H2. cbv beta.
  sb consume_qname_safe. intros [[prefix local] s3] H3. cbv beta iota.
  sb consume_eq_safe. intros s4 H4. cbv beta.
  sb consume_quote_safe. intros [q s5] [H5 Hq]. cbv beta iota.
  sb advance_until2_safe. intros s6 H6. cbv beta.
  sb slice_back_safe. { apply H5. } { apply H6. } intros value ->.
  sb is_xml_str_safe. { apply H5. } { apply H6. } { apply H6. } intros _ _.
  sb consume_byte_safe. intros s7 H7. cbv beta.
  sb ev_safe. intros c1 _.
  eapply safe_mono; [apply IHfu; eauto|]. intros r' Hr'. unfold PostE in *. ext.
Qed.

Lemma parse_element_safe s c : SInv s -> ascii_ahead 1 s ->
  safe (parse_element text C ev s c) (PostE s).
Proof.
  intros Hs Ha. unfold parse_element. cbv zeta.
  sb (advance_ascii text Hvalid 1). intros s1 H1. cbv beta.
  sb consume_qname_safe. intros [[prefix local] s2] H2. cbv beta iota.
  sb ev_safe. intros c1 _.
  eapply safe_mono; [apply parse_element_loop_safe; eauto|].
  intros r' Hr'. unfold PostE in *. ext.
Qed.

Lemma parse_cdata_safe s c : SInv s -> starts_with s (b "<![CDATA[") = true ->
  safe (parse_cdata text C ev s c) (PostS s).
Proof.
  intros Hs Hsw. unfold parse_cdata. cbv zeta.
  sb (advance_kw text Hvalid (b "<![CDATA[")). intros s1 H1. cbv beta.
  sb consume_chars_safe. intros [txt s2] [H2 _]. cbv beta iota.
  sb skip_string_safe. intros s3 H3. cbv beta.
  sb ev_safe. intros c1 _. cbn. unfold PostS; cbn [fst]. ext.
Qed.

Lemma parse_close_element_safe s c : SInv s -> ascii_ahead 2 s ->
  safe (parse_close_element text C ev s c) (PostS s).
Proof.
  intros Hs Ha. unfold parse_close_element. cbv zeta.
  sb (advance_ascii text Hvalid 2). intros s1 H1. cbv beta.
  sb consume_qname_safe. intros [[prefix local] s2] H2. cbv beta iota.
  pose proof (skip_spaces_safe text Hvalid s2 ltac:(eauto)) as H3.
  sb consume_byte_safe. intros s4 H4. cbv beta.
  sb ev_safe. intros c1 _. cbn. unfold PostS; cbn [fst]. ext.
Qed.

Lemma parse_text_safe s c : SInv s -> safe (parse_text text C ev s c) (PostS s).
Proof.
  intros Hs. unfold parse_text. cbv zeta.
  sb consume_chars_safe. intros [txt s1] [H1 _]. cbv beta iota.
  destruct (_ && _); [apply err_at_safe; eauto|].
  sb ev_safe. intros c1 _. cbn. unfold PostS; cbn [fst]. ext.
Qed.

Lemma parse_content_loop_safe : forall fu depth s c, SInv s ->
  safe (parse_content_loop text C ev fu depth s c) (PostS s).
Proof.
  induction fu; intros depth s c Hs; cbn [parse_content_loop]; [exact I|].
  destruct (at_end s) eqn:Eend. { cbn. unfold PostS; cbn. auto. }
  assert (Hloop : forall d s2 c2, Ext s s2 ->
            safe (parse_content_loop text C ev fu d s2 c2) (PostS s)).
  { intros d s2 c2 H2. eapply safe_mono; [apply IHfu; eauto|].
    intros r Hr. eapply PostS_trans; [|exact Hr]. ext. }
  sb curr_byte_unchecked_safe. { apply Hs. } intros x (r & Hr & Hlt). cbv beta.
  destruct (x =? 60) eqn:E60.
  2:{ sb parse_text_safe. intros [s2 c2] H2. cbv beta iota. apply Hloop. exact H2. }
  assert (x = 60) by lia. subst x.
  pose proof (next_byte_safe text Hvalid s ltac:(apply Hs)) as Hnb.
  destruct (next_byte s) as [y|e|p|]; cbn in Hnb; [|apply err_at_safe; auto|contradiction|exact I].
  destruct Hnb as (x' & r' & Hr' & Hlt'). rewrite Hr in Hr'. inversion Hr'; subst x' r. clear Hr'.
  destruct (y =? 33) eqn:E33.
  { destruct (starts_with s (b "<!--")) eqn:E1.
    { sb parse_comment_safe. intros [s2 c2] H2. cbv beta iota. apply Hloop. exact H2. }
    destruct (starts_with s (b "<![CDATA[")) eqn:E2.
    { sb parse_cdata_safe. intros [s2 c2] H2. cbv beta iota. apply Hloop. exact H2. }
    apply err_at_safe; auto. }
  destruct (y =? 63) eqn:E63.
  { assert (y = 63) by lia. subst y.
    sb parse_pi_safe. { eapply ascii_ahead_2; eauto. }
    intros [s2 c2] H2. cbv beta iota. apply Hloop. exact H2. }
  destruct (y =? 47) eqn:E47.
  { assert (y = 47) by lia. subst y.
    sb parse_close_element_safe. { eapply ascii_ahead_2; eauto. }
    intros [s2 c2] H2. cbv beta iota.
    destruct (depth =? 0); [cbn; exact H2|]. apply Hloop. exact H2. }
  sb parse_element_safe. { eapply ascii_ahead_1; eauto. }
  intros [[open s2] c2] H2. cbv beta iota. apply Hloop. exact H2.
Qed.

Lemma parse_content_safe s c : SInv s -> safe (parse_content text C ev s c) (PostS s).
Proof. apply parse_content_loop_safe. Qed.

Lemma bom_safe : safe (if starts_with (stream_new text) [239; 187; 191]
                      then advance 3 (stream_new text) else Ok (stream_new text))
                     (Ext (stream_new text)).
Proof.
  pose proof (SInv_new text Hvalid) as Hn.
  destruct (starts_with (stream_new text) [239; 187; 191]) eqn:E; [|cbn; auto].
  apply (starts_with_split text Hvalid) in E as [Hle [r Hr]]; [|apply Hn].
  change (blen [239; 187; 191]) with 3 in Hle.
  apply advance_safe; auto; [apply Hn|].
  destruct Hn as [(_ & _ & _ & Hbe) Hb0]. cbn [stream_new s_pos s_end s_rest] in *.
  destruct (char_step text Hvalid 0 (tlen text) Hb0 Hbe ltac:(lia)) as (c & n & Hd & _ & _ & Hb & _).
  cbn [N.to_nat skipn] in Hd. rewrite Hr in Hd.
  assert (Hc : exists c', decode1 ([239; 187; 191] ++ r) = Some (c', 3)) by (eexists; reflexivity).
  destruct Hc as [c' Hc]. rewrite Hc in Hd. inversion Hd; subst. exact Hb.
Qed.

Lemma parse_document_safe dtd c : safe (parse_document text C ev dtd c) (fun _ => True).
Proof.
  unfold parse_document. cbv zeta.
  eapply safe_bind; [apply bom_safe|]. intros s1 H1. cbv beta.
  eapply safe_bind with (Q := Ext s1).
  { destruct (starts_with_declaration s1) eqn:E; [|cbn; eauto].
    unfold starts_with_declaration in E. apply andb_true_iff in E as [E _].
    eapply parse_declaration_safe; eauto. }
  intros s2 H2. cbv beta.
  sb parse_misc_safe. intros [s3 c3] H3. unfold PostS in H3; cbn [fst] in H3. cbv beta iota.
  pose proof (skip_spaces_safe text Hvalid s3 ltac:(eauto)) as H4. set (s4 := skip_spaces s3) in *.
  eapply safe_bind with (Q := PostS s4).
  { destruct (starts_with s4 (b "<!DOCTYPE")) eqn:E; [|cbn; unfold PostS; cbn; eauto].
    destruct (negb dtd); [exact I|].
    sb parse_doctype_safe. intros [s5 c5] H5. cbv beta iota.
    eapply safe_mono; [apply parse_misc_safe; eauto|].
    intros r Hr. eapply PostS_trans; eauto. }
  intros [s5 c5] H5. unfold PostS in H5; cbn [fst] in H5. cbv beta iota.
  pose proof (skip_spaces_safe text Hvalid s5 ltac:(eauto)) as H6. set (s6 := skip_spaces s5) in *.
  eapply safe_bind with (Q := PostS s6).
  { destruct (curr_byte_opt s6) as [x|] eqn:Ec; [|cbn; unfold PostS; cbn; eauto].
    destruct (x =? 60) eqn:Ex; [|cbn; unfold PostS; cbn; eauto].
    apply (curr_byte_opt_some text Hvalid) in Ec as (r & Hr & Hlt). assert (x = 60) by lia. subst x.
    sb parse_element_safe. { eapply ascii_ahead_1; eauto. }
    intros [[open s7] c7] H7. unfold PostE in H7; cbn [fst snd] in H7. cbv beta iota.
    destruct open; [|cbn; exact H7].
    eapply safe_mono; [apply parse_content_safe; eauto|].
    intros r' Hr'. eapply PostS_trans; eauto. }
  intros [s7 c7] H7. unfold PostS in H7; cbn [fst] in H7. cbv beta iota.
  sb parse_misc_safe. intros [s8 c8] H8. unfold PostS in H8; cbn [fst] in H8. cbv beta iota.
  destruct (negb (at_end s8)); [apply err_at_safe; eauto|exact I].
Qed.

End Tok.

Theorem tokenizer_no_panic : forall (text : bytes) (C : Type) (ev : token -> C -> res C) (dtd : bool) (c : C) p,
  valid_utf8_b text = true ->
  (forall tok c0 q, ev tok c0 <> Panic q) ->
  parse_document text C ev dtd c <> Panic p.
Proof.
  intros text C ev dtd c p Hvalid Hev.
  eapply safe_no_panic. apply parse_document_safe; auto.
Qed.
Print Assumptions tokenizer_no_panic.
