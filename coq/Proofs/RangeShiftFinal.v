(* Proofs/RangeShiftFinal.v -- C13 (shift by prolog whitespace), part 6: only node 0 is the root
   (so every other node is shifted entirely), and the theorem. *)
From Coq Require Import Ascii String.
From Coq Require Import List Arith NArith Bool Lia ZifyBool ZifyN ZifyNat.
Import ListNotations.
From RX Require Import Generated.
From RX.Model Require Import Base CharClass Stream Tokenizer Doc Builder Parse.
From RX.Proofs Require Import Tactics NoPanicUtf8 NoPanicStream BorrowLocal BorrowTokenizer BorrowParse
  RangeArena RangeBuilder RangeShiftBase RangeShiftStream RangeShiftTokenizer RangeShiftBuilder
  RangeShiftParse.
Open Scope N_scope.

(* ---- no node but the first is a root ---- *)
Definition NRl (l : list node_data) : Prop :=
  forall i nd, nth_error l (S i) = Some nd -> is_root_kind (nd_kind nd) = false.
Definition NR (c : context) : Prop := NRl (d_nodes (c_doc c)).
Definition keepsNR (f : node_data -> node_data) : Prop :=
  forall x, is_root_kind (nd_kind x) = false -> is_root_kind (nd_kind (f x)) = false.

Lemma upd_node_NR nodes i f : keepsNR f -> NRl nodes -> okP (upd_node nodes i f) NRl.
Proof.
  intros Hf Hn l' H. unfold upd_node in H.
  destruct (list_upd nodes (N.to_nat i) f) as [l|] eqn:E; [|discriminate]. injection H as <-.
  apply list_upd_spec in E. destruct E as [_ HN]. intros j nd Hj. rewrite HN in Hj.
  destruct (Nat.eqb (S j) (N.to_nat i)).
  - destruct (nth_error nodes (S j)) as [x|] eqn:Ex; [|discriminate]. injection Hj as <-.
    apply Hf. eapply Hn; eauto.
  - eapply Hn; eauto.
Qed.

Lemma set_next_subtree_all_NR : forall ids nodes v, NRl nodes -> okP (set_next_subtree_all nodes ids v) NRl.
Proof.
  induction ids as [|i ids IH]; intros nodes v Hn; cbn [set_next_subtree_all]; [apply okP_ret; exact Hn|].
  eapply okP_bind; [apply upd_node_NR; [intros x Hx; exact Hx|exact Hn]|]. intros l Hl. apply IH. exact Hl.
Qed.

Ltac cproj :=
  cbn [c_opt c_ns_start_idx c_cur_attrs c_awaiting c_parent_prefixes c_entities c_after_text
       c_parent_id c_tag_name c_entity_floor c_ld c_doc
       set_doc set_ns_start_idx set_cur_attrs set_awaiting set_parent_prefixes set_entities
       set_after_text set_parent_id set_tag_name set_entity_floor set_ld
       d_nodes d_attrs d_ns_values d_ns_tree set_nodes set_attrs fst snd] in *.

Lemma append_node_NR kind r c : NR c -> is_root_kind kind = false ->
  okP (append_node kind r c) (fun x => NR (snd x)).
Proof.
  intros Hn Hk. unfold append_node.
  assert (H0 : forall new, nd_kind new = kind -> NRl (d_nodes (c_doc c) ++ [new])).
  { intros new Hnew j nd Hj. destruct (Nat.ltb_spec (S j) (length (d_nodes (c_doc c)))).
    - rewrite nth_error_app1 in Hj by assumption. eapply Hn; eauto.
    - rewrite nth_error_app2 in Hj by assumption.
      destruct (S j - length (d_nodes (c_doc c)))%nat as [|m]; cbn in Hj.
      + injection Hj as <-. rewrite Hnew. exact Hk.
      + destruct m; discriminate. }
  repeat ok_step ltac:(first [ apply upd_node_NR; [intros x Hx; exact Hx|first [eassumption|apply H0; reflexivity]]
                             | apply set_next_subtree_all_NR; eassumption ]).
  unfold NR. cproj. assumption.
Qed.

Definition same_nodes (c c' : context) : Prop := d_nodes (c_doc c') = d_nodes (c_doc c).
Lemma NR_same c c' : NR c -> same_nodes c c' -> NR c'.
Proof. unfold NR, same_nodes. intros H ->. exact H. Qed.

Section WithText.
Variable text : bytes.

Lemma merge_text_NR c : NR c -> okP (merge_text text c) NR.
Proof.
  intros Hn. unfold merge_text.
  repeat ok_step ltac:(first [apply upd_node_NR; [intros x Hx; reflexivity|exact Hn]]).
  unfold NR. cproj. assumption.
Qed.

Lemma reset_after_text_NR c : NR c -> okP (reset_after_text text c) NR.
Proof.
  intros Hn. unfold reset_after_text.
  repeat ok_step ltac:(first [apply merge_text_NR; exact Hn]); unfold NR in *; cproj; assumption.
Qed.

Lemma append_text_NR t r c : NR c -> okP (append_text t r c) NR.
Proof.
  intros Hn. unfold append_text.
  repeat ok_step ltac:(first [apply append_node_NR; [exact Hn|reflexivity]]); unfold NR in *; cproj; assumption.
Qed.

Lemma process_cdata_NR t r c : NR c -> okP (process_cdata text t r c) NR.
Proof. intros Hn. unfold process_cdata. cbv zeta. destruct (mem_b 13 _); apply append_text_NR; exact Hn. Qed.

Lemma process_attribute_nodes r ql el prefix local value c :
  okP (process_attribute text r ql el prefix local value c) (same_nodes c).
Proof.
  unfold process_attribute.
  eapply okP_bind; [apply normalize_attribute_same|]. intros [v c1] (E1 & _). cproj.
  repeat ok_step ltac:(first [apply (push_ns_same text)]); unfold same_nodes; cproj; congruence.
Qed.

Lemma resolve_attributes_nodes nss c : okP (resolve_attributes text nss c) (fun x => same_nodes c (snd x)).
Proof.
  unfold resolve_attributes.
  repeat ok_step ltac:(first [apply resolve_attrs_loop_spec]); unfold same_nodes; cproj; congruence.
Qed.

Lemma process_element_NR e r c : NR c -> okP (process_element text e r c) NR.
Proof.
  intros Hn. unfold process_element.
  destruct (slice_len _ =? 0). { destruct e; first [apply okP_panic|apply okP_err_from]. }
  eapply okP_bind; [apply resolve_namespaces_same|]. intros [nss c1] (E1 & _). cproj.
  eapply okP_bind; [apply resolve_attributes_nodes|]. intros [ar c3] E3. unfold same_nodes in E3. cproj.
  assert (Hn3 : NR c3).
  { unfold NR in *. rewrite E3. cproj. rewrite E1. exact Hn. }
  destruct e.
  - repeat ok_step ltac:(first [apply append_node_NR; [exact Hn3|reflexivity]]). unfold NR in *; cproj; assumption.
  - repeat ok_step ltac:(first [apply upd_node_NR; [intros x Hx; exact Hx|exact Hn3]]).
    all: unfold NR in *; cproj; assumption.
  - repeat ok_step ltac:(first [apply append_node_NR; [exact Hn3|reflexivity]]). unfold NR in *; cproj; assumption.
Qed.

Lemma token_with_NR ptext : (forall t r c, NR c -> okP (ptext t r c) NR) ->
  forall tok c, NR c -> okP (token_with text ptext tok c) NR.
Proof.
  intros Hp tok c Hn. unfold token_with.
  destruct tok as [tgt content r | t r | name value | prefix local start | r ql el prefix local value
                  | e r | t r | t r].
  - repeat ok_step ltac:(first [apply reset_after_text_NR; exact Hn | apply append_node_NR; [eassumption|reflexivity]]).
    assumption.
  - repeat ok_step ltac:(first [apply reset_after_text_NR; exact Hn | apply append_node_NR; [eassumption|reflexivity]]).
    assumption.
  - apply okP_ret. exact Hn.
  - repeat ok_step ltac:(first [apply reset_after_text_NR; exact Hn]). unfold NR in *; cproj; assumption.
  - eapply okP_weaken; [apply process_attribute_nodes|]. intros c' H'. eapply NR_same; eauto.
  - eapply okP_bind; [apply reset_after_text_NR; exact Hn|]. intros c1 H1. apply process_element_NR. exact H1.
  - apply Hp. exact Hn.
  - apply process_cdata_NR. exact Hn.
Qed.

Definition pc_okN (pc : Stream.stream -> context -> res (Stream.stream * context)) : Prop :=
  forall es c, NR c -> okP (pc es c) (fun x => NR (snd x)).

Lemma ptext_loop_NR pc r : pc_okN pc ->
  forall fuel s buf c, NR c -> okP (ptext_loop text pc r fuel s buf c) (fun x => NR (snd x)).
Proof.
  intros Hpc. induction fuel as [|fu IH]; intros s buf c Hn; cbn [ptext_loop]; [apply okP_fuel|].
  destruct (at_end s); [apply okP_ret; exact Hn|].
  apply okP_bind_any. intros [ch s1]. destruct ch.
  - apply IH; exact Hn.
  - apply IH; exact Hn.
  - eapply okP_bind with (Q' := NR).
    { destruct (negb _); [|apply okP_ret; exact Hn]. apply okP_bind_any. intros bs. apply append_text_NR. exact Hn. }
    intros c1 H1. apply okP_bind_any. intros ld1. apply okP_bind_any. intros ld2. cbv zeta.
    apply okP_bind_any. intros es.
    eapply okP_bind; [apply Hpc; unfold NR in *; cproj; exact H1|]. intros [s2 c2] H2. cproj.
    destruct (negb _); [apply okP_err|]. apply IH. unfold NR in *; cproj; exact H2.
Qed.

Lemma process_text_with_NR pc : pc_okN pc -> forall t r c, NR c -> okP (process_text_with text pc t r c) NR.
Proof.
  intros Hpc t r c Hn. rewrite process_text_with_eq. cbv zeta.
  destruct (negb _); [apply append_text_NR; exact Hn|].
  apply okP_bind_any. intros s0.
  eapply okP_bind; [apply ptext_loop_NR; eassumption|]. intros [buf c1] H1. cproj.
  destruct (negb _); [|apply okP_ret; exact H1]. apply okP_bind_any. intros bs. apply append_text_NR. exact H1.
Qed.

Lemma parse_content_lvl_NR : forall lvl, pc_okN (parse_content_lvl text lvl).
Proof.
  induction lvl as [|lvl IH]; intros es c Hn; cbn [parse_content_lvl]; [apply okP_fuel|].
  intros [s' c'] H. cbn [snd].
  refine (tokenizer_content_tokens_ok text context _ NR es c s' c' _ Hn H).
  intros tok c0 c1 _ H0 Hr. refine (token_with_NR _ _ tok c0 H0 c1 Hr).
  intros t r c2 H2. apply process_text_with_NR; assumption.
Qed.

Lemma parse_NR opt d : parse text opt = Ok d -> NRl (d_nodes d).
Proof.
  unfold parse. intros H.
  apply bind_ok in H. destruct H as [c0 [H0 H]].
  apply bind_ok in H. destruct H as [c1 [H1 H]].
  apply bind_ok in H. destruct H as [it [_ H]].
  apply bind_ok in H. destruct H as [he [_ H]].
  destruct (negb he); [discriminate|]. destruct (1 <? _); [discriminate|]. injection H as <-.
  assert (Hn0 : NR c0).
  { unfold init_context in H0. apply bind_ok in H0. destruct H0 as [d0 [Hd H0]]. injection H0 as <-.
    destruct (push_ns_same text _ _ _ d0 Hd) as [E1 _]. unfold NR. cproj. rewrite E1. cbn.
    intros [|j] nd Hj; discriminate. }
  refine (tokenizer_tokens_ok text context (Parse.token text) NR (allow_dtd opt) c0 c1 _ Hn0 H1).
  intros tok ca cb _ Ha Hr. unfold Parse.token, process_text in Hr.
  refine (token_with_NR _ _ tok ca Ha cb Hr).
  intros t r c2 H2. apply process_text_with_NR; [apply parse_content_lvl_NR|assumption].
Qed.

End WithText.

(* ------------------------------------------------------------------ *)
Lemma parse_nil opt d : parse [] opt = Ok d -> False.
Proof. intros H. vm_compute in H. discriminate. Qed.

Theorem parse_shift_whitespace_partial : forall ws text opt d, forallb byte_is_space ws = true -> valid_utf8_b text = true ->
  (* text does not start with a BOM or an XML declaration: those are only recognised at offset 0 *)
  starts_with (stream_new text) [239; 187; 191] = false -> starts_with_declaration (stream_new text) = false ->
  parse text opt = Ok d ->
  exists d', parse (ws ++ text) opt = Ok d' /\ len_N (d_nodes d') = len_N (d_nodes d) /\
    forall id nd nd', 0 < id -> nth_N (d_nodes d) id = Some nd -> nth_N (d_nodes d') id = Some nd' ->
      nd_range nd' = shift_range (blen ws) (nd_range nd).
Proof.
  intros ws text opt d Hws Hv Hbom Hdecl H.
  destruct ws as [|w ws'] eqn:Ews.
  - exists d. cbn [app]. split; [exact H|]. split; [reflexivity|].
    intros id nd nd' _ H1 H2. assert (nd' = nd) by congruence. subst nd'.
    unfold shift_range, blen. cbn [length N.of_nat]. rewrite !N.add_0_r. destruct (nd_range nd); reflexivity.
  - rewrite <- Ews in *. assert (Hne : ws <> []) by (rewrite Ews; discriminate).
    assert (Hte : text <> []) by (intros ->; exact (parse_nil opt d H)).
    exists (sh_doc (blen ws) d). split; [apply (parse_sh ws text Hv Hws opt d Hne Hte Hbom Hdecl H)|].
    cbn [sh_doc d_nodes]. split; [apply len_N_map|].
    intros id nd nd' Hid H1 H2. rewrite nth_N_map, H1 in H2. cbn [option_map] in H2. injection H2 as <-.
    cbn [sh_node nd_range].
    assert (Hnr : is_root_kind (nd_kind nd) = false).
    { unfold nth_N in H1. destruct (len_N (d_nodes d) <=? id); [discriminate|].
      apply (parse_NR text opt d H (Nat.pred (N.to_nat id)) nd).
      replace (S (Nat.pred (N.to_nat id))) with (N.to_nat id) by lia. exact H1. }
    rewrite Hnr. reflexivity.
Qed.
Print Assumptions parse_shift_whitespace_partial.
