(* Proofs/CstSound6c.v -- C08 soundness on stage S6 (Spec/CstFullS6.v), markup-valued entities whose TEXT
   contains references: the fragment [in_fragment_6c] and the statement.
   [in_fragment_6c text] is [in_fragment_6 text] (Proofs/CstSound6.v: P0-P7, P8' -- every declared literal is
   a well-formed S6 value, a literal with '<' being checked by the crate's own content tokenizer) together with
     A  [decl_6c] (scan): a literal that contains '<' (a markup value) contains no '&' at all (this is
        [in_fragment_6a]), OR no ATTRIBUTE VALUE of a tag of the literal contains '&': the crate's content
        tokenizer, run on the range of the literal with the callback of [markup_ok] that moreover refuses an
        attribute token whose value contains '&' ([cev]), accepts the literal ([markup_ok_c]).
   So the character data of a markup value may contain character references, predefined references and
   references to general entities (character data or markup, to any depth the crate accepts), and so may its
   comments / PIs / CDATA sections (as bytes); what is still excluded from [in_fragment_6] is a reference
   inside an attribute value or a namespace URI of an element OF A MARKUP VALUE. *)
From Coq Require Import String.
From Coq Require Import List NArith Bool Lia.
Import ListNotations.
From RX Require Import Generated.
From RX.Model Require Import Base CharClass Stream Tokenizer Doc Builder Parse.
From RX.Spec Require Cst Chars CstU CstNs CstText CstEnt Scope.
From RX.Spec Require Import CstFull CstFullS5 CstFullS6.
From RX.Proofs Require Import CstSound CstSoundT CstSoundN CstSoundP CstSound6.
Open Scope N_scope.

(* an attribute token whose value contains '&' *)
Definition att_bad (text : bytes) (tk : Tokenizer.token) : bool :=
  match tk with TAttribute _ _ _ _ _ v => mem_b 38 (slice_bytes text v) | _ => false end.
(* the callback of [markup_ok] that also refuses such a token *)
Definition cev (text : bytes) (tk : Tokenizer.token) (s : bst) : res bst :=
  if att_bad text tk then Err UnexpectedEndOfStream else bal_ev text tk s.
Definition markup_ok_c (text : bytes) (vs ve : N) : bool :=
  match stream_from_substr text vs ve with
  | Ok s =>
    match parse_content text bst (cev text) s (None, []) with
    | Ok (s', (None, [])) => at_end s'
    | _ => false
    end
  | _ => false
  end.

(* [l] starts at position q0 *)
Definition lit_6c (text : bytes) (q0 : N) (l : bytes) : bool :=
  match l with
  | q :: v => if (q =? 39) || (q =? 34)
              then let val := take_until q v in
                   if mem_b 60 val then negb (mem_b 38 val) || markup_ok_c text (q0 + 1) (q0 + 1 + blen val) else true
              else true
  | [] => true
  end.
Definition decl_6c (text : bytes) (p : N) (s : bytes) : bool :=
  if prefix_b (b "<!ENTITY") s then
    let r := skip_ws (skipn 8 s) in
    if is_pe r then true
    else let l := skip_ws (drop_name r) in lit_6c text (p + blen s - blen l) l
  else true.
Definition in_fragment_6c (text : bytes) : bool := in_fragment_6 text && scan_pos (decl_6c text) 0 text.

Definition parse_sound_fragment_6c_stmt : Prop :=
  forall text opt d, in_fragment_6c text = true -> allow_dtd opt = true -> parse text opt = Ok d ->
  exists c : S6.doc, S6.wf_doc c = true /\ S6.render c = text.

(* the fragment of Proofs/CstSound6bFinal.v is inside this one *)
Lemma decl_6a_6c text p s : decl_6a s = true -> decl_6c text p s = true.
Proof.
  unfold decl_6a, decl_6c. destruct (prefix_b (b "<!ENTITY") s); [|reflexivity]. cbv zeta.
  destruct (is_pe (skip_ws (skipn 8 s))); [reflexivity|]. unfold lit_6a, lit_6c.
  destruct (skip_ws (drop_name (skip_ws (skipn 8 s)))) as [|q v]; [reflexivity|]. destruct ((q =? 39) || (q =? 34)); [|reflexivity].
  cbv zeta. destruct (mem_b 60 (take_until q v)); [|reflexivity]. intros ->. reflexivity.
Qed.

Lemma scan_of_all (P : bytes -> bool) (Q : N -> bytes -> bool) : (forall p s, P s = true -> Q p s = true) ->
  forall l p, all_suffixes P l = true -> scan_pos Q p l = true.
Proof.
  intros HPQ. induction l as [|x r IH]; intros p H; cbn [all_suffixes scan_pos] in *; [apply HPQ; exact H|].
  apply andb_true_iff in H. destruct H as [H1 H2]. rewrite (HPQ _ _ H1), (IH _ H2). reflexivity.
Qed.

Lemma in_fragment_6a_6c text : in_fragment_6a text = true -> in_fragment_6c text = true.
Proof.
  unfold in_fragment_6a, in_fragment_6c. intros H. apply andb_true_iff in H. destruct H as [H1 H2]. rewrite H1. cbn [andb].
  apply (scan_of_all decl_6a (decl_6c text)); [intros p s; apply decl_6a_6c|exact H2].
Qed.
