(* Proofs/CstTextSanity.v -- Spec/CstText.v against the executable model on concrete documents
   (vm_compute): parse (render c) = Ok d with view d = sem c. *)
From Coq Require Import Ascii String.
From Coq Require Import List NArith Bool.
Import ListNotations.
From RX Require Import Generated.
From RX.Model Require Import Base CharClass Stream Tokenizer Doc Builder Parse.
From RX.Spec Require Cst.
From RX.Spec Require Import CstText.
From RX.Proofs Require CstMain.
Open Scope N_scope.

Definition opt0 : options := {| allow_dtd := false; nodes_limit := 1000 |}.

Fixpoint list_eqb {A} (e : A -> A -> bool) (x y : list A) : bool :=
  match x, y with [], [] => true | a :: x', c :: y' => e a c && list_eqb e x' y' | _, _ => false end.
Definition vnode_eqb (x y : Cst.vnode) : bool :=
  match x, y with
  | Cst.VElem n a m, Cst.VElem n' a' m' =>
    bytes_eqb n n' && list_eqb (fun p q => bytes_eqb (fst p) (fst q) && bytes_eqb (snd p) (snd q)) a a' && Nat.eqb m m'
  | Cst.VText s, Cst.VText s' => bytes_eqb s s'
  | Cst.VComment s, Cst.VComment s' => bytes_eqb s s'
  | Cst.VPI t v, Cst.VPI t' v' =>
    bytes_eqb t t' && match v, v' with Some u, Some u' => bytes_eqb u u' | None, None => true | _, _ => false end
  | _, _ => false
  end.

Definition check (c : doc) : bool :=
  wf_doc c &&
  match parse (render c) opt0 with
  | Ok d => list_eqb vnode_eqb (CstMain.view (render c) d) (sem c)
  | _ => false
  end.

Definition mk (root : item) : doc :=
  {| d_before := []; d_ws0 := []; d_root := root; d_after := []; d_ws_end := [] |}.
Definition el (name : string) (attrs : list attr) (cs : list item) : item := IElem (b name) attrs [] (Some (cs, [])).
Definition at_ (name : string) (q : N) (v : list piece) : attr :=
  {| a_ws := [32]; a_name := b name; a_ws1 := []; a_ws2 := []; a_quote := q; a_value := v |}.

(* "a&amp;b", "a<![CDATA[&]]>b", "a&#38;b", "a&#x26;b" all denote a&b *)
Example ex_amp1 : check (mk (el "r" [] [IText [PLit (b "a"); PPredef Amp; PLit (b "b")]])) = true.
Proof. vm_compute. reflexivity. Qed.
Example ex_amp2 : check (mk (el "r" [] [IText [PLit (b "a"); PCData (b "&"); PLit (b "b")]])) = true.
Proof. vm_compute. reflexivity. Qed.
Example ex_amp3 : check (mk (el "r" [] [IText [PLit (b "a"); PCharRef false (b "38"); PLit (b "b")]])) = true.
Proof. vm_compute. reflexivity. Qed.
Example ex_amp4 : check (mk (el "r" [] [IText [PLit (b "a"); PCharRef true (b "0026"); PLit (b "b")]])) = true.
Proof. vm_compute. reflexivity. Qed.
Example ex_amp_same :
  text_sem [PLit (b "a"); PPredef Amp; PLit (b "b")] = b "a&b" /\
  text_sem [PLit (b "a"); PCData (b "&"); PLit (b "b")] = b "a&b" /\
  text_sem [PLit (b "a"); PCharRef false (b "38"); PLit (b "b")] = b "a&b".
Proof. repeat split; reflexivity. Qed.

(* line ends: CR LF and lone CR in a literal; CR before a reference; CR at a CDATA boundary *)
Example ex_crlf : check (mk (el "r" [] [IText [PLit [97; 13; 10; 98; 13; 99; 13]]])) = true.
Proof. vm_compute. reflexivity. Qed.
Example ex_cr_ref : check (mk (el "r" [] [IText [PLit [97; 13]; PCharRef false (b "10"); PLit [10]]])) = true.
Proof. vm_compute. reflexivity. Qed.
Example ex_cr_ref_sem : text_sem [PLit [97; 13]; PCharRef false (b "10"); PLit [10]] = [97; 10; 10; 10].
Proof. reflexivity. Qed.
Example ex_cr_cdata : check (mk (el "r" [] [IText [PCData [97; 13]; PLit [10; 98]]])) = true.
Proof. vm_compute. reflexivity. Qed.
Example ex_cr_cdata_sem : text_sem [PCData [97; 13]; PLit [10; 98]] = [97; 10; 10; 98].
Proof. reflexivity. Qed.
Example ex_lit_cr_cdata : check (mk (el "r" [] [IText [PLit [120; 13]; PCData [10; 121]; PCData []; PCData [13; 10]]])) = true.
Proof. vm_compute. reflexivity. Qed.
(* referenced CR is kept *)
Example ex_ref_cr : check (mk (el "r" [] [IText [PCharRef false (b "13"); PLit [10]]])) = true.
Proof. vm_compute. reflexivity. Qed.
(* an empty CDATA section alone: one Text node with the empty string *)
Example ex_empty_cdata : check (mk (el "r" [] [IText [PCData []]])) = true.
Proof. vm_compute. reflexivity. Qed.
Example ex_empty_cdata_sem : sem (mk (el "r" [] [IText [PCData []]])) = [Cst.VElem (b "r") [] 1; Cst.VText []].
Proof. reflexivity. Qed.
(* a non-ASCII character by reference: U+20AC -> E2 82 AC *)
Example ex_euro : check (mk (el "r" [] [IText [PCharRef true (b "20AC"); PCharRef false (b "128512")]])) = true.
Proof. vm_compute. reflexivity. Qed.
(* markup characters inside CDATA; text between elements, comments and PIs *)
Example ex_mixed : check (mk (el "r" [] [IText [PCData (b "<a>&amp;")]; IComment (b "c"); IText [PLit (b "]]"); PPredef Gt];
                                          el "e" [] []; IText [PLit (b "t")]; IPI (b "p") [] []])) = true.
Proof. vm_compute. reflexivity. Qed.

(* attribute values: TAB / LF / CR / CR LF become spaces, referenced characters are kept *)
Example ex_attr1 : check (mk (el "r" [at_ "x" 34 [PLit [97; 9; 98; 13; 10; 99; 13; 100; 10]]] [])) = true.
Proof. vm_compute. reflexivity. Qed.
Example ex_attr1_sem : value_sem [PLit [97; 9; 98; 13; 10; 99; 13; 100; 10]] = [97; 32; 98; 32; 99; 32; 100; 32].
Proof. reflexivity. Qed.
Example ex_attr2 : check (mk (el "r" [at_ "x" 39 [PLit [97; 13]; PCharRef false (b "10"); PCharRef true (b "9"); PPredef Lt;
                                                   PPredef Apos; PLit (b """ok"""); PCharRef true (b "e9")];
                                      at_ "y" 34 []] [])) = true.
Proof. vm_compute. reflexivity. Qed.
Example ex_attr2_sem : value_sem [PLit [97; 13]; PCharRef false (b "10"); PCharRef true (b "9")] = [97; 32; 10; 9].
Proof. reflexivity. Qed.

(* what wf excludes and the parser rejects *)
Example rej_cdata_end : wf_doc (mk (el "r" [] [IText [PLit (b "a]]>b")]])) = false /\
  match parse (b "<r>a]]>b</r>") opt0 with Err _ => True | _ => False end.
Proof. split; vm_compute; auto. Qed.
Example rej_charref0 : wf_doc (mk (el "r" [] [IText [PCharRef false (b "0")]])) = false /\
  match parse (b "<r>&#0;</r>") opt0 with Err _ => True | _ => False end.
Proof. split; vm_compute; auto. Qed.
