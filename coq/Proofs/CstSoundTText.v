(* Proofs/CstSoundTText.v -- C08 soundness on the fragment of Spec/CstText.v, builder half, part 2:
   the PIECES of a text token and of an attribute value.  They are read off the acceptance of the
   token by the builder: process_text_with / norm_attr_lvl walk over the token byte by byte and
   every '&' must start a character reference or a predefined reference ([consume_reference]; no
   entity is declared).  Streams over a token are windows [sst e p ..] on the text. *)
From Coq Require Import String.
From Coq Require Import List Arith NArith Bool Lia ZifyBool ZifyN ZifyNat.
Import ListNotations.
From RX Require Import Generated.
From RX.Model Require Import Base CharClass Stream Tokenizer Doc Builder Parse.
From RX.Spec Require Cst Chars.
From RX.Spec Require CstText.
From RX.Proofs Require Import Tactics CstLex CstTextLex.
From RX.Proofs Require RejectProofs CharTablesProofs BorrowParse WfParse CstBuild.
From RX.Proofs Require Import CstSound CstSoundT CstSoundTLex CstSoundBuild CstSoundTBuild.
Open Scope N_scope.

(* ------------------------------------------------------------------------------------------ *)
(* piece lists built from the left                                                              *)

Definition cons_lit (x : N) (ps : list T.piece) : list T.piece :=
  match ps with T.PLit bs :: r => T.PLit (x :: bs) :: r | _ => T.PLit [x] :: ps end.

Definition piece_ok (p : T.piece) : Prop :=
  match p with
  | T.PLit bs => bs <> [] /\ Forall (fun x => x <> 38) bs
  | T.PCharRef hex ds => T.wf_charref hex ds = true
  | T.PPredef _ => True
  | T.PCData _ => False
  end.
Definition pieces_ok (ps : list T.piece) : Prop := Forall piece_ok ps /\ T.no_adjacent_lit ps = true.

Lemma r_cons_lit x ps : T.r_pieces (cons_lit x ps) = x :: T.r_pieces ps.
Proof. destruct ps as [|[bs| | |] r]; reflexivity. Qed.

Lemma pieces_ok_nil : pieces_ok [].
Proof. split; [constructor|reflexivity]. Qed.

Lemma pieces_ok_lit x ps : x <> 38 -> pieces_ok ps -> pieces_ok (cons_lit x ps).
Proof.
  intros Hx [HF HA]. destruct ps as [|p r]; [split; [constructor; [split; [discriminate|constructor; [exact Hx|constructor]]|constructor]|reflexivity]|].
  inversion HF as [|? ? Hp Hr]; subst. destruct p as [bs|hex ds|pe|bs]; cbn [cons_lit].
  - destruct Hp as [_ Hb]. split; [constructor; [split; [discriminate|constructor; assumption]|exact Hr]|].
    destruct r as [|p2 r2]; [reflexivity|]. exact HA.
  - split; [constructor; [split; [discriminate|constructor; [exact Hx|constructor]]|exact HF]|].
    change (negb (true && false) && T.no_adjacent_lit (T.PCharRef hex ds :: r) = true). exact HA.
  - split; [constructor; [split; [discriminate|constructor; [exact Hx|constructor]]|exact HF]|].
    change (negb (true && false) && T.no_adjacent_lit (T.PPredef pe :: r) = true). exact HA.
  - destruct Hp.
Qed.

Lemma pieces_ok_ref p ps : piece_ok p -> T.is_lit p = false -> pieces_ok ps -> pieces_ok (p :: ps).
Proof.
  intros Hp Hl [HF HA]. split; [constructor; assumption|].
  destruct ps as [|p2 r]; [reflexivity|].
  change (negb (T.is_lit p && T.is_lit p2) && T.no_adjacent_lit (p2 :: r) = true). rewrite Hl. exact HA.
Qed.

(* ------------------------------------------------------------------------------------------ *)
(* general list facts                                                                           *)

Lemma span_spec (f : N -> bool) : forall x l', forallb f x = true -> stops f l' -> span f (x ++ l') = (x, l').
Proof.
  induction x as [|a x IH]; intros l' Hx Hl.
  - cbn [app]. destruct l' as [|c l']; [reflexivity|]. cbn [span]. cbn [stops] in Hl. rewrite Hl. reflexivity.
  - cbn [forallb] in Hx. apply andb_true_iff in Hx. destruct Hx as [Ha Hx]. cbn [app span]. rewrite Ha, (IH _ Hx Hl). reflexivity.
Qed.

Lemma scan_full (f : N -> bool) : forall x m, forallb f x = true -> scan f (x ++ m) (length x) = length x.
Proof.
  induction x as [|a x IH]; intros m H; [destruct m; reflexivity|]. cbn [forallb] in H. apply andb_true_iff in H.
  destruct H as [Ha Hx]. cbn [app length scan]. rewrite Ha, (IH _ Hx). reflexivity.
Qed.

Lemma charrefs_skipn : forall n l, charrefs_scalar l = true -> charrefs_scalar (skipn n l) = true.
Proof.
  induction n as [|n IH]; intros l H; [exact H|]. destruct l as [|x l]; [exact H|]. cbn [skipn]. apply IH.
  cbn [charrefs_scalar] in H. apply andb_true_iff in H. tauto.
Qed.

Lemma prefix_mono n : forall a m, prefix_b n a = true -> prefix_b n (a ++ m) = true.
Proof.
  induction n as [|x n IH]; intros a m H; [reflexivity|]. destruct a as [|y a]; [discriminate|].
  cbn [prefix_b app] in *. apply andb_true_iff in H. destruct H as [H1 H2]. rewrite H1, (IH _ _ H2). reflexivity.
Qed.

Lemma contains_mono_l n : n <> [] -> forall a m, contains_b n a = true -> contains_b n (a ++ m) = true.
Proof.
  intros Hn. induction a as [|y a IH]; intros m H; [destruct n; [congruence|discriminate]|].
  cbn [contains_b app] in *. apply orb_true_iff in H. destruct H as [H|H].
  - pose proof (prefix_mono n (y :: a) m H) as Hp. cbn [app] in Hp. rewrite Hp. reflexivity.
  - rewrite (IH _ H). apply orb_true_r.
Qed.

Lemma contains_mono_r n : forall a m, contains_b n m = true -> contains_b n (a ++ m) = true.
Proof.
  induction a as [|y a IH]; intros m H; [exact H|]. cbn [app contains_b]. rewrite (IH _ H). apply orb_true_r.
Qed.

Lemma contains_mid n pre x post : n <> [] -> contains_b n (pre ++ x ++ post) = false -> contains_b n x = false.
Proof.
  intros Hn H. destruct (contains_b n x) eqn:E; [|reflexivity].
  rewrite (contains_mono_r n pre _ (contains_mono_l n Hn _ post E)) in H. discriminate.
Qed.

Lemma digit_classes x : is_ascii_hexdigit x = T.is_digit true x /\ is_ascii_digit x = T.is_digit false x.
Proof.
  unfold is_ascii_hexdigit, is_ascii_digit, T.is_digit. split.
  - destruct ((48 <=? x) && (x <=? 57)); cbn [orb andb]; reflexivity.
  - cbn [andb]. rewrite orb_false_r. reflexivity.
Qed.

Lemma digits_classes (hex : bool) (ds : bytes) : forallb (if hex then is_ascii_hexdigit else is_ascii_digit) ds = forallb (T.is_digit hex) ds.
Proof.
  induction ds as [|x ds IH]; [reflexivity|]. cbn [forallb]. rewrite IH. destruct (digit_classes x) as [A B].
  destruct hex; [rewrite A|rewrite B]; reflexivity.
Qed.

Lemma scalar_eq n : Chars.scalar n = is_scalar n.
Proof. reflexivity. Qed.

Lemma ref_ok_at_hex ds tail : forallb (T.is_digit true) ds = true ->
  ref_ok_at (120 :: ds ++ 59 :: tail) = Chars.scalar (T.ref_val true ds).
Proof.
  intros Hd. unfold ref_ok_at. rewrite (span_spec (T.is_digit true) ds (59 :: tail) Hd eq_refl). reflexivity.
Qed.

Lemma ref_ok_at_dec rest ds tail : match rest with 120 :: _ => False | _ => True end ->
  rest = ds ++ 59 :: tail -> forallb (T.is_digit false) ds = true ->
  ref_ok_at rest = Chars.scalar (T.ref_val false ds).
Proof.
  intros Hx E Hd. unfold ref_ok_at.
  match goal with |- (let '(h, r) := ?M in _) = _ => assert (Em : M = (false, rest)) end.
  { destruct rest as [|x r]; [reflexivity|]. destruct (N.eq_dec x 120) as [->|Hne]; [destruct Hx|].
    destruct x as [|pp]; [reflexivity|]. do 7 (destruct pp as [pp|pp|]; try reflexivity). congruence. }
  rewrite Em. rewrite E, (span_spec (T.is_digit false) ds (59 :: tail) Hd eq_refl). reflexivity.
Qed.

(* ------------------------------------------------------------------------------------------ *)
(* windows on the text                                                                          *)

Section Text.
Variable text : bytes.
Hypothesis HF : FragT text.
Notation W := (CstLex.W text).
Notation sb := (slice_bytes text).
Notation T_ := (Parse.token text).

(* the stream [sst e p (l ++ more)]: [l] is what is left of the window *)
Definition WS (e p : N) (l more : bytes) : Prop := W p (l ++ more) /\ p + blen l = e.

Lemma WS_cons e p x l more : WS e p (x :: l) more -> WS e (p + 1) l more.
Proof. intros [H1 H2]. split; [apply (W_cons text _ _ _ H1)|rewrite blen_cons in H2; lia]. Qed.

Lemma WS_app e p x l more : WS e p (x ++ l) more -> WS e (p + blen x) l more.
Proof. intros [H1 H2]. rewrite <- app_assoc in H1. split; [apply (W_app text _ _ _ H1)|rewrite blen_app in H2; lia]. Qed.

Lemma WS_ascii e p l more : WS e p l more -> Forall (fun x => x < 128) l.
Proof.
  intros [H _]. pose proof (W_Suf text HF _ _ H) as [Hp _]. rewrite forallb_app in Hp. apply andb_true_iff in Hp.
  destruct Hp as [Hp _]. apply Forall_forall. intros x Hx. rewrite forallb_forall in Hp.
  destruct (plain_char _ (Hp x Hx)). assumption.
Qed.

Lemma try_ws c e p l more : WS e p l more ->
  try_consume_byte c (sst e p (l ++ more)) =
  match l with
  | x :: l' => if x =? c then (true, sst e (p + 1) (l' ++ more)) else (false, sst e p (l ++ more))
  | [] => (false, sst e p (l ++ more))
  end.
Proof.
  intros [_ H]. destruct l as [|x l'].
  - rewrite blen_nil in H. unfold try_consume_byte. rewrite curr_byte_opt_end by lia. reflexivity.
  - rewrite blen_cons in H. cbn [app]. destruct (x =? c) eqn:E.
    + assert (x = c) by lia. subst x. apply try_yes. lia.
    + apply try_no. lia.
Qed.

Lemma skip_bytes_ws f e p l more : WS e p l more ->
  exists x l', l = x ++ l' /\ forallb f x = true /\ stops f l' /\
    skip_bytes f (sst e p (l ++ more)) = sst e (p + blen x) (l' ++ more) /\ WS e (p + blen x) l' more.
Proof.
  intros HW. destruct (span_split f l) as (x & l' & -> & Hx & Hl). exists x, l'.
  split; [reflexivity|]. split; [exact Hx|]. split; [exact Hl|]. split; [|apply WS_app; exact HW].
  destruct HW as [_ H]. rewrite blen_app in H. rewrite <- app_assoc. destruct l' as [|y l'].
  - cbn [app]. unfold skip_bytes, sst. cbn [s_pos s_end s_rest]. rewrite blen_nil in H.
    replace (N.to_nat (e - p)) with (length x) by (unfold blen in H; lia).
    rewrite scan_full by exact Hx. rewrite skipn_len_app. reflexivity.
  - apply skip_bytes_sst; [exact Hx|exact Hl|lia].
Qed.

Lemma consume_byte_ws c e p l more s' : WS e p l more -> consume_byte text c (sst e p (l ++ more)) = Ok s' ->
  exists l', l = c :: l' /\ s' = sst e (p + 1) (l' ++ more).
Proof.
  intros [_ Hw] H. unfold consume_byte in H. ib H x Hx. unfold curr_byte in Hx. rewrite at_end_sst in Hx.
  destruct l as [|y l']; [rewrite blen_nil in Hw; replace (e <=? p) with true in Hx by lia; discriminate|].
  rewrite blen_cons in Hw. replace (e <=? p) with false in Hx by lia. cbn in Hx. inversion Hx; subst y.
  destruct (x =? c) eqn:E; cbn [negb] in H; [|noerr]. assert (x = c) by lia. subst x.
  cbn [app] in H. rewrite advance1_sst in H by lia. inversion H; subst. eauto.
Qed.

Lemma skip_name_loop_ws : forall fuel e p l more s', WS e p l more ->
  skip_name_loop fuel (sst e p (l ++ more)) = Ok s' ->
  exists x l', l = x ++ l' /\ s' = sst e (p + blen x) (l' ++ more).
Proof.
  induction fuel as [|fu IH]; intros e p l more s' HW H; cbn [skip_name_loop] in H; [noerr|].
  pose proof (WS_ascii _ _ _ _ HW) as Ha. destruct HW as [HW0 Hw].
  destruct l as [|c l'].
  { unfold next_char in H. rewrite at_end_sst in H. rewrite blen_nil in Hw. replace (e <=? p) with true in H by lia.
    cbn [bind] in H. inversion H; subst. exists [], []. rewrite blen_nil, N.add_0_r. auto. }
  rewrite blen_cons in Hw. assert (Hc128 : c < 128) by (inversion Ha; assumption).
  cbn [app] in H. rewrite next_char_sst in H by lia. cbn [bind] in H.
  destruct (char_is_name c).
  - rewrite advance1_sst in H by lia. cbn [bind] in H.
    assert (HW1 : WS e (p + 1) l' more) by (apply (WS_cons e p c); split; [exact HW0|rewrite blen_cons; lia]).
    destruct (IH _ _ _ _ _ HW1 H) as (x & l2 & -> & ->). exists (c :: x), l2.
    rewrite blen_cons. replace (p + (1 + blen x)) with (p + 1 + blen x) by lia. auto.
  - inversion H; subst. exists [], (c :: l'). rewrite blen_nil, N.add_0_r. auto.
Qed.

Lemma consume_name_ws e p l more nm s' : WS e p l more -> consume_name text (sst e p (l ++ more)) = Ok (nm, s') ->
  exists name l', l = name ++ l' /\ name <> [] /\ sb nm = name /\ s' = sst e (p + blen name) (l' ++ more) /\
                  WS e (p + blen name) l' more.
Proof.
  intros HW H. pose proof (WS_ascii _ _ _ _ HW) as Ha. pose proof HW as [HW0 Hw].
  unfold consume_name in H. cbn [sst s_pos] in H. ib H s1 H1. ib H s2 H2.
  unfold slice_back in H2. apply mk_slice_sl in H2. subst s2.
  destruct (slice_len (sl p (s_pos s1)) =? 0) eqn:El; [noerr|]. injection H as <- <-.
  unfold skip_name in H1. destruct l as [|c l'].
  { unfold next_char in H1. rewrite at_end_sst in H1. rewrite blen_nil in Hw. replace (e <=? p) with true in H1 by lia.
    cbn [bind] in H1. injection H1 as <-. unfold slice_len in El. cbn in El. lia. }
  rewrite blen_cons in Hw. assert (Hc128 : c < 128) by (inversion Ha; assumption).
  cbn [app] in H1. rewrite next_char_sst in H1 by lia. cbn [bind] in H1.
  destruct (char_is_name_start c); [|noerr].
  rewrite advance1_sst in H1 by lia. cbn [bind] in H1.
  assert (HW1 : WS e (p + 1) l' more) by (apply (WS_cons e p c); exact HW).
  destruct (skip_name_loop_ws _ _ _ _ _ _ HW1 H1) as (x & l2 & -> & ->).
  exists (c :: x), l2. cbn [sst s_pos]. rewrite blen_cons.
  replace (p + 1 + blen x) with (p + (1 + blen x)) by lia.
  split; [reflexivity|]. split; [discriminate|]. split.
  { change (c :: x ++ l2) with ((c :: x) ++ l2) in HW0. rewrite <- app_assoc in HW0.
    rewrite <- (blen_cons c x). apply (W_slice text _ _ _ HW0). }
  split; [reflexivity|]. rewrite <- (blen_cons c x). apply (WS_app e p (c :: x)). exact HW.
Qed.

(* ---- consume_reference on a window ---- *)
Lemma ref_ok_here p rest : W p (38 :: 35 :: rest) -> ref_ok_at rest = true.
Proof.
  intros [H _]. pose proof (charrefs_skipn (N.to_nat p) text (fr_refs _ HF)) as Hc. rewrite H in Hc.
  cbn [charrefs_scalar] in Hc. apply andb_true_iff in Hc. tauto.
Qed.

Lemma cref_inv e p l1 more r s' : WS e p (38 :: l1) more ->
  consume_reference text (sst e p ((38 :: l1) ++ more)) = Ok (Some (r, s')) ->
  (exists (hex : bool) ds l', l1 = [35] ++ (if hex then [120] else []) ++ ds ++ [59] ++ l' /\
      T.wf_charref hex ds = true /\ (exists ch, r = RefChar ch) /\
      s' = sst e (p + 2 + (if hex then 1 else 0) + blen ds + 1) (l' ++ more) /\
      WS e (p + 2 + (if hex then 1 else 0) + blen ds + 1) l' more) \/
  (exists pe l', l1 = T.predef_name pe ++ [59] ++ l' /\ (exists ch, r = RefChar ch) /\
      s' = sst e (p + 1 + blen (T.predef_name pe) + 1) (l' ++ more) /\
      WS e (p + 1 + blen (T.predef_name pe) + 1) l' more) \/
  (exists nm, r = RefEntity nm).
Proof.
  intros HW H. unfold consume_reference in H. rewrite (try_ws 38 _ _ _ _ HW) in H.
  change (38 =? 38) with true in H. cbv iota in H. cbn [negb] in H.
  pose proof (WS_cons _ _ _ _ _ HW) as HW1.
  rewrite (try_ws 35 _ _ _ _ HW1) in H.
  destruct l1 as [|x1 l2].
  { (* "&" at the end of the window *)
    cbv iota in H. destruct (consume_name text _) as [[nm s2]| | |] eqn:En; cbn [bind] in H; try discriminate.
    destruct (consume_name_ws _ _ _ _ _ _ HW1 En) as (name & l' & E & Hne & _). destruct name; [congruence|discriminate]. }
  destruct (x1 =? 35) eqn:E35.
  - (* numeric *)
    assert (x1 = 35) by lia. subst x1. cbv iota in H.
    pose proof (WS_cons _ _ _ _ _ HW1) as HW2.
    rewrite (try_ws 120 _ _ _ _ HW2) in H.
    assert (NUM : forall hex l3 q, WS e q l3 more -> (hex = false -> match l3 with 120 :: _ => False | _ => True end) ->
              l2 = (if hex then [120] else []) ++ l3 -> q = p + 2 + (if hex then 1 else 0) ->
              (let! r0 := (let! (value, s) := consume_bytes text (if hex then is_ascii_hexdigit else is_ascii_digit) (sst e q (l3 ++ more)) in
                 let digits := slice_bytes text value in
                 match digits with
                 | [] => Ok None
                 | _ => let n := digits_val (if hex then 16 else 10) digits 0 in
                        if u32_max <? n then Ok None
                        else let c := if is_scalar n then n else 65533 in
                             if negb (char_is_char c) then Ok None else Ok (Some (RefChar c, s))
                 end) in
               match r0 with
               | None => Ok None
               | Some (r, s) => match consume_byte text 59 s with
                                | Ok s' => Ok (Some (r, s')) | Err _ => Ok None | Panic p => Panic p | OutOfFuel => OutOfFuel end
               end) = Ok (Some (r, s')) ->
              exists ds l', l3 = ds ++ [59] ++ l' /\ T.wf_charref hex ds = true /\ (exists ch, r = RefChar ch) /\
                s' = sst e (q + blen ds + 1) (l' ++ more) /\ WS e (q + blen ds + 1) l' more).
    { intros hex l3 q HW3 Hnx El2 Eq H0. ib H0 r0 Hr0. ib Hr0 vq Hvq. destruct vq as [value s3].
      unfold consume_bytes in Hvq.
      destruct (skip_bytes_ws (if hex then is_ascii_hexdigit else is_ascii_digit) _ _ _ _ HW3)
        as (ds & l4 & -> & Hds & Hst & Esk & HW4).
      rewrite Esk in Hvq. ib Hvq vsl Hsl. unfold slice_back in Hsl. apply mk_slice_sl in Hsl. cbn [sst s_pos] in Hsl.
      inversion Hvq; subst value s3. clear Hvq. subst vsl.
      pose proof (proj1 HW3) as HW30. rewrite <- app_assoc in HW30.
      rewrite (W_slice text q ds _ HW30) in Hr0.
      destruct ds as [|d0 dr] eqn:Eds; [inversion Hr0; subst r0; discriminate|]. rewrite <- Eds in *.
      assert (Hdne : ds <> []) by (rewrite Eds; discriminate). clear Eds.
      destruct ds as [|d0' dr']; [congruence|]. cbv zeta in Hr0.
      destruct (u32_max <? digits_val (if hex then 16 else 10) (d0' :: dr') 0); [inversion Hr0; subst r0; discriminate|].
      set (n := digits_val (if hex then 16 else 10) (d0' :: dr') 0) in *.
      destruct (char_is_char (if is_scalar n then n else 65533)) eqn:Ecc; cbn [negb] in Hr0; inversion Hr0; subst r0; [|discriminate].
      destruct (consume_byte text 59 _) as [s4| | |] eqn:E59; inversion H0; subst r s'. clear H0 Hr0.
      destruct (consume_byte_ws _ _ _ _ _ _ HW4 E59) as (l5 & -> & ->).
      rewrite digits_classes in Hds.
      (* the number is a scalar value: T4 *)
      assert (Hn : n = T.ref_val hex (d0' :: dr')).
      { unfold n, T.ref_val. apply digits_val_ref. exact Hds. }
      assert (Hsc : is_scalar n = true).
      { destruct HW as [HW0 _]. cbn [app] in HW0. pose proof (ref_ok_here _ _ HW0) as Hok.
        rewrite El2 in Hok.
        destruct hex.
        - cbn [app] in Hok. rewrite <- !app_assoc in Hok. cbn [app] in Hok.
          pose proof (ref_ok_at_hex (d0' :: dr') (l5 ++ more) Hds) as Hh. cbn [app] in Hh.
          rewrite Hh in Hok. rewrite scalar_eq, <- Hn in Hok. exact Hok.
        - cbn [app] in Hok. rewrite <- !app_assoc in Hok. cbn [app] in Hok.
          pose proof (ref_ok_at_dec ((d0' :: dr') ++ 59 :: l5 ++ more) (d0' :: dr') (l5 ++ more) (Hnx eq_refl) eq_refl Hds) as Hh. cbn [app] in Hh.
          rewrite Hh in Hok. rewrite scalar_eq, <- Hn in Hok. exact Hok. }
      rewrite Hsc in Ecc.
      exists (d0' :: dr'), l5. split; [reflexivity|]. split.
      { unfold T.wf_charref. rewrite Hds. cbn [andb]. rewrite <- Hn.
        destruct (CharTablesProofs.char_tables_conform n Hsc) as (Ec & _). rewrite <- Ec. exact Ecc. }
      split; [eauto|]. split; [reflexivity|]. apply (WS_cons e _ 59). exact HW4. }
    destruct l2 as [|x2 l3].
    + cbv iota in H. destruct (NUM false [] (p + 1 + 1) HW2 ltac:(intros _; exact I) eq_refl ltac:(cbn; lia) H)
        as (ds & l' & E & _). destruct ds; discriminate.
    + destruct (x2 =? 120) eqn:E120.
      * assert (x2 = 120) by lia. subst x2. cbv iota in H.
        destruct (NUM true l3 (p + 1 + 1 + 1) (WS_cons _ _ _ _ _ HW2) ltac:(intros; discriminate) eq_refl ltac:(cbn; lia) H)
          as (ds & l' & -> & Hwf & Hr & -> & HW5).
        left. exists true, ds, l'. split; [reflexivity|]. split; [exact Hwf|]. split; [exact Hr|].
        replace (p + 2 + 1 + blen ds + 1) with (p + 1 + 1 + 1 + blen ds + 1) by lia. split; [reflexivity|exact HW5].
      * cbv iota in H.
        destruct (NUM false (x2 :: l3) (p + 1 + 1) HW2
                      ltac:(intros _; destruct x2 as [|pp]; [exact I|]; repeat (destruct pp as [pp|pp|]; try exact I); discriminate)
                      eq_refl ltac:(cbn; lia) H) as (ds & l' & E & Hwf & Hr & -> & HW5).
        left. exists false, ds, l'. cbn [app]. split; [rewrite E; reflexivity|]. split; [exact Hwf|]. split; [exact Hr|].
        replace (p + 2 + 0 + blen ds + 1) with (p + 1 + 1 + blen ds + 1) by lia. split; [reflexivity|exact HW5].
  - (* named *)
    cbv iota in H.
    destruct (consume_name text _) as [[nm s2]| | |] eqn:En; cbn [bind] in H; try discriminate.
    destruct (consume_name_ws _ _ _ _ _ _ HW1 En) as (name & l' & E & _ & Hsb & -> & HW2).
    rewrite Hsb in H.
    destruct (consume_byte text 59 _) as [s4| | |] eqn:E59; inversion H; subst s'. clear H.
    destruct (consume_byte_ws _ _ _ _ _ _ HW2 E59) as (l5 & -> & ->).
    assert (PRE : forall pe, bytes_eqb name (T.predef_name pe) = true ->
              exists l'0, x1 :: l2 = T.predef_name pe ++ [59] ++ l'0 /\
                sst e (p + 1 + blen name + 1) (l5 ++ more) = sst e (p + 1 + blen (T.predef_name pe) + 1) (l'0 ++ more) /\
                WS e (p + 1 + blen (T.predef_name pe) + 1) l'0 more).
    { intros pe Hb. apply bytes_eqb_true in Hb. clear Hsb. subst name. exists l5. split; [exact E|]. split; [reflexivity|].
      apply (WS_cons e _ 59). exact HW2. }
    destruct (bytes_eqb name (b "quot")) eqn:B1.
    { right; left. destruct (PRE T.Quot B1) as (l0 & A & B & C). exists T.Quot, l0. subst r. eauto. }
    destruct (bytes_eqb name (b "amp")) eqn:B2.
    { right; left. destruct (PRE T.Amp B2) as (l0 & A & B & C). exists T.Amp, l0. subst r. eauto. }
    destruct (bytes_eqb name (b "apos")) eqn:B3.
    { right; left. destruct (PRE T.Apos B3) as (l0 & A & B & C). exists T.Apos, l0. subst r. eauto. }
    destruct (bytes_eqb name (b "lt")) eqn:B4.
    { right; left. destruct (PRE T.Lt B4) as (l0 & A & B & C). exists T.Lt, l0. subst r. eauto. }
    destruct (bytes_eqb name (b "gt")) eqn:B5.
    { right; left. destruct (PRE T.Gt B5) as (l0 & A & B & C). exists T.Gt, l0. subst r. eauto. }
    right; right. subst r. eauto.
Qed.

(* ---- the pieces of a window walked byte by byte ---- *)
Notation SimT := (SimT text).

Lemma ref_piece_step e p l1 more r s' : WS e p (38 :: l1) more ->
  consume_reference text (sst e p ((38 :: l1) ++ more)) = Ok (Some (r, s')) ->
  (exists nm, r = RefEntity nm) \/
  exists pc l' q, 38 :: l1 = T.r_piece pc ++ l' /\ piece_ok pc /\ T.is_lit pc = false /\
                  s' = sst e q (l' ++ more) /\ WS e q l' more.
Proof.
  intros HW H. destruct (cref_inv _ _ _ _ _ _ HW H)
    as [(hex & ds & l' & -> & Hwf & _ & -> & HW')|[(pe & l' & -> & _ & -> & HW')|Hent]]; [right|right|left; exact Hent].
  - exists (T.PCharRef hex ds), l', (p + 2 + (if hex then 1 else 0) + blen ds + 1).
    split; [cbn [T.r_piece]; rewrite <- !app_assoc; reflexivity|]. split; [exact Hwf|]. split; [reflexivity|].
    split; [reflexivity|exact HW'].
  - exists (T.PPredef pe), l', (p + 1 + blen (T.predef_name pe) + 1).
    split; [cbn [T.r_piece]; rewrite <- !app_assoc; reflexivity|]. split; [exact I|]. split; [reflexivity|].
    split; [reflexivity|exact HW'].
Qed.

Lemma ptext_loop_inv pcf r : forall fuel e p l more buf c buf' c',
  WS e p l more -> c_entities c = [] ->
  BorrowParse.ptext_loop text pcf r fuel (sst e p (l ++ more)) buf c = Ok (buf', c') ->
  c' = c /\ exists ps, l = T.r_pieces ps /\ pieces_ok ps.
Proof.
  induction fuel as [|fu IH]; intros e p l more buf c buf' c' HW Hent H; cbn [BorrowParse.ptext_loop] in H; [noerr|].
  rewrite at_end_sst in H. pose proof HW as [HW0 Hw].
  destruct l as [|x l1].
  { rewrite blen_nil in Hw. replace (e <=? p) with true in H by lia. inversion H; subst.
    split; [reflexivity|]. exists []. split; [reflexivity|apply pieces_ok_nil]. }
  rewrite blen_cons in Hw. replace (e <=? p) with false in H by lia.
  ib H q Hq. destruct q as [ch s1]. unfold parse_next_chunk in Hq. rewrite at_end_sst in Hq.
  replace (e <=? p) with false in Hq by lia. cbn [app curr_byte_unchecked sst s_rest bind] in Hq.
  destruct (x =? 38) eqn:E38.
  - assert (x = 38) by lia. subst x. cbv zeta in Hq. ib Hq rf Hrf.
    change (38 :: l1 ++ more) with ((38 :: l1) ++ more) in Hrf. fold (sst e p ((38 :: l1) ++ more)) in Hrf.
    destruct rf as [[rf s2]|]; [|noerr].
    destruct (ref_piece_step _ _ _ _ _ _ HW Hrf) as [[nm ->]|(pc & l' & q & E & Hok & Hnl & -> & HW')].
    { rewrite Hent in Hq. cbn [find_entity] in Hq. noerr. }
    destruct rf as [nm|cp].
    { rewrite Hent in Hq. cbn [find_entity] in Hq. noerr. }
    inversion Hq; subst ch s1. clear Hq.
    destruct (IH _ _ _ _ _ _ _ _ HW' Hent H) as (-> & ps & -> & Hps).
    split; [reflexivity|]. exists (pc :: ps). split; [exact E|]. apply pieces_ok_ref; assumption.
  - fold (sst e p (x :: l1 ++ more)) in Hq. rewrite advance1_sst in Hq by lia. cbn [bind] in Hq.
    inversion Hq; subst ch s1. clear Hq.
    destruct (IH _ _ _ _ _ _ _ _ (WS_cons _ _ _ _ _ HW) Hent H) as (-> & ps & -> & Hps).
    split; [reflexivity|]. exists (cons_lit x ps). split; [rewrite r_cons_lit; reflexivity|].
    apply pieces_ok_lit; [lia|exact Hps].
Qed.

Lemma nattr_loop_inv lvl' : forall fu e p l more t ld t' ld',
  WS e p l more ->
  WfParse.nattr_loop text lvl' [] fu (sst e p (l ++ more)) t ld = Ok (t', ld') ->
  exists ps, l = T.r_pieces ps /\ pieces_ok ps.
Proof.
  induction fu as [|fu IH]; intros e p l more t ld t' ld' HW H; cbn [WfParse.nattr_loop] in H; [noerr|].
  rewrite at_end_sst in H. pose proof HW as [HW0 Hw].
  destruct l as [|x l1].
  { exists []. split; [reflexivity|apply pieces_ok_nil]. }
  rewrite blen_cons in Hw. replace (e <=? p) with false in H by lia.
  cbn [app curr_byte_unchecked sst s_rest bind] in H.
  destruct (x =? 38) eqn:E38; cbn [negb] in H.
  - assert (x = 38) by lia. subst x. cbv zeta in H. ib H rf Hrf.
    change (38 :: l1 ++ more) with ((38 :: l1) ++ more) in Hrf. fold (sst e p ((38 :: l1) ++ more)) in Hrf.
    destruct rf as [[rf s2]|]; [|noerr].
    destruct (ref_piece_step _ _ _ _ _ _ HW Hrf) as [[nm ->]|(pc & l' & q & E & Hok & Hnl & -> & HW')].
    { cbn [find_entity] in H. noerr. }
    destruct rf as [nm|cp]; [cbn [find_entity] in H; noerr|].
    destruct (push_char_bytes_attr _ _ t) as [t1|]; [|noerr].
    destruct (IH _ _ _ _ _ _ _ _ HW' H) as (ps & -> & Hps).
    exists (pc :: ps). split; [exact E|]. apply pieces_ok_ref; assumption.
  - destruct ((x =? 60) && (0 <? ld_depth ld)); [noerr|].
    fold (sst e p (x :: l1 ++ more)) in H. rewrite advance1_sst in H by lia. cbn [bind] in H.
    destruct (IH _ _ _ _ _ _ _ _ (WS_cons _ _ _ _ _ HW) H) as (ps & -> & Hps).
    exists (cons_lit x ps). split; [rewrite r_cons_lit; reflexivity|]. apply pieces_ok_lit; [lia|exact Hps].
Qed.

(* bytes without '&' are one literal (or nothing) *)
Definition lit_pieces (v : bytes) : list T.piece := match v with [] => [] | _ => [T.PLit v] end.

Lemma lit_pieces_ok v : Forall (fun x => x <> 38) v -> T.r_pieces (lit_pieces v) = v /\ pieces_ok (lit_pieces v).
Proof.
  intros H. destruct v as [|x v]; [split; [reflexivity|apply pieces_ok_nil]|].
  split; [cbn; rewrite app_nil_r; reflexivity|]. split; [constructor; [split; [discriminate|exact H]|constructor]|reflexivity].
Qed.

Lemma no38 (f : N -> bool) v : (forall x, x = 38 -> f x = true) -> existsb f v = false -> Forall (fun x => x <> 38) v.
Proof.
  intros Hf H. apply Forall_forall. intros x Hx ->. assert (existsb f v = true); [|congruence].
  apply existsb_exists. exists 38. auto.
Qed.

(* ---- from pieces to well-formedness ---- *)
Lemma In_piece_split p ps : In p ps -> exists pre post, T.r_pieces ps = pre ++ T.r_piece p ++ post.
Proof.
  intros H. apply in_split in H. destruct H as (l1 & l2 & ->). unfold T.r_pieces.
  rewrite flat_map_app. cbn [flat_map]. eauto.
Qed.

Lemma plain_tplain x : Cst.is_plain x = true -> T.is_tplain x = true.
Proof. unfold Cst.is_plain, T.is_tplain. lia. Qed.

Lemma pieces_lit_bytes q ps v : pieces_ok ps -> T.r_pieces ps = v ->
  forallb (fun x => Cst.is_plain x && negb (x =? 60) && negb (x =? q)) v = true ->
  forall bs, In (T.PLit bs) ps -> T.wf_lit q bs = true.
Proof.
  intros [HFo _] Hr Hv bs Hin. rewrite Forall_forall in HFo. destruct (HFo _ Hin) as [Hne H38].
  unfold T.wf_lit. destruct bs as [|b0 bt]; [congruence|]. cbn [andb].
  destruct (In_piece_split _ _ Hin) as (pre & post & E). cbn [T.r_piece] in E. rewrite Hr in E.
  apply forallb_forall. intros x Hx. rewrite forallb_forall in Hv. rewrite Forall_forall in H38.
  assert (Hxv : In x v) by (rewrite E; apply in_or_app; right; apply in_or_app; left; exact Hx).
  specialize (Hv x Hxv). specialize (H38 x Hx).
  repeat (apply andb_true_iff in Hv; destruct Hv as [Hv ?]).
  rewrite (plain_tplain _ Hv). cbn [andb]. lia.
Qed.

Lemma pieces_wf_value q ps v : pieces_ok ps -> T.r_pieces ps = v ->
  forallb (fun x => Cst.is_plain x && negb (x =? 60) && negb (x =? q)) v = true ->
  T.wf_value q ps = true.
Proof.
  intros Hok Hr Hv. unfold T.wf_value. rewrite (proj2 Hok), andb_true_r.
  apply forallb_forall. intros pc Hin. destruct pc as [bs|hex ds|pe|bs]; cbn [T.wf_vpiece].
  - eapply pieces_lit_bytes; eauto.
  - destruct Hok as [HFo _]. rewrite Forall_forall in HFo. exact (HFo _ Hin).
  - reflexivity.
  - destruct Hok as [HFo _]. rewrite Forall_forall in HFo. destruct (HFo _ Hin).
Qed.

Definition no_cdata (p : T.piece) : bool := match p with T.PCData _ => false | _ => true end.

Lemma pieces_wf_text ps v : pieces_ok ps -> T.r_pieces ps = v -> raw_text_ok v ->
  forallb T.wf_tpiece ps = true /\ T.no_adjacent_lit ps = true /\ ps <> [] /\ forallb no_cdata ps = true.
Proof.
  intros Hok Hr (Hne & Hp & H60 & Hc).
  assert (Hv : forallb (fun x => Cst.is_plain x && negb (x =? 60) && negb (x =? 60)) v = true).
  { apply forallb_forall. intros x Hx. rewrite forallb_forall in Hp, H60. rewrite (Hp x Hx), (H60 x Hx). reflexivity. }
  split; [|split; [exact (proj2 Hok)|split]].
  - apply forallb_forall. intros pc Hin. destruct pc as [bs|hex ds|pe|bs]; cbn [T.wf_tpiece].
    + rewrite (pieces_lit_bytes 60 ps v Hok Hr Hv bs Hin). cbn [andb]. apply negb_true_iff. rewrite contains_eq.
      destruct (In_piece_split _ _ Hin) as (pre & post & E). cbn [T.r_piece] in E. rewrite Hr in E. rewrite E in Hc.
      eapply contains_mid; [discriminate|exact Hc].
    + destruct Hok as [HFo _]. rewrite Forall_forall in HFo. exact (HFo _ Hin).
    + reflexivity.
    + destruct Hok as [HFo _]. rewrite Forall_forall in HFo. destruct (HFo _ Hin).
  - intros ->. cbn in Hr. congruence.
  - apply forallb_forall. intros pc Hin. destruct pc; try reflexivity.
    destruct Hok as [HFo _]. rewrite Forall_forall in HFo. destruct (HFo _ Hin).
Qed.

(* ---- the tokens ---- *)
Lemma stream_from_substr_ws p x more : W p (x ++ more) ->
  stream_from_substr text p (p + blen x) = Ok (sst (p + blen x) p (x ++ more)) /\ WS (p + blen x) p x more.
Proof.
  intros HW. pose proof (W_le text _ _ (W_app text _ _ _ HW)) as Hle. split; [|split; [exact HW|reflexivity]].
  unfold stream_from_substr. replace ((p + blen x <? p) || (tlen text <? p + blen x)) with false by lia.
  destruct HW as [H1 _]. rewrite H1. reflexivity.
Qed.

Lemma step_text_t p bs more c c' stk : W p (bs ++ more) -> raw_text_ok bs -> SimT c stk ->
  T_ (TText (sl p (p + blen bs)) (p, p + blen bs)) c = Ok c' ->
  SimT c' stk /\ attrs_of c' = attrs_of c /\
  (exists K, erows c' = erows c ++ K /\ Forall (fun rw => is_element_kind (snd rw) = false) K) /\
  exists ps, bs = T.r_pieces ps /\ forallb T.wf_tpiece ps = true /\ T.no_adjacent_lit ps = true /\ ps <> [] /\
             forallb no_cdata ps = true.
Proof.
  intros HW Hraw HS H. unfold Parse.token, token_with, process_text in H. rewrite BorrowParse.process_text_with_eq in H.
  cbv zeta in H. rewrite (W_slice text _ _ _ HW) in H.
  destruct (existsb (fun x => (x =? 38) || (x =? 13)) bs) eqn:Ee; cbn [negb] in H.
  - cbn [fst snd] in H. destruct (stream_from_substr_ws p bs more HW) as (Es & HWS). rewrite Es in H. cbn [bind] in H.
    ib H q Hq. destruct q as [buf c1].
    destruct (ptext_loop_inv _ _ _ _ _ _ _ _ _ _ _ HWS (st_ent _ _ _ HS) Hq) as (-> & ps & Eps & Hps).
    assert (STEP : SimT c' stk /\ attrs_of c' = attrs_of c /\
              exists K, erows c' = erows c ++ K /\ Forall (fun rw => is_element_kind (snd rw) = false) K).
    { destruct (negb (tb_is_empty buf)).
      - ib H bsf Hb. exact (append_text_step text _ _ _ _ _ HS H).
      - inversion H; subst. split; [exact HS|]. split; [reflexivity|]. exists []. rewrite app_nil_r. split; [reflexivity|constructor]. }
    destruct STEP as (A & B & D). split; [exact A|]. split; [exact B|]. split; [exact D|].
    exists ps. split; [exact Eps|]. exact (pieces_wf_text ps bs Hps (eq_sym Eps) Hraw).
  - destruct (append_text_step text _ _ _ _ _ HS H) as (A & B & D). split; [exact A|]. split; [exact B|]. split; [exact D|].
    assert (H38 : Forall (fun x => x <> 38) bs).
    { apply (no38 (fun x => (x =? 38) || (x =? 13))); [intros x ->; reflexivity|exact Ee]. }
    destruct (lit_pieces_ok bs H38) as (E1 & E2).
    exists (lit_pieces bs). split; [symmetry; exact E1|]. exact (pieces_wf_text _ bs E2 E1 Hraw).
Qed.

Lemma step_cdata_t t r c c' stk : SimT c stk -> T_ (TCdata t r) c = Ok c' ->
  SimT c' stk /\ attrs_of c' = attrs_of c /\
  exists K, erows c' = erows c ++ K /\ Forall (fun rw => is_element_kind (snd rw) = false) K.
Proof.
  intros HS H. cbn [Parse.token token_with] in H. unfold process_cdata in H. cbv zeta in H.
  destruct (mem_b 13 (sb t)); exact (append_text_step text _ _ _ _ _ HS H).
Qed.

(* ---- attribute values ---- *)
Lemma normalize_attribute_inv p v more c val c1 : W p (v ++ more) -> c_entities c = [] ->
  normalize_attribute text (sl p (p + blen v)) c = Ok (val, c1) ->
  (c1 = c \/ exists ld, c1 = set_ld c ld) /\ exists ps, v = T.r_pieces ps /\ pieces_ok ps.
Proof.
  intros HW Hent H. unfold normalize_attribute in H. cbv zeta in H. rewrite (W_slice text _ _ _ HW) in H.
  destruct (existsb (fun x => (x =? 38) || (x =? 9) || (x =? 10) || (x =? 13)) v) eqn:Ee.
  - ib H q Hq. destruct q as [t ld]. ib H bs Hbs. inversion H; subst. split; [right; eauto|].
    rewrite Hent in Hq. unfold entity_levels in Hq. rewrite WfParse.norm_attr_lvl_eq in Hq.
    cbn [sl sl_start sl_end] in Hq. destruct (stream_from_substr_ws p v more HW) as (Es & HWS).
    rewrite Es in Hq. cbn [bind] in Hq.
    destruct (nattr_loop_inv _ _ _ _ _ _ _ _ _ _ HWS Hq) as (ps & Eps & Hps). eauto.
  - inversion H; subst. split; [left; reflexivity|].
    assert (H38 : Forall (fun x => x <> 38) v).
    { apply (no38 (fun x => (x =? 38) || (x =? 9) || (x =? 10) || (x =? 13))); [intros x ->; reflexivity|exact Ee]. }
    destruct (lit_pieces_ok v H38) as (E1 & E2).
    exists (lit_pieces v). split; [symmetry; exact E1|exact E2].
Qed.

Notation InTagT := (InTagT text).

Lemma step_attr_t r ql el q0 p name vs v more1 more2 c c' stk tp tn cur :
  InTagT c stk tp tn cur -> W p (name ++ more1) -> W vs (v ++ more2) -> name <> xmlns_bytes ->
  T_ (TAttribute r ql el (sl q0 q0) (sl p (p + blen name)) (sl vs (vs + blen v))) c = Ok c' ->
  InTagT c' stk tp tn (cur ++ [name]) /\ erows c' = erows c /\ attrs_of c' = attrs_of c /\
  exists ps, v = T.r_pieces ps /\ pieces_ok ps.
Proof.
  intros [I1 I2 I3 I4 I5 I6 I7] HWn HWv Hnx H. cbn [Parse.token token_with] in H. unfold process_attribute in H.
  ib H q Hq. destruct q as [val c1]. cbv zeta in H.
  destruct (normalize_attribute_inv _ _ _ _ _ _ HWv I7 Hq) as (Hc1 & ps & Eps & Hps).
  rewrite (CstBuild.slice_empty text q0) in H. change (bytes_eqb [] xmlns_str) with false in H. cbv iota in H.
  rewrite (W_slice text _ _ _ HWn) in H.
  change xmlns_str with xmlns_bytes in H. rewrite (bytes_eqb_neq _ _ Hnx), andb_false_r in H.
  inversion H; subst c'. clear H.
  assert (E : erows c1 = erows c /\ attrs_of c1 = attrs_of c /\ c_parent_id c1 = c_parent_id c /\
              c_parent_prefixes c1 = c_parent_prefixes c /\ c_tag_name c1 = c_tag_name c /\
              c_cur_attrs c1 = c_cur_attrs c /\ c_entities c1 = c_entities c).
  { destruct Hc1 as [->|[ld ->]]; repeat split. }
  destruct E as (E1 & E2 & E3 & E4 & E5 & E6 & E8).
  match goal with |- InTagT (set_cur_attrs c1 ?l) _ _ _ _ /\ _ => set (lv := l) end.
  change (erows (set_cur_attrs c1 lv)) with (erows c1).
  change (attrs_of (set_cur_attrs c1 lv)) with (attrs_of c1).
  split; [|split; [exact E1|split; [exact E2|exists ps; auto]]].
  constructor.
  - change (chain text (erows c1) (c_parent_id c1) stk). rewrite E1, E3. exact I1.
  - change (length (c_parent_prefixes c1) = S (length stk)). rewrite E4. exact I2.
  - change (Forall (fun s => sb s = []) (c_parent_prefixes c1)). rewrite E4. exact I3.
  - cbn [c_tag_name set_cur_attrs]. rewrite E5. exact I4.
  - cbn [c_cur_attrs set_cur_attrs]. unfold lv. rewrite map_app, E6, I5. cbn [map ta_local].
    rewrite (W_slice text _ _ _ HWn). reflexivity.
  - cbn [c_cur_attrs set_cur_attrs]. unfold lv. rewrite E6. apply Forall_app. split; [exact I6|].
    constructor; [apply CstBuild.slice_empty|constructor].
  - cbn [c_entities set_cur_attrs]. rewrite E8. exact I7.
Qed.

End Text.
