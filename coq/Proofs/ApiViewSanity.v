(* Proofs/ApiViewSanity.v -- the API view on sample documents, by computation: it is the arena view and the meaning. *)
From Coq Require Import Ascii String.
From Coq Require Import List NArith Bool.
Import ListNotations.
From RX.Model Require Import Base Stream Tokenizer Doc Builder Parse.
From RX.Spec Require CstNs.
From RX.Spec Require Import CstFull CstFullS6.
From RX.Proofs Require Import CstNsView ApiView CstFullS6Sanity.
Open Scope N_scope.

Definition check_api (c : S6.doc) : bool * bool :=
  match parse (S6.render c) opt_dtd with
  | Ok d =>
    (match api_view (S6.render c) d with
     | Some v => if list_eq_dec vnode_eq_dec v (S6.sem c) then true else false
     | None => false end,
     match api_view (S6.render c) d, view (S6.render c) d with
     | Some v, Some w => if list_eq_dec vnode_eq_dec v w then true else false
     | _, _ => false end)
  | _ => (false, false)
  end.
Eval vm_compute in (check_api ex1, check_api ex2).
(* arbitrary input, not a rendering of an abstract document: duplicate-looking names, mixed content *)
Definition raw_api (s : string) : bool :=
  match parse (b s) opt_dtd with
  | Ok d => match api_view (b s) d, view (b s) d with
            | Some v, Some w => if list_eq_dec vnode_eq_dec v w then true else false
            | _, _ => false end
  | _ => false
  end.
Eval vm_compute in (map raw_api
  [ "<a xmlns='u' xmlns:p='v'><p:b p:x='1' y='2'>t<!--c--><?pi v?><![CDATA[x]]></p:b><c/></a>";
    "<!DOCTYPE a [<!ENTITY e '<i j=""k""/>'>]><a>&e;&e;</a><!--end-->" ]%string).
