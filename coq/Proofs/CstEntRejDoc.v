(* Proofs/CstEntRejDoc.v -- C09 on whole documents: parse_document on the rendering of a document of Spec/CstEnt.v that is
   syntactically well-formed (wf_syntax) and whose 12-level unfolding (ginline) has a detector trace outside the limits
   fails with EntityReferenceLoop. *)
From Coq Require Import Ascii String.
From Coq Require Import List NArith PeanoNat Bool Lia ZifyBool ZifyN ZifyNat.
Import ListNotations.
From RX Require Import Generated.
From RX.Model Require Import Base CharClass Stream Tokenizer Doc Builder Parse.
From RX.Spec Require Cst CstText CstEnt Detector.
From RX.Spec Require Import Text.
From RX.Proofs Require Import Tactics CstLex CstBuild CstTree CstItems CstDoc TextMerge DetectorProofs.
From RX.Proofs Require Import CstTextSem CstTextLex CstTextBuild CstTextItems CstTextDoc.
From RX.Proofs Require Import CstEntSem CstEntText CstEntAttr CstEntMeaning CstEntRun CstEntLex CstEntDtd CstEntBuild CstEntInline CstEntItems CstEntDoc CstEntMain.
From RX.Proofs Require Import CstEntCFloor CstEntCAttr CstEntCBuild CstEntCSem CstEntCLex CstEntCLex2 CstEntCLoop CstEntCText CstEntCItems CstEntCDoc.
From RX.Proofs Require Import CstEntRejSem CstEntRejAttr CstEntRejText CstEntRejItems.
Open Scope N_scope.

Ltac clia := repeat match goal with H : @eq bool _ true |- _ => clear H end; lia.

(* ------------------------------------------------------------------------------------------ *)
(* the syntactic part of well-formedness                                                      *)
(* ------------------------------------------------------------------------------------------ *)
Record sdoc_parts (c : E.doc) : Prop := {
  sp_ws0 : Cst.wf_ws (E.d_ws0 c) = true;
  sp_ws1 : Cst.wf_ws (E.d_ws1 c) = true;
  sp_wsend : Cst.wf_ws (E.d_ws_end c) = true;
  sp_before : forallb (fun p => Cst.is_misc (fst p) && Cst.wf_item (fst p) && Cst.wf_ws (snd p)) (bef c) = true;
  sp_dtd : E.wf_dtd (E.d_dtd c) = true;
  sp_mid : wf_pairs (mid c) = true;
  sp_root : exists name attrs ws body, E.d_root c = E.IElem name attrs ws body;
  sp_rootwf : E.wf_item false (E.d_root c) = true;
  sp_after : wf_pairs (aft c) = true;
  sp_render :
    E.render c =
    E.d_ws0 c ++ flat_map (fun p => Cst.r_item (fst p) ++ snd p) (bef c) ++ E.r_dtd (E.d_dtd c) ++
    r_pairs (mid c) ++ E.d_ws1 c ++ E.r_item (E.d_root c) ++ r_pairs (aft c) ++ E.d_ws_end c
}.

Lemma swf_doc_parts c : wf_syntax c = true -> sdoc_parts c.
Proof.
  unfold wf_syntax. rewrite !andb_true_iff. intros [[[[[[[H1 H2] H3] H4] H5] H6] H7] H8].
  destruct (pairs_of _ H6) as [M1 M2]. destruct (pairs_of _ H8) as [A1 A2].
  constructor; try assumption.
  - unfold bef. clear - H4. induction (E.d_before c) as [|[i w] r IH]; [reflexivity|].
    cbn [forallb map fst snd] in *. rewrite !andb_true_iff in H4. destruct H4 as [[[A B0] C0] D].
    destruct (cmisc_facts i A) as (E1 & _ & E3). rewrite E1, E3, B0, C0, IH by exact D. reflexivity.
  - destruct (E.d_root c); try discriminate. eauto.
  - destruct (E.d_root c); try discriminate. exact H7.
  - unfold E.render. f_equal. f_equal; [|f_equal; f_equal; [exact M2|f_equal; f_equal; f_equal; exact A2]].
    unfold bef. clear - H4. induction (E.d_before c) as [|[i w] r IH]; [reflexivity|].
    cbn [forallb map flat_map fst snd] in *. rewrite !andb_true_iff in H4. destruct H4 as [[[A _] _] D].
    destruct (cmisc_facts i A) as (_ & E2 & _). rewrite E2, IH by exact D. reflexivity.
Qed.

Lemma srender_shape c : wf_syntax c = true ->
  E.render c =
  r_pairs (CstDoc.regroup (E.d_ws0 c) (bef c)) ++ last_ws (E.d_ws0 c) (bef c) ++ E.r_dtd (E.d_dtd c) ++
  r_pairs (mid c) ++ E.d_ws1 c ++ E.r_item (E.d_root c) ++ r_pairs (aft c) ++ E.d_ws_end c ++ [].
Proof.
  intros H. rewrite (sp_render _ (swf_doc_parts c H)). rewrite app_nil_r.
  rewrite app_assoc, regroup_render, <- app_assoc. reflexivity.
Qed.

Lemma srender_asc c : wf_syntax c = true -> asc (E.render c).
Proof.
  intros H. rewrite (srender_shape c H). pose proof (swf_doc_parts c H) as [H1 H2 H3 H4 H5 H6 _ H8 H9 _].
  destruct (regroup_wf _ _ H1 H4) as [R1 R2].
  apply asc_app; [apply asc_pairs; exact R1|].
  apply asc_app; [apply asc_ws; exact R2|].
  apply asc_app; [apply asc_dtd_gen; exact H5|].
  apply asc_app; [apply asc_pairs; exact H6|].
  apply asc_app; [apply asc_ws; exact H2|].
  apply asc_app; [apply asc_eitem; exact H8|].
  apply asc_app; [apply asc_pairs; exact H9|].
  apply asc_app; [apply asc_ws; exact H3|constructor].
Qed.

Lemma sdecl_render c : wf_syntax c = true -> decl_test (E.render c) = false.
Proof.
  intros H. rewrite (srender_shape c H). pose proof (swf_doc_parts c H) as [H1 H2 H3 H4 _ _ _ _ _ _].
  destruct (regroup_wf _ _ H1 H4) as [R1 R2].
  destruct (CstDoc.regroup (E.d_ws0 c) (bef c)) as [|[w i] B].
  - cbn [r_pairs flat_map app]. destruct (last_ws (E.d_ws0 c) (bef c)) as [|x wl].
    + cbn [app]. unfold E.r_dtd, E.kw_doctype. cbn [app]. apply decl_lt. lia.
    + cbn [app]. apply decl_ws. cbn [Cst.wf_ws forallb] in R2. apply andb_true_iff in R2.
      destruct R2 as [R2 _]. unfold Cst.is_ws in R2. clear - R2. lia.
  - cbn [wf_pairs forallb fst snd] in R1. rewrite !andb_true_iff in R1. destruct R1 as [[[W1 M1] I1] _].
    cbn [r_pairs flat_map fst snd]. rewrite <- !app_assoc. destruct w as [|x w].
    + cbn [app]. destruct i as [? ? ? ?|?|bs|t s v]; try discriminate.
      * cbn [Cst.r_item app]. apply decl_lt. clear. lia.
      * cbn [Cst.r_item]. rewrite <- !app_assoc. apply decl_pi. apply wf_pi. exact I1.
    + cbn [app]. apply decl_ws. cbn [Cst.wf_ws forallb] in W1. apply andb_true_iff in W1.
      destruct W1 as [W1 _]. unfold Cst.is_ws in W1. clear - W1. lia.
Qed.

(* ------------------------------------------------------------------------------------------ *)
(* the root element                                                                           *)
(* ------------------------------------------------------------------------------------------ *)
Section RootF.
Variable text : bytes.
Hypothesis Hascii : Forall (fun x => x < 128) text.
Variable decls : list E.edecl.
Variable es : list entity.
Hypothesis Henv : Forall2 (ent_ok text) decls es.
Hypothesis Hdecls : Forall decl_ok decls.
Hypothesis Hadjs : Forall decl_adj decls.
Hypothesis Hcont : Forall decl_cont decls.

Notation Pok := (CstEntCText.Pok).
Notation Rooms := (CstEntCText.Rooms).
Notation OR := (CstEntCText.OR es).

Lemma root_f name attrs ws body p post c its tr :
  E.wf_item false (E.IElem name attrs ws body) = true ->
  CstLex.W text p (E.r_item (E.IElem name attrs ws body) ++ post) ->
  CI c -> c_after_text c = [] -> c_entity_floor c = 0 -> c_ld c = ld_init -> c_entities c = es ->
  E.inline_item (glevel decls glevels) false (E.IElem name attrs ws body) = Some (its, tr) ->
  ld_run ld_init tr = None ->
  Pok [] its -> Rooms c [] its ->
  exists pos,
    (let! (open, s, c) := parse_element text context (CstBuild.tok_ev text)
                            (CstLex.st text p (E.r_item (E.IElem name attrs ws body) ++ post)) c in
     if open then parse_content text context (CstBuild.tok_ev text) s c else Ok (s, c)) =
    Err (EntityReferenceLoop pos).
Proof.
  intros Hwf HW I Hat Hfl Hld0 Hes Hin Hld HP HR.
  assert (HO : OR c c []) by (constructor; try assumption; apply same_frame_refl).
  pose proof (W_top _ _ _ HW) as HW'.
  rewrite <- !st_top. rewrite evl_top.
  rewrite inline_elem in Hin. destruct (E.inline_attrs (glevel decls glevels) false attrs) as [[attrs' tra]|] eqn:Eat; [|discriminate].
  cbn [E.obind fst snd] in Hin.
  assert (Hm : false = (0 <? ld_depth (c_ld c))) by (rewrite Hld0; reflexivity).
  assert (Hk : 12 <= N.of_nat glevels + ld_depth (c_ld c)) by (rewrite Hld0; unfold glevels; cbn; lia).
  destruct (ld_run ld_init tra) as [lda|] eqn:Ela.
  - destruct body as [[cs ws2]|].
    + destruct (E.inline_items (glevel decls glevels) false cs) as [[itsc trc]|] eqn:Ecs; [|discriminate].
      cbn [E.obind fst snd] in Hin. injection Hin as <- <-.
      destruct (wf_elem_parts_g _ _ _ _ _ Hwf) as (Hn & _ & _ & _ & _ & Hw2 & Hna & Hcs).
      pose proof (esteps_list_le cs (ewf_items_false _ Hcs)) as Hst.
      rewrite ld_run_app, Ela in Hld.
      rewrite <- Hld0 in Ela.
      destruct (agree_attrs decls glevels (IHall decls glevels) false _ _ _ _ _ Eat Ela Hk) as [Eat' _].
      destruct (elem_start_c text Hascii decls es Henv Hdecls Hadjs Hcont glevels name attrs ws cs ws2 false (tlen text) [] p post c c [] []
                  entity_levels attrs' tra itsc lda Hwf HW' HO (SemI_nil text) Hm ltac:(rewrite Hfl; lia) Eat' Ela HP HR)
        as (c1 & E1 & HO1 & D1 & D2 & Fl1 & HPc & HRc & HWc).
      rewrite E1. cbn [bind]. unfold parse_content. cbn [CstEntCLex.st s_rest]. rewrite app_nil_r.
      set (post2 := [60; 47] ++ name ++ ws2 ++ [62] ++ post) in *.
      replace (S (length (E.r_items cs ++ post2)))
        with (esteps_list cs + S (length (E.r_items cs ++ post2) - esteps_list cs))%nat
        by (rewrite app_length in *; clia).
      match goal with |- context [parse_content_loop _ _ _ _ 0 ?s c1] =>
        replace s with (CstEntCLex.st (tlen text) [] (p + 1 + blen name + blen (flat_map E.r_attr attrs) + blen ws + 1) (E.r_items cs ++ post2))
          by (unfold CstEntCLex.st; rewrite app_nil_r; reflexivity) end.
      destruct (Fail_all text Hascii decls es Henv Hdecls Hadjs Hcont glevels) as [HF _].
      rewrite Hld0 in D2.
      apply (HF cs false (tlen text) [] _ _ (sh c1) c1 [] [] entity_levels 0 _ itsc trc Hcs Hna HWc ltac:(reflexivity) HO1 (SemI_nil text)); try assumption.
      * destruct cs; [exact Logic.I|]. intros _. reflexivity.
      * rewrite D1, D2. reflexivity.
      * rewrite D1, D2. reflexivity.
      * rewrite D1, D2. unfold glevels. cbn. lia.
      * rewrite D1. exact Hld.
    + injection Hin as <- <-. try rewrite app_nil_r in Hld. rewrite Hld in Ela. discriminate.
  - rewrite <- Hld0 in Ela.
    assert (Hpa : forallb (fun a => E.crlf_split_ok (T.a_value a)) attrs' = true).
    { destruct body as [[cs ws2]|].
      - destruct (E.inline_items (glevel decls glevels) false cs) as [[itsc trc]|]; [|discriminate].
        cbn [E.obind fst snd] in Hin. injection Hin as <- <-. apply (prov_el _ _ _ _ _ HP).
      - injection Hin as <- <-. apply (prov_el _ _ _ _ _ HP). }
    destruct (elem_attrs_f text Hascii decls es Henv Hdecls Hadjs glevels name attrs ws body false (tlen text) [] p post c c [] []
                entity_levels attrs' tra Hwf HW' HO (SemI_nil text) Hm Hk Eat Ela Hpa) as [pos E].
    rewrite E. cbn [bind]. eauto.
Qed.

End RootF.

(* ------------------------------------------------------------------------------------------ *)
(* parse_document                                                                             *)
(* ------------------------------------------------------------------------------------------ *)
Lemma fparse_document (c : E.doc) (c0 : context) (cT : T.doc) (tr : list Detector.lop) :
  wf_syntax c = true -> ginline c = Some (cT, tr) -> E.provisos_item (T.d_root cT) = true ->
  Detector.within_limits 10 255 0 0 tr = false ->
  let text := E.render c in
  CI c0 -> c_ld c0 = ld_init -> c_entities c0 = [] -> c_after_text c0 = [] ->
  node_room c0 (nsizes (doc_items (erase_doc cT))) -> attr_room c0 (nattrs (erase (T.d_root cT))) ->
  exists pos, parse_document text context (tok_ev text) true c0 = Err (EntityReferenceLoop pos).
Proof.
  intros Hwf Hinl Hprov Hlim text I0 Hld0 Hes0 A0 NR AR.
  pose proof (srender_asc c Hwf) as Hascii. fold text in Hascii.
  pose proof (sdecl_render c Hwf) as Hdecl. fold text in Hdecl.
  pose proof (srender_shape c Hwf) as Etext. fold text in Etext.
  pose proof (swf_doc_parts c Hwf) as [H1 H2 H3 H4 H5 H6 (name & attrs & ws & body & Er) H8 H9 _].
  assert (Hr : exists root', E.inline_item (glevel (E.t_decls (E.d_dtd c)) glevels) false (E.d_root c) = Some ([root'], tr) /\
            cT = {| T.d_before := map (fun p => (E.misc_item (fst p), snd p)) (E.d_before c)
                                   ++ map (fun p => (E.misc_item (snd p), fst p)) (E.d_mid c);
                    T.d_ws0 := E.d_ws0 c; T.d_root := root';
                    T.d_after := map (fun p => (fst p, E.misc_item (snd p))) (E.d_after c);
                    T.d_ws_end := E.d_ws_end c |}).
  { unfold ginline, inline_with in Hinl.
    destruct (E.inline_item (glevel (E.t_decls (E.d_dtd c)) glevels) false (E.d_root c)) as [[its tr0]|]; [|discriminate].
    cbn [E.obind fst snd] in Hinl. destruct its as [|root' [|x its]]; try discriminate.
    injection Hinl as <- <-. eauto. }
  destruct Hr as (root' & Hroot & ->). cbn [T.d_root] in Hprov. rename tr into tr'.
  pose proof (wf_dtd_facts_c _ H5) as [T1 T2 T3 T4 T5 T6]. clear Hwf H5.
  destruct (regroup_wf _ _ H1 H4) as [R1 R2]. clear H1 H4.
  rewrite inlined_items in *. cbn [T.d_root] in AR.
  set (B := CstDoc.regroup (E.d_ws0 c) (bef c)) in *. set (wB := last_ws (E.d_ws0 c) (bef c)) in *.
  set (M := mid c) in *. set (A := aft c) in *. set (wE := E.d_ws_end c) in *. set (w1 := E.d_ws1 c) in *.
  set (t := E.d_dtd c) in *. set (decls := E.t_decls t) in *.
  rewrite Er in *. clear Er. set (root := E.IElem name attrs ws body) in *.
  rewrite !nsizes_app, nsizes_cons in NR.
  pose proof (CstLex.W_new text) as HW0.
  destruct (ewf_elem_parts _ _ _ _ H8) as (Hn & _).
  assert (El : exists n l, E.r_item root = 60 :: n :: l /\ Cst.is_name_start n = true).
  { unfold root. rewrite er_item_elem. destruct name as [|n r]; [discriminate|].
    cbn [Cst.wf_name] in Hn. apply andb_true_iff in Hn. destruct Hn as [Hn _]. eexists. eexists. split; [reflexivity|exact Hn]. }
  destruct El as (n & l & El & Hns).
  destruct (name_start_byte _ Hns) as (_ & _ & Hnsp & _ & _ & H33 & H63 & _). clear Hns Hn.
  remember (E.r_item root ++ r_pairs A ++ wE ++ []) as rest3 eqn:Erest3.
  remember (r_pairs M ++ w1 ++ rest3) as rest2 eqn:Erest2.
  assert (Hstop3 : misc_stop rest3).
  { rewrite Erest3, El. cbn [app]. split; [reflexivity|]. cbn [prefix_b].
    replace (33 =? n) with false by clia. replace (63 =? n) with false by clia. split; reflexivity. }
  assert (Hcb : forall p, CstLex.W text p rest3 ->
            match curr_byte_opt (CstLex.st text p rest3) with Some x => x =? 60 | None => false end = true).
  { intros p HWp. rewrite Erest3, El in *. cbn [app] in *. rewrite CstLex.curr_byte_opt_st by exact HWp. reflexivity. }
  clear El.
  assert (Hstop1 : misc_stop (E.r_dtd t ++ rest2)).
  { unfold E.r_dtd, E.kw_doctype. cbn [app]. split; [reflexivity|]. split; reflexivity. }
  unfold parse_document. rewrite CstLex.st_new.
  rewrite CstLex.starts_with_st by exact HW0. rewrite bom_false by exact Hascii. cbn [bind].
  unfold starts_with_declaration. rewrite CstLex.starts_with_st, CstLex.avail_st by exact HW0.
  change (b "<?xml") with [60; 63; 120; 109; 108]. fold (decl_test text). rewrite Hdecl. cbn [bind].
  (* prolog *)
  unfold parse_misc at 1. cbn [CstLex.st s_rest].
  fold (CstLex.st text 0 text).
  assert (Etext' : text = r_pairs B ++ wB ++ E.r_dtd t ++ rest2) by exact Etext.
  assert (HW0' : CstLex.W text 0 (r_pairs B ++ wB ++ E.r_dtd t ++ rest2)) by (rewrite <- Etext'; exact HW0).
  replace (CstLex.st text 0 text) with (CstLex.st text 0 (r_pairs B ++ wB ++ E.r_dtd t ++ rest2))
    by (rewrite <- Etext'; reflexivity).
  assert (Elen : length text = length (r_pairs B ++ wB ++ E.r_dtd t ++ rest2)) by (rewrite <- Etext'; reflexivity).
  destruct (misc_loop_ok text Hascii B 0 wB (E.r_dtd t ++ rest2) c0 (S (length text)) HW0' R1 R2 Hstop1)
    as (c1 & K1 & E1 & S1 & I1 & A1 & F1).
  { pose proof (pairs_len B R1). rewrite Elen, app_length. clia. }
  { exact I0. } { exact A0. } { unfold node_room in *. clia. }
  rewrite E1. cbn [bind]. clear E1.
  pose proof (CstLex.W_app _ _ _ _ HW0') as HWa. pose proof (CstLex.W_app _ _ _ _ HWa) as HW1.
  set (p1 := 0 + blen (r_pairs B) + blen wB) in *.
  rewrite skip_spaces_none by (try exact HW1; apply Hstop1).
  rewrite CstLex.starts_with_st by exact HW1. change (b "<!DOCTYPE") with E.kw_doctype.
  replace (prefix_b E.kw_doctype (E.r_dtd t ++ rest2)) with true
    by (unfold E.r_dtd; rewrite <- !app_assoc; symmetry; apply prefix_b_app_same).
  change (negb true) with false. cbv iota.
  (* the DOCTYPE *)
  assert (Hlex : Forall decl_lex_ok decls) by (revert T4; apply Forall_impl; intros d Hd; apply (dc_lex _ Hd)).
  rewrite (lex_doctype text Hascii context (tok_ev text) p1 t rest2 c1 HW1 T1 T2 T3 Hlex T5 T6). cbv zeta.
  set (q := p1 + 9 + blen (E.t_ws1 t) + blen (E.t_name t) + blen (E.t_ws2 t) + 1) in *.
  rewrite decls_recorded. cbn [bind].
  destruct (Step_keep _ _ _ _ S1) as [Kld1 Kes1]. rewrite Kes1, Hes0. cbn [app].
  set (es := decl_ents q decls) in *. set (c1' := set_entities c1 es).
  assert (Henv : Forall2 (ent_ok text) decls es).
  { unfold es. pose proof HW1 as X0. unfold E.r_dtd in X0. rewrite <- !app_assoc in X0.
    pose proof (CstLex.W_app _ _ _ _ X0) as X1. change (blen E.kw_doctype) with 9 in X1.
    pose proof (CstLex.W_app _ _ _ _ X1) as X2. pose proof (CstLex.W_app _ _ _ _ X2) as X3. pose proof (CstLex.W_app _ _ _ _ X3) as X4.
    pose proof (CstLex.W_app _ _ _ _ X4) as X5. change (blen [91]) with 1 in X5. fold q in X5.
    apply (decl_ents_ok text decls q _ X5). }
  assert (Hdecls : Forall decl_ok decls) by (revert T4; apply Forall_impl; intros d Hd; apply (dc_ok _ Hd)).
  assert (Hadjs : Forall decl_adj decls) by (revert T4; apply Forall_impl; intros d Hd; apply (dc_adj _ Hd)).
  assert (Hcont : Forall decl_cont decls) by (revert T4; apply Forall_impl; intros d Hd; apply (dc_cont _ Hd)).
  pose proof (CI_set_entities c1 es I1) as I1'. fold c1' in I1'.
  pose proof (CstLex.W_app _ _ _ _ HW1) as HW2. set (p2 := p1 + blen (E.r_dtd t)) in *.
  (* items between the DOCTYPE and the root *)
  pose proof (Step_nodes_len _ _ _ _ S1) as Ln1.
  rewrite (Forall2_len_N _ _ _ F1) in Ln1. unfold len_N at 3 in Ln1. rewrite tag_list_len in Ln1.
  pose proof (Step_opt _ _ _ _ (proj1 S1)) as Lo1.
  pose proof (Step_attrs_len _ _ _ _ (proj1 S1)) as La1. change (len_N []) with 0 in La1.
  unfold parse_misc at 1. cbn [CstLex.st s_rest]. fold (CstLex.st text p2 rest2).
  rewrite Erest2 in HW2 |- *.
  destruct (misc_loop_ok text Hascii M p2 w1 rest3 c1' (S (length (r_pairs M ++ w1 ++ rest3))) HW2 H6 H2 Hstop3)
    as (c2 & K2 & E2 & S2 & I2 & A2 & F2).
  { pose proof (pairs_len M H6). rewrite app_length. clia. }
  { exact I1'. } { exact A1. }
  { unfold node_room in *. change (d_nodes (c_doc c1')) with (d_nodes (c_doc c1)). change (c_opt c1') with (c_opt c1).
    rewrite Ln1, Lo1. clia. }
  change (set_entities c1 (decl_ents q (E.t_decls t))) with c1'. rewrite E2. cbn [bind]. clear E2.
  pose proof (CstLex.W_app _ _ _ _ HW2) as HWb. pose proof (CstLex.W_app _ _ _ _ HWb) as HW3.
  set (p3 := p2 + blen (r_pairs M) + blen w1) in *.
  rewrite skip_spaces_none by (try exact HW3; apply Hstop3).
  rewrite (Hcb p3 HW3).
  (* root *)
  pose proof (Step_nodes_len _ _ _ _ S2) as Ln2.
  rewrite (Forall2_len_N _ _ _ F2) in Ln2. unfold len_N at 3 in Ln2. rewrite tag_list_len in Ln2.
  change (d_nodes (c_doc c1')) with (d_nodes (c_doc c1)) in Ln2.
  pose proof (Step_opt _ _ _ _ (proj1 S2)) as Lo2. change (c_opt c1') with (c_opt c1) in Lo2.
  pose proof (Step_attrs_len _ _ _ _ (proj1 S2)) as La2. change (len_N []) with 0 in La2.
  change (d_attrs (c_doc c1')) with (d_attrs (c_doc c1)) in La2.
  destruct (Step_keep _ _ _ _ S2) as [Kld2 Kes2]. change (c_ld c1') with (c_ld c1) in Kld2.
  change (c_entities c1') with es in Kes2.
  assert (Hnt : is_titext root' = false).
  { unfold root in Hroot. rewrite inline_elem in Hroot. destruct (E.inline_attrs _ false attrs) as [[a' ta]|]; [|discriminate].
    cbn [E.obind] in Hroot. destruct body as [[cs w2]|].
    - destruct (E.inline_items _ false cs) as [[b0 tb0]|]; [|discriminate]. cbn [E.obind] in Hroot. injection Hroot as <- _. reflexivity.
    - injection Hroot as <- _. reflexivity. }
  assert (Ew : walk [] [root'] = ([root'], [])) by (rewrite walk_single by exact Hnt; reflexivity).
  assert (Hbal : Bal tr').
  { apply (bal_item (glevel decls glevels) (balT_glevel decls glevels) false root [root'] tr' Hroot). }
  pose proof (limits_fail tr' Hbal Hlim) as Hrun.
  rewrite Erest3 in HW3 |- *.
  destruct (root_f text Hascii decls es Henv Hdecls Hadjs Hcont name attrs ws body p3 (r_pairs A ++ wE ++ []) c2
              [root'] tr' H8 HW3 I2 A2 (ci_floor _ I2) ltac:(congruence) Kes2 Hroot Hrun) as [pos E3].
  { split; rewrite Ew; cbn [fst snd forallb]; [rewrite Hprov; reflexivity|reflexivity]. }
  { split; rewrite Ew; cbn [fst snd app flush all_marks forallb map nattrs_items].
    - rewrite nsizes_cons. change (nsizes []) with 0. unfold node_room in *. rewrite Ln2, Lo2, Ln1, Lo1. clia.
    - rewrite Nat.add_0_r. unfold attr_room in *. rewrite La2, La1. clia. }
  fold root in E3. rewrite E3. cbn [bind]. eauto.
Qed.


Print Assumptions fparse_document.
