(* Proofs/CstRangeG6Doc.v -- C13 / C18 on the capstone fragment, stage S6 (Spec/CstFullS6.v): parse_document of
   Proofs/CstFullS6Doc.v once more with the observations of CstRangeG6Items.v: the comments and PIs of the
   prolog (those of the internal subset included) and of the epilog are nodes written where they
   stand; the root element with everything its content stands for. *)
From Coq Require Import Ascii String.
From Coq Require Import List NArith PeanoNat Bool Lia ZifyBool ZifyN ZifyNat.
Import ListNotations.
From RX Require Import Generated.
From RX.Model Require Import Base CharClass Stream Tokenizer Doc Builder Parse.
From RX.Spec Require Cst CstText CstEnt Detector Scope CstU CstNs Chars.
From RX.Spec Require Tree.
From RX.Spec Require Import CstFullS5.
From RX.Spec Require Import Text CstFull CstFullS4.
From RX.Spec Require Import CstFullS6.
From RX.Proofs Require Import Tactics CstLex CstBuild CstNsLex CstNsView CstNsBuild CstULex.
From RX.Proofs Require Import CstTextSem CstEntSem CstEntMeaning CstEntRun CstEntInline DetectorProofs.
From RX.Proofs Require Import CstFullLex CstFullBuild CstFullTree CstFullDoc.
From RX.Proofs Require Import CstFullS2Sem CstFullS3Sem CstFullS3Text CstFullS3Run CstFullS3Plug.
From RX.Proofs Require Import CstEntCBuild CstEntCSem.
From RX.Proofs Require Import CstFullS4Sem CstFullS4TSem CstFullS4TText CstFullS4Build CstFullS4Attr.
From RX.Proofs Require Import CstFullS5Ws CstFullS5Lex CstFullS5Doc CstFullS5Dtd CstFullS5Decl.
From RX.Proofs Require Import CstFullS6Text CstFullS6Items CstFullS6Dtd CstFullS6Doc.
From RX.Proofs Require CstItems CstNsItems CstNsDoc CstNsMain CstUItems CstUDoc CstDoc CstEntDtd CstEntText CstEntCLex CstFullS6Lex CstEntRejSem CstEntBuild.
From RX.Proofs Require CstFullS3 CstFullS5Items CstFullS5.
From RX.Proofs Require Import CstRangeDefs CstRangeBuild CstRangeTDefs CstRangeTBuild CstRangeEDefs CstRangeEText CstRangeEFrags.
From RX.Proofs Require Import CstRangeFDefs CstRangeFBuild CstRangeFItems CstRangeFDoc CstRangeGDefs CstRangeGS3.
From RX.Proofs Require Import CstRangeG6Defs CstRangeG6Sem CstRangeG6Build CstRangeG6Ev CstRangeG6Text CstRangeG6Items CstRangeG6Dtd.
From RX.Proofs Require CstRangeG5Doc CstRangeG5.
Open Scope N_scope.

Ltac clia := repeat match goal with H : @eq bool _ true |- _ => clear H end; lia.

Notation M0 := CstFullS3.M0.
Notation dens0 := (CstFullTree.dens epieces M0).
Notation bden := (den bmeaning).
Notation bdens := (CstFullTree.dens bpieces bmeaning).
Notation doc_tail := CstFullS5.doc_tail.

(* ---- comments and PIs observed by the frame are events ---- *)
Lemma ewalk_nodes : forall L : list (N * uitem), ewalk [] (map LNode L) = (flat_map node_of_item L, []).
Proof.
  induction L as [|x L IH]; [reflexivity|]. cbn [map ewalk flat_map]. rewrite IH. reflexivity.
Qed.

Lemma node_of_items_fst (L : list (N * uitem)) :
  map fst (flat_map node_of_item L) = map fst (flat_map (fnode_of epieces (fun _ _ => [])) L).
Proof.
  induction L as [|x L IH]; [reflexivity|]. cbn [flat_map]. rewrite !map_app, IH. f_equal.
  unfold node_of_item. rewrite map_map. reflexivity.
Qed.

Lemma node_of_items_shapes (L : list (N * uitem)) K :
  Forall2 fkshape K (map snd (flat_map (fnode_of epieces (fun _ _ => [])) L)) ->
  Forall2 fkshape6 K (map snd (flat_map node_of_item L)).
Proof.
  assert (E : map snd (flat_map node_of_item L) = map XS (map snd (flat_map (fnode_of epieces (fun _ _ => [])) L))).
  { induction L as [|x L IH]; [reflexivity|]. cbn [flat_map]. rewrite !map_app, IH. f_equal.
    unfold node_of_item. rewrite !map_map. reflexivity. }
  rewrite E. generalize (map snd (flat_map (fnode_of epieces (fun _ _ => [])) L)). intros l H.
  induction H; constructor; assumption.
Qed.

Lemma ExtraF_misc_Extra text M' vs0 rn0 M vs (L : list (N * uitem)) c c' K ext :
  Forall (fun x => is_misc epieces (snd x) = true) L ->
  CstRangeFItems.ExtraF epieces M' vs0 rn0 text L c c' K ext ->
  CstRangeG6Ev.Extra text M vs c c' [] [] (map LNode L) K ext.
Proof.
  intros HM H. apply (ExtraF_misc_indep epieces M' M vs0 vs rn0 (fun _ _ => []) text L c c' K ext HM) in H.
  destruct H as (A1 & A2 & A3 & A4). unfold CstRangeG6Ev.Extra. cbn [map]. rewrite ewalk_nodes. cbn [fst snd].
  rewrite ev_aspans_nodes, ev_decls_nodes, node_of_items_fst.
  split; [apply node_of_items_shapes; exact A1|]. split; [exact A2|]. split; [exact A3|]. split; [exact A4|reflexivity].
Qed.

Section RootR.
Variable text : bytes.
Variable D : list Scope.binding.
Hypothesis HD : forall l, NoDup l -> incl l D -> N.of_nat (length l) <= 65535.
Variable decls : list xdecl.
Variable es : list entity.
Hypothesis Henv : Forall2 (uent_ok text) (map pd decls) es.
Hypothesis Hdecls : Forall udecl_okc (map pd decls).
Hypothesis Hcont : Forall decl_cont decls.

Notation WV := (CstULex.WV text).
Notation CIn := (CstNsBuild.CIn text D).
Notation OR := (CstFullS6Text.OR text D es).
Notation Res := (CstFullS6Text.Res text D es).
Notation tbm := (level decls E.max_level).
Notation decls3 := (map pd decls).
Notation vt := (xvt_of decls es).
Notation tbe := (E.level decls3 E.max_level).
Notation Extra := (CstRangeG6Ev.Extra text (ents_meaning tbe) (vstore3 tbe)).

(* the root element: parse_element, then parse_content at depth 0 *)
Lemma root_ok_6_r name ens ws body p post c its tr ld' :
  wf_uitem_s false (IElem name ens ws body) = true ->
  WV p (r_item (@IElem epieces name ens ws body) ++ post) ->
  CIn [] c -> c_after_text c = [] -> c_ld c = ld_init -> c_entities c = es ->
  inline_item tbm false (IElem name ens ws body) = Some (its, tr) ->
  ld_run ld_init tr = Some ld' ->
  Pok [] its -> Rooms [] c [] its -> NsOk D [] [] its ->
  exists c0' c' (fr' : list (cow * range)) K ext,
    (let! (open, s, c) := parse_element text context (CstBuild.tok_ev text)
                            (CstLex.st text p (r_item (@IElem epieces name ens ws body) ++ post)) c in
     if open then parse_content text context (CstBuild.tok_ev text) s c else Ok (s, c)) =
    Ok (CstLex.st text (p + blen (r_item (@IElem epieces name ens ws body))) post, c') /\
    Res [] c c [] its ld' c0' c' (map fst fr') K ext /\
    rng c' = rng c0' ++ firstn 1 (map snd fr') /\
    Extra c c0' [] fr' (lev_item vt (lev_ent vt E.max_level) p (IElem name ens ws body)) K ext.
Proof.
  intros Hwf HW I Hat Hld0 Hes Hin Hld HP HR HN.
  pose proof (cn_floor _ _ _ _ I) as Hfl.
  assert (HO : OR [] c c []) by (constructor; try assumption; apply CstEntText.same_frame_refl).
  pose proof (WV_top _ _ _ HW) as HW'.
  assert (HL : forall cs, ItemsOK_r text D decls es E.max_level cs) by (intros cs; apply (ItemsOK_all_r text D HD decls es Henv Hdecls Hcont); apply le_n).
  assert (IHk : forall k', E.max_level = S k' -> forall cs, ItemsOK_r text D decls es k' cs).
  { intros k' Ek cs. apply (ItemsOK_all_r text D HD decls es Henv Hdecls Hcont). rewrite Ek. apply Nat.le_succ_diag_r. }
  assert (Hg : rng c = rng c ++ firstn 1 (map snd (@nil (cow * range)))) by (cbn [map firstn]; rewrite app_nil_r; reflexivity).
  rewrite <- !st_top. rewrite evl_top. destruct body as [[cs ws2]|].
  - destruct (wf_elem_parts4 _ _ _ _ _ Hwf) as (_ & _ & _ & _ & _ & Hcs).
    pose proof (usteps_list_le D HD false cs Hcs) as Hst.
    set (post2 := [60; 47] ++ r_qname name ++ ws2 ++ [62] ++ post).
    destruct (elem_open_c_r text D HD decls es Henv Hdecls Hcont E.max_level (le_n _) IHk name ens ws cs ws2 (HL cs)
                [] false (tlen text) [] p post c c (@nil (cow * range)) [] entity_levels 0
                (length (r_uitems cs ++ post2) - usteps_list cs)%nat its tr ld' Hwf HW' HO Hg (SemI_nil text))
      as (c1 & c0' & c' & fr' & K & ext & E1 & E2 & HRes & Hg' & HX); try assumption.
    { rewrite Hld0. reflexivity. }
    { rewrite Hld0. reflexivity. }
    { rewrite Hld0. apply ld_ok_init. }
    { rewrite Hfl. lia. }
    { rewrite Hld0. exact Hld. }
    rewrite E1. cbn [bind]. unfold parse_content. cbn [CstEntCLex.st s_rest]. rewrite app_nil_r.
    fold post2.
    replace (S (length (r_uitems cs ++ post2)))
      with (usteps_list cs + S (length (r_uitems cs ++ post2) - usteps_list cs))%nat
      by (rewrite app_length in *; clia).
    fold post2 in E2.
    match goal with |- context [parse_content_loop _ _ _ _ 0 ?s c1] =>
      replace s with (CstEntCLex.st (tlen text) [] (p + 1 + blen (r_qname name) + blen (flat_map r_entry ens) + blen ws + 1) (r_uitems cs ++ post2))
        by (unfold CstEntCLex.st; rewrite app_nil_r; reflexivity) end.
    rewrite E2. change (0 =? 0) with true. cbv iota.
    exists c0', c', fr', K, ext. split; [reflexivity|]. split; [exact HRes|]. split; [exact Hg'|exact HX].
  - destruct (elem_empty_c_r text D HD decls es Henv Hdecls Hcont E.max_level (le_n _) IHk [] name ens ws
                false (tlen text) [] p post c c (@nil (cow * range)) [] entity_levels its tr ld' Hwf HW' HO Hg (SemI_nil text))
      as (c0' & c' & fr' & K & ext & E1 & HRes & Hg' & HX); try assumption.
    { rewrite Hld0. reflexivity. }
    { rewrite Hld0. apply ld_ok_init. }
    { rewrite Hld0. exact Hld. }
    rewrite E1. cbn [bind]. exists c0', c', fr', K, ext. split; [reflexivity|]. split; [exact HRes|]. split; [exact Hg'|exact HX].
Qed.

End RootR.


Section Tail6R.
Variable text : bytes.
Variable D : list Scope.binding.
Hypothesis HD : forall l, NoDup l -> incl l D -> N.of_nat (length l) <= 65535.
Variable decls : list xdecl.
Variable es : list entity.
Hypothesis Henv : Forall2 (uent_ok text) (map pd decls) es.
Hypothesis Hdecls : Forall udecl_okc (map pd decls).
Hypothesis Hcont : Forall decl_cont decls.

Notation CIn := (CstNsBuild.CIn text D).
Notation WV := (CstULex.WV text).
Notation node_room := CstNsItems.node_room.
Notation attr_room := CstNsItems.attr_room.
Notation ns_room := CstNsItems.ns_room.
Notation tbm := (level decls E.max_level).
Notation decls3 := (map pd decls).
Notation vt := (xvt_of decls es).
Notation tbe := (E.level decls3 E.max_level).
Notation Extra := (CstRangeG6Ev.Extra text (ents_meaning tbe) (vstore3 tbe)).
Notation Extra_app := (CstRangeG6Ev.Extra_app text (ents_meaning tbe) (vstore3 tbe)).

Lemma tail_ok6_r name ens ws body (A : pairs epieces) wE p3 c3 root' tr :
  let root := IElem name ens ws body in
  wf_uitem_s false root = true -> wf_pairs_s epieces M0 A = true -> wf_s wE = true ->
  inline_item tbm false root = Some ([root'], tr) -> limits_ok tr = true -> provisos_item root' = true ->
  CstFullTree.ns_oks [] (bden root') = true -> incl (NT.items_decls (bden root')) D ->
  WV p3 (r_item root ++ r_pairs A ++ wE ++ []) ->
  CIn [] c3 -> c_after_text c3 = [] -> c_ld c3 = ld_init -> c_entities c3 = es ->
  node_room c3 (NT.nsizes (bden root') + NT.nsizes (dens0 (map snd A))) ->
  attr_room c3 (NT.nattrs_items (bden root')) -> ns_room c3 (NT.ns_costs [] (bden root')) ->
  exists c5 K ext,
    doc_tail text (CstLex.st text p3 (r_item root ++ r_pairs A ++ wE ++ [])) c3 = Ok c5 /\
    Stepn c3 c5 K ext /\
    Forall2 (kmn text (c_doc c5)) K
      (NT.tag_list [] (c_parent_id c3) (len_N (d_nodes (c_doc c3))) (bden root' ++ dens0 (map snd A))) /\
    Extra c3 c5 [] [] (lev_item vt (lev_ent vt E.max_level) p3 root ++ map LNode (fpairs_at epieces (p3 + blen (r_item root)) A)) K ext.
Proof.
  intros root H5 H6' H2 Hinl Hlim Hprov Hnsr HinD HWg I3 A3 Hld3 Kes3 NR AR SR.
  destruct (wf_elem_parts4 _ _ _ _ _ H5) as (Hn & _).
  destruct (root_starts epieces name ens ws body Hn) as (n & l & El & Hnsp & H33 & H63). fold root in El.
  pose proof (WV_W _ _ _ HWg) as HWg'.
  unfold CstFullS5.doc_tail. cbv zeta.
  assert (Hsp : stops byte_is_space (r_item root ++ r_pairs A ++ wE ++ [])) by (rewrite El; reflexivity).
  rewrite (CstDoc.skip_spaces_none text) by (try exact HWg'; exact Hsp).
  assert (Ecb : match curr_byte_opt (CstLex.st text p3 (r_item root ++ r_pairs A ++ wE ++ [])) with Some x => x =? 60 | None => false end = true).
  { revert HWg'. rewrite El. cbn [app]. intros HWg'. rewrite curr_byte_opt_st by exact HWg'. reflexivity. }
  rewrite Ecb.
  destruct (detector_complete_gen tr 0 0 Hlim) as [ld' Hrun]. change (DetectorProofs.mk 0 0) with ld_init in Hrun.
  assert (Ew : walk [] [root'] = ([root'], [])).
  { assert (Hnt : is_btext root' = false).
    { unfold root in Hinl. rewrite inline_item_elem in Hinl. destruct (inline_entries tbm false ens) as [[a' ta]|]; [|discriminate].
      cbn [E.obind] in Hinl. destruct body as [[cs w2]|].
      - destruct (inline_items tbm false cs) as [[b0 tb0]|]; [|discriminate]. cbn [E.obind] in Hinl. injection Hinl as <- _. reflexivity.
      - injection Hinl as <- _. reflexivity. }
    rewrite walk_single by exact Hnt. reflexivity. }
  destruct (root_ok_6_r text D HD decls es Henv Hdecls Hcont name ens ws body p3 (r_pairs A ++ wE ++ []) c3 [root'] tr ld' H5 HWg I3 A3 Hld3 Kes3 Hinl Hrun)
    as (c0r & c4 & fr4 & K2 & e2 & E4 & HRes4 & Hg4 & HX4).
  { split; rewrite Ew; cbn [fst snd forallb]; [rewrite Hprov; reflexivity|reflexivity]. }
  { split; [|split]; rewrite Ew; cbn [fst snd app flush all_marks forallb CstFullTree.dens]; rewrite ?app_nil_r.
    - unfold CstNsItems.node_room in *. clia.
    - exact AR.
    - exact SR. }
  { split; rewrite Ew; cbn [fst CstFullTree.dens]; rewrite app_nil_r; assumption. }
  fold root in E4. rewrite E4. cbn [bind]. clear E4.
  destruct HRes4 as (S4r & O4 & M4 & F4 & L4r & N4 & D4 & D4' & Fl4 & _). rewrite Ew in M4, F4, L4r, N4. cbn [fst snd] in M4, F4, L4r, N4.
  cbn [CstFullTree.dens] in F4, L4r, N4. rewrite app_nil_r in F4, L4r, N4.
  assert (Efr : fr4 = []).
  { destruct fr4 as [|x0 r0]; [reflexivity|]. assert (X : map fst (x0 :: r0) = []) by (apply (proj2 M4); reflexivity). discriminate X. }
  subst fr4. cbn [map] in O4, M4.
  destruct O4 as [Or1 Or2 Or3 Or4 Or5 Or6]. cbn [CstEntText.Run] in Or5.
  assert (Efl4 : c_entity_floor c4 = 0) by (rewrite Fl4; apply (cn_floor _ _ _ _ I3)).
  assert (Eld4 : c_ld c4 = ld_init).
  { rewrite D4. apply (CstEntBuild.ld_run_init tr ld' Hrun). rewrite D4', Hld3. reflexivity. }
  assert (I4 : CIn [] c4) by (apply (CIn_frame text D [] c0r c4 Or5 Efl4 Or1)).
  assert (A4 : c_after_text c4 = []) by (destruct Or5 as (_ & _ & _ & _ & _ & _ & X & _); rewrite <- X; exact Or2).
  assert (S4 : Stepn c3 c4 K2 e2) by (apply (Stepn_frame c3 c0r c4 _ _ Or5); [congruence|congruence|exact S4r]).
  assert (Edoc4 : c_doc c4 = c_doc c0r) by (destruct Or5 as (_ & _ & _ & _ & _ & _ & _ & _ & X); symmetry; exact X).
  rewrite <- Edoc4 in F4.
  pose proof (WV_app _ _ _ _ HWg (uitem_valid false _ H5)) as HWh. fold root in HWh.
  set (p4 := p3 + blen (r_item root)) in *.
  pose proof (CstFullS5Items.Stepn_nodes_len _ _ _ _ S4) as Ln4.
  rewrite (CstFullS5Items.Forall2_len_N _ _ _ F4) in Ln4. unfold len_N at 3 in Ln4. rewrite NT.tag_list_len in Ln4.
  pose proof (CstFullS5Items.Stepn_opt _ _ _ _ (proj1 S4)) as Lo4.
  unfold parse_misc. cbn [CstLex.st s_rest]. fold (CstLex.st text p4 (r_pairs A ++ wE ++ [])).
  destruct (CstRangeG5Doc.misc_loop_ok_s_r epieces M0 (vstore3 tbe) (fun _ _ => []) CstFullS3.m0_val_lex CstFullS3.m0_run_valid text D HD es (CstRangeG5.m0_val_norm_gr text es (vstore3 tbe))
              A p4 wE [] c4 (S (length (r_pairs A ++ wE ++ []))) HWh H6' H2)
    as (c5 & K3 & E5 & S5 & I5 & A5 & Tr5 & F5 & Y5).
  { split; [exact Logic.I|split; reflexivity]. }
  { pose proof (pairs_len_s epieces M0 A H6'). rewrite app_length. clia. }
  { exact I4. } { exact A4. }
  { unfold CstNsItems.node_room in *. rewrite Ln4, Lo4, <- !N.add_assoc. exact NR. }
  rewrite E5. cbn [bind]. clear E5.
  pose proof (WV_W _ _ _ HWh) as HWh'.
  pose proof (W_app _ _ _ _ HWh') as HWi. pose proof (W_app _ _ _ _ HWi) as HWj.
  rewrite at_end_st by exact HWj. cbn [negb].
  exists c5, (K2 ++ K3), (e2 ++ []). split; [reflexivity|]. split; [apply (Stepn_trans _ _ _ _ _ _ _ S4 S5)|].
  split.
  2:{ eapply Extra_app; [|apply (ExtraF_misc_Extra _ _ _ _ _ _ _ _ _ _ _ (CstRangeG5.fpairs_misc_s _ _ _ H6') Y5)].
      destruct HX4 as (Z1 & Z2 & Z3 & Z4 & Z5). unfold CstRangeG6Ev.Extra. unfold rng in *. rewrite Edoc4.
      split; [exact Z1|]. split; [exact Z2|]. split; [exact Z3|]. split; [exact Z4|exact Z5]. }
  rewrite CstNsDoc.tag_list_app. apply Forall2_app.
  - apply (CstFullS5Items.kmn_Forall2_ext text D HD (c_doc c4)); [apply (Step0n_DocExt _ _ _ _ (proj1 S5))|exact F4].
  - destruct S4 as (_ & P4 & _). rewrite P4, Ln4 in F5. exact F5.
Qed.

End Tail6R.


(* ------------------------------------------------------------------------------------------ *)
(* parse_document                                                                             *)
(* ------------------------------------------------------------------------------------------ *)
Lemma smisc6_misc_gen : forall ds q, forallb wf_sdecl6 ds = true ->
  Forall (fun x => is_misc epieces (snd x) = true) (smisc6_at q ds).
Proof.
  induction ds as [|s r IH]; intros q H; [constructor|]. cbn [forallb] in H. apply andb_true_iff in H. destruct H as [Hs Hr].
  destruct s as [e|s5]; cbn [smisc6_at]; [apply IH; exact Hr|].
  destruct s5; try (apply IH; exact Hr).
  constructor; [|apply IH; exact Hr]. destruct (wf_other _ Hs) as [_ Hs']. cbn [wf_sdecl snd] in *. apply andb_true_iff in Hs'. destruct Hs' as [_ Hi].
  apply misc_is. exact Hi.
Qed.

Lemma smisc6_misc q t : wf_doctype6 t = true -> Forall (fun x => is_misc epieces (snd x) = true) (smisc6_at q (subset_decls6 t)).
Proof.
  unfold wf_doctype6, subset_decls6. rewrite !andb_true_iff. intros [_ Hsub].
  destruct (z_subset t) as [u|]; cbn [wf_opt] in Hsub; [|constructor].
  unfold wf_subset6 in Hsub. rewrite !andb_true_iff in Hsub. apply smisc6_misc_gen. tauto.
Qed.

Section Doc6R.
Variable d : S6.doc.
Hypothesis Hwf : S6.wf_doc d = true.

Notation decls := (S6.decls d).
Notation main := (S6.x_main d).
Notation text := (S6.render d).
Notation tbm := (level decls E.max_level).
Notation decls3 := (map pd decls).
Notation tbe := (E.level decls3 E.max_level).
Notation vsm := (vstore3 tbe).
Notation Extra := (CstRangeG6Ev.Extra text (ents_meaning tbe) vsm).
Notation Extra_app := (CstRangeG6Ev.Extra_app text (ents_meaning tbe) vsm).
Notation s6_parts := (CstFullS6Doc.s6_parts d Hwf).
Notation decls_ok6 := (CstFullS6Doc.decls_ok6 d Hwf).
Notation text_valid6 := (CstFullS6Doc.text_valid6 d Hwf).
Notation text_eq6 := (CstFullS6Doc.text_eq6 d).
Notation dtd_bytes6 := (CstFullS6Doc.dtd_bytes6 d).
Notation dtd_bytes6_shape := (CstFullS6Doc.dtd_bytes6_shape d).
Notation B1 := (CstFullS6Doc.B1 d).
Notation wB1 := (CstFullS6Doc.wB1 d).
Notation L6 := (CstFullS6Doc.L6 d).
Notation pairs_valid0 := CstFullS6Doc.pairs_valid0.
Notation dtd_part_parts6 := CstFullS6Doc.dtd_part_parts6.
Notation doctype6_head := CstFullS6Doc.doctype6_head.

Variable D : list Scope.binding.
Hypothesis HD : forall l, NoDup l -> incl l D -> N.of_nat (length l) <= 65535.

Notation CIn := (CstNsBuild.CIn text D).
Notation node_room := CstNsItems.node_room.
Notation attr_room := CstNsItems.attr_room.
Notation ns_room := CstNsItems.ns_room.
Notation WV := (CstULex.WV text).

Lemma parse_document_ok_6_r (dtd : bool) root' tr (c0 : context) :
  (S6.has_dtd d = true -> dtd = true) ->
  inline_item tbm false (d_root main) = Some ([root'], tr) -> limits_ok tr = true -> provisos_item root' = true ->
  CstFullTree.ns_oks [] (bden root') = true -> incl (NT.items_decls (bden root')) D ->
  CIn [] c0 -> c_entities c0 = [] -> c_ld c0 = ld_init -> c_after_text c0 = [] ->
  node_room c0 (NT.nsizes (L6 root')) -> attr_room c0 (NT.nattrs_items (bden root')) ->
  ns_room c0 (NT.ns_costs [] (bden root')) ->
  exists cf K ext,
    parse_document text context (tok_ev text) dtd c0 = Ok cf /\
    absn (c_doc cf) = absn (c_doc c0) ++ K /\ d_attrs (c_doc cf) = d_attrs (c_doc c0) ++ ext /\
    Extra c0 cf [] [] (s6_events d) K ext.
Proof.
  intros Hdtd Hinl Hlim Hprov Hnsr HinD I0 Hes0 Hld0 A0 NR AR SR.
  destruct s6_parts as [Hx Hg H1 H2 H3 (name & ens & ws & body & Er) H5 H6 _].
  destruct decls_ok6 as [Hdk Hcont]. pose proof text_valid6 as Hvalid.
  destruct (regroup_wf_s epieces M0 _ _ H1 H3) as [Q1 Q2]. fold B1 in Q1. fold wB1 in Q2.
  set (A := d_after main) in *. set (wE := d_ws_end main) in *.
  rewrite Er in *. set (root := IElem name ens ws body) in *.
  set (rest1 := r_item root ++ r_pairs A ++ wE ++ []).
  assert (Emain : render main = r_pairs B1 ++ wB1 ++ rest1).
  { rewrite (render_shape epieces main). fold B1 wB1 A wE. rewrite Er. reflexivity. }
  destruct (wf_elem_parts4 _ _ _ _ _ H5) as (Hn & _).
  destruct (root_starts epieces name ens ws body Hn) as (n & l & El & Hnsp & H33 & H63). fold root in El.
  assert (Hstop1 : CstDoc.misc_stop rest1).
  { unfold rest1. rewrite El. cbn [app]. split; [reflexivity|]. cbn [prefix_b].
    replace (33 =? n) with false by clia. replace (63 =? n) with false by clia. split; reflexivity. }
  assert (Hdt1 : prefix_b [60; 33; 68; 79; 67; 84; 89; 80; 69] rest1 = false).
  { unfold rest1. rewrite El. cbn [app prefix_b]. replace (33 =? n) with false by clia. rewrite andb_false_r. reflexivity. }
  destruct (pairs_dens_s epieces M0 B1 Q1) as (_ & _ & _ & Hn1 & _).
  unfold L6 in NR. unfold parse_document.
  destruct (S6.x_dtd d) as [g|] eqn:Ex.
  - (* with a DOCTYPE *)
    cbn [wf_opt] in Hg. destruct (dtd_part_parts6 g Hg) as (H0 & Hb & Ht).
    destruct (regroup_wf_s epieces M0 _ _ H0 Hb) as [R1 R2].
    set (B0 := regroup (S6.g_ws0 g) (S6.g_before g)) in *. set (wB0 := last_ws (S6.g_ws0 g) (S6.g_before g)) in *.
    set (t := S6.g_dtd g) in *.
    assert (Hd : dtd = true) by (apply Hdtd; unfold S6.has_dtd; rewrite Ex; reflexivity). subst dtd.
    assert (Epro : S6.prolog_items d = map snd B0 ++ subset_misc6 t).
    { unfold S6.prolog_items. rewrite Ex. unfold B0. rewrite (regroup_items epieces). reflexivity. }
    assert (Edec : decls = ge_decls6 t) by (unfold S6.decls; rewrite Ex; reflexivity).
    set (rest0 := r_doctype6 t ++ r_pairs B1 ++ wB1 ++ rest1).
    assert (Ebody : dtd_bytes6 ++ render main = r_pairs B0 ++ wB0 ++ rest0).
    { rewrite (dtd_bytes6_shape g Ex), Emain. unfold rest0. rewrite <- !app_assoc. reflexivity. }
    destruct (doctype6_head t (r_pairs B1 ++ wB1 ++ rest1)) as [ld Eld]. fold rest0 in Eld.
    assert (Hstop0 : CstDoc.misc_stop rest0) by (rewrite Eld; split; [reflexivity|split; reflexivity]).
    destruct (CstFullS5.head_pairs B0 wB0 33 (68 :: ld) R1 R2 ltac:(lia)) as [Hdecl Hhead]. rewrite <- Eld, <- Ebody in Hdecl, Hhead.
    destruct (CstFullS5.prefix_ok text (S6.x_bom d) (S6.x_decl d) (dtd_bytes6 ++ render main) text_eq6 Hvalid Hx Hdecl Hhead) as (P1 & P2 & HWp).
    rewrite P1. cbn [bind]. rewrite P2. cbn [bind]. clear P1 P2.
    set (p0 := CstFullS5.pb (S6.x_bom d) + blen (r_opt r_xmldecl (S6.x_decl d))) in *.
    rewrite Ebody in HWp |- *.
    rewrite Epro in NR. rewrite (dens_app epieces M0) in NR. rewrite <- !app_assoc in NR. rewrite !nsizes_app in NR.
    destruct (pairs_dens_s epieces M0 B0 R1) as (_ & _ & _ & Hn0 & _).
    (* before the DOCTYPE *)
    unfold parse_misc. cbn [CstLex.st s_rest]. fold (CstLex.st text p0 (r_pairs B0 ++ wB0 ++ rest0)).
    destruct (CstRangeG5Doc.misc_loop_ok_s_r epieces M0 vsm (fun _ _ => []) CstFullS3.m0_val_lex CstFullS3.m0_run_valid text D HD [] (CstRangeG5.m0_val_norm_gr text [] vsm)
                B0 p0 wB0 rest0 c0 (S (length (r_pairs B0 ++ wB0 ++ rest0))) HWp R1 R2 Hstop0)
      as (c1 & K0 & E1 & S1 & I1 & A1 & Tr1 & F1 & Y1).
    { pose proof (pairs_len_s epieces M0 B0 R1). rewrite app_length. clia. }
    { exact I0. } { exact A0. } { unfold CstNsItems.node_room in *. clia. }
    rewrite E1. cbn [bind]. clear E1.
    pose proof (WV_app _ _ _ _ HWp (pairs_valid0 B0 R1)) as HWa.
    pose proof (WV_lit _ _ _ _ HWa (s_lit _ R2)) as HWd. pose proof (WV_W _ _ _ HWd) as HWd'.
    set (p1 := p0 + blen (r_pairs B0) + blen wB0) in *.
    rewrite (CstDoc.skip_spaces_none text) by (try exact HWd'; apply Hstop0).
    rewrite starts_with_st by exact HWd'. change (b "<!DOCTYPE") with E.kw_doctype.
    replace (prefix_b E.kw_doctype rest0) with true by (unfold rest0, r_doctype6; rewrite <- !app_assoc; rewrite prefix_b_app_same; reflexivity).
    cbn [negb bind].
    pose proof (CstFullS5Items.Stepn_nodes_len _ _ _ _ S1) as Ln1.
    rewrite (CstFullS5Items.Forall2_len_N _ _ _ F1) in Ln1. unfold len_N at 3 in Ln1. rewrite NT.tag_list_len in Ln1.
    pose proof (CstFullS5Items.Stepn_opt _ _ _ _ (proj1 S1)) as Lo1.
    pose proof (CstFullS5Items.Stepn_attrs_len _ _ _ _ (proj1 S1)) as La1. change (len_N []) with 0 in La1.
    destruct (sn_keep _ _ _ _ (proj1 S1)) as (_ & Ee1 & _ & Eld1).
    (* the DOCTYPE *)
    unfold rest0 in HWd |- *.
    destruct (doctype_ok6_r text D HD vsm (fun _ _ => []) p1 t (r_pairs B1 ++ wB1 ++ rest1) c1 HWd Ht I1 A1) as (c2 & Kd & es & E2 & S2 & Henv & I2 & A2 & Tr2 & F2 & Es & Y2).
    { unfold CstNsItems.node_room in *. rewrite Ln1, Lo1. clia. }
    rewrite E2. cbn [bind]. clear E2.
    rewrite Ee1, Hes0 in S2. cbn [app] in S2. set (c1' := set_entities c1 es) in *.
    pose proof (CstFullS5Items.Stepn_nodes_len _ _ _ _ S2) as Ln2. cbn [c1' c_doc set_entities] in Ln2.
    rewrite (CstFullS5Items.Forall2_len_N _ _ _ F2) in Ln2. unfold len_N at 3 in Ln2. rewrite NT.tag_list_len in Ln2.
    pose proof (CstFullS5Items.Stepn_opt _ _ _ _ (proj1 S2)) as Lo2. cbn [c1' c_opt set_entities] in Lo2.
    pose proof (CstFullS5Items.Stepn_attrs_len _ _ _ _ (proj1 S2)) as La2. change (len_N []) with 0 in La2. cbn [c1' c_doc set_entities] in La2.
    destruct (sn_keep _ _ _ _ (proj1 S2)) as (_ & Ee2 & _ & Eld2). cbn [c1' c_entities c_ld set_entities] in Ee2, Eld2.
    rewrite <- Edec in Henv.
    pose proof (WV_app _ _ _ _ HWd (doctype_valid6 t Ht)) as HWe.
    set (p2 := p1 + blen (r_doctype6 t)) in *.
    (* between the DOCTYPE and the root *)
    unfold parse_misc. cbn [CstLex.st s_rest]. fold (CstLex.st text p2 (r_pairs B1 ++ wB1 ++ rest1)).
    destruct (CstRangeG5Doc.misc_loop_ok_s_r epieces M0 vsm (fun _ _ => []) CstFullS3.m0_val_lex CstFullS3.m0_run_valid text D HD es (CstRangeG5.m0_val_norm_gr text es vsm)
                B1 p2 wB1 rest1 c2 (S (length (r_pairs B1 ++ wB1 ++ rest1))) HWe Q1 Q2 Hstop1)
      as (c3 & K1 & E3 & S3 & I3 & A3 & Tr3 & F3 & Y3).
    { pose proof (pairs_len_s epieces M0 B1 Q1). rewrite app_length. clia. }
    { exact I2. } { exact A2. }
    { unfold CstNsItems.node_room in *. rewrite Ln2, Lo2, Ln1, Lo1. clia. }
    rewrite E3. cbn [bind]. clear E3.
    pose proof (WV_app _ _ _ _ HWe (pairs_valid0 B1 Q1)) as HWf.
    pose proof (WV_lit _ _ _ _ HWf (s_lit _ Q2)) as HWg.
    set (p3 := p2 + blen (r_pairs B1) + blen wB1) in *.
    pose proof (CstFullS5Items.Stepn_nodes_len _ _ _ _ S3) as Ln3.
    rewrite (CstFullS5Items.Forall2_len_N _ _ _ F3) in Ln3. unfold len_N at 3 in Ln3. rewrite NT.tag_list_len in Ln3.
    pose proof (CstFullS5Items.Stepn_opt _ _ _ _ (proj1 S3)) as Lo3.
    pose proof (CstFullS5Items.Stepn_attrs_len _ _ _ _ (proj1 S3)) as La3. change (len_N []) with 0 in La3.
    destruct (sn_keep _ _ _ _ (proj1 S3)) as (_ & Ee3 & _ & Eld3).
    (* the root and the epilog *)
    destruct (tail_ok6_r text D HD decls es Henv Hdk Hcont name ens ws body A wE p3 c3 root' tr H5 H6 H2 Hinl Hlim Hprov Hnsr HinD HWg I3 A3)
      as (c5 & K23 & e23 & E5 & S5 & F5 & Y5).
    { rewrite Eld3, Eld2, Eld1. exact Hld0. }
    { rewrite Ee3. exact Ee2. }
    { unfold CstNsItems.node_room in *. rewrite Ln3, Lo3, Ln2, Lo2, Ln1, Lo1. rewrite <- !N.add_assoc. exact NR. }
    { unfold CstNsItems.attr_room in *. rewrite La3, La2, La1. clia. }
    { unfold CstNsItems.ns_room in *. rewrite Tr3, Tr2, Tr1. exact SR. }
    fold root in E5, F5. fold rest1 in E5.
    match goal with |- exists cf K ext, ?X = Ok cf /\ _ => change X with (doc_tail text (CstLex.st text p3 rest1) c3) end. rewrite E5.
    exists c5, (K0 ++ Kd ++ K1 ++ K23), ([] ++ [] ++ [] ++ e23). split; [reflexivity|].
    destruct S1 as (S1 & P1a & P1b). destruct S2 as (S2 & P2a & P2b). destruct S3 as (S3 & P3a & P3b). destruct S5 as (S5 & P5a & P5b).
    cbn [c1' c_parent_id c_parent_prefixes set_entities] in P2a, P2b.
    split; [|split].
    + rewrite (sn_nodes _ _ _ _ S5), (sn_nodes _ _ _ _ S3), (sn_nodes _ _ _ _ S2). cbn [c1' c_doc set_entities].
      rewrite (sn_nodes _ _ _ _ S1), <- !app_assoc. reflexivity.
    + rewrite (sn_attrs _ _ _ _ S5), (sn_attrs _ _ _ _ S3), (sn_attrs _ _ _ _ S2). cbn [c1' c_doc set_entities].
      rewrite (sn_attrs _ _ _ _ S1), <- !app_assoc. reflexivity.
    + (* where things are *)
      assert (Ep0 : p0 = s6_start d) by (unfold p0, s6_start, CstFullS5.pb, nlen, blen; reflexivity).
      assert (Ep1 : p1 = s6_dtd_offset d g).
      { unfold p1, s6_dtd_offset, fbefore_len, B0, wB0. rewrite <- Ep0.
        pose proof (f_equal (@length N) (regroup_render epieces (S6.g_before g) (S6.g_ws0 g))) as E.
        rewrite !app_length in E. unfold nlen, blen. clear - E. lia. }
      assert (Ep3 : p3 = p2 + froot_offset epieces main).
      { unfold p3, froot_offset, fbefore_len, B1, wB1.
        pose proof (f_equal (@length N) (regroup_render epieces (d_before main) (d_ws0 main))) as E.
        rewrite !app_length in E. unfold nlen, blen. clear - E. lia. }
      assert (Mb0 : forallb (fun x => is_misc epieces (fst x)) (S6.g_before g) = true).
      { clear - Hb. apply forallb_forall. intros x Hx. rewrite forallb_forall in Hb. specialize (Hb x Hx). rewrite !andb_true_iff in Hb. tauto. }
      assert (Mm1 : forallb (fun x => is_misc epieces (fst x)) (d_before main) = true).
      { clear - H3. apply forallb_forall. intros x Hx. rewrite forallb_forall in H3. specialize (H3 x Hx). rewrite !andb_true_iff in H3. tauto. }
      assert (Mm2 : forallb (fun x => is_misc epieces (snd x)) A = true).
      { clear - H6. unfold wf_pairs_s in H6. apply forallb_forall. intros x Hx. rewrite forallb_forall in H6. specialize (H6 x Hx). rewrite !andb_true_iff in H6. tauto. }
      assert (Evt : s6_vtable d = xvt_of decls es).
      { unfold s6_vtable. rewrite Ex. fold t. rewrite <- Ep1, Es, Edec. symmetry. apply xvt_of_sents6. }
      unfold s6_events, s6_prolog_at, s6_main_offset. rewrite Ex, Evt. fold t. rewrite <- Ep1, <- Ep0. cbv zeta.
      change (nlen (r_doctype6 t)) with (blen (r_doctype6 t)). fold p2. rewrite <- Ep3, Er. fold root.
      rewrite <- (CstRangeG5Doc.fpairs_at_regroup_m epieces (S6.g_before g) p0 (S6.g_ws0 g) Mb0). fold B0.
      rewrite <- (CstRangeG5Doc.fpairs_at_regroup_m epieces (d_before main) p2 (d_ws0 main) Mm1). fold B1.
      fold A. rewrite <- (CstRangeG5Doc.fpairs_at_after_m epieces A _ Mm2).
      change (nlen (r_item root)) with (blen (r_item root)).
      rewrite map_app, <- !app_assoc.
      eapply Extra_app; [apply (ExtraF_misc_Extra _ _ _ _ _ _ _ _ _ _ _ (CstRangeG5.fpairs_misc_s _ _ _ R1) Y1)|].
      eapply Extra_app; [apply (ExtraF_misc_Extra _ _ _ _ _ _ _ _ _ _ _ (smisc6_misc _ _ Ht) Y2)|].
      eapply Extra_app; [apply (ExtraF_misc_Extra _ _ _ _ _ _ _ _ _ _ _ (CstRangeG5.fpairs_misc_s _ _ _ Q1) Y3)|].
      exact Y5.
  - (* without a DOCTYPE *)
    assert (Epro : S6.prolog_items d = []) by (unfold S6.prolog_items; rewrite Ex; reflexivity).
    assert (Edec : decls = []) by (unfold S6.decls; rewrite Ex; reflexivity).
    assert (Ebody : dtd_bytes6 ++ render main = r_pairs B1 ++ wB1 ++ rest1).
    { unfold dtd_bytes6. rewrite Ex, Emain. reflexivity. }
    assert (Erest : exists l', rest1 = 60 :: n :: l') by (unfold rest1; rewrite El; cbn [app]; eexists; reflexivity).
    destruct Erest as [l' Erest].
    destruct (CstFullS5.head_pairs B1 wB1 n l' Q1 Q2 H63) as [Hdecl Hhead]. rewrite <- Erest, <- Ebody in Hdecl, Hhead.
    destruct (CstFullS5.prefix_ok text (S6.x_bom d) (S6.x_decl d) (dtd_bytes6 ++ render main) text_eq6 Hvalid Hx Hdecl Hhead) as (P1 & P2 & HWp).
    rewrite P1. cbn [bind]. rewrite P2. cbn [bind]. clear P1 P2.
    set (p0 := CstFullS5.pb (S6.x_bom d) + blen (r_opt r_xmldecl (S6.x_decl d))) in *.
    rewrite Ebody in HWp |- *.
    rewrite Epro in NR. cbn [CstFullTree.dens app] in NR. rewrite !nsizes_app in NR.
    unfold parse_misc. cbn [CstLex.st s_rest]. fold (CstLex.st text p0 (r_pairs B1 ++ wB1 ++ rest1)).
    destruct (CstRangeG5Doc.misc_loop_ok_s_r epieces M0 vsm (fun _ _ => []) CstFullS3.m0_val_lex CstFullS3.m0_run_valid text D HD [] (CstRangeG5.m0_val_norm_gr text [] vsm)
                B1 p0 wB1 rest1 c0 (S (length (r_pairs B1 ++ wB1 ++ rest1))) HWp Q1 Q2 Hstop1)
      as (c3 & K1 & E3 & S3 & I3 & A3 & Tr3 & F3 & Y3).
    { pose proof (pairs_len_s epieces M0 B1 Q1). rewrite app_length. clia. }
    { exact I0. } { exact A0. } { unfold CstNsItems.node_room in *. clia. }
    rewrite E3. cbn [bind]. clear E3.
    pose proof (WV_app _ _ _ _ HWp (pairs_valid0 B1 Q1)) as HWf.
    pose proof (WV_lit _ _ _ _ HWf (s_lit _ Q2)) as HWg. pose proof (WV_W _ _ _ HWg) as HWg'.
    set (p3 := p0 + blen (r_pairs B1) + blen wB1) in *.
    rewrite (CstDoc.skip_spaces_none text) by (try exact HWg'; apply Hstop1).
    rewrite starts_with_st by exact HWg'. change (b "<!DOCTYPE") with [60; 33; 68; 79; 67; 84; 89; 80; 69]. rewrite Hdt1. cbn [bind].
    pose proof (CstFullS5Items.Stepn_nodes_len _ _ _ _ S3) as Ln3.
    rewrite (CstFullS5Items.Forall2_len_N _ _ _ F3) in Ln3. unfold len_N at 3 in Ln3. rewrite NT.tag_list_len in Ln3.
    pose proof (CstFullS5Items.Stepn_opt _ _ _ _ (proj1 S3)) as Lo3.
    pose proof (CstFullS5Items.Stepn_attrs_len _ _ _ _ (proj1 S3)) as La3. change (len_N []) with 0 in La3.
    destruct (sn_keep _ _ _ _ (proj1 S3)) as (_ & Ee3 & _ & Eld3).
    assert (Henv : Forall2 (uent_ok text) (map pd decls) []) by (rewrite Edec; constructor).
    destruct (tail_ok6_r text D HD decls [] Henv Hdk Hcont name ens ws body A wE p3 c3 root' tr H5 H6 H2 Hinl Hlim Hprov Hnsr HinD HWg I3 A3)
      as (c5 & K23 & e23 & E5 & S5 & F5 & Y5).
    { rewrite Eld3. exact Hld0. }
    { rewrite Ee3. exact Hes0. }
    { unfold CstNsItems.node_room in *. rewrite Ln3, Lo3. rewrite <- !N.add_assoc. exact NR. }
    { unfold CstNsItems.attr_room in *. rewrite La3. clia. }
    { unfold CstNsItems.ns_room in *. rewrite Tr3. exact SR. }
    fold root in E5, F5. fold rest1 in E5.
    match goal with |- exists cf K ext, ?X = Ok cf /\ _ => change X with (doc_tail text (CstLex.st text p3 rest1) c3) end. rewrite E5.
    exists c5, (K1 ++ K23), ([] ++ e23). split; [reflexivity|].
    destruct S3 as (S3 & P3a & P3b). destruct S5 as (S5 & P5a & P5b).
    split; [|split].
    + rewrite (sn_nodes _ _ _ _ S5), (sn_nodes _ _ _ _ S3), <- !app_assoc. reflexivity.
    + rewrite (sn_attrs _ _ _ _ S5), (sn_attrs _ _ _ _ S3), <- !app_assoc. reflexivity.
    + assert (Ep0 : p0 = s6_start d) by (unfold p0, s6_start, CstFullS5.pb, nlen, blen; reflexivity).
      assert (Ep3 : p3 = p0 + froot_offset epieces main).
      { unfold p3, froot_offset, fbefore_len, B1, wB1.
        pose proof (f_equal (@length N) (regroup_render epieces (d_before main) (d_ws0 main))) as E.
        rewrite !app_length in E. unfold nlen, blen. clear - E. lia. }
      assert (Mm1 : forallb (fun x => is_misc epieces (fst x)) (d_before main) = true).
      { clear - H3. apply forallb_forall. intros x Hx. rewrite forallb_forall in H3. specialize (H3 x Hx). rewrite !andb_true_iff in H3. tauto. }
      assert (Mm2 : forallb (fun x => is_misc epieces (snd x)) A = true).
      { clear - H6. unfold wf_pairs_s in H6. apply forallb_forall. intros x Hx. rewrite forallb_forall in H6. specialize (H6 x Hx). rewrite !andb_true_iff in H6. tauto. }
      assert (Evt : s6_vtable d = xvt_of decls []) by (unfold s6_vtable; rewrite Ex, Edec; reflexivity).
      unfold s6_events, s6_prolog_at, s6_main_offset. rewrite Ex, Evt, <- Ep0. cbv zeta. cbn [map app]. rewrite <- Ep3, Er. fold root.
      rewrite <- (CstRangeG5Doc.fpairs_at_regroup_m epieces (d_before main) p0 (d_ws0 main) Mm1). fold B1.
      fold A. rewrite <- (CstRangeG5Doc.fpairs_at_after_m epieces A _ Mm2).
      change (nlen (r_item root)) with (blen (r_item root)).
      exact (Extra_app c0 c3 c5 [] [] [] _ _ K1 K23 [] e23 (ExtraF_misc_Extra _ _ _ _ _ _ _ _ _ _ _ (CstRangeG5.fpairs_misc_s _ _ _ Q1) Y3) Y5).
Qed.

End Doc6R.

Print Assumptions parse_document_ok_6_r.
