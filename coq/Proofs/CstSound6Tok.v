(* Proofs/CstSound6Tok.v -- C08 soundness, the capstone (stage S6): the content tokenizer does not depend on
   its callback.  If two callbacks are related step by step ("when the first answers Ok, so does
   the second, with related states"), so are the runs of parse_content_loop with them on the same
   stream: same final stream, related final states ([rel_content_loop]).  Instances ([ev_log]: the
   callback that records the tokens): a run with any callback that ends Ok emits a list of tokens
   that depends on the stream only, and its final state is the fold of the callback over that list
   ([run_tokens]).  So the run that checks a declared markup value (Proofs/CstSound6.v: bal_ev) and
   the run of the crate when the entity is used read the same tokens. *)
From Coq Require Import String.
From Coq Require Import List Arith NArith Bool Lia.
Import ListNotations.
From RX Require Import Generated.
From RX.Model Require Import Base CharClass Stream Tokenizer.
From RX.Proofs Require Import Tactics CstLex.
From RX.Proofs Require RejectProofs.
Open Scope N_scope.

Section Rel.
Variable text : bytes.
Variables C1 C2 : Type.
Variable ev1 : token -> C1 -> res C1.
Variable ev2 : token -> C2 -> res C2.
Variable R : C1 -> C2 -> Prop.
Hypothesis Hev : forall tk c1 c2 c1', R c1 c2 -> ev1 tk c1 = Ok c1' -> exists c2', ev2 tk c2 = Ok c2' /\ R c1' c2'.

(* when the first run ends Ok, so does the second, with the same value and related states *)
Definition Rres {A} (x : res (A * C1)) (y : res (A * C2)) : Prop :=
  forall a c1, x = Ok (a, c1) -> exists c2, y = Ok (a, c2) /\ R c1 c2.

Lemma Rres_ret {A} (a : A) c1 c2 : R c1 c2 -> Rres (Ok (a, c1)) (Ok (a, c2)).
Proof. intros HR a' c1' H. injection H as <- <-. eauto. Qed.

Lemma Rres_fail {A} (x : res (A * C1)) y : (forall v, x <> Ok v) -> Rres x y.
Proof. intros H a c1 E. destruct (H _ E). Qed.

Lemma Rres_bind_lex {A B} (e : res B) (f1 : B -> res (A * C1)) (f2 : B -> res (A * C2)) :
  (forall v, e = Ok v -> Rres (f1 v) (f2 v)) -> Rres (let! v := e in f1 v) (let! v := e in f2 v).
Proof.
  intros H. destruct e as [v| | |]; cbn [bind]; [apply H; reflexivity|apply Rres_fail; discriminate..].
Qed.

Lemma Rres_bind_ev {A} tk c1 c2 (f1 : C1 -> res (A * C1)) (f2 : C2 -> res (A * C2)) : R c1 c2 ->
  (forall d1 d2, R d1 d2 -> Rres (f1 d1) (f2 d2)) -> Rres (let! d := ev1 tk c1 in f1 d) (let! d := ev2 tk c2 in f2 d).
Proof.
  intros HR H. destruct (ev1 tk c1) as [d1| | |] eqn:E; cbn [bind]; [|apply Rres_fail; discriminate..].
  destruct (Hev _ _ _ _ HR E) as (d2 & E2 & HR2). rewrite E2. cbn [bind]. apply H. exact HR2.
Qed.

Lemma Rres_bind {A B} (x : res (B * C1)) (y : res (B * C2)) (f1 : B * C1 -> res (A * C1)) (f2 : B * C2 -> res (A * C2)) :
  Rres x y -> (forall v d1 d2, R d1 d2 -> Rres (f1 (v, d1)) (f2 (v, d2))) -> Rres (let! q := x in f1 q) (let! q := y in f2 q).
Proof.
  intros Hx H. destruct x as [[v d1]| | |]; cbn [bind]; [|apply Rres_fail; discriminate..].
  destruct (Hx v d1 eq_refl) as (d2 & -> & HR). cbn [bind]. apply H. exact HR.
Qed.

Lemma Rres_if {A} (bb : bool) (x1 x2 : res (A * C1)) (y1 y2 : res (A * C2)) :
  Rres x1 y1 -> Rres x2 y2 -> Rres (if bb then x1 else x2) (if bb then y1 else y2).
Proof. destruct bb; auto. Qed.

Ltac rr :=
  repeat first
    [ apply Rres_ret; assumption
    | apply Rres_fail; intros ? ?; discriminate
    | apply Rres_bind_ev; [assumption|intros ? ? ?]
    | apply Rres_bind_lex; intros ? _
    | apply Rres_if
    | match goal with |- Rres (let '(_, _) := ?e in _) _ => destruct e end
    | match goal with |- Rres (match ?e with _ => _ end) (match ?e with _ => _ end) => destruct e end ].

Lemma err_at_no {A} s e (v : A) : err_at text s e <> Ok v.
Proof. intros H. exact (RejectProofs.err_at_ok _ _ _ _ H). Qed.
Lemma err_from_no {A} p e (v : A) : err_from text p e <> Ok v.
Proof. intros H. exact (RejectProofs.err_from_ok _ _ _ _ H). Qed.

Lemma rel_comment s c1 c2 : R c1 c2 -> Rres (parse_comment text C1 ev1 s c1) (parse_comment text C2 ev2 s c2).
Proof.
  intros HR. unfold parse_comment. cbv zeta. rr; try (apply Rres_fail; intros ?; apply err_from_no).
Qed.

Lemma rel_cdata s c1 c2 : R c1 c2 -> Rres (parse_cdata text C1 ev1 s c1) (parse_cdata text C2 ev2 s c2).
Proof. intros HR. unfold parse_cdata. cbv zeta. rr. Qed.

Lemma rel_pi s c1 c2 : R c1 c2 -> Rres (parse_pi text C1 ev1 s c1) (parse_pi text C2 ev2 s c2).
Proof.
  intros HR. unfold parse_pi. cbv zeta. rr; try (apply Rres_fail; intros ?; first [apply err_from_no|apply err_at_no]).
Qed.

Lemma rel_close s c1 c2 : R c1 c2 -> Rres (parse_close_element text C1 ev1 s c1) (parse_close_element text C2 ev2 s c2).
Proof. intros HR. unfold parse_close_element. cbv zeta. rr. Qed.

Lemma rel_text s c1 c2 : R c1 c2 -> Rres (parse_text text C1 ev1 s c1) (parse_text text C2 ev2 s c2).
Proof.
  intros HR. unfold parse_text. cbv zeta. rr; try (apply Rres_fail; intros ?; apply err_at_no).
Qed.

Lemma rel_elem_loop : forall fuel ts s c1 c2, R c1 c2 ->
  Rres (parse_element_loop text C1 ev1 fuel ts s c1) (parse_element_loop text C2 ev2 fuel ts s c2).
Proof.
  induction fuel as [|fu IH]; intros ts s c1 c2 HR; cbn [parse_element_loop]; [apply Rres_fail; discriminate|].
  cbv zeta. rr. apply IH. assumption.
Qed.

Lemma rel_element s c1 c2 : R c1 c2 -> Rres (parse_element text C1 ev1 s c1) (parse_element text C2 ev2 s c2).
Proof. intros HR. unfold parse_element. cbv zeta. rr. apply rel_elem_loop. assumption. Qed.

Lemma rel_content_loop : forall fuel depth s c1 c2, R c1 c2 ->
  Rres (parse_content_loop text C1 ev1 fuel depth s c1) (parse_content_loop text C2 ev2 fuel depth s c2).
Proof.
  induction fuel as [|fu IH]; intros depth s c1 c2 HR; cbn [parse_content_loop]; [apply Rres_fail; discriminate|].
  destruct (at_end s); [apply Rres_ret; exact HR|].
  apply Rres_bind_lex. intros x _. destruct (x =? 60).
  - destruct (next_byte s) as [y| | |]; try (apply Rres_fail; intros ?; first [apply err_at_no|discriminate]).
    destruct (y =? 33).
    + destruct (starts_with s (b "<!--")).
      * apply Rres_bind; [apply rel_comment; exact HR|]. intros v d1 d2 Hd. apply IH. exact Hd.
      * destruct (starts_with s (b "<![CDATA[")); [|apply Rres_fail; intros ?; apply err_at_no].
        apply Rres_bind; [apply rel_cdata; exact HR|]. intros v d1 d2 Hd. apply IH. exact Hd.
    + destruct (y =? 63).
      * apply Rres_bind; [apply rel_pi; exact HR|]. intros v d1 d2 Hd. apply IH. exact Hd.
      * destruct (y =? 47).
        -- apply Rres_bind; [apply rel_close; exact HR|]. intros v d1 d2 Hd.
           destruct (depth =? 0); [apply Rres_ret; exact Hd|apply IH; exact Hd].
        -- apply (Rres_bind (parse_element text C1 ev1 s c1) (parse_element text C2 ev2 s c2)
                    (fun q => let '(open, s0, c0) := q in parse_content_loop text C1 ev1 fu (if open then depth + 1 else depth) s0 c0)
                    (fun q => let '(open, s0, c0) := q in parse_content_loop text C2 ev2 fu (if open then depth + 1 else depth) s0 c0)).
           ++ apply rel_element. exact HR.
           ++ intros [open s0] d1 d2 Hd. apply IH. exact Hd.
  - apply Rres_bind; [apply rel_text; exact HR|]. intros v d1 d2 Hd. apply IH. exact Hd.
Qed.

End Rel.

(* ---- the recording callback ---- *)
Definition ev_log (tk : token) (l : list token) : res (list token) := Ok (l ++ [tk]).

Lemma run_tokens text C ev fuel depth s c s' c' l0 :
  parse_content_loop text C ev fuel depth s c = Ok (s', c') ->
  exists toks, parse_content_loop text (list token) ev_log fuel depth s l0 = Ok (s', l0 ++ toks) /\
               evs C ev toks c = Ok c'.
Proof.
  intros H.
  set (R := fun (c1 : C) (l : list token) => exists toks, l = l0 ++ toks /\ evs C ev toks c = Ok c1).
  assert (Hev : forall tk c1 c2 c1', R c1 c2 -> ev tk c1 = Ok c1' -> exists c2', ev_log tk c2 = Ok c2' /\ R c1' c2').
  { intros tk c1 l c1' (toks & -> & He) E. exists ((l0 ++ toks) ++ [tk]). split; [reflexivity|].
    exists (toks ++ [tk]). split; [rewrite app_assoc; reflexivity|]. rewrite evs_app, He. cbn [bind evs]. rewrite E. reflexivity. }
  assert (HR0 : R c l0) by (exists []; rewrite app_nil_r; split; reflexivity).
  destruct (rel_content_loop text C (list token) ev ev_log R Hev fuel depth s c l0 HR0 s' c' H) as (l' & E & toks & -> & He).
  exists toks. split; assumption.
Qed.

(* two runs on the same stream that both end Ok read the same tokens *)
Lemma same_tokens text C1 ev1 C2 ev2 fuel depth s c1 c2 s1 c1' s2 c2' :
  parse_content_loop text C1 ev1 fuel depth s c1 = Ok (s1, c1') ->
  parse_content_loop text C2 ev2 fuel depth s c2 = Ok (s2, c2') ->
  s1 = s2 /\ exists toks, evs C1 ev1 toks c1 = Ok c1' /\ evs C2 ev2 toks c2 = Ok c2'.
Proof.
  intros H1 H2.
  destruct (run_tokens _ _ _ _ _ _ _ _ _ [] H1) as (t1 & L1 & E1).
  destruct (run_tokens _ _ _ _ _ _ _ _ _ [] H2) as (t2 & L2 & E2).
  rewrite L1 in L2. injection L2 as -> ->. split; [reflexivity|]. exists t2. split; assumption.
Qed.
