(* Proofs/CstEntCFloor.v -- C07 with content entities: the builder does not look at the entity floor of the context,
   except in ONE test (a close tag may not close an element opened outside the entity value being
   read).  So what is known of a token in a context whose floor is 0 (Proofs/CstBuild.v ...) holds
   for any floor. *)
From Coq Require Import Ascii String.
From Coq Require Import List NArith PeanoNat Bool Lia ZifyBool ZifyN ZifyNat.
Import ListNotations.
From RX Require Import Generated.
From RX.Model Require Import Base CharClass Stream Tokenizer Doc Builder Parse.
Open Scope N_scope.

Definition fl (f : N) (c : context) : context := set_entity_floor c f.

Definition rmap {A B} (g : A -> B) (r : res A) : res B :=
  match r with Ok x => Ok (g x) | Err e => Err e | Panic p => Panic p | OutOfFuel => OutOfFuel end.

Lemma rmap_bind {A B D} (g : B -> D) (r : res A) (k : A -> res B) :
  rmap g (bind r k) = bind r (fun x => rmap g (k x)).
Proof. destruct r; reflexivity. Qed.

Lemma rmap_ok {A B} (g : A -> B) (r : res A) x : r = Ok x -> rmap g r = Ok (g x).
Proof. intros ->. reflexivity. Qed.

Ltac brk := unfold err_from, err_at; cbn [bind rmap fst snd]; repeat (first [ reflexivity | progress (match goal with
  | |- context [bind ?x _] => destruct x
  | |- context [match ?x with _ => _ end] => destruct x
  end; cbn [bind rmap fst snd]) ]).

Section Fl.
Variable text : bytes.
Variable f : N.

Lemma fl_merge_text c : merge_text text (fl f c) = rmap (fl f) (merge_text text c).
Proof. unfold merge_text, fl. destruct c. cbn. brk. Qed.

Lemma fl_reset c : reset_after_text text (fl f c) = rmap (fl f) (reset_after_text text c).
Proof.
  unfold reset_after_text. change (c_after_text (fl f c)) with (c_after_text c).
  destruct (c_after_text c) as [|x [|y r]]; try reflexivity.
  rewrite fl_merge_text. destruct (merge_text text c); reflexivity.
Qed.

Lemma fl_append_node k r c :
  append_node k r (fl f c) = rmap (fun x => (fst x, fl f (snd x))) (append_node k r c).
Proof. unfold append_node, fl. destruct c. cbn. brk. Qed.

Lemma fl_append_text t r c : append_text t r (fl f c) = rmap (fl f) (append_text t r c).
Proof.
  unfold append_text. change (c_after_text (fl f c)) with (c_after_text c).
  destruct (c_after_text c) as [|x l].
  - rewrite fl_append_node. destruct (append_node _ r c) as [[i c']| | |]; reflexivity.
  - reflexivity.
Qed.

Lemma fl_process_cdata t r c : process_cdata text t r (fl f c) = rmap (fl f) (process_cdata text t r c).
Proof. unfold process_cdata. destruct (mem_b 13 _); apply fl_append_text. Qed.

Lemma fl_normalize v c :
  normalize_attribute text v (fl f c) = rmap (fun x => (fst x, fl f (snd x))) (normalize_attribute text v c).
Proof.
  unfold normalize_attribute. change (c_entities (fl f c)) with (c_entities c). change (c_ld (fl f c)) with (c_ld c).
  destruct (existsb _ _); [|reflexivity].
  destruct (norm_attr_lvl text entity_levels (c_entities c) v tb_new (c_ld c)) as [[t ld]| | |]; try reflexivity.
  cbn [bind]. destruct (tb_finish t); reflexivity.
Qed.

Lemma fl_process_attribute r q e p l v c :
  process_attribute text r q e p l v (fl f c) = rmap (fl f) (process_attribute text r q e p l v c).
Proof.
  unfold process_attribute. rewrite fl_normalize.
  destruct (normalize_attribute text v c) as [[val c']| | |]; try reflexivity. cbn [rmap bind fst snd].
  change (c_doc (fl f c')) with (c_doc c'). change (c_ns_start_idx (fl f c')) with (c_ns_start_idx c').
  change (c_cur_attrs (fl f c')) with (c_cur_attrs c').
  brk.
Qed.

Lemma fl_resolve_namespaces c :
  resolve_namespaces text (fl f c) = rmap (fun x => (fst x, fl f (snd x))) (resolve_namespaces text c).
Proof.
  unfold resolve_namespaces. change (c_doc (fl f c)) with (c_doc c). change (c_parent_id (fl f c)) with (c_parent_id c).
  change (c_ns_start_idx (fl f c)) with (c_ns_start_idx c).
  brk.
Qed.

Lemma fl_resolve_attributes nss c :
  resolve_attributes text nss (fl f c) = rmap (fun x => (fst x, fl f (snd x))) (resolve_attributes text nss c).
Proof.
  unfold resolve_attributes. change (c_doc (fl f c)) with (c_doc c). change (c_cur_attrs (fl f c)) with (c_cur_attrs c).
  brk.
Qed.


Lemma resolve_namespaces_keep c nss c1 : resolve_namespaces text c = Ok (nss, c1) ->
  c_parent_prefixes c1 = c_parent_prefixes c /\ c_entity_floor c1 = c_entity_floor c.
Proof.
  unfold resolve_namespaces. intros H.
  destruct (nth_N (d_nodes (c_doc c)) (c_parent_id c)); cbn [bind] in H; [|discriminate].
  destruct (nd_kind n) as [| ? ? ? [pa pe] | | |].
  all: try (destruct (ns_range_checked _ _); cbn [bind] in H; [injection H as _ <-; auto|discriminate..]).
  destruct (c_ns_start_idx c =? len_N (d_ns_tree (c_doc c))); [injection H as _ <-; auto|].
  destruct (resolve_ns_loop _ _ _ _); cbn [bind] in H; try discriminate.
  destruct (ns_range_checked _ _); cbn [bind] in H; try discriminate. injection H as _ <-. auto.
Qed.

Lemma resolve_attributes_keep nss c ar c1 : resolve_attributes text nss c = Ok (ar, c1) ->
  c_parent_prefixes c1 = c_parent_prefixes c /\ c_entity_floor c1 = c_entity_floor c.
Proof.
  unfold resolve_attributes. intros H. destruct (c_cur_attrs c); [injection H as _ <-; auto|].
  destruct (u32_max <=? _); [discriminate|].
  destruct (resolve_attrs_loop _ _ _ _ _); cbn [bind] in H; try discriminate.
  destruct (short_range _ _); cbn [bind] in H; try discriminate. injection H as _ <-. auto.
Qed.

Definition close_agrees (e : element_end) (c : context) : Prop :=
  match e with
  | EClose _ _ => (len_N (c_parent_prefixes c) <=? f) = (len_N (c_parent_prefixes c) <=? c_entity_floor c)
  | _ => True
  end.

Lemma fl_process_element e r c : close_agrees e c ->
  process_element text e r (fl f c) = rmap (fl f) (process_element text e r c).
Proof.
  intros Hc. unfold process_element. change (c_tag_name (fl f c)) with (c_tag_name c).
  destruct (slice_len (tn_name (c_tag_name c)) =? 0); [destruct e; brk|].
  rewrite fl_resolve_namespaces.
  destruct (resolve_namespaces text c) as [[nss c1]| | |] eqn:E1; try reflexivity. cbn [rmap bind fst snd].
  destruct (resolve_namespaces_keep _ _ _ E1) as [K1 K2].
  change (set_ns_start_idx (fl f c1) (len_N (d_ns_tree (c_doc (fl f c1)))))
    with (fl f (set_ns_start_idx c1 (len_N (d_ns_tree (c_doc c1))))).
  set (c2 := set_ns_start_idx c1 (len_N (d_ns_tree (c_doc c1)))).
  rewrite fl_resolve_attributes.
  destruct (resolve_attributes text nss c2) as [[ar c3]| | |] eqn:E2; try reflexivity. cbn [rmap bind fst snd].
  destruct (resolve_attributes_keep _ _ _ _ E2) as [K3 K4].
  change (c_tag_name (fl f c3)) with (c_tag_name c3). change (c_doc (fl f c3)) with (c_doc c3).
  destruct e as [|pr lo|].
  - destruct (get_ns_idx_by_prefix _ _ _ _ _); try reflexivity. cbn [bind].
    rewrite fl_append_node. destruct (append_node _ _ c3) as [[i c4]| | |]; reflexivity.
  - change (c_parent_prefixes (fl f c3)) with (c_parent_prefixes c3). change (c_entity_floor (fl f c3)) with f.
    change (c_parent_id (fl f c3)) with (c_parent_id c3).
    cbn [close_agrees] in Hc. rewrite K3, K4. unfold c2. cbn [c_parent_prefixes c_entity_floor set_ns_start_idx].
    rewrite K1, K2, Hc. destruct (len_N (c_parent_prefixes c) <=? c_entity_floor c); [brk|].
    unfold fl.
    cbn [c_opt c_ns_start_idx c_cur_attrs c_awaiting c_parent_prefixes c_entities c_after_text c_parent_id c_tag_name
         c_entity_floor c_ld c_doc set_doc set_cur_attrs set_awaiting set_parent_prefixes set_entities set_after_text
         set_parent_id set_tag_name set_entity_floor set_ld set_ns_start_idx].
    brk.
  - destruct (get_ns_idx_by_prefix _ _ _ _ _); try reflexivity. cbn [bind].
    rewrite fl_append_node. destruct (append_node _ _ c3) as [[i c4]| | |]; reflexivity.
Qed.

(* every token but Text *)
Lemma fl_token ptext tk c :
  (forall t r, tk <> TText t r) -> (forall e r, tk = TElementEnd e r -> close_agrees e c) ->
  token_with text ptext tk (fl f c) = rmap (fl f) (token_with text ptext tk c).
Proof.
  intros Hnt Hcl. destruct tk as [tg v r|t r|n v|pr lo start|r ql el pr lo v|e r|t r|t r]; cbn [token_with].
  - rewrite fl_reset. destruct (reset_after_text text c) as [c1| | |]; try reflexivity. cbn [rmap bind].
    rewrite fl_append_node. destruct (append_node _ r c1) as [[i c2]| | |]; reflexivity.
  - rewrite fl_reset. destruct (reset_after_text text c) as [c1| | |]; try reflexivity. cbn [rmap bind].
    rewrite fl_append_node. destruct (append_node _ r c1) as [[i c2]| | |]; reflexivity.
  - reflexivity.
  - rewrite fl_reset. destruct (reset_after_text text c) as [c1| | |]; try reflexivity. cbn [rmap bind]. brk.
  - apply fl_process_attribute.
  - rewrite fl_reset. destruct (reset_after_text text c) as [c1| | |] eqn:E1; try reflexivity. cbn [rmap bind].
    apply fl_process_element. specialize (Hcl e r eq_refl). destruct e; try exact I. cbn [close_agrees] in *.
    assert (K : c_parent_prefixes c1 = c_parent_prefixes c /\ c_entity_floor c1 = c_entity_floor c).
    { unfold reset_after_text in E1. destruct (c_after_text c) as [|x [|y l]].
      - injection E1 as <-. auto.
      - injection E1 as <-. auto.
      - unfold merge_text in E1. destruct (rev (d_nodes (c_doc c))); [discriminate|].
        destruct (nd_kind n); try discriminate. cbn [bind] in E1.
        destruct (upd_node _ _ _); cbn [bind] in E1; try discriminate. injection E1 as <-. auto. }
    destruct K as [-> ->]. exact Hcl.
  - exfalso. apply (Hnt t r). reflexivity.
  - apply fl_process_cdata.
Qed.

End Fl.

(* the same for the loop detector, which only attribute values (and text) look at *)
Definition sld (l : loop_detector) (c : context) : context := set_ld c l.

Section Sl.
Variable text : bytes.
Variable l : loop_detector.

Lemma sl_merge_text c : merge_text text (sld l c) = rmap (sld l) (merge_text text c).
Proof. unfold merge_text, sld. destruct c. cbn. brk. Qed.

Lemma sl_reset c : reset_after_text text (sld l c) = rmap (sld l) (reset_after_text text c).
Proof.
  unfold reset_after_text. change (c_after_text (sld l c)) with (c_after_text c).
  destruct (c_after_text c) as [|x [|y r]]; try reflexivity.
  rewrite sl_merge_text. destruct (merge_text text c); reflexivity.
Qed.

Lemma sl_append_node k r c :
  append_node k r (sld l c) = rmap (fun x => (fst x, sld l (snd x))) (append_node k r c).
Proof. unfold append_node, sld. destruct c. cbn. brk. Qed.

Lemma sl_append_text t r c : append_text t r (sld l c) = rmap (sld l) (append_text t r c).
Proof.
  unfold append_text. change (c_after_text (sld l c)) with (c_after_text c).
  destruct (c_after_text c) as [|x l0].
  - rewrite sl_append_node. destruct (append_node _ r c) as [[i c']| | |]; reflexivity.
  - reflexivity.
Qed.

Lemma sl_process_cdata t r c : process_cdata text t r (sld l c) = rmap (sld l) (process_cdata text t r c).
Proof. unfold process_cdata. destruct (mem_b 13 _); apply sl_append_text. Qed.

Lemma sl_resolve_namespaces c :
  resolve_namespaces text (sld l c) = rmap (fun x => (fst x, sld l (snd x))) (resolve_namespaces text c).
Proof.
  unfold resolve_namespaces. change (c_doc (sld l c)) with (c_doc c). change (c_parent_id (sld l c)) with (c_parent_id c).
  change (c_ns_start_idx (sld l c)) with (c_ns_start_idx c).
  brk.
Qed.

Lemma sl_resolve_attributes nss c :
  resolve_attributes text nss (sld l c) = rmap (fun x => (fst x, sld l (snd x))) (resolve_attributes text nss c).
Proof.
  unfold resolve_attributes. change (c_doc (sld l c)) with (c_doc c). change (c_cur_attrs (sld l c)) with (c_cur_attrs c).
  brk.
Qed.

Lemma sl_process_element e r c :
  process_element text e r (sld l c) = rmap (sld l) (process_element text e r c).
Proof.
  unfold process_element. change (c_tag_name (sld l c)) with (c_tag_name c).
  destruct (slice_len (tn_name (c_tag_name c)) =? 0); [destruct e; brk|].
  rewrite sl_resolve_namespaces.
  destruct (resolve_namespaces text c) as [[nss c1]| | |] eqn:E1; try reflexivity. cbn [rmap bind fst snd].
  change (set_ns_start_idx (sld l c1) (len_N (d_ns_tree (c_doc (sld l c1)))))
    with (sld l (set_ns_start_idx c1 (len_N (d_ns_tree (c_doc c1))))).
  set (c2 := set_ns_start_idx c1 (len_N (d_ns_tree (c_doc c1)))).
  rewrite sl_resolve_attributes.
  destruct (resolve_attributes text nss c2) as [[ar c3]| | |] eqn:E2; try reflexivity. cbn [rmap bind fst snd].
  change (c_tag_name (sld l c3)) with (c_tag_name c3). change (c_doc (sld l c3)) with (c_doc c3).
  destruct e as [|pr lo|].
  - destruct (get_ns_idx_by_prefix _ _ _ _ _); try reflexivity. cbn [bind].
    rewrite sl_append_node. destruct (append_node _ _ c3) as [[i c4]| | |]; reflexivity.
  - unfold sld.
    cbn [c_opt c_ns_start_idx c_cur_attrs c_awaiting c_parent_prefixes c_entities c_after_text c_parent_id c_tag_name
         c_entity_floor c_ld c_doc set_doc set_cur_attrs set_awaiting set_parent_prefixes set_entities set_after_text
         set_parent_id set_tag_name set_entity_floor set_ld set_ns_start_idx].
    brk.
  - destruct (get_ns_idx_by_prefix _ _ _ _ _); try reflexivity. cbn [bind].
    rewrite sl_append_node. destruct (append_node _ _ c3) as [[i c4]| | |]; reflexivity.
Qed.

(* every token but Text and Attribute *)
Lemma sl_token ptext tk c :
  (forall t r, tk <> TText t r) -> (forall r ql el pr lo v, tk <> TAttribute r ql el pr lo v) ->
  token_with text ptext tk (sld l c) = rmap (sld l) (token_with text ptext tk c).
Proof.
  intros Hnt Hna. destruct tk as [tg v r|t r|n v|pr lo start|r ql el pr lo v|e r|t r|t r]; cbn [token_with].
  - rewrite sl_reset. destruct (reset_after_text text c) as [c1| | |]; try reflexivity. cbn [rmap bind].
    rewrite sl_append_node. destruct (append_node _ r c1) as [[i c2]| | |]; reflexivity.
  - rewrite sl_reset. destruct (reset_after_text text c) as [c1| | |]; try reflexivity. cbn [rmap bind].
    rewrite sl_append_node. destruct (append_node _ r c1) as [[i c2]| | |]; reflexivity.
  - reflexivity.
  - rewrite sl_reset. destruct (reset_after_text text c) as [c1| | |]; try reflexivity. cbn [rmap bind]. brk.
  - exfalso. apply (Hna r ql el pr lo v). reflexivity.
  - rewrite sl_reset. destruct (reset_after_text text c) as [c1| | |] eqn:E1; try reflexivity. cbn [rmap bind].
    apply sl_process_element.
  - exfalso. apply (Hnt t r). reflexivity.
  - apply sl_process_cdata.
Qed.

End Sl.

(* any two ways of processing Text agree on the other tokens *)
Lemma token_with_nontext text p1 p2 tk c : (forall t r, tk <> TText t r) ->
  token_with text p1 tk c = token_with text p2 tk c.
Proof. intros H. destruct tk as [| | | | | |t r|]; try reflexivity. exfalso. apply (H t r). reflexivity. Qed.

Lemma context_eta c : set_ld (set_entity_floor c (c_entity_floor c)) (c_ld c) = c.
Proof. destruct c. reflexivity. Qed.

Print Assumptions fl_token.
Print Assumptions sl_token.
