(* Proofs/CstSound6cNest.v -- C08 soundness on stage S6, markup-valued entities whose character data contains references:
   the crate's tree builder on the tokens of a declared markup value (Proofs/CstSound6cFlat.v: ftoks), run inside an entity
   (loop detector and entity floor arbitrary).  Proofs/CstSound6bNest.v with: a TEXT token handled by the hypothesis
   [PB lvl] (process_text_with at any entity depth -- proved in Proofs/CstSound6cBText.v by induction on the level of the
   model, mutually with [markup_use] of this file), whose pieces are the declared ones ([beps_unique]); the traces of the
   levels are kept explicitly ([LvSemT]): the loop detector runs through their concatenation, which is balanced; [SemB] is
   [SemL] of Proofs/CstSound6aSem.v with "balanced" instead of "within the limits from depth 0" (inside an entity the
   detector does not start at depth 0; the limits are checked once, at the reference in the body). *)
From Coq Require Import String.
From Coq Require Import List Arith NArith Bool Lia ZifyBool ZifyN ZifyNat.
Import ListNotations.
From RX Require Import Generated.
From RX.Model Require Import Base CharClass Stream Tokenizer Doc Builder Parse.
From RX.Spec Require Cst Chars CstU CstNs Scope Detector.
From RX.Spec Require CstText.
From RX.Spec Require Import CstFull CstFullS4 CstFullS5 CstFullS6.
From RX.Proofs Require Import Tactics CstLex CstULex CstTextLex.
From RX.Proofs Require CstBuild RejectProofs CstFullTree CstFullS2Sem CstNsTree WfParse CstTextBuild.
From RX.Proofs Require Import CstFullS3Sem CstFullS3Text.
From RX.Proofs Require Import CstSound CstSoundT CstSoundTLex CstSoundULex CstSoundBuild CstSoundTBuild CstSoundTText CstSoundTMain.
From RX.Proofs Require Import CstSoundN CstSoundNLex CstSoundNBuild CstSoundNText CstSoundNMain.
From RX.Proofs Require Import CstSoundP CstSoundPEnt CstSoundPLex CstSoundPDtd CstSoundPBuild CstSoundPText.
From RX.Proofs Require Import CstSoundPRef.
From RX.Proofs Require CstFullS4TSem CstFullS4Sem CstEntCFloor CstEntCBuild CstFullS4Build CstSound6Val CstSound6uEmb.
From RX.Proofs Require Import CstSound6 CstSound6U CstSound6a CstSound6cFlat CstSound6cLex CstSound6cDtd CstSound6cText CstSound6cRText CstSound6cRTok CstSound6cRTag.
From RX.Proofs Require Import CstSound6aSem.
From RX.Proofs Require CstFullS3Plug CstEntRejSem.
From RX.Proofs Require Import DetectorProofs.
Notation Bal := CstEntRejSem.Bal.
Open Scope N_scope.

Notation sh := CstEntCBuild.sh.
Notation back := CstEntCBuild.back.
Notation evl := CstEntCBuild.evl.
Notation plain_tok := CstEntCBuild.plain_tok.
Notation GoodT := CstSound6uEmb.GoodT.
Notation lvl := CstSound6Val.lvl.
Notation upd_first := CstSound6Val.upd_first.
Notation litp := CstSound6Val.litp.

(* ------------------------------------------------------------------------------------------ *)
(* levels of items as written, with their meaning                                             *)
(* ------------------------------------------------------------------------------------------ *)
Section Lv.
Variable tb : ytable.
Variable m : bool.

Definition SemB (sc : list Scope.binding) (cs : list uitem) (bs : list bitem) (tr : list Detector.lop) : Prop :=
  inline_items tb m cs = Some (bs, tr) /\ Bal tr /\ PV bs /\ ns_oks sc (bdens bs) = true.

Lemma SemB_nil sc : SemB sc [] [] [].
Proof. split; [reflexivity|]. split; [constructor|]. split; [constructor|reflexivity]. Qed.

Lemma SemB_cons sc (i : uitem) cs bi ti bs tr :
  inline_item tb m i = Some (bi, ti) -> Bal ti -> PV bi -> ns_oks sc (bdens bi) = true ->
  SemB sc cs bs tr -> SemB sc (i :: cs) (bi ++ bs) (ti ++ tr).
Proof.
  intros Hi Gi Pi Ni (H & G & P & Nn). split; [cbn [inline_items]; rewrite Hi; cbn [E.obind]; rewrite H; reflexivity|].
  split; [apply CstEntRejSem.Bal_app; assumption|]. split; [apply PV_app; assumption|]. rewrite CstFullS4Sem.bdens_app, CstFullTree.ns_oks_app, Ni, Nn. reflexivity.
Qed.

Lemma SemB_text sc ps cs b1 t1 bs tr :
  inline_run tb m (enc_epieces ps) = Some (b1, t1) -> Bal t1 -> PV b1 -> ns_oks sc (bdens b1) = true ->
  SemB sc cs bs tr -> SemB sc (CstSoundPRMain.cons_text_r ps cs) (b1 ++ bs) (t1 ++ tr).
Proof.
  intros Hi Gi Pi Ni HS.
  destruct cs as [|[n a w bd|qs|c|t s v] r]; cbn [CstSoundPRMain.cons_text_r]; try (apply SemB_cons; assumption).
  destruct HS as (H & G & P & Nn). cbn [inline_items inline_item] in H.
  destruct (inline_run tb m (enc_epieces qs)) as [[bq tq]|] eqn:Eq; [|discriminate]. cbn [E.obind] in H.
  destruct (inline_items tb m r) as [[br trr]|] eqn:Er; [|discriminate]. cbn [E.obind fst snd] in H. injection H as <- <-.
  split.
  { cbn [inline_items inline_item]. unfold enc_epieces. rewrite map_app. fold (enc_epieces ps). fold (enc_epieces qs).
    rewrite (inline_run_app tb m _ _ _ _ _ _ Hi Eq). cbn [E.obind]. rewrite Er. cbn [E.obind fst snd]. rewrite <- !app_assoc. reflexivity. }
  split; [apply CstEntRejSem.Bal_app; assumption|]. split; [apply PV_app; assumption|]. rewrite CstFullS4Sem.bdens_app, CstFullTree.ns_oks_app, Ni, Nn. reflexivity.
Qed.

Lemma elem_semB inh name (es : list uentry) (es' : list bentry) tra ws body bsb trb :
  inline_entries tb m es = Some (es', tra) -> Bal tra ->
  forallb (fun e => E.crlf_split_ok (e_value bpieces e)) es' = true ->
  ns_own inh (x_qname name) (map xb es') = true ->
  match body with
  | None => bsb = [] /\ trb = []
  | Some (cs, _) => SemB (Scope.scope_of (CstNs.own_bindings (map xb es')) inh) cs bsb trb
  end ->
  let i' := @IElem bpieces name es' ws (match body with None => None | Some (_, w2) => Some (regroup bsb, w2) end) in
  inline_item tb m (IElem name es ws body) = Some ([i'], tra ++ trb) /\ Bal (tra ++ trb) /\ PV [i'] /\
  ns_oks inh (bdens [i']) = true.
Proof.
  intros Ee Ge Ce Hown Hb i'.
  split.
  { rewrite CstFullS4Sem.inline_item_elem, Ee. cbn [E.obind]. destruct body as [[cs w2]|].
    - destruct Hb as (Hi & _). fold (inline_items tb m cs). rewrite Hi. reflexivity.
    - destruct Hb as [-> ->]. rewrite app_nil_r. reflexivity. }
  split; [destruct body as [[cs w2]|]; [apply CstEntRejSem.Bal_app; [exact Ge|apply Hb]|destruct Hb as [_ ->]; rewrite app_nil_r; exact Ge]|].
  split.
  { constructor; [|constructor]. unfold i', pv1. cbn [provisos_item]. rewrite Ce. cbn [andb].
    destruct body as [[cs w2]|]; [|reflexivity]. rewrite provisos_fix. apply PV_provisos. apply PV_regroup. apply Hb. }
  assert (Eden : bdens [i'] = [CstNs.IElem (x_qname name) (map xb es') ws
             (match body with None => None | Some (_, w2) => Some (bdens (regroup bsb), w2) end)]).
  { cbn [CstFullTree.dens]. rewrite app_nil_r. unfold i'. rewrite CstFullTree.den_elem. destruct body as [[cs w2]|]; reflexivity. }
  rewrite Eden.
  cbn [CstFullTree.ns_oks]. rewrite andb_true_r, CstFullTree.ns_ok_elem. cbv zeta. unfold CstNsTree.esc.
  unfold CstSoundNBuild.ns_own in Hown. cbv zeta in Hown. rewrite Hown. cbn [andb].
  destruct body as [[cs w2]|]; [|reflexivity]. rewrite ns_oks_regroup. apply Hb.
Qed.

(* the levels of [build], innermost first, each with its trace *)
Fixpoint LvT (opn : list frame) (lv : list lvl) (trs : list (list Detector.lop)) : Prop :=
  match opn, lv, trs with
  | [], [], [] => True
  | f :: o, cw :: l, t :: ts => (exists bs, SemB (f_sc f) (fst cw) bs t) /\ LvT o l ts
  | _, _, _ => False
  end.
Definition LvSemT (opn : list frame) (scl : list Scope.binding) (s : bstate) (trs : list (list Detector.lop)) (trl : list Detector.lop) : Prop :=
  LvT opn (fst s) trs /\ exists bs, SemB scl (snd s) bs trl.
Definition hsc (opn : list frame) (scl : list Scope.binding) : list Scope.binding :=
  match opn with f :: _ => f_sc f | [] => scl end.
Definition total (trs : list (list Detector.lop)) (trl : list Detector.lop) : list Detector.lop := concat trs ++ trl.

(* the head list changes, its trace gets [t0] in front *)
Lemma LvSemT_upd opn scl lv last (g : list uitem -> list uitem) t0 trs trl : LvSemT opn scl (lv, last) trs trl ->
  (forall cs bs t, SemB (hsc opn scl) cs bs t -> exists bs', SemB (hsc opn scl) (g cs) bs' (t0 ++ t)) ->
  exists trs' trl', LvSemT opn scl (upd_first g lv last) trs' trl' /\ total trs' trl' = t0 ++ total trs trl.
Proof.
  intros [A (bl & B0)] Hg. cbn [fst snd] in *. destruct lv as [|[cs w] lv'].
  - destruct opn; [|destruct A]. destruct trs; [|destruct A]. cbn [hsc] in Hg. destruct (Hg _ _ _ B0) as (bs' & H').
    exists [], (t0 ++ trl). split; [split; [exact I|exists bs'; exact H']|reflexivity].
  - destruct opn as [|f opn']; [destruct A|]. destruct trs as [|t ts]; [destruct A|]. destruct A as [(bs & Hf) Hr]. cbn [hsc fst] in *.
    destruct (Hg _ _ _ Hf) as (bs' & H').
    exists ((t0 ++ t) :: ts), trl. split; [split; [split; [exists bs'; exact H'|exact Hr]|exists bl; exact B0]|].
    unfold total. cbn [concat]. rewrite <- !app_assoc. reflexivity.
Qed.

Lemma LvSemT_close f opn scl s ws2 trs trl : LvSemT opn scl s trs trl ->
  LvSemT (f :: opn) scl (([], ws2) :: fst s, snd s) ([] :: trs) trl /\ total ([] :: trs) trl = total trs trl.
Proof. intros [A B0]. split; [|reflexivity]. split; [|exact B0]. cbn [fst LvT]. split; [exists []; apply SemB_nil|exact A]. Qed.

(* an element with content: its children are the head level *)
Lemma LvSemT_open f opn scl cs_in w_in lv1 last name (es : list uentry) (es' : list bentry) tra ws trs trl :
  LvSemT (f :: opn) scl ((cs_in, w_in) :: lv1, last) trs trl ->
  inline_entries tb m es = Some (es', tra) -> Bal tra ->
  forallb (fun e => E.crlf_split_ok (e_value bpieces e)) es' = true ->
  ns_own (hsc opn scl) (x_qname name) (map xb es') = true ->
  f_sc f = Scope.scope_of (CstNs.own_bindings (map xb es')) (hsc opn scl) ->
  exists trs' trl', LvSemT opn scl (upd_first (cons (IElem name es ws (Some (cs_in, w_in)))) lv1 last) trs' trl' /\
    total trs' trl' = tra ++ total trs trl.
Proof.
  intros [A B0] Ee Ge Ce Hown Hsc. cbn [fst snd] in *. destruct trs as [|t1 ts]; [destruct A|]. destruct A as [(bsb & Hin) Hr].
  cbn [fst] in Hin. rewrite Hsc in Hin.
  destruct (elem_semB (hsc opn scl) name es es' tra ws (Some (cs_in, w_in)) bsb t1 Ee Ge Ce Hown Hin) as (I1 & I2 & I3 & I4).
  destruct (LvSemT_upd opn scl lv1 last (cons (IElem name es ws (Some (cs_in, w_in)))) (tra ++ t1) ts trl (conj Hr B0)) as (trs' & trl' & HL & Et).
  { intros cs bs t Hc. eexists. exact (SemB_cons _ _ _ _ _ _ _ I1 I2 I3 I4 Hc). }
  exists trs', trl'. split; [exact HL|]. rewrite Et. unfold total. cbn [concat]. rewrite <- !app_assoc. reflexivity.
Qed.

End Lv.

(* ------------------------------------------------------------------------------------------ *)
(* steps on the shadow                                                                        *)
(* ------------------------------------------------------------------------------------------ *)
Section Shadow.
Variable text : bytes.
Notation T_ := (Parse.token text).
Notation W := (CstLex.W text).
Notation WV := (CstULex.WV text).

Lemma sh_ld c : c_ld (sh c) = ld_init.
Proof. reflexivity. Qed.

(* a token that is neither Text nor Attribute *)
Lemma plain_step lvl tk c c' : plain_tok tk ->
  (forall pr lo r, tk = TElementEnd (EClose pr lo) r ->
     c_entity_floor c < len_N (c_parent_prefixes c) /\ 0 < len_N (c_parent_prefixes c)) ->
  evl text lvl tk c = Ok c' ->
  T_ tk (sh c) = Ok (sh c') /\ c_ld c' = c_ld c /\ c_entity_floor c' = c_entity_floor c.
Proof.
  intros Hp Hcl H. rewrite (CstEntCBuild.evl_shadow text lvl tk c Hp Hcl) in H.
  change (CstBuild.tok_ev text tk (sh c)) with (T_ tk (sh c)) in H.
  destruct (T_ tk (sh c)) as [x| | |] eqn:E; cbn [CstEntCFloor.rmap] in H; try discriminate. injection H as <-.
  destruct (CstFullS4Build.plain_keeps text _ tk (sh c) x Hp E) as [F L].
  rewrite (CstEntCBuild.sh_back c x F L). split; [reflexivity|]. split; reflexivity.
Qed.

Lemma rn_floor c r c' : resolve_namespaces text c = Ok (r, c') ->
  c_entity_floor c' = c_entity_floor c /\ c_parent_prefixes c' = c_parent_prefixes c.
Proof.
  unfold resolve_namespaces. intros H. ib H pnd Hp.
  destruct (nd_kind pnd) as [| n0 l0 a0 nss| | | ]; try (ib H r0 Hr; inversion H; subst; split; reflexivity).
  destruct (c_ns_start_idx c =? len_N (d_ns_tree (c_doc c))); [inversion H; subst; split; reflexivity|].
  destruct nss as [pa pe]. ib H d Hd. ib H r0 Hr. inversion H; subst. split; reflexivity.
Qed.
Lemma ra_floor nss c r c' : resolve_attributes text nss c = Ok (r, c') ->
  c_entity_floor c' = c_entity_floor c /\ c_parent_prefixes c' = c_parent_prefixes c.
Proof.
  unfold resolve_attributes. intros H. destruct (c_cur_attrs c) as [|a l].
  - inversion H; subst. split; reflexivity.
  - cbv zeta in H. destruct (u32_max <=? _); [noerr|]. ib H d' Hd. ib H r0 Hr. inversion H; subst. split; reflexivity.
Qed.

(* a close tag that the builder accepts is above the floor *)
Lemma close_floor lvl pr lo r c c' : evl text lvl (TElementEnd (EClose pr lo) r) c = Ok c' ->
  c_entity_floor c < len_N (c_parent_prefixes c) /\ 0 < len_N (c_parent_prefixes c).
Proof.
  unfold CstEntCBuild.evl. cbn [token_with]. intros H. ib H c0 H0.
  assert (E : c_entity_floor c0 = c_entity_floor c /\ c_parent_prefixes c0 = c_parent_prefixes c).
  { unfold reset_after_text in H0. destruct (c_after_text c) as [|x0 [|y0 l0]]; try (injection H0 as <-; split; reflexivity).
    unfold merge_text in H0. destruct (rev (d_nodes (c_doc c))); [discriminate|]. destruct (nd_kind n); try discriminate. cbn [bind] in H0.
    destruct (upd_node _ _ _); cbn [bind] in H0; try discriminate. injection H0 as <-. split; reflexivity. }
  destruct E as [E1 E2]. unfold process_element in H.
  destruct (slice_len (tn_name (c_tag_name c0)) =? 0); [noerr|].
  ib H q1 H1. destruct q1 as [nss c1]. cbv zeta in H. ib H q2 H2. destruct q2 as [at2 c2].
  assert (E3 : c_entity_floor c2 = c_entity_floor c0 /\ c_parent_prefixes c2 = c_parent_prefixes c0).
  { destruct (rn_floor _ _ _ H1) as [X1 X2]. destruct (ra_floor _ _ _ _ H2) as [Y1 Y2]. cbn in Y1, Y2. split; congruence. }
  destruct E3 as [E3 E4].
  match type of H with (if ?b then _ else _) = _ => destruct b eqn:Eb; [noerr|] end.
  rewrite E4, E3, E2, E1 in Eb. split; [lia|]. lia.
Qed.
End Shadow.

(* ------------------------------------------------------------------------------------------ *)
(* the tokens of a markup value                                                               *)
(* ------------------------------------------------------------------------------------------ *)
Section Nest.
Variable text : bytes.
Hypothesis HF : Frag6c text.
Variable xds : list X4.xdecl.
Variable ets : list entity.
Notation decls := (map CstFullS4Sem.pd xds).
Hypothesis Henv : Forall2 (uent_ok text) decls ets.
Hypothesis Hdecls : Forall CstFullS4TSem.udecl_okc decls.
Hypothesis Hmk : forall d its, In d decls -> E.e_value d = E.EContent its ->
  (mem_b 60 (E.r_value (E.e_value d)) = true /\ U8.Valid (E.r_value (E.e_value d))) \/ ImpT decls d.
Hypothesis Hnames : Forall (fun d => uname (E.e_name d)) decls.
Notation tb5 := (E.level decls E.max_level).
Notation M3 := (ents_meaning tb5).
Notation xe3 := (x_entry epieces (val_sem M3)).
Notation T_ := (Parse.token text).
Notation W := (CstLex.W text).
Notation WV := (CstULex.WV text).
Notation sb := (slice_bytes text).
Notation SimP := (CstSoundPBuild.SimP text ets).
Notation Res := (CstSoundPBuild.Res text).
Notation evs := (CstLex.evs context).
Notation WS := (CstSoundTText.WS text).

Definition SimD (c : context) (stk : list frame) : Prop := SimP (sh c) stk.
Definition ResX (c : context) : Prop := exists D K, Res (sh c) D K [].

(* process_text on a window, at any entity depth: level j of the model, table of level k = 10 - depth *)
Definition PB (j : nat) : Prop := forall p x tail c c' stk k,
  WV p (x ++ tail) -> U8.Valid x -> SimD c stk -> ResX c -> ld_depth (c_ld c) + N.of_nat k = 10 ->
  process_text_with text (parse_content_lvl text j) (sl p (p + blen x)) (p, p + blen x) c = Ok c' ->
  exists ps bs tr, x = E.r_epieces ps /\ beps_ok ps /\ inline_run (X4.level xds k) false ps = Some (bs, tr) /\
    ld_run (c_ld c) tr = Some (c_ld c') /\ Bal tr /\ PV bs /\ ns_oks (top_sc stk) (bdens bs) = true /\ SimD c' stk /\ ResX c'.

Lemma inline_run_m tb m m' : forall ps, inline_run tb m ps = inline_run tb m' ps.
Proof. induction ps as [|[p|n] ps IH]; [reflexivity| |]; cbn [inline_run]; rewrite IH; reflexivity. Qed.

(* ---- attribute values without '&' ---- *)
Lemma nattr_noamp j es0 : forall fu e p l more t ld t' ld', WS e p l more -> Forall (fun y => y <> 38) l ->
  WfParse.nattr_loop text j es0 fu (sst e p (l ++ more)) t ld = Ok (t', ld') ->
  ld' = ld /\ WfParse.nattr_loop text j es0 fu (sst e p (l ++ more)) t ld_init = Ok (t', ld_init).
Proof.
  induction fu as [|fu IH]; intros e p l more t ld t' ld' HW H38 H; cbn [WfParse.nattr_loop] in H |- *; [noerr|].
  rewrite at_end_sst in H |- *. pose proof HW as [HW0 Hw].
  destruct l as [|x l1].
  { rewrite blen_nil in Hw. replace (e <=? p) with true in H |- * by lia. inversion H; subst. split; reflexivity. }
  rewrite blen_cons in Hw. replace (e <=? p) with false in H |- * by lia.
  cbn [app curr_byte_unchecked sst s_rest bind] in H |- *.
  apply Forall_cons_iff in H38. destruct H38 as [Hx H38'].
  replace (x =? 38) with false in H |- * by lia. cbn [negb] in H |- *.
  change (0 <? ld_depth ld_init) with false. rewrite andb_false_r.
  destruct ((x =? 60) && (0 <? ld_depth ld)); [noerr|].
  fold (sst e p (x :: l1 ++ more)) in H |- *. rewrite advance1_sst in H |- * by lia. cbn [bind] in H |- *.
  exact (IH _ _ _ _ _ _ _ _ (CstSoundTText.WS_cons text _ _ _ _ _ HW) H38' H).
Qed.

Lemma norm_noamp p v q more c stor c1 : WV p (utf8s v ++ [q] ++ more) -> Forall (fun y => y <> 38) (utf8s v) ->
  normalize_attribute text (sl p (p + blen (utf8s v))) c = Ok (stor, c1) ->
  c1 = set_ld c (c_ld c) /\ normalize_attribute text (sl p (p + blen (utf8s v))) (sh c) = Ok (stor, sh c).
Proof.
  intros HWV H38 H. pose proof (WV_W _ _ _ HWV) as HW.
  unfold normalize_attribute in H |- *. cbv zeta in H |- *. rewrite (W_slice text _ _ _ HW) in H |- *.
  destruct (existsb (fun x => (x =? 38) || (x =? 9) || (x =? 10) || (x =? 13)) (utf8s v)).
  - ib H q0 Hq0. destruct q0 as [t ld]. ib H bs Hb. inversion H; subst stor c1. clear H.
    change (c_entities (sh c)) with (c_entities c). change (c_ld (sh c)) with ld_init.
    unfold entity_levels in Hq0 |- *. rewrite WfParse.norm_attr_lvl_eq in Hq0 |- *. cbn [sl sl_start sl_end] in Hq0 |- *.
    destruct (stream_from_substr_ws text p (utf8s v) ([q] ++ more) HW) as (Es & HWS). rewrite Es in Hq0 |- *. cbn [bind] in Hq0 |- *.
    destruct (nattr_noamp _ _ _ _ _ _ _ _ _ _ _ HWS H38 Hq0) as [-> E2]. rewrite E2. cbn [bind]. rewrite Hb. cbn [bind].
    split; [reflexivity|]. destruct c; reflexivity.
  - inversion H; subst. split; [symmetry; apply CstTextBuild.set_ld_same|reflexivity].
Qed.

Lemma attrs_shadow lvl : forall attrs q rest c c', WV q (flat_map r_rattr attrs ++ rest) -> Forall rattr_ok attrs ->
  vnoamp attrs ->
  evs (evl text lvl) (nattr_toks q attrs) c = Ok c' ->
  evs T_ (nattr_toks q attrs) (sh c) = Ok (sh c') /\ c_ld c' = c_ld c /\ c_entity_floor c' = c_entity_floor c.
Proof.
  induction attrs as [|a attrs IH]; intros q rest c c' HWV Hok H38 H.
  - cbn [nattr_toks CstLex.evs] in H |- *. inversion H; subst. auto.
  - cbn [nattr_toks CstLex.evs] in H |- *. ib H c1 H1. cbn [flat_map] in HWV. rewrite <- app_assoc in HWV.
    inversion H38 as [|? ? H38v H38r]; subst.
    inversion Hok as [|? ? Hra Hras]; subst.
    pose proof Hra as (Hw1 & (Hpre & Hloc) & Hws1 & Hws2 & Hq & Hu & Hb).
    pose proof HWV as HWa. unfold r_rattr in HWa. rewrite <- !app_assoc in HWa.
    assert (Hlit : forall w, Cst.wf_ws w = true -> forallb (fun y => y <? 128) w = true) by (intros w; apply ws_lit).
    assert (Hw1' : Cst.wf_ws (ra_ws a) = true) by (unfold Cst.wf_ws1 in Hw1; destruct (ra_ws a); [discriminate|exact Hw1]).
    pose proof (WV_lit text _ _ _ HWa (Hlit _ Hw1')) as Hn.
    assert (Hqv : U8.Valid (rq (ra_pre a) (ra_loc a))).
    { unfold rq. destruct Hpre as [->|Hp]; [apply CstFullLex.uname_valid; exact Hloc|].
      destruct (ra_pre a); [apply CstFullLex.uname_valid; exact Hloc|].
      apply U8.Valid_app; [apply CstFullLex.uname_valid; exact Hp|].
      apply U8.Valid_app; [apply Valid_lit; reflexivity|apply CstFullLex.uname_valid; exact Hloc]. }
    pose proof (WV_app text _ _ _ Hn Hqv) as H2. pose proof (WV_lit text _ _ _ H2 (Hlit _ Hws1)) as H3.
    pose proof (WV_lit text _ [61] _ H3 eq_refl) as H4. pose proof (WV_lit text _ _ _ H4 (Hlit _ Hws2)) as H5.
    assert (Hq128 : ra_quote a < 128) by lia.
    pose proof (WV_cons text _ _ _ H5 Hq128) as Hv. change (blen [61]) with 1 in *.
    unfold nattr_tok in H1 |- *. cbv zeta in H1 |- *.
    set (vs := q + blen (ra_ws a) + blen (rq (ra_pre a) (ra_loc a)) + blen (ra_ws1 a) + 1 + blen (ra_ws2 a) + 1) in *.
    match type of H1 with evl _ _ (TAttribute ?r ?ql ?el ?pr ?lo ?v) _ = _ =>
      set (tr0 := r) in *; set (tq := ql) in *; set (te := el) in *; set (tp := pr) in *; set (tl0 := lo) in * end.
    assert (HN : exists stor cn, normalize_attribute text (sl vs (vs + blen (utf8s (ra_val a)))) c = Ok (stor, cn)).
    { unfold CstEntCBuild.evl in H1. cbn [token_with] in H1. unfold process_attribute in H1.
      destruct (normalize_attribute text (sl vs (vs + blen (utf8s (ra_val a)))) c) as [[stor cn]| | |]; cbn [bind] in H1; try discriminate. eauto. }
    destruct HN as (stor & cn & HN).
    destruct (norm_noamp _ _ _ _ _ _ _ Hv H38v HN) as [-> HN'].
    pose proof (CstFullS4Build.attr_transport text lvl tr0 tq te tp tl0 (sl vs (vs + blen (utf8s (ra_val a)))) c stor (c_ld c) HN HN') as HT.
    rewrite H1 in HT. change (CstBuild.tok_ev text) with T_ in HT.
    destruct (T_ (TAttribute tr0 tq te tp tl0 (sl vs (vs + blen (utf8s (ra_val a))))) (sh c)) as [x| | |] eqn:Ex; cbn [CstEntCFloor.rmap] in HT; try discriminate.
    injection HT as HT. cbn [bind].
    assert (Kx : c_entity_floor x = 0 /\ c_ld x = ld_init).
    { unfold Parse.token in Ex. cbn [token_with] in Ex.
      destruct (CstFullS4Build.attr_keeps text _ _ _ _ _ _ _ _ _ _ HN' Ex) as (A1 & A2 & _). split; [rewrite A1|rewrite A2]; reflexivity. }
    destruct Kx as [Kf Kl].
    assert (Esh : sh c1 = x) by (rewrite HT; destruct x; cbn in *; subst; reflexivity).
    assert (HWn : WV (q + blen (r_rattr a)) (flat_map r_rattr attrs ++ rest)).
    { pose proof (WV_app text _ _ _ Hv (Valid_uchars _ Hu)) as H7. pose proof (WV_cons text _ _ _ H7 Hq128) as H8.
      replace (q + blen (r_rattr a)) with (vs + blen (utf8s (ra_val a)) + 1); [exact H8|].
      unfold vs, r_rattr. rewrite !blen_app. change (blen [61]) with 1. change (blen [ra_quote a]) with 1. lia. }
    destruct (IH _ _ _ _ HWn Hras H38r H) as (E1 & E2 & E3). rewrite <- Esh. split; [exact E1|].
    rewrite E2, E3, HT. split; reflexivity.
Qed.

(* ---- text without '&' ---- *)
Lemma tframe_sh c c' : tframe c c' -> tframe (sh c) (sh c').
Proof. intros (A1 & A2 & A3 & A4 & A5 & K & A6 & A7). repeat split; try assumption; try apply A5. exists K. auto. Qed.

Lemma SimD_tframe c c' stk : SimD c stk -> tframe c c' -> SimD c' stk.
Proof. intros HS TF. unfold SimD in *. apply (CstSound6cRTok.SimP_tframe text ets _ _ _ HS (tframe_sh _ _ TF)). reflexivity. Qed.

Lemma ResX_nseq c c' : nseq c c' -> ResX c -> ResX c'.
Proof. intros Hn (D & K & HR). exists D, K. apply (Res_eq text (sh c) (sh c') D K [] Hn HR). Qed.

Lemma text_shadow lvl p cs more c c' : WV p (utf8s cs ++ more) -> Forall (fun y => y <> 38) (utf8s cs) ->
  evl text lvl (TText (sl p (p + blen (utf8s cs))) (p, p + blen (utf8s cs))) c = Ok c' ->
  tframe c c' /\ c_ld c' = c_ld c.
Proof.
  intros HWV H38 H. pose proof (WV_W _ _ _ HWV) as HW. unfold CstEntCBuild.evl in H. cbn [token_with] in H.
  rewrite BorrowParse.process_text_with_eq in H. cbv zeta in H. rewrite (W_slice text _ _ _ HW) in H.
  assert (Ee : existsb (fun y => (y =? 38) || (y =? 13)) (utf8s cs) = false).
  { apply not_true_iff_false. intros E. apply existsb_exists in E. destruct E as (y & Hy & Ey).
    rewrite Forall_forall in H38. pose proof (H38 y Hy). pose proof (W_no13_all text HF _ _ _ HW) as H13. rewrite Forall_forall in H13. pose proof (H13 y Hy). lia. }
  rewrite Ee in H. cbn [negb] in H. exact (append_text_tframe _ _ _ _ H).
Qed.

Lemma cdata_shadow lvl tk rr c c' : evl text lvl (TCdata tk rr) c = Ok c' -> tframe c c' /\ c_ld c' = c_ld c.
Proof.
  unfold CstEntCBuild.evl. cbn [token_with]. unfold process_cdata. cbv zeta. intros H.
  destruct (mem_b 13 (sb tk)); exact (append_text_tframe _ _ _ _ H).
Qed.


(* ---- entries whose values are literals ---- *)
Lemma entry_lit_val a v : e_value epieces (entry_of_r a (litp v)) = litp v.
Proof. unfold entry_of_r. cbv zeta. destruct (bytes_eqb _ _); [reflexivity|]. destruct (utf8s (ra_pre a)); [destruct (bytes_eqb _ _)|]; reflexivity. Qed.

Lemma inl_lit tb m (e : uentry) v : e_value epieces e = litp v -> Forall (fun y => y <> 13) (utf8s v) ->
  exists e', inline_entry tb m e = Some (e', []) /\ xb e' = xe3 e /\ E.crlf_split_ok (e_value bpieces e') = true.
Proof.
  intros Ev H13. destruct e as [l n val|l q val]; cbn [e_value] in Ev; subst val; cbn [inline_entry]; destruct v as [|x v'].
  - cbn [litp enc_epieces map E.inline_ps E.obind fst snd]. eexists. split; [reflexivity|]. split; [|reflexivity].
    cbn [x_entry e_value val_sem ents_meaning]. unfold eval_sem. cbn [litp enc_epieces map E.inline_ps]. reflexivity.
  - cbn [litp]. unfold enc_epieces. cbn [map enc_epiece enc_piece E.inline_ps E.is_lt_ref]. rewrite andb_false_r. cbn [E.inline_ps E.obind fst snd].
    eexists. split; [reflexivity|]. split.
    + cbn [x_entry e_value val_sem ents_meaning]. unfold eval_sem, enc_epieces. cbn [litp map enc_epiece enc_piece E.inline_ps E.is_lt_ref]. rewrite andb_false_r. reflexivity.
    + cbn [e_value]. apply nocr_crlf. unfold nocr. cbn [forallb]. rewrite (lit_nocr _ H13). reflexivity.
  - cbn [litp enc_epieces map E.inline_ps E.obind fst snd]. eexists. split; [reflexivity|]. split; [|reflexivity].
    cbn [x_entry e_value val_sem ents_meaning]. unfold eval_sem. cbn [litp enc_epieces map E.inline_ps]. reflexivity.
  - cbn [litp]. unfold enc_epieces. cbn [map enc_epiece enc_piece E.inline_ps E.is_lt_ref]. rewrite andb_false_r. cbn [E.inline_ps E.obind fst snd].
    eexists. split; [reflexivity|]. split.
    + cbn [x_entry e_value val_sem ents_meaning]. unfold eval_sem, enc_epieces. cbn [litp map enc_epiece enc_piece E.inline_ps E.is_lt_ref]. rewrite andb_false_r. reflexivity.
    + cbn [e_value]. apply nocr_crlf. unfold nocr. cbn [forallb]. rewrite (lit_nocr _ H13). reflexivity.
Qed.

Lemma ents_lit tb m : forall attrs, Forall (fun a => Forall (fun y => y <> 13) (utf8s (ra_val a))) attrs ->
  exists es', inline_entries tb m (map (fun a => entry_of_r a (litp (ra_val a))) attrs) = Some (es', []) /\
    map xb es' = map xe3 (map (fun a => entry_of_r a (litp (ra_val a))) attrs) /\
    forallb (fun e => E.crlf_split_ok (e_value bpieces e)) es' = true.
Proof.
  induction 1 as [|a r Ha _ IH]; [exists []; repeat split|]. destruct IH as (es' & I1 & I2 & I3).
  destruct (inl_lit tb m (entry_of_r a (litp (ra_val a))) (ra_val a) (entry_lit_val _ _) Ha) as (e' & J1 & J2 & J3).
  exists (e' :: es'). cbn [map inline_entries]. rewrite J1. cbn [E.obind]. rewrite I1. cbn [E.obind fst snd app].
  split; [reflexivity|]. cbn [map forallb]. rewrite J2, I2, J3, I3. split; reflexivity.
Qed.

Lemma lit_unique q v ps : uchars v -> Forall (fun y => y <> 38) (utf8s v) ->
  utf8s v = E.r_epieces (enc_epieces ps) -> wf_uepieces q false false false ps = true -> ps = litp v.
Proof.
  intros Hu H38 E Hwf. unfold wf_uepieces in Hwf. apply andb_true_iff in Hwf. destruct Hwf as [Hf Hadj].
  assert (Hsv : scalars_ok v) by (unfold scalars_ok; eapply Forall_impl; [|exact Hu]; cbv beta; tauto).
  destruct ps as [|p r].
  - cbn in E. apply utf8s_nil_inv in E. subst v. reflexivity.
  - cbn [forallb] in Hf. apply andb_true_iff in Hf. destruct Hf as [Hp Hr].
    unfold enc_epieces in E. cbn [map] in E. fold (enc_epieces r) in E. rewrite r_epieces_cons in E.
    assert (Hamp : forall (x : E.epiece) R, E.is_elit x = false -> wf_uepiece q false false false x = true ->
              exists R', E.r_epiece (enc_epiece x) ++ R = 38 :: R').
    { intros x R Hl Hw. destruct x as [[cs|hex ds|pe|cd]|n]; try discriminate; cbn [enc_epiece enc_piece E.r_epiece T.r_piece app]; eauto. }
    destruct p as [[cs|hex ds|pe|cd]|n].
    2,3,4,5: exfalso; match type of Hp with wf_uepiece _ _ _ _ ?x = true => destruct (Hamp x (E.r_epieces (enc_epieces r)) eq_refl Hp) as (R' & ER) end; rewrite ER in E; rewrite E in H38; inversion H38; congruence.
    cbn [wf_uepiece wf_uvpiece andb] in Hp. rewrite andb_true_r in Hp. unfold wf_ulit in Hp. apply andb_true_iff in Hp. destruct Hp as [Hne Hcs].
    assert (Hsc : scalars_ok cs).
    { unfold scalars_ok. apply Forall_forall. intros y Hy. rewrite forallb_forall in Hcs. specialize (Hcs y Hy).
      apply CstULex.char_scalar. repeat (apply andb_true_iff in Hcs; destruct Hcs as [Hcs _]). exact Hcs. }
    destruct r as [|p2 r2].
    + cbn in E. rewrite app_nil_r in E. apply (CstUItems.utf8s_inj _ _ Hsv Hsc) in E. subst v. destruct cs; [discriminate|reflexivity].
    + exfalso. cbn [forallb] in Hr. apply andb_true_iff in Hr. destruct Hr as [Hp2 _].
      destruct (E.is_elit p2) eqn:El2.
      * cbn [E.no_adjacent_elit E.is_elit] in Hadj. rewrite El2 in Hadj. discriminate.
      * unfold enc_epieces in E. cbn [map] in E. fold (enc_epieces r2) in E. rewrite r_epieces_cons in E.
        destruct (Hamp _ (E.r_epieces (enc_epieces r2)) El2 Hp2) as (R' & ER). rewrite ER in E. cbn [enc_epiece enc_piece E.r_epiece T.r_piece] in E.
        rewrite E in H38. apply Forall_app in H38. destruct H38 as [_ H38]. inversion H38; congruence.
Qed.

Lemma ents_unique : forall attrs es, Forall rattr_ok attrs -> vnoamp attrs ->
  Forall2 (fun a e => exists ps, e = entry_of_r a ps /\ utf8s (ra_val a) = E.r_epieces (enc_epieces ps) /\ wf_eval tb5 (ra_quote a) ps = true) attrs es ->
  es = map (fun a => entry_of_r a (litp (ra_val a))) attrs.
Proof.
  intros attrs es Hok H38 HF2. induction HF2 as [|a e attrs es (ps & -> & Eps & Hwf) _ IH]; [reflexivity|].
  inversion Hok as [|? ? Ha Hr]; subst. inversion H38 as [|? ? H38a H38r]; subst.
  cbn [map]. rewrite (IH Hr H38r). f_equal. f_equal.
  destruct Ha as (_ & _ & _ & _ & _ & Hu & _). unfold wf_eval in Hwf. apply andb_true_iff in Hwf. destruct Hwf as [Hwf _].
  apply (lit_unique (ra_quote a)); assumption.
Qed.


(* ---- a start tag of the value: on the shadow, with the entries as declared ---- *)
Notation ents_of := CstSound6Val.ents_of.

Lemma tag_lit tb lvl p pre loc attrs ws_end open l' c c' stk :
  WV p ([60] ++ rq pre loc ++ flat_map r_rattr attrs ++ ws_end ++ tag_tail (negb open) ++ l') ->
  qn_ok pre loc -> Forall rattr_ok attrs -> Cst.wf_ws ws_end = true -> vnoamp attrs ->
  SimD c stk -> ResX c ->
  evs (evl text lvl) (tag_toks p pre loc attrs ws_end (negb open)) c = Ok c' ->
  exists nss es',
    SimD c' (if open then frame_of_r decls stk pre loc (ents_of attrs) nss :: stk else stk) /\ ResX c' /\
    c_ld c' = c_ld c /\ c_entity_floor c' = c_entity_floor c /\
    inline_entries tb true (ents_of attrs) = Some (es', []) /\
    forallb (fun e => E.crlf_split_ok (e_value bpieces e)) es' = true /\
    ns_own (top_sc stk) (x_qname (mkq pre loc)) (map xb es') = true /\
    Scope.scope_of (CstNs.own_bindings (map xe3 (ents_of attrs))) (top_sc stk) = Scope.scope_of (CstNs.own_bindings (map xb es')) (top_sc stk).
Proof.
  intros HWV Hqn Hattrs Hwe H38 HS (D & K & HR) H. unfold tag_toks in H. cbn [CstLex.evs] in H. ib H c1 H1.
  rewrite evs_app in H. ib H c2 H2. cbn [CstLex.evs] in H. ib H c3 H3. injection H as <-.
  assert (Pst : plain_tok (nstart_tok p pre loc)) by (split; intros; discriminate).
  destruct (plain_step text lvl _ _ _ Pst ltac:(intros pr lo r E; discriminate E) H1) as (T1 & L1 & F1).
  pose proof (WV_lit text _ [60] _ HWV eq_refl) as HW1. change (blen [60]) with 1 in HW1.
  assert (Hqv : U8.Valid (rq pre loc)).
  { destruct Hqn as [Hpre Hloc]. unfold rq. destruct Hpre as [->|Hp]; [apply CstFullLex.uname_valid; exact Hloc|].
    destruct pre; [apply CstFullLex.uname_valid; exact Hloc|].
    apply U8.Valid_app; [apply CstFullLex.uname_valid; exact Hp|].
    apply U8.Valid_app; [apply Valid_lit; reflexivity|apply CstFullLex.uname_valid; exact Hloc]. }
  pose proof (WV_app text _ _ _ HW1 Hqv) as HW2.
  destruct (attrs_shadow lvl _ _ _ _ _ HW2 Hattrs H38 H2) as (T2 & L2 & F2).
  assert (Pen : plain_tok (end_tok (p + 1 + blen (rq pre loc) + blen (flat_map r_rattr attrs) + blen ws_end) (negb open))) by (split; intros; discriminate).
  destruct (plain_step text lvl _ _ _ Pen ltac:(intros pr lo r E; unfold end_tok in E; destruct (negb open); discriminate E) H3) as (T3 & L3 & F3).
  destruct (tag_sound_r text HF decls ets Henv Hdecls Hmk Hnames p pre loc attrs ws_end open l' _ _ _ _ stk HWV Hqn Hattrs Hwe HS D K HR T1 T2 T3)
    as (es & nss & HS' & Ees & Hok & HR' & HF2).
  pose proof (ents_unique attrs es Hattrs H38 HF2) as Ees'. subst es.
  assert (H13 : Forall (fun a => Forall (fun y => y <> 13) (utf8s (ra_val a))) attrs).
  { pose proof (W_no13_all text HF _ _ _ (WV_W _ _ _ HW2)) as X. clear - X.
    induction attrs as [|a r IH]; [constructor|]. cbn [flat_map] in X. apply Forall_app in X. destruct X as [Xa Xr].
    constructor; [|exact (IH Xr)]. unfold r_rattr in Xa. do 6 (apply Forall_app in Xa; destruct Xa as [_ Xa]). apply Forall_app in Xa. tauto. }
  destruct (ents_lit tb true attrs H13) as (es' & I1 & I2 & I3).
  exists nss, es'. split; [exact HS'|]. split; [eexists; eexists; exact HR'|]. split; [congruence|]. split; [congruence|].
  split; [exact I1|]. split; [exact I3|]. destruct Hok as (_ & _ & _ & Hown). split; [rewrite I2; exact Hown|rewrite I2; reflexivity].
Qed.


Lemma hsc_top opn rest : hsc opn (top_sc rest) = top_sc (opn ++ rest).
Proof. destruct opn; reflexivity. Qed.

Lemma flat1_valid x l : flat_ok1 x -> U8.Valid (r_flat1 x ++ l) -> U8.Valid (r_flat1 x).
Proof.
  intros Hok HV.
  assert (G : forall B0, r_flat1 x = B0 ++ [62] -> U8.Valid (r_flat1 x)).
  { intros B0 E. rewrite E in HV |- *. rewrite <- app_assoc in HV. cbn [app] in HV.
    apply U8.Valid_app; [apply (valid_split B0 62 l); [lia|exact HV]|apply Valid_lit; reflexivity]. }
  destruct x as [pre loc attrs ws|pre loc attrs ws|pre loc ws2|cs|cs|bs|t sep v]; cbn [r_flat1] in *.
  - apply (G ([60] ++ rq pre loc ++ flat_map r_rattr attrs ++ ws)). rewrite <- !app_assoc. reflexivity.
  - apply (G ([60] ++ rq pre loc ++ flat_map r_rattr attrs ++ ws ++ [47])). rewrite <- !app_assoc. reflexivity.
  - apply (G ([60; 47] ++ rq pre loc ++ ws2)). rewrite <- !app_assoc. reflexivity.
  - destruct Hok as ((cs0 & Hraw & <-) & _). apply Valid_uchars. apply Hraw.
  - apply (G ([60; 33; 91; 67; 68; 65; 84; 65; 91] ++ utf8s cs ++ [93; 93])). rewrite <- !app_assoc. reflexivity.
  - apply (G ([60; 33; 45; 45] ++ utf8s bs ++ [45; 45])). rewrite <- !app_assoc. reflexivity.
  - apply (G ([60; 63] ++ utf8s t ++ sep ++ utf8s v ++ [63])). rewrite <- !app_assoc. reflexivity.
Qed.

(* the tokens of a markup value, from any context inside an entity *)
Lemma flat_sound k lvl : PB lvl -> forall fl p post c c' opn rest names,
  WV p (r_flat fl ++ post) -> flat_ok fl -> fbal names fl -> length names = length opn ->
  SimD c (opn ++ rest) -> ResX c -> ld_depth (c_ld c) + N.of_nat k = 10 ->
  evs (evl text lvl) (ftoks p fl) c = Ok c' ->
  SimD c' rest /\ ResX c' /\ exists trs trl, LvSemT (X4.level xds k) true opn (top_sc rest) (build fl) trs trl /\
    ld_run (c_ld c) (total trs trl) = Some (c_ld c') /\ Bal (total trs trl).
Proof.
  intros HPB. set (tb := X4.level xds k).
  induction fl as [|x fl IH]; intros p post c c' opn rest names HWV Hok Hbal Hlen HS HR Hd H.
  { cbn [ftoks CstLex.evs] in H. injection H as <-. cbn [fbal] in Hbal. subst names. destruct opn; [|discriminate]. cbn [app] in HS.
    split; [exact HS|]. split; [exact HR|]. exists [], []. split; [split; [exact I|exists []; apply SemB_nil]|]. split; [reflexivity|constructor]. }
  cbn [ftoks] in H. rewrite evs_app in H. ib H c1 H1. cbn [flat_ok] in Hok. destruct Hok as (Hok1 & Hstop & Hokr).
  cbn [r_flat flat_map] in HWV. fold (r_flat fl) in HWV. rewrite <- app_assoc in HWV.
  assert (HWn : WV (p + blen (r_flat1 x)) (r_flat fl ++ post)).
  { apply (WV_app text _ _ _ HWV). exact (flat1_valid x _ Hok1 (proj2 HWV)). }
  (* a token that leaves the detector alone, after which the head level gets an item in front *)
  assert (STEP0 : forall c1 opn1 names1 (g : list uitem -> list uitem),
            SimD c1 (opn1 ++ rest) -> ResX c1 -> c_ld c1 = c_ld c -> fbal names1 fl -> length names1 = length opn1 ->
            evs (evl text lvl) (ftoks (p + blen (r_flat1 x)) fl) c1 = Ok c' ->
            SimD c' rest /\ ResX c' /\ exists trs trl, LvSemT tb true opn1 (top_sc rest) (build fl) trs trl /\
              ld_run (c_ld c) (total trs trl) = Some (c_ld c') /\ Bal (total trs trl)).
  { intros c2 opn1 names1 g HS2 HR2 L2 Hb2 Hl2 H2.
    destruct (IH _ _ _ _ opn1 rest _ HWn Hokr Hb2 Hl2 HS2 HR2 ltac:(rewrite L2; exact Hd) H2) as (A1 & A2 & trs & trl & A3 & A4 & A5).
    split; [exact A1|]. split; [exact A2|]. exists trs, trl. split; [exact A3|]. split; [rewrite <- L2; exact A4|exact A5]. }
  destruct x as [pre loc attrs ws|pre loc attrs ws|pre loc ws2|ps|cs|bs|t sep v]; cbn [ftok1] in H1; cbn [fbal] in Hbal; cbn [build fold_right]; fold (build fl).
  - (* a start tag *)
    destruct Hok1 as (Hqn & Hat & Hws & H38). cbn [r_flat1] in HWV. rewrite <- !app_assoc in HWV. change [62] with (tag_tail (negb true)) in HWV.
    destruct (tag_lit tb lvl p pre loc attrs ws true _ c c1 (opn ++ rest) HWV Hqn Hat Hws H38 HS HR H1) as (nss & es' & HS1 & HR1 & L1 & _ & I1 & I3 & Hown & Hsc).
    set (f := frame_of_r decls (opn ++ rest) pre loc (ents_of attrs) nss) in *.
    destruct (STEP0 c1 (f :: opn) _ (fun l => l) HS1 HR1 L1 Hbal ltac:(cbn [length]; rewrite Hlen; reflexivity) H) as (HS2 & HR2 & trs & trl & HL & Hrun & HB).
    split; [exact HS2|]. split; [exact HR2|].
    destruct (build fl) as [lv last] eqn:Eb.
    destruct lv as [|[cs_in w_in] lv1]; [destruct HL as [A _]; cbn in A; destruct A|].
    cbn [bstep fst snd].
    destruct (LvSemT_open tb true f opn (top_sc rest) cs_in w_in lv1 last (mkq pre loc) (ents_of attrs) es' [] ws trs trl HL I1 (CstEntRejSem.Bal_nil) I3) as (trs' & trl' & HL' & Et).
    + rewrite hsc_top. exact Hown.
    + unfold f. cbn [frame_of_r f_sc]. rewrite hsc_top. exact Hsc.
    + exists trs', trl'. split; [exact HL'|]. rewrite Et. split; assumption.
  - (* an empty element *)
    destruct Hok1 as (Hqn & Hat & Hws & H38). cbn [r_flat1] in HWV. rewrite <- !app_assoc in HWV. change [47; 62] with (tag_tail (negb false)) in HWV.
    destruct (tag_lit tb lvl p pre loc attrs ws false _ c c1 (opn ++ rest) HWV Hqn Hat Hws H38 HS HR H1) as (nss & es' & HS1 & HR1 & L1 & _ & I1 & I3 & Hown & _).
    destruct (STEP0 c1 opn _ (fun l => l) HS1 HR1 L1 Hbal Hlen H) as (HS2 & HR2 & trs & trl & HL & Hrun & HB).
    split; [exact HS2|]. split; [exact HR2|].
    rewrite <- hsc_top in Hown.
    destruct (elem_semB tb true (hsc opn (top_sc rest)) (mkq pre loc) (ents_of attrs) es' [] ws None [] [] I1 (CstEntRejSem.Bal_nil) I3 Hown (conj eq_refl eq_refl))
      as (J1 & J2 & J3 & J4).
    cbn [bstep]. destruct (build fl) as [lv last]. cbn [fst snd].
    destruct (LvSemT_upd tb true opn (top_sc rest) lv last (cons (IElem (mkq pre loc) (ents_of attrs) ws None)) [] trs trl HL) as (trs' & trl' & HL' & Et).
    { intros cs0 bs0 t0 Hc. eexists. exact (SemB_cons tb true _ _ _ _ _ _ _ J1 J2 J3 J4 Hc). }
    exists trs', trl'. split; [exact HL'|]. rewrite Et. split; assumption.
  - (* an end tag *)
    cbn [CstLex.evs] in H1. ib H1 cx Hx. injection H1 as <-. unfold nclose_tok in Hx.
    pose proof (close_floor text lvl _ _ _ _ _ Hx) as Hfl.
    assert (Pc : plain_tok (TElementEnd (EClose (sl (p + 2) (p + 2 + blen (utf8s pre))) (sl (p + 2 + qoff pre) (p + 2 + qoff pre + blen (utf8s loc))))
                                 (p, p + 2 + blen (rq pre loc) + blen ws2 + 1))) by (split; intros; discriminate).
    destruct (plain_step text lvl _ _ _ Pc ltac:(intros; exact Hfl) Hx) as (T1 & L1 & _).
    destruct (step_close_p text ets _ _ _ _ _ _ HS T1) as (f & stk' & Estk & _ & _ & HS1 & _ & Hnq).
    destruct names as [|n names']; [contradiction|]. destruct Hbal as [_ Hbal].
    destruct opn as [|f0 opn']; [discriminate|]. cbn [app] in Estk. injection Estk as <- <-.
    assert (HR1 : ResX cx) by (destruct HR as (D & K & HR); exists D, K; exact (Res_eq text _ _ _ _ _ Hnq HR)).
    destruct (STEP0 cx opn' _ (fun l => l) HS1 HR1 L1 Hbal ltac:(cbn [length] in Hlen; lia) H) as (HS2 & HR2 & trs & trl & HL & Hrun & HB).
    split; [exact HS2|]. split; [exact HR2|]. cbn [bstep].
    destruct (LvSemT_close tb true f0 opn' (top_sc rest) (build fl) ws2 trs trl HL) as [HL' Et].
    exists ([] :: trs), trl. split; [exact HL'|]. rewrite Et. split; assumption.
  - (* text: the pieces the crate reads are the declared ones *)
    cbn [CstLex.evs] in H1. ib H1 cx Hx. injection H1 as <-. destruct Hok1 as ((csr & Hraw & Ecs) & Hwfp & Hadjp & Hnep). cbn [r_flat1] in HWV.
    unfold CstEntCBuild.evl in Hx. cbn [token_with] in Hx.
    assert (HVx : U8.Valid (E.r_epieces (enc_epieces ps))) by (rewrite <- Ecs; apply Valid_uchars; apply Hraw).
    destruct (HPB _ _ _ _ _ (opn ++ rest) k HWV HVx HS HR Hd Hx) as (ps1 & bs1 & tr1 & E1 & Hps1 & Hi1 & Hr1 & Hb1 & HP1 & Hn1 & HS1 & HR1).
    assert (Hwfu : wf_uepieces 60 false true true ps = true) by (unfold wf_uepieces; rewrite Hwfp, Hadjp; reflexivity).
    destruct (CstFullS3Plug.uepieces_ok 60 false true true ps ltac:(lia) Hwfu (CstFullS3Plug.no_cdata_of _ _ _ _ Hwfp)) as (Huep & Hadje & _).
    assert (ps1 = enc_epieces ps) by (apply beps_unique; [exact Hps1|apply (uep_beps true); assumption|symmetry; exact E1]). subst ps1.
    pose proof (ld_run_bal tr1 Hb1 _ _ Hr1) as Dd.
    destruct (IH _ _ _ _ opn rest _ HWn Hokr Hbal Hlen HS1 HR1 ltac:(rewrite Dd; exact Hd) H) as (HS2 & HR2 & trs & trl & HL & Hrun & HB).
    split; [exact HS2|]. split; [exact HR2|].
    cbn [bstep]. destruct (build fl) as [lv last]. cbn [fst snd].
    destruct (LvSemT_upd tb true opn (top_sc rest) lv last (CstSoundPRMain.cons_text_r ps) tr1 trs trl HL) as (trs' & trl' & HL' & Et).
    { intros cs0 bs0 t0 Hc. eexists. apply (SemB_text tb true _ ps cs0 bs1 tr1 bs0 t0); [rewrite (inline_run_m _ true false); exact Hi1|exact Hb1|exact HP1| |exact Hc].
      rewrite hsc_top. exact Hn1. }
    exists trs', trl'. split; [exact HL'|]. rewrite Et. split; [rewrite DetectorProofs.ld_run_app, Hr1; exact Hrun|apply CstEntRejSem.Bal_app; assumption].
  - (* a CDATA section *)
    cbn [CstLex.evs] in H1. ib H1 cx Hx. injection H1 as <-. unfold cdata_tok in Hx.
    destruct (cdata_shadow lvl _ _ _ _ Hx) as [TF Ld].
    assert (HR1 : ResX cx) by (destruct HR as (D & K & HR); exists D, K; apply (Res_eq text (sh c) (sh cx) D K []); [apply (tframe_sh _ _ TF)|exact HR]).
    destruct (STEP0 cx opn _ (fun l => l) (SimD_tframe _ _ _ HS TF) HR1 Ld Hbal Hlen H) as (HS2 & HR2 & trs & trl & HL & Hrun & HB).
    split; [exact HS2|]. split; [exact HR2|].
    cbn [bstep]. destruct (build fl) as [lv last]. cbn [fst snd].
    destruct (LvSemT_upd tb true opn (top_sc rest) lv last (CstSoundPRMain.cons_text_r [E.EP (T.PCData cs)]) [] trs trl HL) as (trs' & trl' & HL' & Et).
    { intros cs0 bs0 t0 Hc. eexists. apply (SemB_text tb true _ [E.EP (T.PCData cs)] cs0 [@IText bpieces [T.PCData (utf8s cs)]] [] bs0 t0); [reflexivity|constructor| |apply ns_oks_texts; reflexivity|exact Hc].
      constructor; [reflexivity|constructor]. }
    exists trs', trl'. split; [exact HL'|]. rewrite Et. split; assumption.
  - (* a comment *)
    cbn [CstLex.evs] in H1. ib H1 cx Hx. injection H1 as <-.
    assert (Pc : plain_tok (TComment (sl (p + 4) (p + 4 + blen (utf8s bs))) (p, p + 4 + blen (utf8s bs) + 3))) by (split; intros; discriminate).
    destruct (plain_step text lvl _ _ _ Pc ltac:(intros pr lo r E; discriminate E) Hx) as (T1 & L1 & _).
    destruct (step_comment_p text ets _ _ _ _ _ HS T1) as (HS1 & _).
    assert (HR1 : ResX cx) by (destruct HR as (D & K & HR); exists D, K; exact (Res_eq text _ _ _ _ _ (leaf_nseq text _ _ _ _ T1) HR)).
    destruct (STEP0 cx opn _ (fun l => l) HS1 HR1 L1 Hbal Hlen H) as (HS2 & HR2 & trs & trl & HL & Hrun & HB).
    split; [exact HS2|]. split; [exact HR2|].
    cbn [bstep]. destruct (build fl) as [lv last]. cbn [fst snd].
    destruct (LvSemT_upd tb true opn (top_sc rest) lv last (cons (@IComment epieces bs)) [] trs trl HL) as (trs' & trl' & HL' & Et).
    { intros cs0 bs0 t0 Hc. eexists. apply (SemB_cons tb true _ (@IComment epieces bs) cs0 [@IComment bpieces bs] [] bs0 t0); [reflexivity|constructor| |reflexivity|exact Hc].
      constructor; [reflexivity|constructor]. }
    exists trs', trl'. split; [exact HL'|]. rewrite Et. split; assumption.
  - (* a PI *)
    cbn [CstLex.evs] in H1. ib H1 cx Hx. injection H1 as <-. unfold pi_tok in Hx. cbv zeta in Hx.
    match type of Hx with evl _ _ ?tk _ = _ => assert (Pc : plain_tok tk) by (split; intros; discriminate) end.
    destruct (plain_step text lvl _ _ _ Pc ltac:(intros pr lo r E; discriminate E) Hx) as (T1 & L1 & _).
    destruct (step_pi_p text ets _ _ _ _ _ _ HS T1) as (HS1 & _).
    assert (HR1 : ResX cx) by (destruct HR as (D & K & HR); exists D, K; exact (Res_eq text _ _ _ _ _ (leaf_nseq text _ _ _ _ T1) HR)).
    destruct (STEP0 cx opn _ (fun l => l) HS1 HR1 L1 Hbal Hlen H) as (HS2 & HR2 & trs & trl & HL & Hrun & HB).
    split; [exact HS2|]. split; [exact HR2|].
    cbn [bstep]. destruct (build fl) as [lv last]. cbn [fst snd].
    destruct (LvSemT_upd tb true opn (top_sc rest) lv last (cons (@IPI epieces t sep v)) [] trs trl HL) as (trs' & trl' & HL' & Et).
    { intros cs0 bs0 t0 Hc. eexists. apply (SemB_cons tb true _ (@IPI epieces t sep v) cs0 [@IPI bpieces t sep v] [] bs0 t0); [reflexivity|constructor| |reflexivity|exact Hc].
      constructor; [reflexivity|constructor]. }
    exists trs', trl'. split; [exact HL'|]. rewrite Et. split; assumption.
Qed.

(* the value of a declared markup entity, read at a reference: from the context of the reference (any detector, any floor),
   the builder comes back to the same open elements, the declared items inline under the table of the level of the
   reference and satisfy the namespace rules at this place, and the detector runs through the trace of the inlining *)
Theorem markup_use k lvl vs its tail es c sx c' stk : PB lvl ->
  UseOK text vs its -> WV vs (X4.r_uitems its ++ tail) ->
  stream_from_substr text vs (vs + blen (X4.r_uitems its)) = Ok es ->
  SimD c stk -> ResX c -> ld_depth (c_ld c) + N.of_nat k = 10 ->
  parse_content text context (evl text lvl) es c = Ok (sx, c') ->
  SimD c' stk /\ ResX c' /\ exists bs tr, SemB (X4.level xds k) true (top_sc stk) its bs tr /\ ld_run (c_ld c) tr = Some (c_ld c').
Proof.
  intros HPB HU HWV Es HS HR Hd H.
  destruct (use_tokens text vs its context (evl text lvl) es c sx c' HU Es H) as (fl & Eb & Hok & Hbal & Er & Hev).
  rewrite <- Er in HWV.
  destruct (flat_sound k lvl HPB fl vs tail c c' [] stk [] HWV Hok Hbal eq_refl HS HR Hd Hev) as (HS' & HR' & trs & trl & [A (bs & HL)] & Hrun & _).
  rewrite Eb in A, HL. cbn [fst snd] in A, HL. destruct trs; [|destruct A]. unfold total in Hrun. cbn [concat app] in Hrun.
  split; [exact HS'|]. split; [exact HR'|]. exists bs, trl. split; assumption.
Qed.

End Nest.
Print Assumptions markup_use.
