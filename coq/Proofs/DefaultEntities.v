(* Proofs/DefaultEntities.v -- C16: with allow_dtd = false no entity is ever declared.
   TEntityDecl is the only token that changes c_entities, only parse_doctype emits it, and
   parse_document without allow_dtd answers Err DtdDetected instead of calling parse_doctype. *)
From Coq Require Import List NArith Bool Lia ZifyBool ZifyN ZifyNat.
Import ListNotations.
From RX Require Import Generated.
From RX.Model Require Import Base CharClass Stream Tokenizer Doc Builder Parse.
From RX.Proofs Require Import Tactics KeystoneEnc KeystoneBuilder KeystoneParse KeystoneProto.
From RX.Proofs Require Import TermStream TermTokenizer TermBuilder TermParse.
Open Scope N_scope.

(* c' has the same entity table as c *)
Definition ke (c c' : context) : Prop := c_entities c' = c_entities c.

Ltac ke_fin :=
  unfold ke in *;
  cbn [c_entities set_doc set_ns_start_idx set_cur_attrs set_awaiting set_parent_prefixes
       set_entities set_after_text set_parent_id set_tag_name set_entity_floor set_ld fst snd] in *;
  congruence.

Ltac minv_all := repeat match goal with H : _ = Ok _ |- _ => progress (mstep' H) end.

Definition not_decl (tk : Tokenizer.token) : Prop :=
  match tk with TEntityDecl _ _ => False | _ => True end.

Section WithText.
Variable text : bytes.

Lemma append_node_ke k r c i c' : append_node k r c = Ok (i, c') -> ke c c'.
Proof. unfold append_node. intros H. minv_all. ke_fin. Qed.

Lemma append_text_ke t r c c' : append_text t r c = Ok c' -> ke c c'.
Proof.
  unfold append_text. intros H. minv_all;
    repeat match goal with Hx : append_node _ _ _ = Ok _ |- _ => apply append_node_ke in Hx end;
    ke_fin.
Qed.

Lemma merge_text_ke c c' : merge_text text c = Ok c' -> ke c c'.
Proof. unfold merge_text. intros H. minv_all. ke_fin. Qed.

Lemma reset_after_text_ke c c' : reset_after_text text c = Ok c' -> ke c c'.
Proof.
  unfold reset_after_text. intros H. minv_all;
    repeat match goal with Hx : merge_text _ _ = Ok _ |- _ => apply merge_text_ke in Hx end;
    ke_fin.
Qed.

Lemma resolve_namespaces_ke c r c' : resolve_namespaces text c = Ok (r, c') -> ke c c'.
Proof. unfold resolve_namespaces. intros H. minv_all; ke_fin. Qed.

Lemma resolve_attributes_ke nss c r c' : resolve_attributes text nss c = Ok (r, c') -> ke c c'.
Proof. unfold resolve_attributes. intros H. minv_all; ke_fin. Qed.

Ltac fwd_ke :=
  repeat match goal with
  | Hx : append_node _ _ _ = Ok _ |- _ => apply append_node_ke in Hx
  | Hx : append_text _ _ _ = Ok _ |- _ => apply append_text_ke in Hx
  | Hx : reset_after_text _ _ = Ok _ |- _ => apply reset_after_text_ke in Hx
  | Hx : resolve_namespaces _ _ = Ok _ |- _ => apply resolve_namespaces_ke in Hx
  | Hx : resolve_attributes _ _ _ = Ok _ |- _ => apply resolve_attributes_ke in Hx
  end.

Lemma process_element_ke e r c c' : process_element text e r c = Ok c' -> ke c c'.
Proof. unfold process_element. intros H. minv_all; fwd_ke; ke_fin. Qed.

Lemma process_cdata_ke t r c c' : process_cdata text t r c = Ok c' -> ke c c'.
Proof. unfold process_cdata. intros H. minv_all; fwd_ke; ke_fin. Qed.

Lemma normalize_attribute_ke v c st c' : normalize_attribute text v c = Ok (st, c') -> ke c c'.
Proof. unfold normalize_attribute. intros H. minv_all; ke_fin. Qed.

Lemma process_attribute_ke r q e p l v c c' :
  process_attribute text r q e p l v c = Ok c' -> ke c c'.
Proof.
  unfold process_attribute. intros H. mbind H vc Hn. destruct vc as [v' c1].
  apply normalize_attribute_ke in Hn. minv_all; ke_fin.
Qed.

(* ---- process_text ---- *)
Lemma ptext_loop_ke pc r :
  (forall es c s' c', pc es c = Ok (s', c') -> ke c c') ->
  forall fuel s buf c buf' c', ptext_loop text pc r fuel s buf c = Ok (buf', c') -> ke c c'.
Proof.
  intros Hpc. induction fuel as [|fu IH]; intros s buf c buf' c' H; cbn [ptext_loop] in H;
    [discriminate|].
  destruct (at_end s). { inversion H; subst. reflexivity. }
  mbind H chs Hch. destruct chs as [ch s1]. destruct ch.
  - eapply IH; eassumption.
  - eapply IH; eassumption.
  - mbind H c1 H1. mbind H ld1 Hl1. mbind H ld2 Hl2. mbind H es Hes. mbind H sc Hp.
    destruct sc as [s2 c2]. mstep' H; [discriminate H|].
    apply Hpc in Hp. apply IH in H.
    assert (ke c c1) by (clear H Hp Hch; minv_all; fwd_ke; ke_fin).
    ke_fin.
Qed.

Lemma process_text_with_ke pc t r c c' :
  (forall es c s' c', pc es c = Ok (s', c') -> ke c c') ->
  process_text_with text pc t r c = Ok c' -> ke c c'.
Proof.
  intros Hpc H. rewrite process_text_with_eq in H. cbv zeta in H.
  destruct (negb _). { fwd_ke. assumption. }
  mbind H s0 Hs0. mbind H bc Hl. destruct bc as [buf c1].
  eapply ptext_loop_ke in Hl; [|exact Hpc].
  minv_all; fwd_ke; ke_fin.
Qed.

Lemma token_with_ke ptext tk c c' :
  (forall t r c c', ptext t r c = Ok c' -> ke c c') ->
  not_decl tk -> token_with text ptext tk c = Ok c' -> ke c c'.
Proof.
  intros Hp Hn H. unfold token_with in H. destruct tk; cbn [not_decl] in Hn; try contradiction.
  - minv_all; fwd_ke; ke_fin.
  - minv_all; fwd_ke; ke_fin.
  - minv_all; fwd_ke; ke_fin.
  - eapply process_attribute_ke; eassumption.
  - mbind H c1 H1. apply process_element_ke in H. fwd_ke. ke_fin.
  - eapply Hp; eassumption.
  - eapply process_cdata_ke; eassumption.
Qed.

(* parse_content never delivers TEntityDecl: a callback that keeps the entity table on all
   other tokens keeps it over the whole content *)
Lemma parse_content_ke ev :
  (forall tk c c', not_decl tk -> ev tk c = Ok c' -> ke c c') ->
  forall s c s' c', parse_content text context ev s c = Ok (s', c') -> ke c c'.
Proof.
  intros Hev s c s' c' H.
  pose (X := fun (_ : N) (x : context) => c_entities x = c_entities c).
  assert (HF : Fin context X (X 0) c').
  { eapply (parse_content_X text context ev X X (X 0)); try exact H; try reflexivity; unfold X;
      intros; match goal with He : ev _ _ = Ok _ |- _ => apply Hev in He; [|exact I] end;
      unfold ke in *; congruence. }
  destruct HF as [HF|[d HF]]; exact HF.
Qed.

Lemma parse_content_lvl_ke lvl : forall s c s' c',
  parse_content_lvl text lvl s c = Ok (s', c') -> ke c c'.
Proof.
  induction lvl as [|lvl IH]; intros s c s' c' H; cbn [parse_content_lvl] in H; [discriminate|].
  eapply parse_content_ke; [|exact H].
  intros tk x x' Hn He. eapply token_with_ke; [|exact Hn|exact He].
  intros t r y y'. apply process_text_with_ke. exact IH.
Qed.

Lemma token_ke tk c c' : not_decl tk -> token text tk c = Ok c' -> ke c c'.
Proof.
  unfold token, process_text. apply token_with_ke.
  intros t r y y'. apply process_text_with_ke. apply parse_content_lvl_ke.
Qed.

End WithText.

(* ------------------------------------------------------------------ *)
(* The document level: without allow_dtd the DOCTYPE branch is an error, and no other part
   of parse_document delivers TEntityDecl. *)
Lemma parse_document_no_dtd_ke text ev c c' :
  (forall tk x x', not_decl tk -> ev tk x = Ok x' -> ke x x') ->
  parse_document text context ev false c = Ok c' -> ke c c'.
Proof.
  intros Hev H. unfold parse_document in H.
  pose (X := fun (x : context) => c_entities x = c_entities c).
  assert (HX : forall tk x x', not_decl tk -> X x -> ev tk x = Ok x' -> X x').
  { unfold X. intros tk x x' Hn Hx He. apply Hev in He; [|exact Hn]. unfold ke in He. congruence. }
  assert (Hmisc : forall s x s' x', X x -> parse_misc text context ev s x = Ok (s', x') -> X x').
  { intros s x s' x'. apply (parse_misc_X text context ev X); intros; eapply HX; eauto; exact I. }
  assert (Helem : forall s x o s' x', X x -> parse_element text context ev s x = Ok (o, s', x') -> X x').
  { intros s x o s' x' Hx He.
    pose proof (parse_element_X text context ev X X X X) as L.
    specialize (L ltac:(intros; eapply HX; eauto; exact I) ltac:(intros; eapply HX; eauto; exact I)
                  ltac:(intros; eapply HX; eauto; exact I) ltac:(intros; eapply HX; eauto; exact I)
                  s x o s' x' Hx He).
    destruct o; exact L. }
  assert (Hcont : forall s x s' x', X x -> parse_content text context ev s x = Ok (s', x') -> X x').
  { intros s x s' x' Hx He. apply (parse_content_ke text ev Hev) in He. unfold X, ke in *. congruence. }
  mbind H s1 Hs1. mbind H s2 Hs2. mbind H sc3 H3. destruct sc3 as [s3 c3].
  apply Hmisc in H3; [|reflexivity].
  mbind H sc4 H4. destruct sc4 as [s4 c4].
  assert (X4 : X c4).
  { mstep' H4; [cbn [negb] in H4; discriminate H4|]. inversion H4; subst. exact H3. }
  mbind H sc5 H5. destruct sc5 as [s5 c5].
  assert (X5 : X c5).
  { mstep' H5.
    - mbind H5 osc He. destruct osc as [[o s6] c6]. apply Helem in He; [|exact X4].
      cbv beta iota in H5. destruct o; cbv iota in H5. 1: exact (Hcont _ _ _ _ He H5). inversion H5; subst. exact He.
    - inversion H5; subst. exact X4. }
  mbind H sc6 H6. destruct sc6 as [s6 c6]. apply Hmisc in H6; [|exact X5].
  mstep' H; [mstep' H|]. inversion H; subst. exact H6.
Qed.

(* 1 *)
Theorem no_entities_without_dtd : forall text lim c c',
  init_context text {| allow_dtd := false; nodes_limit := lim |} = Ok c ->
  parse_document text context (token text) false c = Ok c' -> c_entities c' = [].
Proof.
  intros text lim c c' Hi H.
  apply (parse_document_no_dtd_ke text (token text)) in H; [|intros; eapply token_ke; eassumption].
  unfold ke in H. rewrite H.
  unfold init_context in Hi. mbind Hi d Hd. injection Hi as <-. reflexivity.
Qed.
Print Assumptions no_entities_without_dtd.
