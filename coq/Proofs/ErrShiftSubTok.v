(* Proofs/ErrShiftSubTok.v -- C14 (inside the internal subset), part 5.  COPY of ErrShiftEntTok.v over
   ErrShiftSubBase.v, with two changes: [TokI] allows TEntityDecl (name and value on the side hi),
   and the declarations and the loop of the internal subset are added at the end
   ([parse_external_id_ps] ... [parse_doctype_loop_ps]; [consume_decl] is touched through
   [consume_decl_ps] only; [dtd_body] is the dispatch of the loop behind skip_spaces).
   Original header:
   Proofs/ErrShiftSubTok.v -- C14 (entities), part 3: the tokenizer (the part that runs behind the
   DOCTYPE: comments, processing instructions, elements, text) on T2 from [F hi s], for any two
   callbacks that are related on the tokens of the side hi moved by [dd hi]. *)
From Coq Require Import Ascii String.
From Coq Require Import List Arith NArith Bool Lia ZifyBool ZifyN ZifyNat.
Import ListNotations.
From RX Require Import Generated.
From RX.Model Require Import Base CharClass Stream Tokenizer.
From RX.Proofs Require Import Tactics NoPanicUtf8 NoPanicStream PositionProofs RangeShiftBase RangeShiftStream
  RangeShiftTokenizer ErrShiftBase ErrShiftSubBase ErrShiftSubStream.
Open Scope N_scope.

(* the dispatch of the loop of the internal subset, behind skip_spaces *)
Definition dtd_body (text : bytes) (C : Type) (ev : token -> C -> res C)
           (loop : stream -> C -> res (stream * C)) (start : N) (s : stream) (c : C) : res (stream * C) :=
  if starts_with s (b "<!ENTITY") then
    let! (s, c) := parse_entity_decl text C ev s c in loop s c
  else if starts_with s (b "<!--") then
    let! (s, c) := parse_comment text C ev s c in loop s c
  else if starts_with s (b "<?") then
    let! (s, c) := parse_pi text C ev s c in loop s c
  else if starts_with s (b "]") then
    let! s := advance 1 s in
    let s := skip_spaces s in
    match curr_byte_opt s with
    | Some x => if x =? 62 then let! s := advance 1 s in Ok (s, c)
                else err_at text s (InvalidChar2 (b "'>'") x)
    | None => Err UnexpectedEndOfStream
    end
  else if starts_with s (b "<!ELEMENT") || starts_with s (b "<!ATTLIST")
          || starts_with s (b "<!NOTATION") then
    match consume_decl text s with
    | Ok s => loop s c
    | Err _ => err_from text start UnknownToken
    | Panic p => Panic p
    | OutOfFuel => OutOfFuel
    end
  else err_at text s UnknownToken.

Lemma dtd_loop_S text C ev fu start s c :
  parse_doctype_loop text C ev (S fu) start s c =
  if at_end s then Ok (s, c) else dtd_body text C ev (parse_doctype_loop text C ev fu start) start (skip_spaces s) c.
Proof. reflexivity. Qed.

Section Ent.
Variable S : setting.
Notation pre := (st_pre S).
Notation ws := (st_ws S).
Notation post := (st_post S).
Notation T1 := (pre ++ post).
Notation T2 := (pre ++ ws ++ post).
Notation P := (blen pre).
Notation psim := (psim S).
Notation F := (F S).
Notation SI := (SI S).
Notation LS := (LS S).
Notation NS := (NS S).
Notation dd := (dd S).

(* what the callbacks may assume of a token that comes from a stream of the side hi *)
Definition RI (hi : bool) (r : range) : Prop := NS hi (fst r) /\ NS4 S hi (snd r).
Definition TokI (hi : bool) (tok : token) : Prop :=
  match tok with
  | TPI t c r => LS hi t /\ match c with Some v => LS hi v | None => True end /\ RI hi r
  | TComment t r => LS hi t /\ RI hi r
  | TEntityDecl n v => LS hi n /\ LS hi v
  | TElementStart p l st => LS hi p /\ LS hi l /\ NS hi st /\ slice_len l <> 0 /\ sl_start p = st + 1
  | TAttribute r _ _ p l v => RI hi r /\ LS hi p /\ LS hi l /\ LS hi v
  | TElementEnd e r => match e with EClose p l => LS hi p /\ LS hi l | _ => True end /\ RI hi r
  | TText t r => LS hi t /\ RI hi r
  | TCdata t r => LS hi t /\ RI hi r
  end.

Variable hi : bool.
Notation d := (dd hi).
Notation Fh := (F hi).
Notation shl := (sh_sl d).

Variable C : Type.
Variable ev1 ev2 : token -> C -> res C.
Variable fc : C -> C.
Variable CI : C -> Prop.
Hypothesis Hev : forall tok c, TokI hi tok -> CI c -> psim CI fc (ev1 tok c) (ev2 (sh_tok d tok) (fc c)).

Definition shp (x : stream * C) : stream * C := (Fh (fst x), fc (snd x)).
Definition she (x : bool * stream * C) : bool * stream * C := (fst (fst x), Fh (snd (fst x)), fc (snd x)).
Definition PI (x : stream * C) : Prop := SI hi (fst x) /\ CI (snd x).
Definition EI (x : bool * stream * C) : Prop := SI hi (snd (fst x)) /\ CI (snd x).

Ltac eat := apply (err_at_ps S); [pc|assumption].
Ltac nsd := first [assumption | eapply (SI_NS S); eassumption | eapply (SI_NS4 S); eassumption].
Ltac efr := apply (err_from_ps S hi); [pc|nsd|first [reflexivity|lia]].
Ltac ret := apply psim_ret; [first [assumption | split; assumption | (unfold PI, EI; cbn [fst snd]; auto)]|reflexivity].

Lemma parse_comment_ps s c : SI hi s -> CI c ->
  psim PI shp (parse_comment T1 C ev1 s c) (parse_comment T2 C ev2 (Fh s) (fc c)).
Proof.
  intros H Hc. unfold parse_comment. cbv zeta. rewrite (s_pos_F S).
  eapply psim_bind; [apply (advance_ps' S hi); exact H|]. intros s1 H1. cbv beta.
  eapply psim_bind; [apply (consume_chars_ps S hi); [|exact H1]|].
  { intros s0 ch H0. rewrite (starts_with_F S) by exact H0. reflexivity. }
  intros [txt s2] [Ht H2]. cbn [pmap fst snd] in *. cbv beta iota.
  eapply psim_bind; [apply (skip_string_ps S hi); exact H2|]. intros s3 H3. cbv beta.
  rewrite (slice_bytes_s S hi) by exact Ht.
  destruct (contains_b _ _); [efr|]. destruct (ends_with_byte _ _); [efr|].
  rewrite (s_pos_F S).
  eapply psim_bind.
  { apply (Hev (TComment txt (s_pos s, s_pos s3)) c); [|exact Hc].
    cbn [TokI]. split; [exact Ht|]. split; cbn [fst snd]; nsd. }
  intros c1 Hc1. ret.
Qed.

Lemma parse_pi_ps s c : SI hi s -> CI c ->
  psim PI shp (parse_pi T1 C ev1 s c) (parse_pi T2 C ev2 (Fh s) (fc c)).
Proof.
  intros H Hc. unfold parse_pi. cbv zeta. rewrite (starts_with_F S), (s_pos_F S) by exact H.
  destruct (starts_with s (b "<?xml ")); [eat|].
  eapply psim_bind; [apply (advance_ps' S hi); exact H|]. intros s1 H1. cbv beta.
  eapply psim_bind; [apply (consume_name_ps S hi); exact H1|]. intros [target s2] [Htg H2].
  cbn [pmap fst snd] in *. cbv beta iota. rewrite (starts_with_F S) by exact H2.
  eapply psim_bind with (I := SI hi) (g := Fh).
  { destruct (starts_with s2 (b "?>")); [apply psim_ret; [exact H2|reflexivity]|apply (consume_spaces_ps S hi); exact H2]. }
  intros s3 H3. cbv beta.
  eapply psim_bind; [apply (consume_chars_ps S hi); [|exact H3]|].
  { intros s0 ch H0. rewrite (starts_with_F S) by exact H0. reflexivity. }
  intros [content s4] [Hct H4]. cbn [pmap fst snd] in *. cbv beta iota.
  rewrite (slice_len_s d).
  eapply psim_bind; [apply (skip_string_ps S hi); exact H4|]. intros s5 H5. cbv beta. rewrite (s_pos_F S).
  destruct (slice_len content =? 0).
  - eapply psim_bind.
    { apply (Hev (TPI target None (s_pos s, s_pos s5)) c); [|exact Hc].
      cbn [TokI]. split; [exact Htg|]. split; [exact I|]. split; cbn [fst snd]; nsd. }
    intros c1 Hc1. ret.
  - eapply psim_bind.
    { apply (Hev (TPI target (Some content) (s_pos s, s_pos s5)) c); [|exact Hc].
      cbn [TokI]. split; [exact Htg|]. split; [exact Hct|]. split; cbn [fst snd]; nsd. }
    intros c1 Hc1. ret.
Qed.

Lemma parse_misc_loop_ps : forall fu1 fu2 s c, (fu1 <= fu2)%nat -> SI hi s -> CI c ->
  psim PI shp (parse_misc_loop T1 C ev1 fu1 s c) (parse_misc_loop T2 C ev2 fu2 (Fh s) (fc c)).
Proof.
  induction fu1 as [|fu1 IH]; intros fu2 s c Hle H Hc; [exact I|].
  destruct fu2 as [|fu2]; [lia|]. cbn [parse_misc_loop]. rewrite (at_end_F S).
  destruct (at_end s); [ret|]. cbv zeta.
  destruct (skip_spaces_F S hi s H) as [E H']. rewrite E, !(starts_with_F S) by exact H'.
  destruct (starts_with (skip_spaces s) (b "<!--")).
  { eapply psim_bind; [apply parse_comment_ps; assumption|]. intros [s1 c1] [H1 Hc1]. apply IH; [lia|assumption..]. }
  destruct (starts_with (skip_spaces s) (b "<?")).
  { eapply psim_bind; [apply parse_pi_ps; assumption|]. intros [s1 c1] [H1 Hc1]. apply IH; [lia|assumption..]. }
  ret.
Qed.

Lemma parse_misc_ps s c : SI hi s -> CI c ->
  psim PI shp (parse_misc T1 C ev1 s c) (parse_misc T2 C ev2 (Fh s) (fc c)).
Proof.
  intros H Hc. unfold parse_misc. apply parse_misc_loop_ps; [|assumption..].
  pose proof (rest_len_le S hi s H). lia.
Qed.

Lemma parse_element_loop_ps : forall fu1 fu2 ts ts' s c, (fu1 <= fu2)%nat -> SI hi s -> CI c ->
  psim EI she (parse_element_loop T1 C ev1 fu1 ts s c) (parse_element_loop T2 C ev2 fu2 ts' (Fh s) (fc c)).
Proof.
  induction fu1 as [|fu1 IH]; intros fu2 ts ts' s c Hle H Hc; [exact I|].
  destruct fu2 as [|fu2]; [lia|]. cbn [parse_element_loop]. rewrite (at_end_F S).
  destruct (at_end s); [apply psim_same_err; reflexivity|]. cbv zeta.
  rewrite (starts_with_space_F S) by exact H.
  destruct (skip_spaces_F S hi s H) as [E H']. rewrite E, (s_pos_F S). set (s0 := skip_spaces s) in *.
  eapply psim_bind; [apply (curr_byte_ps S hi); exact H'|]. intros x _. unfold idf.
  destruct (x =? 47).
  { eapply psim_bind; [apply (advance_ps' S hi); exact H'|]. intros s1 H1. cbv beta.
    eapply psim_bind; [apply (consume_byte_ps S hi); exact H1|]. intros s2 H2. cbv beta. rewrite (s_pos_F S).
    eapply psim_bind.
    { apply (Hev (TElementEnd EEmpty (s_pos s0, s_pos s2)) c); [|exact Hc]. cbn [TokI]. split; [exact I|]. split; cbn [fst snd]; nsd. }
    intros c1 Hc1. ret. }
  destruct (x =? 62).
  { eapply psim_bind; [apply (advance_ps' S hi); exact H'|]. intros s1 H1. cbv beta. rewrite (s_pos_F S).
    eapply psim_bind.
    { apply (Hev (TElementEnd EOpen (s_pos s0, s_pos s1)) c); [|exact Hc]. cbn [TokI]. split; [exact I|]. split; cbn [fst snd]; nsd. }
    intros c1 Hc1. ret. }
  eapply psim_bind with (I := SI hi) (g := Fh).
  { destruct (starts_with_space s); [apply psim_ret; [exact H'|reflexivity]|apply (consume_spaces_ps S hi); exact H']. }
  intros s2 H2. cbv beta.
  eapply psim_bind; [apply (consume_qname_ps S hi); exact H2|]. intros [[prefix local] s3] (Hpf & Hlc & H3).
  cbn [ErrShiftSubStream.sh_qn fst snd] in *. cbv beta iota. rewrite (s_pos_F S).
  eapply psim_bind; [apply (consume_eq_ps S hi); exact H3|]. intros s4 H4. cbv beta. rewrite (s_pos_F S).
  eapply psim_bind; [apply (consume_quote_ps S hi); exact H4|]. intros [quote s5] H5. cbn [pmap fst snd idf] in *. cbv beta iota.
  rewrite (s_pos_F S).
  eapply psim_bind; [apply (advance_until2_ps S hi); exact H5|]. intros s6 H6. cbv beta.
  eapply psim_bind; [apply (slice_back_ps S hi); [nsd|exact H6]|]. intros value (Hval & Hvs & _). cbv beta.
  eapply psim_bind; [apply (is_xml_str_ps S hi); [exact Hval|symmetry; exact Hvs]|]. intros _ _.
  eapply psim_bind; [apply (consume_byte_ps S hi); exact H6|]. intros s7 H7. cbv beta. rewrite (s_pos_F S).
  replace (s_pos s3 + d - (s_pos s0 + d)) with (s_pos s3 - s_pos s0) by lia.
  replace (s_pos s4 + d - (s_pos s3 + d)) with (s_pos s4 - s_pos s3) by lia.
  eapply psim_bind.
  { apply (Hev (TAttribute (s_pos s0, s_pos s7) (N.min (s_pos s3 - s_pos s0) qname_len_sat)
                           (N.min (s_pos s4 - s_pos s3) eq_len_sat) prefix local value) c); [|exact Hc].
    cbn [TokI]. split; [split; cbn [fst snd]; nsd|]. auto. }
  intros c1 Hc1. apply IH; [lia|assumption..].
Qed.

Lemma parse_element_ps s c : SI hi s -> CI c ->
  psim EI she (parse_element T1 C ev1 s c) (parse_element T2 C ev2 (Fh s) (fc c)).
Proof.
  intros H Hc. unfold parse_element. cbv zeta. rewrite (s_pos_F S).
  pose proof (advance_ps S hi 1 s H) as HA. destruct (advance 1 s) as [s1| | |] eqn:E1; cbn in HA.
  2:{ destruct HA as [e' [-> He]]. cbn. eauto. }
  2:{ rewrite HA. reflexivity. }
  2:{ exact I. }
  destruct HA as [(H1 & Hp1 & _) ->]. cbn [bind].
  pose proof (consume_qname_ps S hi s1 H1) as HQ.
  destruct (consume_qname T1 s1) as [[[p l] s2]| | |] eqn:Eq; cbn in HQ.
  2:{ destruct HQ as [e' [-> He]]. cbn. eauto. }
  2:{ rewrite HQ. reflexivity. }
  2:{ exact I. }
  destruct HQ as [(Hpf & Hlc & H2) ->]. cbn [bind ErrShiftSubStream.sh_qn fst snd] in *.
  eapply psim_bind.
  { apply (Hev (TElementStart p l (s_pos s)) c); [|exact Hc]. cbn [TokI].
    split; [exact Hpf|]. split; [exact Hlc|]. split; [nsd|]. split.
    - eapply consume_qname_nonempty; exact Eq.
    - rewrite (consume_qname_prefix_start _ _ _ _ _ Eq). exact Hp1. }
  intros c1 Hc1. cbv beta. apply parse_element_loop_ps; [|assumption..].
  pose proof (rest_len_le S hi s2 H2). lia.
Qed.

Lemma parse_cdata_ps s c : SI hi s -> CI c ->
  psim PI shp (parse_cdata T1 C ev1 s c) (parse_cdata T2 C ev2 (Fh s) (fc c)).
Proof.
  intros H Hc. unfold parse_cdata. cbv zeta. rewrite (s_pos_F S).
  eapply psim_bind; [apply (advance_ps' S hi); exact H|]. intros s1 H1. cbv beta.
  eapply psim_bind; [apply (consume_chars_ps S hi); [|exact H1]|].
  { intros s0 ch H0. rewrite (starts_with_F S) by exact H0. reflexivity. }
  intros [txt s2] [Ht H2]. cbn [pmap fst snd] in *. cbv beta iota.
  eapply psim_bind; [apply (skip_string_ps S hi); exact H2|]. intros s3 H3. cbv beta. rewrite (s_pos_F S).
  eapply psim_bind.
  { apply (Hev (TCdata txt (s_pos s, s_pos s3)) c); [|exact Hc]. cbn [TokI]. split; [exact Ht|]. split; cbn [fst snd]; nsd. }
  intros c1 Hc1. ret.
Qed.

Lemma parse_close_element_ps s c : SI hi s -> CI c ->
  psim PI shp (parse_close_element T1 C ev1 s c) (parse_close_element T2 C ev2 (Fh s) (fc c)).
Proof.
  intros H Hc. unfold parse_close_element. cbv zeta. rewrite (s_pos_F S).
  eapply psim_bind; [apply (advance_ps' S hi); exact H|]. intros s1 H1. cbv beta.
  eapply psim_bind; [apply (consume_qname_ps S hi); exact H1|]. intros [[prefix local] s2] (Hpf & Hlc & H2).
  cbn [ErrShiftSubStream.sh_qn fst snd] in *. cbv beta iota.
  destruct (skip_spaces_F S hi s2 H2) as [E H2']. rewrite E.
  eapply psim_bind; [apply (consume_byte_ps S hi); exact H2'|]. intros s3 H3. cbv beta. rewrite (s_pos_F S).
  eapply psim_bind.
  { apply (Hev (TElementEnd (EClose prefix local) (s_pos s, s_pos s3)) c); [|exact Hc]. cbn [TokI].
    split; [split; assumption|]. split; cbn [fst snd]; nsd. }
  intros c1 Hc1. ret.
Qed.

Lemma parse_text_ps s c : SI hi s -> CI c ->
  psim PI shp (parse_text T1 C ev1 s c) (parse_text T2 C ev2 (Fh s) (fc c)).
Proof.
  intros H Hc. unfold parse_text. cbv zeta. rewrite (s_pos_F S).
  eapply psim_bind; [apply (consume_chars_ps S hi); [|exact H]|].
  { intros s0 ch H0. reflexivity. }
  intros [txt s2] [Ht H2]. cbn [pmap fst snd] in *. cbv beta iota.
  rewrite (slice_bytes_s S hi) by exact Ht.
  destruct (_ && _); [eat|]. rewrite (s_pos_F S).
  eapply psim_bind.
  { apply (Hev (TText txt (s_pos s, s_pos s2)) c); [|exact Hc]. cbn [TokI]. split; [exact Ht|]. split; cbn [fst snd]; nsd. }
  intros c1 Hc1. ret.
Qed.

Lemma parse_content_loop_ps : forall fu1 fu2 depth s c, (fu1 <= fu2)%nat -> SI hi s -> CI c ->
  psim PI shp (parse_content_loop T1 C ev1 fu1 depth s c) (parse_content_loop T2 C ev2 fu2 depth (Fh s) (fc c)).
Proof.
  induction fu1 as [|fu1 IH]; intros fu2 depth s c Hle H Hc; [exact I|].
  destruct fu2 as [|fu2]; [lia|]. cbn [parse_content_loop]. rewrite (at_end_F S).
  destruct (at_end s); [ret|].
  eapply psim_bind; [apply (curr_byte_unchecked_ps S hi); exact H|]. intros x _. unfold idf.
  destruct (x =? 60).
  2:{ eapply psim_bind; [apply parse_text_ps; assumption|]. intros [s1 c1] [H1 Hc1]. apply IH; [lia|assumption..]. }
  rewrite (next_byte_F S), !(starts_with_F S) by exact H.
  destruct (next_byte s) as [y|e|p|]; [|eat|reflexivity|exact I].
  destruct (y =? 33).
  { destruct (starts_with s (b "<!--")).
    { eapply psim_bind; [apply parse_comment_ps; assumption|]. intros [s1 c1] [H1 Hc1]. apply IH; [lia|assumption..]. }
    destruct (starts_with s (b "<![CDATA[")).
    { eapply psim_bind; [apply parse_cdata_ps; assumption|]. intros [s1 c1] [H1 Hc1]. apply IH; [lia|assumption..]. }
    eat. }
  destruct (y =? 63).
  { eapply psim_bind; [apply parse_pi_ps; assumption|]. intros [s1 c1] [H1 Hc1]. apply IH; [lia|assumption..]. }
  destruct (y =? 47).
  { eapply psim_bind; [apply parse_close_element_ps; assumption|]. intros [s1 c1] [H1 Hc1]. cbn [shp fst snd]. cbv beta iota.
    destruct (depth =? 0); [ret|apply IH; [lia|assumption..]]. }
  eapply psim_bind; [apply parse_element_ps; assumption|]. intros [[o s1] c1] [H1 Hc1]. cbn [she fst snd] in *.
  apply IH; [lia|assumption..].
Qed.

Lemma parse_content_ps s c : SI hi s -> CI c ->
  psim PI shp (parse_content T1 C ev1 s c) (parse_content T2 C ev2 (Fh s) (fc c)).
Proof.
  intros H Hc. unfold parse_content. apply parse_content_loop_ps; [|assumption..].
  pose proof (rest_len_le S hi s H). lia.
Qed.


(* ---- the declarations of the internal subset ---- *)
Lemma parse_external_literal_ps s : SI hi s ->
  psim (SI hi) Fh (parse_external_literal T1 s) (parse_external_literal T2 (Fh s)).
Proof.
  intros H. unfold parse_external_literal.
  eapply psim_bind; [apply (consume_quote_ps S hi); exact H|]. intros [q s1] H1. cbn [pmap fst snd] in *. unfold idf. cbv beta iota zeta.
  unfold consume_bytes. cbv zeta.
  rewrite (s_pos_F S). destruct (skip_bytes_F S hi (fun y => negb (y =? q)) s1 H1) as [E H2]. rewrite E.
  eapply psim_bind; [eapply psim_bind; [apply (slice_back_ps S hi); [nsd|exact H2]|]|].
  { intros v Hv. cbv beta. apply psim_ret with (g := pmap shl Fh) (I := fun x => (LS hi (fst x) /\ sl_start (fst x) = s_pos s1) /\ SI hi (snd x));
      [cbn [fst snd]; split; [split; apply Hv|exact H2]|reflexivity]. }
  intros [v s2] [[Hv Hv1] H2']. cbn [pmap fst snd] in *. cbv beta iota.
  eapply psim_bind; [apply (is_xml_str_ps S hi); [exact Hv|symmetry; exact Hv1]|]. intros u _. unfold idf.
  apply (consume_byte_ps S hi); exact H2'.
Qed.

Lemma parse_pubid_literal_ps s : SI hi s ->
  psim (SI hi) Fh (parse_pubid_literal T1 s) (parse_pubid_literal T2 (Fh s)).
Proof.
  intros H. unfold parse_pubid_literal.
  eapply psim_bind; [apply (consume_quote_ps S hi); exact H|]. intros [q s1] H1. cbn [pmap fst snd] in *. unfold idf. cbv beta iota zeta.
  destruct (skip_bytes_F S hi (fun y => negb (y =? q) && pubid_char y) s1 H1) as [E H2]. rewrite E.
  eapply psim_bind; [apply (curr_byte_ps S hi); exact H2|]. intros x _. unfold idf.
  destruct (negb (x =? q)); [eat|apply (advance_ps' S hi); exact H2].
Qed.

Lemma parse_external_id_ps s : SI hi s ->
  psim (fun x => SI hi (snd x)) (pmap idf Fh) (parse_external_id T1 s) (parse_external_id T2 (Fh s)).
Proof.
  intros H. unfold parse_external_id. rewrite !(starts_with_F S) by exact H.
  destruct (_ || _); [|apply psim_ret; [exact H|reflexivity]].
  cbv zeta. rewrite (s_pos_F S).
  eapply psim_bind; [apply (advance_ps' S hi); exact H|]. intros s1 H1. cbv beta.
  eapply psim_bind; [apply (slice_back_ps' S hi); [nsd|exact H1]|]. intros id Hid. cbv beta.
  eapply psim_bind; [apply (consume_spaces_ps S hi); exact H1|]. intros s2 H2. cbv beta.
  rewrite (slice_bytes_s S hi) by exact Hid.
  destruct (bytes_eqb _ _).
  { eapply psim_bind; [apply parse_external_literal_ps; exact H2|]. intros s3 H3. cbv beta.
    apply psim_ret; [exact H3|reflexivity]. }
  eapply psim_bind; [apply parse_pubid_literal_ps; exact H2|]. intros s5 H5. cbv beta.
  eapply psim_bind; [apply (consume_spaces_ps S hi); exact H5|]. intros s6 H6. cbv beta.
  eapply psim_bind; [apply parse_external_literal_ps; exact H6|]. intros s9 H9. cbv beta.
  apply psim_ret; [exact H9|reflexivity].
Qed.

Definition DefI (x : option slice * stream) : Prop :=
  match fst x with Some v => LS hi v | None => True end /\ SI hi (snd x).

Lemma parse_entity_def_ps s g : SI hi s ->
  psim DefI (pmap (option_map shl) Fh) (parse_entity_def T1 s g) (parse_entity_def T2 (Fh s) g).
Proof.
  intros H. unfold parse_entity_def.
  eapply psim_bind; [apply (curr_byte_ps S hi); exact H|]. intros x _. unfold idf.
  destruct (_ || _).
  - eapply psim_bind; [apply (consume_quote_ps S hi); exact H|]. intros [q s1] H1. cbn [pmap fst snd] in *. unfold idf. cbv beta iota zeta.
    rewrite (s_pos_F S). destruct (skip_bytes_F S hi (fun y => negb (y =? q)) s1 H1) as [E H2]. rewrite E.
    eapply psim_bind; [apply (slice_back_ps S hi); [nsd|exact H2]|]. intros v (Hv & Hv1 & Hv2). cbv beta.
    eapply psim_bind; [apply (is_xml_str_ps S hi); [exact Hv|symmetry; exact Hv1]|]. intros u _. unfold idf.
    eapply psim_bind; [apply (consume_byte_ps S hi); exact H2|]. intros s3 H3. cbv beta.
    apply psim_ret; [split; assumption|reflexivity].
  - destruct (_ || _); [|eat].
    eapply psim_bind; [apply parse_external_id_ps; exact H|]. intros [found s1] H1. cbn [pmap fst snd] in *. unfold idf. cbv beta iota.
    destruct found; [|eat].
    destruct g; [|apply psim_ret; [split; [exact I|exact H1]|reflexivity]].
    cbv zeta. rewrite (starts_with_space_F S) by exact H1.
    destruct (skip_spaces_F S hi s1 H1) as [E H2]. rewrite E, (starts_with_F S) by exact H2.
    destruct (starts_with _ _); [|apply psim_ret; [split; [exact I|exact H2]|reflexivity]].
    destruct (negb (starts_with_space s1)); [eat|].
    eapply psim_bind; [apply (advance_ps' S hi); exact H2|]. intros s3 H3. cbv beta.
    eapply psim_bind; [apply (consume_spaces_ps S hi); exact H3|]. intros s4 H4. cbv beta.
    eapply psim_bind; [apply (skip_name_ps S hi); exact H4|]. intros s5 H5. cbv beta.
    apply psim_ret; [split; [exact I|exact H5]|reflexivity].
Qed.

Lemma parse_entity_decl_ps s c : SI hi s -> CI c ->
  psim PI shp (parse_entity_decl T1 C ev1 s c) (parse_entity_decl T2 C ev2 (Fh s) (fc c)).
Proof.
  intros H Hc. unfold parse_entity_decl.
  eapply psim_bind; [apply (advance_ps' S hi); exact H|]. intros s1 H1. cbv beta.
  eapply psim_bind; [apply (consume_spaces_ps S hi); exact H1|]. intros s2 H2. cbv beta.
  destruct (try_consume_byte_F S hi 37 s2 H2) as [Et H3]. rewrite Et.
  destruct (try_consume_byte 37 s2) as [pe s3]. cbn [pmap fst snd] in *. unfold idf.
  eapply psim_bind with (I := SI hi) (g := Fh).
  { destruct pe; [apply (consume_spaces_ps S hi); exact H3|apply psim_ret; [exact H3|reflexivity]]. }
  intros s4 H4. cbv beta zeta.
  eapply psim_bind; [apply (consume_name_ps S hi); exact H4|]. intros [name s5] [Hn H5]. cbn [pmap fst snd] in *. cbv beta iota.
  eapply psim_bind; [apply (consume_spaces_ps S hi); exact H5|]. intros s6 H6. cbv beta.
  eapply psim_bind; [apply parse_entity_def_ps; exact H6|]. intros [def s7] [Hd H7]. cbn [pmap fst snd] in *. cbv beta iota.
  eapply psim_bind with (I := CI) (g := fc).
  { destruct def as [dv|]; cbn [option_map]; [|apply psim_ret; [exact Hc|reflexivity]].
    destruct (negb pe); [|apply psim_ret; [exact Hc|reflexivity]].
    apply (Hev (TEntityDecl name dv) c); [|exact Hc]. cbn [TokI]. split; assumption. }
  intros c1 Hc1. cbv beta zeta.
  destruct (skip_spaces_F S hi s7 H7) as [E H8]. rewrite E.
  eapply psim_bind; [apply (consume_byte_ps S hi); exact H8|]. intros s9 H9. cbv beta. ret.
Qed.

Lemma consume_decl_loop_ps : forall fu1 fu2 s, (fu1 <= fu2)%nat -> SI hi s ->
  psim (SI hi) Fh (consume_decl_loop T1 fu1 s) (consume_decl_loop T2 fu2 (Fh s)).
Proof.
  induction fu1 as [|fu1 IH]; intros fu2 s Hle H; [exact I|].
  destruct fu2 as [|fu2]; [lia|]. cbn [consume_decl_loop]. cbv zeta.
  destruct (skip_bytes_F S hi (fun x => negb (x =? 62) && negb (x =? 34) && negb (x =? 39)) s H) as [E H1]. rewrite E.
  eapply psim_bind; [apply (curr_byte_ps S hi); exact H1|]. intros c _. unfold idf.
  eapply psim_bind; [apply (advance_ps' S hi); exact H1|]. intros s2 H2. cbv beta.
  destruct (c =? 62); [apply psim_ret; [exact H2|reflexivity]|].
  destruct (skip_bytes_F S hi (fun y => negb (y =? c)) s2 H2) as [E3 H3]. rewrite E3.
  eapply psim_bind; [apply (consume_byte_ps S hi); exact H3|]. intros s4 H4. cbv beta.
  apply IH; [lia|exact H4].
Qed.

Lemma consume_decl_ps s : SI hi s -> psim (SI hi) Fh (consume_decl T1 s) (consume_decl T2 (Fh s)).
Proof.
  intros H. unfold consume_decl. apply consume_decl_loop_ps; [|exact H].
  pose proof (rest_len_le S hi s H). lia.
Qed.

Lemma dtd_body_ps loop1 loop2 start s c :
  (forall s c, SI hi s -> CI c -> psim PI shp (loop1 s c) (loop2 (Fh s) (fc c))) ->
  start < P -> SI hi s -> CI c ->
  psim PI shp (dtd_body T1 C ev1 loop1 start s c) (dtd_body T2 C ev2 loop2 start (Fh s) (fc c)).
Proof.
  intros Hl Hst H Hc. unfold dtd_body. rewrite !(starts_with_F S) by exact H.
  destruct (starts_with s (b "<!ENTITY")).
  { eapply psim_bind; [apply parse_entity_decl_ps; assumption|]. intros [s1 c1] [H1 Hc1]. apply Hl; assumption. }
  destruct (starts_with s (b "<!--")).
  { eapply psim_bind; [apply parse_comment_ps; assumption|]. intros [s1 c1] [H1 Hc1]. apply Hl; assumption. }
  destruct (starts_with s (b "<?")).
  { eapply psim_bind; [apply parse_pi_ps; assumption|]. intros [s1 c1] [H1 Hc1]. apply Hl; assumption. }
  destruct (starts_with s (b "]")).
  { eapply psim_bind; [apply (advance_ps' S hi); exact H|]. intros s1 H1. cbv beta zeta.
    destruct (skip_spaces_F S hi s1 H1) as [E H2]. rewrite E, (curr_byte_opt_F S) by exact H2.
    destruct (curr_byte_opt (skip_spaces s1)) as [x|]; [|apply psim_same_err; reflexivity].
    destruct (x =? 62); [|eat].
    eapply psim_bind; [apply (advance_ps' S hi); exact H2|]. intros s3 H3. cbv beta. ret. }
  destruct (_ || _); [|eat].
  pose proof (consume_decl_ps s H) as G.
  destruct (consume_decl T1 s) as [s1|e1|p1|]; cbn [ErrShiftSubBase.psim psim0] in G.
  - destruct G as [H1 ->]. apply Hl; assumption.
  - destruct G as (e' & -> & _). apply (err_from_ps S false); [pc|exact Hst|cbn [ErrShiftSubBase.dd]; lia].
  - rewrite G. reflexivity.
  - exact I.
Qed.

Lemma parse_doctype_loop_ps start : start < P -> forall fu1 fu2 s c, (fu1 <= fu2)%nat -> SI hi s -> CI c ->
  psim PI shp (parse_doctype_loop T1 C ev1 fu1 start s c) (parse_doctype_loop T2 C ev2 fu2 start (Fh s) (fc c)).
Proof.
  intros Hst. induction fu1 as [|fu1 IH]; intros fu2 s c Hle H Hc; [exact I|].
  destruct fu2 as [|fu2]; [lia|]. rewrite !dtd_loop_S. rewrite (at_end_F S).
  destruct (at_end s); [ret|].
  destruct (skip_spaces_F S hi s H) as [E H']. rewrite E.
  apply dtd_body_ps; try assumption. intros s1 c1 H1 Hc1. apply IH; [lia|assumption..].
Qed.

End Ent.
