(* Proofs/NonVacuity_C15.v -- non-vacuity of the hypotheses of the theorems pinned under C15 (OptionsMain.v),
   on the seven-node document of NonVacuity_Doc.v. *)
From Coq Require Import Ascii String List NArith Bool Lia.
Import ListNotations.
From RX Require Import Generated.
From RX.Model Require Import Base CharClass Stream Tokenizer Doc Builder Parse Api.
From RX.Proofs Require Import OptionsParam OptionsBuild OptionsMain OptionsDtd NonVacuity_Doc.
Open Scope N_scope.

Lemma parse0' : parse text0 (opts true 4294967295) = Ok d0.
Proof. exact parse0. Qed.

(* limit_caps / limit_above: the limit 7 = the number of nodes still succeeds, with the identical document *)
Example nv_limit_above : 7 <= 4294967295 /\ parse text0 (opts true 4294967295) = Ok d0 /\ len_N (d_nodes d0) <= 7.
Proof. split; [lia|]. split; [exact parse0'|]. rewrite nodes0. lia. Qed.
Example nv_limit_above_applied : parse text0 (opts true 7) = Ok d0.
Proof. destruct nv_limit_above as (H1 & H2 & H3). exact (limit_above _ _ _ _ _ H1 H2 H3). Qed.
Example nv_limit_caps_applied : len_N (d_nodes d0) <= 7.
Proof. exact (limit_caps _ _ _ _ nv_limit_above_applied). Qed.

(* limit_below: the limit 6 fails *)
Example nv_limit_below : 6 <= 4294967295 /\ parse text0 (opts true 4294967295) = Ok d0 /\ 6 < len_N (d_nodes d0).
Proof. split; [lia|]. split; [exact parse0'|]. rewrite nodes0. lia. Qed.
Example nv_limit_below_applied : parse text0 (opts true 6) = Err NodesLimitReached.
Proof. destruct nv_limit_below as (H1 & H2 & H3). exact (limit_below _ _ _ _ _ H1 H2 H3). Qed.

(* limit_error_persists: an error that is not the limit (an unknown entity, deep in the document) *)
Definition text_bad : bytes := b "<r xmlns:p='u' a='1'><p:c b='x'>t&nope;</p:c></r>".
Example nv_limit_error_persists :
  2 <= 100 /\ exists e, parse text_bad (opts false 100) = Err e /\ e <> NodesLimitReached.
Proof. split; [lia|]. eexists. split; [vm_compute; reflexivity|discriminate]. Qed.
Example nv_limit_error_persists_applied : exists e', parse text_bad (opts false 2) = Err e'.
Proof.
  destruct nv_limit_error_persists as (H1 & e & H2 & _). exact (limit_error_persists _ _ _ _ _ H1 H2).
Qed.
(* and the smaller limit changes WHICH error is reported: the statement cannot promise the same one *)
Example nv_limit_error_changes : parse text_bad (opts false 2) = Err NodesLimitReached.
Proof. vm_compute. reflexivity. Qed.
