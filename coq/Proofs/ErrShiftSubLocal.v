(* Proofs/ErrShiftSubLocal.v -- C14 (whitespace inserted inside the internal subset), part 2:
   locality of the prolog up to a head of the loop of the internal subset.  Continues
   ErrShiftDtdLocal.v: T1 = pre ++ X1, T2 = pre ++ X2, X2 begins with a whitespace byte; a run on
   T1 of the first parse_misc, of the DOCTYPE up to its '[' and of n rounds of the loop of the
   subset that ends at or before blen pre is repeated verbatim on T2. *)
From Coq Require Import Ascii String.
From Coq Require Import List Arith NArith Bool Lia ZifyBool ZifyN ZifyNat.
Import ListNotations.
From RX Require Import Generated.
From RX.Model Require Import Base CharClass Stream Tokenizer.
From RX.Proofs Require Import Tactics NoPanicUtf8 PositionProofs ErrShiftMidCont ErrShiftMidLocal ErrShiftDtdLocal
  ErrShiftSubCont.
Open Scope N_scope.

Section SubLocal.
Variable pre X1 X2 : bytes.
Hypothesis HX1 : head_ok X1.
Hypothesis HX2 : exists w r, X2 = w :: r /\ byte_is_space w = true.
Hypothesis HL : blen X1 <= blen X2.
Notation T1 := (pre ++ X1).
Notation T2 := (pre ++ X2).
Notation P := (blen pre).

Ltac inst_term L :=
  let H := fresh in
  first [pose proof (L pre X1 X2) as H | pose proof L as H];
  repeat match type of H with ?A -> _ => let a := fresh in assert (a : A) by assumption; specialize (H a); clear a end;
  exact H.

Let tlen1' := ltac:(inst_term tlen1).
Let at_end2' := ltac:(inst_term at_end2).
Let sw_true' := ltac:(inst_term sw_true).
Let sw_false' := ltac:(inst_term sw_false).
Let curr_byte_opt_same' := ltac:(inst_term curr_byte_opt_same).
Let advance1_ok' := advance1_ok pre X1.
Let advance2_ok' := ltac:(inst_term advance2_ok).
Let skip_bytes1' := ltac:(inst_term skip_bytes1).
Let fuel_le' := ltac:(inst_term fuel_le).
Let parse_comment_loc' := ltac:(inst_term parse_comment_loc).
Let parse_pi_loc' := ltac:(inst_term parse_pi_loc).
Let parse_entity_decl_loc' := ltac:(inst_term parse_entity_decl_loc).
Let consume_decl_loc' := ltac:(inst_term consume_decl_loc).
Let parse_doctype_start_loc' := ltac:(inst_term parse_doctype_start_loc).

Lemma sub_open_loc p start s4 : p <= tlen T1 -> sub_open T1 (cs T1 p) = Some (start, s4) ->
  exists p4, start = p /\ s4 = cs T1 p4 /\ p + 10 <= p4 /\ p4 <= tlen T1 /\
    (p4 <= P -> sub_open T2 (cs T2 p) = Some (p, cs T2 p4)).
Proof.
  intros Hp H. unfold sub_open in *.
  destruct (parse_doctype_start T1 (cs T1 p)) as [s1| | |] eqn:E1; try discriminate.
  destruct (parse_doctype_start_loc' p s1 Hp E1) as (p1 & -> & A1 & A2 & A3). cbv zeta in H.
  destruct (skip_bytes1' byte_is_space p1 A2) as (p2 & E2 & B1 & B2 & B3). unfold skip_spaces in *. rewrite E2 in H.
  destruct (match curr_byte_opt (cs T1 p2) with Some x => x =? 62 | None => false end) eqn:Ex; [discriminate|].
  destruct (advance 1 (cs T1 p2)) as [s3| | |] eqn:Ea; try discriminate. injection H as <- <-.
  pose proof Ea as Hadv. apply advance1_ok' in Ea. subst s3.
  rewrite cs_advance in Hadv. destruct (tlen T1 <? p2 + 1) eqn:E2'; [discriminate|]. clear Hadv.
  exists (p2 + 1). split; [reflexivity|]. split; [reflexivity|]. split; [lia|]. split; [lia|]. intros Hle.
  rewrite A3 by lia. cbv zeta. rewrite B3 by lia. rewrite curr_byte_opt_same' by lia. rewrite Ex.
  rewrite advance2_ok' by lia. reflexivity.
Qed.

Section Loops.
Variable C1 C2 : Type.
Variable ev1 : Tokenizer.token -> C1 -> res C1.
Variable ev2 : Tokenizer.token -> C2 -> res C2.
Variable R : N -> C1 -> C2 -> Prop.
Hypothesis Rmono : forall q q' c1 c2, q <= q' -> R q c1 c2 -> R q' c1 c2.
Hypothesis Htok : forall a e tok c1 c2 c1' q, q <= a -> tok_in2 a e tok -> R q c1 c2 -> ev1 tok c1 = Ok c1' ->
      exists c2', ev2 tok c2 = Ok c2' /\ R e c1' c2'.

Let Htok1' : forall a e tok c1 c2 c1' q, q <= a -> tok_in a e tok -> R q c1 c2 -> ev1 tok c1 = Ok c1' ->
      exists c2', ev2 tok c2 = Ok c2' /\ R e c1' c2'.
Proof. intros. eapply Htok; eauto. left. assumption. Qed.

Lemma dtd_steps_loc : forall n p c1 c2 s' c1', p <= tlen T1 -> R p c1 c2 ->
  dtd_steps T1 C1 ev1 n (cs T1 p) c1 = Some (s', c1') ->
  exists p', s' = cs T1 p' /\ p <= p' /\ p' <= tlen T1 /\
    (p' <= P -> exists c2', dtd_steps T2 C2 ev2 n (cs T2 p) c2 = Some (cs T2 p', c2') /\ R p' c1' c2').
Proof.
  induction n as [|n IH]; intros p c1 c2 s' c1' Hp HR H; cbn [dtd_steps] in H.
  { injection H as <- <-. exists p. split; [reflexivity|]. split; [lia|]. split; [exact Hp|].
    intros _. exists c2. split; [reflexivity|exact HR]. }
  destruct (at_end (cs T1 p)) eqn:Ea; [discriminate|]. cbv zeta in H.
  destruct (skip_bytes1' byte_is_space p Hp) as (p1 & E1 & L1 & L2 & E2). unfold skip_spaces in H. rewrite E1 in H.
  destruct (starts_with (cs T1 p1) (b "<!ENTITY")) eqn:Ee.
  { destruct (parse_entity_decl T1 C1 ev1 (cs T1 p1) c1) as [[s1 c1a]| | |] eqn:Hx; try discriminate. cbn [fst snd] in H.
    destruct (parse_entity_decl_loc' C1 ev1 p1 c1 s1 c1a L2 Hx) as (p2 & otok & -> & A1 & A2 & A3 & A5).
    assert (HT : exists c2a, match otok with Some tok => ev2 tok c2 | None => Ok c2 end = Ok c2a /\ R p2 c1a c2a).
    { destruct otok as [tok|].
      - destruct A3 as [Hent Hev]. apply (Htok p1 p2 tok c1 c2 c1a p L1); [right; split; [lia|exact Hent]|exact HR|exact Hev].
      - subst c1a. exists c2. split; [reflexivity|]. eapply Rmono; [|exact HR]. lia. }
    destruct HT as (c2a & Hev2 & HR2).
    destruct (IH p2 c1a c2a s' c1' A2 HR2 H) as (p' & -> & B1 & B2 & B3).
    exists p'. split; [reflexivity|]. split; [lia|]. split; [exact B2|]. intros Hle.
    destruct (B3 Hle) as (c2' & B4 & B5). exists c2'. split; [|exact B5].
    cbn [dtd_steps]. rewrite at_end2' by lia. cbv zeta. unfold skip_spaces. rewrite E2 by lia.
    rewrite (sw_true' p1 _ Ee) by (change (blen (b "<!ENTITY")) with 8; lia).
    rewrite (A5 ltac:(lia) C2 ev2 c2), Hev2. cbn [bind fst snd]. exact B4. }
  destruct (starts_with (cs T1 p1) (b "<!--")) eqn:Ec.
  { destruct (parse_comment T1 C1 ev1 (cs T1 p1) c1) as [[s1 c1a]| | |] eqn:Hx; try discriminate. cbn [fst snd] in H.
    destruct (parse_comment_loc' C1 ev1 p1 c1 s1 c1a L2 Hx) as (p2 & tok & -> & A1 & A2 & A3 & A4 & A5).
    destruct (Htok1' p1 p2 tok c1 c2 c1a p L1 A3 HR A4) as (c2a & Hev2 & HR2).
    destruct (IH p2 c1a c2a s' c1' A2 HR2 H) as (p' & -> & B1 & B2 & B3).
    exists p'. split; [reflexivity|]. split; [lia|]. split; [exact B2|]. intros Hle.
    destruct (B3 Hle) as (c2' & B4 & B5). exists c2'. split; [|exact B5].
    cbn [dtd_steps]. rewrite at_end2' by lia. cbv zeta. unfold skip_spaces. rewrite E2 by lia.
    rewrite (sw_false' p1 _ Ee) by (reflexivity || lia).
    rewrite (sw_true' p1 _ Ec) by (change (blen (b "<!--")) with 4; lia).
    rewrite (A5 ltac:(lia) C2 ev2 c2), Hev2. cbn [bind fst snd]. exact B4. }
  destruct (starts_with (cs T1 p1) (b "<?")) eqn:Eq.
  { destruct (parse_pi T1 C1 ev1 (cs T1 p1) c1) as [[s1 c1a]| | |] eqn:Hx; try discriminate. cbn [fst snd] in H.
    destruct (parse_pi_loc' C1 ev1 p1 c1 s1 c1a L2 Hx) as (p2 & tok & -> & A1 & A2 & A3 & A4 & _ & A5).
    destruct (Htok1' p1 p2 tok c1 c2 c1a p L1 A3 HR A4) as (c2a & Hev2 & HR2).
    destruct (IH p2 c1a c2a s' c1' A2 HR2 H) as (p' & -> & B1 & B2 & B3).
    exists p'. split; [reflexivity|]. split; [lia|]. split; [exact B2|]. intros Hle.
    destruct (B3 Hle) as (c2' & B4 & B5). exists c2'. split; [|exact B5].
    cbn [dtd_steps]. rewrite at_end2' by lia. cbv zeta. unfold skip_spaces. rewrite E2 by lia.
    rewrite (sw_false' p1 _ Ee), (sw_false' p1 _ Ec) by (reflexivity || lia).
    rewrite (sw_true' p1 _ Eq) by (change (blen (b "<?")) with 2; lia).
    rewrite (A5 ltac:(lia) C2 ev2 c2), Hev2. cbn [bind fst snd]. exact B4. }
  destruct (starts_with (cs T1 p1) (b "]")) eqn:Eb; [discriminate|].
  destruct (starts_with (cs T1 p1) (b "<!ELEMENT") || starts_with (cs T1 p1) (b "<!ATTLIST")
            || starts_with (cs T1 p1) (b "<!NOTATION")) eqn:Ed; [|discriminate].
  destruct (consume_decl T1 (cs T1 p1)) as [s1| | |] eqn:Ecd; try discriminate.
  destruct (consume_decl_loc' p1 s1 L2 Ecd) as (p2 & -> & A1 & A2 & Amin & A3).
  destruct (IH p2 c1 c2 s' c1' A2 (Rmono p p2 c1 c2 ltac:(lia) HR) H) as (p' & -> & B1 & B2 & B3).
  exists p'. split; [reflexivity|]. split; [lia|]. split; [exact B2|]. intros Hle.
  destruct (B3 Hle) as (c2' & B4 & B5). exists c2'. split; [|exact B5].
  cbn [dtd_steps]. rewrite at_end2' by lia. cbv zeta. unfold skip_spaces. rewrite E2 by lia.
  rewrite (sw_false' p1 _ Ee), (sw_false' p1 _ Ec), (sw_false' p1 _ Eq), (sw_false' p1 _ Eb) by (reflexivity || lia).
  assert (Ed2 : starts_with (cs T2 p1) (b "<!ELEMENT") || starts_with (cs T2 p1) (b "<!ATTLIST")
                || starts_with (cs T2 p1) (b "<!NOTATION") = true).
  { destruct (starts_with (cs T1 p1) (b "<!ELEMENT")) eqn:D1.
    - pose proof (Amin _ D1 eq_refl) as Hm. change (blen (b "<!ELEMENT")) with 9 in Hm.
      rewrite (sw_true' p1 _ D1) by (change (blen (b "<!ELEMENT")) with 9; lia). reflexivity.
    - rewrite (sw_false' p1 _ D1) by (reflexivity || lia). cbn [orb] in *.
      destruct (starts_with (cs T1 p1) (b "<!ATTLIST")) eqn:D2.
      + pose proof (Amin _ D2 eq_refl) as Hm. change (blen (b "<!ATTLIST")) with 9 in Hm.
        rewrite (sw_true' p1 _ D2) by (change (blen (b "<!ATTLIST")) with 9; lia). reflexivity.
      + rewrite (sw_false' p1 _ D2) by (reflexivity || lia). cbn [orb] in *.
        pose proof (Amin _ Ed eq_refl) as Hm. change (blen (b "<!NOTATION")) with 10 in Hm.
        rewrite (sw_true' p1 _ Ed) by (change (blen (b "<!NOTATION")) with 10; lia). reflexivity. }
  rewrite Ed2. rewrite A3 by lia. exact B4.
Qed.

End Loops.
End SubLocal.

(* ------------------------------------------------------------------ *)
(* the whole prolog up to the head of the loop: first the positions (with the run itself as its
   partner), then the run on T2 *)
Section SubPrologLoc.
Variable pre X1 X2 : bytes.
Hypothesis HX1 : head_ok X1.
Hypothesis HX2 : exists w r, X2 = w :: r /\ byte_is_space w = true.
Hypothesis HL : blen X1 <= blen X2.
Notation T1 := (pre ++ X1).
Notation T2 := (pre ++ X2).
Notation P := (blen pre).
Variable C1 C2 : Type.
Variable ev1 : Tokenizer.token -> C1 -> res C1.
Variable ev2 : Tokenizer.token -> C2 -> res C2.

Lemma sub_positions fu p2 c1 s3 c3 start s4 n sQ cQ : p2 <= tlen T1 ->
  parse_misc_loop T1 C1 ev1 fu (cs T1 p2) c1 = Ok (s3, c3) ->
  sub_open T1 (skip_spaces s3) = Some (start, s4) ->
  dtd_steps T1 C1 ev1 n s4 c3 = Some (sQ, cQ) ->
  exists p3 p3' p4 Q, s3 = cs T1 p3 /\ skip_spaces s3 = cs T1 p3' /\ start = p3' /\ s4 = cs T1 p4 /\ sQ = cs T1 Q /\
    p2 <= p3 /\ p3 <= p3' /\ p3' <= tlen T1 /\ p3' + 10 <= p4 /\ p4 <= Q /\ Q <= tlen T1.
Proof.
  intros Hp Hm Hop Hst.
  set (R0 := fun (_ : N) (a b' : C1) => a = b').
  assert (Rm : forall q q' (a b' : C1), q <= q' -> R0 q a b' -> R0 q' a b') by (intros; assumption).
  assert (Ht : forall a e tok (x1 x2 x1' : C1) (q0 : N), q0 <= a -> tok_in2 a e tok -> R0 q0 x1 x2 -> ev1 tok x1 = Ok x1' ->
               exists x2', ev1 tok x2 = Ok x2' /\ R0 e x1' x2').
  { intros a e tok x1 x2 x1' q0 _ _ <- Hev. exists x1'. split; [exact Hev|reflexivity]. }
  destruct (misc_loop_loc pre X1 X2 HX1 HX2 HL C1 C1 ev1 ev1 R0 Rm Ht fu fu p2 c1 c1 s3 c3 (le_n _) Hp eq_refl Hm)
    as (p3 & -> & A1 & A2 & _).
  destruct (skip_bytes1 pre X1 X2 HL byte_is_space p3 A2) as (p3' & E3 & B1 & B2 & _).
  unfold skip_spaces in *. rewrite E3 in Hop.
  destruct (sub_open_loc pre X1 X2 HX1 HX2 HL p3' start s4 B2 Hop) as (p4 & -> & -> & C1' & C2' & _).
  destruct (dtd_steps_loc pre X1 X2 HX1 HX2 HL C1 C1 ev1 ev1 R0 Rm Ht n p4 c3 c3 sQ cQ C2' eq_refl Hst)
    as (Q & -> & D1 & D2 & _).
  exists p3, p3', p4, Q. repeat split; auto.
Qed.

Variable R : N -> C1 -> C2 -> Prop.
Hypothesis Rmono : forall q q' c1 c2, q <= q' -> R q c1 c2 -> R q' c1 c2.
Hypothesis Htok : forall a e tok c1 c2 c1' q, q <= a -> tok_in2 a e tok -> R q c1 c2 -> ev1 tok c1 = Ok c1' ->
      exists c2', ev2 tok c2 = Ok c2' /\ R e c1' c2'.

Lemma sub_prolog_loc fu1 fu2 p2 p3 p3' p4 Q c1 c2 c3 n cQ : (fu1 <= fu2)%nat -> p2 <= tlen T1 ->
  parse_misc_loop T1 C1 ev1 fu1 (cs T1 p2) c1 = Ok (cs T1 p3, c3) ->
  skip_spaces (cs T1 p3) = cs T1 p3' ->
  starts_with (cs T1 p3') (b "<!DOCTYPE") = true ->
  sub_open T1 (cs T1 p3') = Some (p3', cs T1 p4) ->
  dtd_steps T1 C1 ev1 n (cs T1 p4) c3 = Some (cs T1 Q, cQ) ->
  p3 <= p3' -> p3' + 10 <= p4 -> p4 <= Q -> Q <= P -> P < tlen T1 ->
  R p2 c1 c2 ->
  exists c32 cQ2,
    parse_misc_loop T2 C2 ev2 fu2 (cs T2 p2) c2 = Ok (cs T2 p3, c32) /\
    skip_spaces (cs T2 p3) = cs T2 p3' /\
    starts_with (cs T2 p3') (b "<!DOCTYPE") = true /\
    sub_open T2 (cs T2 p3') = Some (p3', cs T2 p4) /\
    dtd_steps T2 C2 ev2 n (cs T2 p4) c32 = Some (cs T2 Q, cQ2) /\
    R Q cQ cQ2.
Proof.
  intros Hfu Hp Hm Hsk Hsw Hop Hst I1 I2 I3 I4 I5 HR.
  destruct (misc_loop_loc pre X1 X2 HX1 HX2 HL C1 C2 ev1 ev2 R Rmono Htok fu1 fu2 p2 c1 c2 _ c3 Hfu Hp HR Hm)
    as (p3x & E3 & A1 & A2 & A3).
  assert (p3x = p3) by (apply (f_equal s_pos) in E3; cbn in E3; lia). subst p3x.
  destruct (A3 ltac:(lia)) as (c32 & M1 & M2).
  destruct (skip_bytes1 pre X1 X2 HL byte_is_space p3 A2) as (p3y & E4 & B1 & B2 & B3).
  unfold skip_spaces in *. rewrite Hsk in E4.
  assert (p3y = p3') by (apply (f_equal s_pos) in E4; cbn in E4; lia). subst p3y.
  destruct (sub_open_loc pre X1 X2 HX1 HX2 HL p3' _ _ B2 Hop) as (p4x & _ & E5 & C1' & C2' & C3').
  assert (p4x = p4) by (apply (f_equal s_pos) in E5; cbn in E5; lia). subst p4x.
  destruct (dtd_steps_loc pre X1 X2 HX1 HX2 HL C1 C2 ev1 ev2 R Rmono Htok n p4 c3 c32 _ cQ C2'
              (Rmono p3 p4 c3 c32 ltac:(lia) M2) Hst) as (Qx & E6 & D1 & D2 & D4).
  assert (Qx = Q) by (apply (f_equal s_pos) in E6; cbn in E6; lia). subst Qx.
  destruct (D4 I4) as (cQ2 & O1 & O2).
  exists c32, cQ2. split; [exact M1|]. split; [apply B3; lia|]. split.
  { apply (sw_true pre X1 X2 HL p3' _ Hsw). change (blen (b "<!DOCTYPE")) with 9. lia. }
  split; [apply C3'; lia|]. split; [exact O1|exact O2].
Qed.

End SubPrologLoc.
