(* Proofs/CstSound6Val.v -- C08 soundness on stage S6: a literal that the crate's content tokenizer accepts with
   balanced tags ([markup_ok], Proofs/CstSound6.v) and that contains no '&' is the rendering of a list
   of items that are well formed for Spec/CstFullS6.v inside an entity value ([wf_uitem_s true],
   [no_adjacent_text]): the value of an XContent declaration.  This discharges [ValOK] of
   Proofs/CstSound6uLex.v.  The run of parse_content_loop with the callback bal_ev is inverted with
   the lemmas of Proofs/CstSound6Lex.v on the range of the literal. *)
From Coq Require Import String.
From Coq Require Import List Arith NArith Bool Lia ZifyBool ZifyN ZifyNat.
Import ListNotations.
From RX Require Import Generated.
From RX.Model Require Import Base CharClass Stream Tokenizer.
From RX.Spec Require Cst Chars CstU CstNs CstEnt.
From RX.Spec Require Import CstFull CstFullS4 CstFullS5 CstFullS6.
From RX.Proofs Require Import Tactics CstLex CstULex.
From RX.Proofs Require RejectProofs CstEntCLex CstFullS4Lex CstFullTree CstFullS6Text CstSoundBuild.
From RX.Proofs Require Import CstSound CstSoundLex CstSoundU CstSoundULex CstSoundT CstSoundTLex CstSoundTText CstSoundTMain CstSoundN CstSoundNLex CstSoundNText CstSoundNMain.
From RX.Proofs Require Import CstSoundP CstSoundPLex CstSoundPRef CstSoundPRMain.
From RX.Proofs Require Import CstSound6 CstSound6Lex CstSound6U CstSound6uLex CstSound6uDtd.
Open Scope N_scope.

Notation uitem := (item epieces).

(* ---- pieces of a text token / an attribute value without '&' ---- *)
Definition litp (cs : list N) : list E.epiece := match cs with [] => [] | _ => [E.EP (T.PLit cs)] end.
Lemma r_litp cs : E.r_epieces (enc_epieces (litp cs)) = utf8s cs.
Proof. destruct cs; [reflexivity|]. cbn [litp enc_epieces map enc_epiece enc_piece E.r_epieces flat_map E.r_epiece T.r_piece]. apply app_nil_r. Qed.

Lemma ulit_plain q cs : uchars cs -> Forall (fun x => x <> 60 /\ x <> q) cs -> Forall (fun y => y <> 38) (utf8s cs) -> cs <> [] ->
  wf_ulit q cs = true.
Proof.
  intros Hu Hb H38 Hne. unfold wf_ulit. destruct cs as [|x0 l0]; [congruence|]. cbn [andb].
  pose proof (uchars_xml _ Hu) as Hx. pose proof (scalars_ne 38 _ ltac:(lia) H38) as N38.
  apply forallb_forall. intros y Hy. rewrite forallb_forall in Hx. rewrite Forall_forall in Hb, N38.
  rewrite (Hx y Hy). destruct (Hb y Hy). specialize (N38 y Hy). cbn [andb]. lia.
Qed.

Lemma wf_entry6 a : rattr_ok a -> Forall (fun y => y <> 38) (utf8s (ra_val a)) ->
  wf_uentry_s true (entry_of_r a (litp (ra_val a))) = true.
Proof.
  intros (H1 & (Hpre & Hloc) & H3 & H4 & H5 & Hu & Hb) H38.
  assert (Hlay : wf_layout_s (lay_of a) = true).
  { unfold wf_layout_s, lay_of. cbn [CstNs.l_ws CstNs.l_ws1 CstNs.l_ws2 CstNs.l_quote].
    assert (Hw : Cst.wf_ws (ra_ws a) = true) by (unfold Cst.wf_ws1 in H1; destruct (ra_ws a); [discriminate|exact H1]).
    rewrite (ws_s1 _ Hw), (ws_s _ H3), (ws_s _ H4); [|destruct (ra_ws a); [discriminate H1|discriminate]]. unfold is_quote. cbn [andb]. lia. }
  assert (Hv : wf_uepieces (ra_quote a) false false true (litp (ra_val a)) = true).
  { unfold wf_uepieces, litp. destruct (ra_val a) as [|x v] eqn:Ev; [reflexivity|]. cbn [forallb wf_uepiece wf_uvpiece E.charref_ok_in_value E.no_adjacent_elit andb].
    rewrite (ulit_plain (ra_quote a) (x :: v) Hu Hb H38 ltac:(discriminate)). reflexivity. }
  unfold wf_uentry_s, entry_of_r. cbv zeta.
  destruct (bytes_eqb (utf8s (ra_pre a)) CstNs.xmlns_b).
  - cbn [e_layout e_value]. rewrite Hlay. cbn [lay_of CstNs.l_quote]. rewrite Hv. cbn [andb]. destruct (ra_loc a); [reflexivity|exact Hloc].
  - assert (Ha : wf_layout_s (e_layout epieces (@EAttr epieces (lay_of a) (mkq (ra_pre a) (ra_loc a)) (litp (ra_val a)))) &&
                 wf_uepieces (CstNs.l_quote (e_layout epieces (@EAttr epieces (lay_of a) (mkq (ra_pre a) (ra_loc a)) (litp (ra_val a))))) false false true
                   (e_value epieces (@EAttr epieces (lay_of a) (mkq (ra_pre a) (ra_loc a)) (litp (ra_val a)))) &&
                 wf_qname (mkq (ra_pre a) (ra_loc a)) = true).
    { cbn [e_layout e_value]. rewrite Hlay. cbn [lay_of CstNs.l_quote]. rewrite Hv. cbn [andb]. apply wf_qname_intro. split; assumption. }
    destruct (utf8s (ra_pre a)); [|exact Ha].
    destruct (bytes_eqb (utf8s (ra_loc a)) CstNs.xmlns_b); [|exact Ha].
    cbn [e_layout e_value]. rewrite Hlay. cbn [lay_of CstNs.l_quote]. rewrite Hv. reflexivity.
Qed.

Definition ents_of (attrs : list rattr) : list (entry epieces) := map (fun a => entry_of_r a (litp (ra_val a))) attrs.
Lemma r_ents attrs : Forall rattr_ok attrs -> flat_map r_entry (ents_of attrs) = flat_map r_rattr attrs.
Proof.
  induction 1 as [|a r Ha _ IH]; [reflexivity|]. cbn [ents_of map flat_map]. fold (ents_of r). rewrite IH.
  rewrite (entry_of_render_r a (litp (ra_val a)) Ha (eq_sym (r_litp _))). reflexivity.
Qed.
Lemma wf_ents attrs : Forall rattr_ok attrs -> Forall (fun y => y <> 38) (flat_map r_rattr attrs) ->
  forallb (wf_uentry_s true) (ents_of attrs) = true.
Proof.
  induction 1 as [|a r Ha _ IH]; intros H38; [reflexivity|]. cbn [flat_map] in H38. apply Forall_app in H38. destruct H38 as [Ha38 Hr38].
  cbn [ents_of map forallb]. fold (ents_of r). rewrite (IH Hr38), andb_true_r. apply wf_entry6; [exact Ha|].
  unfold r_rattr in Ha38. do 6 (apply Forall_app in Ha38; destruct Ha38 as [_ Ha38]). apply Forall_app in Ha38. tauto.
Qed.

(* ---- levels ---- *)
Definition fqb (f : bytes * bytes) : bytes := CstNs.r_qname {| CstNs.q_prefix := fst f; CstNs.q_local := snd f |}.
Definition lvl : Type := (list uitem * bytes)%type.
Fixpoint r_lv (fs : list (bytes * bytes)) (lv : list lvl) (last : list uitem) : bytes :=
  match fs, lv with
  | f :: fs', (cs, w) :: lv' => X4.r_uitems cs ++ [60; 47] ++ fqb f ++ w ++ [62] ++ r_lv fs' lv' last
  | _, _ => X4.r_uitems last
  end.
Definition items_ok (cs : list uitem) : Prop := forallb (wf_uitem_s true) cs = true /\ no_adjacent_text epieces cs = true.
Definition first_of (lv : list lvl) (last : list uitem) : list uitem := match lv with (cs, _) :: _ => cs | [] => last end.
Definition head_ok6 (cs : list uitem) : Prop := match cs with IText (p :: _) :: _ => E.is_elit p = false | _ => True end.
Definition Res6 (stk : list (bytes * bytes)) (l : bytes) : Prop :=
  exists lv last, length lv = length stk /\ l = r_lv stk lv last /\
    Forall (fun cw : lvl => items_ok (fst cw) /\ Cst.wf_ws (snd cw) = true) lv /\ items_ok last /\
    (text_stop l -> head_ok6 (first_of lv last)).

Lemma r_uitems_items cs : X4.r_uitems cs = @CstFullTree.r_items epieces cs.
Proof. induction cs as [|c r IH]; [reflexivity|]. cbn [X4.r_uitems flat_map CstFullTree.r_items]. unfold X4.r_uitems in IH. rewrite IH. reflexivity. Qed.

(* change the first list *)
Definition upd_first (g : list uitem -> list uitem) (lv : list lvl) (last : list uitem) : list lvl * list uitem :=
  match lv with (cs, w) :: lv' => ((g cs, w) :: lv', last) | [] => ([], g last) end.

Lemma Res6_upd stk l1 pre (g : list uitem -> list uitem) :
  (forall cs, X4.r_uitems (g cs) = pre ++ X4.r_uitems cs) ->
  Res6 stk l1 ->
  (forall cs, items_ok cs -> (text_stop l1 -> head_ok6 cs) -> items_ok (g cs)) ->
  (forall cs, text_stop (pre ++ l1) -> head_ok6 (g cs)) ->
  Res6 stk (pre ++ l1).
Proof.
  intros Hr (lv & last & E1 & E2 & E3 & E4 & E5) Hok Hhd.
  destruct lv as [|[cs w] lv'].
  - destruct stk; [|discriminate]. exists [], (g last). split; [reflexivity|]. split; [cbn [r_lv] in *; rewrite Hr, E2; reflexivity|].
    split; [constructor|]. split; [apply Hok; [exact E4|exact E5]|]. intros Hs. apply Hhd. exact Hs.
  - destruct stk as [|f fs]; [discriminate|]. exists ((g cs, w) :: lv'), last. split; [exact E1|]. split.
    { cbn [r_lv] in *. rewrite Hr, E2, <- !app_assoc. reflexivity. }
    inversion E3 as [|? ? [A1 A2] A3]; subst. cbn [fst snd] in *. split; [constructor; [split; [apply Hok; [exact A1|exact E5]|exact A2]|exact A3]|].
    split; [exact E4|]. intros Hs. apply Hhd. exact Hs.
Qed.

(* a non-text item in front *)
Lemma Res6_item stk (i : uitem) l1 : Res6 stk l1 -> wf_uitem_s true i = true -> is_text epieces i = false ->
  Res6 stk (r_item i ++ l1).
Proof.
  intros HR Hwf Htx. apply (Res6_upd stk l1 (r_item i) (fun cs => i :: cs)); [reflexivity|exact HR| |].
  - intros cs [A B0] _. split; [cbn [forallb]; rewrite Hwf, A; reflexivity|].
    destruct cs as [|c0 r]; [reflexivity|].
    change (no_adjacent_text epieces (i :: c0 :: r)) with (negb (is_text epieces i && is_text epieces c0) && no_adjacent_text epieces (c0 :: r)).
    rewrite B0, Htx. reflexivity.
  - intros cs _. destruct i; try exact I. discriminate.
Qed.

Lemma wf_cons_text6 ps cs : forallb (wf_uepiece 60 true true true) ps = true -> E.no_adjacent_elit ps = true -> ps <> [] ->
  forallb (wf_uitem_s true) cs = true ->
  (forall qs r, cs = IText qs :: r -> E.no_adjacent_elit (ps ++ qs) = true) ->
  forallb (wf_uitem_s true) (cons_text_r ps cs) = true.
Proof.
  intros A B0 C0 Hc Hm.
  assert (W1 : wf_uitem_s true (@IText epieces ps) = true).
  { cbn [wf_uitem_s]. unfold wf_uepieces. rewrite A, B0. destruct ps; [congruence|reflexivity]. }
  destruct cs as [|[n a w bd|qs|bs|t s v] r]; cbn [cons_text_r forallb] in *; try (rewrite W1; exact Hc).
  apply andb_true_iff in Hc. destruct Hc as [Hq Hr]. rewrite Hr, andb_true_r.
  cbn [wf_uitem_s] in Hq |- *. apply andb_true_iff in Hq. destruct Hq as [_ Hq]. unfold wf_uepieces in Hq |- *.
  apply andb_true_iff in Hq. destruct Hq as [Q1 _]. rewrite forallb_app, A, Q1, (Hm qs r eq_refl). destruct ps; [congruence|reflexivity].
Qed.

Lemma itext_no_adj qs : wf_uitem_s true (@IText epieces qs) = true -> E.no_adjacent_elit qs = true.
Proof. cbn [wf_uitem_s]. unfold wf_uepieces. intros H. apply andb_true_iff in H. destruct H as [_ H]. apply andb_true_iff in H. tauto. Qed.

(* a text fragment in front *)
Lemma Res6_frag stk ps l1 : Res6 stk l1 ->
  forallb (wf_uepiece 60 true true true) ps = true -> E.no_adjacent_elit ps = true -> ps <> [] ->
  (text_stop l1 \/ match ps with [E.EP (T.PCData _)] => True | _ => False end) ->
  (text_stop (E.r_epieces (enc_epieces ps) ++ l1) -> match ps with q :: _ => E.is_elit q = false | [] => True end) ->
  Res6 stk (E.r_epieces (enc_epieces ps) ++ l1).
Proof.
  intros HR A B0 C0 Hjoin Hhd.
  apply (Res6_upd stk l1 _ (cons_text_r ps)); [|exact HR| |].
  - intros cs. rewrite !r_uitems_items. apply r_cons_text_r.
  - intros cs [X Y] Hh. split; [|apply no_adj_text_cons_text_r; exact Y].
    apply wf_cons_text6; try assumption. intros qs r -> .
    assert (Hq : E.no_adjacent_elit qs = true) by (cbn [forallb] in X; apply andb_true_iff in X; apply itext_no_adj; apply X).
    destruct Hjoin as [Hst|Hcd].
    + specialize (Hh Hst). cbn [head_ok6] in Hh. apply CstSoundPRMain.no_adj_elit_app; [exact B0|exact Hq|]. destruct qs; [exact I|exact Hh].
    + destruct ps as [|[[| | |c]|] [|? ?]]; try contradiction. cbn [app]. destruct qs as [|q qs']; [reflexivity|].
      change (negb (false && E.is_elit q) && E.no_adjacent_elit (q :: qs') = true). exact Hq.
  - intros cs Hs. specialize (Hhd Hs). destruct ps as [|q ps']; [congruence|].
    destruct cs as [|[n0 a0 w0 bd|qs|bs|t s v] r]; cbn [cons_text_r head_ok6 app]; exact Hhd.
Qed.

Lemma fqb_rq pre loc : fqb (utf8s pre, utf8s loc) = rq pre loc.
Proof. unfold fqb. cbn [fst snd]. change (CstNs.r_qname {| CstNs.q_prefix := utf8s pre; CstNs.q_local := utf8s loc |}) with (r_qname (mkq pre loc)). apply rq_eq. Qed.

Lemma Res6_nest stk pre loc attrs ws_end l1 : Res6 ((utf8s pre, utf8s loc) :: stk) l1 ->
  qn_ok pre loc -> Forall rattr_ok attrs -> Forall (fun y => y <> 38) (flat_map r_rattr attrs) -> Cst.wf_ws ws_end = true ->
  Res6 stk ([60] ++ rq pre loc ++ flat_map r_rattr attrs ++ ws_end ++ [62] ++ l1).
Proof.
  intros (lv & last & E1 & E2 & E3 & E4 & E5) Hname Hattrs H38 Hwe.
  destruct lv as [|[cs_in w_in] lv1]; [discriminate|]. cbn [length] in E1. injection E1 as E1.
  inversion E3 as [|? ? [[A1 A2] A3] A4]; subst. cbn [fst snd] in *.
  remember (IElem (mkq pre loc) (ents_of attrs) ws_end (Some (cs_in, w_in))) as it eqn:Eit.
  assert (Hwf : wf_uitem_s true it = true).
  { rewrite Eit. rewrite CstFullS6Text.wf_uitem_elem, (wf_qname_intro _ _ Hname), (wf_ents attrs Hattrs H38), (ws_s _ Hwe), (ws_s _ A3), A2.
    rewrite <- CstFullS6Text.wf_uitems_forallb. exact A1. }
  assert (Er : r_item it = [60] ++ rq pre loc ++ flat_map r_rattr attrs ++ ws_end ++ [62] ++ X4.r_uitems cs_in ++ [60; 47] ++ rq pre loc ++ w_in ++ [62]).
  { rewrite Eit. rewrite CstFullTree.r_item_elem. rewrite rq_eq. rewrite (r_ents attrs Hattrs).
    replace (X4.r_uitems cs_in) with (@CstFullTree.r_items epieces cs_in) by (symmetry; apply r_uitems_items). reflexivity. }
  cbn [r_lv]. rewrite fqb_rq.
  replace ([60] ++ rq pre loc ++ flat_map r_rattr attrs ++ ws_end ++ [62] ++ X4.r_uitems cs_in ++ [60; 47] ++ rq pre loc ++ w_in ++ [62] ++ r_lv stk lv1 last)
    with (r_item it ++ r_lv stk lv1 last) by (rewrite Er, <- !app_assoc; reflexivity).
  destruct lv1 as [|[cs w] lv'].
  - destruct stk; [|discriminate]. exists [], (it :: last). split; [reflexivity|]. split; [reflexivity|]. split; [constructor|]. split.
    + destruct E4 as [X Y]. split; [cbn [forallb]; rewrite Hwf, X; reflexivity|]. destruct last as [|c0 r]; [reflexivity|].
      change (no_adjacent_text epieces (it :: c0 :: r)) with (negb (is_text epieces it && is_text epieces c0) && no_adjacent_text epieces (c0 :: r)). rewrite Y, Eit. reflexivity.
    + intros _. rewrite Eit. exact I.
  - destruct stk as [|f fs]; [discriminate|]. exists ((it :: cs, w) :: lv'), last. split; [cbn [length] in *; lia|]. split; [cbn [r_lv X4.r_uitems flat_map]; rewrite <- !app_assoc; reflexivity|].
    apply Forall_cons_iff in A4. destruct A4 as [[[B1 B2] B3] B4]. cbn [fst snd] in B1, B2, B3. split.
    + constructor; [|exact B4]. cbn [fst snd]. split; [|exact B3]. split; [cbn [forallb]; rewrite Hwf, B1; reflexivity|]. destruct cs as [|c0 r]; [reflexivity|].
      change (no_adjacent_text epieces (it :: c0 :: r)) with (negb (is_text epieces it && is_text epieces c0) && no_adjacent_text epieces (c0 :: r)). rewrite B2, Eit. reflexivity.
    + split; [exact E4|]. intros _. rewrite Eit. exact I.
Qed.

Lemma Res6_empty stk pre loc attrs ws_end l1 : Res6 stk l1 ->
  qn_ok pre loc -> Forall rattr_ok attrs -> Forall (fun y => y <> 38) (flat_map r_rattr attrs) -> Cst.wf_ws ws_end = true ->
  Res6 stk ([60] ++ rq pre loc ++ flat_map r_rattr attrs ++ ws_end ++ [47; 62] ++ l1).
Proof.
  intros HR Hname Hattrs H38 Hwe.
  pose proof (Res6_item stk (IElem (mkq pre loc) (ents_of attrs) ws_end None) l1 HR) as H.
  rewrite CstFullTree.r_item_elem, rq_eq, (r_ents attrs Hattrs) in H. rewrite <- !app_assoc in H. apply H; [|reflexivity].
  rewrite CstFullS6Text.wf_uitem_elem, (wf_qname_intro _ _ Hname), (wf_ents attrs Hattrs H38), (ws_s _ Hwe). reflexivity.
Qed.

Lemma Res6_close f stk ws2 l1 : Res6 stk l1 -> Cst.wf_ws ws2 = true -> Res6 (f :: stk) ([60; 47] ++ fqb f ++ ws2 ++ [62] ++ l1).
Proof.
  intros (lv & last & E1 & E2 & E3 & E4 & E5) Hw. exists (([], ws2) :: lv), last. split; [cbn [length]; lia|]. split.
  { cbn [r_lv X4.r_uitems flat_map app]. rewrite E2. reflexivity. }
  split; [constructor; [split; [split; reflexivity|exact Hw]|exact E3]|]. split; [exact E4|]. intros _. exact I.
Qed.

Lemma Res6_base : Res6 [] [].
Proof. exists [], []. split; [reflexivity|]. split; [reflexivity|]. split; [constructor|]. split; [split; reflexivity|]. intros _. exact I. Qed.

(* ---- the run ---- *)
Section Run.
Variable text : bytes.
Hypothesis HF : FragL text.
Variable en : N.
Variable tl : bytes.
Notation st := (CstEntCLex.st en tl).
Notation W := (CstEntCLex.W text en tl).
Notation WV := (CstSound6Lex.WV text en tl).
Notation bev := (bal_ev text).
Hypothesis Hxml : forall p r, W p r -> 3 < p -> xml_at r = true.

Lemma evs_attrs_bal : forall attrs q s, evs bst bev (nattr_toks q attrs) s = Ok s.
Proof. induction attrs as [|a r IH]; intros q s; cbn [nattr_toks evs]; [reflexivity|]. unfold nattr_tok. cbv zeta. cbn [bal_ev bind]. apply IH. Qed.

Lemma content_bal : forall fuel depth p l c s' c' stk,
  WV p l -> 3 < p -> Forall (fun y => y <> 38) l -> c = (None, stk) -> N.of_nat (length stk) = depth ->
  parse_content_loop text bst bev fuel depth (st p l) c = Ok (s', c') -> c' = (None, []) ->
  Res6 stk l.
Proof.
  induction fuel as [|fu IH]; intros depth p l c s' c' stk HWV Hp3 H38 Hc Hlen H HcF; cbn [parse_content_loop] in H; [noerr|].
  pose proof (CstSound6Lex.WV_W _ _ _ _ _ HWV) as HW.
  rewrite (CstEntCLex.at_end_st text en tl) in H by exact HW.
  destruct l as [|x l0].
  { injection H as _ <-. assert (stk = []) by congruence. subst stk. apply Res6_base. }
  rewrite cbu_st in H. cbn [bind] in H.
  destruct (x =? 60) eqn:E60.
  2:{ (* a text token *)
    ib H q Hq. destruct q as [s1 c1].
    destruct (inv_text_g text en tl bst bev _ _ _ _ _ _ HWV ltac:(lia) Hq) as (cs & l1 & El & Hraw & Hstop & -> & HW1 & Hev).
    cbn [bal_ev] in Hev. injection Hev as <-. rewrite El in H38. apply Forall_app in H38. destruct H38 as [Ha Hb].
    pose proof (IH _ _ _ _ _ _ _ HW1 ltac:(lia) Hb Hc Hlen H HcF) as HR. rewrite El.
    destruct Hraw as (Hne & Hu & H60 & Hcc).
    pose proof (Res6_frag stk (litp cs) l1 HR) as HP. rewrite r_litp in HP. apply HP.
    - destruct cs as [|c0 cr]; [congruence|]. cbn [litp forallb wf_uepiece wf_utpiece wf_uvpiece E.charref_ok_in_value andb].
      assert (Hbb : Forall (fun y => y <> 60 /\ y <> 60) (c0 :: cr)) by (eapply Forall_impl; [|exact H60]; cbv beta; auto).
      rewrite (ulit_plain 60 (c0 :: cr) Hu Hbb Ha ltac:(discriminate)). cbn [andb]. rewrite contains_eq. change T.cdata_close with [93; 93; 62]. rewrite Hcc. reflexivity.
    - destruct cs; reflexivity.
    - destruct cs; [congruence|discriminate].
    - left. exact Hstop.
    - intros Hs. exfalso. rewrite <- El in Hs. cbn [text_stop] in Hs. lia. }
  assert (x = 60) by lia. subst x.
  destruct l0 as [|y l1].
  { exfalso. unfold next_byte in H. cbn [CstEntCLex.st s_pos s_end s_rest] in H. destruct HW as [_ HW]. rewrite blen_cons, blen_nil in HW.
    replace (en <=? p + 1) with true in H by lia. noerr. }
  rewrite (CstEntCLex.next_byte_st text en tl) in H by exact HW.
  destruct (y =? 33) eqn:E33.
  { assert (y = 33) by lia. subst y. rewrite !(CstEntCLex.starts_with_st text en tl) in H by exact HW.
    destruct (prefix_b (b "<!--") (60 :: 33 :: l1)) eqn:Ec.
    - change (b "<!--") with [60; 33; 45; 45] in Ec. destruct (prefix_b_split _ _ Ec) as (l2 & El).
      rewrite El in H, HWV, H38. ib H q Hq. destruct q as [s1 c1].
      destruct (inv_comment_g text HF en tl bst bev _ _ _ _ _ HWV Hq) as (bs & l3 & -> & Hwf & -> & HW1 & Hev).
      cbn [bal_ev] in Hev. injection Hev as <-.
      assert (Hb : Forall (fun y => y <> 38) l3) by (do 3 (apply Forall_app in H38; destruct H38 as [_ H38]); exact H38).
      pose proof (IH _ _ _ _ _ _ _ HW1 ltac:(lia) Hb Hc Hlen H HcF) as HR. rewrite El.
      pose proof (Res6_item stk (@IComment epieces bs) l3 HR) as HP. cbn [r_item Cst.r_item] in HP. rewrite <- !app_assoc in HP.
      apply HP; [exact Hwf|reflexivity].
    - destruct (prefix_b (b "<![CDATA[") (60 :: 33 :: l1)) eqn:Ed; [|noerr].
      change (b "<![CDATA[") with [60; 33; 91; 67; 68; 65; 84; 65; 91] in Ed. destruct (prefix_b_split _ _ Ed) as (l2 & El).
      rewrite El in H, HWV, H38. ib H q Hq. destruct q as [s1 c1].
      destruct (inv_cdata_g text en tl bst bev _ _ _ _ _ HWV Hq) as (cs & l3 & -> & Hu & Hnc & -> & HW1 & Hev).
      unfold cdata_tok in Hev. cbn [bal_ev] in Hev. injection Hev as <-.
      assert (Hb : Forall (fun y => y <> 38) l3) by (do 3 (apply Forall_app in H38; destruct H38 as [_ H38]); exact H38).
      pose proof (IH _ _ _ _ _ _ _ HW1 ltac:(lia) Hb Hc Hlen H HcF) as HR. rewrite El.
      pose proof (Res6_frag stk [E.EP (T.PCData cs)] l3 HR) as HP.
      unfold enc_epieces in HP. cbn [map enc_epiece enc_piece E.r_epieces flat_map E.r_epiece T.r_piece] in HP. rewrite app_nil_r, <- !app_assoc in HP.
      apply HP.
      + cbn [forallb wf_uepiece wf_utpiece andb]. rewrite contains_eq. change T.cdata_close with [93; 93; 62]. rewrite Hnc, (uchars_xml _ Hu). reflexivity.
      + reflexivity.
      + discriminate.
      + right. exact I.
      + intros _. reflexivity. }
  destruct (y =? 63) eqn:E63.
  { assert (y = 63) by lia. subst y. ib H q Hq. destruct q as [s1 c1].
    change (60 :: 63 :: l1) with ([60; 63] ++ l1) in *.
    destruct (inv_pi_g text HF en tl bst bev _ _ _ _ _ HWV (Hxml _ _ HW Hp3) Hq) as (tg & sep & v & l3 & -> & Hwf & -> & HW1 & Hev).
    unfold pi_tok in Hev. cbv zeta in Hev. cbn [bal_ev] in Hev. injection Hev as <-.
    assert (Hb : Forall (fun y => y <> 38) l3) by (do 5 (apply Forall_app in H38; destruct H38 as [_ H38]); exact H38).
    pose proof (IH _ _ _ _ _ _ _ HW1 ltac:(lia) Hb Hc Hlen H HcF) as HR.
    pose proof (Res6_item stk (@IPI epieces tg sep v) l3 HR) as HP. cbn [r_item Cst.r_item] in HP. rewrite <- !app_assoc in HP.
    apply HP; [cbn [wf_uitem_s wf_misc_s]; apply (wf_pi_s_intro _ _ _ Hwf)|reflexivity]. }
  destruct (y =? 47) eqn:E47.
  { assert (y = 47) by lia. subst y. ib H q Hq. destruct q as [s1 c1].
    change (60 :: 47 :: l1) with ([60; 47] ++ l1) in *.
    destruct (inv_close_g text HF en tl bst bev _ _ _ _ _ HWV Hq) as (pre & loc & ws2 & l3 & -> & Hname & Hws & -> & HW1 & Hev).
    unfold nclose_tok in Hev. subst c. cbn [bal_ev snd fst] in Hev.
    destruct stk as [|n r]; [discriminate|].
    pose proof (@CstEntCLex.W_app text en tl _ _ _ HW) as HWn. change (blen [60; 47]) with 2 in HWn.
    assert (HWq : CstLex.W text (p + 2) (rq pre loc ++ (ws2 ++ [62] ++ l3) ++ tl)) by (rewrite app_assoc; exact (proj1 HWn)).
    destruct (qname_slices_r text _ _ _ _ HWq) as (Sp & Sl & _).
    match type of Hev with (if ?bb then _ else _) = _ => destruct bb eqn:Eb; [|discriminate] end. injection Hev as <-.
    apply andb_true_iff in Eb. destruct Eb as [Eb1 Eb2]. apply CstSoundBuild.bytes_eqb_true in Eb1. apply CstSoundBuild.bytes_eqb_true in Eb2.
    assert (Ef : fqb n = rq pre loc).
    { rewrite <- fqb_rq. destruct n as [n1 n2]. cbn [fst snd] in *. rewrite Sp in Eb1. rewrite Sl in Eb2. subst n1 n2. reflexivity. }
    assert (Hb : Forall (fun y => y <> 38) l3) by (do 4 (apply Forall_app in H38; destruct H38 as [_ H38]); exact H38).
    rewrite <- Ef.
    destruct (depth =? 0) eqn:Ed.
    - exfalso. cbn [length] in Hlen. lia.
    - assert (Hlen' : N.of_nat (length r) = depth - 1) by (cbn [length] in Hlen; lia).
      pose proof (IH _ _ _ _ _ _ _ HW1 ltac:(lia) Hb eq_refl Hlen' H HcF) as HR.
      apply Res6_close; assumption. }
  (* a start tag *)
  ib H q Hq. destruct q as [[open s1] c1].
  change (60 :: y :: l1) with ([60] ++ (y :: l1)) in *.
  destruct (inv_element_g text HF en tl bst bev _ _ _ _ _ _ HWV Hq)
    as (pre & loc & attrs & ws_end & l3 & ca & cb & El & Hname & Hraw & Hwe & Hev1 & Hev2 & Hev3 & -> & HW1).
  rewrite El in HWV, H38 |- *. pose proof (CstSound6Lex.WV_W _ _ _ _ _ HWV) as HW'.
  unfold nstart_tok in Hev1. subst c. cbn [bal_ev snd] in Hev1. injection Hev1 as <-.
  rewrite evs_attrs_bal in Hev2. injection Hev2 as <-.
  pose proof (@CstEntCLex.W_app text en tl _ _ _ HW') as HWn. change (blen [60]) with 1 in HWn.
  assert (HWq : CstLex.W text (p + 1) (rq pre loc ++ (flat_map r_rattr attrs ++ ws_end ++ tag_tail (negb open) ++ l3) ++ tl)) by (rewrite app_assoc; exact (proj1 HWn)).
  destruct (qname_slices_r text _ _ _ _ HWq) as (Sp & Sl & _).
  assert (Hb : Forall (fun y => y <> 38) (flat_map r_rattr attrs) /\ Forall (fun y => y <> 38) l3).
  { do 2 (apply Forall_app in H38; destruct H38 as [_ H38]). apply Forall_app in H38. destruct H38 as [X H38]. split; [exact X|].
    do 2 (apply Forall_app in H38; destruct H38 as [_ H38]). exact H38. }
  destruct Hb as [Hb1 Hb3].
  unfold end_tok in Hev3. destruct open; cbn [negb bal_ev fst snd tag_tail] in *.
  - injection Hev3 as <-. rewrite Sp, Sl in H.
    assert (Hlen' : N.of_nat (length ((utf8s pre, utf8s loc) :: stk)) = depth + 1) by (cbn [length]; rewrite Nat2N.inj_succ, <- Hlen, N.add_1_r; reflexivity).
    pose proof (IH _ _ _ _ _ _ _ HW1 ltac:(lia) Hb3 eq_refl Hlen' H HcF) as HR.
    apply Res6_nest; assumption.
  - injection Hev3 as <-.
    pose proof (IH _ _ _ _ _ _ _ HW1 ltac:(lia) Hb3 eq_refl Hlen H HcF) as HR.
    apply Res6_empty; assumption.
Qed.

End Run.

(* ---- ValOK ---- *)
Lemma Frag6u_FragL text : Frag6u text -> FragL text.
Proof. intros [A B0 C0 D E F G H I _ _ _ _ _ _ _]. constructor; assumption. Qed.

Lemma xml_at_cut r y t : (y = 39 \/ y = 34) -> xml_at (r ++ y :: t) = true -> xml_at r = true.
Proof.
  intros Hy H. destruct r as [|a r]; [reflexivity|]. destruct r as [|b0 r]; [destruct a as [|pp]; [reflexivity|]; do 6 (destruct pp as [pp|pp|]; try reflexivity)|].
  destruct r as [|c r]; [cbn; destruct a as [|pa]; [reflexivity|]; do 6 (destruct pa as [pa|pa|]; try reflexivity); destruct b0 as [|pb]; [reflexivity|]; do 6 (destruct pb as [pb|pb|]; try reflexivity)|].
  destruct (N.eq_dec a 60) as [->|Na]; [|destruct a as [|pa]; [reflexivity|]; do 6 (destruct pa as [pa|pa|]; try reflexivity); congruence].
  destruct (N.eq_dec b0 63) as [->|Nb]; [|destruct b0 as [|pb]; [reflexivity|]; do 6 (destruct pb as [pb|pb|]; try reflexivity); congruence].
  destruct (N.eq_dec c 120) as [->|Nc]; [|destruct c as [|pc]; [reflexivity|]; do 7 (destruct pc as [pc|pc|]; try reflexivity); congruence].
  destruct r as [|d r]; [reflexivity|].
  destruct (N.eq_dec d 109) as [->|Nd]; [|destruct d as [|pd]; [reflexivity|]; do 7 (destruct pd as [pd|pd|]; try reflexivity); congruence].
  destruct r as [|e r]; [reflexivity|].
  destruct (N.eq_dec e 108) as [->|Ne]; [|destruct e as [|pe]; [reflexivity|]; do 7 (destruct pe as [pe|pe|]; try reflexivity); congruence].
  destruct r as [|z r]; [|exact H].
  exfalso. cbn [app xml_at] in H. destruct Hy as [-> | ->]; vm_compute in H; discriminate.
Qed.

Theorem val_ok text : Frag6u text -> ValOK text.
Proof.
  intros HF vs cs y tail HWV Hvs Hy Hu Hm H38 H60. pose proof (CstULex.WV_W text _ _ HWV) as HW.
  unfold markup_ok in Hm.
  destruct (stream_from_substr_ws text vs (utf8s cs) ([y] ++ tail) HW) as (Es & _). rewrite Es in Hm.
  destruct (parse_content text bst (bal_ev text) _ (None, [])) as [[s' [o stF]]| | |] eqn:Ep; try discriminate.
  destruct o; [discriminate|]. destruct stF; [|discriminate]. clear Hm.
  unfold parse_content in Ep.
  set (en := vs + blen (utf8s cs)) in *. set (tl := [y] ++ tail) in *.
  change (CstTextLex.sst en vs (utf8s cs ++ tl)) with (CstEntCLex.st en tl vs (utf8s cs)) in Ep.
  assert (HWV6 : CstSound6Lex.WV text en tl vs (utf8s cs)).
  { split; [split; [exact HWV|reflexivity]|apply Valid_uchars; exact Hu]. }
  assert (Hxml : forall p r, CstEntCLex.W text en tl p r -> 3 < p -> xml_at r = true).
  { intros p r [HWp _] Hp. apply (xml_at_cut r y tail Hy).
    apply (CstSound6uDtd.xml_at_pos text HF p _ HWp). unfold CstSound6uDtd.bom_len. destruct (prefix_b [239; 187; 191] text); lia. }
  assert (H38' : Forall (fun z => z <> 38) (utf8s cs)) by (apply mem_b_Forall; exact H38).
  destruct (content_bal text (Frag6u_FragL _ HF) en tl Hxml _ _ _ _ _ _ _ [] HWV6 Hvs H38' eq_refl eq_refl Ep eq_refl)
    as (lv & last & E1 & E2 & _ & [A B0] & _).
  destruct lv; [|discriminate]. cbn [r_lv] in E2. exists last. split; [symmetry; exact E2|]. split; assumption.
Qed.
Print Assumptions val_ok.
