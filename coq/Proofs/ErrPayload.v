(* Proofs/ErrPayload.v -- property C14, last clause: the names and characters carried in an error
   are the ones written in the source. *)
From Coq Require Import Lia ZifyBool ZifyN ZifyNat PeanoNat.
From RX Require Import Generated.
From RX.Model Require Import Base CharClass Stream Tokenizer Doc Builder Parse.
From RX.Proofs Require Import Tactics ErrPosStream.

Local Open Scope N_scope.

Definition from_source (text s : bytes) : Prop := exists a e, a <= e /\ e <= tlen text /\ s = sub text a e.
Definition payload_ok (text : bytes) (e : error) : Prop :=
  match e with
  | DuplicatedNamespace s _ | UnknownNamespace s _ | UnknownEntityReference s _ | DuplicatedAttribute s _ => from_source text s
  | UnexpectedCloseTag expected actual _ => from_source text expected /\ from_source text actual
  | NonXmlChar c _ => exists p n, p < tlen text /\ (decode1 (skipn (N.to_nat p) text) = Some (c, n) \/ nth_N text p = Some c)
  | InvalidChar _ actual _ | InvalidChar2 _ actual _ => exists p, nth_N text p = Some actual
  | _ => True
  end.

Notation src_byte text x := (exists p, nth_N text p = Some x).
Notation src_char text c :=
  (exists p n, p < tlen text%list /\ (decode1 (skipn (N.to_nat p) text%list) = Some (c, n) \/ nth_N text%list p = Some c)).

(* ------------------------------------------------------------------ *)
(** * Lists and substrings *)

Lemma skipn_skipn' : forall (A : Type) (x y : nat) (l : list A), skipn x (skipn y l) = skipn (y + x) l.
Proof.
  intros A x y. induction y as [|y IH]; intros l; [reflexivity|].
  destruct l as [|a l]; cbn [skipn Nat.add]; [apply skipn_nil|apply IH].
Qed.

Lemma firstn_add : forall (A : Type) (x y : nat) (l : list A),
  firstn (x + y) l = firstn x l ++ firstn y (skipn x l).
Proof.
  intros A x y. induction x as [|x IH]; intros l; [reflexivity|].
  destruct l as [|a l]; cbn [Nat.add firstn skipn app].
  - rewrite firstn_nil. reflexivity.
  - rewrite IH. reflexivity.
Qed.

Lemma skipn_cons_nth : forall (A : Type) (n : nat) (l : list A) x r,
  skipn n l = x :: r -> nth_error l n = Some x.
Proof.
  intros A n. induction n as [|n IH]; intros l x r H.
  - cbn [skipn] in H. subst l. reflexivity.
  - destruct l as [|a l]; [discriminate|]. cbn [skipn] in H. cbn [nth_error]. eauto.
Qed.

Lemma nth_skipn_cons : forall (A : Type) (n : nat) (l : list A) x,
  nth_error l n = Some x -> exists r, skipn n l = x :: r.
Proof.
  intros A n. induction n as [|n IH]; intros l x H; destruct l as [|a l]; try discriminate.
  - cbn [nth_error] in H. inversion H; subst. exists l. reflexivity.
  - cbn [nth_error] in H. cbn [skipn]. eauto.
Qed.

Lemma nth_error_nth_N : forall (A : Type) (l : list A) (p : N) x,
  nth_error l (N.to_nat p) = Some x -> nth_N l p = Some x.
Proof.
  intros A l p x H. unfold nth_N, len_N.
  destruct (N.of_nat (length l) <=? p) eqn:E; [|exact H].
  assert (Hn : nth_error l (N.to_nat p) = None) by (apply nth_error_None; lia). congruence.
Qed.

Lemma nth_N_lt : forall (A : Type) (l : list A) (p : N) x, nth_N l p = Some x -> p < len_N l.
Proof.
  intros A l p x. unfold nth_N. destruct (len_N l <=? p) eqn:E; [discriminate|]. intros _. lia.
Qed.

Lemma sub_from_source : forall text a e, from_source text (sub text a e).
Proof.
  intros text a e. unfold from_source, sub.
  destruct (N.ltb_spec a e) as [Hae|Hae].
  - destruct (N.ltb_spec a (tlen text)) as [Hat|Hat].
    + exists a, (N.min e (tlen text)). split; [lia|]. split; [lia|].
      destruct (N.leb_spec e (tlen text)) as [Het|Het].
      * rewrite N.min_l by lia. reflexivity.
      * rewrite N.min_r by lia. unfold tlen, blen in *.
        rewrite !firstn_all2; try reflexivity; rewrite skipn_length; lia.
    + exists 0, 0. split; [lia|]. split; [lia|].
      rewrite skipn_all2 by (unfold tlen, blen in Hat; lia). rewrite firstn_nil. reflexivity.
  - exists 0, 0. split; [lia|]. split; [lia|].
    replace (N.to_nat (e - a)) with O by lia. reflexivity.
Qed.

Lemma slice_from_source : forall text sl, from_source text (slice_bytes text sl).
Proof. intros. apply sub_from_source. Qed.

Lemma sub_app : forall text a m e, a <= m -> m <= e -> sub text a m ++ sub text m e = sub text a e.
Proof.
  intros text a m e Ham Hme. unfold sub.
  replace (N.to_nat (e - a)) with (N.to_nat (m - a) + N.to_nat (e - m))%nat by lia.
  rewrite firstn_add, skipn_skipn'. repeat f_equal. lia.
Qed.

Lemma sub_one : forall text p x, nth_N text p = Some x -> sub text p (p + 1) = [x].
Proof.
  intros text p x H. unfold sub. replace (N.to_nat (p + 1 - p)) with 1%nat by lia.
  unfold nth_N in H. destruct (len_N text <=? p); [discriminate|].
  apply nth_skipn_cons in H. destruct H as [r ->]. reflexivity.
Qed.

(* the qualified name written with these two slices is a substring of the source *)
Definition qn_ok (text : bytes) (p l : slice) : Prop :=
  from_source text (gen_qname_string (slice_bytes text p) (slice_bytes text l)).

Lemma qn_ok_empty_prefix : forall text p l, slice_bytes text p = [] -> qn_ok text p l.
Proof. intros text p l H. unfold qn_ok. rewrite H. apply slice_from_source. Qed.

Lemma qn_ok_adjacent : forall text a sp e,
  a <= sp -> sp + 1 <= e -> e <= tlen text -> nth_N text sp = Some 58 ->
  qn_ok text {| sl_start := a; sl_end := sp |} {| sl_start := sp + 1; sl_end := e |}.
Proof.
  intros text a sp e Ha He Hlen Hc. unfold qn_ok, slice_bytes. cbn [sl_start sl_end].
  unfold gen_qname_string. destruct (sub text a sp) eqn:E; [apply sub_from_source|].
  rewrite <- E. rewrite <- (sub_one text sp 58 Hc).
  rewrite (sub_app text sp (sp + 1) e) by lia. rewrite (sub_app text a sp e) by lia.
  exists a, e. repeat split; lia.
Qed.

(* ------------------------------------------------------------------ *)
(** * Results: errors have a good payload, successes satisfy P *)

Definition rinv {A : Type} (text : bytes) (P : A -> Prop) (r : res A) : Prop :=
  (forall e, r = Err e -> payload_ok text e) /\ (forall a, r = Ok a -> P a).

Lemma rinv_ok : forall (A : Type) text (P : A -> Prop) a, P a -> rinv text P (Ok a).
Proof. intros A text P a H. split; intros x E; [discriminate|]. inversion E; subst; exact H. Qed.
Lemma rinv_ok_eq : forall (A : Type) text (a : A), rinv text (fun x => x = a) (Ok a).
Proof. intros. apply rinv_ok. reflexivity. Qed.
Lemma rinv_panic : forall (A : Type) text (P : A -> Prop) p, rinv text P (Panic p).
Proof. intros. split; intros x E; discriminate. Qed.
Lemma rinv_fuel : forall (A : Type) text (P : A -> Prop), rinv text P OutOfFuel.
Proof. intros. split; intros x E; discriminate. Qed.
Lemma rinv_err : forall (A : Type) text (P : A -> Prop) e, payload_ok text e -> rinv text P (Err e).
Proof. intros A text P e H. split; intros x E; [|discriminate]. inversion E; subst; exact H. Qed.

Lemma rinv_bind : forall (A B : Type) text (Q : A -> Prop) (P : B -> Prop) (r : res A) (k : A -> res B),
  rinv text Q r -> (forall a, Q a -> rinv text P (k a)) -> rinv text P (bind r k).
Proof.
  intros A B text Q P r k [Hre Hro] Hk. split.
  - intros e H. apply bind_err in H. destruct H as [H|[a [Ha H]]]; [eauto|].
    exact (proj1 (Hk a (Hro a Ha)) e H).
  - intros y H. apply bind_ok in H. destruct H as [a [Ha H]].
    exact (proj2 (Hk a (Hro a Ha)) y H).
Qed.

Lemma rinv_weaken : forall (A : Type) text (Q P : A -> Prop) (r : res A),
  rinv text Q r -> (forall a, Q a -> P a) -> rinv text P r.
Proof. intros A text Q P r [He Ho] H. split; eauto. Qed.

Lemma rinv_inv_ok : forall (A : Type) text (P : A -> Prop) (r : res A) a,
  rinv text P r -> r = Ok a -> P a.
Proof. intros A text P r a [_ H] E. eauto. Qed.

Lemma rinv_err_at : forall (A : Type) text (P : A -> Prop) s mk,
  (forall tp, payload_ok text (mk tp)) -> rinv text P (@err_at text A s mk).
Proof.
  intros A text P s mk Hmk. split.
  - intros e H. unfold err_at in H. apply bind_err in H. destruct H as [H|[tp [_ H]]].
    + exfalso. unfold gen_text_pos in H. eapply gen_text_pos_at_no_err; eauto.
    + inversion H; subst. apply Hmk.
  - intros a H. unfold err_at in H. apply bind_ok in H. destruct H as [tp [_ H]]. discriminate.
Qed.

Lemma rinv_err_from : forall (A : Type) text (P : A -> Prop) p mk,
  (forall tp, payload_ok text (mk tp)) -> rinv text P (@err_from text A p mk).
Proof.
  intros A text P p mk Hmk. split.
  - intros e H. unfold err_from in H. apply bind_err in H. destruct H as [H|[tp [_ H]]].
    + exfalso. unfold gen_text_pos_from in H. eapply gen_text_pos_at_no_err; eauto.
    + inversion H; subst. apply Hmk.
  - intros a H. unfold err_from in H. apply bind_ok in H. destruct H as [tp [_ H]]. discriminate.
Qed.

Lemma bind_assoc : forall (A B C : Type) (r : res A) (k1 : A -> res B) (k2 : B -> res C),
  bind (bind r k1) k2 = bind r (fun a => bind (k1 a) k2).
Proof. intros. destruct r; reflexivity. Qed.

(* ---- automation ---- *)
Create HintDb pay.
#[export] Hint Resolve slice_from_source sub_from_source : pay.

Ltac pay_norm :=
  try match goal with H : False |- _ => destruct H end;
  repeat match goal with
  | a : (_ * _)%type |- _ => destruct a
  | H : _ /\ _ |- _ => destruct H
  | H : ?x = ?y |- _ => is_var x; subst x
  end; cbn [fst snd] in *.

Ltac pay_split := repeat match goal with |- _ /\ _ => split end.
Ltac pay_post := cbv beta; cbn [fst snd]; pay_split; eauto 8 with pay.
Ltac pay_payload :=
  cbn [payload_ok]; pay_split;
  try match goal with E : _ = ?x |- from_source _ ?x => rewrite <- E end;
  eauto with pay.

Ltac pay_head t := lazymatch t with ?f _ => pay_head f | _ => t end.

(* from [E : f .. = Ok a] (left by a destruct) to what the lemma about f says of a *)
Ltac pay_fwd :=
  repeat match goal with
  | E : ?r = Ok ?a |- _ =>
    let H := fresh "Hq" in
    eassert (H : rinv _ _ r) by (solve [eauto with pay]);
    apply (rinv_inv_ok _ _ _ _ _ H) in E; cbv beta in E; clear H
  end; pay_norm.

Ltac pay_step :=
  lazymatch goal with
  | |- rinv _ _ (bind (match ?x with _ => _ end) _) => destruct x eqn:?; pay_fwd
  | |- rinv _ _ (bind (Ok _) _) => rewrite bind_Ok_l
  | |- rinv _ _ (bind (bind _ _) _) => rewrite bind_assoc
  | |- rinv _ _ (bind ?r _) =>
    first [ eapply rinv_bind; [ solve [pay_tac] | let a := fresh "a" in let Ha := fresh "Ha" in
                                                  intros a Ha; cbv beta in Ha; pay_norm ]
          | let h := pay_head r in unfold h ]
  | |- rinv _ ?P (Ok _) => tryif is_evar P then apply rinv_ok_eq else (apply rinv_ok; pay_post)
  | |- rinv _ ?P (Panic _) => tryif is_evar P then apply (rinv_panic _ _ (fun _ => False)) else apply rinv_panic
  | |- rinv _ ?P OutOfFuel => tryif is_evar P then apply (rinv_fuel _ _ (fun _ => False)) else apply rinv_fuel
  | |- rinv _ ?P (Err _) =>
    tryif is_evar P then (apply (rinv_err _ _ (fun _ => False)); pay_payload) else (apply rinv_err; pay_payload)
  | |- rinv _ ?P (err_at _ _ _) =>
    tryif is_evar P then (apply (rinv_err_at _ _ (fun _ => False)); intro; pay_payload)
    else (apply rinv_err_at; intro; pay_payload)
  | |- rinv _ ?P (err_from _ _ _) =>
    tryif is_evar P then (apply (rinv_err_from _ _ (fun _ => False)); intro; pay_payload)
    else (apply rinv_err_from; intro; pay_payload)
  | |- rinv _ _ (match ?x with _ => _ end) => destruct x eqn:?; pay_fwd
  | |- rinv _ _ ?r =>
    first [ solve [eauto 10 with pay]
          | solve [eapply rinv_weaken; [solve [eauto 10 with pay] | intros; pay_norm; pay_post]]
          | let h := pay_head r in unfold h ]
  end
with pay_tac := repeat (progress cbv beta zeta || pay_step).

(* ------------------------------------------------------------------ *)
(** * Streams: the cached rest is the input from the position on *)

Definition sinv (text : bytes) (s : stream) : Prop := s_rest s = skipn (N.to_nat (s_pos s)) text.

Lemma sinv_head : forall text s x r, sinv text s -> s_rest s = x :: r -> nth_N text (s_pos s) = Some x.
Proof.
  intros text s x r Hs Hr. unfold sinv in Hs. rewrite Hr in Hs. symmetry in Hs.
  apply nth_error_nth_N. eapply skipn_cons_nth; eauto.
Qed.

Lemma sinv_new : forall text, sinv text (stream_new text).
Proof. intros. reflexivity. Qed.

Lemma sinv_advance_raw : forall text s n,
  sinv text s -> sinv text {| s_pos := s_pos s + n; s_end := s_end s; s_rest := skipn (N.to_nat n) (s_rest s) |}.
Proof.
  intros text s n H. unfold sinv in *. cbn [s_pos s_rest]. rewrite H, skipn_skipn'. f_equal. lia.
Qed.

Lemma sinv_skip_bytes : forall text f s, sinv text s -> sinv text (skip_bytes f s).
Proof.
  intros text f s H. unfold skip_bytes.
  set (n := scan f (s_rest s) (N.to_nat (s_end s - s_pos s))).
  pose proof (sinv_advance_raw text s (N.of_nat n) H) as H'. rewrite Nat2N.id in H'. exact H'.
Qed.
Lemma sinv_skip_spaces : forall text s, sinv text s -> sinv text (skip_spaces s).
Proof. intros. apply sinv_skip_bytes. assumption. Qed.
#[export] Hint Resolve sinv_new sinv_skip_bytes sinv_skip_spaces : pay.

Lemma advance_rinv : forall text n s, sinv text s -> rinv text (sinv text) (advance n s).
Proof.
  intros text n s H. unfold advance. destruct (s_end s <? s_pos s + n); [apply rinv_panic|].
  apply rinv_ok. apply sinv_advance_raw. exact H.
Qed.
#[export] Hint Resolve advance_rinv : pay.

Lemma try_consume_byte_sinv : forall text c s b s',
  sinv text s -> try_consume_byte c s = (b, s') -> sinv text s'.
Proof.
  intros text c s b0 s' H E. unfold try_consume_byte in E.
  destruct (curr_byte_opt s) as [x|]; [|inversion E; subst; exact H].
  destruct (x =? c); [|inversion E; subst; exact H].
  destruct (advance 1 s) eqn:Ea; inversion E; subst; try exact H.
  exact (rinv_inv_ok _ _ _ _ _ (advance_rinv text 1 s H) Ea).
Qed.
#[export] Hint Resolve try_consume_byte_sinv : pay.

Lemma curr_byte_opt_src : forall text s x, sinv text s -> curr_byte_opt s = Some x -> src_byte text x.
Proof.
  intros text s x H E. unfold curr_byte_opt in E. destruct (at_end s); [discriminate|].
  destruct (s_rest s) eqn:Er; [discriminate|]. inversion E; subst.
  exists (s_pos s). eapply sinv_head; eauto.
Qed.
#[export] Hint Resolve curr_byte_opt_src : pay.

(* the first byte of a pattern the stream starts with is a byte of the source *)
Lemma starts_with_src : forall text s x r, sinv text s -> starts_with s (x :: r) = true -> src_byte text x.
Proof.
  intros text s x r H E. unfold starts_with, avail in E.
  destruct (s_rest s) as [|y l] eqn:Er; [rewrite firstn_nil in E; discriminate|].
  destruct (N.to_nat (s_end s - s_pos s)); [discriminate|]. cbn [firstn prefix_b] in E.
  apply andb_true_iff in E. destruct E as [E _]. assert (x = y) by lia. subst y.
  exists (s_pos s). eapply sinv_head; eauto.
Qed.
(* InvalidChar2 "a whitespace" 'N': the 'N' of the NDATA the stream starts with *)
#[export] Hint Extern 2 (exists p, nth_N _ p = Some 78) =>
  match goal with E : starts_with ?s _ = true |- _ =>
    apply (starts_with_src _ s 78 [68; 65; 84; 65]); [solve [eauto with pay] | exact E] end : pay.

Lemma mk_slice_rinv : forall text a e,
  rinv text (fun sl => sl_start sl = a /\ sl_end sl = e /\ a <= e /\ e <= tlen text) (mk_slice text a e).
Proof.
  intros text a e. unfold mk_slice.
  destruct ((e <? a) || (tlen text <? e)) eqn:E; [apply rinv_panic|].
  destruct (is_boundary text a && is_boundary text e); [|apply rinv_panic].
  apply rinv_ok. cbn [sl_start sl_end]. lia.
Qed.
Lemma slice_back_rinv : forall text a s,
  rinv text (fun sl => sl_start sl = a /\ sl_end sl = s_pos s /\ a <= s_pos s /\ s_pos s <= tlen text)
       (slice_back text a s).
Proof. intros. unfold slice_back. apply mk_slice_rinv. Qed.
#[export] Hint Resolve mk_slice_rinv slice_back_rinv : pay.

Lemma stream_from_substr_rinv : forall text a e, rinv text (sinv text) (stream_from_substr text a e).
Proof.
  intros. unfold stream_from_substr. destruct ((e <? a) || (tlen text <? e)); [apply rinv_panic|].
  apply rinv_ok. reflexivity.
Qed.
#[export] Hint Resolve stream_from_substr_rinv : pay.

Lemma curr_byte_unchecked_rinv : forall text s, sinv text s ->
  rinv text (fun x => src_byte text x) (curr_byte_unchecked s).
Proof.
  intros text s H. unfold curr_byte_unchecked. destruct (s_rest s) eqn:E; [apply rinv_panic|].
  apply rinv_ok. exists (s_pos s). eapply sinv_head; eauto.
Qed.
#[export] Hint Resolve curr_byte_unchecked_rinv : pay.
Lemma curr_byte_rinv : forall text s, sinv text s -> rinv text (fun x => src_byte text x) (curr_byte s).
Proof. intros text s H. unfold curr_byte. pay_tac. Qed.
#[export] Hint Resolve curr_byte_rinv : pay.

Lemma consume_byte_rinv : forall text c s, sinv text s -> rinv text (sinv text) (consume_byte text c s).
Proof. intros text c s H. unfold consume_byte. pay_tac. Qed.
Lemma skip_string_rinv : forall text p s, sinv text s -> rinv text (sinv text) (skip_string text p s).
Proof. intros text p s H. unfold skip_string. pay_tac. Qed.
#[export] Hint Resolve consume_byte_rinv skip_string_rinv : pay.

Lemma consume_bytes_rinv : forall text f s, sinv text s ->
  rinv text (fun x => sinv text (snd x)) (consume_bytes text f s).
Proof. intros text f s H. unfold consume_bytes. pay_tac. Qed.
Lemma consume_spaces_rinv : forall text s, sinv text s -> rinv text (sinv text) (consume_spaces text s).
Proof. intros text s H. unfold consume_spaces. pay_tac. Qed.
Lemma advance_until2_rinv : forall text a c s, sinv text s -> rinv text (sinv text) (advance_until2 a c s).
Proof. intros text a c s H. unfold advance_until2. pay_tac. Qed.
#[export] Hint Resolve consume_bytes_rinv consume_spaces_rinv advance_until2_rinv : pay.

(* ---- characters ---- *)
Lemma next_char_rinv : forall text s, sinv text s ->
  rinv text (fun o => match o with Some x => src_char text (fst x) | None => True end) (next_char s).
Proof.
  intros text s H. unfold next_char. destruct (at_end s); [apply rinv_ok; exact I|].
  destruct (decode1 (s_rest s)) as [[c n]|] eqn:E; [|apply rinv_panic].
  destruct (s_end s <? s_pos s + n); [apply rinv_panic|]. apply rinv_ok. cbn [fst].
  exists (s_pos s), n. unfold sinv in H. rewrite H in E. split; [|left; exact E].
  destruct (N.ltb_spec (s_pos s) (tlen text)) as [Hl|Hl]; [exact Hl|].
  rewrite skipn_all2 in E by (unfold tlen, blen in Hl; lia). discriminate.
Qed.
#[export] Hint Resolve next_char_rinv : pay.

Lemma skip_chars_loop_rinv : forall text fuel f s, sinv text s ->
  rinv text (sinv text) (skip_chars_loop text fuel f s).
Proof.
  intros text fuel f. induction fuel as [|fu IH]; intros s H; cbn [skip_chars_loop]; pay_tac.
Qed.
#[export] Hint Resolve skip_chars_loop_rinv : pay.
Lemma skip_chars_rinv : forall text f s, sinv text s -> rinv text (sinv text) (skip_chars text f s).
Proof. intros text f s H. unfold skip_chars. pay_tac. Qed.
#[export] Hint Resolve skip_chars_rinv : pay.
Lemma consume_chars_rinv : forall text f s, sinv text s ->
  rinv text (fun x => sinv text (snd x)) (consume_chars text f s).
Proof. intros text f s H. unfold consume_chars. pay_tac. Qed.
#[export] Hint Resolve consume_chars_rinv : pay.

Lemma skip_name_loop_rinv : forall text fuel s, sinv text s -> rinv text (sinv text) (skip_name_loop fuel s).
Proof.
  intros text fuel. induction fuel as [|fu IH]; intros s H; cbn [skip_name_loop]; pay_tac.
Qed.
#[export] Hint Resolve skip_name_loop_rinv : pay.
Lemma skip_name_rinv : forall text s, sinv text s -> rinv text (sinv text) (skip_name text s).
Proof. intros text s H. unfold skip_name. pay_tac. Qed.
#[export] Hint Resolve skip_name_rinv : pay.
Lemma consume_name_rinv : forall text s, sinv text s ->
  rinv text (fun x => sinv text (snd x)) (consume_name text s).
Proof. intros text s H. unfold consume_name. pay_tac. Qed.
#[export] Hint Resolve consume_name_rinv : pay.

(* ---- qualified names: the splitter is the offset of a ':' ---- *)
Definition colon_at (text : bytes) (o : option N) : Prop :=
  match o with Some sp => nth_N text sp = Some 58 | None => True end.

Lemma consume_qname_loop_rinv : forall text fuel start sp s, sinv text s -> colon_at text sp ->
  rinv text (fun x => colon_at text (fst x) /\ sinv text (snd x)) (consume_qname_loop text fuel start sp s).
Proof.
  intros text fuel start. induction fuel as [|fu IH]; intros sp s H Hsp; cbn [consume_qname_loop].
  - pay_tac.
  - destruct (at_end s); [pay_tac|].
    unfold curr_byte_unchecked. destruct (s_rest s) as [|x r] eqn:Er; [pay_tac|].
    rewrite bind_Ok_l.
    destruct (x <? 128); [|pay_tac].
    destruct (x =? 58) eqn:E58; [|pay_tac].
    destruct sp as [sp|]; [pay_tac|].
    eapply rinv_bind; [eauto with pay|]. intros s' Hs'. cbv beta.
    apply IH; [exact Hs'|]. cbn [colon_at].
    assert (x = 58) by lia. subst x. eapply sinv_head; eauto.
Qed.
#[export] Hint Resolve consume_qname_loop_rinv : pay.

Lemma consume_qname_rinv : forall text s, sinv text s ->
  rinv text (fun x => qn_ok text (fst (fst x)) (snd (fst x)) /\ sinv text (snd x)) (consume_qname text s).
Proof.
  intros text s H. unfold consume_qname. cbv zeta.
  eapply rinv_bind; [apply consume_qname_loop_rinv; [exact H|exact I]|].
  intros [sp s'] [Hsp Hs']. cbn [fst snd] in *.
  eapply rinv_bind with (Q := fun x => qn_ok text (fst x) (snd x)).
  - destruct sp as [sp|]; cbn [colon_at] in Hsp.
    + eapply rinv_bind; [apply mk_slice_rinv|]. intros p (Hp1 & Hp2 & Hp3 & Hp4). cbv beta.
      eapply rinv_bind; [apply slice_back_rinv|]. intros l (Hl1 & Hl2 & Hl3 & Hl4). cbv beta.
      apply rinv_ok. cbn [fst snd].
      destruct p as [pa pe], l as [la le]. cbn [sl_start sl_end] in *. subst.
      apply qn_ok_adjacent; auto.
    + eapply rinv_bind; [apply slice_back_rinv|]. intros l _. cbv beta.
      eapply rinv_bind; [apply mk_slice_rinv|]. intros p (Hp1 & Hp2 & _). cbv beta.
      apply rinv_ok. cbn [fst snd]. apply qn_ok_empty_prefix.
      unfold slice_bytes, sub. rewrite Hp1, Hp2. replace (N.to_nat (s_pos s - s_pos s)) with O by lia.
      reflexivity.
  - intros [p l] Hq. cbn [fst snd] in Hq. pay_tac.
Qed.
#[export] Hint Resolve consume_qname_rinv : pay.

Lemma consume_eq_rinv : forall text s, sinv text s -> rinv text (sinv text) (consume_eq text s).
Proof. intros text s H. unfold consume_eq. pay_tac. Qed.
Lemma consume_quote_rinv : forall text s, sinv text s ->
  rinv text (fun x => sinv text (snd x)) (consume_quote text s).
Proof. intros text s H. unfold consume_quote. pay_tac. Qed.
#[export] Hint Resolve consume_eq_rinv consume_quote_rinv : pay.

Lemma consume_reference_rinv : forall text s, sinv text s ->
  rinv text (fun o => match o with Some x => sinv text (snd x) | None => True end) (consume_reference text s).
Proof. intros text s H. unfold consume_reference. pay_tac. Qed.
#[export] Hint Resolve consume_reference_rinv : pay.

(* ---- is_xml_str: the offending character is a byte / a character of the slice ---- *)
Lemma in_sub_src : forall text a e x, In x (sub text a e) -> src_char text x.
Proof.
  intros text a e x Hin. unfold sub in Hin.
  assert (Hin' : In x text).
  { rewrite <- (firstn_skipn (N.to_nat a) text). apply in_or_app. right.
    rewrite <- (firstn_skipn (N.to_nat (e - a)) (skipn (N.to_nat a) text)). apply in_or_app. left. exact Hin. }
  apply In_nth_error in Hin'. destruct Hin' as [n Hn].
  exists (N.of_nat n), 0.
  assert (Hl : (n < length text)%nat) by (apply nth_error_Some; congruence).
  split; [unfold tlen, blen; lia|]. right. apply nth_error_nth_N. rewrite Nat2N.id. exact Hn.
Qed.

Lemma is_xml_str_ascii_rinv : forall text l i, (forall x, In x l -> src_char text x) ->
  rinv text (fun _ => True) (is_xml_str_ascii text l i).
Proof.
  intros text l. induction l as [|x r IH]; intros i Hl; cbn [is_xml_str_ascii].
  - pay_tac.
  - destruct (negb (byte_is_char x)).
    + apply rinv_err_from. intro. cbn [payload_ok]. apply Hl. left. reflexivity.
    + apply IH. intros y Hy. apply Hl. right. exact Hy.
Qed.

Lemma decode1_app : forall l l' r, decode1 l = Some r -> decode1 (l ++ l') = Some r.
Proof.
  intros l l' r. destruct l as [|b0 [|b1 [|b2 [|b3 t]]]]; cbn [app]; unfold decode1;
    repeat match goal with |- context [if ?c then _ else _] => destruct c end;
    try discriminate; auto.
Qed.

(* every character decoded at some offset of [l] is a character of the source *)
Definition decodes_src (text l : bytes) : Prop :=
  forall j c n, decode1 (skipn j l) = Some (c, n) -> src_char text c.

Lemma decodes_src_skipn : forall text l m, decodes_src text l -> decodes_src text (skipn m l).
Proof. intros text l m H j c n E. rewrite skipn_skipn' in E. eauto. Qed.

Lemma decodes_src_sub : forall text a e, decodes_src text (sub text a e).
Proof.
  intros text a e j c n E. unfold sub in E.
  rewrite skipn_firstn_comm, skipn_skipn' in E.
  set (L := skipn (N.to_nat a + j) text) in *.
  assert (E' : decode1 L = Some (c, n)).
  { rewrite <- (firstn_skipn (N.to_nat (e - a) - j) L). apply decode1_app. exact E. }
  exists (N.of_nat (N.to_nat a + j)), n. rewrite Nat2N.id. fold L. split; [|left; exact E'].
  destruct (N.ltb_spec (N.of_nat (N.to_nat a + j)) (tlen text)) as [Hl|Hl]; [exact Hl|].
  unfold L in E'. rewrite skipn_all2 in E' by (unfold tlen, blen in Hl; lia). discriminate.
Qed.

Lemma is_xml_str_unicode_rinv : forall text fuel l i, decodes_src text l ->
  rinv text (fun _ => True) (is_xml_str_unicode text fuel l i).
Proof.
  intros text fuel. induction fuel as [|fu IH]; intros l i Hl; cbn [is_xml_str_unicode].
  - pay_tac.
  - destruct l as [|x r]; [pay_tac|].
    destruct (decode1 (x :: r)) as [[c n]|] eqn:E; [|pay_tac].
    destruct (negb (char_is_char c)).
    + apply rinv_err_from. intro. cbn [payload_ok]. apply (Hl O c n). exact E.
    + apply IH. apply decodes_src_skipn. exact Hl.
Qed.

Lemma is_xml_str_rinv : forall text sl vs, rinv text (fun _ => True) (is_xml_str text sl vs).
Proof.
  intros text sl vs. unfold is_xml_str. cbv zeta.
  destruct (forallb (fun x => x <? 128) (slice_bytes text sl)).
  - apply is_xml_str_ascii_rinv. intros x Hx. eapply in_sub_src; eauto.
  - apply is_xml_str_unicode_rinv. apply decodes_src_sub.
Qed.
#[export] Hint Resolve is_xml_str_rinv : pay.

(* ------------------------------------------------------------------ *)
(** * The tokenizer, for any callback that keeps an invariant IC of its state and is given
      only well-formed tokens *)

Definition tok_ok (text : bytes) (tok : Tokenizer.token) : Prop :=
  match tok with
  | TElementStart p l _ => qn_ok text p l
  | TElementEnd e _ => match e with EClose p l => qn_ok text p l | _ => True end
  | _ => True
  end.
#[export] Hint Extern 1 (tok_ok _ _) => cbn [tok_ok]; auto : pay.

Section Tok.
Variable text : bytes.
Variable C : Type.
Variable ev : Tokenizer.token -> C -> res C.
Variable IC : C -> Prop.
Hypothesis Hev : forall tok c, tok_ok text tok -> IC c -> rinv text IC (ev tok c).

Notation SC := (fun x : stream * C => sinv text (fst x) /\ IC (snd x)).

Lemma parse_comment_rinv : forall s c, sinv text s -> IC c -> rinv text SC (parse_comment text C ev s c).
Proof. intros s c H Hc. unfold parse_comment. pay_tac. Qed.
Lemma parse_pi_rinv : forall s c, sinv text s -> IC c -> rinv text SC (parse_pi text C ev s c).
Proof. intros s c H Hc. unfold parse_pi. pay_tac. Qed.
#[local] Hint Resolve parse_comment_rinv parse_pi_rinv : pay.

Lemma parse_misc_loop_rinv : forall fuel s c, sinv text s -> IC c ->
  rinv text SC (parse_misc_loop text C ev fuel s c).
Proof. induction fuel as [|fu IH]; intros s c H Hc; cbn [parse_misc_loop]; pay_tac. Qed.
#[local] Hint Resolve parse_misc_loop_rinv : pay.
Lemma parse_misc_rinv : forall s c, sinv text s -> IC c -> rinv text SC (parse_misc text C ev s c).
Proof. intros s c H Hc. unfold parse_misc. pay_tac. Qed.
#[local] Hint Resolve parse_misc_rinv : pay.

Lemma parse_attribute_rinv : forall s, sinv text s ->
  rinv text (fun x => sinv text (snd x)) (parse_attribute text s).
Proof. intros s H. unfold parse_attribute. pay_tac. Qed.
#[local] Hint Resolve parse_attribute_rinv : pay.
(* the error of a misnamed pseudo-attribute, InvalidString, carries a static string only *)
Lemma parse_pseudo_attribute_rinv : forall name s, sinv text s ->
  rinv text (sinv text) (parse_pseudo_attribute text name s).
Proof. intros name s H. unfold parse_pseudo_attribute. pay_tac. Qed.
Lemma decl_consume_spaces_rinv : forall s, sinv text s -> rinv text (sinv text) (decl_consume_spaces text s).
Proof. intros s H. unfold decl_consume_spaces. pay_tac. Qed.
#[local] Hint Resolve parse_pseudo_attribute_rinv decl_consume_spaces_rinv : pay.
Lemma parse_declaration_rinv : forall s, sinv text s -> rinv text (sinv text) (parse_declaration text s).
Proof. intros s H. unfold parse_declaration. pay_tac. Qed.
#[local] Hint Resolve parse_declaration_rinv : pay.

(* NonXmlChar of a system literal: a character of the literal (is_xml_str_rinv) *)
Lemma parse_external_literal_rinv : forall s, sinv text s -> rinv text (sinv text) (parse_external_literal text s).
Proof. intros s H. unfold parse_external_literal. pay_tac. Qed.
(* InvalidExternalID carries no payload *)
Lemma parse_pubid_literal_rinv : forall s, sinv text s -> rinv text (sinv text) (parse_pubid_literal text s).
Proof. intros s H. unfold parse_pubid_literal. pay_tac. Qed.
#[local] Hint Resolve parse_external_literal_rinv parse_pubid_literal_rinv : pay.

Lemma parse_external_id_rinv : forall s, sinv text s ->
  rinv text (fun x => sinv text (snd x)) (parse_external_id text s).
Proof. intros s H. unfold parse_external_id. pay_tac. Qed.
#[local] Hint Resolve parse_external_id_rinv : pay.
Lemma parse_entity_def_rinv : forall s g, sinv text s ->
  rinv text (fun x => sinv text (snd x)) (parse_entity_def text s g).
Proof. intros s g H. unfold parse_entity_def. pay_tac. Qed.
#[local] Hint Resolve parse_entity_def_rinv : pay.
Lemma parse_entity_decl_rinv : forall s c, sinv text s -> IC c ->
  rinv text SC (parse_entity_decl text C ev s c).
Proof. intros s c H Hc. unfold parse_entity_decl. pay_tac. Qed.
Lemma consume_decl_loop_rinv : forall fuel s, sinv text s -> rinv text (sinv text) (consume_decl_loop text fuel s).
Proof. induction fuel as [|fu IH]; intros s H; cbn [consume_decl_loop]; pay_tac. Qed.
#[local] Hint Resolve consume_decl_loop_rinv : pay.
Lemma consume_decl_rinv : forall s, sinv text s -> rinv text (sinv text) (consume_decl text s).
Proof. intros s H. unfold consume_decl. pay_tac. Qed.
Lemma parse_doctype_start_rinv : forall s, sinv text s -> rinv text (sinv text) (parse_doctype_start text s).
Proof. intros s H. unfold parse_doctype_start. pay_tac. Qed.
#[local] Hint Resolve parse_entity_decl_rinv consume_decl_rinv parse_doctype_start_rinv : pay.

Lemma parse_doctype_loop_rinv : forall fuel start s c, sinv text s -> IC c ->
  rinv text SC (parse_doctype_loop text C ev fuel start s c).
Proof. induction fuel as [|fu IH]; intros start s c H Hc; cbn [parse_doctype_loop]; pay_tac. Qed.
#[local] Hint Resolve parse_doctype_loop_rinv : pay.
Lemma parse_doctype_rinv : forall s c, sinv text s -> IC c -> rinv text SC (parse_doctype text C ev s c).
Proof. intros s c H Hc. unfold parse_doctype. pay_tac. Qed.
#[local] Hint Resolve parse_doctype_rinv : pay.

Notation BSC := (fun x : bool * stream * C => sinv text (snd (fst x)) /\ IC (snd x)).

Lemma parse_element_loop_rinv : forall fuel ts s c, sinv text s -> IC c ->
  rinv text BSC (parse_element_loop text C ev fuel ts s c).
Proof. induction fuel as [|fu IH]; intros ts s c H Hc; cbn [parse_element_loop]; pay_tac. Qed.
#[local] Hint Resolve parse_element_loop_rinv : pay.
Lemma parse_element_rinv : forall s c, sinv text s -> IC c -> rinv text BSC (parse_element text C ev s c).
Proof. intros s c H Hc. unfold parse_element. pay_tac. Qed.
Lemma parse_cdata_rinv : forall s c, sinv text s -> IC c -> rinv text SC (parse_cdata text C ev s c).
Proof. intros s c H Hc. unfold parse_cdata. pay_tac. Qed.
Lemma parse_close_element_rinv : forall s c, sinv text s -> IC c ->
  rinv text SC (parse_close_element text C ev s c).
Proof. intros s c H Hc. unfold parse_close_element. pay_tac. Qed.
Lemma parse_text_rinv : forall s c, sinv text s -> IC c -> rinv text SC (parse_text text C ev s c).
Proof. intros s c H Hc. unfold parse_text. pay_tac. Qed.
#[local] Hint Resolve parse_element_rinv parse_cdata_rinv parse_close_element_rinv parse_text_rinv : pay.

Lemma parse_content_loop_rinv : forall fuel depth s c, sinv text s -> IC c ->
  rinv text SC (parse_content_loop text C ev fuel depth s c).
Proof. induction fuel as [|fu IH]; intros depth s c H Hc; cbn [parse_content_loop]; pay_tac. Qed.
#[local] Hint Resolve parse_content_loop_rinv : pay.
Lemma parse_content_rinv : forall s c, sinv text s -> IC c -> rinv text SC (parse_content text C ev s c).
Proof. intros s c H Hc. unfold parse_content. pay_tac. Qed.
#[local] Hint Resolve parse_content_rinv : pay.

Lemma parse_document_rinv : forall dtd c, IC c -> rinv text IC (parse_document text C ev dtd c).
Proof. intros dtd c Hc. unfold parse_document. pay_tac. Qed.

End Tok.

(* ------------------------------------------------------------------ *)
(** * The tree builder: the invariant of the context *)

Definition elem_local (k : node_kind) : option slice :=
  match k with KElement _ l _ _ => Some l | _ => None end.

(* the open elements, innermost first, with the prefixes stored for them: prefix and local
   name of each were written together as one qualified name *)
Fixpoint chain (text : bytes) (nodes : list node_data) (id : N) (stack : list slice) : Prop :=
  match stack with
  | [] => True
  | top :: rest =>
    exists nd, nth_N nodes id = Some nd /\
      (forall l, elem_local (nd_kind nd) = Some l -> qn_ok text top l) /\
      match nd_parent nd with Some pid => chain text nodes pid rest | None => True end
  end.

Definition ctx_inv (text : bytes) (c : context) : Prop :=
  qn_ok text (tn_prefix (c_tag_name c)) (tn_name (c_tag_name c)) /\
  chain text (d_nodes (c_doc c)) (c_parent_id c) (rev (c_parent_prefixes c)).

(* nodes are only added, and parent and element name of a node never change *)
Definition nodes_ext (n n' : list node_data) : Prop :=
  forall i nd, nth_N n i = Some nd ->
    exists nd', nth_N n' i = Some nd' /\ nd_parent nd' = nd_parent nd /\
      (forall l, elem_local (nd_kind nd') = Some l -> elem_local (nd_kind nd) = Some l).

Lemma nodes_ext_refl : forall n, nodes_ext n n.
Proof. intros n i nd H. exists nd. auto. Qed.
Lemma nodes_ext_trans : forall a b c, nodes_ext a b -> nodes_ext b c -> nodes_ext a c.
Proof.
  intros a b c Hab Hbc i nd H. destruct (Hab i nd H) as (nd1 & H1 & Hp1 & Hl1).
  destruct (Hbc i nd1 H1) as (nd2 & H2 & Hp2 & Hl2). exists nd2. repeat split; auto; congruence.
Qed.

Lemma chain_ext : forall text n n', nodes_ext n n' -> forall st id, chain text n id st -> chain text n' id st.
Proof.
  intros text n n' Hext st. induction st as [|top rest IH]; intros id H; cbn [chain] in *; [exact I|].
  destruct H as (nd & Hn & Hq & Hp). destruct (Hext id nd Hn) as (nd' & Hn' & Hp' & Hl').
  exists nd'. repeat split; auto. rewrite Hp'. destruct (nd_parent nd); auto.
Qed.

Lemma nth_N_nth_error : forall (A : Type) (l : list A) i x, nth_N l i = Some x -> nth_error l (N.to_nat i) = Some x.
Proof. intros A l i x. unfold nth_N. destruct (len_N l <=? i); [discriminate|auto]. Qed.

Lemma nodes_ext_app : forall n x, nodes_ext n (n ++ [x]).
Proof.
  intros n x i nd H. exists nd. repeat split; auto.
  apply nth_error_nth_N. apply nth_N_nth_error in H.
  rewrite nth_error_app1; [exact H|]. apply nth_error_Some. congruence.
Qed.

Definition f_pres (f : node_data -> node_data) : Prop :=
  forall nd, nd_parent (f nd) = nd_parent nd /\
    (forall l, elem_local (nd_kind (f nd)) = Some l -> elem_local (nd_kind nd) = Some l).

Lemma list_upd_nth : forall (A : Type) (f : A -> A) (l : list A) i l',
  list_upd l i f = Some l' ->
  forall j, nth_error l' j = if Nat.eqb j i then option_map f (nth_error l j) else nth_error l j.
Proof.
  intros A f l. induction l as [|x r IH]; intros i l' H j; [discriminate|].
  destruct i as [|i]; cbn [list_upd] in H.
  - inversion H; subst. destruct j; reflexivity.
  - destruct (list_upd r i f) as [r'|] eqn:E; [|discriminate]. inversion H; subst.
    destruct j as [|j]; [reflexivity|]. cbn [nth_error]. exact (IH i r' E j).
Qed.

Lemma upd_node_rinv : forall text n0 nodes i f, nodes_ext n0 nodes -> f_pres f ->
  rinv text (nodes_ext n0) (upd_node nodes i f).
Proof.
  intros text n0 nodes i f H0 Hf. unfold upd_node.
  destruct (list_upd nodes (N.to_nat i) f) as [l'|] eqn:E; [|apply rinv_panic].
  apply rinv_ok. eapply nodes_ext_trans; [exact H0|].
  intros j nd Hj. apply nth_N_nth_error in Hj.
  pose proof (list_upd_nth _ f nodes _ l' E (N.to_nat j)) as Hn. rewrite Hj in Hn. cbn [option_map] in Hn.
  destruct (Hf nd) as [Hp Hl].
  destruct (Nat.eqb (N.to_nat j) (N.to_nat i)).
  - exists (f nd). split; [apply nth_error_nth_N; exact Hn|]. auto.
  - exists nd. split; [apply nth_error_nth_N; exact Hn|]. auto.
Qed.

#[export] Hint Extern 1 (f_pres _) =>
  (intros ?nd; split; [reflexivity | cbn; intros; first [assumption | discriminate]]) : pay.
#[export] Hint Resolve upd_node_rinv nodes_ext_refl : pay.

Lemma set_next_subtree_all_rinv : forall text n0 ids nodes v, nodes_ext n0 nodes ->
  rinv text (nodes_ext n0) (set_next_subtree_all nodes ids v).
Proof.
  intros text n0 ids. induction ids as [|i r IH]; intros nodes v H; cbn [set_next_subtree_all]; pay_tac.
Qed.
#[export] Hint Resolve set_next_subtree_all_rinv : pay.

(* setters *)
Lemma ctx_inv_tag : forall text c, ctx_inv text c -> qn_ok text (tn_prefix (c_tag_name c)) (tn_name (c_tag_name c)).
Proof. intros text c [H _]. exact H. Qed.
Lemma ctx_inv_set_ns_start_idx : forall text c v, ctx_inv text c -> ctx_inv text (set_ns_start_idx c v).
Proof. intros text c v H. exact H. Qed.
Lemma ctx_inv_set_cur_attrs : forall text c v, ctx_inv text c -> ctx_inv text (set_cur_attrs c v).
Proof. intros text c v H. exact H. Qed.
Lemma ctx_inv_set_awaiting : forall text c v, ctx_inv text c -> ctx_inv text (set_awaiting c v).
Proof. intros text c v H. exact H. Qed.
Lemma ctx_inv_set_entities : forall text c v, ctx_inv text c -> ctx_inv text (set_entities c v).
Proof. intros text c v H. exact H. Qed.
Lemma ctx_inv_set_after_text : forall text c v, ctx_inv text c -> ctx_inv text (set_after_text c v).
Proof. intros text c v H. exact H. Qed.
Lemma ctx_inv_set_entity_floor : forall text c v, ctx_inv text c -> ctx_inv text (set_entity_floor c v).
Proof. intros text c v H. exact H. Qed.
Lemma ctx_inv_set_ld : forall text c v, ctx_inv text c -> ctx_inv text (set_ld c v).
Proof. intros text c v H. exact H. Qed.
Lemma ctx_inv_set_tag_name : forall text c tn, qn_ok text (tn_prefix tn) (tn_name tn) -> ctx_inv text c ->
  ctx_inv text (set_tag_name c tn).
Proof. intros text c tn Hq [_ H]. split; [exact Hq|exact H]. Qed.
Lemma ctx_inv_set_doc : forall text c d, ctx_inv text c -> d_nodes d = d_nodes (c_doc c) ->
  ctx_inv text (set_doc c d).
Proof. intros text c d [Hq H] E. split; [exact Hq|]. cbn [set_doc c_doc c_parent_id c_parent_prefixes]. rewrite E. exact H. Qed.
Lemma ctx_inv_set_nodes : forall text c d nodes, ctx_inv text c -> nodes_ext (d_nodes (c_doc c)) nodes ->
  ctx_inv text (set_doc c (set_nodes d nodes)).
Proof.
  intros text c d nodes [Hq H] E. split; [exact Hq|].
  cbn [set_doc set_nodes c_doc c_parent_id c_parent_prefixes d_nodes]. eapply chain_ext; eauto.
Qed.
Lemma qn_ok_null : forall text, qn_ok text (tn_prefix tag_name_null) (tn_name tag_name_null).
Proof.
  intros. apply qn_ok_empty_prefix. cbn [tag_name_null tn_prefix]. unfold slice_bytes, empty_slice, sub.
  cbn [sl_start sl_end]. reflexivity.
Qed.
#[export] Hint Resolve ctx_inv_tag ctx_inv_set_ns_start_idx ctx_inv_set_cur_attrs ctx_inv_set_awaiting
  ctx_inv_set_entities ctx_inv_set_after_text ctx_inv_set_entity_floor ctx_inv_set_ld
  ctx_inv_set_tag_name ctx_inv_set_doc ctx_inv_set_nodes qn_ok_null : pay.

#[export] Hint Extern 2 (d_nodes _ = _) => congruence : pay.

Notation TT := (fun _ => True).

Lemma short_range_rinv : forall text a e, rinv text TT (short_range a e).
Proof. intros. unfold short_range. pay_tac. Qed.
Lemma ns_range_checked_rinv : forall text a e, rinv text TT (ns_range_checked a e).
Proof. intros. unfold ns_range_checked. pay_tac. Qed.
Lemma inc_depth_rinv : forall text s ld, rinv text TT (inc_depth text s ld).
Proof. intros. unfold inc_depth. pay_tac. Qed.
Lemma inc_references_rinv : forall text s ld, rinv text TT (inc_references text s ld).
Proof. intros. unfold inc_references. pay_tac. Qed.
Lemma tb_finish_rinv : forall text t, rinv text TT (tb_finish t).
Proof. intros. unfold tb_finish. pay_tac. Qed.
Lemma ns_prefix_at_rinv : forall text d i, rinv text TT (ns_prefix_at text d i).
Proof. intros. unfold ns_prefix_at. pay_tac. Qed.
#[export] Hint Resolve short_range_rinv ns_range_checked_rinv inc_depth_rinv inc_references_rinv
  tb_finish_rinv ns_prefix_at_rinv : pay.

Lemma push_ns_rinv : forall text name uri d,
  rinv text (fun d' => d_nodes d' = d_nodes d) (push_ns text name uri d).
Proof. intros. unfold push_ns. pay_tac. Qed.
Lemma push_ref_rinv : forall text i d, rinv text (fun d' => d_nodes d' = d_nodes d) (push_ref i d).
Proof. intros. unfold push_ref. pay_tac. Qed.
#[export] Hint Resolve push_ns_rinv push_ref_rinv : pay.

Lemma any_prefix_rinv : forall text d l p, rinv text TT (any_prefix text d l p).
Proof. intros text d l. induction l as [|i r IH]; intros p; cbn [any_prefix]; pay_tac. Qed.
#[export] Hint Resolve any_prefix_rinv : pay.
Lemma ns_exists_rinv : forall text d st p, rinv text TT (ns_exists text d st p).
Proof. intros. unfold ns_exists. pay_tac. Qed.
#[export] Hint Resolve ns_exists_rinv : pay.
Lemma find_prefix_idx_rinv : forall text d l p, rinv text TT (find_prefix_idx text d l p).
Proof. intros text d l. induction l as [|i r IH]; intros p; cbn [find_prefix_idx]; pay_tac. Qed.
Lemma ns_range_slice_rinv : forall text d nss, rinv text TT (ns_range_slice d nss).
Proof. intros. unfold ns_range_slice. pay_tac. Qed.
#[export] Hint Resolve find_prefix_idx_rinv ns_range_slice_rinv : pay.

Lemma get_ns_idx_by_prefix_rinv : forall text nss pp p d, rinv text TT (get_ns_idx_by_prefix text nss pp p d).
Proof. intros. unfold get_ns_idx_by_prefix. pay_tac. Qed.
#[export] Hint Resolve get_ns_idx_by_prefix_rinv : pay.

Lemma resolve_ns_loop_rinv : forall text st l d,
  rinv text (fun d' => d_nodes d' = d_nodes d) (resolve_ns_loop text st l d).
Proof. intros text st l. induction l as [|i r IH]; intros d; cbn [resolve_ns_loop]; pay_tac. Qed.
#[export] Hint Resolve resolve_ns_loop_rinv : pay.

Lemma nth_N_app_last : forall (A : Type) (l : list A) x, nth_N (l ++ [x]) (len_N l) = Some x.
Proof.
  intros A l x. apply nth_error_nth_N. unfold len_N. rewrite Nat2N.id.
  rewrite nth_error_app2 by lia. rewrite Nat.sub_diag. reflexivity.
Qed.

(* what append_node leaves: the invariant, the same frame, and the new node *)
Definition appended (text : bytes) (kind : node_kind) (c : context) (x : N * context) : Prop :=
  ctx_inv text (snd x) /\ c_parent_prefixes (snd x) = c_parent_prefixes c /\
  c_parent_id (snd x) = c_parent_id c /\ c_tag_name (snd x) = c_tag_name c /\
  exists nd', nth_N (d_nodes (c_doc (snd x))) (fst x) = Some nd' /\ nd_parent nd' = Some (c_parent_id c) /\
    (forall l, elem_local (nd_kind nd') = Some l -> elem_local kind = Some l).

Lemma append_node_rinv : forall text kind r c, ctx_inv text c ->
  rinv text (appended text kind c) (append_node kind r c).
Proof.
  intros text kind r c Hc. unfold append_node. cbv zeta.
  destruct (nodes_limit (c_opt c) <=? len_N (d_nodes (c_doc c))); [apply rinv_err; exact I|].
  unfold node_id_new. destruct (u32_max <=? len_N (d_nodes (c_doc c))); [apply rinv_panic|].
  rewrite bind_Ok_l.
  set (newnode := {| nd_parent := Some (c_parent_id c); nd_prev_sibling := None; nd_next_subtree := None;
                     nd_last_child := None; nd_kind := kind; nd_range := r |}).
  set (nodes0 := d_nodes (c_doc c) ++ [newnode]).
  destruct (nth_N nodes0 (c_parent_id c)) as [pnd|]; [rewrite bind_Ok_l|apply rinv_panic].
  eapply rinv_bind; [apply (upd_node_rinv text nodes0); [apply nodes_ext_refl|auto with pay]|].
  intros nodes1 H1. cbv beta.
  eapply rinv_bind; [apply (upd_node_rinv text nodes0); [exact H1|auto with pay]|].
  intros nodes2 H2. cbv beta.
  eapply rinv_bind; [apply (set_next_subtree_all_rinv text nodes0); exact H2|].
  intros nodes3 H3. cbv beta. apply rinv_ok. unfold appended. cbn [fst snd].
  split; [|split; [reflexivity|split; [reflexivity|split; [reflexivity|]]]].
  - apply ctx_inv_set_awaiting. apply ctx_inv_set_nodes; [exact Hc|].
    eapply nodes_ext_trans; [apply nodes_ext_app|exact H3].
  - destruct (H3 _ _ (nth_N_app_last _ (d_nodes (c_doc c)) newnode)) as (nd' & Hn & Hp & Hl).
    exists nd'. split; [exact Hn|]. split; [exact Hp|exact Hl].
Qed.

Lemma append_node_rinv_inv : forall text kind r c, ctx_inv text c ->
  rinv text (fun x => ctx_inv text (snd x)) (append_node kind r c).
Proof.
  intros. eapply rinv_weaken; [apply append_node_rinv; assumption|]. intros a Ha. exact (proj1 Ha).
Qed.
#[export] Hint Resolve append_node_rinv_inv : pay.

Lemma append_text_rinv : forall text t r c, ctx_inv text c -> rinv text (ctx_inv text) (append_text t r c).
Proof. intros text t r c H. unfold append_text. pay_tac. Qed.
Lemma merge_text_rinv : forall text c, ctx_inv text c -> rinv text (ctx_inv text) (merge_text text c).
Proof. intros text c H. unfold merge_text. pay_tac. Qed.
#[export] Hint Resolve append_text_rinv merge_text_rinv : pay.
Lemma reset_after_text_rinv : forall text c, ctx_inv text c -> rinv text (ctx_inv text) (reset_after_text text c).
Proof. intros text c H. unfold reset_after_text. pay_tac. Qed.
#[export] Hint Resolve reset_after_text_rinv : pay.

Lemma resolve_namespaces_rinv : forall text c, ctx_inv text c ->
  rinv text (fun x => ctx_inv text (snd x)) (resolve_namespaces text c).
Proof. intros text c H. unfold resolve_namespaces. pay_tac. Qed.
#[export] Hint Resolve resolve_namespaces_rinv : pay.

Lemma attr_expanded_name_rinv : forall text d i l, rinv text TT (attr_expanded_name text d i l).
Proof. intros. unfold attr_expanded_name. pay_tac. Qed.
#[export] Hint Resolve attr_expanded_name_rinv : pay.
Lemma any_same_name_rinv : forall text d l n, rinv text TT (any_same_name text d l n).
Proof. intros text d l. induction l as [|a r IH]; intros n; cbn [any_same_name]; pay_tac. Qed.
#[export] Hint Resolve any_same_name_rinv : pay.
Lemma resolve_attrs_loop_rinv : forall text nss st l d,
  rinv text (fun d' => d_nodes d' = d_nodes d) (resolve_attrs_loop text nss st l d).
Proof. intros text nss st l. induction l as [|a r IH]; intros d; cbn [resolve_attrs_loop]; pay_tac. Qed.
#[export] Hint Resolve resolve_attrs_loop_rinv : pay.
Lemma resolve_attributes_rinv : forall text nss c, ctx_inv text c ->
  rinv text (fun x => ctx_inv text (snd x)) (resolve_attributes text nss c).
Proof. intros text nss c H. unfold resolve_attributes. pay_tac. Qed.
#[export] Hint Resolve resolve_attributes_rinv : pay.

Ltac fix_step := cbv beta match fix.

Lemma norm_attr_lvl_rinv : forall text lvl es value t ld, rinv text TT (norm_attr_lvl text lvl es value t ld).
Proof.
  intros text lvl es. induction lvl as [|lvl IHl]; intros value t ld; cbn [norm_attr_lvl].
  - pay_tac.
  - eapply rinv_bind; [apply stream_from_substr_rinv|]. intros s0 Hs0. cbv beta.
    match goal with |- context [?F (length (s_rest s0))] =>
      assert (L : forall n s t ld, sinv text s -> rinv text TT (F n s t ld)) end.
    { induction n as [|n IHn]; intros s t' ld' Hs; fix_step; pay_tac. }
    pay_tac.
Qed.
#[export] Hint Resolve norm_attr_lvl_rinv : pay.

Lemma normalize_attribute_rinv : forall text v c, ctx_inv text c ->
  rinv text (fun x => ctx_inv text (snd x)) (normalize_attribute text v c).
Proof. intros text v c H. unfold normalize_attribute. pay_tac. Qed.
#[export] Hint Resolve normalize_attribute_rinv : pay.
Lemma process_attribute_rinv : forall text r q el p l v c, ctx_inv text c ->
  rinv text (ctx_inv text) (process_attribute text r q el p l v c).
Proof. intros text r q el p l v c H. unfold process_attribute. pay_tac. Qed.
Lemma process_cdata_rinv : forall text t r c, ctx_inv text c -> rinv text (ctx_inv text) (process_cdata text t r c).
Proof. intros text t r c H. unfold process_cdata. pay_tac. Qed.
Lemma parse_next_chunk_rinv : forall text s es, sinv text s ->
  rinv text (fun x => sinv text (snd x)) (parse_next_chunk text s es).
Proof. intros text s es H. unfold parse_next_chunk. pay_tac. Qed.
#[export] Hint Resolve process_attribute_rinv process_cdata_rinv parse_next_chunk_rinv : pay.

Lemma rev_removelast : forall (A : Type) (l : list A) x rest, rev l = x :: rest -> rev (removelast l) = rest.
Proof.
  intros A l x rest H. assert (E : l = rev rest ++ [x]).
  { rewrite <- (rev_involutive l), H. reflexivity. }
  subst l. rewrite removelast_last. apply rev_involutive.
Qed.

Lemma process_element_rinv : forall text e r c, ctx_inv text c ->
  match e with EClose p l => qn_ok text p l | _ => True end ->
  rinv text (ctx_inv text) (process_element text e r c).
Proof.
  intros text e r c H He. unfold process_element.
  destruct (slice_len (tn_name (c_tag_name c)) =? 0). { destruct e; pay_tac. }
  eapply rinv_bind; [apply resolve_namespaces_rinv; exact H|].
  intros [nss c0] Hc0. cbn [snd] in Hc0. cbv beta iota zeta.
  eapply rinv_bind; [apply resolve_attributes_rinv; eauto with pay|].
  intros [attrs c1] Hc1. cbn [snd] in Hc1. cbv beta iota zeta.
  destruct e as [|prefix local|].
  - (* Open *)
    eapply rinv_bind; [apply get_ns_idx_by_prefix_rinv|]. intros idx _. cbv beta.
    eapply rinv_bind; [apply append_node_rinv; exact Hc1|].
    intros [new_id c2] Hap. unfold appended in Hap. cbn [fst snd] in Hap.
    destruct Hap as (Hc2 & Hpp & Hpid & Htn & nd' & Hn & Hp & Hl). cbv beta iota.
    apply rinv_ok. destruct Hc2 as [Hq2 Hch2]. split; [exact Hq2|].
    cbn [set_parent_prefixes set_parent_id c_doc c_parent_id c_parent_prefixes].
    rewrite rev_unit. cbn [chain]. exists nd'. split; [exact Hn|]. split.
    + intros l Hnl. apply Hl in Hnl. cbn [elem_local] in Hnl. inversion Hnl; subst l.
      apply ctx_inv_tag. exact Hc1.
    + rewrite Hp. rewrite <- Hpid. exact Hch2.
  - (* Close *)
    destruct (len_N (c_parent_prefixes c1) <=? c_entity_floor c1); [pay_tac|].
    destruct (nth_N (d_nodes (c_doc c1)) (c_parent_id c1)) as [pnd|] eqn:Epnd;
      [rewrite bind_Ok_l|pay_tac].
    destruct (rev (c_parent_prefixes c1)) as [|pp rest] eqn:Erev; [pay_tac|rewrite bind_Ok_l].
    destruct Hc1 as [Hq Hch]. rewrite Erev in Hch. cbn [chain] in Hch.
    destruct Hch as (nd & Hnd & Hql & Hpar). rewrite Epnd in Hnd. inversion Hnd; subst nd. clear Hnd.
    eapply rinv_bind;
      [apply (upd_node_rinv text (d_nodes (c_doc c1))); [apply nodes_ext_refl|auto with pay]|].
    intros nodes' Hext. cbv beta.
    eapply rinv_bind with (Q := fun _ : unit => True).
    { destruct (nd_kind pnd) eqn:Ek; try (apply rinv_ok; exact I).
      match goal with |- rinv _ _ (if ?b then _ else _) => destruct b end; [|apply rinv_ok; exact I].
      apply rinv_err_from. intro. cbn [payload_ok]. split.
      - apply Hql. first [reflexivity | rewrite Ek; reflexivity].
      - exact He. }
    intros _ _. cbv beta zeta.
    destruct (nd_parent pnd) as [pid|]; [|pay_tac].
    match goal with |- rinv _ _ (match ?l with _ => _ end) => destruct l eqn:Erl end; [apply rinv_panic|].
    apply rinv_ok. rewrite <- Erl. split; [exact Hq|].
    cbn [set_parent_prefixes set_parent_id set_awaiting set_doc set_nodes c_doc c_parent_id
         c_parent_prefixes d_nodes].
    rewrite (rev_removelast _ _ _ _ Erev). eapply chain_ext; [exact Hext|exact Hpar].
  - (* Empty *) pay_tac.
Qed.
#[export] Hint Resolve process_element_rinv : pay.

(* ------------------------------------------------------------------ *)
(** * Parse.v: the callback, the entity re-entry, parse *)

Lemma token_with_rinv : forall text ptext,
  (forall t r c, ctx_inv text c -> rinv text (ctx_inv text) (ptext t r c)) ->
  forall tk c, tok_ok text tk -> ctx_inv text c -> rinv text (ctx_inv text) (token_with text ptext tk c).
Proof.
  intros text ptext Hp tk c Htk Hc. unfold token_with. destruct tk; cbn [tok_ok] in Htk; pay_tac.
Qed.

Lemma process_text_with_rinv : forall text pc,
  (forall s c, sinv text s -> ctx_inv text c -> rinv text (fun x => ctx_inv text (snd x)) (pc s c)) ->
  forall t r c, ctx_inv text c -> rinv text (ctx_inv text) (process_text_with text pc t r c).
Proof.
  intros text pc Hpc t r c Hc. unfold process_text_with. cbv zeta.
  destruct (negb (existsb (fun x => (x =? 38) || (x =? 13)) (slice_bytes text t))); [pay_tac|].
  eapply rinv_bind; [apply stream_from_substr_rinv|]. intros s0 Hs0. cbv beta.
  match goal with |- context [?F (length (s_rest s0))] =>
    assert (L : forall n s buf c, sinv text s -> ctx_inv text c ->
                rinv text (fun x => ctx_inv text (snd x)) (F n s buf c)) end.
  { induction n as [|n IHn]; intros s buf c' Hs Hc'; fix_step; pay_tac. }
  pay_tac.
Qed.

Lemma parse_content_lvl_rinv : forall text lvl s c, sinv text s -> ctx_inv text c ->
  rinv text (fun x => sinv text (fst x) /\ ctx_inv text (snd x)) (parse_content_lvl text lvl s c).
Proof.
  intros text lvl. induction lvl as [|lvl IH]; intros s c Hs Hc; cbn [parse_content_lvl].
  - apply rinv_fuel.
  - apply (parse_content_rinv text context _ (ctx_inv text)); [|exact Hs|exact Hc].
    intros tok c0 Htok Hc0. apply token_with_rinv; [|exact Htok|exact Hc0].
    intros t r c1 Hc1. apply process_text_with_rinv; [|exact Hc1].
    intros s1 c2 Hs1 Hc2. eapply rinv_weaken; [apply IH; assumption|]. intros a Ha. exact (proj2 Ha).
Qed.

Lemma token_rinv : forall text tok c, tok_ok text tok -> ctx_inv text c ->
  rinv text (ctx_inv text) (token text tok c).
Proof.
  intros text tok c Htok Hc. unfold token, process_text.
  apply token_with_rinv; [|exact Htok|exact Hc].
  intros t r c1 Hc1. apply process_text_with_rinv; [|exact Hc1].
  intros s1 c2 Hs1 Hc2. eapply rinv_weaken; [apply parse_content_lvl_rinv; assumption|].
  intros a Ha. exact (proj2 Ha).
Qed.

Lemma init_context_rinv : forall text opt, rinv text (ctx_inv text) (init_context text opt).
Proof.
  intros text opt. unfold init_context. cbv zeta.
  eapply rinv_bind; [apply push_ns_rinv|]. intros d Hd. cbv beta. apply rinv_ok.
  split.
  - cbn [c_tag_name]. apply qn_ok_null.
  - cbn [c_doc c_parent_id c_parent_prefixes rev app chain]. rewrite Hd. cbn [d_nodes].
    eexists. split; [reflexivity|]. cbn [nd_kind nd_parent elem_local]. split; [discriminate|exact I].
Qed.

Lemma children_any_element_rinv : forall text fuel d it, rinv text (fun _ => True) (children_any_element fuel d it).
Proof.
  intros text fuel d. induction fuel as [|fu IH]; intros it; cbn [children_any_element]; pay_tac.
Qed.
#[export] Hint Resolve children_any_element_rinv : pay.

Lemma parse_rinv : forall text opt, rinv text (fun _ => True) (parse text opt).
Proof.
  intros text opt. unfold parse.
  eapply rinv_bind; [apply init_context_rinv|]. intros c0 Hc0. cbv beta.
  eapply rinv_bind; [apply (parse_document_rinv text context _ (ctx_inv text)); [|exact Hc0]|].
  { intros tok c Htok Hc. apply token_rinv; assumption. }
  intros c Hc. pay_tac.
Qed.

Theorem parse_error_payload_from_source : forall text opt e,
  valid_utf8_b text = true -> parse text opt = Err e -> payload_ok text e.
Proof. intros text opt e _ H. exact (proj1 (parse_rinv text opt) e H). Qed.
Print Assumptions parse_error_payload_from_source.
