(* Proofs/CstFullRejItems.v -- C09 on the capstone fragment: items on whose expansion the loop detector stops: the content
   loop fails with EntityReferenceLoop after the items before -- and the part of the failing item before the
   reference -- have been read as in Proofs/CstFullS6Items.v.  Proofs/CstEntRejItems.v with namespaces and Unicode
   names: the entries of a start tag that stand before the failing one are read (their values normalised, their
   declarations pushed), which asks of them what the namespace rules ask of each ENTRY (no reserved prefix or URI
   declared, no prefix declared twice) -- the rules that look at the whole tag are not reached. *)
From Coq Require Import Ascii String.
From Coq Require Import List NArith PeanoNat Bool Lia ZifyBool ZifyN ZifyNat.
Import ListNotations.
From RX Require Import Generated.
From RX.Model Require Import Base CharClass Stream Tokenizer Doc Builder Parse.
From RX.Spec Require Cst CstText CstEnt Detector Scope CstU CstNs.
From RX.Spec Require Chars.
From RX.Spec Require Import CstFullS5.
From RX.Spec Require Import Text CstFull CstFullS4.
From RX.Spec Require Import CstFullS6.
From RX.Proofs Require Import Tactics CstLex CstBuild CstULex TextMachine TextMerge HoistProofs NoPanicUtf8 DetectorProofs.
From RX.Proofs Require Import CstTextSem CstTextLex CstTextBuild CstEntSem CstEntMeaning CstEntRun CstEntInline.
From RX.Proofs Require Import CstNsLex CstNsView CstNsBuild CstFullLex CstFullBuild CstFullTree.
From RX.Proofs Require Import CstFullS2Sem CstFullS2Lex CstFullS2Build CstFullS3Sem CstFullS3Text CstFullS3Run CstFullS3Plug.
From RX.Proofs Require Import CstEntCFloor CstEntCBuild CstEntCSem CstEntCLoop.
From RX.Proofs Require Import CstFullS4Sem CstFullS4TSem CstFullS4TText CstFullS4Build CstFullS4Attr CstFullS6Text.
From RX.Proofs Require Import CstFullS5Ws CstFullS5Lex.
From RX.Proofs Require Import CstFullS6Items.
From RX.Proofs Require Import CstFullRejSem CstFullRejAttr CstFullRejText.
From RX.Proofs Require CstFullS5Items.
From RX.Proofs Require CstEntText CstEntCLex CstEntCText CstFullS6Lex CstNsItems CstNsDoc CstFullItems CstTextItems CstUItems ScopeProofs.
Open Scope N_scope.

Ltac clia := repeat match goal with H : @eq bool _ true |- _ => clear H end; lia.

Notation bd := (map (x_entry bpieces T.value_sem)).

Lemma entry_toks_app : forall l1 q l2,
  entry_toks q (l1 ++ l2) = entry_toks q l1 ++ entry_toks (q + blen (flat_map CstNs.r_entry l1)) l2.
Proof.
  induction l1 as [|e l1 IH]; intros q l2.
  - cbn [app entry_toks flat_map]. rewrite blen_nil, N.add_0_r. reflexivity.
  - cbn [app entry_toks flat_map]. rewrite IH, blen_app, N.add_assoc. reflexivity.
Qed.

(* the first entry in which the detector stops *)
Lemma entries_split tb m : forall ens ens' tr ld, inline_entries tb m ens = Some (ens', tr) -> ld_run ld tr = None ->
  exists ens1 e ens2 ens1' tr1 e' tre ld1 r',
    ens = ens1 ++ e :: ens2 /\ inline_entries tb m ens1 = Some (ens1', tr1) /\ ld_run ld tr1 = Some ld1 /\
    inline_entry tb m e = Some (e', tre) /\ ld_run ld1 tre = None /\ ens' = ens1' ++ e' :: r'.
Proof.
  induction ens as [|a r IH]; intros ens' tr ld H Hr; cbn [inline_entries] in H.
  - injection H as <- <-. discriminate.
  - destruct (inline_entry tb m a) as [[a' tra]|] eqn:Ea; [|discriminate]. cbn [E.obind fst snd] in H.
    destruct (inline_entries tb m r) as [[ar trr]|] eqn:Er; [|discriminate]. cbn [E.obind fst snd] in H. injection H as <- <-.
    rewrite ld_run_app in Hr. destruct (ld_run ld tra) as [lda|] eqn:Ela.
    + destruct (IH _ _ _ eq_refl Hr) as (ens1 & e & ens2 & ens1' & tr1 & e' & tre & ld1 & r' & -> & E1 & L1 & Ee & Le & ->).
      exists (a :: ens1), e, ens2, (a' :: ens1'), (tra ++ tr1), e', tre, ld1, r'.
      split; [reflexivity|]. split; [cbn [inline_entries]; rewrite Ea; cbn [E.obind fst snd]; rewrite E1; reflexivity|].
      split; [rewrite ld_run_app, Ela; exact L1|]. auto.
    + exists [], a, r, [], [], a', tra, ld, ar. repeat split; auto.
Qed.

(* ------------------------------------------------------------------------------------------ *)
(* the start tag of an element with content, read                                             *)
(* ------------------------------------------------------------------------------------------ *)
Section Start.
Variable text : bytes.
Variable D : list Scope.binding.
Hypothesis HD : forall l, NoDup l -> incl l D -> N.of_nat (length l) <= 65535.
Variable decls : list xdecl.
Variable es : list entity.
Hypothesis Henv : Forall2 (uent_ok text) (map pd decls) es.
Hypothesis Hdecls : Forall udecl_okc (map pd decls).
Hypothesis Hcont : Forall decl_cont decls.
Variable k : nat.

Notation tb := (level decls k).
Notation W := (CstLex.W text).
Notation WV := (CstULex.WV text).
Notation WVs := (SL.WV text).
Notation sst4 := CstEntCLex.st.
Notation evl := (CstEntCBuild.evl text).
Notation CIn := (CstNsBuild.CIn text D).
Notation OR := (CstFullS6Text.OR text D es).
Notation Rooms := (CstFullS6Text.Rooms).
Notation NsOk := (CstFullS6Text.NsOk D).
Notation SemI := (CstEntCText.SemI text).
Notation IHk := (IHok text D HD decls es Henv Hdecls Hcont k).
Notation rooms_single := (CstFullS6Items.rooms_single text D HD decls es k IHk).
Notation nattrs_walk := (CstFullS6Items.nattrs_walk text D HD decls es k IHk).
Notation ns_costs_walk := (CstFullS6Items.ns_costs_walk text D HD decls es k IHk).
Notation own_cost_eq := (CstFullS6Items.own_cost_eq text D HD decls es k IHk).
Notation flush_res := (CstFullS6Items.flush_res text D HD es).
Notation sentries_at := (CstFullS6Items.sentries_at text D HD decls es Henv Hdecls k IHk).

Lemma elem_start_c name ens ws cs ws2 inh m en tl p post c0 c frs acc lvl ens' tra itsc lda :
  wf_uitem_s m (IElem name ens ws (Some (cs, ws2))) = true ->
  WVs en tl p (r_item (@IElem epieces name ens ws (Some (cs, ws2))) ++ post) ->
  OR inh c0 c frs -> SemI frs acc ->
  m = (0 <? ld_depth (c_ld c)) -> ld_ok (c_ld c) ->
  c_entity_floor c <= len_N (c_parent_prefixes c) ->
  inline_entries tb m ens = Some (ens', tra) -> ld_run (c_ld c) tra = Some lda ->
  Pok acc [@IElem bpieces name ens' ws (Some (regroup itsc, ws2))] ->
  Rooms inh c0 acc [@IElem bpieces name ens' ws (Some (regroup itsc, ws2))] ->
  NsOk inh acc [@IElem bpieces name ens' ws (Some (regroup itsc, ws2))] ->
  let q := p + 1 + blen (r_qname name) + blen (flat_map r_entry ens) + blen ws + 1 in
  let post2 := [60; 47] ++ r_qname name ++ ws2 ++ [62] ++ post in
  let sc := NT.esc (bd ens') inh in
  exists c1,
    parse_element text context (evl lvl) (sst4 en tl p (r_item (@IElem epieces name ens ws (Some (cs, ws2))) ++ post)) c =
      Ok (true, sst4 en tl q (r_uitems cs ++ post2), c1) /\
    OR sc (sh c1) c1 [] /\ c_ld c1 = lda /\ ld_depth lda = ld_depth (c_ld c) /\ ld_ok lda /\
    c_entity_floor c1 <= len_N (c_parent_prefixes c1) /\
    Pok [] itsc /\ Rooms sc (sh c1) [] itsc /\ NsOk sc [] itsc /\
    WVs en tl q (r_uitems cs ++ post2).
Proof.
  intros Hwf HW HO HS Hm Hk Hfl Eat Ela HP HR HN q0 post20 sc0. subst q0 post20 sc0.
  destruct (wf_elem_parts4 _ _ _ _ _ Hwf) as (Hn & Ha & Hw & Hw2 & Hna & Hcs). clear Hwf.
  set (el := @IElem bpieces name ens' ws (Some (regroup itsc, ws2))) in *.
  assert (Hprov : forallb (fun e => E.crlf_split_ok (e_value bpieces e)) ens' = true /\ forallb provisos_item (regroup itsc) = true).
  { destruct HP as [X _]. rewrite walk_single in X by reflexivity. cbn [fst] in X. rewrite forallb_app in X.
    apply andb_true_iff in X. destruct X as [_ X]. cbn [forallb] in X. unfold el in X. rewrite prov_elem, andb_true_r in X.
    apply andb_true_iff in X. exact X. }
  destruct Hprov as [Hpa Hpc]. destruct (provisos_walk itsc Hpc) as [Pc1 Pc2].
  set (outc := fst (walk [] itsc)) in *. set (accc := snd (walk [] itsc)) in *.
  destruct (nsok_single D inh acc el eq_refl HN) as [Hns HinD].
  destruct (elem_ns inh name ens' ws _ Hns) as (N1 & Nent & N6 & N2e & N2a & N7 & Nch).
  set (des := bd ens') in *. set (sc := NT.esc des inh) in *.
  unfold el in HinD. rewrite den_elem in HinD. cbn [NT.items_decls] in HinD. rewrite NT.item_decls_elem, app_nil_r in HinD.
  change (@val_sem bpieces bmeaning) with T.value_sem in HinD. fold des in HinD.
  rewrite bdens_regroup in Nch. fold outc accc in Nch. rewrite bdens_app, ns_oks_app in Nch. apply andb_true_iff in Nch. destruct Nch as [Nch _].
  rewrite r_uitem_elem in *. rewrite <- !app_assoc in HW |- *.
  set (post2 := [60; 47] ++ r_qname name ++ ws2 ++ [62] ++ post) in *.
  change ([62] ++ r_uitems cs ++ post2) with (tag_tail false ++ (r_uitems cs ++ post2)) in *.
  unfold r_qname at 1 in HW. unfold r_qname at 1. rewrite r_entries_x4 in HW |- *.
  rewrite (SL.lex_element_full text en tl context (evl lvl) p (x_qname name) _ ws false (r_uitems cs ++ post2) c HW (CstFullItems.uq_of _ Hn))
    by (try exact Hw; apply (uentries_of4 m); exact Ha).
  cbv zeta.
  destruct (flush_res inh c0 c frs acc HO HS) as (cr & Kt & Er & Ar & St & Ir & L1 & L2 & L3 & Tr0 & HKt & Ees & Epp).
  unfold start_toks_ns.
  match goal with |- context [evs context (evl lvl) (?tk :: ?r) c] => rewrite (evs_reset text lvl tk r c cr I Er Ar) end.
  destruct (rooms_single inh c0 acc el cr Kt eq_refl HR St Tr0 HKt) as (NR & AR & SR).
  unfold el in NR, AR, SR. rewrite den_elem in NR, AR, SR. change (@val_sem bpieces bmeaning) with T.value_sem in NR, AR, SR. fold des in NR, AR, SR.
  rewrite nsizes_one, NT.nsize_elem in NR.
  cbn [NT.nattrs_items NT.ns_costs] in AR, SR. rewrite NT.nattrs_elem, Nat.add_0_r in AR. rewrite NT.ns_cost_elem, Nat.add_0_r in SR.
  fold sc in SR. rewrite nattrs_walk in AR. rewrite ns_costs_walk in SR. rewrite bdens_regroup in NR. fold outc accc in NR, AR, SR.
  pose proof (WVs_full _ _ _ _ _ HW) as HWf. rewrite <- !app_assoc in HWf.
  pose proof (WV_lit _ _ _ _ HWf (eq_refl : forallb (fun y => y <? 128) [60] = true)) as HW1. change (blen [60]) with 1 in HW1.
  pose proof (WV_app _ _ _ _ HW1 (uq_valid _ (CstFullItems.uq_of _ Hn))) as HW2.
  rewrite <- r_entries_x4 in HW2.
  destruct (sentries_at _ m ens _ ens' tra (c_ld cr) lda HW2 Ha ltac:(rewrite L1; exact Hm) ltac:(rewrite L1; exact Hk) Eat ltac:(rewrite L1; exact Ela) Hpa)
    as (xs & Ex1 & Ex2 & Hok & Hnorms & Hdep).
  fold des in Ex2. rewrite <- Ex1 in HWf, HW |- *.
  destruct (start_tag_gn text D HD es lvl inh p (x_qname name) xs ws false (r_uitems cs ++ post2 ++ tl) cr lda (WV_W _ _ _ HWf)
              (CstFullItems.uq_local_ne _ Hn) N1 Hok Hnorms)
    as (c1 & kind & ext1 & E & S1 & Lx & Hkm & A1 & T1 & Lns1 & D1 & Fl1 & I1 & P1 & P2 & P3); try (rewrite Ex2; assumption); try assumption.
  { rewrite Ex2. intros z Hz. apply HinD. apply in_or_app. left. exact Hz. }
  { unfold CstNsItems.node_room, room in *. clia. }
  { rewrite Ex2, NT.sem_attrs_len. unfold CstNsItems.attr_room in AR. clia. }
  { rewrite Ex2, own_cost_eq. unfold CstNsItems.ns_room in SR. change (Scope.scope_of (CstNs.own_bindings des) inh) with sc. destruct (CstNs.own_bindings des); clia. }
  rewrite Ex2 in *. fold sc in Lx, Hkm, Lns1, I1.
  cbv zeta in E. apply bind_ok in E. destruct E as (cx & E0 & E1).
  unfold start_toks_ns in E0. rewrite E0. cbn [bind]. rewrite E1. cbn [bind negb]. clear E0 E1 cx.
  exists c1.
  set (q := p + 1 + blen (CstNs.r_qname (x_qname name)) + blen (flat_map CstNs.r_entry (raws xs)) + blen ws + blen (tag_tail false)) in *.
  assert (HW5 : WVs en tl q (r_uitems cs ++ post2)).
  { pose proof (SL.WV_lit text _ _ _ HW (eq_refl : forallb (fun y => y <? 128) [60] = true)) as B1. change (blen [60]) with 1 in B1.
    pose proof (SL.WV_app text _ _ _ B1 (uq_valid _ (CstFullItems.uq_of _ Hn))) as B2.
    assert (Hve : U8.Valid (flat_map CstNs.r_entry (raws xs))).
    { rewrite Ex1, <- r_entries_x4. apply (uentries_valid4 m). exact Ha. }
    pose proof (SL.WV_app text _ _ _ B2 Hve) as B3.
    pose proof (SL.WV_lit text _ _ _ B3 (s_lit _ Hw)) as B4.
    pose proof (SL.WV_lit text _ _ _ B4 (eq_refl : forallb (fun y => y <? 128) (tag_tail false) = true)) as B5. exact B5. }
  pose proof (Step0n_len _ _ _ _ S1) as Ln1. change (len_N [_]) with 1 in Ln1.
  change (d_nodes (c_doc (sh c1))) with (d_nodes (c_doc c1)) in Ln1. change (d_nodes (c_doc (sh cr))) with (d_nodes (c_doc cr)) in Ln1.
  pose proof (CstFullItems.Stepn_attrs_len _ _ _ _ S1) as La1. unfold len_N at 3 in La1. rewrite Lx, NT.sem_attrs_len in La1.
  change (d_attrs (c_doc (sh c1))) with (d_attrs (c_doc c1)) in La1. change (d_attrs (c_doc (sh cr))) with (d_attrs (c_doc cr)) in La1.
  pose proof (CstFullItems.Stepn_opt _ _ _ _ S1) as Lo1. change (c_opt (sh c1)) with (c_opt c1) in Lo1. change (c_opt (sh cr)) with (c_opt cr) in Lo1.
  destruct (sn_keep _ _ _ _ S1) as (_ & Kes & _).
  change (c_entities (sh c1)) with (c_entities c1) in Kes. change (c_entities (sh cr)) with (c_entities cr) in Kes.
  assert (HO1 : OR sc (sh c1) c1 []).
  { constructor; try assumption; try reflexivity; [apply CstEntText.same_frame_sym; apply sh_frame|congruence]. }
  change (p + 1 + blen (r_qname name) + blen (flat_map CstNs.r_entry (raws xs)) + blen ws + 1) with q.
  split; [reflexivity|]. split; [exact HO1|]. split; [exact D1|]. split; [rewrite Hdep, L1; reflexivity|].
  split; [apply (ld_ok_run _ _ _ Ela Hk)|].
  split; [rewrite Fl1, L3, P2, len_N_app, Epp; change (len_N [_]) with 1; clia|].
  split; [split; assumption|]. split; [|split; [|exact HW5]].
  - fold outc accc. split; [|split].
    + unfold CstNsItems.node_room in *. change (d_nodes (c_doc (sh c1))) with (d_nodes (c_doc c1)). change (c_opt (sh c1)) with (c_opt c1).
      rewrite Ln1, Lo1. fold outc accc. clia.
    + unfold CstNsItems.attr_room in *. change (d_attrs (c_doc (sh c1))) with (d_attrs (c_doc c1)). rewrite La1. fold outc. clia.
    + unfold CstNsItems.ns_room in *. change (d_ns_tree (c_doc (sh c1))) with (d_ns_tree (c_doc c1)). rewrite Lns1, own_cost_eq. fold outc.
      change (Scope.scope_of (CstNs.own_bindings des) inh) with sc. destruct (CstNs.own_bindings des); clia.
  - fold outc. split; [exact Nch|]. intros z Hz. apply HinD. apply in_or_app. right.
    rewrite bdens_regroup. fold outc accc. rewrite bdens_app, items_decls_app. apply in_or_app. left. exact Hz.
Qed.

End Start.

Print Assumptions elem_start_c.

(* ------------------------------------------------------------------------------------------ *)
(* failing                                                                                    *)
(* ------------------------------------------------------------------------------------------ *)
Section RejItems.
Variable text : bytes.
Variable D : list Scope.binding.
Hypothesis HD : forall l, NoDup l -> incl l D -> N.of_nat (length l) <= 65535.
Variable decls : list xdecl.
Variable es : list entity.
Hypothesis Henv : Forall2 (uent_ok text) (map pd decls) es.
Hypothesis Hdecls : Forall udecl_okc (map pd decls).
Hypothesis Hcont : Forall decl_cont decls.
Variable k : nat.
Hypothesis IHf : forall k', k = S k' -> forall cs, ItemsF text D decls es k' cs.
Hypothesis IHt : forall k', k = S k' -> TLfS text D decls es k'.

Notation gtb := (glevel4 decls k).
Notation tb := (level decls k).
Notation W := (CstLex.W text).
Notation WV := (CstULex.WV text).
Notation WVs := (SL.WV text).
Notation sst4 := CstEntCLex.st.
Notation evl := (CstEntCBuild.evl text).
Notation CIn := (CstNsBuild.CIn text D).
Notation OR := (CstFullS6Text.OR text D es).
Notation Res := (CstFullS6Text.Res text D es).
Notation Rooms := (CstFullS6Text.Rooms).
Notation NsOk := (CstFullS6Text.NsOk D).
Notation SemI := (CstEntCText.SemI text).
Notation decls3 := (map pd decls).
Notation IHk := (IHok text D HD decls es Henv Hdecls Hcont k).
Notation flush_res := (CstFullS6Items.flush_res text D HD es).
Notation sentries_at := (CstFullS6Items.sentries_at text D HD decls es Henv Hdecls k IHk).
Notation Rooms_app_l := (CstFullS6Text.Rooms_app_l D HD).
Notation Rooms_app_r := (CstFullS6Text.Rooms_app_r text D HD es).

(* ---- a text token ---- *)
Lemma tok_stretch_f inh l p more m c0 c frs acc L its tr :
  WV p (E.r_epieces l ++ more) -> Forall (uep_ok m) l -> l <> [] ->
  m = (0 <? ld_depth (c_ld c)) -> N.of_nat L + ld_depth (c_ld c) = 12 -> 12 <= N.of_nat k + ld_depth (c_ld c) -> ld_ok (c_ld c) ->
  OR inh c0 c frs -> SemI frs acc -> bnd acc = true -> c_entity_floor c <= len_N (c_parent_prefixes c) ->
  inline_run gtb m l = Some (its, tr) -> ld_run (c_ld c) tr = None ->
  Pok acc its -> Rooms inh c0 acc its -> NsOk inh acc its ->
  exists pos, evl L (TText (sl p (p + blen (E.r_epieces l))) (p, p + blen (E.r_epieces l))) c = Err (EntityReferenceLoop pos).
Proof.
  intros HWv Hok Hne Hm Hlvl Hk Hldok HO HS Hbnd Hfl Hin Hld HP HR HN. pose proof (WV_W _ _ _ HWv) as HW.
  unfold CstEntCBuild.evl. cbn [token_with].
  rewrite process_text_with_unfold. unfold slice_bytes at 1. cbn [sl sl_start sl_end].
  rewrite (CstLex.W_sub _ _ _ _ HW).
  pose proof (CstLex.W_le _ _ _ (CstLex.W_app _ _ _ _ HW)) as Hle.
  destruct (existsb (fun x => (x =? 38) || (x =? 13)) (E.r_epieces l)) eqn:Efast; cbn [negb].
  2:{ destruct (existsb_or_false _ _ _ Efast) as [E38 _].
      destruct (inline_run_plain gtb m l its tr E38 Hok Hin) as (-> & _). discriminate. }
  cbn [fst snd]. rewrite (stream_from_substr_W text p (E.r_epieces l) more HW). cbn [bind].
  destruct (TLf text D HD decls es Henv Hdecls Hcont k IHf IHt l [] [] inh m (p + blen (E.r_epieces l)) p more c0 c frs acc
              (S (length (s_rest (sst (p + blen (E.r_epieces l)) p (E.r_epieces l ++ more))))) L
              (p, p + blen (E.r_epieces l)) its tr Hok HWv eq_refl Hle Hm Hlvl Hk Hldok (acc_nil m) eq_refl (Forall_nil _) HO HS Hbnd Hfl Hin Hld
              ltac:(rewrite app_nil_r; exact HP) ltac:(rewrite app_nil_r; exact HR) ltac:(rewrite app_nil_r; exact HN)
              ltac:(cbn [sst s_rest]; rewrite app_length; lia)) as [pos Ef].
  cbn [push_text_chunks] in Ef. rewrite Ef. eauto.
Qed.

(* ---- the segments of a run ---- *)
Lemma segs_f inh post en tl : text_stop post ->
  forall L prev p m c0 c frs acc lvl depth fuel its tr,
  Forall (ueseg_wfm m) L -> ealt (prev :: L) -> WVs en tl p (flat_map r_eseg L ++ post) ->
  m = (0 <? ld_depth (c_ld c)) -> N.of_nat lvl + ld_depth (c_ld c) = 12 -> 12 <= N.of_nat k + ld_depth (c_ld c) -> ld_ok (c_ld c) ->
  OR inh c0 c frs -> SemI frs acc -> seg_bnd L acc -> c_entity_floor c <= len_N (c_parent_prefixes c) ->
  inline_run gtb m (flat_map seg_pieces L) = Some (its, tr) -> ld_run (c_ld c) tr = None ->
  Pok acc its -> Rooms inh c0 acc its -> NsOk inh acc its ->
  exists pos,
    parse_content_loop text context (evl lvl) (length L + fuel) depth (sst4 en tl p (flat_map r_eseg L ++ post)) c =
    Err (EntityReferenceLoop pos).
Proof.
  intros Hpost. induction L as [|s L IH]; intros prev p m c0 c frs acc lvl depth fuel its tr
    HF A HW Hm Hlvl Hk Hldok HO HS Hb Hfl Hin Hld HP HR HN.
  - cbn [flat_map inline_run] in Hin. injection Hin as <- <-. discriminate.
  - pose proof HF as HF0. apply Forall_cons_iff in HF. destruct HF as [[Hs Hsm] HL].
    assert (A' : ealt (s :: L)) by (destruct A as [_ A]; exact A).
    cbn [flat_map] in Hin, HW |- *. rewrite <- app_assoc in HW |- *.
    destruct (inline_run_app _ _ _ _ _ _ Hin) as (ia & tra & ib & trb & Ea & Eb & -> & ->).
    destruct (Pok_app _ _ _ HP) as [HPa HPb]. pose proof (Rooms_app_l _ _ _ _ _ HR) as HRa.
    destruct (CstFullS6Text.NsOk_app _ _ _ _ _ HN) as [HNa HNb].
    assert (Hstop : is_ess s = true -> text_stop (flat_map r_eseg L ++ post)).
    { intros Hs1. destruct L as [|[l'|bs'] L']; cbn [flat_map app]; [exact Hpost| |reflexivity].
      destruct A' as [A' _]. specialize (A' Hs1). discriminate. }
    rewrite ld_run_app in Hld. destruct (ld_run (c_ld c) tra) as [ld1|] eqn:El1.
    + (* this segment is read *)
      destruct (agree4_run decls k m _ _ _ _ _ Ea El1 Hk) as [Ea' _].
      assert (Hone : exists c0a ca frsa K1 e1,
                parse_content_loop text context (evl lvl) (1 + (length L + fuel)) depth (sst4 en tl p (r_eseg s ++ flat_map r_eseg L ++ post)) c =
                parse_content_loop text context (evl lvl) (length L + fuel) depth (sst4 en tl (p + blen (r_eseg s)) (flat_map r_eseg L ++ post)) ca /\
                Res inh c0 c acc ia ld1 c0a ca frsa K1 e1).
      { destruct s as [l|bs].
        - destruct (segs_c text D HD decls es Henv Hdecls Hcont k IHk inh (flat_map r_eseg L ++ post) en tl (Hstop eq_refl)
                      [ESS l] prev p m c0 c frs acc lvl depth (length L + fuel)%nat ia tra ld1)
            as (c0a & ca & frsa & K1 & e1 & E1 & HRes1); try assumption.
          { constructor; [split; assumption|constructor]. }
          { destruct A as [A1 _]. split; [exact A1|exact I]. }
          { cbn [flat_map]. rewrite app_nil_r. exact HW. }
          { cbn [flat_map]. rewrite app_nil_r. exact Ea'. }
          cbn [length Nat.add flat_map] in E1. rewrite app_nil_r in E1. exists c0a, ca, frsa, K1, e1. split; [exact E1|exact HRes1].
        - cbn [seg_pieces r_eseg] in *. cbn [inline_run E.obind fst snd] in Ea. injection Ea as <- <-. cbn [ld_run] in El1. injection El1 as <-.
          destruct Hs as [H1 H2]. rewrite <- !app_assoc in HW |- *. cbn [Nat.add].
          rewrite (loop_cdata text en tl) by (apply (SL.WV_W text _ _ HW)).
          change T.cdata_close with n3 in *.
          rewrite (SL.lex_cdata_u text en tl) by assumption.
          pose proof (WVs_full _ _ _ _ _ HW) as HWf. rewrite <- !app_assoc in HWf.
          destruct (tok_cdata_c text D HD decls es k IHk inh bs p _ c0 c frs acc lvl (WV_W _ _ _ HWf) HO HS) as (ca & E1 & HRes1).
          { destruct HPa as [_ X]. cbn [walk snd] in X. exact X. }
          { intros Z0. destruct HRa as [X _]. cbn [walk fst snd app] in X. apply (CstFullItems.node_room_room _ _ X).
            rewrite nsizes_flush, CstEntCText.all_marks_app. change (all_marks [T.PCData bs]) with false. rewrite andb_false_r. lia. }
          rewrite E1. cbn [bind]. eexists c0, ca, _, [], []. split; [|exact HRes1].
          f_equal. f_equal. rewrite !blen_app. change (blen T.cdata_open) with 9. change (blen n3) with 3. lia. }
      destruct Hone as (c0a & ca & frsa & K1 & e1 & E1 & HRes1).
      cbn [length]. change (S (length L) + fuel)%nat with (1 + (length L + fuel))%nat. rewrite E1.
      pose proof HRes1 as (S1 & O1 & M1 & F1 & Le1 & Nc1 & D1 & D1' & Fl1 & T1).
      assert (Hvs : U8.Valid (r_eseg s)) by (apply (eseg_valid D HD); exact Hs).
      apply (IH s (p + blen (r_eseg s)) m c0a ca frsa (snd (walk acc ia)) lvl depth fuel ib trb HL A'); try assumption.
      * apply (SL.WV_app text _ _ _ HW Hvs).
      * rewrite D1, D1'. exact Hm.
      * rewrite D1, D1'. exact Hlvl.
      * rewrite D1, D1'. exact Hk.
      * rewrite D1. apply (ld_ok_run _ _ _ El1 Hldok).
      * destruct L as [|[l'|bs'] L']; try exact I. destruct s as [l|bs]; [destruct A' as [A' _]; specialize (A' eq_refl); discriminate|].
        cbn [seg_pieces inline_run E.obind fst snd] in Ea. injection Ea as <- <-. cbn [walk snd seg_bnd]. rewrite CstEntCText.bnd_snoc. reflexivity.
      * rewrite Fl1. rewrite (CstEntText.Run_pp _ _ _ (or_run _ _ _ _ _ _ _ O1)). destruct S1 as (_ & _ & ->).
        rewrite <- (CstEntText.Run_pp _ _ _ (or_run _ _ _ _ _ _ _ HO)). exact Hfl.
      * rewrite D1. exact Hld.
      * apply (Rooms_app_r _ _ _ _ _ _ _ _ _ _ _ _ HRes1 HR).
    + (* the detector stops in this segment *)
      destruct s as [l|bs]; cbn [r_eseg seg_pieces] in *.
      2:{ cbn [inline_run E.obind fst snd] in Ea. injection Ea as <- <-. discriminate. }
      pose proof (Hstop eq_refl) as Hstop'.
      destruct (ess_bytes_u D HD l Hs) as (Hu & Hb60 & x & r & Ex & Hx60). destruct Hs as (Hne & _ & _ & Hn3).
      pose proof (SL.WV_W text _ _ HW) as HW0.
      cbn [length Nat.add].
      assert (El : parse_content_loop text context (evl lvl) (S (length L + fuel)) depth (sst4 en tl p (E.r_epieces l ++ flat_map r_eseg L ++ post)) c =
                   let! (s0, c1) := parse_text text context (evl lvl) (sst4 en tl p (E.r_epieces l ++ flat_map r_eseg L ++ post)) c in
                   parse_content_loop text context (evl lvl) (length L + fuel) depth s0 c1).
      { revert HW0. rewrite Ex. cbn [app]. intros HW0. apply (loop_text text en tl); assumption. }
      rewrite El. clear El.
      rewrite (SL.lex_text_g text en tl) by assumption.
      pose proof (WVs_full _ _ _ _ _ HW) as HWf. rewrite <- app_assoc in HWf.
      destruct (tok_stretch_f inh l p _ m c0 c frs acc lvl ia tra HWf Hsm Hne Hm Hlvl Hk Hldok HO HS Hb Hfl Ea El1 HPa HRa HNa) as [pos Ef].
      rewrite Ef. cbn [bind]. eauto.
Qed.

(* ---- items ---- *)
Definition ItemF (i : uitem) : Prop :=
  forall inh m en tl p post c0 c frs acc lvl depth fuel its tr,
    wf_uitem_s m i = true -> WVs en tl p (r_item i ++ post) ->
    (is_text epieces i = true -> text_stop post) ->
    OR inh c0 c frs -> SemI frs acc -> (is_text epieces i = true -> bnd acc = true) ->
    m = (0 <? ld_depth (c_ld c)) -> N.of_nat lvl + ld_depth (c_ld c) = 12 -> 12 <= N.of_nat k + ld_depth (c_ld c) -> ld_ok (c_ld c) ->
    c_entity_floor c <= len_N (c_parent_prefixes c) ->
    inline_item gtb m i = Some (its, tr) -> ld_run (c_ld c) tr = None ->
    Pok acc its -> Rooms inh c0 acc its -> NsOk inh acc its ->
    exists pos,
      parse_content_loop text context (evl lvl) (usteps i + fuel) depth (sst4 en tl p (r_item i ++ post)) c =
      Err (EntityReferenceLoop pos).

Lemma ItemF_text ps : ItemF (IText ps).
Proof.
  intros inh m en tl p post c0 c frs acc lvl depth fuel its tr Hwf HW Hstop HO HS Hb Hm Hlvl Hk Hldok Hfl Hin Hld HP HR HN.
  specialize (Hstop eq_refl). specialize (Hb eq_refl).
  cbn [wf_uitem_s r_item r_run epieces usteps inline_item] in *.
  apply andb_true_iff in Hwf. destruct Hwf as [Hne Hw].
  pose proof (esegs_wfm m ps Hw) as HF.
  rewrite <- (esegs_render (enc_epieces ps)) in HW |- *. rewrite <- (esegs_flat (enc_epieces ps)) in Hin.
  apply (segs_f inh post en tl Hstop (esegs (enc_epieces ps)) (ESC []) p m c0 c frs acc lvl depth fuel its tr HF); try assumption.
  - apply ealt_sc. apply ealt_esegs.
  - destruct (esegs (enc_epieces ps)) as [|[l|bs] L]; try exact I. exact Hb.
Qed.

(* ---- the value of an entry, between its quotes ---- *)
Lemma entry_value_at m e q more : WV q (r_entry e ++ more) -> wf_uentry_s m e = true ->
  exists vq quote,
    vsl q (x_entry epieces (r_val epieces) e) = sl vq (vq + blen (E.r_epieces (enc_epieces (e_value epieces e)))) /\
    WV vq (E.r_epieces (enc_epieces (e_value epieces e)) ++ [quote] ++ more) /\
    Forall (uep_ok m) (enc_epieces (e_value epieces e)) /\ E.no_adjacent_elit (enc_epieces (e_value epieces e)) = true.
Proof.
  intros HW H1.
  assert (Hl : wf_layout_s (e_layout epieces e) = true /\
               wf_uepieces (CstNs.l_quote (e_layout epieces e)) false false m (e_value epieces e) = true).
  { unfold wf_uentry_s in H1. rewrite !andb_true_iff in H1. tauto. }
  destruct Hl as [Hl Hvw]. pose proof (CstFullS5Items.layout_quote _ Hl) as Hq.
  set (re := x_entry epieces (r_val epieces) e).
  assert (Ere : CstNs.e_layout re = e_layout epieces e /\ CstNs.e_value re = r_val epieces (e_value epieces e)) by (destruct e; split; reflexivity).
  destruct Ere as [Ere1 Ere2].
  set (ps := e_value epieces e) in *. pose (quote := CstNs.l_quote (e_layout epieces e)).
  change (CstNs.l_quote (e_layout epieces e)) with quote in Hq, Hvw.
  assert (HWv : WV (q + blen (CstNs.l_ws (CstNs.e_layout re)) + blen (CstNs.r_qname (e_qname re)) + blen (CstNs.l_ws1 (CstNs.e_layout re)) + 1
                    + blen (CstNs.l_ws2 (CstNs.e_layout re)) + 1)
                   (E.r_epieces (enc_epieces ps) ++ [quote] ++ more)).
  { destruct (uentry_parts_s _ (uentry_of4 m e H1)) as (_ & Hw & Hw1 & Hw2 & Hqq & _ & Hn). fold re in Hw, Hw1, Hw2, Hqq, Hn.
    rewrite Ere1 in Hw, Hw1, Hw2, Hqq.
    revert HW. change (r_entry e) with (CstNs.r_entry re). unfold CstNs.r_entry. cbv zeta.
    rewrite e_name_qname, Ere2, Ere1, <- !app_assoc. intros HW.
    pose proof (WV_lit _ _ _ _ HW (s_lit _ Hw)) as A1.
    pose proof (WV_app _ _ _ _ A1 (uq_valid _ Hn)) as A2.
    pose proof (WV_lit _ _ _ _ A2 (s_lit _ Hw1)) as A3.
    pose proof (WV_lit _ _ _ _ A3 (eq_refl : forallb (fun y => y <? 128) [61] = true)) as A4. change (blen [61]) with 1 in A4.
    pose proof (WV_lit _ _ _ _ A4 (s_lit _ Hw2)) as A5.
    assert (Hq1 : forallb (fun y => y <? 128) [quote] = true) by (cbn; destruct Hq as [Hq' | Hq']; rewrite Hq'; reflexivity).
    pose proof (WV_lit _ _ _ _ A5 Hq1) as A6. change (blen [quote]) with 1 in A6. exact A6. }
  pose proof Hvw as Hw0. unfold wf_uepieces in Hw0. apply andb_true_iff in Hw0. destruct Hw0 as [Hwp _].
  pose proof (no_cdata_of _ _ _ _ Hwp) as Hnc.
  destruct (uepieces_ok quote false false m ps ltac:(lia) Hvw Hnc) as (Hok & Hadj & _).
  eexists. exists quote. split; [|split; [exact HWv|split; [exact Hok|exact Hadj]]].
  unfold vsl. cbv zeta. fold re. rewrite Ere2. reflexivity.
Qed.

(* ---- the entries of a start tag: the detector stops in one of them ---- *)
Lemma entries_f lvl more m ens q c ens' tr start :
  WV q (flat_map r_entry ens ++ more) -> forallb (wf_uentry_s m) ens = true ->
  m = (0 <? ld_depth (c_ld c)) -> ld_ok (c_ld c) -> 12 <= N.of_nat k + ld_depth (c_ld c) ->
  inline_entries gtb m ens = Some (ens', tr) -> ld_run (c_ld c) tr = None ->
  forallb (fun e => E.crlf_split_ok (e_value bpieces e)) ens' = true ->
  forallb ns_entry_ok (bd ens') = true -> Scope.prefixes_unique (CstNs.own_bindings (bd ens')) = true ->
  incl (CstNs.own_bindings (bd ens')) D ->
  TI text D start [] (sh c) -> c_entities c = es ->
  exists pos, evs context (evl lvl) (entry_toks q (map (x_entry epieces (r_val epieces)) ens)) c = Err (EntityReferenceLoop pos).
Proof.
  intros HW Hwf Hm Hldok Hk Hin Hld Hpr Hns Hu HinD T0 Hes.
  destruct (entries_split gtb m ens ens' tr (c_ld c) Hin Hld)
    as (ens1 & e & ens2 & ens1' & tr1 & e' & tre & ld1 & r' & -> & E1 & L1 & Ee & Le & ->).
  destruct (agree4_entries decls k m ens1 _ _ _ _ E1 L1 Hk) as [E1' _].
  rewrite forallb_app in Hwf. apply andb_true_iff in Hwf. destruct Hwf as [Hwf1 Hwf2].
  cbn [forallb] in Hwf2. apply andb_true_iff in Hwf2. destruct Hwf2 as [Hwe _].
  rewrite forallb_app in Hpr. apply andb_true_iff in Hpr. destruct Hpr as [Hpr1 _].
  rewrite map_app, forallb_app in Hns. apply andb_true_iff in Hns. destruct Hns as [Hns1 _].
  rewrite map_app in Hu, HinD. unfold CstNs.own_bindings in Hu, HinD. rewrite flat_map_app in Hu, HinD.
  apply ScopeProofs.prefixes_unique_app in Hu. destruct Hu as (Hu1 & _ & _).
  assert (HinD1 : incl (CstNs.own_bindings (bd ens1')) D) by (intros z Hz; apply HinD; apply in_or_app; left; exact Hz).
  rewrite flat_map_app in HW. cbn [flat_map] in HW. rewrite <- !app_assoc in HW.
  destruct (sentries_at _ m ens1 q ens1' tr1 (c_ld c) ld1 HW Hwf1 Hm Hldok E1' L1 Hpr1) as (xs & Ex1 & Ex2 & Hok & Hnorms & Hdep).
  rewrite map_app, entry_toks_app, evs_app. rewrite <- Ex1.
  rewrite (entries_transport text es lvl xs q c ld1 Hok Hnorms Hes).
  assert (HWx : W q (flat_map CstNs.r_entry (raws xs) ++ r_entry e ++ flat_map r_entry ens2 ++ more)).
  { rewrite Ex1, <- r_entries_x4. apply (WV_W _ _ _ HW). }
  destruct (entries_evs_g text D HD es _ xs q (sh c) start [] HWx Hok ltac:(rewrite Ex2; exact Hns1) ltac:(split; [exact Hes|reflexivity])
              ltac:(rewrite Ex2; exact Hu1) ltac:(rewrite Ex2; exact HinD1) T0) as (d1 & Ev & _).
  rewrite Ev. cbn [rmap bind]. clear Ev.
  set (x1 := set_doc (set_cur_attrs (sh c) (c_cur_attrs (sh c) ++ tas_g q xs)) d1).
  set (c2 := bk (c_entity_floor c) ld1 x1).
  set (q2 := q + blen (flat_map CstNs.r_entry (raws xs))).
  assert (HW2 : WV q2 (r_entry e ++ flat_map r_entry ens2 ++ more)).
  { unfold q2. rewrite Ex1, <- r_entries_x4. apply (WV_app _ _ _ _ HW). apply (uentries_valid4 m). exact Hwf1. }
  destruct (entry_value_at m e q2 _ HW2 Hwe) as (vq & quote & Evsl & HWv & Hok2 & Hadj2).
  assert (Hval : exists Q, E.inline_ps (CstEntRejSem.glevel decls3 k) true m (enc_epieces (e_value epieces e)) = Some (Q, tre)).
  { unfold inline_entry in Ee. destruct e as [l n v|l p0 v]; cbn [e_value];
      rewrite inline_ps_glevel in Ee;
      (destruct (E.inline_ps (CstEntRejSem.glevel decls3 k) true m (enc_epieces v)) as [[Q trq]|]; [|discriminate]);
      cbn [E.obind fst snd] in Ee; injection Ee as _ <-; exists Q; reflexivity. }
  destruct Hval as (Q & EQ).
  cbn [map entry_toks evs].
  unfold CstEntCBuild.evl at 1, entry_tok. cbv zeta. cbn [token_with]. unfold process_attribute.
  match goal with |- context [normalize_attribute text ?v c2] => change v with (vsl q2 (x_entry epieces (r_val epieces) e)) end.
  rewrite Evsl.
  destruct (normalize_f_u text D HD decls3 es Henv Hdecls vq _ quote _ c2 k Q tre m HWv Hok2 Hadj2) as [pos En].
  { unfold c2. rewrite bk_ld, Hdep. exact Hm. }
  { unfold c2. rewrite bk_ld, Hdep. exact Hk. }
  { exact EQ. }
  { unfold c2. rewrite bk_ld. exact Le. }
  { unfold c2. rewrite bk_entities. unfold x1. cbn. exact Hes. }
  rewrite En. cbn [bind]. eauto.
Qed.

(* ---- the start tag fails ---- *)
Lemma elem_attrs_f name ens ws body inh m en tl p post c0 c frs acc lvl ens' tra :
  wf_uitem_s m (IElem name ens ws body) = true ->
  WVs en tl p (r_item (@IElem epieces name ens ws body) ++ post) ->
  OR inh c0 c frs -> SemI frs acc ->
  m = (0 <? ld_depth (c_ld c)) -> 12 <= N.of_nat k + ld_depth (c_ld c) -> ld_ok (c_ld c) ->
  inline_entries gtb m ens = Some (ens', tra) -> ld_run (c_ld c) tra = None ->
  forallb (fun e => E.crlf_split_ok (e_value bpieces e)) ens' = true ->
  Scope.bytes_eqb (CstNs.q_prefix (x_qname name)) CstNs.xmlns_b = false ->
  forallb ns_entry_ok (bd ens') = true -> Scope.prefixes_unique (CstNs.own_bindings (bd ens')) = true ->
  incl (CstNs.own_bindings (bd ens')) D ->
  exists pos, parse_element text context (evl lvl) (sst4 en tl p (r_item (@IElem epieces name ens ws body) ++ post)) c =
              Err (EntityReferenceLoop pos).
Proof.
  intros Hwf HW HO HS Hm Hk Hldok Eat Hld Hprov N1 Nent N6 HinD.
  destruct (wf_elem_parts4 _ _ _ _ _ Hwf) as (Hn & Ha & Hw & _). clear Hwf.
  rewrite r_uitem_elem in *. rewrite <- !app_assoc in HW |- *.
  set (tail := match body with None => [47; 62] | Some (cs, ws2) => [62] ++ r_uitems cs ++ [60; 47] ++ r_qname name ++ ws2 ++ [62] end) in *.
  assert (Et : exists empty rest, tail ++ post = tag_tail empty ++ rest).
  { unfold tail. destruct body as [[cs ws2]|]; [exists false|exists true]; eexists; rewrite <- ?app_assoc; reflexivity. }
  destruct Et as (empty & rest & Et). rewrite Et in HW |- *.
  unfold r_qname at 1 in HW. unfold r_qname at 1. rewrite r_entries_x4 in HW |- *.
  rewrite (SL.lex_element_full text en tl context (evl lvl) p (x_qname name) _ ws empty rest c HW (CstFullItems.uq_of _ Hn))
    by (try exact Hw; apply (uentries_of4 m); exact Ha).
  cbv zeta.
  destruct (flush_res inh c0 c frs acc HO HS) as (cr & Kt & Er & Ar & St & Ir & L1 & L2 & L3 & Tr0 & HKt & Ees & Epp).
  unfold start_toks_ns.
  match goal with |- context [evs context (evl lvl) (?tk :: ?r) c] => rewrite (evs_reset text lvl tk r c cr I Er Ar) end.
  pose proof (WVs_full _ _ _ _ _ HW) as HWf. rewrite <- !app_assoc in HWf.
  pose proof (WV_lit _ _ _ _ HWf (eq_refl : forallb (fun y => y <? 128) [60] = true)) as HW1. change (blen [60]) with 1 in HW1.
  pose proof (WV_app _ _ _ _ HW1 (uq_valid _ (CstFullItems.uq_of _ Hn))) as HW2.
  rewrite <- r_entries_x4 in HW2.
  destruct (qname_slices text D HD _ _ _ (WV_W _ _ _ HW1)) as [Sp Sl].
  (* ElementStart *)
  cbn [evs]. unfold CstEntCBuild.evl at 1. cbn [token_with].
  rewrite (reset_after_text_ok text) by (rewrite Ar; cbn; lia). cbn [bind].
  rewrite Sp. change Scope.bytes_eqb with bytes_eqb in N1. change CstNs.xmlns_b with xmlns_str in N1. rewrite N1. cbn [bind].
  fold (CstEntCBuild.evl text lvl).
  match goal with |- context [evs context (evl lvl) _ ?c1] => set (cs0 := c1) end.
  assert (T0 : TI text D (c_ns_start_idx cr) [] (sh cs0)).
  { constructor.
    - reflexivity.
    - change (d_ns_tree (c_doc (sh cs0))) with (d_ns_tree (c_doc (sh cr))). pose proof (cn_ns _ _ _ _ Ir) as X.
      change (c_ns_start_idx (sh cr)) with (c_ns_start_idx cr) in X. rewrite X. lia.
    - apply (cn_inv _ _ _ _ Ir).
    - change (d_ns_tree (c_doc (sh cs0))) with (d_ns_tree (c_doc (sh cr))). pose proof (cn_ns _ _ _ _ Ir) as X.
      change (c_ns_start_idx (sh cr)) with (c_ns_start_idx cr) in X. rewrite X.
      unfold ScopeProofs.bindings_of. cbn [fst snd]. rewrite N.sub_diag. reflexivity.
    - constructor. }
  destruct (entries_f lvl _ m ens _ cs0 ens' tra (c_ns_start_idx cr) HW2 Ha) as [pos Ef]; try assumption.
  { unfold cs0. cbn [c_ld set_tag_name set_after_text]. rewrite L1. exact Hm. }
  { unfold cs0. cbn [c_ld set_tag_name set_after_text]. rewrite L1. exact Hldok. }
  { unfold cs0. cbn [c_ld set_tag_name set_after_text]. rewrite L1. exact Hk. }
  { unfold cs0. cbn [c_ld set_tag_name set_after_text]. rewrite L1. exact Hld. }
  unfold r_qname, cs0 in Ef. unfold cs0. rewrite Ef. cbn [bind]. eauto.
Qed.

Lemma prov_el acc name (ens' : list bentry) ws body : Pok acc [@IElem bpieces name ens' ws body] ->
  forallb (fun e => E.crlf_split_ok (e_value bpieces e)) ens' = true.
Proof.
  intros [X _]. rewrite walk_single in X by reflexivity. cbn [fst] in X. rewrite forallb_app in X.
  apply andb_true_iff in X. destruct X as [_ X]. cbn [forallb] in X. rewrite prov_elem, andb_true_r in X.
  apply andb_true_iff in X. apply X.
Qed.

(* what the namespace rules say of the entries of a start tag, one by one *)
Lemma ns_el inh acc name (ens' : list bentry) ws body : NsOk inh acc [@IElem bpieces name ens' ws body] ->
  Scope.bytes_eqb (CstNs.q_prefix (x_qname name)) CstNs.xmlns_b = false /\
  forallb ns_entry_ok (bd ens') = true /\ Scope.prefixes_unique (CstNs.own_bindings (bd ens')) = true /\
  incl (CstNs.own_bindings (bd ens')) D.
Proof.
  intros HN. destruct (nsok_single D inh acc (@IElem bpieces name ens' ws body) eq_refl HN) as [Hns HinD].
  destruct (elem_ns inh name ens' ws body Hns) as (N1 & Nent & N6 & _).
  split; [exact N1|]. split; [exact Nent|]. split; [exact N6|].
  rewrite den_elem in HinD. cbn [NT.items_decls] in HinD. rewrite NT.item_decls_elem, app_nil_r in HinD.
  change (@val_sem bpieces bmeaning) with T.value_sem in HinD.
  intros z Hz. apply HinD. apply in_or_app. left. exact Hz.
Qed.

Lemma ItemF_empty name ens ws : ItemF (IElem name ens ws None).
Proof.
  intros inh m en tl p post c0 c frs acc lvl depth fuel its tr Hwf HW _ HO HS _ Hm Hlvl Hk Hldok Hfl Hin Hld HP HR HN.
  rewrite inline_item_elem in Hin. destruct (inline_entries gtb m ens) as [[ens' tra]|] eqn:Eat; [|discriminate].
  cbn [E.obind fst snd] in Hin. injection Hin as <- <-.
  destruct (ns_el _ _ _ _ _ _ HN) as (N1 & Nent & N6 & HinD).
  destruct (elem_attrs_f name ens ws None inh m en tl p post c0 c frs acc lvl ens' tra Hwf HW HO HS Hm Hk Hldok Eat Hld (prov_el _ _ _ _ _ HP) N1 Nent N6 HinD) as [pos E].
  destruct (wf_elem_parts4 _ _ _ _ _ Hwf) as (Hn & _).
  exists pos. cbn [usteps Nat.add]. rewrite r_uitem_elem in HW, E |- *. rewrite <- !app_assoc in HW, E |- *.
  unfold r_qname in HW, E |- *.
  rewrite (SL.loop_elem_q text en tl) by (try apply (SL.WV_W text _ _ HW); apply CstFullItems.uq_of; exact Hn).
  rewrite E. reflexivity.
Qed.

Lemma ItemF_open name ens ws cs ws2 : ItemsF text D decls es k cs -> ItemF (IElem name ens ws (Some (cs, ws2))).
Proof.
  intros HL inh m en tl p post c0 c frs acc lvl depth fuel its tr Hwf HW _ HO HS _ Hm Hlvl Hk Hldok Hfl Hin Hld HP HR HN.
  rewrite inline_item_elem in Hin. destruct (inline_entries gtb m ens) as [[ens' tra]|] eqn:Eat; [|discriminate].
  cbn [E.obind fst snd] in Hin. destruct (inline_items gtb m cs) as [[itsc trc]|] eqn:Ecs; [|discriminate].
  cbn [E.obind fst snd] in Hin. injection Hin as <- <-.
  destruct (wf_elem_parts4 _ _ _ _ _ Hwf) as (Hn & _ & _ & Hw2 & Hna & Hcs).
  rewrite usteps_elem. cbn [Nat.add].
  assert (Eloop : forall X, parse_content_loop text context (evl lvl) (S X) depth
             (sst4 en tl p (r_item (@IElem epieces name ens ws (Some (cs, ws2))) ++ post)) c =
           let! (open, s, c1) := parse_element text context (evl lvl) (sst4 en tl p (r_item (@IElem epieces name ens ws (Some (cs, ws2))) ++ post)) c in
           parse_content_loop text context (evl lvl) X (if open then depth + 1 else depth) s c1).
  { intros X. revert HW. rewrite r_uitem_elem, <- !app_assoc. unfold r_qname at 1 3. intros HW.
    apply (SL.loop_elem_q text en tl); [apply (SL.WV_W text _ _ HW)|apply CstFullItems.uq_of; exact Hn]. }
  rewrite Eloop. clear Eloop.
  rewrite ld_run_app in Hld. destruct (ld_run (c_ld c) tra) as [lda|] eqn:Ela.
  - (* the start tag is read; the detector stops in the content *)
    destruct (agree4_entries decls k m _ _ _ _ _ Eat Ela Hk) as [Eat' _].
    destruct (elem_start_c text D HD decls es Henv Hdecls Hcont k name ens ws cs ws2 inh m en tl p post c0 c frs acc lvl
                ens' tra itsc lda Hwf HW HO HS Hm Hldok Hfl Eat' Ela HP HR HN)
      as (c1 & E1 & HO1 & D1 & D2 & Hok1 & Fl1 & HPc & HRc & HNc & HWc).
    rewrite E1. cbn [bind].
    replace (usteps_list cs + 1 + fuel)%nat with (usteps_list cs + S fuel)%nat by lia.
    apply (HL _ m en tl _ _ (sh c1) c1 [] [] lvl (depth + 1) (S fuel) itsc trc Hcs Hna HWc ltac:(reflexivity) HO1 (CstEntCText.SemI_nil text)); try assumption.
    + destruct cs; [exact I|]. intros _. reflexivity.
    + rewrite D1, D2. exact Hm.
    + rewrite D1, D2. exact Hlvl.
    + rewrite D1, D2. exact Hk.
    + rewrite D1. exact Hok1.
    + rewrite D1. exact Hld.
  - (* the detector stops in the value of an entry *)
    destruct (ns_el _ _ _ _ _ _ HN) as (N1 & Nent & N6 & HinD).
    destruct (elem_attrs_f name ens ws (Some (cs, ws2)) inh m en tl p post c0 c frs acc lvl ens' tra Hwf HW HO HS Hm Hk Hldok Eat Ela (prov_el _ _ _ _ _ HP) N1 Nent N6 HinD) as [pos E].
    rewrite E. cbn [bind]. eauto.
Qed.

(* ---- lists of items ---- *)
Lemma ItemsF_of cs : Forall ItemF cs -> ItemsF text D decls es k cs.
Proof.
  induction 1 as [|i r Hi _ IH]; intros inh m en tl p post c0 c frs acc lvl depth fuel its tr
    Hwf Hna HW Hpost HO HS Hb Hm Hlvl Hk Hldok Hfl Hin Hld HP HR HN.
  - cbn [inline_items] in Hin. injection Hin as <- <-. discriminate.
  - cbn [forallb] in Hwf. apply andb_true_iff in Hwf. destruct Hwf as [Hw1 Hw2].
    cbn [r_uitems flat_map] in HW |- *. fold (r_uitems r) in HW |- *. rewrite <- app_assoc in HW |- *.
    cbn [inline_items] in Hin.
    destruct (inline_item gtb m i) as [[its1 tr1]|] eqn:Ei; [|discriminate]. cbn [E.obind fst snd] in Hin.
    destruct (inline_items gtb m r) as [[its2 tr2]|] eqn:Er; [|discriminate]. cbn [E.obind fst snd] in Hin.
    injection Hin as <- <-.
    assert (Hna2 : no_adjacent_text epieces r = true).
    { destruct r as [|d r']; [reflexivity|]. cbn [no_adjacent_text] in Hna. apply andb_true_iff in Hna. apply Hna. }
    assert (Hnext : forall d r', r = d :: r' -> is_text epieces i = true -> is_text epieces d = false).
    { intros d r' -> Hi1. cbn [no_adjacent_text] in Hna. apply andb_true_iff in Hna.
      destruct Hna as [Hna _]. rewrite Hi1 in Hna. cbn [andb] in Hna. apply negb_true_iff in Hna. exact Hna. }
    assert (Hstop1 : is_text epieces i = true -> text_stop (r_uitems r ++ post)).
    { intros Hi1. destruct r as [|d r']; [exact Hpost|]. cbn [r_uitems flat_map]. rewrite <- app_assoc.
      apply (nontext_stop m); [apply (Hnext d r' eq_refl Hi1)|]. cbn [forallb] in Hw2. apply andb_true_iff in Hw2. apply Hw2. }
    destruct (Pok_app _ _ _ HP) as [HP1 HP2]. pose proof (Rooms_app_l _ _ _ _ _ HR) as HR1.
    destruct (CstFullS6Text.NsOk_app _ _ _ _ _ HN) as [HN1 HN2].
    cbn [usteps_list]. rewrite <- Nat.add_assoc.
    rewrite ld_run_app in Hld. destruct (ld_run (c_ld c) tr1) as [ld1|] eqn:El1.
    + destruct (agree4_item decls k m i _ _ _ _ Ei El1 Hk) as [Ei' _].
      destruct (ItemOK_all text D HD decls es Henv Hdecls Hcont k IHk i inh m en tl p (r_uitems r ++ post) c0 c frs acc lvl depth
                  (usteps_list r + fuel)%nat its1 tr1 ld1 Hw1 HW Hstop1 HO HS Hb Hm Hlvl Hldok Hfl Ei' El1 HP1 HR1 HN1)
        as (c0a & ca & frsa & K1 & e1 & E1 & HRes1).
      rewrite E1. pose proof HRes1 as (S1 & O1 & M1 & F1 & Le1 & Nc1 & D1 & D1' & Fl1 & T1).
      apply (IH inh m en tl (p + blen (r_item i)) post c0a ca frsa (snd (walk acc its1)) lvl depth fuel its2 tr2 Hw2 Hna2); try assumption.
      * apply (SL.WV_app text _ _ _ HW (uitem_valid m i Hw1)).
      * destruct r as [|d r']; [exact I|]. intros Hd. destruct (is_text epieces i) eqn:Eti.
        -- rewrite (Hnext d r' eq_refl eq_refl) in Hd. discriminate.
        -- destruct (inline_nontext_g decls k m i its1 tr1 Eti Ei') as (x & -> & Hx). rewrite walk_single by exact Hx. reflexivity.
      * rewrite D1, D1'. exact Hm.
      * rewrite D1, D1'. exact Hlvl.
      * rewrite D1, D1'. exact Hk.
      * rewrite D1. apply (ld_ok_run _ _ _ El1 Hldok).
      * rewrite Fl1. rewrite (CstEntText.Run_pp _ _ _ (or_run _ _ _ _ _ _ _ O1)). destruct S1 as (_ & _ & ->).
        rewrite <- (CstEntText.Run_pp _ _ _ (or_run _ _ _ _ _ _ _ HO)). exact Hfl.
      * rewrite D1. exact Hld.
      * apply (Rooms_app_r _ _ _ _ _ _ _ _ _ _ _ _ HRes1 HR).
    + apply (Hi inh m en tl p (r_uitems r ++ post) c0 c frs acc lvl depth (usteps_list r + fuel)%nat its1 tr1 Hw1 HW Hstop1 HO HS Hb Hm Hlvl Hk Hldok Hfl Ei El1 HP1 HR1 HN1).
Qed.

Theorem ItemF_all : forall i, ItemF i.
Proof.
  intros i. induction i as [n a w|n a w cs w2 IH|ps|bs|t s v] using fitem_ind.
  - apply ItemF_empty.
  - apply ItemF_open. apply ItemsF_of. exact IH.
  - apply ItemF_text.
  - intros inh m en tl p post c0 c frs acc lvl depth fuel its tr _ _ _ _ _ _ _ _ _ _ _ Hin Hld. cbn in Hin. injection Hin as _ <-. discriminate.
  - intros inh m en tl p post c0 c frs acc lvl depth fuel its tr _ _ _ _ _ _ _ _ _ _ _ Hin Hld. cbn in Hin. injection Hin as _ <-. discriminate.
Qed.

Theorem ItemsF_level : forall cs, ItemsF text D decls es k cs.
Proof. intros cs. apply ItemsF_of. apply Forall_forall. intros i _. apply ItemF_all. Qed.

End RejItems.

(* every level *)
Theorem Fail_all text D (HD : forall l, NoDup l -> incl l D -> N.of_nat (length l) <= 65535) decls es :
  Forall2 (uent_ok text) (map pd decls) es -> Forall udecl_okc (map pd decls) -> Forall decl_cont decls ->
  forall k, (forall cs, ItemsF text D decls es k cs) /\ TLfS text D decls es k.
Proof.
  intros Henv Hdecls Hcont. induction k as [|k [IH1 IH2]].
  - split; [apply (ItemsF_level text D HD decls es Henv Hdecls Hcont 0)|apply (TLf text D HD decls es Henv Hdecls Hcont 0)];
      intros k' E0; discriminate.
  - split; [apply (ItemsF_level text D HD decls es Henv Hdecls Hcont (S k))|apply (TLf text D HD decls es Henv Hdecls Hcont (S k))];
      intros k' E0; injection E0 as <-; assumption.
Qed.

Print Assumptions Fail_all.
