(* Proofs/CstSoundUCor.v -- C08/C03 on the UNICODE fragment: soundness (CstSoundUDoc.v) and
   completeness (CstUMain.v) together. *)
From Coq Require Import List NArith Bool Lia ZifyBool ZifyN ZifyNat.
Import ListNotations.
From RX Require Import Generated.
From RX.Model Require Import Base CharClass Stream Tokenizer Doc Builder Parse.
From RX.Spec Require Cst CstU.
From RX.Proofs Require CstMain CstUMain.
From RX.Proofs Require Import CstSound CstSoundU CstSoundUDoc.
Open Scope N_scope.

Theorem parse_sound_and_complete_u : forall text opt d,
  in_fragment_u text = true -> parse text opt = Ok d -> attrs_raw d ->
  N.of_nat (length text) <= nodes_limit opt ->      (* room for all nodes *)
  N.of_nat (length text) <= u32_max ->              (* the input is at most u32::MAX bytes long *)
  exists c : Cst.doc,
    CstU.wf_doc c = true /\ CstU.render c = text /\ CstMain.view text d = CstU.sem c.
Proof.
  intros text opt d Hf H Hraw Hlim Hsz.
  destruct (parse_sound_fragment_u text opt d Hf H Hraw) as (c & Hwf & Hr).
  exists c. split; [exact Hwf|]. split; [exact Hr|].
  destruct (CstUMain.render_bounds_u c Hwf) as [B1 _]. rewrite Hr in B1.
  destruct (CstUMain.parse_render_sem_u c opt Hwf) as (d' & Hp & Hv & _).
  - lia.
  - rewrite Hr. exact Hsz.
  - rewrite Hr in Hp, Hv. rewrite H in Hp. injection Hp as <-. exact Hv.
Qed.
Print Assumptions parse_sound_and_complete_u.
