(* Proofs/ErrShiftFinal.v -- C14, part 6: parse under a shift by prolog whitespace fails with the
   same error at the same place of the document. *)
From Coq Require Import Ascii String.
From Coq Require Import List Arith NArith Bool Lia ZifyBool ZifyN ZifyNat.
Import ListNotations.
From RX Require Import Generated.
From RX.Model Require Import Base CharClass Stream Tokenizer Doc Builder Parse.
From RX.Proofs Require Import Tactics NoPanicUtf8 NoPanicStream PositionProofs
  RangeShiftBase RangeShiftStream RangeShiftTokenizer RangeShiftBuilder RangeShiftParse
  ErrShiftBase ErrShiftStream ErrShiftTokenizer ErrShiftBuilder ErrShiftParse.
Open Scope N_scope.

(* ---- the final checks of parse never fail with an error ---- *)
Lemma np_node_data_of d id : nopos_res (node_data_of d id).
Proof. unfold node_data_of. destruct (get_node d id); exact I. Qed.
Lemma np_node_unwrap d id : nopos_res (node_unwrap d id).
Proof. unfold node_unwrap. destruct (get_node d id); exact I. Qed.
Lemma np_opt_unwrap_node d o : nopos_res (opt_unwrap_node d o).
Proof.
  unfold opt_unwrap_node. destruct o; [|exact I]. apply nopos_bind; [apply np_node_unwrap|]. intros; exact I.
Qed.
Lemma np_first_child d id : nopos_res (first_child d id).
Proof.
  unfold first_child. apply nopos_bind; [apply np_node_data_of|]. intros nd.
  destruct (nd_last_child nd); [|exact I]. apply nopos_bind; [apply np_node_id_new|]. intros c.
  apply nopos_bind; [apply np_node_unwrap|]. intros; exact I.
Qed.
Lemma np_last_child d id : nopos_res (last_child d id).
Proof. unfold last_child. apply nopos_bind; [apply np_node_data_of|]. intros nd. apply np_opt_unwrap_node. Qed.
Lemma np_children d id : nopos_res (children d id).
Proof.
  unfold children. apply nopos_bind; [apply np_first_child|]. intros f.
  apply nopos_bind; [apply np_last_child|]. intros; exact I.
Qed.
Lemma np_next_sibling d id : nopos_res (next_sibling d id).
Proof.
  unfold next_sibling. apply nopos_bind; [apply np_node_data_of|]. intros nd.
  destruct (nd_next_subtree nd); [|exact I]. apply nopos_bind; [apply np_node_unwrap|]. intros n1.
  apply nopos_bind; [apply np_node_data_of|]. intros nnd. destruct (nd_prev_sibling nnd); [|exact I].
  destruct (_ =? _); exact I.
Qed.
Lemma np_children_next d it : nopos_res (children_next d it).
Proof.
  unfold children_next. destruct (opt_N_eqb _ _); [exact I|]. destruct (ch_front it); [|exact I].
  apply nopos_bind; [apply np_next_sibling|]. intros; exact I.
Qed.
Lemma np_children_any_element d : forall fuel it, nopos_res (children_any_element fuel d it).
Proof.
  induction fuel as [|fu IH]; intros it; cbn [children_any_element]; [exact I|].
  apply nopos_bind; [apply np_children_next|]. intros [o it']. destruct o; [|exact I].
  apply nopos_bind; [unfold node_is_element; apply nopos_bind; [apply np_node_data_of|intros; exact I]|].
  intros e. destruct e; [exact I|apply IH].
Qed.

Section Shift.
Variable ws text : bytes.
Hypothesis Hvalid : valid_utf8_b text = true.
Hypothesis Hws : forallb byte_is_space ws = true.
Notation text2 := (ws ++ text).
Notation k := (blen ws).
Notation shd := (sh_doc k).
Notation resE := (resE ws text).

Lemma resE_bind_same {A B B'} (g : B -> B') (r : res A) k1 k2 :
  nopos_res r -> (forall a, resE g (k1 a) (k2 a)) -> resE g (bind r k1) (bind r k2).
Proof.
  intros Hn Hk. destruct r; cbn [bind]; [apply Hk| |exact I|exact I].
  cbn. exists e. split; [reflexivity|apply ER_same; exact Hn].
Qed.

Lemma parse_resE opt : ws <> [] ->
  starts_with (stream_new text) [239; 187; 191] = false ->
  starts_with_declaration (stream_new text) = false ->
  resE shd (parse text opt) (parse text2 opt).
Proof.
  intros Hne Hbom Hdecl. unfold parse.
  eapply resE_bind; [apply rsimE_resE; apply init_context_shE|]. intros c0 _. cbv beta.
  eapply resE_bind.
  { apply (parse_document_shE ws text Hvalid Hws context (Parse.token text) (Parse.token text2) (sh_ctx k)).
    - intros tok c Hwf. eapply token_shE; eassumption.
    - exact Hne.
    - exact Hbom.
    - exact Hdecl. }
  intros c1 _. cbv beta zeta. cbn [sh_ctx c_doc c_parent_prefixes].
  rewrite (children_sh ws). apply resE_bind_same; [apply np_children|]. intros it.
  cbn [sh_doc d_nodes]. rewrite map_length, (children_any_element_sh ws).
  apply resE_bind_same; [apply np_children_any_element|]. intros he.
  destruct (negb he). { cbn. eexists; split; [reflexivity|apply ER_same; reflexivity]. }
  rewrite len_N_map. destruct (1 <? _). { cbn. eexists; split; [reflexivity|apply ER_same; reflexivity]. }
  reflexivity.
Qed.

End Shift.

(* ------------------------------------------------------------------ *)
Lemma text_pos_at_gen text off : off <= tlen text -> is_boundary text off = true ->
  text_pos_at text off = gen_text_pos_at text off.
Proof.
  intros Hle Hb. unfold text_pos_at, gen_text_pos_from. rewrite N.min_l by lia.
  unfold floor_boundary. cbn [floor_boundary_fuel]. rewrite Hb. reflexivity.
Qed.

Lemma forallb_space_one : forallb byte_is_space [32] = true.
Proof. reflexivity. Qed.

Lemma ErrRel_out ws text e e' : valid_utf8_b text = true -> ErrRel ws text e e' ->
  err_kind e = err_kind e' /\ (has_pos e = false -> e' = e) /\
  (has_pos e = true -> exists off, off <= tlen text /\ is_boundary text off = true /\
      text_pos_at text off = Ok (error_pos e) /\
      text_pos_at (ws ++ text) (off + blen ws) = Ok (error_pos e')).
Proof.
  intros Hv H. destruct H as [e H|e e' H1 H2 (off & L1 & L2 & L3 & L4)].
  - split; [reflexivity|]. split; [reflexivity|]. intros H'. congruence.
  - split; [exact H2|]. split; [intros H'; congruence|]. intros _. exists off.
    split; [exact L1|]. split; [exact L2|]. split.
    + rewrite text_pos_at_gen by assumption. exact L3.
    + rewrite text_pos_at_gen; [exact L4| |].
      * rewrite (tlen_shift ws). lia.
      * rewrite (is_boundary_shift ws text Hv). exact L2.
Qed.

Theorem parse_err_shift : forall ws text opt e,
  forallb byte_is_space ws = true -> valid_utf8_b text = true ->
  starts_with (stream_new text) [239;187;191] = false -> starts_with_declaration (stream_new text) = false ->
  parse text opt = Err e ->
  exists e', parse (ws ++ text) opt = Err e' /\
    (* same variant, same payload *)
    err_kind e = err_kind e' /\
    (* errors without a position are equal outright *)
    (has_pos e = false -> e' = e) /\
    (* the position is that of the same place of the document *)
    (has_pos e = true -> exists off, off <= tlen text /\ is_boundary text off = true /\
        text_pos_at text off = Ok (error_pos e) /\
        text_pos_at (ws ++ text) (off + blen ws) = Ok (error_pos e')).
Proof.
  intros ws text opt e Hws Hv Hbom Hdecl H.
  destruct ws as [|w ws'] eqn:Ews.
  - (* nothing is inserted; the offset comes from the run with one space *)
    exists e. cbn [app]. split; [exact H|]. split; [reflexivity|]. split; [reflexivity|].
    intros Hp.
    pose proof (parse_resE [32] text Hv forallb_space_one opt ltac:(discriminate) Hbom Hdecl) as HR.
    rewrite H in HR. destruct HR as [e1 [_ HE]].
    destruct (ErrRel_out _ _ _ _ Hv HE) as (_ & _ & Hoff). destruct (Hoff Hp) as (off & L1 & L2 & L3 & _).
    exists off. unfold blen. cbn [length N.of_nat]. rewrite N.add_0_r. auto.
  - rewrite <- Ews in *. assert (Hne : ws <> []) by (rewrite Ews; discriminate).
    pose proof (parse_resE ws text Hv Hws opt Hne Hbom Hdecl) as HR.
    rewrite H in HR. destruct HR as [e' [He' HE]]. exists e'. split; [exact He'|].
    apply ErrRel_out; assumption.
Qed.
Print Assumptions parse_err_shift.

(* the Ok side, for completeness (RangeShiftParse.parse_sh without the side conditions) *)
Theorem parse_ok_shift : forall ws text opt d,
  forallb byte_is_space ws = true -> valid_utf8_b text = true -> ws <> [] ->
  starts_with (stream_new text) [239;187;191] = false -> starts_with_declaration (stream_new text) = false ->
  parse text opt = Ok d -> parse (ws ++ text) opt = Ok (sh_doc (blen ws) d).
Proof.
  intros ws text opt d Hws Hv Hne Hbom Hdecl H.
  pose proof (parse_resE ws text Hv Hws opt Hne Hbom Hdecl) as HR. rewrite H in HR. exact HR.
Qed.
Print Assumptions parse_ok_shift.

(* ---- the two corollaries about rows and columns ---- *)
Lemma forallb_space_repeat x n : byte_is_space x = true -> forallb byte_is_space (repeat x n) = true.
Proof. intros H. induction n; cbn [repeat forallb]; [reflexivity|]. rewrite H, IHn. reflexivity. Qed.

(* (a) n spaces in front: same row; on the first row the column moves by n *)
Corollary parse_err_shift_spaces : forall n text opt e, valid_utf8_b text = true ->
  starts_with (stream_new text) [239;187;191] = false -> starts_with_declaration (stream_new text) = false ->
  parse text opt = Err e -> has_pos e = true ->
  exists e', parse (repeat 32 n ++ text) opt = Err e' /\ err_kind e = err_kind e' /\
    error_pos e' = (fst (error_pos e),
                    if fst (error_pos e) =? 1 then N.of_nat n + snd (error_pos e) else snd (error_pos e)).
Proof.
  intros n text opt e Hv Hbom Hdecl H Hp.
  destruct (parse_err_shift (repeat 32 n) text opt e (forallb_space_repeat 32 n eq_refl) Hv Hbom Hdecl H)
    as (e' & He' & Hk & _ & Hoff).
  exists e'. split; [exact He'|]. split; [exact Hk|].
  destruct (Hoff Hp) as (off & L1 & L2 & L3 & L4). destruct (error_pos e) as [r c] eqn:Epos.
  pose proof (text_pos_shift_spaces_valid text n off r c Hv L1 L2 L3) as HS.
  rewrite blen_repeat, N.add_comm in L4. rewrite HS in L4. injection L4 as <-. reflexivity.
Qed.
Print Assumptions parse_err_shift_spaces.

(* (b) n line breaks in front: the row moves by n, same column *)
Corollary parse_err_shift_lines : forall n text opt e, valid_utf8_b text = true ->
  starts_with (stream_new text) [239;187;191] = false -> starts_with_declaration (stream_new text) = false ->
  parse text opt = Err e -> has_pos e = true ->
  exists e', parse (repeat 10 n ++ text) opt = Err e' /\ err_kind e = err_kind e' /\
    error_pos e' = (N.of_nat n + fst (error_pos e), snd (error_pos e)).
Proof.
  intros n text opt e Hv Hbom Hdecl H Hp.
  destruct (parse_err_shift (repeat 10 n) text opt e (forallb_space_repeat 10 n eq_refl) Hv Hbom Hdecl H)
    as (e' & He' & Hk & _ & Hoff).
  exists e'. split; [exact He'|]. split; [exact Hk|].
  destruct (Hoff Hp) as (off & L1 & L2 & L3 & L4). destruct (error_pos e) as [r c] eqn:Epos.
  pose proof (text_pos_shift_lines_valid text n off r c Hv L1 L2 L3) as HS.
  rewrite blen_repeat, N.add_comm in L4. rewrite HS in L4. injection L4 as <-. reflexivity.
Qed.
Print Assumptions parse_err_shift_lines.
