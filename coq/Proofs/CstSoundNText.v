(* Proofs/CstSoundNText.v -- C08 soundness WITH NAMESPACES (stage S2 of Spec/CstFull.v): the PIECES of a
   text token and of the value of an attribute / namespace declaration, over a UTF-8 text.
   Part 1 (this section) is CstSoundTText.v without the ASCII hypothesis: the builder walks over the
   token byte by byte and every '&' must start a character or predefined reference; the pieces are
   first read off as BYTE pieces.  Part 2 decodes the literals: a token is the encoding of Chars
   (checked by the tokenizer), the references are ASCII, so every literal is the encoding of a list
   of Chars.  Part 3: what the builder does with a text token / a value. *)
From Coq Require Import String.
From Coq Require Import List Arith NArith Bool Lia ZifyBool ZifyN ZifyNat.
Import ListNotations.
From RX Require Import Generated.
From RX.Model Require Import Base CharClass Stream Tokenizer Doc Builder Parse.
From RX.Spec Require Cst Chars CstU CstNs Scope.
From RX.Spec Require CstText.
From RX.Spec Require Import CstFull.
From RX.Proofs Require Import Tactics CstLex CstULex CstTextLex.
From RX.Proofs Require RejectProofs CharTablesProofs BorrowParse WfParse CstBuild CstTextBuild CstFullS2Lex CstFullS2Sem CstFullS2Build.
From RX.Proofs Require Import CstSound CstSoundT CstSoundTLex CstSoundULex CstSoundBuild CstSoundTBuild CstSoundTText.
From RX.Proofs Require Import CstSoundN CstSoundNLex CstSoundNBuild.
Open Scope N_scope.


(* ------------------------------------------------------------------------------------------ *)
(* decoding the literals                                                                        *)

Lemma prefix_before (q : N) : forall (a bs X rest : bytes), a ++ X = bs ++ q :: rest ->
  Forall (fun y => y <> q) a -> exists bs', bs = a ++ bs' /\ X = bs' ++ q :: rest.
Proof.
  induction a as [|y a IH]; intros bs X rest E Ha; [exists bs; auto|].
  inversion Ha as [|? ? Hy Ha']; subst. destruct bs as [|b0 bs0]; cbn [app] in E.
  - injection E as -> _. congruence.
  - injection E as -> E. destruct (IH _ _ _ E Ha') as (bs' & -> & ->). exists bs'. auto.
Qed.

Lemma utf8_no_byte q c : q < 128 -> c <> q -> Forall (fun y => y <> q) (utf8 c).
Proof.
  intros Hq Hc. destruct (N.lt_ge_cases c 128) as [L|L].
  - rewrite (utf8_ascii c L). constructor; [exact Hc|constructor].
  - destruct (utf8_high c L) as (Hh & _). eapply Forall_impl; [|exact Hh]. cbv beta. intros y Hy. lia.
Qed.

Lemma utf8s_split_at q : q < 128 -> forall cs bs rest, utf8s cs = bs ++ q :: rest -> Forall (fun y => y <> q) bs ->
  exists cs1 cs2, cs = cs1 ++ q :: cs2 /\ utf8s cs1 = bs /\ utf8s cs2 = rest.
Proof.
  intros Hq. induction cs as [|c cs IH]; intros bs rest E Hb.
  - destruct bs; discriminate.
  - rewrite utf8s_cons in E. destruct (N.eq_dec c q) as [->|Hc].
    + rewrite (utf8_ascii q Hq) in E. cbn [app] in E. destruct bs as [|b0 bs0].
      * cbn [app] in E. injection E as E. exists [], cs. auto.
      * cbn [app] in E. injection E as <- _. inversion Hb; congruence.
    + destruct (prefix_before q _ _ _ _ E (utf8_no_byte q c Hq Hc)) as (bs' & -> & E').
      apply Forall_app in Hb. destruct Hb as [_ Hb'].
      destruct (IH _ _ E' Hb') as (cs1 & cs2 & -> & <- & <-). exists (c :: cs1), cs2. rewrite utf8s_cons. auto.
Qed.

Lemma utf8s_ascii_prefix : forall r cs rest, Forall (fun y => y < 128) r -> utf8s cs = r ++ rest ->
  exists cs', cs = r ++ cs' /\ utf8s cs' = rest.
Proof.
  induction r as [|y r IH]; intros cs rest Hr E; [exists cs; auto|].
  inversion Hr as [|? ? Hy Hr']; subst. destruct cs as [|c cs0]; [discriminate|]. rewrite utf8s_cons in E.
  destruct (N.lt_ge_cases c 128) as [L|L].
  - rewrite (utf8_ascii c L) in E. cbn [app] in E. injection E as -> E.
    destruct (IH _ _ Hr' E) as (cs' & -> & <-). exists cs'. auto.
  - destruct (utf8_high c L) as (_ & b1 & t1 & E1 & Hb1). rewrite E1 in E. cbn [app] in E. injection E as -> _. lia.
Qed.

Definition lit_in (cs : list N) (p : T.piece) : Prop :=
  match p with T.PLit l => exists pre post, cs = pre ++ l ++ post | _ => True end.

Lemma lit_in_pre a cs p : lit_in cs p -> lit_in (a ++ cs) p.
Proof.
  destruct p; cbn [lit_in]; auto. intros (pre & post & ->). exists (a ++ pre), post. rewrite <- app_assoc. reflexivity.
Qed.

Lemma ref_piece_ascii p : piece_ok p -> T.is_lit p = false ->
  Forall (fun y => y < 128) (T.r_piece p) /\ exists t, T.r_piece p = 38 :: t.
Proof.
  destruct p as [bs|hex ds|pe|bs]; cbn [piece_ok T.is_lit T.r_piece]; intros Hp Hl; try discriminate; try contradiction.
  - split; [|eexists; reflexivity]. unfold T.wf_charref in Hp. apply andb_true_iff in Hp. destruct Hp as [Hp _].
    apply andb_true_iff in Hp. destruct Hp as [_ Hd]. apply CstFullS2Lex.digits_lit in Hd.
    apply Forall_app; split; [repeat constructor; lia|]. apply Forall_app; split; [destruct hex; repeat constructor; lia|].
    apply Forall_app; split; [|repeat constructor; lia].
    apply Forall_forall. intros y Hy. rewrite forallb_forall in Hd. specialize (Hd y Hy). lia.
  - split; [|eexists; reflexivity]. destruct pe; cbn; repeat constructor; lia.
Qed.

Lemma decode_pieces : forall ps cs, utf8s cs = T.r_pieces ps -> pieces_ok ps ->
  exists ps', enc_pieces ps' = ps /\ Forall (lit_in cs) ps'.
Proof.
  induction ps as [|p ps IH]; intros cs E [HFo HA]; [exists []; split; [reflexivity|constructor]|].
  inversion HFo as [|? ? Hp Hps]; subst.
  assert (HA' : T.no_adjacent_lit ps = true).
  { destruct ps as [|p2 r]; [reflexivity|].
    change (negb (T.is_lit p && T.is_lit p2) && T.no_adjacent_lit (p2 :: r) = true) in HA. apply andb_true_iff in HA. tauto. }
  change (T.r_pieces (p :: ps)) with (T.r_piece p ++ T.r_pieces ps) in E.
  destruct (T.is_lit p) eqn:El.
  - destruct p as [bs| | |]; try discriminate. cbn [T.r_piece] in E. destruct Hp as [Hne H38].
    destruct ps as [|p2 r].
    + cbn in E. rewrite app_nil_r in E. exists [T.PLit cs]. split; [unfold enc_pieces; cbn [map enc_piece]; rewrite E; reflexivity|].
      constructor; [|constructor]. exists [], []. rewrite app_nil_r. reflexivity.
    + assert (Hl2 : T.is_lit p2 = false).
      { change (negb (true && T.is_lit p2) && T.no_adjacent_lit (p2 :: r) = true) in HA. destruct (T.is_lit p2); [discriminate|reflexivity]. }
      inversion Hps as [|? ? Hp2 _]; subst. destruct (ref_piece_ascii p2 Hp2 Hl2) as (_ & t & Et).
      change (T.r_pieces (p2 :: r)) with (T.r_piece p2 ++ T.r_pieces r) in E. rewrite Et in E. cbn [app] in E.
      destruct (utf8s_split_at 38 ltac:(lia) _ _ _ E H38) as (cs1 & cs2 & -> & E1 & E2).
      destruct (IH (38 :: cs2)) as (ps' & Eps & Hin).
      { rewrite utf8s_cons, (utf8_ascii 38) by lia. cbn [app]. rewrite E2.
        change (T.r_pieces (p2 :: r)) with (T.r_piece p2 ++ T.r_pieces r). rewrite Et. reflexivity. }
      { split; assumption. }
      exists (T.PLit cs1 :: ps'). split; [unfold enc_pieces in *; cbn [map enc_piece]; rewrite E1, Eps; reflexivity|].
      constructor; [exists [], (38 :: cs2); reflexivity|].
      eapply Forall_impl; [|exact Hin]. intros q0. apply lit_in_pre.
  - destruct (ref_piece_ascii p Hp El) as (Hasc & _).
    destruct (utf8s_ascii_prefix _ _ _ Hasc E) as (cs' & -> & E').
    destruct (IH cs' E' (conj Hps HA')) as (ps' & Eps & Hin).
    exists (p :: ps'). split; [unfold enc_pieces in *; cbn [map]; rewrite Eps; f_equal; destruct p as [bs| | |bs]; cbn in El, Hp; try reflexivity; [discriminate|destruct Hp]|].
    constructor; [destruct p; cbn in El; try exact I; discriminate|].
    eapply Forall_impl; [|exact Hin]. intros q0. apply lit_in_pre.
Qed.

Lemma enc_lit_ne l bs : utf8s l = bs -> bs <> [] -> l <> [].
Proof. intros E Hb ->. apply Hb. rewrite <- E. reflexivity. Qed.

Lemma uchars_xml cs : uchars cs -> forallb Chars.xml_Char cs = true.
Proof.
  intros H. apply forallb_forall. intros x Hx. unfold uchars in H. rewrite Forall_forall in H.
  destruct (H x Hx) as [Hs Hc]. destruct (CharTablesProofs.char_tables_conform x Hs) as (E & _). rewrite <- E. exact Hc.
Qed.

Lemma uchars_sub pre l post : uchars (pre ++ l ++ post) -> uchars l.
Proof. unfold uchars. intros H. apply Forall_app in H. destruct H as [_ H]. apply Forall_app in H. tauto. Qed.

Lemma Forall_sub {A} (P : A -> Prop) pre l post : Forall P (pre ++ l ++ post) -> Forall P l.
Proof. intros H. apply Forall_app in H. destruct H as [_ H]. apply Forall_app in H. tauto. Qed.

(* the pieces of a decoded value / text: every piece well formed *)
Lemma decoded_lit_ok q cs ps' l : q < 128 -> uchars cs -> Forall (fun x => x <> 60 /\ x <> q) cs ->
  pieces_ok (enc_pieces ps') -> Forall (lit_in cs) ps' -> In (T.PLit l) ps' -> wf_ulit q l = true.
Proof.
  intros Hq Hu Hb [HFo _] Hin Hl. rewrite Forall_forall in Hin. destruct (Hin _ Hl) as (pre & post & ->).
  rewrite Forall_forall in HFo. assert (Hpo : piece_ok (T.PLit (utf8s l))).
  { apply HFo. change (T.PLit (utf8s l)) with (enc_piece (T.PLit l)). apply in_map. exact Hl. }
  destruct Hpo as [Hne H38]. unfold wf_ulit.
  assert (Hlne : l <> []) by (eapply enc_lit_ne; [reflexivity|exact Hne]).
  destruct l as [|x0 l0]; [congruence|]. cbn [andb].
  pose proof (uchars_xml _ (uchars_sub _ _ _ Hu)) as Hx. pose proof (Forall_sub _ _ _ _ Hb) as Hb'.
  pose proof (scalars_ne 38 _ ltac:(lia) H38) as N38.
  apply forallb_forall. intros y Hy. rewrite forallb_forall in Hx. rewrite Forall_forall in Hb', N38.
  rewrite (Hx y Hy). destruct (Hb' y Hy). specialize (N38 y Hy). cbn [andb]. lia.
Qed.

Definition utparts_ok (ps : list T.piece) : Prop :=
  forallb wf_utpiece ps = true /\ T.no_adjacent_lit ps = true /\ ps <> [].

Lemma decoded_text cs ps : raw_text_ok_n cs -> utf8s cs = T.r_pieces ps -> pieces_ok ps ->
  exists ps', enc_pieces ps' = ps /\ utparts_ok ps'.
Proof.
  intros (Hne & Hu & H60 & Hc) E Hok. destruct (decode_pieces ps cs E Hok) as (ps' & Eps & Hin).
  exists ps'. split; [exact Eps|]. subst ps. split; [|split].
  - apply forallb_forall. intros pc Hpc. destruct pc as [l|hex ds|pe|l]; cbn [wf_utpiece].
    + assert (Hb : Forall (fun x => x <> 60 /\ x <> 60) cs) by (eapply Forall_impl; [|exact H60]; cbv beta; auto).
      rewrite (decoded_lit_ok 60 cs ps' l ltac:(lia) Hu Hb Hok Hin Hpc). cbn [andb]. apply negb_true_iff.
      rewrite Forall_forall in Hin. destruct (Hin _ Hpc) as (pre & post & Ecs). rewrite contains_eq.
      rewrite Ecs in Hc. eapply contains_mid; [discriminate|exact Hc].
    + destruct Hok as [HFo _]. rewrite Forall_forall in HFo.
      apply (HFo (enc_piece (T.PCharRef hex ds))). apply in_map. exact Hpc.
    + reflexivity.
    + exfalso. destruct Hok as [HFo _]. rewrite Forall_forall in HFo.
      apply (HFo (enc_piece (T.PCData l))). apply in_map. exact Hpc.
  - rewrite <- CstFullS2Sem.enc_no_adjacent. apply Hok.
  - intros ->. cbn in E. destruct cs as [|c0 cs0]; [congruence|]. rewrite utf8s_cons in E.
    destruct (utf8_nonempty c0 (utf8s cs0)) as (b0 & t & Eb). rewrite Eb in E. discriminate.
Qed.

Lemma decoded_value q v ps : q < 128 -> uchars v -> Forall (fun x => x <> 60 /\ x <> q) v ->
  utf8s v = T.r_pieces ps -> pieces_ok ps -> exists ps', enc_pieces ps' = ps /\ wf_uvalue q ps' = true.
Proof.
  intros Hq Hu Hb E Hok. destruct (decode_pieces ps v E Hok) as (ps' & Eps & Hin).
  exists ps'. split; [exact Eps|]. subst ps. unfold wf_uvalue. apply andb_true_iff. split.
  - apply forallb_forall. intros pc Hpc. destruct pc as [l|hex ds|pe|l]; cbn [wf_uvpiece].
    + exact (decoded_lit_ok q v ps' l Hq Hu Hb Hok Hin Hpc).
    + destruct Hok as [HFo _]. rewrite Forall_forall in HFo.
      apply (HFo (enc_piece (T.PCharRef hex ds))). apply in_map. exact Hpc.
    + reflexivity.
    + exfalso. destruct Hok as [HFo _]. rewrite Forall_forall in HFo.
      apply (HFo (enc_piece (T.PCData l))). apply in_map. exact Hpc.
  - rewrite <- CstFullS2Sem.enc_no_adjacent. apply Hok.
Qed.

Section TextN.
Variable text : bytes.
Hypothesis HF : FragN text.
Notation W := (CstLex.W text).
Notation WV := (CstULex.WV text).
Notation sb := (slice_bytes text).
Notation T_ := (Parse.token text).
Notation WS := (CstSoundTText.WS text).
Notation WS_cons := (CstSoundTText.WS_cons text).
Notation WS_app := (CstSoundTText.WS_app text).
Notation try_ws := (CstSoundTText.try_ws text).
Notation skip_bytes_ws := (CstSoundTText.skip_bytes_ws text).
Notation consume_byte_ws := (CstSoundTText.consume_byte_ws text).

(* ---- names read from a window (entity names: any Name) ---- *)
Lemma skip_name_loop_wsv : forall fuel e p l more s', WS e p l more -> U8.Valid l ->
  skip_name_loop fuel (sst e p (l ++ more)) = Ok s' ->
  exists x l', l = x ++ l' /\ s' = sst e (p + blen x) (l' ++ more).
Proof.
  induction fuel as [|fu IH]; intros e p l more s' HW HV H; cbn [skip_name_loop] in H; [noerr|].
  pose proof HW as [HW0 Hw].
  destruct (Valid_inv l HV) as [->|(c & l' & -> & Hc & Hv')].
  { unfold next_char in H. rewrite at_end_sst in H. rewrite blen_nil in Hw. replace (e <=? p) with true in H by lia.
    cbn [bind] in H. inversion H; subst. exists [], []. rewrite blen_nil, N.add_0_r. auto. }
  rewrite blen_app in Hw. rewrite <- app_assoc in H.
  rewrite CstFullS2Lex.next_char_sst_u in H by (try exact Hc; lia). cbn [bind] in H.
  destruct (char_is_name c).
  - rewrite CstFullS2Lex.advance_sst_u in H by lia. cbn [bind] in H.
    assert (HW1 : WS e (p + blen (utf8 c)) l' more) by (apply (WS_app e p (utf8 c)); exact HW).
    destruct (IH _ _ _ _ _ HW1 Hv' H) as (x & l2 & -> & ->). exists (utf8 c ++ x), l2.
    rewrite blen_app, <- app_assoc, N.add_assoc. auto.
  - inversion H; subst. exists [], (utf8 c ++ l'). rewrite blen_nil, N.add_0_r, <- app_assoc. auto.
Qed.

Lemma consume_name_wsv e p l more nm s' : WS e p l more -> U8.Valid l -> consume_name text (sst e p (l ++ more)) = Ok (nm, s') ->
  exists name l', l = name ++ l' /\ name <> [] /\ sb nm = name /\ s' = sst e (p + blen name) (l' ++ more) /\
                  WS e (p + blen name) l' more.
Proof.
  intros HW HV H. pose proof HW as [HW0 Hw].
  unfold consume_name in H. cbn [sst s_pos] in H. ib H s1 H1. ib H s2 H2.
  unfold slice_back in H2. apply mk_slice_sl in H2. subst s2.
  destruct (slice_len (sl p (s_pos s1)) =? 0) eqn:El; [noerr|]. injection H as <- <-.
  unfold skip_name in H1.
  destruct (Valid_inv l HV) as [->|(c & l' & -> & Hc & Hv')].
  { unfold next_char in H1. rewrite at_end_sst in H1. rewrite blen_nil in Hw. replace (e <=? p) with true in H1 by lia.
    cbn [bind] in H1. injection H1 as <-. unfold slice_len in El. cbn in El. lia. }
  rewrite blen_app in Hw. rewrite <- app_assoc in H1.
  rewrite CstFullS2Lex.next_char_sst_u in H1 by (try exact Hc; lia). cbn [bind] in H1.
  destruct (char_is_name_start c); [|noerr].
  rewrite CstFullS2Lex.advance_sst_u in H1 by lia. cbn [bind] in H1.
  assert (HW1 : WS e (p + blen (utf8 c)) l' more) by (apply (WS_app e p (utf8 c)); exact HW).
  destruct (skip_name_loop_wsv _ _ _ _ _ _ HW1 Hv' H1) as (x & l2 & -> & ->).
  exists (utf8 c ++ x), l2. cbn [sst s_pos]. rewrite blen_app, N.add_assoc.
  split; [rewrite <- app_assoc; reflexivity|]. split.
  { pose proof (utf8_len c) as Hl. destruct (utf8 c); [unfold blen in Hl; cbn in Hl; lia|discriminate]. }
  split.
  { rewrite <- N.add_assoc, <- blen_app. rewrite !app_assoc in HW0. rewrite <- (app_assoc _ l2 more) in HW0.
    apply (W_slice text _ _ _ HW0). }
  split; [reflexivity|]. rewrite <- N.add_assoc, <- blen_app. apply (WS_app e p (utf8 c ++ x)).
  rewrite <- app_assoc. exact HW.
Qed.

(* ---- consume_reference on a window ---- *)
Lemma ref_ok_here p rest : W p (38 :: 35 :: rest) -> ref_ok_at rest = true.
Proof.
  intros [H _]. pose proof (charrefs_skipn (N.to_nat p) text (fn_refs _ HF)) as Hc. rewrite H in Hc.
  cbn [charrefs_scalar] in Hc. apply andb_true_iff in Hc. tauto.
Qed.

Lemma cref_inv_n e p l1 more r s' : WS e p (38 :: l1) more -> U8.Valid (38 :: l1) ->
  consume_reference text (sst e p ((38 :: l1) ++ more)) = Ok (Some (r, s')) ->
  (exists (hex : bool) ds l', l1 = [35] ++ (if hex then [120] else []) ++ ds ++ [59] ++ l' /\
      T.wf_charref hex ds = true /\ (exists ch, r = RefChar ch) /\
      s' = sst e (p + 2 + (if hex then 1 else 0) + blen ds + 1) (l' ++ more) /\
      WS e (p + 2 + (if hex then 1 else 0) + blen ds + 1) l' more) \/
  (exists pe l', l1 = T.predef_name pe ++ [59] ++ l' /\ (exists ch, r = RefChar ch) /\
      s' = sst e (p + 1 + blen (T.predef_name pe) + 1) (l' ++ more) /\
      WS e (p + 1 + blen (T.predef_name pe) + 1) l' more) \/
  (exists nm, r = RefEntity nm).
Proof.
  intros HW HV H. unfold consume_reference in H. rewrite (try_ws 38 _ _ _ _ HW) in H.
  change (38 =? 38) with true in H. cbv iota in H. cbn [negb] in H.
  pose proof (WS_cons _ _ _ _ _ HW) as HW1.
  assert (HV1 : U8.Valid l1) by (apply (Valid_app_inv [38] l1); [apply Valid_lit; reflexivity|exact HV]).
  rewrite (try_ws 35 _ _ _ _ HW1) in H.
  destruct l1 as [|x1 l2].
  { (* "&" at the end of the window *)
    cbv iota in H. destruct (consume_name text _) as [[nm s2]| | |] eqn:En; cbn [bind] in H; try discriminate.
    destruct (consume_name_wsv _ _ _ _ _ _ HW1 HV1 En) as (name & l' & E & Hne & _). destruct name; [congruence|discriminate]. }
  destruct (x1 =? 35) eqn:E35.
  - (* numeric *)
    assert (x1 = 35) by lia. subst x1. cbv iota in H.
    pose proof (WS_cons _ _ _ _ _ HW1) as HW2.
    rewrite (try_ws 120 _ _ _ _ HW2) in H.
    assert (NUM : forall hex l3 q, WS e q l3 more -> (hex = false -> match l3 with 120 :: _ => False | _ => True end) ->
              l2 = (if hex then [120] else []) ++ l3 -> q = p + 2 + (if hex then 1 else 0) ->
              (let! r0 := (let! (value, s) := consume_bytes text (if hex then is_ascii_hexdigit else is_ascii_digit) (sst e q (l3 ++ more)) in
                 let digits := slice_bytes text value in
                 match digits with
                 | [] => Ok None
                 | _ => let n := digits_val (if hex then 16 else 10) digits 0 in
                        if u32_max <? n then Ok None
                        else let c := if is_scalar n then n else 65533 in
                             if negb (char_is_char c) then Ok None else Ok (Some (RefChar c, s))
                 end) in
               match r0 with
               | None => Ok None
               | Some (r, s) => match consume_byte text 59 s with
                                | Ok s' => Ok (Some (r, s')) | Err _ => Ok None | Panic p => Panic p | OutOfFuel => OutOfFuel end
               end) = Ok (Some (r, s')) ->
              exists ds l', l3 = ds ++ [59] ++ l' /\ T.wf_charref hex ds = true /\ (exists ch, r = RefChar ch) /\
                s' = sst e (q + blen ds + 1) (l' ++ more) /\ WS e (q + blen ds + 1) l' more).
    { intros hex l3 q HW3 Hnx El2 Eq H0. ib H0 r0 Hr0. ib Hr0 vq Hvq. destruct vq as [value s3].
      unfold consume_bytes in Hvq.
      destruct (skip_bytes_ws (if hex then is_ascii_hexdigit else is_ascii_digit) _ _ _ _ HW3)
        as (ds & l4 & -> & Hds & Hst & Esk & HW4).
      rewrite Esk in Hvq. ib Hvq vsl Hsl. unfold slice_back in Hsl. apply mk_slice_sl in Hsl. cbn [sst s_pos] in Hsl.
      inversion Hvq; subst value s3. clear Hvq. subst vsl.
      pose proof (proj1 HW3) as HW30. rewrite <- app_assoc in HW30.
      rewrite (W_slice text q ds _ HW30) in Hr0.
      destruct ds as [|d0 dr] eqn:Eds; [inversion Hr0; subst r0; discriminate|]. rewrite <- Eds in *.
      assert (Hdne : ds <> []) by (rewrite Eds; discriminate). clear Eds.
      destruct ds as [|d0' dr']; [congruence|]. cbv zeta in Hr0.
      destruct (u32_max <? digits_val (if hex then 16 else 10) (d0' :: dr') 0); [inversion Hr0; subst r0; discriminate|].
      set (n := digits_val (if hex then 16 else 10) (d0' :: dr') 0) in *.
      destruct (char_is_char (if is_scalar n then n else 65533)) eqn:Ecc; cbn [negb] in Hr0; inversion Hr0; subst r0; [|discriminate].
      destruct (consume_byte text 59 _) as [s4| | |] eqn:E59; inversion H0; subst r s'. clear H0 Hr0.
      destruct (consume_byte_ws _ _ _ _ _ _ HW4 E59) as (l5 & -> & ->).
      rewrite digits_classes in Hds.
      (* the number is a scalar value: T4 *)
      assert (Hn : n = T.ref_val hex (d0' :: dr')).
      { unfold n, T.ref_val. apply digits_val_ref. exact Hds. }
      assert (Hsc : is_scalar n = true).
      { destruct HW as [HW0 _]. cbn [app] in HW0. pose proof (ref_ok_here _ _ HW0) as Hok.
        rewrite El2 in Hok.
        destruct hex.
        - cbn [app] in Hok. rewrite <- !app_assoc in Hok. cbn [app] in Hok.
          pose proof (ref_ok_at_hex (d0' :: dr') (l5 ++ more) Hds) as Hh. cbn [app] in Hh.
          rewrite Hh in Hok. rewrite scalar_eq, <- Hn in Hok. exact Hok.
        - cbn [app] in Hok. rewrite <- !app_assoc in Hok. cbn [app] in Hok.
          pose proof (ref_ok_at_dec ((d0' :: dr') ++ 59 :: l5 ++ more) (d0' :: dr') (l5 ++ more) (Hnx eq_refl) eq_refl Hds) as Hh. cbn [app] in Hh.
          rewrite Hh in Hok. rewrite scalar_eq, <- Hn in Hok. exact Hok. }
      rewrite Hsc in Ecc.
      exists (d0' :: dr'), l5. split; [reflexivity|]. split.
      { unfold T.wf_charref. rewrite Hds. cbn [andb]. rewrite <- Hn.
        destruct (CharTablesProofs.char_tables_conform n Hsc) as (Ec & _). rewrite <- Ec. exact Ecc. }
      split; [eauto|]. split; [reflexivity|]. apply (WS_cons e _ 59). exact HW4. }
    destruct l2 as [|x2 l3].
    + cbv iota in H. destruct (NUM false [] (p + 1 + 1) HW2 ltac:(intros _; exact I) eq_refl ltac:(cbn; lia) H)
        as (ds & l' & E & _). destruct ds; discriminate.
    + destruct (x2 =? 120) eqn:E120.
      * assert (x2 = 120) by lia. subst x2. cbv iota in H.
        destruct (NUM true l3 (p + 1 + 1 + 1) (WS_cons _ _ _ _ _ HW2) ltac:(intros; discriminate) eq_refl ltac:(cbn; lia) H)
          as (ds & l' & -> & Hwf & Hr & -> & HW5).
        left. exists true, ds, l'. split; [reflexivity|]. split; [exact Hwf|]. split; [exact Hr|].
        replace (p + 2 + 1 + blen ds + 1) with (p + 1 + 1 + 1 + blen ds + 1) by lia. split; [reflexivity|exact HW5].
      * cbv iota in H.
        destruct (NUM false (x2 :: l3) (p + 1 + 1) HW2
                      ltac:(intros _; destruct x2 as [|pp]; [exact I|]; repeat (destruct pp as [pp|pp|]; try exact I); discriminate)
                      eq_refl ltac:(cbn; lia) H) as (ds & l' & E & Hwf & Hr & -> & HW5).
        left. exists false, ds, l'. cbn [app]. split; [rewrite E; reflexivity|]. split; [exact Hwf|]. split; [exact Hr|].
        replace (p + 2 + 0 + blen ds + 1) with (p + 1 + 1 + blen ds + 1) by lia. split; [reflexivity|exact HW5].
  - (* named *)
    cbv iota in H.
    destruct (consume_name text _) as [[nm s2]| | |] eqn:En; cbn [bind] in H; try discriminate.
    destruct (consume_name_wsv _ _ _ _ _ _ HW1 HV1 En) as (name & l' & E & _ & Hsb & -> & HW2).
    rewrite Hsb in H.
    destruct (consume_byte text 59 _) as [s4| | |] eqn:E59; inversion H; subst s'. clear H.
    destruct (consume_byte_ws _ _ _ _ _ _ HW2 E59) as (l5 & -> & ->).
    assert (PRE : forall pe, bytes_eqb name (T.predef_name pe) = true ->
              exists l'0, x1 :: l2 = T.predef_name pe ++ [59] ++ l'0 /\
                sst e (p + 1 + blen name + 1) (l5 ++ more) = sst e (p + 1 + blen (T.predef_name pe) + 1) (l'0 ++ more) /\
                WS e (p + 1 + blen (T.predef_name pe) + 1) l'0 more).
    { intros pe Hb. apply bytes_eqb_true in Hb. clear Hsb. subst name. exists l5. split; [exact E|]. split; [reflexivity|].
      apply (WS_cons e _ 59). exact HW2. }
    destruct (bytes_eqb name (b "quot")) eqn:B1.
    { right; left. destruct (PRE T.Quot B1) as (l0 & A & B & C). exists T.Quot, l0. subst r. eauto. }
    destruct (bytes_eqb name (b "amp")) eqn:B2.
    { right; left. destruct (PRE T.Amp B2) as (l0 & A & B & C). exists T.Amp, l0. subst r. eauto. }
    destruct (bytes_eqb name (b "apos")) eqn:B3.
    { right; left. destruct (PRE T.Apos B3) as (l0 & A & B & C). exists T.Apos, l0. subst r. eauto. }
    destruct (bytes_eqb name (b "lt")) eqn:B4.
    { right; left. destruct (PRE T.Lt B4) as (l0 & A & B & C). exists T.Lt, l0. subst r. eauto. }
    destruct (bytes_eqb name (b "gt")) eqn:B5.
    { right; left. destruct (PRE T.Gt B5) as (l0 & A & B & C). exists T.Gt, l0. subst r. eauto. }
    right; right. subst r. eauto.
Qed.

(* ---- the byte pieces of a window walked byte by byte ---- *)
Lemma ref_piece_step_n e p l1 more r s' : WS e p (38 :: l1) more -> U8.Valid (38 :: l1) ->
  consume_reference text (sst e p ((38 :: l1) ++ more)) = Ok (Some (r, s')) ->
  (exists nm, r = RefEntity nm) \/
  exists pc l' q, 38 :: l1 = T.r_piece pc ++ l' /\ piece_ok pc /\ T.is_lit pc = false /\
                  s' = sst e q (l' ++ more) /\ WS e q l' more.
Proof.
  intros HW HV H. destruct (cref_inv_n _ _ _ _ _ _ HW HV H)
    as [(hex & ds & l' & -> & Hwf & _ & -> & HW')|[(pe & l' & -> & _ & -> & HW')|Hent]]; [right|right|left; exact Hent].
  - exists (T.PCharRef hex ds), l', (p + 2 + (if hex then 1 else 0) + blen ds + 1).
    split; [cbn [T.r_piece]; rewrite <- !app_assoc; reflexivity|]. split; [exact Hwf|]. split; [reflexivity|].
    split; [reflexivity|exact HW'].
  - exists (T.PPredef pe), l', (p + 1 + blen (T.predef_name pe) + 1).
    split; [cbn [T.r_piece]; rewrite <- !app_assoc; reflexivity|]. split; [exact I|]. split; [reflexivity|].
    split; [reflexivity|exact HW'].
Qed.

Lemma ptext_loop_inv_n pcf r : forall fuel e p l more buf c buf' c',
  WS e p l more -> (exists dn, U8.Valid (dn ++ l)) -> c_entities c = [] ->
  BorrowParse.ptext_loop text pcf r fuel (sst e p (l ++ more)) buf c = Ok (buf', c') ->
  c' = c /\ exists ps, l = T.r_pieces ps /\ pieces_ok ps.
Proof.
  induction fuel as [|fu IH]; intros e p l more buf c buf' c' HW HV Hent H; cbn [BorrowParse.ptext_loop] in H; [noerr|].
  rewrite at_end_sst in H. pose proof HW as [HW0 Hw].
  destruct l as [|x l1].
  { rewrite blen_nil in Hw. replace (e <=? p) with true in H by lia. inversion H; subst.
    split; [reflexivity|]. exists []. split; [reflexivity|apply pieces_ok_nil]. }
  rewrite blen_cons in Hw. replace (e <=? p) with false in H by lia.
  ib H q Hq. destruct q as [ch s1]. unfold parse_next_chunk in Hq. rewrite at_end_sst in Hq.
  replace (e <=? p) with false in Hq by lia. cbn [app curr_byte_unchecked sst s_rest bind] in Hq.
  destruct (x =? 38) eqn:E38.
  - assert (x = 38) by lia. subst x. cbv zeta in Hq. ib Hq rf Hrf.
    change (38 :: l1 ++ more) with ((38 :: l1) ++ more) in Hrf. fold (sst e p ((38 :: l1) ++ more)) in Hrf.
    destruct rf as [[rf s2]|]; [|noerr].
    destruct HV as (dn & HV).
    assert (HV0 : U8.Valid (38 :: l1)) by (apply (Valid_app_inv dn); [eapply valid_split; [|exact HV]; lia|exact HV]).
    destruct (ref_piece_step_n _ _ _ _ _ _ HW HV0 Hrf) as [[nm ->]|(pc & l' & q & E & Hok & Hnl & -> & HW')].
    { rewrite Hent in Hq. cbn [find_entity] in Hq. noerr. }
    destruct rf as [nm|cp].
    { rewrite Hent in Hq. cbn [find_entity] in Hq. noerr. }
    inversion Hq; subst ch s1. clear Hq.
    assert (HV' : exists dn', U8.Valid (dn' ++ l')) by (exists (dn ++ T.r_piece pc); rewrite <- app_assoc, <- E; exact HV).
    destruct (IH _ _ _ _ _ _ _ _ HW' HV' Hent H) as (-> & ps & -> & Hps).
    split; [reflexivity|]. exists (pc :: ps). split; [exact E|]. apply pieces_ok_ref; assumption.
  - fold (sst e p (x :: l1 ++ more)) in Hq. rewrite advance1_sst in Hq by lia. cbn [bind] in Hq.
    inversion Hq; subst ch s1. clear Hq.
    assert (HV' : exists dn', U8.Valid (dn' ++ l1)) by (destruct HV as (dn & HV); exists (dn ++ [x]); rewrite <- app_assoc; exact HV).
    destruct (IH _ _ _ _ _ _ _ _ (WS_cons _ _ _ _ _ HW) HV' Hent H) as (-> & ps & -> & Hps).
    split; [reflexivity|]. exists (cons_lit x ps). split; [rewrite r_cons_lit; reflexivity|].
    apply pieces_ok_lit; [lia|exact Hps].
Qed.

Lemma nattr_loop_inv_n lvl' : forall fu e p l more t ld t' ld',
  WS e p l more -> (exists dn, U8.Valid (dn ++ l)) ->
  WfParse.nattr_loop text lvl' [] fu (sst e p (l ++ more)) t ld = Ok (t', ld') ->
  exists ps, l = T.r_pieces ps /\ pieces_ok ps.
Proof.
  induction fu as [|fu IH]; intros e p l more t ld t' ld' HW HV H; cbn [WfParse.nattr_loop] in H; [noerr|].
  rewrite at_end_sst in H. pose proof HW as [HW0 Hw].
  destruct l as [|x l1].
  { exists []. split; [reflexivity|apply pieces_ok_nil]. }
  rewrite blen_cons in Hw. replace (e <=? p) with false in H by lia.
  cbn [app curr_byte_unchecked sst s_rest bind] in H.
  destruct (x =? 38) eqn:E38; cbn [negb] in H.
  - assert (x = 38) by lia. subst x. cbv zeta in H. ib H rf Hrf.
    change (38 :: l1 ++ more) with ((38 :: l1) ++ more) in Hrf. fold (sst e p ((38 :: l1) ++ more)) in Hrf.
    destruct rf as [[rf s2]|]; [|noerr].
    destruct HV as (dn & HV).
    assert (HV0 : U8.Valid (38 :: l1)) by (apply (Valid_app_inv dn); [eapply valid_split; [|exact HV]; lia|exact HV]).
    destruct (ref_piece_step_n _ _ _ _ _ _ HW HV0 Hrf) as [[nm ->]|(pc & l' & q & E & Hok & Hnl & -> & HW')].
    { cbn [find_entity] in H. noerr. }
    destruct rf as [nm|cp]; [cbn [find_entity] in H; noerr|].
    destruct (push_char_bytes_attr _ _ t) as [t1|]; [|noerr].
    assert (HV' : exists dn', U8.Valid (dn' ++ l')) by (exists (dn ++ T.r_piece pc); rewrite <- app_assoc, <- E; exact HV).
    destruct (IH _ _ _ _ _ _ _ _ HW' HV' H) as (ps & -> & Hps).
    exists (pc :: ps). split; [exact E|]. apply pieces_ok_ref; assumption.
  - destruct ((x =? 60) && (0 <? ld_depth ld)); [noerr|].
    fold (sst e p (x :: l1 ++ more)) in H. rewrite advance1_sst in H by lia. cbn [bind] in H.
    assert (HV' : exists dn', U8.Valid (dn' ++ l1)) by (destruct HV as (dn & HV); exists (dn ++ [x]); rewrite <- app_assoc; exact HV).
    destruct (IH _ _ _ _ _ _ _ _ (WS_cons _ _ _ _ _ HW) HV' H) as (ps & -> & Hps).
    exists (cons_lit x ps). split; [rewrite r_cons_lit; reflexivity|]. apply pieces_ok_lit; [lia|exact Hps].
Qed.


(* ------------------------------------------------------------------------------------------ *)
(* the tokens                                                                                   *)
Notation SimN := (CstSoundNBuild.SimN text).

Lemma Valid_uchars cs : uchars cs -> U8.Valid (utf8s cs).
Proof.
  intros H. apply Valid_utf8s. unfold scalars_ok. eapply Forall_impl; [|exact H]. cbv beta. tauto.
Qed.

Lemma step_text_n p cs more c c' stk : WV p (utf8s cs ++ more) -> raw_text_ok_n cs -> SimN c stk ->
  T_ (TText (sl p (p + blen (utf8s cs))) (p, p + blen (utf8s cs))) c = Ok c' ->
  SimN c' stk /\ nseq c c' /\
  (exists K, erows c' = erows c ++ K /\ Forall (fun rw => is_element_kind (snd rw) = false) K) /\
  exists ps, utf8s cs = T.r_pieces (enc_pieces ps) /\ utparts_ok ps.
Proof.
  intros HWV Hraw HS H. pose proof (WV_W _ _ _ HWV) as HW.
  unfold Parse.token, token_with, process_text in H. rewrite BorrowParse.process_text_with_eq in H.
  cbv zeta in H. rewrite (W_slice text _ _ _ HW) in H.
  assert (FIN : forall ps, utf8s cs = T.r_pieces ps -> pieces_ok ps ->
            exists ps', utf8s cs = T.r_pieces (enc_pieces ps') /\ utparts_ok ps').
  { intros ps Eps Hps. destruct (decoded_text cs ps Hraw Eps Hps) as (ps' & E1 & E2). exists ps'. rewrite E1. auto. }
  destruct (existsb (fun x => (x =? 38) || (x =? 13)) (utf8s cs)) eqn:Ee; cbn [negb] in H.
  - cbn [fst snd] in H. destruct (stream_from_substr_ws text p (utf8s cs) more HW) as (Es & HWS). rewrite Es in H. cbn [bind] in H.
    ib H q Hq. destruct q as [buf c1].
    assert (HV : exists dn, U8.Valid (dn ++ utf8s cs)).
    { exists []. apply Valid_uchars. apply Hraw. }
    destruct (ptext_loop_inv_n _ _ _ _ _ _ _ _ _ _ _ HWS HV (sn_ent _ _ _ HS) Hq) as (-> & ps & Eps & Hps).
    assert (STEP : SimN c' stk /\ nseq c c' /\ exists K, erows c' = erows c ++ K /\ Forall (fun rw => is_element_kind (snd rw) = false) K).
    { destruct (negb (tb_is_empty buf)).
      - ib H bsf Hb. destruct (append_text_step_n text _ _ _ _ _ HS H) as (A & D).
        split; [exact A|]. split; [exact (append_text_nseq _ _ _ _ H)|exact D].
      - inversion H; subst. split; [exact HS|]. split; [apply nseq_refl|]. exists []. rewrite app_nil_r. split; [reflexivity|constructor]. }
    destruct STEP as (A & Nq & D). split; [exact A|]. split; [exact Nq|]. split; [exact D|]. exact (FIN ps Eps Hps).
  - destruct (append_text_step_n text _ _ _ _ _ HS H) as (A & D). split; [exact A|].
    split; [exact (append_text_nseq _ _ _ _ H)|]. split; [exact D|].
    assert (H38 : Forall (fun x => x <> 38) (utf8s cs)).
    { apply (no38 (fun x => (x =? 38) || (x =? 13))); [intros x ->; reflexivity|exact Ee]. }
    destruct (lit_pieces_ok (utf8s cs) H38) as (E1 & E2).
    exact (FIN (lit_pieces (utf8s cs)) (eq_sym E1) E2).
Qed.

(* the value of an attribute or of a namespace declaration: its pieces, and what is stored *)
Lemma value_n p v q more c val c1 : WV p (utf8s v ++ [q] ++ more) -> uchars v ->
  Forall (fun x => x <> 60 /\ x <> q) v -> q = 39 \/ q = 34 -> c_entities c = [] -> ld_depth (c_ld c) = 0 ->
  normalize_attribute text (sl p (p + blen (utf8s v))) c = Ok (val, c1) ->
  c1 = c /\ exists ps, utf8s v = T.r_pieces (enc_pieces ps) /\ wf_uvalue q ps = true /\
                        storage_bytes text val = T.value_sem (enc_pieces ps).
Proof.
  intros HWV Hu Hb Hq Hent Hld H. pose proof (WV_W _ _ _ HWV) as HW.
  assert (BP : exists ps, utf8s v = T.r_pieces ps /\ pieces_ok ps).
  { pose proof H as H'. unfold normalize_attribute in H'. cbv zeta in H'. rewrite (W_slice text _ _ _ HW) in H'.
    destruct (existsb (fun x => (x =? 38) || (x =? 9) || (x =? 10) || (x =? 13)) (utf8s v)) eqn:Ee.
    - ib H' q0 Hq0. destruct q0 as [t ld]. clear H'.
      rewrite Hent in Hq0. unfold entity_levels in Hq0. rewrite WfParse.norm_attr_lvl_eq in Hq0.
      cbn [sl sl_start sl_end] in Hq0. destruct (stream_from_substr_ws text p (utf8s v) ([q] ++ more) HW) as (Es & HWS).
      rewrite Es in Hq0. cbn [bind] in Hq0.
      assert (HV : exists dn, U8.Valid (dn ++ utf8s v)) by (exists []; apply Valid_uchars; exact Hu).
      exact (nattr_loop_inv_n _ _ _ _ _ _ _ _ _ _ HWS HV Hq0).
    - assert (H38 : Forall (fun x => x <> 38) (utf8s v)).
      { apply (no38 (fun x => (x =? 38) || (x =? 9) || (x =? 10) || (x =? 13))); [intros x ->; reflexivity|exact Ee]. }
      destruct (lit_pieces_ok (utf8s v) H38) as (E1 & E2). exists (lit_pieces (utf8s v)). auto. }
  destruct BP as (ps & Eps & Hps).
  destruct (decoded_value q v ps ltac:(lia) Hu Hb Eps Hps) as (ps' & E1 & Hwf). subst ps.
  destruct (CstFullS2Sem.uvalue_b q ps' ltac:(lia) Hwf) as (Hbv & _).
  assert (HWV' : WV p (T.r_pieces (enc_pieces ps') ++ [q] ++ more)) by (rewrite <- Eps; exact HWV).
  pose proof (CstFullS2Build.normalize_attribute_ok_u text p (enc_pieces ps') q more c HWV' Hbv Hld) as Hfw.
  rewrite <- Eps in Hfw. rewrite Hfw in H. injection H as <- <-.
  split; [reflexivity|]. exists ps'. split; [exact Eps|]. split; [exact Hwf|].
  destruct (CstTextBuild.needs_norm (utf8s v)) eqn:En; [reflexivity|].
  cbn [storage_bytes str_bytes]. rewrite (W_slice text _ _ _ HW). symmetry.
  rewrite Eps in En |- *. apply (CstFullS2Build.value_plain_u q _ Hbv En).
Qed.

End TextN.
