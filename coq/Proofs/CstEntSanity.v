(* Proofs/CstEntSanity.v -- Spec/CstEnt.v against the executable model on concrete documents
   (vm_compute): with allow_dtd, parse (render c) = Ok d and view d = sem c; what wf_doc excludes
   is rejected by the model. *)
From Coq Require Import Ascii String.
From Coq Require Import List NArith Bool.
Import ListNotations.
From RX Require Import Generated.
From RX.Model Require Import Base CharClass Stream Tokenizer Doc Builder Parse.
From RX.Spec Require Cst CstText.
From RX.Spec Require Import CstEnt.
From RX.Proofs Require CstMain CstTextSanity.
Open Scope N_scope.

Definition opt1 : options := {| allow_dtd := true; nodes_limit := 100000 |}.

Definition check (c : doc) : bool :=
  wf_doc c &&
  match parse (render c) opt1 with
  | Ok d => CstTextSanity.list_eqb CstTextSanity.vnode_eqb (CstMain.view (render c) d) (sem c)
  | _ => false
  end.
(* not well-formed AND refused by the model *)
Definition refused (c : doc) : bool :=
  negb (wf_doc c) && match parse (render c) opt1 with Err _ => true | _ => false end.

Definition dc (n : string) (q : N) (v : evalue) : edecl :=
  {| e_ws0 := [32]; e_ws1 := [32]; e_name := b n; e_ws2 := [32]; e_quote := q; e_value := v; e_ws3 := [] |}.
Definition mk (decls : list edecl) (root : item) : doc :=
  {| d_ws0 := []; d_before := []; 
     d_dtd := {| t_ws1 := [32]; t_name := b "r"; t_ws2 := [32]; t_decls := decls; t_ws3 := [10]; t_ws4 := [] |};
     d_mid := []; d_ws1 := [10]; d_root := root; d_after := []; d_ws_end := [] |}.
Definition el (name : string) (attrs : list attr) (cs : list item) : item := IElem (b name) attrs [] (Some (cs, [])).
Definition at_ (name : string) (q : N) (v : list epiece) : attr :=
  {| a_ws := [32]; a_name := b name; a_ws1 := []; a_ws2 := []; a_quote := q; a_value := v |}.
Definition L (s : string) : epiece := EP (T.PLit (b s)).
Definition R (s : string) : epiece := ERef (b s).

(* M2: character-data entities in content; text merges with its neighbours *)
Example e1 : check (mk [dc "e" 34 (EText [L "xy"])] (el "r" [] [IText [L "a"; R "e"; L "b"]])) = true.
Proof. vm_compute. reflexivity. Qed.
Example e1_sem : sem (mk [dc "e" 34 (EText [L "xy"])] (el "r" [] [IText [L "a"; R "e"; L "b"]]))
               = [Cst.VElem (b "r") [] 1; Cst.VText (b "axyb")].
Proof. vm_compute. reflexivity. Qed.
Example e_alone : check (mk [dc "e" 39 (EText [L "xy"])] (el "r" [] [IText [R "e"]])) = true.
Proof. vm_compute. reflexivity. Qed.
(* an empty entity alone: no Text node *)
Example e_empty : check (mk [dc "e" 34 (EText [])] (el "r" [] [IText [R "e"]])) = true.
Proof. vm_compute. reflexivity. Qed.
Example e_empty_sem : sem (mk [dc "e" 34 (EText [])] (el "r" [] [IText [R "e"]])) = [Cst.VElem (b "r") [] 0].
Proof. vm_compute. reflexivity. Qed.
(* references and CR LF inside the value *)
Example e_refs : check (mk [dc "e" 34 (EText [L "x"; EP (T.PPredef T.Lt); EP (T.PCharRef true (b "e9")); EP (T.PCharRef false (b "37")); EP (T.PLit [13; 10; 121; 13])])]
                           (el "r" [] [IText [L "a"; R "e"; EP (T.PCharRef false (b "10")); R "e"]])) = true.
Proof. vm_compute. reflexivity. Qed.
(* first declaration wins *)
Example e_first : check (mk [dc "e" 34 (EText [L "one"]); dc "e" 34 (EText [L "two"])] (el "r" [] [IText [R "e"]])) = true.
Proof. vm_compute. reflexivity. Qed.
Example e_first_sem : sem (mk [dc "e" 34 (EText [L "one"]); dc "e" 34 (EText [L "two"])] (el "r" [] [IText [R "e"]]))
                    = [Cst.VElem (b "r") [] 1; Cst.VText (b "one")].
Proof. vm_compute. reflexivity. Qed.

(* ... also when the first declaration cannot be used: the second one does not replace it *)
Example x_first_broken : refused (mk [dc "e" 34 (EText [R "u"]); dc "e" 34 (EText [L "two"])] (el "r" [] [IText [R "e"]])) = true.
Proof. vm_compute. reflexivity. Qed.

(* M3: in attribute values *)
Example a1 : check (mk [dc "e" 34 (EText [EP (T.PLit [120; 9; 13; 10; 121]); EP (T.PPredef T.Amp)])]
                       (el "r" [at_ "k" 39 [L "a"; R "e"; L "b"; R "e"]] [])) = true.
Proof. vm_compute. reflexivity. Qed.
Example a_quote_in_value : check (mk [dc "e" 39 (EText [L "say ""hi"""])] (el "r" [at_ "k" 34 [R "e"]] [])) = true.
Proof. vm_compute. reflexivity. Qed.

(* M4: content entities: elements, comments, nested text; merging at both ends *)
Example c1 : check (mk [dc "e" 34 (EContent [IText [L "x"]; el "b" [at_ "k" 39 [L "v"]] [IText [L "in"]]; IComment (b "c"); IText [L "y"]])]
                       (el "r" [] [IText [L "1"; R "e"; L "2"; R "e"]])) = true.
Proof. vm_compute. reflexivity. Qed.
Example c1_sem : sem (mk [dc "e" 34 (EContent [IText [L "x"]; el "b" [] []; IText [L "y"]])] (el "r" [] [IText [L "1"; R "e"; L "2"]]))
  = [Cst.VElem (b "r") [] 3; Cst.VText (b "1x"); Cst.VElem (b "b") [] 0; Cst.VText (b "y2")].
Proof. vm_compute. reflexivity. Qed.

(* M5: nested references, in content and in an attribute *)
Example n1 : check (mk [dc "a" 34 (EText [L "A"]); dc "b" 34 (EText [L "<"%string ]); dc "c" 34 (EText [R "a"; L "-"; R "a"]);
                        dc "d" 34 (EContent [el "i" [at_ "k" 39 [R "c"]] [IText [R "c"]]])]
                       (el "r" [at_ "k" 34 [R "c"; R "a"]] [IText [R "d"; R "c"]])) = false.
Proof. vm_compute. reflexivity. Qed.
Example n2 : check (mk [dc "a" 34 (EText [L "A"]); dc "c" 34 (EText [R "a"; L "-"; R "a"]);
                        dc "d" 34 (EContent [el "i" [at_ "k" 39 [R "c"]] [IText [R "c"]]])]
                       (el "r" [at_ "k" 34 [R "c"; R "a"]] [IText [R "d"; R "c"]])) = true.
Proof. vm_compute. reflexivity. Qed.

(* what is excluded, and refused by the model *)
Example x_undeclared : refused (mk [] (el "r" [] [IText [R "e"]])) = true.
Proof. vm_compute. reflexivity. Qed.
Example x_recursion : refused (mk [dc "e" 34 (EText [R "e"])] (el "r" [] [IText [R "e"]])) = true.
Proof. vm_compute. reflexivity. Qed.
Example x_lt_attr : refused (mk [dc "e" 34 (EText [EP (T.PPredef T.Lt)])] (el "r" [at_ "k" 34 [R "e"]] [])) = true.
Proof. vm_compute. reflexivity. Qed.
Example x_markup_attr : refused (mk [dc "e" 34 (EContent [el "b" [] []])] (el "r" [at_ "k" 39 [R "e"]] [])) = true.
Proof. vm_compute. reflexivity. Qed.
(* D15: '<' by reference in an attribute of an element inside an entity value *)
Example x_D15 : refused (mk [dc "e" 34 (EContent [el "b" [at_ "k" 39 [EP (T.PPredef T.Lt)]] []])] (el "r" [] [IText [R "e"]])) = true.
Proof. vm_compute. reflexivity. Qed.
(* ... while the same attribute written in the document itself is fine *)
Example ok_lt_attr_top : check (mk [] (el "r" [at_ "k" 39 [EP (T.PPredef T.Lt)]] [])) = true.
Proof. vm_compute. reflexivity. Qed.

(* the line-end proviso: a CR LF pair split by an entity boundary is excluded; the model accepts
   the document but gives LF LF where the inlined text has one LF *)
Definition split_doc := mk [dc "e" 34 (EText [EP (T.PLit [10; 98])])] (el "r" [] [IText [EP (T.PLit [97; 13]); R "e"]]).
Example x_split : wf_doc split_doc = false /\
  sem split_doc = [Cst.VElem (b "r") [] 1; Cst.VText [97; 10; 98]] /\
  match parse (render split_doc) opt1 with
  | Ok d => CstMain.view (render split_doc) d = [Cst.VElem (b "r") [] 1; Cst.VText [97; 10; 10; 98]]
  | _ => False
  end.
Proof. vm_compute. repeat split; reflexivity. Qed.

(* limits: a chain of 10 nested references is accepted, 11 is not *)
Fixpoint chain (n : nat) : list edecl :=
  match n with
  | O => [dc "e0" 34 (EText [L "x"])]
  | S m => chain m ++ [dc ("e" ++ String (ascii_of_nat (48 + S m)) "") 34
                          (EText [ERef (b ("e" ++ String (ascii_of_nat (48 + m)) ""))])]
  end.
Example lim10 : check (mk (chain 9) (el "r" [] [IText [ERef (b "e9")]])) = true.
Proof. vm_compute. reflexivity. Qed.
Example lim11 : refused (mk (chain 10) (el "r" [] [IText [ERef (b "e:")]])) = true.
Proof. vm_compute. reflexivity. Qed.

(* the DOCTYPE is refused without allow_dtd *)
Example dtd_off : parse (render (mk [] (el "r" [] []))) {| allow_dtd := false; nodes_limit := 100 |} = Err DtdDetected.
Proof. vm_compute. reflexivity. Qed.
