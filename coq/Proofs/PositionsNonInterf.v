(* Proofs/PositionsNonInterf.v -- property C19: the stored position fields (nd_range, ad_range,
   ad_qname_len, ad_eq_len -- what the cargo feature `positions` adds) are write-only: a builder
   that does not store them accepts the same inputs, reports the same errors and produces the
   same document up to those fields. *)
From Coq Require Import Lia ZifyBool ZifyN ZifyNat.
From RX Require Import Generated.
From RX.Model Require Import Base CharClass Stream Tokenizer Doc Builder Parse.
From RX.Proofs Require Import Tactics OptionsParam.

Local Open Scope N_scope.

(* ---- the statement ---- *)

Definition strip_node (nd : node_data) : node_data :=
  {| nd_parent := nd_parent nd; nd_prev_sibling := nd_prev_sibling nd; nd_next_subtree := nd_next_subtree nd;
     nd_last_child := nd_last_child nd; nd_kind := nd_kind nd; nd_range := (0, 0) |}.
Definition strip_attr (a : attr_data) : attr_data :=
  {| ad_ns_idx := ad_ns_idx a; ad_local := ad_local a; ad_value := ad_value a; ad_range := (0, 0); ad_qname_len := 0; ad_eq_len := 0 |}.
Definition strip_doc (d : document) : document :=
  {| d_nodes := map strip_node (d_nodes d); d_attrs := map strip_attr (d_attrs d); d_ns_values := d_ns_values d; d_ns_tree := d_ns_tree d |}.
Definition strip_ctx (c : context) : context := set_doc c (strip_doc (c_doc c)).
Definition strip_res (r : res context) : res context := match r with Ok c => Ok (strip_ctx c) | Err e => Err e | Panic p => Panic p | OutOfFuel => OutOfFuel end.

(* ---- relations ---- *)

Definition Rn (l1 l2 : list node_data) : Prop := map strip_node l1 = map strip_node l2.
Definition Ra (l1 l2 : list attr_data) : Prop := map strip_attr l1 = map strip_attr l2.
Definition Rd (d1 d2 : document) : Prop :=
  Rn (d_nodes d1) (d_nodes d2) /\ Ra (d_attrs d1) (d_attrs d2) /\
  d_ns_values d1 = d_ns_values d2 /\ d_ns_tree d1 = d_ns_tree d2.
Definition Rc (c1 c2 : context) : Prop := strip_ctx c1 = strip_ctx c2.

Lemma Rd_iff : forall d1 d2, strip_doc d1 = strip_doc d2 <-> Rd d1 d2.
Proof.
  intros d1 d2. unfold strip_doc, Rd, Rn, Ra. split.
  - intros H. inversion H. auto.
  - intros [A [B [C D]]]. rewrite A, B, C, D. reflexivity.
Qed.

Lemma Rc_elim : forall c1 c2, Rc c1 c2 -> c2 = set_doc c1 (c_doc c2) /\ Rd (c_doc c1) (c_doc c2).
Proof.
  intros c1 c2 H. unfold Rc, strip_ctx, set_doc in H.
  destruct c1 as [o1 s1 ca1 aw1 pp1 en1 at1 pi1 tn1 ef1 ld1 d1], c2 as [o2 s2 ca2 aw2 pp2 en2 at2 pi2 tn2 ef2 ld2 d2].
  cbn [c_opt c_ns_start_idx c_cur_attrs c_awaiting c_parent_prefixes c_entities c_after_text
       c_parent_id c_tag_name c_entity_floor c_ld c_doc] in *.
  injection H as -> -> -> -> -> -> -> -> -> -> -> H. split; [reflexivity|]. repeat split; assumption.
Qed.

Lemma Rc_intro : forall c d1 d2, Rd d1 d2 -> Rc (set_doc c d1) (set_doc c d2).
Proof.
  intros c d1 d2 H. apply Rd_iff in H. unfold Rc, strip_ctx, set_doc. cbn. rewrite H. reflexivity.
Qed.

Lemma Rd_refl : forall d, Rd d d.
Proof. intros d. apply Rd_iff. reflexivity. Qed.

(* lockstep of two runs: same outcome, related results *)
Notation G P := (grel False NoRootNode P (fun _ => True)).

Lemma G_bind : forall X1 X2 Y1 Y2 (P : X1 -> X2 -> Prop) (P' : Y1 -> Y2 -> Prop) r1 r2 k1 k2,
  G P r1 r2 -> (forall x1 x2, P x1 x2 -> G P' (k1 x1) (k2 x2)) ->
  G P' (bind r1 k1) (bind r2 k2).
Proof. intros. eapply grel_bind; eauto. Qed.

Lemma G_same : forall X Y1 Y2 (P' : Y1 -> Y2 -> Prop) (r : res X) k1 k2,
  (forall x, G P' (k1 x) (k2 x)) -> G P' (bind r k1) (bind r k2).
Proof. intros. destruct r; cbn [bind]; auto; constructor. Qed.

Lemma G_mono : forall X1 X2 (P P' : X1 -> X2 -> Prop) r1 r2,
  G P r1 r2 -> (forall x1 x2, P x1 x2 -> P' x1 x2) -> G P' r1 r2.
Proof. intros. eapply grel_mono; eauto. Qed.

Lemma G_eq : forall X (P : X -> X -> Prop) r, (forall x, P x x) -> G P r r.
Proof. intros X P r H. destruct r; constructor; auto. Qed.

(* ---- node lists ---- *)

Lemma strip_node_proj : forall a b, strip_node a = strip_node b ->
  nd_parent a = nd_parent b /\ nd_prev_sibling a = nd_prev_sibling b /\
  nd_next_subtree a = nd_next_subtree b /\ nd_last_child a = nd_last_child b /\
  nd_kind a = nd_kind b.
Proof. intros a b H. unfold strip_node in H. inversion H. auto. Qed.

Lemma nth_N_map : forall A B (f : A -> B) l i, nth_N (map f l) i = option_map f (nth_N l i).
Proof.
  intros. unfold nth_N, len_N. rewrite map_length.
  destruct (N.of_nat (length l) <=? i); [reflexivity|]. apply nth_error_map.
Qed.

Lemma len_N_map : forall A B (f : A -> B) l, len_N (map f l) = len_N l.
Proof. intros. unfold len_N. rewrite map_length. reflexivity. Qed.

Lemma Rn_len : forall l1 l2, Rn l1 l2 -> len_N l1 = len_N l2.
Proof. intros l1 l2 H. rewrite <- (len_N_map _ _ strip_node l1), H. apply len_N_map. Qed.

Lemma Rn_length : forall l1 l2, Rn l1 l2 -> length l1 = length l2.
Proof. intros l1 l2 H. rewrite <- (map_length strip_node l1), H. apply map_length. Qed.

Lemma Rn_nth : forall l1 l2 i, Rn l1 l2 ->
  G (fun a b => strip_node a = strip_node b)
    (match nth_N l1 i with Some x => Ok x | None => Panic P_index end)
    (match nth_N l2 i with Some x => Ok x | None => Panic P_index end).
Proof.
  intros l1 l2 i H. assert (K := f_equal (fun l => nth_N l i) H). cbv beta in K.
  rewrite !nth_N_map in K.
  destruct (nth_N l1 i), (nth_N l2 i); cbn in K; try discriminate; constructor. congruence.
Qed.

Lemma Rn_app : forall l1 l2 x y, Rn l1 l2 -> strip_node x = strip_node y -> Rn (l1 ++ [x]) (l2 ++ [y]).
Proof. unfold Rn. intros. rewrite !map_app. cbn. congruence. Qed.

Definition nfun_ok (g : node_data -> node_data) : Prop :=
  forall a b, strip_node a = strip_node b -> strip_node (g a) = strip_node (g b).

Lemma cons_inj : forall A (a c : A) l l', a :: l = c :: l' -> a = c /\ l = l'.
Proof. intros A a c l l' H. inversion H; auto. Qed.

Lemma list_upd_rel : forall g, nfun_ok g -> forall l1 l2 i, Rn l1 l2 ->
  match list_upd l1 i g, list_upd l2 i g with
  | Some a, Some b => Rn a b
  | None, None => True
  | _, _ => False
  end.
Proof.
  intros g Hg. induction l1 as [|x l1 IH]; intros [|y l2] i H; try discriminate H.
  - destruct i; exact I.
  - unfold Rn in H. cbn [map] in H. apply cons_inj in H. destruct H as [Hxy Hl].
    destruct i as [|i]; cbn [list_upd].
    + unfold Rn. cbn [map]. f_equal; auto.
    + specialize (IH l2 i Hl). destruct (list_upd l1 i g), (list_upd l2 i g); try contradiction; auto.
      unfold Rn in *. cbn [map]. congruence.
Qed.

Lemma Rn_upd : forall g l1 l2 i, nfun_ok g -> Rn l1 l2 -> G Rn (upd_node l1 i g) (upd_node l2 i g).
Proof.
  intros g l1 l2 i Hg H. unfold upd_node.
  pose proof (list_upd_rel g Hg l1 l2 (N.to_nat i) H) as K.
  destruct (list_upd l1 (N.to_nat i) g), (list_upd l2 (N.to_nat i) g); try contradiction; constructor; auto.
Qed.

Lemma ok_prev : forall v, nfun_ok (fun nd => nd_set_prev nd v).
Proof. intros v a b H. apply strip_node_proj in H. unfold strip_node, nd_set_prev. cbn. intuition congruence. Qed.
Lemma ok_last : forall v, nfun_ok (fun nd => nd_set_last_child nd v).
Proof. intros v a b H. apply strip_node_proj in H. unfold strip_node, nd_set_last_child. cbn. intuition congruence. Qed.
Lemma ok_next : forall v, nfun_ok (fun nd => nd_set_next_subtree nd v).
Proof. intros v a b H. apply strip_node_proj in H. unfold strip_node, nd_set_next_subtree. cbn. intuition congruence. Qed.
Lemma ok_kind : forall k, nfun_ok (fun nd => nd_set_kind nd k).
Proof. intros v a b H. apply strip_node_proj in H. unfold strip_node, nd_set_kind. cbn. intuition congruence. Qed.
(* the only place where nd_range is read: its first component is written back *)
Lemma ok_range_end : forall e, nfun_ok (fun nd => nd_set_range_end nd e).
Proof. intros v a b H. apply strip_node_proj in H. unfold strip_node, nd_set_range_end. cbn. intuition congruence. Qed.

Lemma Rn_snsa : forall ids v l1 l2, Rn l1 l2 ->
  G Rn (set_next_subtree_all l1 ids v) (set_next_subtree_all l2 ids v).
Proof.
  induction ids as [|i r IH]; intros v l1 l2 H; cbn [set_next_subtree_all].
  - constructor; assumption.
  - eapply G_bind; [apply Rn_upd; [apply ok_next|assumption]|]. intros; apply IH; assumption.
Qed.

(* ---- contexts ---- *)

(* related contexts: everything but the document is equal *)
Lemma Rc_fields : forall a b,
  c_opt a = c_opt b -> c_ns_start_idx a = c_ns_start_idx b -> c_cur_attrs a = c_cur_attrs b ->
  c_awaiting a = c_awaiting b -> c_parent_prefixes a = c_parent_prefixes b ->
  c_entities a = c_entities b -> c_after_text a = c_after_text b -> c_parent_id a = c_parent_id b ->
  c_tag_name a = c_tag_name b -> c_entity_floor a = c_entity_floor b -> c_ld a = c_ld b ->
  Rd (c_doc a) (c_doc b) -> Rc a b.
Proof.
  intros a b.
  destruct a as [o1 s1 ca1 aw1 pp1 en1 at1 pi1 tn1 ef1 ld1 d1], b as [o2 s2 ca2 aw2 pp2 en2 at2 pi2 tn2 ef2 ld2 d2].
  cbn. intros; subst. unfold Rc, strip_ctx, set_doc; cbn.
  f_equal. apply Rd_iff; assumption.
Qed.

Ltac rc :=
  apply Rc_fields;
  cbn [c_opt c_ns_start_idx c_cur_attrs c_awaiting c_parent_prefixes c_entities c_after_text
       c_parent_id c_tag_name c_entity_floor c_ld c_doc
       set_doc set_ns_start_idx set_cur_attrs set_awaiting set_parent_prefixes set_entities
       set_after_text set_parent_id set_tag_name set_entity_floor set_ld];
  try reflexivity.

Ltac cproj :=
  cbn [c_opt c_ns_start_idx c_cur_attrs c_awaiting c_parent_prefixes c_entities c_after_text
       c_parent_id c_tag_name c_entity_floor c_ld c_doc
       set_doc set_ns_start_idx set_cur_attrs set_awaiting set_parent_prefixes set_entities
       set_after_text set_parent_id set_tag_name set_entity_floor set_ld
       d_nodes d_attrs d_ns_values d_ns_tree set_nodes set_attrs].

Lemma Rd_set_nodes : forall d1 d2 n1 n2, Rd d1 d2 -> Rn n1 n2 -> Rd (set_nodes d1 n1) (set_nodes d2 n2).
Proof. intros d1 d2 n1 n2 [A [B [C D]]] H. repeat split; assumption. Qed.

(* ---- append_node ---- *)
Notation PRc := (prel Rc).

Lemma append_node_rel : forall kind r c d2, Rd (c_doc c) d2 ->
  G PRc (append_node kind r c) (append_node kind r (set_doc c d2)).
Proof.
  intros kind r c d2 HR. pose proof HR as [Hn [Ha [Hv Ht]]].
  unfold append_node. cproj. rewrite <- (Rn_len _ _ Hn).
  destruct (nodes_limit (c_opt c) <=? len_N (d_nodes (c_doc c))); [constructor|].
  apply G_same. intros new_id.
  eapply G_bind.
  { apply Rn_nth. apply Rn_app; [exact Hn|reflexivity]. }
  intros p1 p2 Hp. apply strip_node_proj in Hp. destruct Hp as [_ [_ [_ [Hlc _]]]]. rewrite Hlc.
  eapply G_bind.
  { apply Rn_upd; [apply ok_prev|]. apply Rn_app; [exact Hn|reflexivity]. }
  intros n1 n1' H1.
  eapply G_bind; [apply Rn_upd; [apply ok_last|exact H1]|].
  intros n2 n2' H2.
  eapply G_bind; [apply Rn_snsa; exact H2|].
  intros n3 n3' H3.
  constructor. split; [reflexivity|]. cbn [snd]. rc. apply Rd_set_nodes; assumption.
Qed.

Lemma Rc_elim' : forall c1 c2, Rc c1 c2 -> exists d2, c2 = set_doc c1 d2 /\ Rd (c_doc c1) d2.
Proof. intros c1 c2 H. apply Rc_elim in H. destruct H as [H1 H2]. eauto. Qed.

Ltac rce H := let d := fresh "d2" in let HR := fresh "HR" in
  apply Rc_elim' in H; destruct H as [d [-> HR]].

(* ---- text nodes ---- *)

Lemma append_text_rel : forall t r c1 c2, Rc c1 c2 -> G Rc (append_text t r c1) (append_text t r c2).
Proof.
  intros t r c1 c2 H. rce H. unfold append_text. cproj.
  eapply G_bind with (P := Rc).
  - destruct (c_after_text c1).
    + eapply G_bind; [apply append_node_rel; exact HR|].
      intros [i1 x1] [i2 x2] [_ Hx]. constructor. exact Hx.
    + constructor. apply (Rc_intro c1 (c_doc c1) d2). exact HR.
  - intros x1 x2 Hx. rce Hx. constructor. cproj. rc. exact HR0.
Qed.

Lemma Rc_doc_same : forall c d2, Rd (c_doc c) d2 -> Rc c (set_doc c d2).
Proof. intros. rc. assumption. Qed.

Lemma Rn_rev_head : forall l1 l2, Rn l1 l2 ->
  match rev l1, rev l2 with
  | [], [] => True
  | a :: _, b :: _ => strip_node a = strip_node b
  | _, _ => False
  end.
Proof.
  intros l1 l2 H. unfold Rn in H. apply (f_equal (@rev _)) in H. rewrite <- !map_rev in H.
  destruct (rev l1), (rev l2); try discriminate H; auto.
  cbn [map] in H. apply cons_inj in H. tauto.
Qed.

Lemma merge_text_rel : forall text c1 c2, Rc c1 c2 -> G Rc (merge_text text c1) (merge_text text c2).
Proof.
  intros text c1 c2 H. rce H. unfold merge_text. cproj. pose proof HR as [Hn _].
  pose proof (Rn_rev_head _ _ Hn) as K.
  destruct (rev (d_nodes (c_doc c1))) as [|a l], (rev (d_nodes d2)) as [|b l']; try contradiction.
  - constructor.
  - apply strip_node_proj in K. destruct K as [_ [_ [_ [_ Hk]]]]. rewrite <- Hk.
    destruct (nd_kind a); try constructor.
    rewrite <- (Rn_len _ _ Hn).
    eapply G_bind; [apply Rn_upd; [apply ok_kind|exact Hn]|].
    intros n1 n2 Hn12. constructor. rc. apply Rd_set_nodes; assumption.
Qed.

Lemma reset_after_text_rel : forall text c1 c2, Rc c1 c2 ->
  G Rc (reset_after_text text c1) (reset_after_text text c2).
Proof.
  intros text c1 c2 H. unfold reset_after_text.
  pose proof H as H'. rce H'. cproj.
  destruct (c_after_text c1) as [|x [|y l]].
  - constructor. apply Rc_doc_same; assumption.
  - constructor. rc. assumption.
  - eapply G_bind; [apply merge_text_rel; apply Rc_doc_same; assumption|].
    intros x1 x2 Hx. rce Hx. constructor. rc. assumption.
Qed.

Lemma process_cdata_rel : forall text t r c1 c2, Rc c1 c2 ->
  G Rc (process_cdata text t r c1) (process_cdata text t r c2).
Proof.
  intros text t r c1 c2 H. unfold process_cdata.
  destruct (mem_b 13 (slice_bytes text t)); apply append_text_rel; assumption.
Qed.

(* ---- functions that only read the namespace tables ---- *)

Lemma ns_prefix_at_ext : forall text d1 d2 i, Rd d1 d2 -> ns_prefix_at text d1 i = ns_prefix_at text d2 i.
Proof. intros text d1 d2 i [_ [_ [Hv _]]]. unfold ns_prefix_at. rewrite Hv. reflexivity. Qed.

Lemma any_prefix_ext : forall text d1 d2 p idxs, Rd d1 d2 ->
  any_prefix text d1 idxs p = any_prefix text d2 idxs p.
Proof.
  intros text d1 d2 p idxs H. induction idxs as [|i r IH]; cbn [any_prefix]; [reflexivity|].
  rewrite (ns_prefix_at_ext text d1 d2 i H), IH. reflexivity.
Qed.

Lemma ns_exists_ext : forall text d1 d2 s p, Rd d1 d2 -> ns_exists text d1 s p = ns_exists text d2 s p.
Proof.
  intros text d1 d2 s p H. pose proof H as [_ [_ [_ Ht]]]. unfold ns_exists. rewrite Ht.
  rewrite (any_prefix_ext text d1 d2 p _ H). reflexivity.
Qed.

Lemma find_prefix_idx_ext : forall text d1 d2 p idxs, Rd d1 d2 ->
  find_prefix_idx text d1 idxs p = find_prefix_idx text d2 idxs p.
Proof.
  intros text d1 d2 p idxs H. induction idxs as [|i r IH]; cbn [find_prefix_idx]; [reflexivity|].
  rewrite (ns_prefix_at_ext text d1 d2 i H), IH. reflexivity.
Qed.

Lemma get_ns_idx_by_prefix_ext : forall text nss pos prefix d1 d2, Rd d1 d2 ->
  get_ns_idx_by_prefix text nss pos prefix d1 = get_ns_idx_by_prefix text nss pos prefix d2.
Proof.
  intros text nss pos prefix d1 d2 H. pose proof H as [_ [_ [_ Ht]]]. unfold get_ns_idx_by_prefix.
  destruct (bytes_eqb (slice_bytes text prefix) ns_xml_prefix); [reflexivity|].
  unfold ns_range_slice. rewrite Ht. destruct nss as [a e].
  destruct ((e <? a) || (len_N (d_ns_tree d2) <? e)); [reflexivity|]. cbn [bind].
  rewrite (find_prefix_idx_ext text d1 d2 _ _ H). reflexivity.
Qed.

Lemma attr_expanded_name_ext : forall text d1 d2 i l, Rd d1 d2 ->
  attr_expanded_name text d1 i l = attr_expanded_name text d2 i l.
Proof. intros text d1 d2 i l [_ [_ [Hv _]]]. unfold attr_expanded_name. rewrite Hv. reflexivity. Qed.

Lemma push_ns_rel : forall text n u d1 d2, Rd d1 d2 -> G Rd (push_ns text n u d1) (push_ns text n u d2).
Proof.
  intros text n u d1 d2 [Hn [Ha [Hv Ht]]]. unfold push_ns. rewrite <- Hv, <- Ht.
  destruct (find_ns _ _ _ _ _).
  - constructor. repeat split; assumption.
  - destruct (ns_values_limit <? len_N (d_ns_values d1)); constructor. repeat split; assumption.
Qed.

Lemma push_ref_rel : forall i d1 d2, Rd d1 d2 -> G Rd (push_ref i d1) (push_ref i d2).
Proof.
  intros i d1 d2 [Hn [Ha [Hv Ht]]]. unfold push_ref. rewrite <- Hv, <- Ht.
  destruct (nth_N (d_ns_tree d1) i); constructor. repeat split; assumption.
Qed.

(* ---- process_attribute ---- *)

Lemma normalize_attribute_rel : forall text v c1 c2, Rc c1 c2 ->
  G PRc (normalize_attribute text v c1) (normalize_attribute text v c2).
Proof.
  intros text v c1 c2 H. rce H. unfold normalize_attribute. cproj.
  destruct (existsb _ (slice_bytes text v)).
  - apply G_same. intros [t ld]. apply G_same. intros bs. constructor. split; [reflexivity|].
    cbn [snd]. rc. assumption.
  - constructor. split; [reflexivity|]. cbn [snd]. rc. assumption.
Qed.

Lemma process_attribute_rel : forall text r qn eq prefix local value c1 c2, Rc c1 c2 ->
  G Rc (process_attribute text r qn eq prefix local value c1)
       (process_attribute text r qn eq prefix local value c2).
Proof.
  intros text r qn eq prefix local value c1 c2 H. unfold process_attribute.
  eapply G_bind; [apply normalize_attribute_rel; exact H|].
  intros [v x1] [v' x2] [Hv Hx]. cbn [fst snd] in Hv, Hx. subst v'. rce Hx. cproj.
  rewrite <- !(ns_exists_ext text (c_doc x1) d2 _ _ HR).
  repeat bstep.
  all: try (rc; assumption).
  all: try (eapply G_bind; [apply push_ns_rel; exact HR|]; intros y1 y2 Hy; constructor; rc; exact Hy).
Qed.

(* ---- resolve_namespaces ---- *)

Lemma resolve_ns_loop_rel : forall text s is d1 d2, Rd d1 d2 ->
  G Rd (resolve_ns_loop text s is d1) (resolve_ns_loop text s is d2).
Proof.
  induction is as [|i r IH]; intros d1 d2 H; cbn [resolve_ns_loop].
  - constructor; assumption.
  - pose proof H as [_ [_ [_ Ht]]]. rewrite <- Ht.
    apply G_same. intros vidx.
    rewrite <- (ns_prefix_at_ext text d1 d2 vidx H). apply G_same. intros name.
    rewrite <- (ns_exists_ext text d1 d2 s name H). apply G_same. intros ex.
    eapply G_bind with (P := Rd).
    + destruct ex; [constructor; assumption|apply push_ref_rel; assumption].
    + intros; apply IH; assumption.
Qed.

Lemma resolve_namespaces_rel : forall text c1 c2, Rc c1 c2 ->
  G PRc (resolve_namespaces text c1) (resolve_namespaces text c2).
Proof.
  intros text c1 c2 H. rce H. unfold resolve_namespaces. cproj.
  pose proof HR as [Hn [_ [_ Ht]]].
  eapply G_bind; [apply Rn_nth; exact Hn|].
  intros p1 p2 Hp. apply strip_node_proj in Hp. destruct Hp as [_ [_ [_ [_ Hk]]]]. rewrite <- Hk.
  rewrite <- Ht.
  assert (Hroot : G PRc
    (let! r := ns_range_checked (c_ns_start_idx c1) (len_N (d_ns_tree (c_doc c1))) in Ok (r, c1))
    (let! r := ns_range_checked (c_ns_start_idx c1) (len_N (d_ns_tree (c_doc c1))) in
     Ok (r, set_doc c1 d2))).
  { apply G_same. intros r. constructor. split; [reflexivity|]. cbn [snd]. rc. assumption. }
  destruct (nd_kind p1) as [|ns_idx local attrs nss| | |]; try exact Hroot.
  destruct (c_ns_start_idx c1 =? len_N (d_ns_tree (c_doc c1))).
  - constructor. split; [reflexivity|]. cbn [snd]. rc. assumption.
  - destruct nss as [pa pe].
    eapply G_bind; [apply resolve_ns_loop_rel; exact HR|].
    intros y1 y2 Hy. pose proof Hy as [_ [_ [_ Hty]]]. rewrite <- Hty.
    apply G_same. intros r. constructor. split; [reflexivity|]. cbn [snd]. rc. assumption.
Qed.

(* ---- resolve_attributes ---- *)

Lemma strip_attr_proj : forall a b, strip_attr a = strip_attr b ->
  ad_ns_idx a = ad_ns_idx b /\ ad_local a = ad_local b /\ ad_value a = ad_value b.
Proof. intros a b H. unfold strip_attr in H. inversion H. auto. Qed.

Lemma Ra_len : forall l1 l2, Ra l1 l2 -> len_N l1 = len_N l2.
Proof. intros l1 l2 H. rewrite <- (len_N_map _ _ strip_attr l1), H. apply len_N_map. Qed.

Lemma Ra_skipn : forall n l1 l2, Ra l1 l2 -> Ra (skipn n l1) (skipn n l2).
Proof.
  induction n as [|n IH]; intros l1 l2 H; [exact H|].
  destruct l1 as [|x l1], l2 as [|y l2]; try discriminate H; [reflexivity|].
  unfold Ra in H. cbn [map] in H. apply cons_inj in H. cbn [skipn]. apply IH. tauto.
Qed.

Lemma any_same_name_rel : forall text d1 d2 name l1 l2, Rd d1 d2 -> Ra l1 l2 ->
  any_same_name text d1 l1 name = any_same_name text d2 l2 name.
Proof.
  intros text d1 d2 name. induction l1 as [|x l1 IH]; intros [|y l2] HR H; try discriminate H.
  - reflexivity.
  - unfold Ra in H. cbn [map] in H. apply cons_inj in H. destruct H as [Hxy Hl].
    apply strip_attr_proj in Hxy. destruct Hxy as [E1 [E2 _]].
    cbn [any_same_name]. rewrite <- E1, <- E2.
    rewrite <- (attr_expanded_name_ext text d1 d2 _ _ HR). rewrite (IH l2 HR Hl). reflexivity.
Qed.

Lemma resolve_attrs_loop_rel : forall text nss start l d1 d2, Rd d1 d2 ->
  G Rd (resolve_attrs_loop text nss start l d1) (resolve_attrs_loop text nss start l d2).
Proof.
  induction l as [|a l IH]; intros d1 d2 H; cbn [resolve_attrs_loop].
  - constructor; assumption.
  - rewrite <- (get_ns_idx_by_prefix_ext text nss _ _ d1 d2 H).
    apply G_same. intros ns_idx.
    rewrite <- (attr_expanded_name_ext text d1 d2 _ _ H). apply G_same. intros name.
    pose proof H as [Hn [Ha [Hv Ht]]].
    rewrite <- (any_same_name_rel text d1 d2 name _ _ H (Ra_skipn (N.to_nat start) _ _ Ha)).
    apply G_same. intros dup. destruct dup; [apply grel_err_from|].
    apply IH. repeat split; cproj; auto.
    unfold Ra in *. rewrite !map_app, Ha. reflexivity.
Qed.

Lemma resolve_attributes_rel : forall text nss c1 c2, Rc c1 c2 ->
  G PRc (resolve_attributes text nss c1) (resolve_attributes text nss c2).
Proof.
  intros text nss c1 c2 H. rce H. unfold resolve_attributes. cproj.
  pose proof HR as [_ [Ha _]].
  destruct (c_cur_attrs c1) as [|t l].
  - constructor. split; [reflexivity|]. cbn [snd]. rc. assumption.
  - rewrite <- (Ra_len _ _ Ha).
    destruct (u32_max <=? len_N (d_attrs (c_doc c1)) + len_N (t :: l)); [constructor|].
    eapply G_bind; [apply resolve_attrs_loop_rel; exact HR|].
    intros y1 y2 Hy. pose proof Hy as [_ [Hay _]]. rewrite <- (Ra_len _ _ Hay).
    apply G_same. intros r. constructor. split; [reflexivity|]. cbn [snd]. rc. assumption.
Qed.

(* ---- process_element ---- *)

Lemma process_element_rel : forall text e r c1 c2, Rc c1 c2 ->
  G Rc (process_element text e r c1) (process_element text e r c2).
Proof.
  intros text e r c1 c2 H. unfold process_element.
  pose proof H as H0. rce H0. cproj.
  destruct (slice_len (tn_name (c_tag_name c1)) =? 0).
  { destruct e; try constructor. apply grel_err_from. }
  eapply G_bind; [apply resolve_namespaces_rel; apply Rc_doc_same; exact HR|].
  intros [nsr x1] [nsr' x2] [E Hx]. cbn [fst snd] in E, Hx. subst nsr'. clear HR.
  rce Hx. cproj. pose proof HR as [_ [_ [_ Ht]]]. rewrite <- Ht.
  eapply G_bind.
  { apply resolve_attributes_rel.
    apply (Rc_doc_same (set_ns_start_idx x1 (len_N (d_ns_tree (c_doc x1))))). exact HR. }
  intros [attrs y1] [attrs' y2] [E Hy]. cbn [fst snd] in E, Hy. subst attrs'. clear HR Ht.
  rce Hy. cproj. pose proof HR as [Hn _].
  destruct e.
  - (* EOpen *)
    rewrite <- (get_ns_idx_by_prefix_ext text nsr _ _ (c_doc y1) _ HR).
    apply G_same. intros tag.
    eapply G_bind; [apply append_node_rel; exact HR|].
    intros [i1 z1] [i2 z2] [E Hz]. cbn [fst snd] in E, Hz. subst i2. rce Hz.
    constructor. rc. assumption.
  - (* EClose *)
    destruct (len_N (c_parent_prefixes y1) <=? c_entity_floor y1); [apply grel_err_from|].
    eapply G_bind; [apply Rn_nth; exact Hn|].
    intros p1 p2 Hp. apply strip_node_proj in Hp. destruct Hp as [Hpar [_ [_ [_ Hk]]]].
    rewrite <- Hk, <- Hpar.
    apply G_same. intros parent_prefix.
    eapply G_bind; [apply Rn_upd; [apply ok_range_end|exact Hn]|].
    intros n1 n2 Hn12. cproj.
    apply G_same. intros u.
    destruct (nd_parent p1); [|apply grel_err_from].
    destruct (removelast (c_parent_prefixes y1)); constructor.
    rc. apply Rd_set_nodes; assumption.
  - (* EEmpty *)
    rewrite <- (get_ns_idx_by_prefix_ext text nsr _ _ (c_doc y1) _ HR).
    apply G_same. intros tag.
    eapply G_bind; [apply append_node_rel; exact HR|].
    intros [i1 z1] [i2 z2] [E Hz]. cbn [fst snd] in E, Hz. subst i2. rce Hz.
    constructor. rc. assumption.
Qed.

(* ---- process_text: the loop, named ---- *)

Definition pn_loop (text : bytes) (pc : stream -> context -> res (stream * context)) (r : range) :=
  fix loop (fuel : nat) (s : stream) (buf : text_buffer) (c : context) {struct fuel}
    : res (text_buffer * context) :=
    match fuel with
    | O => OutOfFuel
    | S fu =>
      if at_end s then Ok (buf, c) else
      let! (ch, s) := parse_next_chunk text s (c_entities c) in
      match ch with
      | ChByte x => loop fu s (tb_push_from_text x buf) c
      | ChChar cp =>
        loop fu s (push_char_bytes_text (encode_utf8 cp) (0 <? ld_depth (c_ld c)) buf) c
      | ChText value =>
        let! c := if negb (tb_is_empty buf)
                  then let! bs := tb_finish buf in append_text (CowOwned bs) r c
                  else Ok c in
        let! ld := inc_references text s (c_ld c) in
        let! ld := inc_depth text s ld in
        let c := set_ld c ld in
        let! es := stream_from_substr text (sl_start value) (sl_end value) in
        let prev_tag_name := c_tag_name c in
        let prev_floor := c_entity_floor c in
        let c := set_entity_floor (set_tag_name c tag_name_null) (len_N (c_parent_prefixes c)) in
        let! (_, c) := pc es c in
        if negb (len_N (c_parent_prefixes c) =? c_entity_floor c) then Err UnexpectedEndOfStream
        else
          let c := set_entity_floor (set_tag_name c prev_tag_name) prev_floor in
          let c := set_ld c (dec_depth (c_ld c)) in
          loop fu s tb_new c
      end
    end.

Lemma process_text_with_pn : forall text pc t r c,
  process_text_with text pc t r c =
  if negb (existsb (fun x => (x =? 38) || (x =? 13)) (slice_bytes text t))
  then append_text (CowBorrowed t) r c
  else
    let! s0 := stream_from_substr text (fst r) (snd r) in
    let! (buf, c) := pn_loop text pc r (S (length (s_rest s0))) s0 tb_new c in
    if negb (tb_is_empty buf)
    then let! bs := tb_finish buf in append_text (CowOwned bs) r c
    else Ok c.
Proof. reflexivity. Qed.

Section PC.
Variable text : bytes.
Variable pc : stream -> context -> res (stream * context).
Hypothesis Hpc : forall s c1 c2, Rc c1 c2 -> G PRc (pc s c1) (pc s c2).

Lemma pn_loop_rel : forall r fuel s buf c1 c2, Rc c1 c2 ->
  G PRc (pn_loop text pc r fuel s buf c1) (pn_loop text pc r fuel s buf c2).
Proof.
  induction fuel as [|fu IH]; intros s buf c1 c2 H; [constructor|].
  cbn [pn_loop]. pose proof H as H0. rce H0. cproj.
  destruct (at_end s); [constructor; split; [reflexivity|exact H]|].
  apply G_same. intros [ch s1].
  destruct ch as [x|cp|value]; [apply IH; exact H|apply IH; exact H|].
  eapply G_bind with (P := Rc).
  { destruct (negb (tb_is_empty buf)).
    - apply G_same. intros bs. apply append_text_rel. exact H.
    - constructor. exact H. }
  intros x1 x2 Hx. pose proof Hx as Hx0. rce Hx0. cproj.
  apply G_same. intros ld1. apply G_same. intros ld2. apply G_same. intros es.
  eapply G_bind.
  { apply Hpc. rc. exact HR0. }
  intros [s2 y1] [s2' y2] [E Hy]. cbn [fst snd] in E, Hy. subst s2'. pose proof Hy as Hy0. rce Hy0. cproj.
  destruct (negb (len_N (c_parent_prefixes y1) =? c_entity_floor y1)); [constructor|].
  apply IH. rc. exact HR1.
Qed.

Lemma process_text_with_rel : forall t r c1 c2, Rc c1 c2 ->
  G Rc (process_text_with text pc t r c1) (process_text_with text pc t r c2).
Proof.
  intros t r c1 c2 H. rewrite !process_text_with_pn.
  destruct (negb (existsb _ (slice_bytes text t))); [apply append_text_rel; exact H|].
  apply G_same. intros s0.
  eapply G_bind; [apply pn_loop_rel; exact H|].
  intros [buf x1] [buf' x2] [E Hx]. cbn [fst snd] in E, Hx. subst buf'.
  destruct (negb (tb_is_empty buf)).
  - apply G_same. intros bs. apply append_text_rel. exact Hx.
  - constructor. exact Hx.
Qed.
End PC.

Lemma token_with_rel : forall text pt,
  (forall t r c1 c2, Rc c1 c2 -> G Rc (pt t r c1) (pt t r c2)) ->
  forall tk c1 c2, Rc c1 c2 -> G Rc (token_with text pt tk c1) (token_with text pt tk c2).
Proof.
  intros text pt Hpt tk c1 c2 H. destruct tk; cbn [token_with].
  - eapply G_bind; [apply reset_after_text_rel; exact H|]. intros x1 x2 Hx. rce Hx.
    eapply G_bind; [apply append_node_rel; exact HR|].
    intros [i1 z1] [i2 z2] [_ Hz]. constructor. exact Hz.
  - eapply G_bind; [apply reset_after_text_rel; exact H|]. intros x1 x2 Hx. rce Hx.
    eapply G_bind; [apply append_node_rel; exact HR|].
    intros [i1 z1] [i2 z2] [_ Hz]. constructor. exact Hz.
  - rce H. cproj. constructor. rc. exact HR.
  - eapply G_bind; [apply reset_after_text_rel; exact H|]. intros x1 x2 Hx. rce Hx.
    destruct (bytes_eqb (slice_bytes text prefix) xmlns_str); [apply grel_err_from|].
    constructor. rc. exact HR.
  - apply process_attribute_rel; exact H.
  - eapply G_bind; [apply reset_after_text_rel; exact H|]. intros x1 x2 Hx.
    apply process_element_rel; exact Hx.
  - apply Hpt; exact H.
  - apply process_cdata_rel; exact H.
Qed.

Lemma HQ_true : forall (ev : Tokenizer.token -> context -> res context) tok c c',
  ev tok c = Ok c' -> (fun _ : context => True) c -> (fun _ : context => True) c'.
Proof. auto. Qed.

Lemma parse_content_lvl_rel : forall text lvl s c1 c2, Rc c1 c2 ->
  G PRc (parse_content_lvl text lvl s c1) (parse_content_lvl text lvl s c2).
Proof.
  induction lvl as [|lvl IH]; intros s c1 c2 H; [constructor|].
  cbn [parse_content_lvl].
  apply (b_parse_content text context context _ _ False NoRootNode Rc (fun _ => True)); [| |exact H].
  - intros tok x1 x2 Hx. apply token_with_rel; [|exact Hx].
    intros t r y1 y2 Hy. apply process_text_with_rel; [|exact Hy].
    intros s0 z1 z2 Hz. apply IH; exact Hz.
  - intros; exact I.
Qed.

Lemma token_rel : forall text tok c1 c2, Rc c1 c2 -> G Rc (token text tok c1) (token text tok c2).
Proof.
  intros text tok c1 c2 H. unfold token. apply token_with_rel; [|exact H].
  intros t r y1 y2 Hy. unfold process_text. apply process_text_with_rel; [|exact Hy].
  intros s0 z1 z2 Hz. apply parse_content_lvl_rel; exact Hz.
Qed.

(* the callback commutes with stripping: what is stored in the position fields never
   influences anything else *)
Theorem token_strip : forall text tok c1 c2, strip_ctx c1 = strip_ctx c2 ->
  strip_res (token text tok c1) = strip_res (token text tok c2).
Proof.
  intros text tok c1 c2 H. pose proof (token_rel text tok c1 c2 H) as K.
  destruct K; cbn [strip_res]; try reflexivity.
  - f_equal. assumption.
  - contradiction.
Qed.
Print Assumptions token_strip.

(* ---- the whole parse ---- *)

Lemma strip_ctx_idem : forall c, strip_ctx (strip_ctx c) = strip_ctx c.
Proof.
  intros c. unfold strip_ctx, set_doc, strip_doc. cbn. f_equal. f_equal.
  - rewrite map_map. apply map_ext. reflexivity.
  - rewrite map_map. apply map_ext. reflexivity.
Qed.

(* a builder that strips after every token runs in lockstep with the real one, and its state is
   always the stripped state *)
Theorem parse_document_strip : forall text (ev' : Tokenizer.token -> context -> res context) dtd c0,
  (forall tok c, ev' tok c = strip_res (token text tok c)) ->
  parse_document text context ev' dtd (strip_ctx c0) =
  strip_res (parse_document text context (token text) dtd c0).
Proof.
  intros text ev' dtd c0 Hev'.
  pose proof (b_parse_document text context context (token text) ev' False NoRootNode
                (fun c1 c2 => c2 = strip_ctx c1) (fun _ => True)) as K.
  assert (G (fun c1 c2 => c2 = strip_ctx c1)
            (parse_document text context (token text) dtd c0)
            (parse_document text context ev' dtd (strip_ctx c0))) as L.
  { apply K; [| |reflexivity].
    - intros tok c1 c2 ->. rewrite Hev'.
      rewrite <- (token_strip text tok c1 (strip_ctx c1)) by (symmetry; apply strip_ctx_idem).
      destruct (token text tok c1); constructor. reflexivity.
    - intros; exact I. }
  destruct L; cbn [strip_res]; try reflexivity.
  - subst; reflexivity.
  - contradiction.
Qed.
Print Assumptions parse_document_strip.

(* hence the whole parse: a build that stores nothing in those fields produces the stripped
   document *)
Theorem parse_strip_invariant : forall text opt d, parse text opt = Ok d ->
  forall (ev' : Tokenizer.token -> context -> res context),
    (forall tok c, ev' tok c = strip_res (token text tok c)) ->
    exists c0 c', init_context text opt = Ok c0 /\
      parse_document text context ev' (allow_dtd opt) (strip_ctx c0) = Ok c' /\
      c_doc c' = strip_doc d.
Proof.
  intros text opt d H ev' Hev'. unfold parse in H.
  apply bind_ok in H. destruct H as [c0 [H0 H]].
  apply bind_ok in H. destruct H as [c1 [H1 H]].
  apply bind_ok in H. destruct H as [it [_ H]].
  apply bind_ok in H. destruct H as [he [_ H]].
  destruct (negb he); [discriminate|].
  destruct (1 <? len_N (c_parent_prefixes c1)); [discriminate|].
  inversion H; subst d.
  exists c0, (strip_ctx c1). split; [assumption|]. split; [|reflexivity].
  rewrite (parse_document_strip text ev' _ c0 Hev'), H1. reflexivity.
Qed.
Print Assumptions parse_strip_invariant.

(* ... and reports the same errors (and the same panics) *)
Theorem parse_strip_errors : forall text dtd c0 e (ev' : Tokenizer.token -> context -> res context),
  (forall tok c, ev' tok c = strip_res (token text tok c)) ->
  parse_document text context (token text) dtd c0 = Err e ->
  parse_document text context ev' dtd (strip_ctx c0) = Err e.
Proof.
  intros text dtd c0 e ev' Hev' H. rewrite (parse_document_strip text ev' dtd c0 Hev'), H. reflexivity.
Qed.
Print Assumptions parse_strip_errors.

(* the checks made by parse() after the tokenizer run do not look at the position fields either *)
Lemma strip_node_data_of : forall d id,
  node_data_of (strip_doc d) id =
  match node_data_of d id with Ok nd => Ok (strip_node nd) | Err e => Err e | Panic p => Panic p
                             | OutOfFuel => OutOfFuel end.
Proof.
  intros d id. unfold node_data_of, get_node, strip_doc. cbn [d_nodes]. rewrite nth_N_map.
  destruct (nth_N (d_nodes d) id); reflexivity.
Qed.

Lemma strip_get_node : forall d id, get_node (strip_doc d) id = option_map strip_node (get_node d id).
Proof. intros. unfold get_node, strip_doc. cbn [d_nodes]. apply nth_N_map. Qed.

Lemma strip_node_unwrap : forall d id, node_unwrap (strip_doc d) id = node_unwrap d id.
Proof. intros. unfold node_unwrap. rewrite strip_get_node. destruct (get_node d id); reflexivity. Qed.

Lemma strip_opt_unwrap : forall d o, opt_unwrap_node (strip_doc d) o = opt_unwrap_node d o.
Proof. intros d [id|]; cbn [opt_unwrap_node]; [rewrite strip_node_unwrap|]; reflexivity. Qed.

Lemma strip_last_child : forall d id, last_child (strip_doc d) id = last_child d id.
Proof.
  intros. unfold last_child. rewrite strip_node_data_of.
  destruct (node_data_of d id); cbn [bind]; try reflexivity. apply strip_opt_unwrap.
Qed.

Lemma strip_first_child : forall d id, first_child (strip_doc d) id = first_child d id.
Proof.
  intros. unfold first_child. rewrite strip_node_data_of.
  destruct (node_data_of d id) as [nd| | |]; cbn [bind]; try reflexivity.
  cbn [strip_node nd_last_child]. destruct (nd_last_child nd); [|reflexivity].
  destruct (node_id_new (id + 1)); cbn [bind]; try reflexivity. rewrite strip_node_unwrap. reflexivity.
Qed.

Lemma strip_next_sibling : forall d id, next_sibling (strip_doc d) id = next_sibling d id.
Proof.
  intros. unfold next_sibling. rewrite strip_node_data_of.
  destruct (node_data_of d id) as [nd| | |]; cbn [bind]; try reflexivity.
  cbn [strip_node nd_next_subtree]. destruct (nd_next_subtree nd) as [nid|]; [|reflexivity].
  rewrite strip_node_unwrap. destruct (node_unwrap d nid) as [nid'| | |]; cbn [bind]; try reflexivity.
  rewrite strip_node_data_of. destruct (node_data_of d nid') as [nnd| | |]; cbn [bind]; reflexivity.
Qed.

Lemma strip_children : forall d id, children (strip_doc d) id = children d id.
Proof. intros. unfold children. rewrite strip_first_child, strip_last_child. reflexivity. Qed.

Lemma strip_children_next : forall d it, children_next (strip_doc d) it = children_next d it.
Proof.
  intros. unfold children_next. destruct (opt_N_eqb (ch_front it) (ch_back it)); [reflexivity|].
  destruct (ch_front it); [|reflexivity]. rewrite strip_next_sibling. reflexivity.
Qed.

Lemma strip_node_is_element : forall d id, node_is_element (strip_doc d) id = node_is_element d id.
Proof.
  intros. unfold node_is_element. rewrite strip_node_data_of.
  destruct (node_data_of d id); reflexivity.
Qed.

Lemma strip_children_any_element : forall fuel d it,
  children_any_element fuel (strip_doc d) it = children_any_element fuel d it.
Proof.
  induction fuel as [|fu IH]; intros d it; cbn [children_any_element]; [reflexivity|].
  rewrite strip_children_next. destruct (children_next d it) as [[o it']| | |]; cbn [bind]; try reflexivity.
  destruct o as [n|]; [|reflexivity]. rewrite strip_node_is_element, IH. reflexivity.
Qed.

(* parse() of a build without the position fields: the tokenizer is run with the stripping
   callback from the stripped initial context *)
Definition parse_np (text : bytes) (ev' : Tokenizer.token -> context -> res context) (opt : options)
  : res document :=
  let! c := init_context text opt in
  let! c := parse_document text context ev' (allow_dtd opt) (strip_ctx c) in
  let d := c_doc c in
  let! it := children d 0 in
  let! has_elem := children_any_element (S (length (d_nodes d))) d it in
  if negb has_elem then Err NoRootNode
  else if 1 <? len_N (c_parent_prefixes c) then Err UnclosedRootNode
  else Ok d.

(* same inputs accepted, same errors (and panics), same tree up to the position fields *)
Theorem parse_np_correct : forall text opt (ev' : Tokenizer.token -> context -> res context),
  (forall tok c, ev' tok c = strip_res (token text tok c)) ->
  parse_np text ev' opt =
  match parse text opt with
  | Ok d => Ok (strip_doc d) | Err e => Err e | Panic p => Panic p | OutOfFuel => OutOfFuel
  end.
Proof.
  intros text opt ev' Hev'. unfold parse_np, parse.
  destruct (init_context text opt) as [c0| | |]; cbn [bind]; try reflexivity.
  rewrite (parse_document_strip text ev' _ c0 Hev').
  destruct (parse_document text context (token text) (allow_dtd opt) c0) as [c1| | |];
    cbn [bind strip_res]; try reflexivity.
  change (c_doc (strip_ctx c1)) with (strip_doc (c_doc c1)).
  change (c_parent_prefixes (strip_ctx c1)) with (c_parent_prefixes c1).
  rewrite strip_children.
  destruct (children (c_doc c1) 0) as [it| | |]; cbn [bind]; try reflexivity.
  replace (length (d_nodes (strip_doc (c_doc c1)))) with (length (d_nodes (c_doc c1)))
    by (unfold strip_doc; cbn [d_nodes]; rewrite map_length; reflexivity).
  rewrite strip_children_any_element.
  destruct (children_any_element _ (c_doc c1) it) as [he| | |]; cbn [bind]; try reflexivity.
  destruct (negb he); [reflexivity|].
  destruct (1 <? len_N (c_parent_prefixes c1)); reflexivity.
Qed.
Print Assumptions parse_np_correct.
