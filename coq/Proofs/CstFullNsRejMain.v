(* Proofs/CstFullNsRejMain.v -- C06/C08 on the capstone fragment: the REJECTION half for the namespace rules, on the whole
   supported subset (Spec/CstFullS6.v), complementing Proofs/CstFullRejMain.v (C09).

   A document d is taken that satisfies every condition of S6.wf_doc that does not look at the expansion of its references
   ([wf_syntax6]), whose references can be unfolded ([ginline6 d = Some (cT, tr)]) with a trace tr WITHIN the limits of
   the detector -- so that cT is the inlined body of Spec/CstFullS4.v --, with the line-end proviso and the size
   hypotheses of the acceptance theorem on cT.  Then

     [ns_violation_variant_full_s6]  if what cT denotes violates a namespace rule, parse answers the error of the FIRST
                                     violated rule, in the reading order of the parser ([first_violation6]:
                                     Proofs/NsRejDefs.v on the denotation, so prefixes are resolved in the scope of the
                                     place of the REFERENCE, after inlining);
     [ns_violation_rejected_full_s6] hence an error of the namespace family ([is_ns_error]);
     [ns_decide_full_s6_partial]     and parse answers Ok IFF the namespace rules of Spec/CstFull.v hold on cT;
     [decide_full_s6]                with C09: which of Ok / EntityReferenceLoop / namespace error is answered.

   TWO DEVIATIONS from the statement asked for, both forced:
   (1) [ns_ok] of Spec/CstFull.v contains, besides N1-N7, a condition on the SYNTAX: an ordinary attribute ([EAttr]) is not
       named xmlns or xmlns:p (such an entry "IS a declaration").  [wf_syntax6] does not ask this ([wf_qname] accepts
       the prefix xmlns), and the model reads such an attribute as the declaration it spells.  So
       "parse = Ok <-> ns_ok" is FALSE as stated: the root <r xmlns:p="u"/> written with EAttr (qn "xmlns" "p") is
       wf_syntax6, its unfolding fails ns_ok, and parse answers Ok (Proofs/CstFullNsRejSanity.v, [attr_named_xmlns]).
       The theorems therefore carry the hypothesis [attrs_named_ok cT] (no ordinary attribute of the unfolding is named
       xmlns / xmlns:p) -- hence the suffix _partial; under it [ns_ok] is exactly "no first violation" ([ns_ok_first6]).
   (2) the namespace family has SEVEN variants, not six: N1 (an element named xmlns:x) and N3 (xmlns:xmlns declared) are
       reported as InvalidElementNamePrefix (as in Proofs/NsRejBuild.v [is_ns_error], which is used here).  With the six
       variants asked for the statement is false: <xmlns:r/> ([elem_prefix_xmlns]). *)
From Coq Require Import Ascii String.
From Coq Require Import List NArith PeanoNat Bool Lia ZifyBool ZifyN ZifyNat.
Import ListNotations.
From RX Require Import Generated.
From RX.Model Require Import Base CharClass Stream Tokenizer Doc Builder Parse.
From RX.Spec Require Cst CstText CstEnt Detector Scope CstU CstNs Chars.
From RX.Spec Require Import CstFullS5.
From RX.Spec Require Import Text CstFull CstFullS4.
From RX.Spec Require Import CstFullS6.
From RX.Proofs Require Import Tactics CstLex CstBuild CstNsLex CstNsView CstNsBuild CstULex DetectorProofs.
From RX.Proofs Require Import CstFullLex CstFullBuild CstFullTree CstFullDoc.
From RX.Proofs Require Import CstFullS4Sem.
From RX.Proofs Require Import CstFullS5Ws CstFullS5Doc.
From RX.Proofs Require Import CstFullS6Text CstFullS6Items CstFullS6Dtd CstFullS6Doc CstFullS6Main.
From RX.Proofs Require Import CstFullRejSem CstFullRejTrace CstFullRejDoc CstFullRejMain.
From RX.Proofs Require Import CstFullNsRejBuild CstFullNsRejText CstFullNsRejItems CstFullNsRejDoc.
From RX.Proofs Require NsRejDefs NsRejBuild.
From RX.Proofs Require CstNsItems CstNsDoc CstNsMain CstFullMain CstFullS3 CstFullS4Main CstFullS5 OptionsMain ScopeProofs.
Open Scope N_scope.

(* no ordinary attribute of the unfolding is named xmlns / xmlns:p *)
Definition attrs_named_ok (cT : CstFull.doc bpieces) : bool := attrs_oks (den bmeaning (d_root cT)).
(* the first violated namespace rule, in reading order, on what the unfolding denotes *)
Definition first_violation6 (cT : CstFull.doc bpieces) : option NsRejDefs.rule := items_viol [] (den bmeaning (d_root cT)).

Lemma ns_ok_first6 cT :
  forallb (ns_ok []) (den bmeaning (d_root cT)) = attrs_named_ok cT && NsRejDefs.is_none (first_violation6 cT).
Proof. rewrite ns_oks_forallb. apply ns_oks_split. Qed.

Lemma inline_root6 d cT tr : S4.inline (S6.core d) = Some (cT, tr) ->
  exists root', inline_item (level (S6.decls d) E.max_level) false (d_root (S6.x_main d)) = Some ([root'], tr) /\ cT = cI d root'.
Proof.
  unfold S4.inline. change (S4.table (S6.core d)) with (level (S6.decls d) E.max_level).
  change (S4.x_main (S6.core d)) with (S6.x_main d). intros H.
  destruct (inline_item (level (S6.decls d) E.max_level) false (d_root (S6.x_main d))) as [[its tr0]|]; [|discriminate].
  cbn [E.obind fst snd] in H. destruct its as [|root' [|x its]]; try discriminate. injection H as <- <-.
  exists root'. split; reflexivity.
Qed.

(* ------------------------------------------------------------------------------------------ *)
(* a violated rule: rejected, with the error of the first one                                 *)
(* ------------------------------------------------------------------------------------------ *)
Theorem ns_violation_variant_full_s6 : forall (d : S6.doc) (opt : options) (cT : CstFull.doc bpieces) (tr : list Detector.lop) (rl : NsRejDefs.rule),
  wf_syntax6 d = true -> ginline6 d = Some (cT, tr) ->
  Detector.within_limits 10 255 0 0 tr = true ->
  provisos_item (d_root cT) = true ->
  attrs_named_ok cT = true ->
  first_violation6 cT = Some rl ->
  (S6.has_dtd d = true -> allow_dtd opt = true) ->
  N.of_nat (length (usem6 d cT)) < nodes_limit opt ->
  N.of_nat (length (usem6 d cT)) < u32_max ->
  N.of_nat (vattrs (usem6 d cT)) < u32_max ->
  CstFull.distinct_decls_le bmeaning cT (N.to_nat 65535) ->
  1 + N.of_nat (CstFull.ns_cost bmeaning cT) <= u32_max ->
  exists e, parse (S6.render d) opt = Err e /\ rule_error rl e = true.
Proof.
  intros d opt cT tr rl Hwf Hinl Hlim Hprov Hao Hviol Hdtd Hn Hmax Hattr Hdist Hcost. set (text := S6.render d).
  destruct (detector_complete_gen tr 0 0 Hlim) as [ld' Hrun]. change (DetectorProofs.mk 0 0) with ld_init in Hrun.
  pose proof (ginline4_inline (S6.core d) cT tr ld' Hinl Hrun) as Hi.
  destruct (inline_root6 d cT tr Hi) as (root' & Hroot & ->).
  unfold attrs_named_ok in Hao. unfold first_violation6 in Hviol. cbn [cI d_root] in Hprov, Hao, Hviol.
  pose proof (usem_all6 d Hwf root') as Esem.
  unfold CstFull.distinct_decls_le, doc_decls in Hdist. unfold CstFull.ns_cost in Hcost. cbn [d_root cI] in Hdist, Hcost.
  set (D := flat_map CstNs.item_decls (bden root')) in *.
  assert (HD : forall l, NoDup l -> incl l D -> N.of_nat (length l) <= 65535).
  { intros l N1 N2. pose proof (Hdist l N1 N2). lia. }
  assert (Hsz : NT.nsizes (L6 d root') = N.of_nat (length (usem6 d (cI d root')))).
  { rewrite Esem, CstFullMain.sem_items_len. reflexivity. }
  assert (Hat : NT.nattrs_items (bden root') = vattrs (usem6 d (cI d root'))).
  { rewrite Esem, CstFullS4Main.vattrs_sems. unfold L6.
    destruct (s6_sparts d Hwf) as [_ _ H1 _ H3 _ _ H6].
    destruct (regroup_wf_s epieces M0 _ _ H1 H3) as [Q1 _].
    destruct (pairs_dens_s epieces M0 _ Q1) as (_ & _ & X1 & _). destruct (pairs_dens_s epieces M0 _ H6) as (_ & _ & X2 & _).
    pose proof (misc_nattrs _ (prolog_misc_s d Hwf)) as X0.
    assert (G : forall x y z w : nat, x = 0%nat -> y = 0%nat -> w = 0%nat -> (x + (y + (z + w)) = z)%nat) by (intros; lia).
    rewrite !nattrs_items_app. symmetry. apply G; [exact X0|exact X1|exact X2]. }
  destruct (nparse_document6 d Hwf D HD (allow_dtd opt) root' tr (CstNsMain.init_ctx text opt) rl Hdtd Hroot Hlim Hprov Hao)
    as (er & E & R); try exact Hviol.
  { unfold D. rewrite items_decls_flat. apply incl_refl. }
  { apply (CstNsMain.init_ctx_CIn text D opt). }
  { reflexivity. } { reflexivity. } { reflexivity. }
  { unfold CstNsItems.node_room. cbn [CstNsMain.init_ctx c_doc c_opt d_nodes]. rewrite Hsz. unfold len_N. cbn [length]. lia. }
  { unfold CstNsItems.attr_room. cbn [CstNsMain.init_ctx c_doc d_attrs]. rewrite Hat. unfold len_N. cbn [length]. lia. }
  { unfold CstNsItems.ns_room. cbn [CstNsMain.init_ctx c_doc d_ns_tree]. unfold len_N. cbn [length]. rewrite ns_costs_sum. lia. }
  exists er. split; [|exact R]. fold text in E. unfold parse. rewrite (CstNsMain.init_context_eq text opt). cbn [bind].
  unfold tok_ev in E. rewrite E. reflexivity.
Qed.

Theorem ns_violation_rejected_full_s6 : forall (d : S6.doc) (opt : options) (cT : CstFull.doc bpieces) (tr : list Detector.lop),
  wf_syntax6 d = true -> ginline6 d = Some (cT, tr) ->
  Detector.within_limits 10 255 0 0 tr = true ->
  provisos_item (d_root cT) = true ->
  attrs_named_ok cT = true ->
  (S6.has_dtd d = true -> allow_dtd opt = true) ->
  N.of_nat (length (usem6 d cT)) < nodes_limit opt ->
  N.of_nat (length (usem6 d cT)) < u32_max ->
  N.of_nat (vattrs (usem6 d cT)) < u32_max ->
  CstFull.distinct_decls_le bmeaning cT (N.to_nat 65535) ->
  1 + N.of_nat (CstFull.ns_cost bmeaning cT) <= u32_max ->
  forallb (ns_ok []) (den bmeaning (d_root cT)) = false ->
  exists e, parse (S6.render d) opt = Err e /\ is_ns_error e = true.
Proof.
  intros d opt cT tr Hwf Hinl Hlim Hprov Hao Hdtd Hn Hmax Hattr Hdist Hcost Hns.
  rewrite ns_ok_first6, Hao in Hns. cbn [andb] in Hns.
  destruct (first_violation6 cT) as [rl|] eqn:Hv; [|discriminate].
  destruct (ns_violation_variant_full_s6 d opt cT tr rl Hwf Hinl Hlim Hprov Hao Hv Hdtd Hn Hmax Hattr Hdist Hcost) as (e & E & R).
  exists e. split; [exact E|apply (NsRejBuild.rule_error_ns rl e R)].
Qed.

(* the namespace decision *)
Theorem ns_decide_full_s6_partial : forall (d : S6.doc) (opt : options) (cT : CstFull.doc bpieces) (tr : list Detector.lop),
  wf_syntax6 d = true -> ginline6 d = Some (cT, tr) ->
  Detector.within_limits 10 255 0 0 tr = true ->
  provisos_item (d_root cT) = true ->
  attrs_named_ok cT = true ->                                       (* see (1) in the header *)
  (S6.has_dtd d = true -> allow_dtd opt = true) ->
  N.of_nat (length (usem6 d cT)) < nodes_limit opt ->
  N.of_nat (length (usem6 d cT)) < u32_max ->
  N.of_nat (vattrs (usem6 d cT)) < u32_max ->
  CstFull.distinct_decls_le bmeaning cT (N.to_nat 65535) ->
  1 + N.of_nat (CstFull.ns_cost bmeaning cT) <= u32_max ->
  ((exists x, parse (S6.render d) opt = Ok x) <-> forallb (ns_ok []) (den bmeaning (d_root cT)) = true) /\
  (forallb (ns_ok []) (den bmeaning (d_root cT)) = true ->
     exists x, parse (S6.render d) opt = Ok x /\ view (S6.render d) x = Some (usem6 d cT)) /\
  (forallb (ns_ok []) (den bmeaning (d_root cT)) = false ->
     exists e, parse (S6.render d) opt = Err e /\ is_ns_error e = true) /\
  match first_violation6 cT with
  | None => forallb (ns_ok []) (den bmeaning (d_root cT)) = true
  | Some rl => exists e, parse (S6.render d) opt = Err e /\ rule_error rl e = true
  end.
Proof.
  intros d opt cT tr Hwf Hinl Hlim Hprov Hao Hdtd Hn Hmax Hattr Hdist Hcost.
  assert (Hacc : forallb (ns_ok []) (den bmeaning (d_root cT)) = true ->
                 exists x, parse (S6.render d) opt = Ok x /\ view (S6.render d) x = Some (usem6 d cT)).
  { intros Hns. destruct (limits_decide_full_s6 d opt cT tr Hwf Hinl Hprov Hns Hdtd Hn Hmax Hattr Hdist Hcost) as (A & _).
    destruct (A Hlim) as (x & Hx & Hv & _). eauto. }
  assert (Hrej : forallb (ns_ok []) (den bmeaning (d_root cT)) = false ->
                 exists e, parse (S6.render d) opt = Err e /\ is_ns_error e = true)
    by (intros Hns; apply (ns_violation_rejected_full_s6 d opt cT tr); assumption).
  split; [|split; [exact Hacc|split; [exact Hrej|]]].
  - split.
    + intros [x Hx]. destruct (forallb (ns_ok []) (den bmeaning (d_root cT))) eqn:Hns; [reflexivity|].
      destruct (Hrej eq_refl) as (e & He & _). rewrite He in Hx. discriminate.
    + intros Hns. destruct (Hacc Hns) as (x & Hx & _). eauto.
  - destruct (first_violation6 cT) as [rl|] eqn:Hv.
    + apply (ns_violation_variant_full_s6 d opt cT tr rl); assumption.
    + rewrite ns_ok_first6, Hao, Hv. reflexivity.
Qed.

(* ------------------------------------------------------------------------------------------ *)
(* C09 and C06/C08 together                                                                   *)
(* ------------------------------------------------------------------------------------------ *)
(* For a syntactically well-formed document whose references can be unfolded: the limits of the detector on the trace
   and the namespace rules on the unfolding decide the answer -- in three of the four cases.  In the fourth (outside
   the limits AND a namespace violation on the 12-level unfolding) the answer depends on which of the two is met first
   in reading order (Proofs/CstFullRejSanity.v: unb_before / unb_after) and nothing is claimed. *)
Theorem decide_full_s6 : forall (d : S6.doc) (opt : options) (cT : CstFull.doc bpieces) (tr : list Detector.lop),
  wf_syntax6 d = true -> ginline6 d = Some (cT, tr) ->
  provisos_item (d_root cT) = true ->
  attrs_named_ok cT = true ->
  (S6.has_dtd d = true -> allow_dtd opt = true) ->
  N.of_nat (length (usem6 d cT)) < nodes_limit opt ->
  N.of_nat (length (usem6 d cT)) < u32_max ->
  N.of_nat (vattrs (usem6 d cT)) < u32_max ->
  CstFull.distinct_decls_le bmeaning cT (N.to_nat 65535) ->
  1 + N.of_nat (CstFull.ns_cost bmeaning cT) <= u32_max ->
  match Detector.within_limits 10 255 0 0 tr, forallb (ns_ok []) (den bmeaning (d_root cT)) with
  | true, true =>                                                   (* (a) accepted, with the meaning of the unfolding *)
    exists x, parse (S6.render d) opt = Ok x /\ view (S6.render d) x = Some (usem6 d cT) /\ S6.wf_doc d = true /\ S6.sem d = usem6 d cT
  | false, true =>                                                  (* (b) the detector stops *)
    exists pos, parse (S6.render d) opt = Err (EntityReferenceLoop pos)
  | true, false =>                                                  (* (c) the first violated namespace rule *)
    exists rl e, first_violation6 cT = Some rl /\ parse (S6.render d) opt = Err e /\ rule_error rl e = true /\ is_ns_error e = true
  | false, false => True
  end.
Proof.
  intros d opt cT tr Hwf Hinl Hprov Hao Hdtd Hn Hmax Hattr Hdist Hcost.
  destruct (Detector.within_limits 10 255 0 0 tr) eqn:Hlim, (forallb (ns_ok []) (den bmeaning (d_root cT))) eqn:Hns.
  - destruct (limits_decide_full_s6 d opt cT tr Hwf Hinl Hprov Hns Hdtd Hn Hmax Hattr Hdist Hcost) as (A & _). apply A. exact Hlim.
  - pose proof Hns as Hns'. rewrite ns_ok_first6, Hao in Hns'. cbn [andb] in Hns'.
    destruct (first_violation6 cT) as [rl|] eqn:Hv; [|discriminate].
    destruct (ns_violation_variant_full_s6 d opt cT tr rl Hwf Hinl Hlim Hprov Hao Hv Hdtd Hn Hmax Hattr Hdist Hcost) as (e & E & R).
    exists rl, e. split; [reflexivity|]. split; [exact E|]. split; [exact R|apply (NsRejBuild.rule_error_ns rl e R)].
  - apply (limits_rejected_full_s6 d opt cT tr); assumption.
  - exact I.
Qed.

(* the three answers exclude one another *)
Lemma answers_exclusive (r : res document) :
  ~ ((exists x, r = Ok x) /\ (exists pos, r = Err (EntityReferenceLoop pos))) /\
  ~ ((exists x, r = Ok x) /\ (exists e, r = Err e /\ is_ns_error e = true)) /\
  ~ ((exists pos, r = Err (EntityReferenceLoop pos)) /\ (exists e, r = Err e /\ is_ns_error e = true)).
Proof.
  split; [|split].
  - intros [[x Hx] [pos Hp]]. congruence.
  - intros [[x Hx] (e & He & _)]. congruence.
  - intros [[pos Hp] (e & He & R)]. rewrite Hp in He. injection He as <-. discriminate.
Qed.

Print Assumptions ns_violation_variant_full_s6.
Print Assumptions ns_violation_rejected_full_s6.
Print Assumptions ns_decide_full_s6_partial.
Print Assumptions decide_full_s6.
