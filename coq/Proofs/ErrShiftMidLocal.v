(* Proofs/ErrShiftMidLocal.v -- C14 (whitespace inserted inside the prolog), part 6: locality of the
   prolog.  T1 = pre ++ X1 and T2 = pre ++ X2 where X2 begins with a whitespace byte and X1 does not
   begin with a continuation byte.  A successful run of a tokenizer function on T1 that ends at or
   before blen pre is repeated verbatim on T2: same values, same tokens, same positions. *)
From Coq Require Import Ascii String.
From Coq Require Import List Arith NArith Bool Lia ZifyBool ZifyN ZifyNat.
Import ListNotations.
From RX Require Import Generated.
From RX.Model Require Import Base CharClass Stream Tokenizer.
From RX.Proofs Require Import Tactics NoPanicUtf8 PositionProofs ErrShiftMidCont.
Open Scope N_scope.

(* the canonical stream of T at position p *)
Definition cs (T : bytes) (p : N) : stream :=
  {| s_pos := p; s_end := tlen T; s_rest := skipn (N.to_nat p) T |}.

Lemma cs_new T : stream_new T = cs T 0.
Proof. reflexivity. Qed.

Lemma skipn_skipn_add {A} (a c : nat) (l : list A) : skipn a (skipn c l) = skipn (c + a) l.
Proof. revert l. induction c as [|c IH]; intros l; [reflexivity|]. destruct l; [destruct a; reflexivity|]. cbn [skipn Nat.add]. apply IH. Qed.

Lemma cs_advance T p n : advance n (cs T p) =
  if tlen T <? p + n then Panic P_debug_assert else Ok (cs T (p + n)).
Proof.
  unfold advance, cs. cbn [s_pos s_end s_rest]. destruct (tlen T <? p + n); [reflexivity|].
  rewrite skipn_skipn_add. replace (N.to_nat p + N.to_nat n)%nat with (N.to_nat (p + n)) by lia. reflexivity.
Qed.

Lemma cs_at_end T p : at_end (cs T p) = (tlen T <=? p).
Proof. reflexivity. Qed.

Lemma firstn_all2' {A} (l : list A) n : (length l <= n)%nat -> firstn n l = l.
Proof. apply firstn_all2. Qed.

Lemma cs_avail T p : avail (cs T p) = skipn (N.to_nat p) T.
Proof.
  unfold avail, cs. cbn [s_pos s_end s_rest]. apply firstn_all2. rewrite skipn_length. unfold tlen, blen. lia.
Qed.

Lemma cs_skip_bytes T f p : p <= tlen T ->
  skip_bytes f (cs T p) = cs T (p + N.of_nat (scan f (skipn (N.to_nat p) T) (N.to_nat (tlen T - p)))).
Proof.
  intros Hp. unfold skip_bytes, cs. cbn [s_pos s_end s_rest]. f_equal.
  rewrite skipn_skipn_add. f_equal. lia.
Qed.

Lemma scan_le f : forall l room, (scan f l room <= length l)%nat /\ (scan f l room <= room)%nat.
Proof.
  induction l as [|x l IH]; intros room; destruct room; cbn [scan length]; try lia.
  destruct (f x); [|lia]. specialize (IH room). lia.
Qed.

(* the scan of D ++ X with enough room: inside D if it stops there *)
Lemma scan_app f : forall D X room, (length D <= room)%nat ->
  scan f (D ++ X) room =
  if (scan f D (length D) <? length D)%nat then scan f D (length D)
  else (length D + scan f X (room - length D))%nat.
Proof.
  induction D as [|d D IH]; intros X room Hr.
  - cbn [app length scan]. rewrite Nat.sub_0_r. destruct X, room; reflexivity.
  - cbn [app length] in *. destruct room as [|room]; [lia|]. cbn [scan]. destruct (f d).
    + rewrite IH by lia. cbn [Nat.sub].
      destruct (scan f D (length D) <? length D)%nat eqn:E.
      * replace (S (scan f D (length D)) <? S (length D))%nat with true by lia. reflexivity.
      * replace (S (scan f D (length D)) <? S (length D))%nat with false by lia. reflexivity.
    + reflexivity.
Qed.

Lemma skipn_app_le {A} (n : nat) (l1 l2 : list A) : (n <= length l1)%nat -> skipn n (l1 ++ l2) = skipn n l1 ++ l2.
Proof. intros H. rewrite skipn_app. replace (n - length l1)%nat with O by lia. reflexivity. Qed.

Lemma prefix_b_app_short : forall lit D X, (length lit <= length D)%nat -> prefix_b lit (D ++ X) = prefix_b lit D.
Proof.
  induction lit as [|a lit IH]; intros D X H; [reflexivity|].
  destruct D as [|d D]; cbn [length] in H; [lia|]. cbn [app prefix_b]. rewrite IH by lia. reflexivity.
Qed.

(* a literal without whitespace does not match across a whitespace byte *)
Lemma prefix_b_ws : forall lit D w r, forallb (fun x => negb (byte_is_space x)) lit = true ->
  byte_is_space w = true -> (length D < length lit)%nat -> prefix_b lit (D ++ w :: r) = false.
Proof.
  induction lit as [|a lit IH]; intros D w r Hl Hw Hlen; [cbn in Hlen; lia|].
  cbn [forallb] in Hl. apply andb_true_iff in Hl. destruct Hl as [Ha Hl].
  destruct D as [|d D]; cbn [app prefix_b].
  - destruct (a =? w) eqn:E; [|reflexivity]. assert (a = w) by lia. subst. rewrite Hw in Ha. discriminate.
  - cbn [length] in Hlen. rewrite (IH D w r Hl Hw) by lia. apply andb_false_r.
Qed.

(* a mismatch inside D *)
Lemma prefix_b_false_app : forall lit D X w r, prefix_b lit (D ++ X) = false ->
  forallb (fun x => negb (byte_is_space x)) lit = true -> byte_is_space w = true ->
  prefix_b lit (D ++ w :: r) = false.
Proof.
  induction lit as [|a lit IH]; intros D X w r H Hl Hw; [discriminate|].
  pose proof Hl as Hl'. cbn [forallb] in Hl. apply andb_true_iff in Hl. destruct Hl as [Ha Hl].
  destruct D as [|d D].
  - apply (prefix_b_ws (a :: lit) [] w r Hl' Hw). cbn. lia.
  - cbn [app prefix_b] in *. destruct (a =? d); [|reflexivity]. cbn [andb] in *. eapply IH; eassumption.
Qed.

Definition nospace (lit : bytes) : bool := forallb (fun x => negb (byte_is_space x)) lit.

Section Local.
Variable pre X1 X2 : bytes.
Hypothesis HX1 : head_ok X1.
Hypothesis HX2 : exists w r, X2 = w :: r /\ byte_is_space w = true.
Hypothesis HL : blen X1 <= blen X2.
Notation T1 := (pre ++ X1).
Notation T2 := (pre ++ X2).
Notation P := (blen pre).
Notation D p := (skipn (N.to_nat p) pre).

Lemma tlen1 : tlen T1 = P + blen X1.
Proof. unfold tlen, blen. rewrite app_length. lia. Qed.
Lemma tlen2 : tlen T2 = P + blen X2.
Proof. unfold tlen, blen. rewrite app_length. lia. Qed.
Lemma X2_len : 1 <= blen X2.
Proof. destruct HX2 as (w & r & -> & _). unfold blen. cbn [length]. lia. Qed.

Lemma rest1 p : p <= P -> skipn (N.to_nat p) T1 = D p ++ X1.
Proof. intros H. apply skipn_app_le. unfold blen in H. lia. Qed.
Lemma rest2 p : p <= P -> skipn (N.to_nat p) T2 = D p ++ X2.
Proof. intros H. apply skipn_app_le. unfold blen in H. lia. Qed.
Lemma D_len p : p <= P -> length (D p) = N.to_nat (P - p).
Proof. intros H. rewrite skipn_length. unfold blen in *. lia. Qed.

(* ---- tests ---- *)
Lemma at_end2 p : p <= P -> at_end (cs T2 p) = false.
Proof. intros H. rewrite cs_at_end, tlen2. pose proof X2_len. lia. Qed.

Lemma sw_true p lit : starts_with (cs T1 p) lit = true -> p + blen lit <= P ->
  starts_with (cs T2 p) lit = true.
Proof.
  intros H Hp. unfold starts_with in *. rewrite cs_avail in *. rewrite rest1 in H by lia. rewrite rest2 by lia.
  rewrite prefix_b_app_short in * by (rewrite D_len by lia; unfold blen in *; lia). exact H.
Qed.

Lemma sw_false p lit : starts_with (cs T1 p) lit = false -> nospace lit = true -> p <= P ->
  starts_with (cs T2 p) lit = false.
Proof.
  intros H Hl Hp. unfold starts_with in *. rewrite cs_avail in *. rewrite rest1 in H by lia. rewrite rest2 by lia.
  destruct HX2 as (w & r & -> & Hw). eapply prefix_b_false_app; eassumption.
Qed.

(* the byte at p < P *)
Lemma D_cons p : p < P -> exists d D', D p = d :: D' /\ D' = D (p + 1).
Proof.
  intros H. destruct (D p) as [|d D'] eqn:E.
  - pose proof (D_len p ltac:(lia)) as L. rewrite E in L. cbn in L. lia.
  - exists d, D'. split; [reflexivity|].
    replace (N.to_nat (p + 1)) with (S (N.to_nat p)) by lia.
    change (S (N.to_nat p)) with (1 + N.to_nat p)%nat. rewrite Nat.add_comm, <- skipn_skipn_add, E. reflexivity.
Qed.

Lemma curr_unchecked_same p : p < P -> curr_byte_unchecked (cs T2 p) = curr_byte_unchecked (cs T1 p).
Proof.
  intros H. unfold curr_byte_unchecked, cs. cbn [s_rest]. rewrite rest1, rest2 by lia.
  destruct (D_cons p H) as (d & D' & -> & _). reflexivity.
Qed.

Lemma curr_byte_same p : p < P -> curr_byte (cs T2 p) = curr_byte (cs T1 p).
Proof.
  intros H. unfold curr_byte. rewrite at_end2 by lia. rewrite cs_at_end, tlen1.
  replace (P + blen X1 <=? p) with false by lia. apply curr_unchecked_same. exact H.
Qed.

Lemma curr_byte_opt_same p : p < P -> curr_byte_opt (cs T2 p) = curr_byte_opt (cs T1 p).
Proof.
  intros H. unfold curr_byte_opt. rewrite at_end2 by lia. rewrite cs_at_end, tlen1.
  replace (P + blen X1 <=? p) with false by lia. unfold cs. cbn [s_rest]. rewrite rest1, rest2 by lia.
  destruct (D_cons p H) as (d & D' & -> & _). reflexivity.
Qed.

Lemma starts_with_space_same p : p < P -> starts_with_space (cs T2 p) = starts_with_space (cs T1 p).
Proof. intros H. unfold starts_with_space. rewrite curr_byte_opt_same by exact H. reflexivity. Qed.

(* ---- advance ---- *)
Lemma advance1_ok p n s' : advance n (cs T1 p) = Ok s' -> s' = cs T1 (p + n).
Proof. rewrite cs_advance. destruct (_ <? _); [discriminate|]. congruence. Qed.

Lemma advance2_ok p n : p + n <= P -> advance n (cs T2 p) = Ok (cs T2 (p + n)).
Proof. intros H. rewrite cs_advance, tlen2. replace (P + blen X2 <? p + n) with false by lia. reflexivity. Qed.

(* ---- skip_bytes ---- *)
Lemma skip_bytes1 f p : p <= tlen T1 -> exists p', skip_bytes f (cs T1 p) = cs T1 p' /\ p <= p' /\ p' <= tlen T1 /\
  (p' < P -> skip_bytes f (cs T2 p) = cs T2 p').
Proof.
  intros Hp. rewrite cs_skip_bytes by exact Hp.
  eexists. split; [reflexivity|]. split; [lia|]. split.
  { pose proof (scan_le f (skipn (N.to_nat p) T1) (N.to_nat (tlen T1 - p))). lia. }
  intros Hlt. assert (HpP : p <= P) by lia.
  rewrite cs_skip_bytes by (rewrite tlen2; lia). f_equal. f_equal. f_equal.
  rewrite rest1, rest2 in * by lia. rewrite tlen1 in Hlt. rewrite tlen1, tlen2.
  pose proof (D_len p HpP) as HD.
  rewrite (scan_app f (D p) X1) in * by (rewrite HD; lia).
  rewrite (scan_app f (D p) X2) by (rewrite HD; lia).
  destruct (scan f (D p) (length (D p)) <? length (D p))%nat eqn:E; [reflexivity|]. exfalso. lia.
Qed.

(* ---- errors are not Ok ---- *)
Lemma err_at_nok {A} T s mk (y : A) : err_at T s mk = Ok y -> False.
Proof. unfold err_at. destruct (gen_text_pos T s); discriminate. Qed.
Lemma err_from_nok {A} T q mk (y : A) : err_from T q mk = Ok y -> False.
Proof. unfold err_from. destruct (gen_text_pos_from T q); discriminate. Qed.

Ltac nok :=
  exfalso;
  match goal with
  | H : err_at _ _ _ = Ok _ |- _ => exact (err_at_nok _ _ _ _ H)
  | H : err_from _ _ _ = Ok _ |- _ => exact (err_from_nok _ _ _ _ H)
  | H : Err _ = Ok _ |- _ => discriminate H
  | H : Panic _ = Ok _ |- _ => discriminate H
  | H : OutOfFuel = Ok _ |- _ => discriminate H
  end.
Ltac ib H x Hx := apply bind_ok in H; destruct H as (x & Hx & H).

(* ---- slices ---- *)
Lemma is_boundary_12 q : q <= P -> is_boundary T1 q = true -> is_boundary T2 q = true.
Proof.
  intros Hq H. unfold is_boundary in *. destruct (q =? 0) eqn:E0; [reflexivity|].
  destruct (N.eq_dec q P) as [->|Hne].
  - destruct HX2 as (w & r & -> & Hw). unfold blen. rewrite Nat2N.id.
    rewrite nth_error_app2 by lia. rewrite Nat.sub_diag. cbn [nth_error].
    unfold byte_is_space, in_ranges, byte_space_ranges in Hw. cbn [existsb fst snd] in Hw. unfold is_cont. lia.
  - rewrite nth_error_app1 in * by (unfold blen in *; lia).
    destruct (nth_error pre (N.to_nat q)) eqn:En; [exact H|].
    apply nth_error_None in En. unfold blen in *. lia.
Qed.

Lemma mk_slice_12 a e sl : mk_slice T1 a e = Ok sl -> e <= P -> mk_slice T2 a e = Ok sl.
Proof.
  unfold mk_slice. intros H He. rewrite tlen1 in H. rewrite tlen2.
  destruct ((e <? a) || (P + blen X1 <? e)) eqn:E; [discriminate|].
  replace ((e <? a) || (P + blen X2 <? e)) with false by lia.
  destruct (is_boundary T1 a && is_boundary T1 e) eqn:Eb; [|discriminate].
  apply andb_true_iff in Eb. destruct Eb as [B1 B2].
  rewrite (is_boundary_12 a) by (assumption || lia). rewrite (is_boundary_12 e) by assumption. exact H.
Qed.

Lemma mk_slice_val T a e sl : mk_slice T a e = Ok sl -> sl = {| sl_start := a; sl_end := e |} /\ a <= e.
Proof.
  unfold mk_slice. destruct ((e <? a) || (tlen T <? e)) eqn:E; [discriminate|].
  destruct (_ && _); [|discriminate]. intros [= <-]. split; [reflexivity|lia].
Qed.

Lemma slice_bytes_12 sl : sl_start sl <= sl_end sl -> sl_end sl <= P -> slice_bytes T2 sl = slice_bytes T1 sl.
Proof.
  intros H1 H2. unfold slice_bytes, sub. rewrite rest1, rest2 by lia.
  rewrite !firstn_app. rewrite D_len by lia.
  replace (N.to_nat (sl_end sl - sl_start sl) - N.to_nat (P - sl_start sl))%nat with O by lia. reflexivity.
Qed.

(* ---- consume_byte, skip_string ---- *)
Lemma consume_byte_loc c p s' : consume_byte T1 c (cs T1 p) = Ok s' ->
  s' = cs T1 (p + 1) /\ p + 1 <= tlen T1 /\ (p + 1 <= P -> consume_byte T2 c (cs T2 p) = Ok (cs T2 (p + 1))).
Proof.
  unfold consume_byte. intros H. ib H x Hx. destruct (negb (x =? c)) eqn:E; [nok|].
  rewrite cs_advance in H. destruct (tlen T1 <? p + 1) eqn:El; [discriminate|]. injection H as <-.
  split; [reflexivity|]. split; [lia|]. intros Hp.
  rewrite curr_byte_same by lia. rewrite Hx. cbn [bind]. rewrite E. apply advance2_ok. exact Hp.
Qed.

Lemma skip_string_loc lit p s' : skip_string T1 lit (cs T1 p) = Ok s' ->
  s' = cs T1 (p + blen lit) /\ p + blen lit <= tlen T1 /\ starts_with (cs T1 p) lit = true /\
  (p + blen lit <= P -> skip_string T2 lit (cs T2 p) = Ok (cs T2 (p + blen lit))).
Proof.
  unfold skip_string. intros H. destruct (starts_with (cs T1 p) lit) eqn:E; cbn [negb] in H; [|nok].
  rewrite cs_advance in H. destruct (tlen T1 <? p + blen lit) eqn:El; [discriminate|]. injection H as <-.
  split; [reflexivity|]. split; [lia|]. split; [reflexivity|]. intros Hp.
  rewrite (sw_true p lit E Hp). cbn [negb]. apply advance2_ok. exact Hp.
Qed.

Lemma consume_spaces_loc p s' : p <= tlen T1 -> consume_spaces T1 (cs T1 p) = Ok s' ->
  exists p', s' = cs T1 p' /\ p <= p' /\ p' <= tlen T1 /\
    (p' < P -> consume_spaces T2 (cs T2 p) = Ok (cs T2 p')).
Proof.
  unfold consume_spaces. intros Hp H. destruct (at_end (cs T1 p)) eqn:Ea; [discriminate|].
  destruct (negb (starts_with_space (cs T1 p))) eqn:Es.
  { ib H x Hx. nok. }
  injection H as <-. destruct (skip_bytes1 byte_is_space p Hp) as (p' & E1 & L1 & L2 & E2).
  exists p'. split; [exact E1|]. split; [exact L1|]. split; [exact L2|]. intros Hlt.
  rewrite at_end2 by lia. rewrite starts_with_space_same by lia. rewrite Es. f_equal. apply E2. exact Hlt.
Qed.

(* ---- characters ---- *)
Lemma space_ascii w : byte_is_space w = true -> w < 128.
Proof. unfold byte_is_space, in_ranges, byte_space_ranges. cbn [existsb fst snd]. lia. Qed.

Lemma next_char_loc p c n : next_char (cs T1 p) = Ok (Some (c, n)) ->
  p + n <= tlen T1 /\ 1 <= n /\ (p < P -> p + n <= P /\ next_char (cs T2 p) = Ok (Some (c, n))).
Proof.
  unfold next_char. rewrite cs_at_end. destruct (tlen T1 <=? p) eqn:Ea; [discriminate|].
  cbn [cs s_rest s_end s_pos].
  destruct (decode1 (skipn (N.to_nat p) T1)) as [[c0 n0]|] eqn:Ed; [|discriminate].
  destruct (tlen T1 <? p + n0) eqn:El; [discriminate|]. intros [= <- <-].
  destruct (decode1_struct _ _ _ Ed) as (x & cont & r & Er & Hx & Hc & Hlen & Hn & Hany).
  split; [lia|]. split; [lia|]. intros Hp.
  rewrite rest1 in Er by lia.
  assert (Hin : (S (length cont) <= length (D p))%nat).
  { (* otherwise the first byte of X1 is a continuation byte *)
    destruct (Nat.le_gt_cases (S (length cont)) (length (D p))) as [|Hgt]; [assumption|]. exfalso.
    pose proof (D_len p ltac:(lia)) as HD.
    assert (Hx1 : exists y X1', X1 = y :: X1' /\ In y cont).
    { assert (Hsk : skipn (length (D p)) (D p ++ X1) = X1) by apply skipn_len_app.
      rewrite Er in Hsk. destruct (length (D p)) as [|dl] eqn:Edl; [lia|]. cbn [skipn] in Hsk.
      rewrite skipn_app in Hsk. replace (dl - length cont)%nat with O in Hsk by lia. cbn [skipn] in Hsk.
      destruct (skipn dl cont) as [|y yr] eqn:Esk.
      - assert (length (skipn dl cont) = 0%nat) by (rewrite Esk; reflexivity). rewrite skipn_length in H. lia.
      - exists y, (yr ++ r). split; [symmetry; exact Hsk|].
        assert (In y (skipn dl cont)) by (rewrite Esk; left; reflexivity).
        rewrite <- (firstn_skipn dl cont). apply in_or_app. right. assumption. }
    destruct Hx1 as (y & X1' & -> & Hy). cbn [head_ok] in HX1.
    rewrite forallb_forall in Hc. rewrite (Hc y Hy) in HX1. discriminate. }
  assert (ED : exists D', D p = x :: cont ++ D').
  { exists (skipn (S (length cont)) (D p)).
    rewrite <- (firstn_skipn (S (length cont)) (D p)) at 1.
    assert (firstn (S (length cont)) (D p) = x :: cont) as ->; [|reflexivity].
    assert (Hf : firstn (S (length cont)) (D p ++ X1) = firstn (S (length cont)) (D p)).
    { rewrite firstn_app. replace (S (length cont) - length (D p))%nat with O by lia. cbn [firstn]. apply app_nil_r. }
    rewrite <- Hf, Er. cbn [firstn]. f_equal. rewrite firstn_app, Nat.sub_diag. cbn [firstn].
    rewrite app_nil_r. apply firstn_all. }
  destruct ED as [D' ED].
  pose proof (D_len p ltac:(lia)) as HD. rewrite ED in HD. cbn [length] in HD. rewrite app_length in HD.
  split; [lia|].
  rewrite cs_at_end, tlen2. pose proof X2_len. replace (P + blen X2 <=? p) with false by lia.
  cbn [cs s_rest s_end s_pos]. rewrite rest2 by lia. rewrite ED. cbn [app]. rewrite <- app_assoc.
  rewrite Hany. replace (P + blen X2 <? p + n0) with false by lia. reflexivity.
Qed.

Lemma next_char_none p : next_char (cs T1 p) = Ok None -> tlen T1 <= p.
Proof.
  unfold next_char. rewrite cs_at_end. destruct (tlen T1 <=? p) eqn:Ea; [lia|].
  cbn [cs s_rest s_end s_pos]. destruct (decode1 _) as [[c0 n0]|]; [|discriminate].
  destruct (_ <? _); discriminate.
Qed.

(* at P itself T2 shows a whitespace *)
Lemma next_char2_P : exists w, byte_is_space w = true /\ next_char (cs T2 P) = Ok (Some (w, 1)).
Proof.
  destruct HX2 as (w & r & E & Hw). exists w. split; [exact Hw|].
  unfold next_char. rewrite at_end2 by lia. cbn [cs s_rest s_end s_pos]. rewrite rest2 by lia. rewrite tlen2.
  unfold blen at 1. rewrite Nat2N.id, skipn_all. cbn [app]. pose proof X2_len as HL2. rewrite E in HL2 |- *.
  unfold decode1. pose proof (space_ascii w Hw). replace (w <? 128) with true by lia.
  replace (_ <? _) with false by lia. reflexivity.
Qed.

Lemma space_cases w : byte_is_space w = true -> w = 32 \/ w = 9 \/ w = 10 \/ w = 13.
Proof. unfold byte_is_space, in_ranges, byte_space_ranges. cbn [existsb fst snd]. lia. Qed.

Lemma space_not_name w : byte_is_space w = true ->
  char_is_name w = false /\ char_is_name_start w = false /\ byte_is_name w = false /\ w <> 58.
Proof. intros H. destruct (space_cases w H) as [ -> | [ -> | [ -> | -> ] ] ]; vm_compute; repeat split; congruence. Qed.

Lemma rest_len1 p : p <= tlen T1 -> length (skipn (N.to_nat p) T1) = N.to_nat (tlen T1 - p).
Proof. intros H. rewrite skipn_length. unfold tlen, blen in *. lia. Qed.
Lemma rest_len2 p : p <= tlen T2 -> length (skipn (N.to_nat p) T2) = N.to_nat (tlen T2 - p).
Proof. intros H. rewrite skipn_length. unfold tlen, blen in *. lia. Qed.

Lemma fuel_le p : p <= tlen T1 ->
  (S (length (s_rest (cs T1 p))) <= S (length (s_rest (cs T2 p))))%nat.
Proof.
  intros H. cbn [cs s_rest]. rewrite !skipn_length, !app_length. pose proof HL as HL'. unfold blen in HL'. lia.
Qed.

(* ---- skip_chars / consume_chars ---- *)
Lemma skip_chars_loop_loc f :
  (forall q c, q <= P -> f (cs T1 q) c = true -> f (cs T2 q) c = true) ->
  forall fu1 fu2 p s', (fu1 <= fu2)%nat -> p <= tlen T1 ->
  skip_chars_loop T1 fu1 f (cs T1 p) = Ok s' ->
  exists p', s' = cs T1 p' /\ p <= p' /\ p' <= tlen T1 /\
    (p' < P -> (forall c n, next_char (cs T1 p') = Ok (Some (c, n)) -> f (cs T1 p') c = false -> f (cs T2 p') c = false) ->
     skip_chars_loop T2 fu2 f (cs T2 p) = Ok (cs T2 p')).
Proof.
  intros Hcont. induction fu1 as [|fu1 IH]; intros fu2 p s' Hfu Hp H; [discriminate|].
  destruct fu2 as [|fu2]; [lia|]. cbn [skip_chars_loop] in *.
  ib H oc Hoc. destruct oc as [[c n]|].
  - destruct (negb (char_is_char c)) eqn:Ec; [nok|].
    destruct (next_char_loc p c n Hoc) as (L1 & L2 & L3).
    destruct (f (cs T1 p) c) eqn:Ef.
    + ib H s1 Hs1. apply advance1_ok in Hs1. subst s1.
      destruct (IH fu2 (p + n) s' ltac:(lia) L1 H) as (p' & E1 & M1 & M2 & M3).
      exists p'. split; [exact E1|]. split; [lia|]. split; [exact M2|]. intros Hlt Hstop.
      destruct (L3 ltac:(lia)) as [L4 L5]. rewrite L5. cbn [bind]. rewrite Ec.
      rewrite (Hcont p c ltac:(lia) Ef). rewrite advance2_ok by lia. cbn [bind]. apply M3; assumption.
    + injection H as <-. exists p. split; [reflexivity|]. split; [lia|]. split; [exact Hp|]. intros Hlt Hstop.
      destruct (L3 Hlt) as [L4 L5]. rewrite L5. cbn [bind]. rewrite Ec. rewrite (Hstop c n Hoc Ef). reflexivity.
  - injection H as <-. exists p. split; [reflexivity|]. split; [lia|]. split; [exact Hp|]. intros Hlt _.
    apply next_char_none in Hoc. rewrite tlen1 in Hoc. lia.
Qed.

Lemma consume_chars_loc f p sl s' :
  (forall q c, q <= P -> f (cs T1 q) c = true -> f (cs T2 q) c = true) ->
  p <= tlen T1 -> consume_chars T1 f (cs T1 p) = Ok (sl, s') ->
  exists p', s' = cs T1 p' /\ p <= p' /\ p' <= tlen T1 /\ sl = {| sl_start := p; sl_end := p' |} /\
    (p' < P -> (forall c n, next_char (cs T1 p') = Ok (Some (c, n)) -> f (cs T1 p') c = false -> f (cs T2 p') c = false) ->
     consume_chars T2 f (cs T2 p) = Ok (sl, cs T2 p')).
Proof.
  intros Hcont Hp H. unfold consume_chars, skip_chars in *. ib H s1 Hs1. ib H sl1 Hsl. injection H as <- <-.
  destruct (skip_chars_loop_loc f Hcont _ _ p s1 (fuel_le p Hp) Hp Hs1) as (p' & -> & M1 & M2 & M3).
  exists p'. split; [reflexivity|]. split; [exact M1|]. split; [exact M2|].
  unfold slice_back in *. cbn [cs s_pos] in Hsl. destruct (mk_slice_val _ _ _ _ Hsl) as [Esl _].
  split; [exact Esl|]. intros Hlt Hstop. rewrite (M3 Hlt Hstop). cbn [bind cs s_pos].
  rewrite (mk_slice_12 _ _ _ Hsl) by lia. reflexivity.
Qed.

(* ---- names ---- *)
Lemma skip_name_loop_loc : forall fu1 fu2 p s', (fu1 <= fu2)%nat -> p <= tlen T1 ->
  skip_name_loop fu1 (cs T1 p) = Ok s' ->
  exists p', s' = cs T1 p' /\ p <= p' /\ p' <= tlen T1 /\
    (p' <= P -> skip_name_loop fu2 (cs T2 p) = Ok (cs T2 p')).
Proof.
  induction fu1 as [|fu1 IH]; intros fu2 p s' Hfu Hp H; [discriminate|].
  destruct fu2 as [|fu2]; [lia|]. cbn [skip_name_loop] in *.
  assert (HP2 : p = P -> (let! oc := next_char (cs T2 p) in
     match oc with
     | Some (c, n) => if char_is_name c then let! s'0 := advance n (cs T2 p) in skip_name_loop fu2 s'0 else Ok (cs T2 p)
     | None => Ok (cs T2 p) end) = Ok (cs T2 p)).
  { intros ->. destruct next_char2_P as (w & Hw & ->). cbn [bind].
    rewrite (proj1 (space_not_name w Hw)). reflexivity. }
  ib H oc Hoc. destruct oc as [[c n]|].
  - destruct (next_char_loc p c n Hoc) as (L1 & L2 & L3).
    destruct (char_is_name c) eqn:Ec.
    + ib H s1 Hs1. apply advance1_ok in Hs1. subst s1.
      destruct (IH fu2 (p + n) s' ltac:(lia) L1 H) as (p' & E1 & M1 & M2 & M3).
      exists p'. split; [exact E1|]. split; [lia|]. split; [exact M2|]. intros Hle.
      destruct (L3 ltac:(lia)) as [L4 L5]. rewrite L5. cbn [bind]. rewrite Ec.
      rewrite advance2_ok by lia. cbn [bind]. apply M3. exact Hle.
    + injection H as <-. exists p. split; [reflexivity|]. split; [lia|]. split; [exact Hp|]. intros Hle.
      destruct (N.eq_dec p P) as [Ep|Hne]; [apply HP2; exact Ep|].
      destruct (L3 ltac:(lia)) as [L4 L5]. rewrite L5. cbn [bind]. rewrite Ec. reflexivity.
  - injection H as <-. exists p. split; [reflexivity|]. split; [lia|]. split; [exact Hp|]. intros Hle.
    apply next_char_none in Hoc. rewrite tlen1 in Hoc. apply HP2. lia.
Qed.

Lemma consume_name_loc p sl s' : p <= tlen T1 -> consume_name T1 (cs T1 p) = Ok (sl, s') ->
  exists p', s' = cs T1 p' /\ p < p' /\ p' <= tlen T1 /\ sl = {| sl_start := p; sl_end := p' |} /\
    (p' <= P -> consume_name T2 (cs T2 p) = Ok (sl, cs T2 p')).
Proof.
  intros Hp H. unfold consume_name in *. cbv zeta in *. cbn [cs s_pos] in *.
  ib H s1 Hs1. ib H nm Hnm. destruct (slice_len nm =? 0) eqn:El; [nok|]. injection H as <- <-.
  unfold skip_name in Hs1. cbv zeta in Hs1. ib Hs1 oc Hoc. destruct oc as [[c n]|].
  - destruct (char_is_name_start c) eqn:Ec; [|nok].
    destruct (next_char_loc p c n Hoc) as (L1 & L2 & L3).
    ib Hs1 s2 Hs2. apply advance1_ok in Hs2. subst s2.
    destruct (skip_name_loop_loc _ (S (length (s_rest (cs T2 (p + n))))) (p + n) s1 (fuel_le _ L1) L1 Hs1)
      as (p' & -> & M1 & M2 & M3).
    unfold slice_back in *. cbn [cs s_pos] in Hnm. destruct (mk_slice_val _ _ _ _ Hnm) as [Esl _].
    exists p'. split; [reflexivity|]. split; [lia|]. split; [exact M2|]. split; [exact Esl|]. intros Hle.
    unfold skip_name. cbv zeta. destruct (L3 ltac:(lia)) as [L4 L5]. rewrite L5. cbn [bind]. rewrite Ec.
    rewrite advance2_ok by lia. cbn [bind]. rewrite (M3 Hle). cbn [bind cs s_pos].
    rewrite (mk_slice_12 _ _ _ Hnm) by lia. cbn [bind]. rewrite El. reflexivity.
  - injection Hs1 as <-. unfold slice_back in Hnm. cbn [cs s_pos] in Hnm.
    destruct (mk_slice_val _ _ _ _ Hnm) as [-> _]. unfold slice_len in El. cbn [sl_start sl_end] in El. lia.
Qed.

Lemma consume_qname_loop_loc start : forall fu1 fu2 spl p spl' s', (fu1 <= fu2)%nat -> p <= tlen T1 ->
  consume_qname_loop T1 fu1 start spl (cs T1 p) = Ok (spl', s') ->
  exists p', s' = cs T1 p' /\ p <= p' /\ p' <= tlen T1 /\
    (p' <= P -> consume_qname_loop T2 fu2 start spl (cs T2 p) = Ok (spl', cs T2 p')).
Proof.
  induction fu1 as [|fu1 IH]; intros fu2 spl p spl' s' Hfu Hp H; [discriminate|].
  destruct fu2 as [|fu2]; [lia|]. cbn [consume_qname_loop] in *.
  assert (HP2 : p = P -> consume_qname_loop T2 (S fu2) start spl (cs T2 p) = Ok (spl, cs T2 p)).
  { intros ->. cbn [consume_qname_loop]. rewrite at_end2 by lia.
    destruct HX2 as (w & r & E & Hw). unfold curr_byte_unchecked. cbn [cs s_rest]. rewrite rest2 by lia.
    unfold blen at 1. rewrite Nat2N.id, skipn_all. cbn [app]. rewrite E. cbn [bind].
    pose proof (space_ascii w Hw). destruct (space_not_name w Hw) as (_ & _ & Hn & H58).
    replace (w <? 128) with true by lia. replace (w =? 58) with false by lia. rewrite Hn. reflexivity. }
  cbn [consume_qname_loop] in HP2.
  rewrite cs_at_end in H. destruct (tlen T1 <=? p) eqn:Ea.
  { injection H as <- <-. exists p. split; [reflexivity|]. split; [lia|]. split; [exact Hp|]. intros Hle.
    apply HP2. rewrite tlen1 in Ea. lia. }
  ib H x Hx.
  destruct (x <? 128) eqn:E128.
  - destruct (x =? 58) eqn:E58.
    + destruct spl as [sp|]; [nok|]. ib H s1 Hs1. apply advance1_ok in Hs1. subst s1.
      assert (L1 : p + 1 <= tlen T1) by lia.
      destruct (IH fu2 (Some (s_pos (cs T1 p))) (p + 1) spl' s' ltac:(lia) L1 H) as (p' & E1 & M1 & M2 & M3).
      exists p'. split; [exact E1|]. split; [lia|]. split; [exact M2|]. intros Hle.
      rewrite at_end2 by lia. rewrite curr_unchecked_same by lia. rewrite Hx. cbn [bind]. rewrite E128, E58.
      rewrite advance2_ok by lia. cbn [bind]. apply M3. exact Hle.
    + destruct (byte_is_name x) eqn:En.
      * ib H s1 Hs1. apply advance1_ok in Hs1. subst s1.
        assert (L1 : p + 1 <= tlen T1) by lia.
        destruct (IH fu2 spl (p + 1) spl' s' ltac:(lia) L1 H) as (p' & E1 & M1 & M2 & M3).
        exists p'. split; [exact E1|]. split; [lia|]. split; [exact M2|]. intros Hle.
        rewrite at_end2 by lia. rewrite curr_unchecked_same by lia. rewrite Hx. cbn [bind]. rewrite E128, E58, En.
        rewrite advance2_ok by lia. cbn [bind]. apply M3. exact Hle.
      * injection H as <- <-. exists p. split; [reflexivity|]. split; [lia|]. split; [exact Hp|]. intros Hle.
        destruct (N.eq_dec p P) as [Ep|Hne]; [apply HP2; exact Ep|].
        rewrite at_end2 by lia. rewrite curr_unchecked_same by lia. rewrite Hx. cbn [bind]. rewrite E128, E58, En.
        reflexivity.
  - ib H oc Hoc. destruct oc as [[c n]|].
    + destruct (next_char_loc p c n Hoc) as (L1 & L2 & L3).
      destruct (char_is_name c) eqn:Ec.
      * ib H s1 Hs1. apply advance1_ok in Hs1. subst s1.
        destruct (IH fu2 spl (p + n) spl' s' ltac:(lia) L1 H) as (p' & E1 & M1 & M2 & M3).
        exists p'. split; [exact E1|]. split; [lia|]. split; [exact M2|]. intros Hle.
        destruct (L3 ltac:(lia)) as [L4 L5].
        rewrite at_end2 by lia. rewrite curr_unchecked_same by lia. rewrite Hx. cbn [bind]. rewrite E128.
        rewrite L5. cbn [bind]. rewrite Ec. rewrite advance2_ok by lia. cbn [bind]. apply M3. exact Hle.
      * injection H as <- <-. exists p. split; [reflexivity|]. split; [lia|]. split; [exact Hp|]. intros Hle.
        destruct (N.eq_dec p P) as [Ep|Hne]; [apply HP2; exact Ep|].
        destruct (L3 ltac:(lia)) as [L4 L5].
        rewrite at_end2 by lia. rewrite curr_unchecked_same by lia. rewrite Hx. cbn [bind]. rewrite E128.
        rewrite L5. cbn [bind]. rewrite Ec. reflexivity.
    + apply next_char_none in Hoc. lia.
Qed.

Lemma consume_qname_loc p pfx loc s' : p <= tlen T1 -> consume_qname T1 (cs T1 p) = Ok (pfx, loc, s') ->
  exists p', s' = cs T1 p' /\ p <= p' /\ p' <= tlen T1 /\
    (p' <= P -> consume_qname T2 (cs T2 p) = Ok (pfx, loc, cs T2 p')).
Proof.
  intros Hp H. unfold consume_qname in *. cbv zeta in *. cbn [cs s_pos] in H.
  ib H x Hx. destruct x as [spl s1].
  destruct (consume_qname_loop_loc p _ (S (length (s_rest (cs T2 p)))) None p spl s1 (fuel_le p Hp) Hp Hx)
    as (p' & -> & M1 & M2 & M3).
  ib H y Hy. destruct y as [pf lc].
  exists p'. split; [|split; [exact M1|split; [exact M2|]]].
  { destruct (_ && _); [nok|]. destruct (negb _); [nok|]. injection H as _ _ <-. reflexivity. }
  intros Hle. cbn [cs s_pos]. fold (cs T2 p). rewrite (M3 Hle). cbn [bind].
  assert (Hsl : (match spl with
     | Some sp => let! p0 := mk_slice T2 p sp in let! l := slice_back T2 (sp + 1) (cs T2 p') in Ok (p0, l)
     | None => let! l := slice_back T2 p (cs T2 p') in let! p0 := mk_slice T2 p p in Ok (p0, l)
     end) = Ok (pf, lc) /\ sl_start pf <= sl_end pf /\ sl_end pf <= P /\ sl_start lc <= sl_end lc /\ sl_end lc <= P).
  { unfold slice_back in *. cbn [cs s_pos] in *. destruct spl as [sp|].
    - ib Hy a Ha. ib Hy l Hl. injection Hy as <- <-.
      destruct (mk_slice_val _ _ _ _ Ha) as [-> A1]. destruct (mk_slice_val _ _ _ _ Hl) as [-> A2].
      rewrite (mk_slice_12 _ _ _ Ha) by lia. cbn [bind]. rewrite (mk_slice_12 _ _ _ Hl) by lia.
      cbn [sl_start sl_end]. repeat split; try lia. 
    - ib Hy l Hl. ib Hy a Ha. injection Hy as <- <-.
      destruct (mk_slice_val _ _ _ _ Ha) as [-> A1]. destruct (mk_slice_val _ _ _ _ Hl) as [-> A2].
      rewrite (mk_slice_12 _ _ _ Hl) by lia. cbn [bind]. rewrite (mk_slice_12 _ _ _ Ha) by lia.
      cbn [sl_start sl_end]. repeat split; try lia. }
  destruct Hsl as (-> & B1 & B2 & B3 & B4). cbn [bind].
  rewrite !slice_bytes_12 by assumption.
  destruct (_ && _); [nok|]. destruct (negb _); [nok|]. injection H as <- <- _. reflexivity.
Qed.

(* the loop of consume_qname takes at least the ASCII name bytes it meets *)
Definition name_lit (lit : bytes) : bool :=
  forallb (fun x => (x <? 128) && negb (x =? 58) && byte_is_name x) lit.

Lemma qname_loop_mono start : forall fu spl p spl' s',
  consume_qname_loop T1 fu start spl (cs T1 p) = Ok (spl', s') -> p <= s_pos s'.
Proof.
  induction fu as [|fu IHf]; intros spl p spl' s' H; [discriminate|]. cbn [consume_qname_loop] in H.
  destruct (at_end (cs T1 p)). { injection H as _ <-. cbn. lia. }
  ib H x Hx. destruct (x <? 128).
  - destruct (x =? 58).
    + destruct spl; [nok|]. ib H s1 Hs1. apply advance1_ok in Hs1. subst. apply IHf in H. lia.
    + destruct (byte_is_name x).
      * ib H s1 Hs1. apply advance1_ok in Hs1. subst. apply IHf in H. lia.
      * injection H as _ <-. cbn. lia.
  - ib H oc Hoc. destruct oc as [[c n]|].
    + destruct (char_is_name c).
      * ib H s1 Hs1. apply advance1_ok in Hs1. subst. apply IHf in H. lia.
      * injection H as _ <-. cbn. lia.
    + injection H as _ <-. cbn. lia.
Qed.

Lemma qname_loop_min start : forall lit fu spl p spl' s', name_lit lit = true ->
  prefix_b lit (skipn (N.to_nat p) T1) = true ->
  consume_qname_loop T1 fu start spl (cs T1 p) = Ok (spl', s') -> p + blen lit <= s_pos s'.
Proof.
  induction lit as [|a lit IH]; intros fu spl p spl' s' Hl Hpre H.
  - apply qname_loop_mono in H. unfold blen. cbn [length]. lia.
  - destruct fu as [|fu]; [discriminate|]. cbn [consume_qname_loop] in H.
    cbn [name_lit forallb] in Hl. apply andb_true_iff in Hl. destruct Hl as [Ha Hl].
    destruct (skipn (N.to_nat p) T1) as [|y r] eqn:Er; [discriminate|]. cbn [prefix_b] in Hpre.
    apply andb_true_iff in Hpre. destruct Hpre as [Hay Hpre]. assert (a = y) by lia. subst y.
    assert (Hlen : p < tlen T1).
    { assert (length (skipn (N.to_nat p) T1) <> 0%nat) by (rewrite Er; discriminate).
      rewrite skipn_length in H0. unfold tlen, blen. lia. }
    rewrite cs_at_end in H. replace (tlen T1 <=? p) with false in H by lia.
    unfold curr_byte_unchecked in H. cbn [cs s_rest] in H. rewrite Er in H. cbn [bind] in H.
    replace (a <? 128) with true in H by lia. replace (a =? 58) with false in H by lia.
    assert (Hbn : byte_is_name a = true) by (apply andb_true_iff in Ha; tauto). rewrite Hbn in H.
    rewrite cs_advance in H. replace (tlen T1 <? p + 1) with false in H by lia. cbn [bind] in H.
    apply IH in H; [| exact Hl|].
    + unfold blen in *. cbn [length]. lia.
    + replace (N.to_nat (p + 1)) with (N.to_nat p + 1)%nat by lia. rewrite <- skipn_skipn_add, Er. exact Hpre.
Qed.

Lemma consume_eq_loc p s' : p <= tlen T1 -> consume_eq T1 (cs T1 p) = Ok s' ->
  exists p', s' = cs T1 p' /\ p < p' /\ p' <= tlen T1 /\ (p' < P -> consume_eq T2 (cs T2 p) = Ok (cs T2 p')).
Proof.
  intros Hp H. unfold consume_eq in *. cbv zeta in *.
  destruct (skip_bytes1 byte_is_space p Hp) as (p1 & E1 & L1 & L2 & E2). unfold skip_spaces in *. rewrite E1 in H.
  ib H s1 Hs1. injection H as <-. destruct (consume_byte_loc 61 p1 s1 Hs1) as (-> & L3 & E3).
  destruct (skip_bytes1 byte_is_space (p1 + 1) L3) as (p2 & E4 & L4 & L5 & E5). rewrite E4.
  exists p2. split; [reflexivity|]. split; [lia|]. split; [exact L5|]. intros Hlt.
  rewrite E2 by lia. rewrite E3 by lia. cbn [bind]. rewrite E5 by lia. reflexivity.
Qed.

Lemma consume_quote_loc p q s' : consume_quote T1 (cs T1 p) = Ok (q, s') ->
  s' = cs T1 (p + 1) /\ p + 1 <= tlen T1 /\ (p + 1 <= P -> consume_quote T2 (cs T2 p) = Ok (q, cs T2 (p + 1))).
Proof.
  unfold consume_quote. intros H. ib H c Hc. destruct ((c =? 39) || (c =? 34)) eqn:E; [|nok].
  ib H s1 Hs1. injection H as <- <-. rewrite cs_advance in Hs1.
  destruct (tlen T1 <? p + 1) eqn:El; [discriminate|]. injection Hs1 as <-.
  split; [reflexivity|]. split; [lia|]. intros Hle.
  rewrite curr_byte_same by lia. rewrite Hc. cbn [bind]. rewrite E. rewrite advance2_ok by lia. reflexivity.
Qed.

Lemma consume_qname_bounds p pfx loc s' : consume_qname T1 (cs T1 p) = Ok (pfx, loc, s') ->
  sl_start loc <= sl_end loc /\ sl_end loc <= s_pos s'.
Proof.
  intros H. unfold consume_qname in *. cbv zeta in *. cbn [cs s_pos] in H.
  ib H x Hx. destruct x as [spl s1]. ib H y Hy. destruct y as [pf lc].
  assert (Hb : sl_start lc <= sl_end lc /\ sl_end lc <= s_pos s1).
  { unfold slice_back in *. destruct spl as [sp|].
    - ib Hy a Ha. ib Hy l Hl. injection Hy as _ <-. destruct (mk_slice_val _ _ _ _ Hl) as [-> A2].
      cbn [sl_start sl_end]. lia.
    - ib Hy l Hl. ib Hy a Ha. injection Hy as _ <-. destruct (mk_slice_val _ _ _ _ Hl) as [-> A2].
      cbn [sl_start sl_end]. lia. }
  destruct (_ && _); [nok|]. destruct (negb _); [nok|]. injection H as _ <- <-. exact Hb.
Qed.

Lemma parse_attribute_loc p pf lc s' : p <= tlen T1 -> parse_attribute T1 (cs T1 p) = Ok (pf, lc, s') ->
  exists p', s' = cs T1 p' /\ p < p' /\ p' <= tlen T1 /\
    (forall lit, name_lit lit = true -> starts_with (cs T1 p) lit = true -> p + blen lit <= p') /\
    sl_start lc <= sl_end lc /\ sl_end lc <= p' /\
    (p' <= P -> parse_attribute T2 (cs T2 p) = Ok (pf, lc, cs T2 p')).
Proof.
  intros Hp H. unfold parse_attribute in *.
  ib H x Hx. destruct x as [[pf0 lc0] s1].
  assert (Hmin : forall lit, name_lit lit = true -> starts_with (cs T1 p) lit = true -> p + blen lit <= s_pos s1).
  { intros lit Hl Hs. unfold starts_with in Hs. rewrite cs_avail in Hs.
    unfold consume_qname in Hx. cbv zeta in Hx. ib Hx y Hy. destruct y as [spl s0].
    apply (qname_loop_min _ lit _ _ _ _ _ Hl Hs) in Hy.
    ib Hx z Hz. destruct z as [zp zl]. destruct (_ && _); [nok|]. destruct (negb _); [nok|]. injection Hx as _ _ <-. exact Hy. }
  pose proof (consume_qname_bounds p pf0 lc0 s1 Hx) as Hbd.
  destruct (consume_qname_loc p pf0 lc0 s1 Hp Hx) as (p1 & -> & A1 & A2 & A3). cbn [cs s_pos] in Hmin, Hbd.
  ib H s2 Hs2. destruct (consume_eq_loc p1 s2 A2 Hs2) as (p2 & -> & B1 & B2 & B3).
  ib H y Hy. destruct y as [quote s3]. destruct (consume_quote_loc p2 quote s3 Hy) as (-> & C1 & C2).
  ib H s4 Hs4. unfold skip_chars in Hs4.
  assert (Hcont : forall q c, q <= P ->
     (fun (_ : stream) ch => negb (ch =? quote) && negb (ch =? 60)) (cs T1 q) c = true ->
     (fun (_ : stream) ch => negb (ch =? quote) && negb (ch =? 60)) (cs T2 q) c = true) by auto.
  destruct (skip_chars_loop_loc _ Hcont _ (S (length (s_rest (cs T2 (p2 + 1))))) (p2 + 1) s4 (fuel_le _ C1) C1 Hs4)
    as (p4 & -> & D1 & D2 & D3).
  ib H z Hz. unfold slice_back in Hz. cbn [cs s_pos] in Hz.
  ib H s5 Hs5. injection H as <- <- <-.
  destruct (consume_byte_loc quote p4 s5 Hs5) as (-> & E1 & E2).
  exists (p4 + 1). split; [reflexivity|]. split; [lia|]. split; [exact E1|].
  split. { intros lit Hl Hs. specialize (Hmin lit Hl Hs). lia. }
  split; [lia|]. split; [lia|].
  intros Hle.
  rewrite (A3 ltac:(lia)). cbn [bind]. rewrite (B3 ltac:(lia)). cbn [bind]. rewrite (C2 ltac:(lia)). cbn [bind].
  unfold skip_chars. rewrite (D3 ltac:(lia)) by auto. cbn [bind]. unfold slice_back. cbn [cs s_pos].
  rewrite (mk_slice_12 _ _ _ Hz) by lia. cbn [bind]. rewrite (E2 Hle). reflexivity.
Qed.

Lemma parse_pseudo_attribute_loc name p s' : p <= tlen T1 -> parse_pseudo_attribute T1 name (cs T1 p) = Ok s' ->
  exists p', s' = cs T1 p' /\ p < p' /\ p' <= tlen T1 /\
    (forall lit, name_lit lit = true -> starts_with (cs T1 p) lit = true -> p + blen lit <= p') /\
    (p' <= P -> parse_pseudo_attribute T2 name (cs T2 p) = Ok (cs T2 p')).
Proof.
  intros Hp H. unfold parse_pseudo_attribute in *. cbv zeta in *.
  ib H x Hx. destruct x as [[pf lc] s1].
  destruct (parse_attribute_loc p pf lc s1 Hp Hx) as (p1 & -> & A1 & A2 & Am & L1 & L2 & A3).
  destruct (negb (slice_len pf =? 0) || negb (bytes_eqb (slice_bytes T1 lc) name)) eqn:E; [nok|].
  injection H as <-.
  exists p1. split; [reflexivity|]. split; [exact A1|]. split; [exact A2|]. split; [exact Am|].
  intros Hle. rewrite (A3 Hle). cbn [bind].
  rewrite slice_bytes_12 by lia. rewrite E. reflexivity.
Qed.

Lemma decl_consume_spaces_loc p s' : p <= tlen T1 -> decl_consume_spaces T1 (cs T1 p) = Ok s' ->
  exists p', s' = cs T1 p' /\ p <= p' /\ p' <= tlen T1 /\
    (p' + 2 <= P -> decl_consume_spaces T2 (cs T2 p) = Ok (cs T2 p')).
Proof.
  intros Hp H. unfold decl_consume_spaces in *.
  destruct (starts_with_space (cs T1 p)) eqn:Es.
  - injection H as <-. destruct (skip_bytes1 byte_is_space p Hp) as (p' & E1 & L1 & L2 & E2).
    unfold skip_spaces. rewrite E1. exists p'. split; [reflexivity|]. split; [exact L1|]. split; [exact L2|].
    intros Hle. rewrite starts_with_space_same by lia. rewrite Es. rewrite E2 by lia. reflexivity.
  - destruct (negb (starts_with (cs T1 p) (b "?>")) && negb (at_end (cs T1 p))) eqn:E.
    { ib H x Hx. nok. }
    injection H as <-. exists p. split; [reflexivity|]. split; [lia|]. split; [exact Hp|]. intros Hle.
    rewrite starts_with_space_same by lia. rewrite Es.
    rewrite cs_at_end, tlen1 in E. replace (P + blen X1 <=? p) with false in E by lia.
    destruct (starts_with (cs T1 p) (b "?>")) eqn:Esw; [|discriminate].
    rewrite (sw_true p (b "?>") Esw) by (cbn; lia). reflexivity.
Qed.

Lemma name_lit_version : name_lit (b "version") = true. Proof. reflexivity. Qed.
Lemma name_lit_encoding : name_lit (b "encoding") = true. Proof. reflexivity. Qed.
Lemma name_lit_standalone : name_lit (b "standalone") = true. Proof. reflexivity. Qed.

Lemma parse_declaration_loc p s' : p <= tlen T1 -> parse_declaration T1 (cs T1 p) = Ok s' ->
  exists p', s' = cs T1 p' /\ p + 7 <= p' /\ p' <= tlen T1 /\
    (p' <= P -> parse_declaration T2 (cs T2 p) = Ok (cs T2 p')).
Proof.
  intros Hp H. unfold parse_declaration in *.
  ib H s1 Hs1. pose proof Hs1 as Hadv. apply advance1_ok in Hs1. subst s1.
  rewrite cs_advance in Hadv. destruct (tlen T1 <? p + 5) eqn:E5; [discriminate|]. clear Hadv.
  ib H s2 Hs2. destruct (decl_consume_spaces_loc (p + 5) s2 ltac:(lia) Hs2) as (p2 & -> & A1 & A2 & A3).
  destruct (starts_with (cs T1 p2) (b "version")) eqn:Ev; cbn [negb] in H.
  2:{ unfold skip_string in H. rewrite Ev in H. cbn [negb] in H. nok. }
  ib H s3 Hs3. destruct (parse_pseudo_attribute_loc _ p2 s3 A2 Hs3) as (p3 & -> & B1 & B2 & Bm & B3).
  pose proof (Bm _ name_lit_version Ev) as Bv. change (blen (b "version")) with 7 in Bv.
  ib H s4 Hs4. destruct (decl_consume_spaces_loc p3 s4 B2 Hs4) as (p4 & -> & C1 & C2 & C3).
  ib H s5 Hs5.
  assert (HE : exists p5, s5 = cs T1 p5 /\ p4 <= p5 /\ p5 <= tlen T1 /\
     (p5 + 2 <= P -> (if starts_with (cs T2 p4) (b "encoding")
                      then let! s := parse_pseudo_attribute T2 (b "encoding") (cs T2 p4) in decl_consume_spaces T2 s
                      else Ok (cs T2 p4)) = Ok (cs T2 p5))).
  { destruct (starts_with (cs T1 p4) (b "encoding")) eqn:Ee.
    - ib Hs5 s6 Hs6. destruct (parse_pseudo_attribute_loc _ p4 s6 C2 Hs6) as (p6 & -> & D1 & D2 & Dm & D3).
      pose proof (Dm _ name_lit_encoding Ee) as Dv. change (blen (b "encoding")) with 8 in Dv.
      destruct (decl_consume_spaces_loc p6 s5 D2 Hs5) as (p7 & -> & F1 & F2 & F3).
      exists p7. split; [reflexivity|]. split; [lia|]. split; [exact F2|]. intros Hle.
      rewrite (sw_true p4 _ Ee) by (change (blen (b "encoding")) with 8; lia).
      rewrite D3 by lia. cbn [bind]. apply F3. exact Hle.
    - injection Hs5 as <-. exists p4. split; [reflexivity|]. split; [lia|]. split; [exact C2|]. intros Hle.
      rewrite (sw_false p4 _ Ee) by (reflexivity || lia). reflexivity. }
  destruct HE as (p5 & -> & G1 & G2 & G3).
  ib H s6 Hs6.
  assert (HS : exists p6, s6 = cs T1 p6 /\ p5 <= p6 /\ p6 <= tlen T1 /\
     (p6 <= P -> (if starts_with (cs T2 p5) (b "standalone") then parse_pseudo_attribute T2 (b "standalone") (cs T2 p5)
                  else Ok (cs T2 p5)) = Ok (cs T2 p6))).
  { destruct (starts_with (cs T1 p5) (b "standalone")) eqn:Ee.
    - destruct (parse_pseudo_attribute_loc _ p5 s6 G2 Hs6) as (p6 & -> & D1 & D2 & Dm & D3).
      pose proof (Dm _ name_lit_standalone Ee) as Dv. change (blen (b "standalone")) with 10 in Dv.
      exists p6. split; [reflexivity|]. split; [lia|]. split; [exact D2|]. intros Hle.
      rewrite (sw_true p5 _ Ee) by (change (blen (b "standalone")) with 10; lia). apply D3. exact Hle.
    - injection Hs6 as <-. exists p5. split; [reflexivity|]. split; [lia|]. split; [exact G2|]. intros Hle.
      rewrite (sw_false p5 _ Ee) by (reflexivity || lia). reflexivity. }
  destruct HS as (p6 & -> & I1 & I2 & I3).
  cbv zeta in H. destruct (skip_bytes1 byte_is_space p6 I2) as (p7 & E7 & J1 & J2 & J3).
  unfold skip_spaces in *. rewrite E7 in H.
  destruct (skip_string_loc _ p7 s' H) as (-> & K1 & K2 & K3). change (blen (b "?>")) with 2 in *.
  exists (p7 + 2). split; [reflexivity|]. split; [lia|]. split; [exact K1|]. intros Hle.
  rewrite advance2_ok by lia. cbn [bind]. rewrite A3 by lia. cbn [bind].
  rewrite (sw_true p2 _ Ev) by (change (blen (b "version")) with 7; lia). cbn [negb].
  rewrite B3 by lia. cbn [bind]. rewrite C3 by lia. cbn [bind]. rewrite G3 by lia. cbn [bind].
  rewrite I3 by lia. cbn [bind]. rewrite J3 by lia. apply K3. exact Hle.
Qed.

(* ---- a test inside pre gives the same answer ---- *)
Lemma sw_same p lit : p + blen lit <= P -> starts_with (cs T2 p) lit = starts_with (cs T1 p) lit.
Proof.
  intros Hp. unfold starts_with. rewrite !cs_avail. rewrite rest1, rest2 by lia.
  rewrite !prefix_b_app_short by (rewrite D_len by lia; unfold blen in *; lia). reflexivity.
Qed.

Lemma prefix_b_app_l : forall a r l, prefix_b (a ++ r) l = true -> prefix_b a l = true.
Proof.
  induction a as [|x a IH]; intros r l H; [reflexivity|]. destruct l as [|y l]; [discriminate|].
  cbn [app prefix_b] in *. apply andb_true_iff in H. destruct H as [H1 H2]. rewrite H1. eapply IH. exact H2.
Qed.

Lemma xml_clash T p : starts_with (cs T p) (b "<?xml") = true -> starts_with (cs T (p + 3)) (b "?>") = true -> False.
Proof.
  unfold starts_with. rewrite !cs_avail. replace (N.to_nat (p + 3)) with (N.to_nat p + 3)%nat by lia.
  rewrite <- skipn_skipn_add.
  change (b "<?xml") with [60; 63; 120; 109; 108]. change (b "?>") with [63; 62]. intros H1 H2.
  destruct (skipn (N.to_nat p) T) as [|a0 [|a1 [|a2 [|a3 [|a4 r]]]]]; cbn [prefix_b skipn] in H1, H2;
    try discriminate; try lia.
Qed.

(* ---- tokens ---- *)
Definition sl_in (a e : N) (sl : slice) : Prop := a <= sl_start sl /\ sl_start sl <= sl_end sl /\ sl_end sl < e.
Definition tok_in (a e : N) (tok : Tokenizer.token) : Prop :=
  match tok with
  | TComment t r => r = (a, e) /\ a < e /\ sl_in a e t
  | TPI t c r => r = (a, e) /\ a < e /\ sl_in a e t /\ match c with Some x => sl_in a e x | None => True end
  | _ => False
  end.

Lemma comment_pred_cont q c : q <= P ->
  (fun s ch => negb ((ch =? 45) && starts_with s (b "-->"))) (cs T1 q) c = true ->
  (fun s ch => negb ((ch =? 45) && starts_with s (b "-->"))) (cs T2 q) c = true.
Proof.
  cbv beta. intros Hq H. destruct (c =? 45); [|reflexivity]. cbn [andb] in *.
  destruct (starts_with (cs T1 q) (b "-->")) eqn:E; [discriminate|].
  rewrite (sw_false q _ E) by (reflexivity || lia). reflexivity.
Qed.

Lemma pi_pred_cont q c : q <= P ->
  (fun s ch => negb ((ch =? 63) && starts_with s (b "?>"))) (cs T1 q) c = true ->
  (fun s ch => negb ((ch =? 63) && starts_with s (b "?>"))) (cs T2 q) c = true.
Proof.
  cbv beta. intros Hq H. destruct (c =? 63); [|reflexivity]. cbn [andb] in *.
  destruct (starts_with (cs T1 q) (b "?>")) eqn:E; [discriminate|].
  rewrite (sw_false q _ E) by (reflexivity || lia). reflexivity.
Qed.

Lemma parse_comment_loc C1 (ev1 : Tokenizer.token -> C1 -> res C1) p c1 s' c1' : p <= tlen T1 ->
  parse_comment T1 C1 ev1 (cs T1 p) c1 = Ok (s', c1') ->
  exists p' tok, s' = cs T1 p' /\ p + 7 <= p' /\ p' <= tlen T1 /\ tok_in p p' tok /\ ev1 tok c1 = Ok c1' /\
    (p' <= P -> forall C2 (ev2 : Tokenizer.token -> C2 -> res C2) c2,
       parse_comment T2 C2 ev2 (cs T2 p) c2 = (let! c := ev2 tok c2 in Ok (cs T2 p', c))).
Proof.
  intros Hp H. unfold parse_comment in H. cbv zeta in H. cbn [cs s_pos] in H.
  ib H s1 Hs1. pose proof Hs1 as Hadv. apply advance1_ok in Hs1. subst s1.
  rewrite cs_advance in Hadv. destruct (tlen T1 <? p + 4) eqn:E4; [discriminate|]. clear Hadv.
  ib H x Hx. destruct x as [txt s2].
  destruct (consume_chars_loc _ (p + 4) txt s2 comment_pred_cont ltac:(lia) Hx) as (q & -> & A1 & A2 & -> & A3).
  ib H s3 Hs3. destruct (skip_string_loc _ q s3 Hs3) as (-> & B1 & B2 & B3). change (blen (b "-->")) with 3 in *.
  destruct (contains_b (b "--") (slice_bytes T1 {| sl_start := p + 4; sl_end := q |})) eqn:Ec; [nok|].
  destruct (ends_with_byte 45 (slice_bytes T1 {| sl_start := p + 4; sl_end := q |})) eqn:Ee; [nok|].
  ib H c' Hc'. injection H as <- <-. cbn [cs s_pos] in Hc'.
  exists (q + 3), (TComment {| sl_start := p + 4; sl_end := q |} (p, q + 3)).
  split; [reflexivity|]. split; [lia|]. split; [exact B1|].
  split. { cbn [tok_in]. unfold sl_in. cbn [sl_start sl_end]. repeat split; lia. }
  split; [exact Hc'|]. intros Hle C2 ev2 c2.
  unfold parse_comment. cbv zeta. cbn [cs s_pos]. rewrite advance2_ok by lia. cbn [bind].
  rewrite A3; [|lia|].
  2:{ intros c n _ Hf. cbv beta in *. destruct (c =? 45); [|discriminate]. cbn [andb] in *.
      rewrite (sw_true q _ B2) by (change (blen (b "-->")) with 3; lia). reflexivity. }
  cbn [bind]. rewrite B3 by lia. cbn [bind].
  rewrite slice_bytes_12 by (cbn [sl_start sl_end]; lia). rewrite Ec, Ee. reflexivity.
Qed.

Lemma parse_pi_loc C1 (ev1 : Tokenizer.token -> C1 -> res C1) p c1 s' c1' : p <= tlen T1 ->
  parse_pi T1 C1 ev1 (cs T1 p) c1 = Ok (s', c1') ->
  exists p' tok, s' = cs T1 p' /\ p + 5 <= p' /\ p' <= tlen T1 /\ tok_in p p' tok /\ ev1 tok c1 = Ok c1' /\
    starts_with (cs T1 (p' - 2)) (b "?>") = true /\
    (p' <= P -> forall C2 (ev2 : Tokenizer.token -> C2 -> res C2) c2,
       parse_pi T2 C2 ev2 (cs T2 p) c2 = (let! c := ev2 tok c2 in Ok (cs T2 p', c))).
Proof.
  intros Hp H. unfold parse_pi in H. cbv zeta in H. cbn [cs s_pos] in H.
  destruct (starts_with (cs T1 p) (b "<?xml ")) eqn:Ex; [nok|].
  ib H s1 Hs1. pose proof Hs1 as Hadv. apply advance1_ok in Hs1. subst s1.
  rewrite cs_advance in Hadv. destruct (tlen T1 <? p + 2) eqn:E2; [discriminate|]. clear Hadv.
  ib H x Hx. destruct x as [target s2].
  destruct (consume_name_loc (p + 2) target s2 ltac:(lia) Hx) as (p2 & -> & A1 & A2 & -> & A3).
  ib H s3 Hs3.
  assert (HS : exists p3, s3 = cs T1 p3 /\ p2 <= p3 /\ p3 <= tlen T1 /\
     (p3 + 2 <= P -> (if starts_with (cs T2 p2) (b "?>") then Ok (cs T2 p2) else consume_spaces T2 (cs T2 p2))
                     = Ok (cs T2 p3))).
  { destruct (starts_with (cs T1 p2) (b "?>")) eqn:Eq.
    - injection Hs3 as <-. exists p2. split; [reflexivity|]. split; [lia|]. split; [exact A2|]. intros Hle.
      rewrite (sw_true p2 _ Eq) by (change (blen (b "?>")) with 2; lia). reflexivity.
    - destruct (consume_spaces_loc p2 s3 A2 Hs3) as (p3 & -> & B1 & B2 & B3).
      exists p3. split; [reflexivity|]. split; [exact B1|]. split; [exact B2|]. intros Hle.
      rewrite (sw_false p2 _ Eq) by (reflexivity || lia). apply B3. lia. }
  destruct HS as (p3 & -> & B1 & B2 & B3).
  ib H y Hy. destruct y as [content s4].
  destruct (consume_chars_loc _ p3 content s4 pi_pred_cont B2 Hy) as (q & -> & D1 & D2 & -> & D3).
  ib H s5 Hs5. destruct (skip_string_loc _ q s5 Hs5) as (-> & F1 & F2 & F3). change (blen (b "?>")) with 2 in *.
  ib H c' Hc'. injection H as <- <-. cbn [cs s_pos] in Hc'.
  set (cont := if slice_len {| sl_start := p3; sl_end := q |} =? 0 then None else Some {| sl_start := p3; sl_end := q |}) in *.
  exists (q + 2), (TPI {| sl_start := p + 2; sl_end := p2 |} cont (p, q + 2)).
  split; [reflexivity|]. split; [lia|]. split; [exact F1|].
  split. { cbn [tok_in]. unfold sl_in, cont. cbn [sl_start sl_end]. repeat split; try lia.
           destruct (_ =? 0); [exact I|]. cbn [sl_start sl_end]. lia. }
  split; [exact Hc'|]. split. { replace (q + 2 - 2) with q by lia. exact F2. }
  intros Hle C2 ev2 c2.
  unfold parse_pi. cbv zeta. cbn [cs s_pos].
  assert (Ex2 : starts_with (cs T2 p) (b "<?xml ") = false).
  { destruct (N.le_gt_cases (p + 6) P) as [Hin|Hout].
    - rewrite sw_same by (change (blen (b "<?xml ")) with 6; lia). exact Ex.
    - destruct (starts_with (cs T2 p) (b "<?xml ")) eqn:E6; [|reflexivity]. exfalso.
      assert (E5 : starts_with (cs T2 p) (b "<?xml") = true).
      { unfold starts_with in *. change (b "<?xml ") with (b "<?xml" ++ [32]) in E6. eapply prefix_b_app_l. exact E6. }
      rewrite sw_same in E5 by (change (blen (b "<?xml")) with 5; lia).
      assert (q = p + 3) by lia. subst q. exact (xml_clash T1 p E5 F2). }
  rewrite Ex2. rewrite advance2_ok by lia. cbn [bind]. rewrite A3 by lia. cbn [bind].
  rewrite B3 by lia. cbn [bind].
  rewrite D3; [|lia|].
  2:{ intros c n _ Hf. cbv beta in *. destruct (c =? 63); [|discriminate]. cbn [andb] in *.
      rewrite (sw_true q _ F2) by (change (blen (b "?>")) with 2; lia). reflexivity. }
  cbn [bind]. rewrite F3 by lia. reflexivity.
Qed.

(* ---- the loop of parse_misc ---- *)
Lemma misc_steps_loc C1 C2 (ev1 : Tokenizer.token -> C1 -> res C1) (ev2 : Tokenizer.token -> C2 -> res C2)
      (R : N -> C1 -> C2 -> Prop) :
  (forall a e tok c1 c2 c1' q, q <= a -> tok_in a e tok -> R q c1 c2 -> ev1 tok c1 = Ok c1' ->
      exists c2', ev2 tok c2 = Ok c2' /\ R e c1' c2') ->
  forall n p c1 c2 s' c1', p <= tlen T1 -> R p c1 c2 ->
  misc_steps T1 C1 ev1 n (cs T1 p) c1 = Some (s', c1') ->
  exists p', s' = cs T1 p' /\ p <= p' /\ p' <= tlen T1 /\ (n <> O -> p + 5 <= p') /\
    (p' <= P -> exists c2', misc_steps T2 C2 ev2 n (cs T2 p) c2 = Some (cs T2 p', c2') /\ R p' c1' c2').
Proof.
  intros Htok. induction n as [|n IH]; intros p c1 c2 s' c1' Hp HR H; cbn [misc_steps] in H.
  - injection H as <- <-. exists p. split; [reflexivity|]. split; [lia|]. split; [exact Hp|]. split; [congruence|].
    intros _. exists c2. split; [reflexivity|exact HR].
  - destruct (at_end (cs T1 p)) eqn:Ea; [discriminate|]. cbv zeta in H.
    destruct (skip_bytes1 byte_is_space p Hp) as (p1 & E1 & L1 & L2 & E2). unfold skip_spaces in H. rewrite E1 in H.
    destruct (starts_with (cs T1 p1) (b "<!--")) eqn:Ec.
    + destruct (parse_comment T1 C1 ev1 (cs T1 p1) c1) as [[s1 c1a]| | |] eqn:Epc; try discriminate.
      cbn [fst snd] in H.
      destruct (parse_comment_loc C1 ev1 p1 c1 s1 c1a L2 Epc) as (p2 & tok & -> & A1 & A2 & A3 & A4 & A5).
      destruct (Htok p1 p2 tok c1 c2 c1a p L1 A3 HR A4) as (c2a & Hev2 & HR2).
      destruct (IH p2 c1a c2a s' c1' A2 HR2 H) as (p' & -> & B1 & B2 & _ & B4).
      exists p'. split; [reflexivity|]. split; [lia|]. split; [exact B2|]. split; [lia|]. intros Hle.
      destruct (B4 Hle) as (c2' & B5 & B6). exists c2'. split; [|exact B6].
      cbn [misc_steps]. rewrite at_end2 by lia. cbv zeta. unfold skip_spaces. rewrite E2 by lia.
      rewrite (sw_true p1 _ Ec) by (change (blen (b "<!--")) with 4; lia).
      rewrite (A5 ltac:(lia) C2 ev2 c2), Hev2. cbn [bind fst snd]. exact B5.
    + destruct (starts_with (cs T1 p1) (b "<?")) eqn:Eq; [|discriminate].
      destruct (parse_pi T1 C1 ev1 (cs T1 p1) c1) as [[s1 c1a]| | |] eqn:Epc; try discriminate.
      cbn [fst snd] in H.
      destruct (parse_pi_loc C1 ev1 p1 c1 s1 c1a L2 Epc) as (p2 & tok & -> & A1 & A2 & A3 & A4 & _ & A5).
      destruct (Htok p1 p2 tok c1 c2 c1a p L1 A3 HR A4) as (c2a & Hev2 & HR2).
      destruct (IH p2 c1a c2a s' c1' A2 HR2 H) as (p' & -> & B1 & B2 & _ & B4).
      exists p'. split; [reflexivity|]. split; [lia|]. split; [exact B2|]. split; [lia|]. intros Hle.
      destruct (B4 Hle) as (c2' & B5 & B6). exists c2'. split; [|exact B6].
      cbn [misc_steps]. rewrite at_end2 by lia. cbv zeta. unfold skip_spaces. rewrite E2 by lia.
      rewrite (sw_false p1 _ Ec) by (reflexivity || lia).
      rewrite (sw_true p1 _ Eq) by (change (blen (b "<?")) with 2; lia).
      rewrite (A5 ltac:(lia) C2 ev2 c2), Hev2. cbn [bind fst snd]. exact B5.
Qed.

(* a first round cannot fit in the five bytes of "<?xml" *)
Lemma misc_first_clash C1 (ev1 : Tokenizer.token -> C1 -> res C1) n p c1 s' c1' : p <= tlen T1 ->
  misc_steps T1 C1 ev1 (S n) (cs T1 p) c1 = Some (s', c1') ->
  starts_with (cs T1 p) (b "<?xml") = true -> s_pos s' <= p + 5 -> False.
Proof.
  intros Hp H Hx Hle. cbn [misc_steps] in H.
  destruct (at_end (cs T1 p)) eqn:Ea; [discriminate|]. cbv zeta in H.
  destruct (skip_bytes1 byte_is_space p Hp) as (p1 & E1 & L1 & L2 & _). unfold skip_spaces in H. rewrite E1 in H.
  assert (Hmono : forall m q c s'' c'', q <= tlen T1 -> misc_steps T1 C1 ev1 m (cs T1 q) c = Some (s'', c'') -> q <= s_pos s'').
  { intros m q c s'' c'' Hq Hm.
    assert (Ht : forall a e tok (x1 x2 x1' : C1) (q0 : N), q0 <= a -> tok_in a e tok -> x1 = x2 -> ev1 tok x1 = Ok x1' ->
                 exists x2', ev1 tok x2 = Ok x2' /\ x1' = x2').
    { intros a e tok x1 x2 x1' q0 _ _ <- Hev. exists x1'. split; [exact Hev|reflexivity]. }
    destruct (misc_steps_loc C1 C1 ev1 ev1 (fun _ a b' => a = b') Ht m q c c s'' c'' Hq eq_refl Hm)
      as (p' & -> & M1 & _). cbn. exact M1. }
  destruct (starts_with (cs T1 p1) (b "<!--")) eqn:Ec.
  - destruct (parse_comment T1 C1 ev1 (cs T1 p1) c1) as [[s1 c1a]| | |] eqn:Epc; try discriminate.
    cbn [fst snd] in H.
    destruct (parse_comment_loc C1 ev1 p1 c1 s1 c1a L2 Epc) as (p2 & tok & -> & A1 & A2 & _).
    apply Hmono in H; [|exact A2]. lia.
  - destruct (starts_with (cs T1 p1) (b "<?")) eqn:Eq; [|discriminate].
    destruct (parse_pi T1 C1 ev1 (cs T1 p1) c1) as [[s1 c1a]| | |] eqn:Epc; try discriminate.
    cbn [fst snd] in H.
    destruct (parse_pi_loc C1 ev1 p1 c1 s1 c1a L2 Epc) as (p2 & tok & -> & A1 & A2 & _ & _ & A6 & _).
    apply Hmono in H; [|exact A2]. assert (p1 = p) by lia. subst p1. assert (p2 = p + 5) by lia. subst p2.
    replace (p + 5 - 2) with (p + 3) in A6 by lia. exact (xml_clash T1 p Hx A6).
Qed.

(* ---- the start of the document: byte order mark and XML declaration ---- *)
Lemma doc_start_loc s2 : doc_start T1 = Ok s2 ->
  exists p2, s2 = cs T1 p2 /\ p2 <= tlen T1 /\
    (p2 <= P -> (starts_with (cs T1 p2) (b "<?xml") = true -> p2 + 5 <> P) -> doc_start T2 = Ok (cs T2 p2)).
Proof.
  unfold doc_start. cbv zeta. rewrite !cs_new. intros H. ib H s1 Hs1.
  assert (HB : exists p1, s1 = cs T1 p1 /\ p1 <= tlen T1 /\
     (p1 <= P -> (if starts_with (cs T2 0) [239; 187; 191] then advance 3 (cs T2 0) else Ok (cs T2 0)) = Ok (cs T2 p1))).
  { destruct (starts_with (cs T1 0) [239; 187; 191]) eqn:Eb.
    - pose proof Hs1 as Hadv. apply advance1_ok in Hs1. subst s1. rewrite cs_advance in Hadv.
      destruct (tlen T1 <? 0 + 3) eqn:E3; [discriminate|].
      exists (0 + 3). split; [reflexivity|]. split; [lia|]. intros Hle.
      rewrite (sw_true 0 _ Eb) by (change (blen [239; 187; 191]) with 3; lia). apply advance2_ok. exact Hle.
    - injection Hs1 as <-. exists 0. split; [reflexivity|]. split; [lia|]. intros Hle.
      rewrite (sw_false 0 _ Eb) by (reflexivity || lia). reflexivity. }
  destruct HB as (p1 & -> & B1 & B2).
  destruct (starts_with_declaration (cs T1 p1)) eqn:Ed.
  - destruct (parse_declaration_loc p1 s2 B1 H) as (p2 & -> & A1 & A2 & A3).
    exists p2. split; [reflexivity|]. split; [exact A2|]. intros Hle _.
    rewrite B2 by lia. cbn [bind].
    assert (Ed2 : starts_with_declaration (cs T2 p1) = true).
    { unfold starts_with_declaration in *. apply andb_true_iff in Ed. destruct Ed as [D1 D2].
      rewrite (sw_true p1 _ D1) by (change (blen (b "<?xml")) with 5; lia). cbn [andb].
      rewrite cs_avail in *. rewrite rest1 in D2 by lia. rewrite rest2 by lia.
      rewrite nth_error_app1 in * by (rewrite D_len by lia; lia). exact D2. }
    rewrite Ed2. apply A3. exact Hle.
  - injection H as <-. exists p1. split; [reflexivity|]. split; [exact B1|]. intros Hle NC.
    rewrite B2 by lia. cbn [bind].
    assert (Ed2 : starts_with_declaration (cs T2 p1) = false).
    { unfold starts_with_declaration in *.
      destruct (starts_with (cs T1 p1) (b "<?xml")) eqn:D1.
      - specialize (NC eq_refl). cbn [andb] in Ed.
        destruct (N.le_gt_cases (p1 + 5) P) as [Hin|Hout].
        + rewrite sw_same by (change (blen (b "<?xml")) with 5; lia). rewrite D1. cbn [andb].
          rewrite cs_avail in *. rewrite rest1 in Ed by lia. rewrite rest2 by lia.
          rewrite nth_error_app1 in * by (rewrite D_len by lia; lia). exact Ed.
        + assert (E5 : starts_with (cs T2 p1) (b "<?xml") = false); [|rewrite E5; reflexivity].
          unfold starts_with. rewrite cs_avail, rest2 by lia. destruct HX2 as (w & r & E & Hw). rewrite E.
          apply prefix_b_ws; [reflexivity|exact Hw|]. rewrite D_len by lia. cbn. lia.
      - rewrite (sw_false p1 _ D1) by (reflexivity || lia). reflexivity. }
    rewrite Ed2. reflexivity.
Qed.

End Local.
