(* Proofs/NsRejSanity.v -- C06/C08, rejection half: the eleven violating documents of
   Proofs/CstNsSanity.v as instances of the per-rule theorems of Proofs/NsRejMain.v, and further
   documents (violation in a nested element after well-formed siblings, order of the checks within
   one tag) on which [first_violation] is compared with the model by computation. *)
From Coq Require Import Ascii String.
From Coq Require Import List NArith PeanoNat Bool Lia ZifyBool ZifyN ZifyNat.
Import ListNotations.
From RX.Model Require Import Base Stream Tokenizer Doc Builder Parse.
From RX.Spec Require Import CstNs.
From RX.Proofs Require Import CstNsView CstNsMain CstNsSanity NsRejDefs NsRejBuild NsRejMain.
Open Scope N_scope.

(* the first violation of each of the documents bad1 ... bad11 *)
Example bad_rules :
  map first_violation [bad1; bad2; bad3; bad4; bad5; bad6; bad7; bad8; bad9; bad10; bad11] =
  [Some (UnboundPrefix (b "p")); Some (UnboundPrefix (b "p")); Some (DupAttr (b "a")); Some (DupPrefix (b "p"));
   Some DupDefault; Some DeclXmlns; Some XmlnsUriBound; Some XmlPrefixOtherUri; Some XmlUriOtherPrefix;
   Some XmlUriOtherPrefix; Some ElemPrefixXmlns].
Proof. vm_compute. reflexivity. Qed.

Example bad_syntax :
  forallb wf_syntax_ns [bad1; bad2; bad3; bad4; bad5; bad6; bad7; bad8; bad9; bad10; bad11] = true /\
  existsb ns_conditions [bad1; bad2; bad3; bad4; bad5; bad6; bad7; bad8; bad9; bad10; bad11] = false.
Proof. split; vm_compute; reflexivity. Qed.

Ltac fits_tac :=
  split; [vm_compute; reflexivity|];
  split; [vm_compute; intros H; discriminate H|];
  split; [apply distinct_by_count;
          match goal with |- (length ?l <= _)%nat => let n := fresh "n" in let En := fresh "En" in
            remember (length l) as n eqn:En; vm_compute in En; subst n; lia end|];
  vm_compute; intros H; discriminate H.

Ltac inst thm := apply thm; [vm_compute; reflexivity|vm_compute; reflexivity|fits_tac].

Example bad1_rejected : exists tp, parse (render bad1) opt = Err (UnknownNamespace (b "p") tp).
Proof. inst n2_unbound_prefix. Qed.
Example bad2_rejected : exists tp, parse (render bad2) opt = Err (UnknownNamespace (b "p") tp).
Proof. inst n2_unbound_prefix. Qed.
Example bad3_rejected : exists tp, parse (render bad3) opt = Err (DuplicatedAttribute (b "a") tp).
Proof. inst n7_duplicate_attribute. Qed.
Example bad4_rejected : exists tp, parse (render bad4) opt = Err (DuplicatedNamespace (b "p") tp).
Proof. inst n6_duplicate_prefix. Qed.
Example bad5_rejected : exists tp, parse (render bad5) opt = Err (DuplicatedAttribute (b "xmlns") tp).
Proof. inst n6_duplicate_default. Qed.
Example bad6_rejected : exists tp, parse (render bad6) opt = Err (InvalidElementNamePrefix tp).
Proof. inst n3_xmlns_declared. Qed.
Example bad7_rejected : exists tp, parse (render bad7) opt = Err (UnexpectedXmlnsUri tp).
Proof. inst n4_xmlns_uri_bound. Qed.
Example bad8_rejected : exists tp, parse (render bad8) opt = Err (InvalidXmlPrefixUri tp).
Proof. inst n5_xml_prefix_other_uri. Qed.
Example bad9_rejected : exists tp, parse (render bad9) opt = Err (UnexpectedXmlUri tp).
Proof. inst n5_xml_uri_other_prefix. Qed.
Example bad10_rejected : exists tp, parse (render bad10) opt = Err (UnexpectedXmlUri tp).
Proof. inst n5_xml_uri_other_prefix. Qed.
Example bad11_rejected : exists tp, parse (render bad11) opt = Err (InvalidElementNamePrefix tp).
Proof. inst n1_element_prefix_xmlns. Qed.

(* the well-formed examples have no violation, and ns_decide applies to them *)
Example good_rules : map first_violation [ex1; ex2; ex3] = [None; None; None].
Proof. vm_compute. reflexivity. Qed.

Example ex1_decide : (exists d, parse (render ex1) opt = Ok d) <-> ns_conditions ex1 = true.
Proof.
  apply ns_decide; [vm_compute; reflexivity|..]; (assert (F : fits ex1 opt) by fits_tac); apply F.
Qed.

(* ---- more documents: nesting and the order of the checks ---- *)
Definition xml_u := "http://www.w3.org/XML/1998/namespace"%string.
Definition xmlns_u := "http://www.w3.org/2000/xmlns/"%string.

(* the violation is in a grandchild, after siblings that use every feature *)
Definition deep1 := mk (el "" "root" [dc "" "urn:d"; dc "p" "urn:p"; at_ "p" "a" "2"]
  [ em "" "c1" []; IText (b "t");
    el "p" "c2" [dc "p" "urn:p2"; at_ "p" "x" "v"] [em "" "g" [at_ "p" "y" ""]; IComment (b "c"); em "q" "h" []];
    em "zz" "never" [] ]).
(* p is re-declared with the same URI as q: p:a and q:a collide in the child only *)
Definition deep2 := mk (el "" "r" [dc "p" "u"] [em "" "ok" [at_ "p" "a" "1"]; em "" "k" [dc "q" "u"; at_ "p" "a" "1"; at_ "q" "a" "2"]]).
(* order within a tag: N1 before everything *)
Definition ord1 := mk (em "xmlns" "r" [dc "xmlns" "u"; at_ "p" "a" "1"]).
(* a declaration (N3) is checked before an earlier unbound attribute (N2) *)
Definition ord2 := mk (em "" "r" [at_ "p" "a" "1"; dc "xmlns" "u"]).
(* attributes (N2) before the element name (N2) *)
Definition ord3 := mk (em "e" "r" [at_ "p" "a" "1"]).
(* N7 before a later unbound attribute *)
Definition ord4 := mk (em "" "r" [at_ "" "a" "1"; at_ "" "a" "2"; at_ "p" "b" "3"]).
(* xmlns:p: N3 before N4 before N5 before N6 *)
Definition ord5 := mk (em "" "r" [dc "p" "v"; dc "p" xmlns_u]).
Definition ord6 := mk (em "" "r" [dc "p" "v"; dc "p" xml_u]).
(* xmlns=: the xml URI before the xmlns URI before the duplicate *)
Definition ord7 := mk (em "" "r" [dc "" "v"; dc "" xml_u]).
Definition ord8 := mk (em "" "r" [dc "" "v"; dc "" xmlns_u]).
(* xmlns:xml with the xml URI twice is NOT a violation (nothing is bound) *)
Definition okxml := mk (em "" "r" [dc "xml" xml_u; dc "xml" xml_u; at_ "xml" "a" "1"]).
(* an unprefixed and a prefixed attribute with one local name never collide, even in the default namespace *)
Definition okdef := mk (em "" "r" [dc "" "u"; dc "p" "u"; at_ "" "a" "1"; at_ "p" "a" "2"]).

Definition more := [deep1; deep2; ord1; ord2; ord3; ord4; ord5; ord6; ord7; ord8; okxml; okdef].

Example more_rules : map first_violation more =
  [Some (UnboundPrefix (b "q")); Some (DupAttr (b "a")); Some ElemPrefixXmlns; Some DeclXmlns;
   Some (UnboundPrefix (b "p")); Some (DupAttr (b "a")); Some XmlnsUriBound; Some XmlUriOtherPrefix;
   Some XmlUriOtherPrefix; Some XmlnsUriBound; None; None].
Proof. vm_compute. reflexivity. Qed.

(* the model agrees with first_violation on all of them (by computation) *)
Definition agrees (c : doc) : bool :=
  wf_syntax_ns c &&
  match first_violation c, parse (render c) opt with
  | Some rl, Err e => rule_error rl e
  | None, Ok d => true
  | _, _ => false
  end.
Example more_agree : forallb agrees (more ++ [bad1; bad2; bad3; bad4; bad5; bad6; bad7; bad8; bad9; bad10; bad11; ex1; ex2; ex3]) = true.
Proof. vm_compute. reflexivity. Qed.

(* and two of them through the theorems *)
Example deep1_rejected : exists tp, parse (render deep1) opt = Err (UnknownNamespace (b "q") tp).
Proof. inst n2_unbound_prefix. Qed.
Example ord2_rejected : exists tp, parse (render ord2) opt = Err (InvalidElementNamePrefix tp).
Proof. inst n3_xmlns_declared. Qed.

Print Assumptions bad1_rejected.
Print Assumptions bad3_rejected.
Print Assumptions bad11_rejected.
Print Assumptions deep1_rejected.
