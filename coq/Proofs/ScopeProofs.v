(* Proofs/ScopeProofs.v -- property C06: the namespace tables of the builder refine the
   in-scope bindings of Spec/Scope.v. *)
From Coq Require Import Lia ZifyBool ZifyN ZifyNat.
From RX Require Import Generated.
From RX.Model Require Import Base CharClass Stream Tokenizer Doc Builder.
From RX.Spec Require Scope.
From RX.Proofs Require Import Tactics.

Local Open Scope N_scope.

(* ---- definitions ---- *)

(* the (prefix, uri) pair a tree-order entry denotes *)
Definition binding_at (text : bytes) (d : document) (tree_pos : N) : option Scope.binding :=
  match nth_N (d_ns_tree d) tree_pos with
  | None => None
  | Some vi => match nth_N (d_ns_values d) vi with
               | Some v => Some (ns_name_bytes text v, storage_bytes text (ns_uri v))
               | None => None
               end
  end.
(* the bindings of a range [a, e) of the tree order; None if some entry is dangling *)
Fixpoint bindings_of_list (text : bytes) (d : document) (ps : list N) : option (list Scope.binding) :=
  match ps with
  | [] => Some []
  | p :: r => match binding_at text d p, bindings_of_list text d r with
              | Some x, Some l => Some (x :: l) | _, _ => None end
  end.
Definition bindings_of (text : bytes) (d : document) (r : range) : option (list Scope.binding) :=
  bindings_of_list text d (N_range (fst r) (N.to_nat (snd r - fst r))).
(* every tree-order entry points to an existing value *)
Definition ns_ok (d : document) : Prop :=
  forall p vi, nth_N (d_ns_tree d) p = Some vi -> vi < len_N (d_ns_values d).

(* ---- byte strings ---- *)

Lemma scope_bytes_eqb : forall x y, Scope.bytes_eqb x y = bytes_eqb x y.
Proof. reflexivity. Qed.

Lemma scope_prefix_eqb : forall x y, Scope.prefix_eqb x y = opt_str_eqb x y.
Proof. reflexivity. Qed.

Lemma bytes_eqb_eq : forall x y, bytes_eqb x y = true <-> x = y.
Proof.
  induction x as [|a x IH]; destruct y; cbn; split; intros H; try discriminate; auto.
  - apply andb_true_iff in H. destruct H as [H1 H2]. apply N.eqb_eq in H1. apply IH in H2. congruence.
  - inversion H; subst. rewrite N.eqb_refl. cbn. apply IH; reflexivity.
Qed.

Lemma opt_str_eqb_eq : forall x y, opt_str_eqb x y = true <-> x = y.
Proof.
  destruct x, y; cbn; split; intros H; try discriminate; auto.
  - apply bytes_eqb_eq in H; congruence.
  - inversion H; subst. apply bytes_eqb_eq; reflexivity.
Qed.

Lemma prefix_eqb_eq : forall x y, Scope.prefix_eqb x y = true <-> x = y.
Proof. intros; rewrite scope_prefix_eqb; apply opt_str_eqb_eq. Qed.

Lemma prefix_eqb_sym : forall x y, Scope.prefix_eqb x y = Scope.prefix_eqb y x.
Proof.
  intros. destruct (Scope.prefix_eqb x y) eqn:E, (Scope.prefix_eqb y x) eqn:F; auto.
  - apply prefix_eqb_eq in E. subst. rewrite (proj2 (prefix_eqb_eq y y) eq_refl) in F. discriminate.
  - apply prefix_eqb_eq in F. subst. rewrite (proj2 (prefix_eqb_eq x x) eq_refl) in E. discriminate.
Qed.

(* ---- lists indexed by N ---- *)

Lemma len_N_app : forall A (l l' : list A), len_N (l ++ l') = len_N l + len_N l'.
Proof. intros; unfold len_N; rewrite app_length; lia. Qed.

Lemma nth_N_Some_lt : forall A (l : list A) i x, nth_N l i = Some x -> i < len_N l.
Proof.
  unfold nth_N; intros A l i x H. destruct (len_N l <=? i) eqn:E; [discriminate|lia].
Qed.

Lemma nth_N_lt_Some : forall A (l : list A) i, i < len_N l -> exists x, nth_N l i = Some x.
Proof.
  unfold nth_N, len_N; intros A l i H. destruct (N.of_nat (length l) <=? i) eqn:E; [lia|].
  destruct (nth_error l (N.to_nat i)) eqn:F; eauto.
  apply nth_error_None in F. lia.
Qed.

Lemma nth_N_app_l : forall A (l l' : list A) i, i < len_N l -> nth_N (l ++ l') i = nth_N l i.
Proof.
  unfold nth_N; intros A l l' i H. rewrite len_N_app.
  unfold len_N in *.
  destruct (N.of_nat (length l) + N.of_nat (length l') <=? i) eqn:E; [lia|].
  destruct (N.of_nat (length l) <=? i) eqn:F; [lia|].
  apply nth_error_app1. lia.
Qed.

Lemma nth_N_app_len : forall A (l : list A) x, nth_N (l ++ [x]) (len_N l) = Some x.
Proof.
  unfold nth_N; intros A l x. rewrite len_N_app. unfold len_N. cbn [length].
  destruct (N.of_nat (length l) + N.of_nat 1 <=? N.of_nat (length l)) eqn:E; [lia|].
  rewrite nth_error_app2 by lia.
  replace (N.to_nat (N.of_nat (length l)) - length l)%nat with 0%nat by lia. reflexivity.
Qed.

Lemma skipn_nth_error : forall A (l : list A) k x,
  nth_error l k = Some x -> skipn k l = x :: skipn (S k) l.
Proof.
  induction l as [|y l IH]; intros [|k] x H; cbn in *; try discriminate.
  - congruence.
  - apply IH; assumption.
Qed.

(* ---- the bindings denoted by a list of value indices ---- *)

Definition entry (text : bytes) (vals : list namespace) (vi : N) : option Scope.binding :=
  match nth_N vals vi with
  | Some v => Some (ns_name_bytes text v, storage_bytes text (ns_uri v))
  | None => None
  end.

Fixpoint entries (text : bytes) (vals : list namespace) (l : list N) : option (list Scope.binding) :=
  match l with
  | [] => Some []
  | vi :: r => match entry text vals vi, entries text vals r with
               | Some x, Some bs => Some (x :: bs) | _, _ => None end
  end.

Lemma binding_at_entry : forall text d p,
  binding_at text d p =
  match nth_N (d_ns_tree d) p with None => None | Some vi => entry text (d_ns_values d) vi end.
Proof. reflexivity. Qed.

Lemma entries_app : forall text vals l1 l2,
  entries text vals (l1 ++ l2) =
  match entries text vals l1, entries text vals l2 with
  | Some a, Some c => Some (a ++ c) | _, _ => None end.
Proof.
  induction l1 as [|x l1 IH]; intros l2; cbn [app entries].
  - destruct (entries text vals l2); reflexivity.
  - rewrite IH. destruct (entry text vals x); [|reflexivity].
    destruct (entries text vals l1); [|reflexivity].
    destruct (entries text vals l2); reflexivity.
Qed.

Lemma bindings_of_list_range : forall text d n k,
  (k + n <= length (d_ns_tree d))%nat ->
  bindings_of_list text d (N_range (N.of_nat k) n) =
  entries text (d_ns_values d) (firstn n (skipn k (d_ns_tree d))).
Proof.
  induction n as [|n IH]; intros k H; cbn [N_range bindings_of_list firstn entries]; auto.
  destruct (nth_error (d_ns_tree d) k) as [vi|] eqn:E.
  2:{ apply nth_error_None in E. lia. }
  rewrite (skipn_nth_error _ _ _ _ E). cbn [firstn entries].
  replace (N.of_nat k + 1) with (N.of_nat (S k)) by lia.
  rewrite IH by lia.
  rewrite binding_at_entry. unfold nth_N at 1. unfold len_N.
  destruct (N.of_nat (length (d_ns_tree d)) <=? N.of_nat k) eqn:F; [lia|].
  rewrite Nat2N.id, E. reflexivity.
Qed.

Lemma bindings_of_range : forall text d a e,
  a <= e -> e <= len_N (d_ns_tree d) ->
  bindings_of text d (a, e) =
  entries text (d_ns_values d) (firstn (N.to_nat (e - a)) (skipn (N.to_nat a) (d_ns_tree d))).
Proof.
  intros text d a e H1 H2. unfold bindings_of; cbn [fst snd].
  rewrite <- (N2Nat.id a) at 1. apply bindings_of_list_range. unfold len_N in H2. lia.
Qed.

Lemma bindings_of_suffix : forall text d a,
  a <= len_N (d_ns_tree d) ->
  bindings_of text d (a, len_N (d_ns_tree d)) =
  entries text (d_ns_values d) (skipn (N.to_nat a) (d_ns_tree d)).
Proof.
  intros text d a H. rewrite bindings_of_range by lia.
  rewrite firstn_all2; [reflexivity|]. rewrite skipn_length. unfold len_N in *. lia.
Qed.

(* ---- Namespaces::exists ---- *)

Lemma entry_prefix : forall text d vi x,
  entry text (d_ns_values d) vi = Some x -> ns_prefix_at text d vi = Ok (fst x).
Proof.
  unfold entry, ns_prefix_at; intros text d vi x H.
  destruct (nth_N (d_ns_values d) vi); [|discriminate]. inversion H; reflexivity.
Qed.

Lemma any_prefix_spec : forall text d prefix idxs bs,
  entries text (d_ns_values d) idxs = Some bs ->
  any_prefix text d idxs prefix = Ok (existsb (fun o => Scope.prefix_eqb (fst o) prefix) bs).
Proof.
  induction idxs as [|i r IH]; intros bs H; cbn [entries any_prefix] in *.
  - inversion H; reflexivity.
  - destruct (entry text (d_ns_values d) i) as [x|] eqn:E; [|discriminate].
    destruct (entries text (d_ns_values d) r) as [l|]; [|discriminate].
    inversion H; subst. rewrite (entry_prefix _ _ _ _ E). cbn [bind existsb].
    change (Scope.prefix_eqb (fst x) prefix) with (opt_str_eqb (fst x) prefix).
    destruct (opt_str_eqb (fst x) prefix); cbn [orb]; auto.
Qed.

Lemma ns_exists_spec : forall text d start prefix own,
  start <= len_N (d_ns_tree d) ->
  bindings_of text d (start, len_N (d_ns_tree d)) = Some own ->
  ns_exists text d start prefix = Ok (existsb (fun o => Scope.prefix_eqb (fst o) prefix) own).
Proof.
  intros text d start prefix own H1 H2. unfold ns_exists.
  destruct (len_N (d_ns_tree d) <? start) eqn:E; [lia|].
  rewrite bindings_of_suffix in H2 by assumption.
  apply any_prefix_spec; assumption.
Qed.

(* a second declaration of the same prefix on one element is refused *)
Theorem duplicate_declaration_rejected : forall text d start prefix own,
  bindings_of text d (start, len_N (d_ns_tree d)) = Some own ->
  (ns_exists text d start prefix = Ok true <-> existsb (fun b => Scope.prefix_eqb (fst b) prefix) own = true).
Proof.
  intros text d start prefix own H.
  destruct (len_N (d_ns_tree d) <? start) eqn:E.
  - (* the model panics; the range is empty *)
    unfold ns_exists. rewrite E.
    unfold bindings_of in H; cbn [fst snd] in H.
    replace (N.to_nat (len_N (d_ns_tree d) - start)) with 0%nat in H by lia.
    cbn in H. inversion H; subst. cbn. split; discriminate.
  - rewrite (ns_exists_spec text d start prefix own) by (assumption || lia).
    split; [intros H1; inversion H1; reflexivity | intros ->; reflexivity].
Qed.
Print Assumptions duplicate_declaration_rejected.

(* ---- get_ns_idx_by_prefix ---- *)

Lemma find_prefix_idx_spec : forall text d prefix idxs bs,
  entries text (d_ns_values d) idxs = Some bs ->
  exists found, find_prefix_idx text d idxs prefix = Ok found /\
    match found with
    | Some vi => exists v, nth_N (d_ns_values d) vi = Some v /\
                 Scope.lookup bs prefix = Some (storage_bytes text (ns_uri v))
    | None => Scope.lookup bs prefix = None
    end.
Proof.
  induction idxs as [|i r IH]; intros bs H; cbn [entries find_prefix_idx] in *.
  - inversion H; subst. exists None; split; reflexivity.
  - destruct (entry text (d_ns_values d) i) as [x|] eqn:E; [|discriminate].
    destruct (entries text (d_ns_values d) r) as [l|]; [|discriminate].
    inversion H; subst. rewrite (entry_prefix _ _ _ _ E). cbn [bind Scope.lookup].
    change (Scope.prefix_eqb (fst x) prefix) with (opt_str_eqb (fst x) prefix).
    destruct (opt_str_eqb (fst x) prefix).
    + exists (Some i); split; [reflexivity|].
      unfold entry in E. destruct (nth_N (d_ns_values d) i) as [v|]; [|discriminate].
      exists v; split; [reflexivity|]. inversion E; reflexivity.
    + apply IH; reflexivity.
Qed.

Lemma ns_range_slice_ok : forall d nss idxs,
  ns_range_slice d nss = Ok idxs ->
  fst nss <= snd nss /\ snd nss <= len_N (d_ns_tree d) /\
  idxs = firstn (N.to_nat (snd nss - fst nss)) (skipn (N.to_nat (fst nss)) (d_ns_tree d)).
Proof.
  intros d [a e] idxs; unfold ns_range_slice; cbn [fst snd].
  destruct ((e <? a) || (len_N (d_ns_tree d) <? e)) eqn:E; [discriminate|].
  intros H; inversion H. repeat split; lia.
Qed.

Lemma ns_range_slice_total : forall d nss,
  fst nss <= snd nss -> snd nss <= len_N (d_ns_tree d) ->
  ns_range_slice d nss =
  Ok (firstn (N.to_nat (snd nss - fst nss)) (skipn (N.to_nat (fst nss)) (d_ns_tree d))).
Proof.
  intros d [a e]; unfold ns_range_slice; cbn [fst snd]; intros H1 H2.
  destruct ((e <? a) || (len_N (d_ns_tree d) <? e)) eqn:E; [lia|reflexivity].
Qed.

Lemma err_from_not_ok : forall A text p mk (x : A), @err_from text A p mk <> Ok x.
Proof.
  intros A text p mk x; unfold err_from. destruct (gen_text_pos_from text p); cbn; discriminate.
Qed.

(* names_resolve: the index found denotes the first binding of the prefix *)
Theorem names_resolve : forall text d nss pos prefix sc r,
  bindings_of text d nss = Some sc ->
  get_ns_idx_by_prefix text nss pos prefix d = Ok r ->
  let pb := slice_bytes text prefix in
  if bytes_eqb pb ns_xml_prefix then r = Some 0
  else match r with
       | Some vi => exists v, nth_N (d_ns_values d) vi = Some v /\
                    Scope.lookup sc (match pb with [] => None | _ => Some pb end) = Some (storage_bytes text (ns_uri v))
       | None => pb = [] /\ Scope.lookup sc None = None
       end.
Proof.
  intros text d nss pos prefix sc r Hsc H pb. unfold get_ns_idx_by_prefix in H. fold pb in H.
  destruct (bytes_eqb pb ns_xml_prefix) eqn:Exml.
  - inversion H; reflexivity.
  - inv_bind H. apply ns_range_slice_ok in Hb. destruct Hb as [H1 [H2 ->]].
    destruct nss as [a e]; cbn [fst snd] in *.
    rewrite bindings_of_range in Hsc by assumption.
    destruct (find_prefix_idx_spec text d (match pb with [] => None | _ => Some pb end) _ _ Hsc)
      as [found [Hf Hspec]].
    rewrite Hf in Hk. cbn [bind] in Hk.
    destruct found as [vi|].
    + inversion Hk; subst. exact Hspec.
    + destruct pb eqn:Epb.
      * inversion Hk; subst. split; [reflexivity|exact Hspec].
      * exfalso. eapply err_from_not_ok; eassumption.
Qed.
Print Assumptions names_resolve.

(* The result of a lookup of an undeclared prefix is exactly the error construction of the
   source (which computes a text position, and panics when that fails). *)
Lemma unknown_prefix_err_from : forall text d nss pos prefix sc,
  bindings_of text d nss = Some sc ->
  fst nss <= snd nss -> snd nss <= len_N (d_ns_tree d) ->
  slice_bytes text prefix <> [] -> bytes_eqb (slice_bytes text prefix) ns_xml_prefix = false ->
  Scope.lookup sc (Some (slice_bytes text prefix)) = None ->
  get_ns_idx_by_prefix text nss pos prefix d =
  err_from text pos (UnknownNamespace (slice_bytes text prefix)).
Proof.
  intros text d [a e] pos prefix sc Hsc H1 H2 Hne Hxml Hl; cbn [fst snd] in *.
  unfold get_ns_idx_by_prefix. rewrite Hxml.
  rewrite ns_range_slice_total by assumption. cbn [bind fst snd].
  rewrite bindings_of_range in Hsc by assumption.
  destruct (find_prefix_idx_spec text d
              (match slice_bytes text prefix with [] => None | _ => Some (slice_bytes text prefix) end)
              _ _ Hsc) as [found [Hf Hspec]].
  rewrite Hf. cbn [bind].
  destruct (slice_bytes text prefix) as [|x pb] eqn:Epb; [congruence|].
  destruct found as [vi|]; [|reflexivity].
  destruct Hspec as [v [_ Hv]]. congruence.
Qed.

(* ADAPTED (see the report): the range must be a valid slice of the tree order and the
   position of the error must be computable, otherwise the model (and the source) panics. *)
Theorem unknown_prefix_rejected : forall text d nss pos prefix sc,
  bindings_of text d nss = Some sc ->
  fst nss <= snd nss -> snd nss <= len_N (d_ns_tree d) ->
  (exists tp, gen_text_pos_from text pos = Ok tp) ->
  slice_bytes text prefix <> [] -> bytes_eqb (slice_bytes text prefix) ns_xml_prefix = false ->
  Scope.lookup sc (Some (slice_bytes text prefix)) = None ->
  exists e, get_ns_idx_by_prefix text nss pos prefix d = Err e.
Proof.
  intros text d nss pos prefix sc Hsc H1 H2 [tp Htp] Hne Hxml Hl.
  rewrite (unknown_prefix_err_from text d nss pos prefix sc) by assumption.
  unfold err_from. rewrite Htp. cbn [bind]. eauto.
Qed.
Print Assumptions unknown_prefix_rejected.

(* with the hypotheses as originally stated: the lookup never succeeds *)
Theorem unknown_prefix_never_ok : forall text d nss pos prefix sc,
  bindings_of text d nss = Some sc ->
  slice_bytes text prefix <> [] -> bytes_eqb (slice_bytes text prefix) ns_xml_prefix = false ->
  Scope.lookup sc (Some (slice_bytes text prefix)) = None ->
  forall r, get_ns_idx_by_prefix text nss pos prefix d <> Ok r.
Proof.
  intros text d nss pos prefix sc Hsc Hne Hxml Hl r H.
  pose proof (names_resolve text d nss pos prefix sc r Hsc H) as N. cbv zeta in N.
  rewrite Hxml in N. destruct r as [vi|].
  - destruct N as [v [_ Hv]].
    destruct (slice_bytes text prefix) eqn:E; [congruence|]. congruence.
  - destruct N as [N _]. congruence.
Qed.
Print Assumptions unknown_prefix_never_ok.

(* ---- uniqueness of prefixes ---- *)

Lemma existsb_prefix_false : forall (l : list Scope.binding) p,
  existsb (fun o => Scope.prefix_eqb (fst o) p) l = false <->
  forall o, In o l -> fst o <> p.
Proof.
  intros l p. split.
  - intros H o Ho E. assert (existsb (fun o => Scope.prefix_eqb (fst o) p) l = true); [|congruence].
    apply existsb_exists. exists o; split; auto. apply prefix_eqb_eq; assumption.
  - intros H. destruct (existsb (fun o => Scope.prefix_eqb (fst o) p) l) eqn:E; auto.
    apply existsb_exists in E. destruct E as [o [Ho E]]. apply prefix_eqb_eq in E.
    exfalso; eapply H; eauto.
Qed.

Lemma prefixes_unique_app : forall l1 l2,
  Scope.prefixes_unique (l1 ++ l2) = true <->
  Scope.prefixes_unique l1 = true /\ Scope.prefixes_unique l2 = true /\
  (forall x y, In x l1 -> In y l2 -> fst y <> fst x).
Proof.
  induction l1 as [|x l1 IH]; intros l2; cbn [app Scope.prefixes_unique].
  - split; [intros H; repeat split; auto; intros ? ? []|intros [_ [H _]]; exact H].
  - rewrite !andb_true_iff, !negb_true_iff, IH, !existsb_prefix_false. split.
    + intros [H1 [H2 [H3 H4]]]. repeat split; auto.
      * intros o Ho; apply H1; apply in_or_app; auto.
      * intros a c [<-|Ha] Hc; [apply H1; apply in_or_app; auto|apply H4; auto].
    + intros [[H1 H2] [H3 H4]]. repeat split; auto.
      * intros o Ho. apply in_app_or in Ho. destruct Ho as [Ho|Ho]; [apply H1; auto|].
        apply H4; [left; reflexivity|assumption].
      * intros a c Ha Hc; apply H4; [right|]; assumption.
Qed.

Lemma prefixes_unique_filter : forall f l,
  Scope.prefixes_unique l = true -> Scope.prefixes_unique (filter f l) = true.
Proof.
  induction l as [|x l IH]; cbn [filter Scope.prefixes_unique]; auto.
  rewrite andb_true_iff, negb_true_iff, existsb_prefix_false. intros [H1 H2].
  destruct (f x); [|auto].
  cbn [Scope.prefixes_unique]. rewrite andb_true_iff, negb_true_iff, existsb_prefix_false.
  split; [|auto]. intros o Ho. apply filter_In in Ho. apply H1; tauto.
Qed.

(* at most one entry per prefix: preserved by scope_of when the own declarations are unique *)
Theorem scope_prefixes_unique : forall own inherited,
  Scope.prefixes_unique own = true -> Scope.prefixes_unique inherited = true ->
  Scope.prefixes_unique (Scope.scope_of own inherited) = true.
Proof.
  intros own inherited H1 H2. unfold Scope.scope_of. apply prefixes_unique_app.
  split; [assumption|]. split; [apply prefixes_unique_filter; assumption|].
  intros x y Hx Hy E. apply filter_In in Hy. destruct Hy as [_ Hy].
  apply negb_true_iff in Hy. rewrite existsb_prefix_false in Hy.
  apply (Hy x Hx). congruence.
Qed.
Print Assumptions scope_prefixes_unique.

(* ---- push_ns ---- *)

Lemma find_ns_spec : forall text vals name uri i idx,
  find_ns text vals name uri i = Some idx ->
  exists v, i <= idx /\ nth_error vals (N.to_nat (idx - i)) = Some v /\
            ns_name_bytes text v = name /\ storage_bytes text (ns_uri v) = uri.
Proof.
  induction vals as [|v r IH]; intros name uri i idx H; cbn [find_ns] in H; [discriminate|].
  destruct (opt_str_eqb (ns_name_bytes text v) name &&
            bytes_eqb (storage_bytes text (ns_uri v)) uri) eqn:E.
  - inversion H; subst. apply andb_true_iff in E. destruct E as [E1 E2].
    apply opt_str_eqb_eq in E1. apply bytes_eqb_eq in E2.
    exists v. rewrite N.sub_diag. cbn. repeat split; auto. lia.
  - apply IH in H. destruct H as [v' [H1 [H2 [H3 H4]]]].
    exists v'. repeat split; auto; [lia|].
    replace (N.to_nat (idx - i)) with (S (N.to_nat (idx - (i + 1)))) by lia. exact H2.
Qed.

Lemma nth_error_nth_N : forall A (l : list A) i x,
  nth_error l (N.to_nat i) = Some x -> nth_N l i = Some x.
Proof.
  intros A l i x H. unfold nth_N, len_N.
  assert (N.to_nat i < length l)%nat by (apply nth_error_Some; congruence).
  destruct (N.of_nat (length l) <=? i) eqn:E; [lia|assumption].
Qed.

(* appending one entry to the tree order (the values only grow) *)
Lemma tree_append : forall text d d' vi x,
  ns_ok d ->
  d_ns_tree d' = d_ns_tree d ++ [vi] ->
  len_N (d_ns_values d) <= len_N (d_ns_values d') ->
  (forall i, i < len_N (d_ns_values d) -> nth_N (d_ns_values d') i = nth_N (d_ns_values d) i) ->
  entry text (d_ns_values d') vi = Some x ->
  ns_ok d' /\ len_N (d_ns_tree d') = len_N (d_ns_tree d) + 1 /\
  binding_at text d' (len_N (d_ns_tree d)) = Some x /\
  (forall p, p < len_N (d_ns_tree d) -> binding_at text d' p = binding_at text d p).
Proof.
  intros text d d' vi x Hok Ht Hl Hv He.
  assert (Hvi : vi < len_N (d_ns_values d')).
  { unfold entry in He. destruct (nth_N (d_ns_values d') vi) eqn:E; [|discriminate].
    eapply nth_N_Some_lt; eassumption. }
  repeat split.
  - intros p vj H. rewrite Ht in H.
    destruct (p <? len_N (d_ns_tree d)) eqn:E.
    + rewrite nth_N_app_l in H by lia. apply Hok in H. lia.
    + pose proof (nth_N_Some_lt _ _ _ _ H) as L. rewrite len_N_app in L.
      change (len_N [vi]) with 1 in L.
      assert (p = len_N (d_ns_tree d)) by lia. subst p.
      rewrite nth_N_app_len in H. inversion H; subst; assumption.
  - rewrite Ht, len_N_app. reflexivity.
  - rewrite binding_at_entry, Ht, nth_N_app_len. exact He.
  - intros p Hp. rewrite !binding_at_entry, Ht, nth_N_app_l by assumption.
    destruct (nth_N (d_ns_tree d) p) as [vj|] eqn:E; [|reflexivity].
    apply Hok in E. unfold entry. rewrite Hv by assumption. reflexivity.
Qed.

(* push_ns is transparent: it appends exactly the binding (name, uri) to the tree order, and
   changes no earlier entry *)
Theorem push_ns_appends : forall text name uri d d', ns_ok d ->
  push_ns text name uri d = Ok d' ->
  ns_ok d' /\ len_N (d_ns_tree d') = len_N (d_ns_tree d) + 1 /\
  binding_at text d' (len_N (d_ns_tree d)) =
    Some (match name with Some s => Some (str_bytes text s) | None => None end, storage_bytes text uri) /\
  (forall p, p < len_N (d_ns_tree d) -> binding_at text d' p = binding_at text d p).
Proof.
  intros text name uri d d' Hok H. unfold push_ns in H.
  destruct (find_ns text (d_ns_values d)
              (match name with Some s => Some (str_bytes text s) | None => None end)
              (storage_bytes text uri) 0) as [idx|] eqn:F.
  - inversion H; subst d'; clear H.
    apply find_ns_spec in F. destruct F as [v [_ [F1 [F2 F3]]]].
    rewrite N.sub_0_r in F1. apply nth_error_nth_N in F1.
    eapply tree_append; cbn [d_ns_tree d_ns_values]; eauto; try lia.
    unfold entry. rewrite F1, F2, F3. reflexivity.
  - destruct (ns_values_limit <? len_N (d_ns_values d)) eqn:L; [discriminate|].
    inversion H; subst d'; clear H.
    eapply tree_append; cbn [d_ns_tree d_ns_values]; eauto.
    + rewrite len_N_app. lia.
    + intros i Hi. apply nth_N_app_l; assumption.
    + unfold entry. rewrite nth_N_app_len. reflexivity.
Qed.
Print Assumptions push_ns_appends.

(* the limit: the 65537th distinct pair is refused, before that no index is truncated *)
Theorem push_ns_limit : forall text name uri d,
  find_ns text (d_ns_values d) (match name with Some s => Some (str_bytes text s) | None => None end) (storage_bytes text uri) 0 = None ->
  ns_values_limit < len_N (d_ns_values d) ->
  push_ns text name uri d = Err NamespacesLimitReached.
Proof.
  intros text name uri d F L. unfold push_ns. rewrite F.
  destruct (ns_values_limit <? len_N (d_ns_values d)) eqn:E; [reflexivity|lia].
Qed.
Print Assumptions push_ns_limit.

Theorem ns_values_limit_is : ns_values_limit = 65535.
Proof. reflexivity. Qed.
Print Assumptions ns_values_limit_is.

(* complement of push_ns_limit: below the limit push_ns succeeds, and every index it stores
   is at most 65535, i.e. fits the u16 of the source *)
Lemma push_ns_below_limit : forall text name uri d,
  len_N (d_ns_values d) <= ns_values_limit -> exists d', push_ns text name uri d = Ok d'.
Proof.
  intros text name uri d L. unfold push_ns.
  destruct (find_ns _ _ _ _ _); [eauto|].
  destruct (ns_values_limit <? len_N (d_ns_values d)) eqn:E; [lia|eauto].
Qed.

(* ---- resolve_namespaces ---- *)

(* what the copying loop computes: a parent binding is copied unless its prefix is already
   in the element's range -- own declarations AND bindings copied so far *)
Fixpoint copy_loop (cur inh : list Scope.binding) : list Scope.binding :=
  match inh with
  | [] => cur
  | x :: r => if existsb (fun o => Scope.prefix_eqb (fst o) (fst x)) cur
              then copy_loop cur r else copy_loop (cur ++ [x]) r
  end.

(* when the parent's bindings have distinct prefixes, this is the filter of scope_of *)
Lemma copy_loop_filter : forall inh own acc,
  Scope.prefixes_unique inh = true ->
  (forall a y, In a acc -> In y inh -> fst a <> fst y) ->
  copy_loop (own ++ acc) inh =
  own ++ acc ++ filter (fun x => negb (existsb (fun o => Scope.prefix_eqb (fst o) (fst x)) own)) inh.
Proof.
  induction inh as [|x r IH]; intros own acc Hu Hd; cbn [copy_loop filter].
  - rewrite app_nil_r; reflexivity.
  - cbn [Scope.prefixes_unique] in Hu. apply andb_true_iff in Hu. destruct Hu as [Hx Hu].
    apply negb_true_iff in Hx. rewrite existsb_prefix_false in Hx.
    rewrite existsb_app.
    assert (Hacc : existsb (fun o => Scope.prefix_eqb (fst o) (fst x)) acc = false).
    { apply existsb_prefix_false. intros o Ho. apply Hd; [assumption|left; reflexivity]. }
    rewrite Hacc, orb_false_r.
    destruct (existsb (fun o => Scope.prefix_eqb (fst o) (fst x)) own); cbn [negb].
    + apply IH; [assumption|]. intros a y Ha Hy; apply Hd; [assumption|right; assumption].
    + rewrite <- app_assoc. rewrite IH; [rewrite <- app_assoc; reflexivity|assumption|].
      intros a y Ha Hy. apply in_app_or in Ha. destruct Ha as [Ha|[<-|[]]].
      * apply Hd; [assumption|right; assumption].
      * intros E. apply (Hx y Hy). congruence.
Qed.

Lemma In_N_range : forall n a i, In i (N_range a n) -> a <= i /\ i < a + N.of_nat n.
Proof.
  induction n as [|n IH]; intros a i; cbn [N_range In]; [tauto|].
  intros [<-|H]; [lia|]. apply IH in H. lia.
Qed.

Lemma bindings_of_list_ext : forall text d d' ps,
  (forall p, In p ps -> binding_at text d' p = binding_at text d p) ->
  bindings_of_list text d' ps = bindings_of_list text d ps.
Proof.
  induction ps as [|p r IH]; intros H; cbn [bindings_of_list]; [reflexivity|].
  rewrite H by (left; reflexivity). rewrite IH; [reflexivity|].
  intros q Hq; apply H; right; assumption.
Qed.

Lemma bindings_of_snoc : forall text d d' start vi x cur,
  d_ns_tree d' = d_ns_tree d ++ [vi] -> d_ns_values d' = d_ns_values d ->
  start <= len_N (d_ns_tree d) ->
  bindings_of text d (start, len_N (d_ns_tree d)) = Some cur ->
  entry text (d_ns_values d) vi = Some x ->
  bindings_of text d' (start, len_N (d_ns_tree d')) = Some (cur ++ [x]).
Proof.
  intros text d d' start vi x cur Ht Hv Hs Hc He.
  rewrite bindings_of_suffix in Hc by assumption.
  rewrite bindings_of_suffix by (rewrite Ht, len_N_app; lia).
  rewrite Ht, Hv, skipn_app.
  replace (N.to_nat start - length (d_ns_tree d))%nat with 0%nat by (unfold len_N in Hs; lia).
  cbn [skipn]. rewrite entries_app, Hc. cbn [entries]. rewrite He. reflexivity.
Qed.

Lemma resolve_ns_loop_spec : forall text start is d d' inh cur,
  ns_ok d -> start <= len_N (d_ns_tree d) ->
  (forall i, In i is -> i < start) ->
  bindings_of_list text d is = Some inh ->
  bindings_of text d (start, len_N (d_ns_tree d)) = Some cur ->
  resolve_ns_loop text start is d = Ok d' ->
  ns_ok d' /\ start <= len_N (d_ns_tree d') /\
  bindings_of text d' (start, len_N (d_ns_tree d')) = Some (copy_loop cur inh).
Proof.
  induction is as [|i r IH]; intros d d' inh cur Hok Hs Hlt Hinh Hcur H;
    cbn [resolve_ns_loop bindings_of_list] in *.
  - inversion H; subst d'. inversion Hinh; subst inh. cbn [copy_loop]. auto.
  - destruct (binding_at text d i) as [x|] eqn:Hx; [|discriminate].
    destruct (bindings_of_list text d r) as [inh'|] eqn:Hr; [|discriminate].
    inversion Hinh; subst inh; clear Hinh. cbn [copy_loop].
    rewrite binding_at_entry in Hx.
    destruct (nth_N (d_ns_tree d) i) as [vi|] eqn:Hi; [|discriminate].
    cbn [bind] in H. rewrite (entry_prefix _ _ _ _ Hx) in H. cbn [bind] in H.
    rewrite (ns_exists_spec text d start (fst x) cur Hs Hcur) in H. cbn [bind] in H.
    assert (Hlt' : forall j, In j r -> j < start) by (intros j Hj; apply Hlt; right; assumption).
    destruct (existsb (fun o => Scope.prefix_eqb (fst o) (fst x)) cur).
    + cbn [bind] in H. eapply IH; eauto.
    + unfold push_ref in H. rewrite Hi in H. cbn [bind] in H.
      match type of H with resolve_ns_loop _ _ _ ?d1 = _ => set (d1' := d1) in * end.
      destruct (tree_append text d d1' vi x Hok) as [Hok1 [Hlen1 [_ Hold]]];
        [reflexivity|cbn; lia|reflexivity|exact Hx|].
      apply (IH d1' d' inh' (cur ++ [x])); auto.
      * lia.
      * rewrite (bindings_of_list_ext text d d1'); [assumption|].
        intros p Hp. apply Hold. apply Hlt' in Hp. lia.
      * apply (bindings_of_snoc text d d1' start vi x cur); auto.
Qed.

Lemma ns_range_checked_ok : forall a e r, ns_range_checked a e = Ok r -> r = (a, e).
Proof.
  unfold ns_range_checked; intros a e r H.
  destruct (u32_max <? e); [discriminate|]. inversion H; reflexivity.
Qed.

(* scopes_refine: the element's range denotes own declarations followed by the inherited, not
   re-declared bindings.
   ADAPTED (see the report): the hypothesis that the parent's bindings have pairwise distinct
   prefixes is necessary; see scopes_refine_needs_unique below. *)
Theorem scopes_refine : forall text c r c' pnd pns own inherited,
  ns_ok (c_doc c) ->
  nth_N (d_nodes (c_doc c)) (c_parent_id c) = Some pnd ->
  (match nd_kind pnd with KElement _ _ _ nss => pns = nss | _ => pns = (0, 0) end) ->
  snd pns <= c_ns_start_idx c -> c_ns_start_idx c <= len_N (d_ns_tree (c_doc c)) ->
  bindings_of text (c_doc c) pns = Some inherited ->
  Scope.prefixes_unique inherited = true ->
  bindings_of text (c_doc c) (c_ns_start_idx c, len_N (d_ns_tree (c_doc c))) = Some own ->
  resolve_namespaces text c = Ok (r, c') ->
  ns_ok (c_doc c') /\ bindings_of text (c_doc c') r = Some (Scope.scope_of own inherited).
Proof.
  intros text c r c' pnd pns own inherited Hok Hp Hk Hpe Hs Hinh Hu Hown H.
  unfold resolve_namespaces in H. rewrite Hp in H. cbn [bind] in H.
  assert (Hroot : pns = (0, 0) ->
    (let! r0 := ns_range_checked (c_ns_start_idx c) (len_N (d_ns_tree (c_doc c))) in Ok (r0, c))
      = Ok (r, c') ->
    ns_ok (c_doc c') /\ bindings_of text (c_doc c') r = Some (Scope.scope_of own inherited)).
  { intros -> H0. inv_bind H0. apply ns_range_checked_ok in Hb. inversion Hk0; subst.
    split; [assumption|]. cbn in Hinh. inversion Hinh; subst.
    unfold Scope.scope_of. cbn [filter]. rewrite app_nil_r. assumption. }
  destruct (nd_kind pnd) as [|ns_idx local attrs nss| | |]; auto.
  subst nss.
  destruct (c_ns_start_idx c =? len_N (d_ns_tree (c_doc c))) eqn:E.
  - (* nothing declared: the parent's range *)
    inversion H; subst. split; [assumption|].
    apply N.eqb_eq in E. rewrite E in Hown.
    unfold bindings_of in Hown; cbn [fst snd] in Hown. rewrite N.sub_diag in Hown.
    cbn in Hown. inversion Hown; subst.
    unfold Scope.scope_of. cbn [app existsb negb].
    rewrite Hinh. f_equal. clear.
    induction inherited as [|x l IH]; cbn [filter negb]; [reflexivity|]. rewrite <- IH; reflexivity.
  - destruct pns as [pa pe]. cbn [fst snd] in *.
    apply bind_ok in H. destruct H as [d1 [Hb H]].
    apply bind_ok in H. destruct H as [r1 [Hsr H]].
    apply ns_range_checked_ok in Hsr. inversion H; subst; clear H.
    cbn [c_doc set_doc].
    unfold bindings_of in Hinh; cbn [fst snd] in Hinh.
    clear Hroot.
    assert (Hlt : forall i, In i (N_range pa (N.to_nat (pe - pa))) -> i < c_ns_start_idx c).
    { intros i Hi. apply In_N_range in Hi. lia. }
    destruct (resolve_ns_loop_spec text _ _ _ _ _ _ Hok Hs Hlt Hinh Hown Hb) as [Hok' [Hs' Hres]].
    split; [assumption|]. rewrite Hres. f_equal.
    rewrite <- (app_nil_r own) at 1.
    rewrite copy_loop_filter; [reflexivity|assumption|intros ? ? []].
Qed.
Print Assumptions scopes_refine.

(* ---- the statement of scopes_refine without the uniqueness hypothesis is false ----
   Parent range = [p -> 1; p -> 2] (the same prefix twice), own declarations = [q -> 3].
   The copying loop tests a parent binding against the whole range of the element, which
   contains the bindings copied so far: the second p is not copied.  scope_of keeps it.
   (Such a parent range is not reachable: duplicate_declaration_rejected and
   scope_prefixes_unique make every range prefix-unique.) *)
Definition cx_doc : document :=
  {| d_nodes := [{| nd_parent := None; nd_prev_sibling := None; nd_next_subtree := None;
                    nd_last_child := None;
                    nd_kind := KElement None empty_slice (0, 0) (0, 2); nd_range := (0, 0) |}];
     d_attrs := [];
     d_ns_values := [{| ns_name := Some (SStatic [112]); ns_uri := Owned [1] |};
                     {| ns_name := Some (SStatic [112]); ns_uri := Owned [2] |};
                     {| ns_name := Some (SStatic [113]); ns_uri := Owned [3] |}];
     d_ns_tree := [0; 1; 2] |}.
Definition cx_ctx : context :=
  {| c_opt := {| allow_dtd := false; nodes_limit := 10 |}; c_ns_start_idx := 2;
     c_cur_attrs := []; c_awaiting := []; c_parent_prefixes := []; c_entities := [];
     c_after_text := []; c_parent_id := 0; c_tag_name := tag_name_null; c_entity_floor := 0;
     c_ld := ld_init; c_doc := cx_doc |}.

Lemma cx_ns_ok : ns_ok cx_doc.
Proof.
  intros p vi H. unfold nth_N in H. destruct (len_N (d_ns_tree cx_doc) <=? p); [discriminate|].
  cbn [cx_doc d_ns_tree d_ns_values] in *.
  destruct (N.to_nat p) as [|[|[|[|n]]]]; cbn in H; inversion H; reflexivity.
Qed.

Theorem scopes_refine_needs_unique :
  ~ (forall text c r c' pnd pns own inherited,
      ns_ok (c_doc c) ->
      nth_N (d_nodes (c_doc c)) (c_parent_id c) = Some pnd ->
      (match nd_kind pnd with KElement _ _ _ nss => pns = nss | _ => pns = (0, 0) end) ->
      snd pns <= c_ns_start_idx c -> c_ns_start_idx c <= len_N (d_ns_tree (c_doc c)) ->
      bindings_of text (c_doc c) pns = Some inherited ->
      bindings_of text (c_doc c) (c_ns_start_idx c, len_N (d_ns_tree (c_doc c))) = Some own ->
      resolve_namespaces text c = Ok (r, c') ->
      ns_ok (c_doc c') /\ bindings_of text (c_doc c') r = Some (Scope.scope_of own inherited)).
Proof.
  intros H.
  let v := eval vm_compute in (resolve_namespaces [] cx_ctx) in
  assert (E : resolve_namespaces [] cx_ctx = v) by (vm_compute; reflexivity).
  apply (H [] cx_ctx _ _ _ (0, 2) [(Some [113], [3])] [(Some [112], [1]); (Some [112], [2])]
           cx_ns_ok eq_refl eq_refl) in E;
    try (vm_compute; first [reflexivity | discriminate]).
  destruct E as [_ E]. vm_compute in E.  discriminate E.
Qed.
Print Assumptions scopes_refine_needs_unique.

(* ---- the statement of unknown_prefix_rejected without the range hypotheses is false ----
   An inverted range (1, 0) denotes no binding at all (bindings_of = Some []), but slicing the
   tree order with it panics (P_slice) instead of returning an error.  Ranges produced by
   resolve_namespaces are never inverted; unknown_prefix_never_ok covers the general case. *)
Theorem unknown_prefix_rejected_needs_range :
  ~ (forall text d nss pos prefix sc,
      bindings_of text d nss = Some sc ->
      slice_bytes text prefix <> [] -> bytes_eqb (slice_bytes text prefix) ns_xml_prefix = false ->
      Scope.lookup sc (Some (slice_bytes text prefix)) = None ->
      exists e, get_ns_idx_by_prefix text nss pos prefix d = Err e).
Proof.
  intros H.
  destruct (H [97] {| d_nodes := []; d_attrs := []; d_ns_values := []; d_ns_tree := [] |}
              (1, 0) 0 {| sl_start := 0; sl_end := 1 |} [] eq_refl) as [e He];
    [vm_compute; discriminate | reflexivity | reflexivity |].
  vm_compute in He. discriminate He.
Qed.
Print Assumptions unknown_prefix_rejected_needs_range.
