(* Proofs/CstSound9Aux.v -- helpers of the soundness chain with witness in stage S9 (Spec/CstFullS9.v): the meaning
   [ents_meaning] of Spec/CstFull.v with the piece conditions of S9 ([wf_uepieces9]: the name of a reference is a Name
   with colons), and ASCII Names. *)
From Coq Require Import List NArith Bool Lia.
Import ListNotations.
From RX Require Import Generated.
From RX.Model Require Import Base CharClass.
From RX.Spec Require Cst Chars CstU CstNs CstEnt.
From RX.Spec Require Import CstFull CstFullS5 CstFullS6 CstFullS7 CstFullS9.
From RX.Proofs Require Import CstLex CstULex.
From RX.Proofs Require CharTablesProofs CstSoundLex CstSoundULex.
Open Scope N_scope.

Section Ents9.
Variable tb : E.table.
Definition wf_eval9 (q : N) (ps : list E.epiece) : bool :=
  wf_uepieces9 q false false false ps &&
  match E.inline_ps tb true false (enc_epieces ps) with
  | None => false
  | Some (Q, tr) => limits_ok tr && E.crlf_split_ok Q
  end.
Definition wf_erun9 (ps : list E.epiece) : bool :=
  match ps with [] => false | _ => true end && wf_uepieces9 60 true true false ps &&
  match E.inline_ps tb false false (enc_epieces ps) with
  | None => false
  | Some (Q, tr) => limits_ok tr && E.crlf_split_ok Q
  end.
Definition ents_meaning9 : meaning epieces := Build_meaning epieces wf_eval9 wf_erun9 (eval_sem tb) (erun_sem tb).
End Ents9.

(* the conditions of Spec/CstFull.v imply those of S9 *)
Lemma wf_name_7 n : CstU.wf_name n = true -> wf_name7 n = true.
Proof.
  destruct n as [|x r]; [intros H; exact H|]. cbn [CstU.wf_name wf_name7]. intros H. apply andb_true_iff in H. destruct H as [H1 H2].
  unfold CstU.is_name_start in H1. apply andb_true_iff in H1. destruct H1 as [H1 _]. rewrite H1. cbn [andb].
  revert H2. apply CstLex.forallb_imp. intros y Hy. unfold CstU.is_name_char in Hy. apply andb_true_iff in Hy. apply Hy.
Qed.

Lemma wf_uepiece_9 q cd ch iv p : wf_uepiece q cd ch iv p = true -> wf_uepiece9 q cd ch iv p = true.
Proof.
  destruct p as [p|n]; [intros H; exact H|]. cbn [wf_uepiece wf_uepiece9]. intros H. apply andb_true_iff in H. destruct H as [H1 H2].
  rewrite (wf_name_7 _ H1), H2. reflexivity.
Qed.

Lemma wf_uepieces_9 q cd ch iv ps : wf_uepieces q cd ch iv ps = true -> wf_uepieces9 q cd ch iv ps = true.
Proof.
  unfold wf_uepieces, wf_uepieces9. intros H. apply andb_true_iff in H. destruct H as [H1 H2]. rewrite H2, andb_true_r.
  revert H1. apply CstLex.forallb_imp. intros p. apply wf_uepiece_9.
Qed.

(* an ASCII Name *)
Lemma name7_ascii x nm : Forall (fun y => y < 128) (x :: nm) -> byte_is_name_start x = true ->
  forallb byte_is_name nm = true -> wf_name7 (x :: nm) = true.
Proof.
  intros Ha Hs Hn. inversion Ha as [|? ? Hx Hr]; subst. cbn [wf_name7].
  destruct (CharTablesProofs.byte_tables_conform x Hx) as (_ & E & _). rewrite <- E, Hs. cbn [andb].
  apply forallb_forall. intros y Hy. rewrite Forall_forall in Hr. rewrite forallb_forall in Hn.
  destruct (CharTablesProofs.byte_tables_conform y (Hr y Hy)) as (_ & _ & E2). rewrite <- E2. apply Hn. exact Hy.
Qed.

(* a Name without ':' is a colon-free name of Spec/CstU.v *)
Lemma name7_nc n : wf_name7 n = true -> mem_b 58 (utf8s n) = false -> CstU.wf_name n = true.
Proof.
  intros H Hm. apply CstSoundLex.mem_b_Forall in Hm. pose proof (CstSoundULex.scalars_ne 58 n ltac:(lia) Hm) as Hne.
  destruct n as [|x r]; [discriminate|]. cbn [wf_name7 CstU.wf_name] in *. apply andb_true_iff in H. destruct H as [H1 H2].
  inversion Hne as [|? ? Hx Hr]; subst. unfold CstU.is_name_start. rewrite H1. cbn [andb].
  replace (negb (x =? 58)) with true by lia. cbn [andb].
  apply forallb_forall. intros y Hy. rewrite forallb_forall in H2. rewrite Forall_forall in Hr. unfold CstU.is_name_char.
  rewrite (H2 y Hy). specialize (Hr y Hy). cbn [andb]. lia.
Qed.
