(* Proofs/RangeBuilder.v -- C13, part 4: the builder keeps the range invariant. *)
From Coq Require Import List Arith NArith Bool Lia ZifyBool ZifyN ZifyNat.
Import ListNotations.
From RX Require Import Generated.
From RX.Model Require Import Base CharClass Stream Tokenizer Doc Builder.
From RX.Proofs Require Import Tactics NoPanicUtf8 NoPanicStream NoPanicTokenizer BorrowLocal
  RangeTokenizer RangeArena RangeInv.
Open Scope N_scope.

Section Builder.
Variable text : bytes.
Notation Bd := (Boundary text).
Notation VR := (valid_range text).

Definition ent_ok (e : entity) : Prop := valid_slice text (en_value e).

(* everything except the typestate of the start tag *)
Definition RCore (L : level) (p bound : N) (c : context) : Prop :=
  NodesValid text (d_nodes (c_doc c)) /\ AttrsValid text (d_attrs (c_doc c)) /\
  ElemAttrs (d_nodes (c_doc c)) (d_attrs (c_doc c)) /\
  Frame L (d_nodes (c_doc c)) /\ LevelWf text L /\
  Forall ent_ok (c_entities c) /\ (contains_b dtd_kw text = false -> c_entities c = []) /\
  (lv_top L = false -> c_entities c <> []) /\ c_entity_floor c = lv_floor L /\
  exists opens, PathOk L (c_entities c = []) p bound (d_nodes (c_doc c)) (c_parent_id c)
                       (len_N (c_parent_prefixes c)) opens.

Definition TagOk (b : bool) (p : N) (c : context) : Prop :=
  if b then Bd (tn_pos (c_tag_name c)) /\ tn_pos (c_tag_name c) < p /\
            Forall (tattr_ok text (tn_pos (c_tag_name c)) p) (c_cur_attrs c)
  else c_cur_attrs c = [].

Definition RInv (L : level) (b : bool) (p : N) (c : context) : Prop :=
  RCore L p (if b then tn_pos (c_tag_name c) else p) c /\ TagOk b p c.

(* ---- RCore only looks at some components ---- *)
Definition same_comps (c c' : context) : Prop :=
  d_attrs (c_doc c') = d_attrs (c_doc c) /\ c_entities c' = c_entities c /\
  c_entity_floor c' = c_entity_floor c /\ c_parent_id c' = c_parent_id c /\
  len_N (c_parent_prefixes c') = len_N (c_parent_prefixes c).

Lemma RCore_same L p bound c c' :
  RCore L p bound c -> d_nodes (c_doc c') = d_nodes (c_doc c) -> same_comps c c' ->
  RCore L p bound c'.
Proof.
  unfold RCore. intros H E1 (E2 & E3 & E4 & E5 & E6). rewrite E1, E2, E3, E4, E5, E6. exact H.
Qed.

Lemma RCore_mono L p p' bound bound' c :
  p <= p' -> bound <= bound' -> RCore L p bound c -> RCore L p' bound' c.
Proof.
  intros Hp Hb (H1 & H2 & H3 & H4 & H5 & H6 & H7 & H8 & H9 & opens & HP).
  repeat (split; [assumption|]). exists opens. eapply PathOk_mono; eauto.
Qed.

Lemma RCore_core L p bound c c' :
  RCore L p bound c -> core_pw (d_nodes (c_doc c)) (d_nodes (c_doc c')) -> same_comps c c' ->
  RCore L p bound c'.
Proof.
  unfold RCore. intros (H1 & H2 & H3 & H4 & H5 & H6 & H7 & H8 & H9 & opens & HP) Hpw
    (E2 & E3 & E4 & E5 & E6). rewrite E2, E3, E4, E5, E6.
  split; [eapply NodesValid_core; eauto|]. split; [assumption|].
  split; [eapply ElemAttrs_core; eauto|]. split; [eapply Frame_core; eauto|].
  repeat (split; [assumption|]). exists opens. eapply PathOk_core; eauto.
Qed.

Lemma RCore_cur_lt L p bound c : RCore L p bound c -> c_parent_id c < len_N (d_nodes (c_doc c)).
Proof.
  intros (_ & _ & _ & HF & [[nd0 Hb] _] & _ & _ & _ & _ & opens & (_ & Hl & Ho & _)).
  destruct opens as [|x rr]; cbn [linked] in Hl.
  - rewrite Hl. destruct (HF _ _ Hb) as [nd [Hnd _]]. eapply nth_N_lt; eauto.
  - destruct Hl as [-> _]. inversion Ho; subst. eapply OpenOk_lt; eauto.
Qed.

(* appending a node (not opened) *)
Lemma RCore_app L p bound c c' kind r :
  RCore L p bound c ->
  AppSpec (d_nodes (c_doc c)) (c_parent_id c) kind r (d_nodes (c_doc c')) -> same_comps c c' ->
  VR r -> p <= snd r -> (c_entities c = [] -> bound <= fst r) ->
  (forall ns local ar nss, kind = KElement ns local ar nss ->
     AttrsIn (d_attrs (c_doc c)) ar (fst r) (snd r)) ->
  RCore L (snd r) (snd r) c'.
Proof.
  unfold RCore. intros (H1 & H2 & H3 & H4 & H5 & H6 & H7 & H8 & H9 & opens & HP) HA
    (E2 & E3 & E4 & E5 & E6) Hr Hp Hb Hel. rewrite E2, E3, E4, E5, E6.
  split; [eapply NodesValid_app; eauto|]. split; [assumption|].
  split; [eapply ElemAttrs_app; eauto|]. split; [eapply Frame_app; eauto|].
  repeat (split; [assumption|]). exists opens. eapply PathOk_app; eauto. apply Hr.
Qed.

(* appending an element and making it the innermost open one *)
Lemma RCore_open L p bound c c' kind r :
  RCore L p bound c ->
  AppSpec (d_nodes (c_doc c)) (c_parent_id c) kind r (d_nodes (c_doc c')) ->
  d_attrs (c_doc c') = d_attrs (c_doc c) -> c_entities c' = c_entities c ->
  c_entity_floor c' = c_entity_floor c -> c_parent_id c' = len_N (d_nodes (c_doc c)) ->
  len_N (c_parent_prefixes c') = len_N (c_parent_prefixes c) + 1 ->
  VR r -> p <= snd r -> (c_entities c = [] -> bound <= fst r) ->
  (forall ns local ar nss, kind = KElement ns local ar nss ->
     AttrsIn (d_attrs (c_doc c)) ar (fst r) (snd r)) ->
  RCore L (snd r) (snd r) c'.
Proof.
  intros HC HA E2 E3 E4 E5 E6 Hr Hp Hb Hel.
  pose proof (RCore_cur_lt _ _ _ _ HC) as Hcur.
  destruct HC as (H1 & H2 & H3 & H4 & H5 & H6 & H7 & H8 & H9 & opens & HP).
  unfold RCore. rewrite E2, E3, E4, E5, E6.
  split; [eapply NodesValid_app; eauto|]. split; [assumption|].
  split; [eapply ElemAttrs_app; eauto|]. split; [eapply Frame_app; eauto|].
  repeat (split; [assumption|]). exists (len_N (d_nodes (c_doc c)) :: opens).
  assert (HP' : PathOk L (c_entities c = []) (snd r) (snd r) (d_nodes (c_doc c'))
                       (c_parent_id c) (len_N (c_parent_prefixes c)) opens).
  { eapply PathOk_app; eauto. apply Hr. }
  pose proof HA as (HL & HF & pnd0 & ndn & Hp0 & Hn & N1 & N2 & N3 & N4 & N5).
  eapply PathOk_open; eauto.
  - rewrite N4. lia.
  - destruct (HF _ _ Hp0) as [pnd' [Hpn' (_ & _ & _ & _ & El)]]. exists pnd'.
    rewrite N.eqb_refl in El. auto.
  - apply Frame_len. exact H4.
  - destruct HP as (_ & _ & Ho & _). eapply Forall_impl; [|exact Ho]. intros x. apply OpenOk_lt.
  - lia.
Qed.

(* closing the innermost open element of this level *)
Lemma RCore_close L p c c' e pnd id :
  RCore L p p c -> c_entity_floor c < len_N (c_parent_prefixes c) ->
  nth_N (d_nodes (c_doc c)) (c_parent_id c) = Some pnd -> nd_parent pnd = Some id ->
  CloseSpec (d_nodes (c_doc c)) (c_parent_id c) e (d_nodes (c_doc c')) ->
  d_attrs (c_doc c') = d_attrs (c_doc c) -> c_entities c' = c_entities c ->
  c_entity_floor c' = c_entity_floor c -> c_parent_id c' = id ->
  len_N (c_parent_prefixes c') + 1 = len_N (c_parent_prefixes c) ->
  p <= e -> Bd e ->
  RCore L e e c'.
Proof.
  intros (H1 & H2 & H3 & H4 & H5 & H6 & H7 & H8 & H9 & opens & HP) Hfl Hpn Hpar HC
    E2 E3 E4 E5 E6 Hpe He.
  destruct opens as [|x rr].
  - exfalso. destruct HP as (Hc & Hl & _). cbn [length linked] in *.
    destruct H5 as [_ Htop]. destruct (lv_top L); [|lia].
    destruct (Htop eq_refl) as [Hb0 (nd0 & Hn0 & Hp0 & _)].
    destruct (H4 _ _ Hn0) as [nd [Hnd [Ep _]]]. rewrite Hl, Hb0 in Hpn.
    assert (nd = pnd) by congruence. subst nd. congruence.
  - assert (Hx : c_parent_id c = x) by (destruct HP as (_ & [Hx _] & _); exact Hx).
    rewrite Hx in *.
    destruct (PathOk_close _ _ _ _ _ _ _ _ _ HC HP Hpe) as (ndx & y & Hnx & Hpy & Hn0 & Hsx & HP').
    assert (ndx = pnd) by congruence. subst ndx. assert (y = id) by congruence. subst y.
    pose proof (H1 _ _ Hpn) as (V1 & _).
    unfold RCore. rewrite E2, E3, E4, E5.
    split; [eapply NodesValid_close; eauto; intros nd Hnd; assert (nd = pnd) by congruence; subst; lia|].
    split; [assumption|].
    split; [eapply ElemAttrs_close; eauto; intros nd Hnd; assert (nd = pnd) by congruence; subst; lia|].
    split; [eapply Frame_close; eauto|].
    repeat (split; [assumption|]). exists rr.
    replace (len_N (c_parent_prefixes c')) with (len_N (c_parent_prefixes c) - 1) by lia.
    exact HP'.
Qed.

Lemma AttrsValid_app attrs new :
  AttrsValid text attrs -> Forall (attr_ok text) new -> AttrsValid text (attrs ++ new).
Proof.
  intros H Hn i a Hi. destruct (N.ltb_spec i (len_N attrs)).
  - rewrite nth_N_app_l in Hi by assumption. eauto.
  - rewrite nth_N_app_r in Hi by assumption. apply nth_N_In in Hi.
    rewrite Forall_forall in Hn. auto.
Qed.

Lemma RCore_attrs L p bound c c' new :
  RCore L p bound c -> d_nodes (c_doc c') = d_nodes (c_doc c) ->
  d_attrs (c_doc c') = d_attrs (c_doc c) ++ new -> Forall (attr_ok text) new ->
  c_entities c' = c_entities c -> c_entity_floor c' = c_entity_floor c ->
  c_parent_id c' = c_parent_id c -> len_N (c_parent_prefixes c') = len_N (c_parent_prefixes c) ->
  RCore L p bound c'.
Proof.
  unfold RCore. intros (H1 & H2 & H3 & H4 & H5 & H6 & H7 & H8 & H9 & HP) E1 E2 Hn E3 E4 E5 E6.
  rewrite E1, E2, E3, E4, E5, E6.
  split; [assumption|]. split; [apply AttrsValid_app; assumption|].
  split; [apply ElemAttrs_attrs; assumption|]. repeat (split; [assumption|]). exact HP.
Qed.

Lemma RCore_entities L p p' bound bound' c c' e :
  RCore L p bound c -> contains_b dtd_kw text = true -> ent_ok e ->
  d_nodes (c_doc c') = d_nodes (c_doc c) -> d_attrs (c_doc c') = d_attrs (c_doc c) ->
  c_entities c' = c_entities c ++ [e] -> c_entity_floor c' = c_entity_floor c ->
  c_parent_id c' = c_parent_id c -> len_N (c_parent_prefixes c') = len_N (c_parent_prefixes c) ->
  p <= p' -> bound <= bound' ->
  RCore L p' bound' c'.
Proof.
  unfold RCore. intros (H1 & H2 & H3 & H4 & H5 & H6 & H7 & H8 & H9 & opens & HP) Hd He
    E1 E2 E3 E4 E5 E6 Hp Hb.
  rewrite E1, E2, E3, E4, E5, E6. repeat (split; [assumption|]).
  split; [apply Forall_app; split; [assumption|constructor; [assumption|constructor]]|].
  split; [intros Hc; congruence|].
  split; [intros _ Hc; apply app_eq_nil in Hc; destruct Hc; discriminate|].
  split; [assumption|]. exists opens.
  eapply PathOk_weaken; [|eapply PathOk_mono; eauto].
  intros Hc. apply app_eq_nil in Hc. destruct Hc; discriminate.
Qed.

(* ------------------------------------------------------------------ *)
(* the functions of the builder                                         *)

Ltac cproj :=
  cbn [c_opt c_ns_start_idx c_cur_attrs c_awaiting c_parent_prefixes c_entities c_after_text
       c_parent_id c_tag_name c_entity_floor c_ld c_doc
       set_doc set_ns_start_idx set_cur_attrs set_awaiting set_parent_prefixes set_entities
       set_after_text set_parent_id set_tag_name set_entity_floor set_ld
       d_nodes d_attrs d_ns_values d_ns_tree set_nodes set_attrs fst snd] in *.

Ltac comps := unfold same_comps; cproj; repeat split; try reflexivity; try assumption.

Lemma reset_after_text_R L b p c : RInv L b p c -> okP (reset_after_text text c) (RInv L b p).
Proof.
  intros [HC HT]. unfold reset_after_text.
  destruct (c_after_text c) as [|x [|y l]].
  - apply okP_ret. split; assumption.
  - apply okP_ret. split; [|exact HT]. eapply RCore_same; [exact HC|reflexivity|comps].
  - eapply okP_bind; [apply merge_text_nodes|]. intros c1 (nodes' & -> & Hpw).
    apply okP_ret. split; [|exact HT].
    eapply RCore_core; [exact HC|cproj; exact Hpw|comps].
Qed.

Lemma append_node_okP kind r c : c_parent_id c < len_N (d_nodes (c_doc c)) ->
  okP (append_node kind r c)
      (fun x => exists nodes', fst x = len_N (d_nodes (c_doc c)) /\
         snd x = set_awaiting (set_doc c (set_nodes (c_doc c) nodes'))
                              (if is_element_kind kind then [] else [fst x]) /\
         AppSpec (d_nodes (c_doc c)) (c_parent_id c) kind r nodes').
Proof.
  intros Hlt [id c'] H. destruct (append_node_spec _ _ _ _ _ Hlt H) as (nodes' & -> & -> & HA).
  exists nodes'. auto.
Qed.

(* a node that is not opened: comment, PI, text, empty element *)
Lemma append_node_R L p bound c kind r :
  RCore L p bound c -> VR r -> p <= snd r -> (c_entities c = [] -> bound <= fst r) ->
  (forall ns local ar nss, kind = KElement ns local ar nss ->
     AttrsIn (d_attrs (c_doc c)) ar (fst r) (snd r)) ->
  okP (append_node kind r c)
      (fun x => RCore L (snd r) (snd r) (snd x) /\ c_cur_attrs (snd x) = c_cur_attrs c /\
                c_entities (snd x) = c_entities c).
Proof.
  intros HC Hr Hp Hb Hel.
  eapply okP_weaken; [apply append_node_okP; eapply RCore_cur_lt; eauto|].
  intros [id c'] (nodes' & Eid & Ec & HA). cproj. subst c'. cproj.
  split; [|split; reflexivity].
  eapply (RCore_app L p bound c _ kind r HC); [cproj; exact HA|comps|exact Hr|exact Hp|exact Hb|exact Hel].
Qed.

Lemma append_text_R L q c t r :
  RInv L false q c -> VR r -> q <= snd r -> (c_entities c = [] -> q <= fst r) ->
  okP (append_text t r c) (fun c' => RInv L false (snd r) c' /\ c_entities c' = c_entities c).
Proof.
  intros [HC HT] Hr Hq Hb. unfold append_text. cbn [TagOk] in *.
  destruct (c_after_text c) as [|x l] eqn:Ea.
  - eapply okP_bind.
    { eapply okP_bind; [eapply (append_node_R L q q c _ r); eauto; intros; discriminate|].
      intros [id c1] (H1 & H2 & H3). cproj. apply okP_ret.
      instantiate (1 := fun c1 => RCore L (snd r) (snd r) c1 /\ c_cur_attrs c1 = [] /\
                                  c_entities c1 = c_entities c). cbv beta.
      split; [exact H1|split; congruence]. }
    intros c1 (H1 & H2 & H3). apply okP_ret. split; [|cproj; exact H3]. split; [|exact H2].
    eapply RCore_same; [exact H1|reflexivity|comps].
  - cbn [bind]. apply okP_ret. split; [|reflexivity]. split; [|exact HT].
    eapply RCore_same; [eapply RCore_mono; [| |exact HC]; lia|reflexivity|comps].
Qed.

Lemma process_cdata_R L q c t r :
  RInv L false q c -> VR r -> q <= snd r -> (c_entities c = [] -> q <= fst r) ->
  okP (process_cdata text t r c) (RInv L false (snd r)).
Proof.
  intros. unfold process_cdata. cbv zeta.
  destruct (mem_b 13 _); (eapply okP_weaken; [apply (append_text_R L q); assumption|]);
    cbv beta; intros c' [H' _]; exact H'.
Qed.

(* ---- steps that do not touch nodes, attributes or the bookkeeping we look at ---- *)
Definition same_all (c c' : context) : Prop :=
  d_nodes (c_doc c') = d_nodes (c_doc c) /\ same_comps c c' /\
  c_cur_attrs c' = c_cur_attrs c /\ c_tag_name c' = c_tag_name c /\
  c_parent_prefixes c' = c_parent_prefixes c.

Lemma same_all_refl c : same_all c c.
Proof. unfold same_all, same_comps. auto 10. Qed.

Lemma RInv_same_all L b p c c' : RInv L b p c -> same_all c c' -> RInv L b p c'.
Proof.
  intros [HC HT] (E1 & E2 & E3 & E4 & E5). unfold RInv, TagOk in *. rewrite E3, E4.
  split; [|exact HT]. eapply RCore_same; eauto.
Qed.

Lemma push_ns_same name uri d :
  okP (push_ns text name uri d) (fun d' => d_nodes d' = d_nodes d /\ d_attrs d' = d_attrs d).
Proof. unfold push_ns. repeat ok_step fail; cbn; auto. Qed.

Lemma push_ref_same i d :
  okP (push_ref i d) (fun d' => d_nodes d' = d_nodes d /\ d_attrs d' = d_attrs d).
Proof. unfold push_ref. repeat ok_step fail; cbn; auto. Qed.

Lemma resolve_ns_loop_same start : forall is d,
  okP (resolve_ns_loop text start is d) (fun d' => d_nodes d' = d_nodes d /\ d_attrs d' = d_attrs d).
Proof.
  induction is as [|i is IH]; intros d; cbn [resolve_ns_loop]; [apply okP_ret; auto|].
  repeat ok_step ltac:(first [apply push_ref_same]).
  all: eapply okP_weaken; [apply IH|]; cbv beta; intros d2 [F1 F2]; split; congruence.
Qed.

Lemma resolve_namespaces_same c :
  okP (resolve_namespaces text c) (fun x => same_all c (snd x)).
Proof.
  unfold resolve_namespaces.
  repeat ok_step ltac:(first [apply resolve_ns_loop_same]); cproj;
    try apply same_all_refl.
  all: unfold same_all, same_comps; cproj; intuition auto.
Qed.

Lemma normalize_attribute_same value c :
  okP (normalize_attribute text value c) (fun x => same_all c (snd x)).
Proof.
  unfold normalize_attribute. repeat ok_step fail; cproj; try apply same_all_refl.
  unfold same_all, same_comps; cproj; intuition auto.
Qed.

(* ---- attributes ---- *)
Lemma process_attribute_R L p0 p1 c r ql el prefix local value :
  RInv L true p0 c -> TokAt text p0 p1 (TAttribute r ql el prefix local value) ->
  okP (process_attribute text r ql el prefix local value c) (RInv L true p1).
Proof.
  intros HI (T1 & T2 & T3 & T4 & T5 & T6). unfold process_attribute.
  eapply okP_bind; [apply normalize_attribute_same|]. intros [v c1] HS. cproj.
  pose proof (RInv_same_all _ _ _ _ _ HI HS) as [HC HT]. clear HI HS.
  cbn [TagOk] in HT. destruct HT as (B1 & B2 & B3).
  assert (Hmono : RInv L true p1 c1).
  { split; [eapply RCore_mono; [| |exact HC]; lia|]. cbn [TagOk]. split; [exact B1|]. split; [lia|].
    eapply Forall_impl; [|exact B3]. intros a Ha. unfold tattr_ok in *. intuition lia. }
  assert (Hdoc : forall d', d_nodes d' = d_nodes (c_doc c1) /\ d_attrs d' = d_attrs (c_doc c1) ->
                 RInv L true p1 (set_doc c1 d')).
  { intros d' [E1 E2]. eapply RInv_same_all; [exact Hmono|].
    unfold same_all, same_comps; cproj; auto 10. }
  repeat ok_step ltac:(first [apply push_ns_same]); auto.
  (* an ordinary attribute: it joins the pending ones *)
  destruct Hmono as [HC1 (C1 & C2 & C3)]. split.
  - eapply RCore_same; [exact HC1|reflexivity|comps].
  - cbn [TagOk]. cproj. split; [exact C1|]. split; [exact C2|].
    apply Forall_app. split; [exact C3|]. constructor; [|constructor].
    unfold tattr_ok. cbn [ta_range ta_qname_len].
    split; [destruct r; apply VR_intro; cbn [fst snd] in *; [lia|assumption|assumption]|].
    repeat split; try assumption; lia.
Qed.

Lemma Forall2_nth_r {A B} (R : A -> B -> Prop) : forall l l', Forall2 R l l' ->
  forall y, In y l' -> exists x, In x l /\ R x y.
Proof.
  induction 1; intros z Hz; [destruct Hz|]. destruct Hz as [<-|Hz].
  - exists x. split; [left; reflexivity|assumption].
  - destruct (IHForall2 z Hz) as [x' [H1 H2]]. exists x'. split; [right; assumption|assumption].
Qed.

Lemma resolve_attrs_loop_spec nss start : forall l d,
  okP (resolve_attrs_loop text nss start l d)
      (fun d' => d_nodes d' = d_nodes d /\
                 exists new, d_attrs d' = d_attrs d ++ new /\
                   Forall2 (fun ta ad => ad_range ad = ta_range ta /\
                                         ad_qname_len ad = ta_qname_len ta) l new).
Proof.
  induction l as [|a l IH]; intros d; cbn [resolve_attrs_loop].
  - apply okP_ret. split; [reflexivity|]. exists []. rewrite app_nil_r. split; [reflexivity|constructor].
  - cbv zeta. repeat ok_step fail.
    all: eapply okP_weaken; [apply IH|]; cbv beta; intros d' [E1 (new & E2 & HF)]; cproj;
      (split; [exact E1|]); eexists (_ :: new); split;
      [rewrite E2, <- app_assoc; reflexivity|constructor; [split; reflexivity|exact HF]].
Qed.

Lemma resolve_attributes_nil nss c : c_cur_attrs c = [] ->
  resolve_attributes text nss c = Ok ((0, 0), c).
Proof. intros H. unfold resolve_attributes. rewrite H. reflexivity. Qed.

(* in a start tag: the pending attributes become the attributes [ar] of the element *)
Lemma resolve_attributes_R L p bound c nss :
  RCore L p bound c -> TagOk true p c ->
  okP (resolve_attributes text nss c)
      (fun x => RCore L p bound (snd x) /\ c_cur_attrs (snd x) = [] /\
                c_tag_name (snd x) = c_tag_name c /\
                c_parent_prefixes (snd x) = c_parent_prefixes c /\
                forall hi, p < hi -> AttrsIn (d_attrs (c_doc (snd x))) (fst x)
                                            (tn_pos (c_tag_name c)) hi).
Proof.
  intros HC (B1 & B2 & B3). unfold resolve_attributes.
  destruct (c_cur_attrs c) as [|a0 l0] eqn:Ecur.
  - apply okP_ret. cproj. split; [exact HC|]. repeat split; auto.
    + cbn. lia.
    + cbn [fst snd] in *. lia.
    + cbn [fst snd] in *. lia.
  - set (l := a0 :: l0) in *. cbv zeta.
    destruct (u32_max <=? _); [apply okP_err|].
    eapply okP_bind; [apply resolve_attrs_loop_spec|]. intros d' [E1 (new & E2 & HF)].
    unfold short_range. destruct (_ || _); [apply okP_panic|]. cbn [bind]. apply okP_ret. cproj.
    assert (Hnew : forall ad, In ad new -> attr_ok text ad /\
                     tn_pos (c_tag_name c) < fst (ad_range ad) /\ snd (ad_range ad) <= p).
    { intros ad Hin. destruct (Forall2_nth_r _ _ _ HF ad Hin) as [ta [Hta [R1 R2]]].
      rewrite Forall_forall in B3. destruct (B3 ta Hta) as (A1 & A2 & A3 & A4 & A5).
      unfold attr_ok. rewrite R1, R2. auto 8. }
    split; [|split; [reflexivity|split; [reflexivity|split; [reflexivity|]]]].
    + eapply RCore_attrs; [exact HC| | | | | | |]; cproj; try reflexivity; try eassumption.
      apply Forall_forall. intros ad Hin. apply Hnew; assumption.
    + intros hi Hhi. split; [cbn [snd]; lia|]. intros i ad Hi1 Hi2 Hnth. cbn [fst snd] in *.
      rewrite E2 in Hnth. rewrite nth_N_app_r in Hnth by assumption. apply nth_N_In in Hnth.
      destruct (Hnew ad Hnth) as (_ & G1 & G2). split; [exact G1|lia].
Qed.

(* ---- process_element ---- *)
Lemma same_all_RCore L p bound c c' : RCore L p bound c -> same_all c c' -> RCore L p bound c'.
Proof. intros H (E1 & E2 & _). eapply RCore_same; eauto. Qed.

Lemma same_all_trans a b c : same_all a b -> same_all b c -> same_all a c.
Proof.
  unfold same_all, same_comps. intros (A1 & (A2 & A3 & A4 & A5 & A6) & A7 & A8 & A9)
    (B1 & (B2 & B3 & B4 & B5 & B6) & B7 & B8 & B9). repeat split; congruence.
Qed.

(* the end of a start tag: a new element, empty or open *)
Lemma process_element_start_R L p0 p1 c e r :
  RInv L true p0 c -> TokAt text p0 p1 (TElementEnd e r) ->
  match e with EClose _ _ => False | _ => True end ->
  okP (process_element text e r c) (RInv L false p1).
Proof.
  intros [HC HT] (T1 & T2 & T3 & T4 & T5) He. subst p1. unfold process_element.
  destruct (slice_len (tn_name (c_tag_name c)) =? 0).
  { destruct e; [apply okP_panic|destruct He|apply okP_panic]. }
  eapply okP_bind; [apply resolve_namespaces_same|]. intros [nss c1] HS1. cproj.
  set (c2 := set_ns_start_idx c1 (len_N (d_ns_tree (c_doc c1)))).
  assert (HS2 : same_all c c2).
  { eapply same_all_trans; [exact HS1|]. unfold same_all, same_comps, c2. cproj. auto 10. }
  assert (HC2 : RCore L p0 (tn_pos (c_tag_name c)) c2) by (eapply same_all_RCore; eauto).
  assert (HT2 : TagOk true p0 c2).
  { destruct HS2 as (_ & _ & E3 & E4 & _). unfold TagOk in *. rewrite E3, E4. exact HT. }
  assert (Etn : c_tag_name c2 = c_tag_name c) by apply HS2.
  eapply okP_bind; [apply (resolve_attributes_R L p0 _ c2 nss HC2 HT2)|].
  intros [ar c3] (HC3 & Ecur & Etn3 & Epp & HA). cproj. rewrite Etn in *.
  destruct HT as (B1 & B2 & _).
  set (tn := c_tag_name c3) in *. rewrite Etn3 in *.
  assert (Hr : VR (tn_pos (c_tag_name c), snd r)).
  { apply VR_intro; [lia|exact B1|exact T5]. }
  assert (Hel : forall ns local ar' nss', KElement ns local ar' nss' = KElement ns local ar' nss' -> True) by auto.
  destruct e; [|destruct He|].
  - (* open *)
    ok_step fail.
    eapply okP_bind; [apply append_node_okP; eapply RCore_cur_lt; eauto|].
    intros [id c4] (nodes' & Eid & Ec & HApp). cproj. subst c4 id. apply okP_ret. split.
    + eapply (RCore_open L p0 _ c3 _ _ (tn_pos (c_tag_name c), snd r) HC3); cproj;
        try reflexivity; try assumption.
      * exact HApp.
      * apply len_N_snoc.
      * lia.
      * intros ns local ar' nss' Hk. injection Hk as _ _ Ear _. subst ar'. apply HA. lia.
    + cbn [TagOk]. cproj. exact Ecur.
  - (* empty *)
    ok_step fail.
    eapply okP_bind.
    { eapply (append_node_R L p0 _ c3 _ (tn_pos (c_tag_name c), snd r) HC3); cproj;
        try assumption; try lia.
      intros ns local ar' nss' Hk. injection Hk as _ _ Ear _. subst ar'. apply HA. lia. }
    intros [id c4] (H4 & Ecur4 & _). cproj. apply okP_ret. split.
    + eapply RCore_same; [exact H4|reflexivity|comps].
    + cbn [TagOk]. cproj. congruence.
Qed.

(* an end tag *)
Lemma process_element_close_R L p0 p1 c pr lo r :
  RInv L false p0 c -> TokAt text p0 p1 (TElementEnd (EClose pr lo) r) ->
  okP (process_element text (EClose pr lo) r c) (RInv L false p1).
Proof.
  intros [HC HT] (T1 & T2 & T3 & T4 & T5). subst p1. cbn [TagOk] in HT. unfold process_element.
  destruct (slice_len (tn_name (c_tag_name c)) =? 0); [apply okP_err_from|].
  eapply okP_bind; [apply resolve_namespaces_same|]. intros [nss c1] HS1. cproj.
  set (c2 := set_ns_start_idx c1 (len_N (d_ns_tree (c_doc c1)))).
  assert (HS2 : same_all c c2).
  { eapply same_all_trans; [exact HS1|]. unfold same_all, same_comps, c2. cproj. auto 10. }
  assert (HC2 : RCore L p0 p0 c2) by (eapply same_all_RCore; eauto).
  assert (Ecur : c_cur_attrs c2 = []) by (destruct HS2 as (_ & _ & E3 & _); congruence).
  rewrite (resolve_attributes_nil nss c2 Ecur). cbn [bind]. cbv zeta.
  destruct (len_N (c_parent_prefixes c2) <=? c_entity_floor c2) eqn:Efl; [apply okP_err_from|].
  destruct (nth_N (d_nodes (c_doc c2)) (c_parent_id c2)) as [pnd|] eqn:Epn; [|apply okP_panic].
  cbn [bind].
  destruct (rev (c_parent_prefixes c2)) as [|pp0 ppr] eqn:Erev; [apply okP_panic|]. cbn [bind].
  eapply okP_bind_eq. intros nodes' Hupd. apply upd_range_end_spec in Hupd.
  apply okP_bind_any. intros _.
  destruct (nd_parent pnd) as [id|] eqn:Epar; [|apply okP_err_from].
  destruct (removelast _) as [|q0 qr] eqn:Erl; [apply okP_panic|]. apply okP_ret.
  assert (Hne : c_parent_prefixes c2 <> []).
  { intros Hn. rewrite Hn in Erev. discriminate. }
  pose proof (len_N_removelast _ Hne) as Hlen.
  split; [|cbn [TagOk]; cproj; exact Ecur].
  eapply (RCore_close L p0 c2 _ (snd r) pnd id HC2); cproj; try reflexivity; try eassumption.
  - lia.
  - rewrite <- Erl. exact Hlen.
  - lia.
Qed.

Lemma RInv_mono L p p' c : p <= p' -> RInv L false p c -> RInv L false p' c.
Proof. intros Hp [HC HT]. split; [eapply RCore_mono; eauto|exact HT]. Qed.

(* ---- entering and leaving the expansion of an entity ---- *)
Definition level_of (c : context) : level :=
  {| lv_nodes0 := d_nodes (c_doc c); lv_base := c_parent_id c;
     lv_floor := len_N (c_parent_prefixes c); lv_top := false |}.

Lemma frame_rel_refl nodes : frame_rel nodes nodes.
Proof. intros i nd H. eauto. Qed.

Lemma level_enter L p q c c' :
  RInv L false p c -> c_entities c <> [] ->
  c_doc c' = c_doc c -> c_entities c' = c_entities c -> c_parent_id c' = c_parent_id c ->
  c_parent_prefixes c' = c_parent_prefixes c -> c_cur_attrs c' = c_cur_attrs c ->
  c_entity_floor c' = len_N (c_parent_prefixes c) ->
  RInv (level_of c) false q c'.
Proof.
  intros [HC HT] Hne E1 E2 E3 E4 E5 E6. pose proof (RCore_cur_lt _ _ _ _ HC) as Hcur.
  destruct HC as (H1 & H2 & H3 & H4 & H5 & H6 & H7 & H8 & H9 & _).
  split; [|cbn [TagOk] in *; congruence].
  unfold RCore. rewrite E1, E2, E3, E4, E6.
  repeat (split; [assumption|]).
  split; [intros i nd0 Hi; cbn [level_of lv_nodes0] in Hi; eauto|].
  split.
  { split; [|cbn; discriminate]. cbn [level_of lv_nodes0 lv_base]. apply nth_N_some. exact Hcur. }
  repeat (split; [assumption|]).
  split; [intros _; exact Hne|]. split; [reflexivity|].
  exists []. split; [cbn; lia|]. split; [reflexivity|]. split; [constructor|].
  intros He. contradiction.
Qed.

Lemma level_exit L p q c c2 c3 :
  RInv L false p c -> c_entities c <> [] ->
  RInv (level_of c) false q c2 -> len_N (c_parent_prefixes c2) = c_entity_floor c2 ->
  c_doc c3 = c_doc c2 -> c_entities c3 = c_entities c2 -> c_parent_id c3 = c_parent_id c2 ->
  c_parent_prefixes c3 = c_parent_prefixes c2 -> c_cur_attrs c3 = c_cur_attrs c2 ->
  c_entity_floor c3 = c_entity_floor c ->
  RInv L false p c3 /\ c_entities c3 <> [].
Proof.
  intros [HC HT] Hne [HC2 HT2] Hlen E1 E2 E3 E4 E5 E6.
  destruct HC as (H1 & H2 & H3 & H4 & H5 & H6 & H7 & H8 & H9 & opens & HP).
  destruct HC2 as (G1 & G2 & G3 & G4 & G5 & G6 & G7 & G8 & G9 & opens2 & HP2).
  cbn [level_of lv_top lv_floor lv_base lv_nodes0] in *.
  specialize (G8 eq_refl).
  assert (Hfr : frame_rel (d_nodes (c_doc c)) (d_nodes (c_doc c2))) by exact G4.
  destruct HP2 as (Hc2 & Hl2 & _). cbn [lv_top lv_floor level_of] in Hc2.
  assert (opens2 = []) by (destruct opens2; [reflexivity|cbn [length] in Hc2; lia]). subst opens2.
  cbn [linked level_of lv_base] in Hl2.
  split; [|congruence]. split; [|cbn [TagOk] in *; congruence].
  unfold RCore. rewrite E1, E2, E3, E4, E6.
  repeat (split; [assumption|]).
  split; [eapply Frame_trans; eauto|].
  repeat (split; [assumption|]).
  split; [intros _; exact G8|]. split; [assumption|].
  exists opens. rewrite Hl2. replace (len_N (c_parent_prefixes c2)) with (len_N (c_parent_prefixes c)) by lia.
  eapply PathOk_frame; [exact G8|exact Hfr|exact HP].
Qed.

End Builder.
