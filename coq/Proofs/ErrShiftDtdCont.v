(* Proofs/ErrShiftDtdCont.v -- C14 (whitespace inserted after the DOCTYPE), part 2: the rest of
   parse_document from a head of the loop of the SECOND parse_misc (the one that runs after
   parse_doctype): [cont2]; its frame property and its shift, as for [cont] in ErrShiftMidCont.v. *)
From Coq Require Import Ascii String.
From Coq Require Import List Arith NArith Bool Lia ZifyBool ZifyN ZifyNat.
Import ListNotations.
From RX Require Import Generated.
From RX.Model Require Import Base CharClass Stream Tokenizer Doc Builder Parse.
From RX.Proofs Require Import Tactics NoPanicUtf8 NoPanicStream BorrowLocal BorrowParse OptionsParam
  RangeShiftBase RangeShiftStream RangeShiftTokenizer RangeShiftBuilder RangeShiftParse
  ErrShiftBase ErrShiftStream ErrShiftTokenizer ErrShiftBuilder ErrShiftParse
  ErrShiftMidGen ErrShiftMidFrame ErrShiftMidCont.
Open Scope N_scope.

Section Cont2Def.
Variable text : bytes.
Variable C : Type.
Variable ev : Tokenizer.token -> C -> res C.

(* parse_document after the parse_misc that follows the DOCTYPE *)
Definition doc_tail2 (x : stream * C) : res C :=
  let s := skip_spaces (fst x) in
  let! x :=
    if match curr_byte_opt s with Some y => y =? 60 | None => false end then
      let! y := parse_element text C ev s (snd x) in
      if fst (fst y) then parse_content text C ev (snd (fst y)) (snd y) else Ok (snd (fst y), snd y)
    else Ok (s, snd x) in
  let! x := parse_misc text C ev (fst x) (snd x) in
  if negb (at_end (fst x)) then err_at text (fst x) UnknownToken
  else Ok (snd x).

Definition cont2 (fuel : nat) (s : stream) (c : C) : res C :=
  let! x := parse_misc_loop text C ev fuel s c in doc_tail2 x.

Lemma parse_document_dtd c s2 s3 c3 s4 c4 :
  doc_start text = Ok s2 -> parse_misc text C ev s2 c = Ok (s3, c3) ->
  starts_with (skip_spaces s3) (b "<!DOCTYPE") = true ->
  parse_doctype text C ev (skip_spaces s3) c3 = Ok (s4, c4) ->
  parse_document text C ev true c = cont2 (S (length (s_rest s4))) s4 c4.
Proof.
  intros H1 H2 H3 H4. rewrite parse_document_cont, H1. cbn [bind]. unfold cont.
  change (parse_misc_loop text C ev (S (length (s_rest s2))) s2 c) with (parse_misc text C ev s2 c).
  rewrite H2. cbn [bind]. unfold doc_tail. cbn [fst snd]. rewrite H3. cbn [negb]. rewrite H4. cbn [bind fst snd].
  unfold cont2. change (parse_misc_loop text C ev (S (length (s_rest s4))) s4 c4) with (parse_misc text C ev s4 c4).
  destruct (parse_misc text C ev s4 c4) as [[s5 c5]| | |]; reflexivity.
Qed.

Lemma cont2_mono fu1 fu2 s c : (fu1 <= fu2)%nat -> cont2 fu1 s c <> OutOfFuel -> cont2 fu2 s c = cont2 fu1 s c.
Proof.
  intros Hle Hne. unfold cont2 in *.
  rewrite (misc_loop_mono text C ev fu1 fu2 s c Hle); [reflexivity|].
  intros E. rewrite E in Hne. apply Hne. reflexivity.
Qed.

End Cont2Def.

(* ---- frame ---- *)
Section Cont2Frame.
Variable text : bytes.
Variable olds : list (node_kind * range).
Hypothesis Holds : Forall (fun o => ntext (fst o)) olds.
Notation tk := (Parse.token text).
Notation Inv := (Inv olds).
Notation pc := (pc olds).
Notation gp := (gp olds).

Lemma doc_tail2_fr s c : Inv c ->
  fsim Inv pc (doc_tail2 text context tk (s, c)) (doc_tail2 text context tk (s, pc c)).
Proof.
  intros HI. unfold doc_tail2. cbn [fst snd]. cbv zeta.
  eapply fsim_bind with (I := fun x => Inv (snd x)) (g := gp).
  { destruct (match curr_byte_opt _ with Some _ => _ | None => _ end); [|split; [exact HI|reflexivity]].
    eapply fsim_bind; [apply (parse_element_fr text olds Holds); exact HI|]. intros [[o s2] c2] H2.
    cbn [ErrShiftMidFrame.gp fst snd] in *.
    destruct o; [apply (parse_content_fr text olds Holds); exact H2|split; [exact H2|reflexivity]]. }
  intros [s2 c2] H2. cbn [ErrShiftMidFrame.gp fst snd] in *.
  eapply fsim_bind; [apply (parse_misc_fr text olds Holds); exact H2|]. intros [s3 c3] H3.
  cbn [ErrShiftMidFrame.gp fst snd] in *.
  destruct (negb _); [apply fsim_err_at|split; [exact H3|reflexivity]].
Qed.

Lemma cont2_fr fu s c : Inv c ->
  fsim Inv pc (cont2 text context tk fu s c) (cont2 text context tk fu s (pc c)).
Proof.
  intros HI. unfold cont2.
  eapply fsim_bind; [apply (misc_loop_fr text olds Holds); exact HI|]. intros [s1 c1] H1.
  cbn [ErrShiftMidFrame.gp fst snd] in *. apply doc_tail2_fr. exact H1.
Qed.

End Cont2Frame.

(* ---- shift ---- *)
Section Cont2Shift.
Variable A0 W U : bytes.
Hypothesis HW : forallb byte_is_space W = true.
Hypothesis Hvalid : valid_utf8_b U = true.
Variable C : Type.
Variable ev1 ev2 : Tokenizer.token -> C -> res C.
Variable fc : C -> C.
Notation A := (A0 ++ W).
Notation text2 := (A ++ U).
Notation k := (blen A).
Notation shs := (sh_s k).
Notation rsimE := (rsimE A U).
Notation shp := (shp A C fc).
Notation she := (she A C fc).
Hypothesis Hev : forall tok c, tok_wf tok -> rsimE fc (ev1 tok c) (ev2 (sh_tok k tok) (fc c)).

Ltac sync1 :=
  rewrite ?(at_end_sh A), ?(starts_with_sh A), ?(curr_byte_opt_sh A), ?(skip_spaces_sh A), ?s_rest_sh, ?s_pos_sh.
Ltac sync := repeat (progress sync1).
Ltac use L := solve [eapply L; try eassumption].

Lemma doc_tail2_shE x : rsimE fc (doc_tail2 U C ev1 x) (doc_tail2 text2 C ev2 (shp x)).
Proof.
  destruct x as [s5 c5]. unfold doc_tail2. cbn [ErrShiftTokenizer.shp fst snd]. cbv zeta. sync.
  eapply rsimE_bind with (f := shp).
  { destruct (match curr_byte_opt (skip_spaces s5) with Some x => x =? 60 | None => false end); [|exact eq_refl].
    eapply rsimE_bind; [use parse_element_shE|]. intros [[o s8] c8] _. cbn [ErrShiftTokenizer.she fst snd].
    destruct o; [|exact eq_refl]. use parse_content_shE. }
  intros [s7 c7] _. cbn [ErrShiftTokenizer.shp fst snd].
  eapply rsimE_bind; [apply (parse_misc_shE A0 W U Hvalid C ev1 ev2 fc Hev)|]. intros [s9 c9] _.
  cbn [ErrShiftTokenizer.shp fst snd]. sync.
  destruct (negb (at_end s9)); [|exact eq_refl].
  apply (err_at_shE A U Hvalid). pc.
Qed.

Lemma cont2_shE fu c :
  rsimE fc (cont2 U C ev1 (S fu) (stream_new U) c) (cont2 text2 C ev2 (S fu) (sQ A0 W U) (fc c)).
Proof.
  unfold cont2. eapply rsimE_bind; [apply (misc_head_shE A0 W U HW Hvalid C ev1 ev2 fc Hev)|].
  intros x _. apply doc_tail2_shE.
Qed.

End Cont2Shift.
