(* Proofs/CstFullS8Doc.v -- the capstone fragment, stage S8 (Spec/CstFullS8.v): parse_document on the rendering of a
   well-formed document.  The root element and the epilog are those of Proofs/CstFullS7Doc.v ([root_ok_7], [tail_ok7]:
   reused as they are); the DOCTYPE is that of Proofs/CstFullS8Dtd.v.  An adapted copy of the last part of
   Proofs/CstFullS7Doc.v. *)
From Coq Require Import Ascii String.
From Coq Require Import List NArith PeanoNat Bool Lia ZifyBool ZifyN ZifyNat.
Import ListNotations.
From RX Require Import Generated.
From RX.Model Require Import Base CharClass Stream Tokenizer Doc Builder Parse.
From RX.Spec Require Cst CstText CstEnt Detector Scope CstU CstNs Chars.
From RX.Spec Require Tree.
From RX.Spec Require Import CstFullS5.
From RX.Spec Require Import Text CstFull CstFullS4.
From RX.Spec Require Import CstFullS6 CstFullS7 CstFullS8.
From RX.Proofs Require Import Tactics CstLex CstBuild CstNsLex CstNsView CstNsBuild CstULex.
From RX.Proofs Require Import CstTextSem CstEntSem CstEntMeaning CstEntRun CstEntInline DetectorProofs.
From RX.Proofs Require Import CstFullLex CstFullBuild CstFullTree CstFullDoc.
From RX.Proofs Require Import CstFullS2Sem CstFullS3Sem CstFullS3Text CstFullS3Run CstFullS3Plug.
From RX.Proofs Require Import CstEntCBuild CstEntCSem.
From RX.Proofs Require Import CstFullS4Sem CstFullS4TSem CstFullS4TText CstFullS4Build CstFullS4Attr.
From RX.Proofs Require Import CstFullS5Ws CstFullS5Lex CstFullS5Doc CstFullS5Dtd CstFullS5Decl.
From RX.Proofs Require Import CstFullS7Text CstFullS7Items CstFullS7Misc CstFullS7Dtd CstFullS7Doc CstFullS8Dtd.
From RX.Proofs Require CstItems CstNsItems CstNsDoc CstNsMain CstUItems CstUDoc CstDoc CstEntDtd CstEntText CstEntCLex CstFullS7Lex CstEntRejSem CstEntBuild.
From RX.Proofs Require CstFullS3 CstFullS5Items CstFullS5.
Open Scope N_scope.

Ltac clia := repeat match goal with H : @eq bool _ true |- _ => clear H end; lia.

Notation bden := (den bmeaning).
Notation bdens := (CstFullTree.dens bpieces bmeaning).
Notation doc_tail := CstFullS5.doc_tail.
Notation misc_is := misc7_is.

(* ------------------------------------------------------------------------------------------ *)
(* the subset of a well-formed DOCTYPE                                                        *)
(* ------------------------------------------------------------------------------------------ *)
Lemma ge_decls8_ok t : wf_doctype8 t = true ->
  Forall udecl_okc (map pd (ge_decls6 t)) /\ Forall decl_cont (ge_decls6 t).
Proof.
  unfold wf_doctype8, ge_decls6, subset_decls6. rewrite !andb_true_iff. intros [_ Hsub].
  destruct (z_subset t) as [u|]; cbn [wf_opt] in Hsub; [|split; constructor].
  unfold wf_subset8 in Hsub. rewrite !andb_true_iff in Hsub. destruct Hsub as [[Hds _] _].
  induction (zu_decls u) as [|s ds IH]; [split; constructor|]. cbn [forallb] in Hds. apply andb_true_iff in Hds. destruct Hds as [H1 H2].
  destruct (IH H2) as [I1 I2]. cbn [flat_map]. rewrite map_app. split; apply Forall_app; (split; [|assumption]).
  - destruct s as [e|s]; cbn [map]; [|constructor]. constructor; [apply (xdecl_of8 e H1)|constructor].
  - destruct s as [e|s]; [|constructor]. constructor; [apply (xdecl_of8 e H1)|constructor].
Qed.

Lemma subset_misc8_misc t : wf_doctype8 t = true -> forallb (is_misc epieces) (subset_misc6 t) = true.
Proof.
  unfold wf_doctype8, subset_misc6, subset_decls6. rewrite !andb_true_iff. intros [_ Hsub].
  destruct (z_subset t) as [u|]; cbn [wf_opt] in Hsub; [|reflexivity].
  unfold wf_subset8 in Hsub. rewrite !andb_true_iff in Hsub. destruct Hsub as [[Hds _] _].
  induction (zu_decls u) as [|s ds IH]; [reflexivity|]. cbn [forallb] in Hds. apply andb_true_iff in Hds. destruct Hds as [H1 H2].
  cbn [flat_map]. rewrite forallb_app, (IH H2), andb_true_r.
  destruct s as [e|s]; [reflexivity|]. destruct (wf_other8 s H1) as [_ Hs]. destruct s; try reflexivity.
  cbn [wf_other7] in Hs. apply andb_true_iff in Hs. destruct Hs as [_ Hs]. cbn [forallb]. rewrite andb_true_r. apply misc_is. exact Hs.
Qed.

(* ------------------------------------------------------------------------------------------ *)
(* parse_document                                                                             *)
(* ------------------------------------------------------------------------------------------ *)
Section Doc8.
Variable d : S6.doc.
Hypothesis Hwf : S8.wf_doc d = true.

Notation decls := (S6.decls d).
Notation main := (S6.x_main d).
Notation text := (S6.render d).
Notation tbm := (level decls E.max_level).
Notation cI := (CstFullS7Doc.cI d).
Notation B1 := (CstFullS7Doc.B1 d).
Notation wB1 := (CstFullS7Doc.wB1 d).
Notation L7 := (CstFullS7Doc.L7 d).
Notation dtd_bytes7 := (CstFullS7Doc.dtd_bytes7 d).
Notation text_eq7 := (CstFullS7Doc.text_eq7 d).
Notation dtd_bytes6_shape := (CstFullS7Doc.dtd_bytes6_shape d).

Record s8_parts_t : Prop := {
  sp_x : wf_opt wf_xmldecl (S6.x_decl d) = true;
  sp_g : wf_opt S8.wf_dtd_part (S6.x_dtd d) = true;
  sp_mws0 : wf_s (d_ws0 main) = true;
  sp_mwsend : wf_s (d_ws_end main) = true;
  sp_mbefore : forallb (fun p => wf_misc7 (fst p) && wf_s (snd p)) (d_before main) = true;
  sp_root : exists name ens ws body, d_root main = IElem name ens ws body;
  sp_rootwf : wf_uitem7 false (d_root main) = true;
  sp_after : wf_pairs7 (d_after main) = true;
  sp_inline : exists root' tr,
      inline_item tbm false (d_root main) = Some ([root'], tr) /\ S4.inline (S6.core d) = Some (cI root', tr) /\
      limits_ok tr = true /\ provisos_item root' = true /\ forallb (ns_ok []) (bden root') = true
}.

Lemma s8_parts : s8_parts_t.
Proof.
  unfold S8.wf_doc in Hwf. rewrite !andb_true_iff in Hwf. destruct Hwf as [[[[[[[H1 H2] H3] H4] H5] H6] H7] H8].
  constructor; try assumption.
  - destruct (d_root main); try discriminate. eauto.
  - destruct (d_root main); try discriminate. exact H6.
  - apply after_wf7. exact H7.
  - unfold S4.inline in *. change (S4.table (S6.core d)) with tbm in *. change (S4.x_main (S6.core d)) with main in *.
    destruct (inline_item tbm false (d_root main)) as [[its tr]|]; [|discriminate].
    cbn [E.obind fst snd] in *. destruct its as [|root' [|x its]]; try discriminate.
    rewrite !andb_true_iff in H8. destruct H8 as [[L P] Nn]. exists root', tr. cbn [d_root] in P, Nn. auto.
Qed.

Lemma dtd_part_parts8 g : S8.wf_dtd_part g = true ->
  wf_s (S6.g_ws0 g) = true /\
  forallb (fun p => wf_misc7 (fst p) && wf_s (snd p)) (S6.g_before g) = true /\
  wf_doctype8 (S6.g_dtd g) = true.
Proof. unfold S8.wf_dtd_part. rewrite !andb_true_iff. tauto. Qed.

Lemma decls_ok8 : Forall udecl_okc (map pd decls) /\ Forall decl_cont decls.
Proof.
  destruct s8_parts as [_ Hg _ _ _ _ _ _ _]. unfold S6.decls. destruct (S6.x_dtd d) as [g|]; [|split; constructor].
  cbn [wf_opt] in Hg. apply ge_decls8_ok. apply (dtd_part_parts8 g Hg).
Qed.





Notation pairs_valid0 := pairs_valid7.

Lemma main_valid8 : U8.Valid (render main).
Proof.
  destruct s8_parts as [_ _ H1 H2 H3 _ H5 H6 _].
  destruct (regroup_wf7 _ _ H1 H3) as [R1 R2].
  rewrite (render_shape epieces). repeat apply U8.Valid_app.
  - apply pairs_valid0; exact R1.
  - apply s_valid; exact R2.
  - apply (uitem_valid false); exact H5.
  - apply pairs_valid0. exact H6.
  - apply s_valid; exact H2.
  - constructor.
Qed.

Lemma text_valid8 : U8.Valid text.
Proof.
  destruct s8_parts as [Hx Hg _ _ _ _ _ _ _]. rewrite text_eq7.
  apply U8.Valid_app; [destruct (S6.x_bom d); [apply CstFullS5.bom_valid|constructor]|].
  apply U8.Valid_app; [apply (CstFullS5.xd_valid _ Hx)|]. apply U8.Valid_app; [|apply main_valid8].
  destruct (S6.x_dtd d) as [g|] eqn:Ex; [|unfold dtd_bytes7; rewrite Ex; constructor].
  cbn [wf_opt] in Hg. destruct (dtd_part_parts8 g Hg) as (H0 & Hb & Ht).
  destruct (regroup_wf7 _ _ H0 Hb) as [R1 R2]. rewrite (dtd_bytes6_shape g Ex).
  apply U8.Valid_app; [apply pairs_valid0; exact R1|]. apply U8.Valid_app; [apply s_valid; exact R2|apply doctype_valid8; exact Ht].
Qed.

Variable D : list Scope.binding.
Hypothesis HD : forall l, NoDup l -> incl l D -> N.of_nat (length l) <= 65535.

Notation CIn := (CstNsBuild.CIn text D).
Notation node_room := CstNsItems.node_room.
Notation attr_room := CstNsItems.attr_room.
Notation ns_room := CstNsItems.ns_room.
Notation WV := (CstULex.WV text).


Lemma parse_document_ok_8 (dtd : bool) root' tr (c0 : context) :
  (S6.has_dtd d = true -> dtd = true) ->
  inline_item tbm false (d_root main) = Some ([root'], tr) -> limits_ok tr = true -> provisos_item root' = true ->
  CstFullTree.ns_oks [] (bden root') = true -> incl (NT.items_decls (bden root')) D ->
  CIn [] c0 -> c_entities c0 = [] -> c_ld c0 = ld_init -> c_after_text c0 = [] ->
  node_room c0 (NT.nsizes (L7 root')) -> attr_room c0 (NT.nattrs_items (bden root')) ->
  ns_room c0 (NT.ns_costs [] (bden root')) ->
  exists cf K,
    parse_document text context (tok_ev text) dtd c0 = Ok cf /\
    absn (c_doc cf) = absn (c_doc c0) ++ K /\ c_parent_prefixes cf = c_parent_prefixes c0 /\
    Forall2 (kmn text (c_doc cf)) K (NT.tag_list [] (c_parent_id c0) (len_N (d_nodes (c_doc c0))) (L7 root')).
Proof.
  intros Hdtd Hinl Hlim Hprov Hnsr HinD I0 Hes0 Hld0 A0 NR AR SR.
  destruct s8_parts as [Hx Hg H1 H2 H3 (name & ens & ws & body & Er) H5 H6 _].
  destruct decls_ok8 as [Hdk Hcont]. pose proof text_valid8 as Hvalid.
  destruct (regroup_wf7 _ _ H1 H3) as [Q1 Q2]. fold B1 in Q1. fold wB1 in Q2.
  set (A := d_after main) in *. set (wE := d_ws_end main) in *.
  rewrite Er in *. set (root := IElem name ens ws body) in *.
  set (rest1 := r_item root ++ r_pairs A ++ wE ++ []).
  assert (Emain : render main = r_pairs B1 ++ wB1 ++ rest1).
  { rewrite (render_shape epieces main). fold B1 wB1 A wE. rewrite Er. reflexivity. }
  destruct (wf_elem_parts4 _ _ _ _ _ H5) as (Hn & _).
  destruct (root_starts epieces name ens ws body Hn) as (n & l & El & Hnsp & H33 & H63). fold root in El.
  assert (Hstop1 : CstDoc.misc_stop rest1).
  { unfold rest1. rewrite El. cbn [app]. split; [reflexivity|]. cbn [prefix_b].
    replace (33 =? n) with false by clia. replace (63 =? n) with false by clia. split; reflexivity. }
  assert (Hdt1 : prefix_b [60; 33; 68; 79; 67; 84; 89; 80; 69] rest1 = false).
  { unfold rest1. rewrite El. cbn [app prefix_b]. replace (33 =? n) with false by clia. rewrite andb_false_r. reflexivity. }
  destruct (pairs_dens7 B1 Q1) as (_ & Hn1 & _).
  unfold L7 in NR |- *. unfold parse_document.
  destruct (S6.x_dtd d) as [g|] eqn:Ex.
  - (* with a DOCTYPE *)
    cbn [wf_opt] in Hg. destruct (dtd_part_parts8 g Hg) as (H0 & Hb & Ht).
    destruct (regroup_wf7 _ _ H0 Hb) as [R1 R2].
    set (B0 := regroup (S6.g_ws0 g) (S6.g_before g)) in *. set (wB0 := last_ws (S6.g_ws0 g) (S6.g_before g)) in *.
    set (t := S6.g_dtd g) in *.
    assert (Hd : dtd = true) by (apply Hdtd; unfold S6.has_dtd; rewrite Ex; reflexivity). subst dtd.
    assert (Epro : S6.prolog_items d = map snd B0 ++ subset_misc6 t).
    { unfold S6.prolog_items. rewrite Ex. unfold B0. rewrite (regroup_items epieces). reflexivity. }
    assert (Edec : decls = ge_decls6 t) by (unfold S6.decls; rewrite Ex; reflexivity).
    set (rest0 := r_doctype6 t ++ r_pairs B1 ++ wB1 ++ rest1).
    assert (Ebody : dtd_bytes7 ++ render main = r_pairs B0 ++ wB0 ++ rest0).
    { rewrite (dtd_bytes6_shape g Ex), Emain. unfold rest0. rewrite <- !app_assoc. reflexivity. }
    destruct (doctype7_head t (r_pairs B1 ++ wB1 ++ rest1)) as [ld Eld]. fold rest0 in Eld.
    assert (Hstop0 : CstDoc.misc_stop rest0) by (rewrite Eld; split; [reflexivity|split; reflexivity]).
    destruct (head_pairs7 B0 wB0 33 (68 :: ld) R1 R2 ltac:(lia)) as [Hdecl Hhead]. rewrite <- Eld, <- Ebody in Hdecl, Hhead.
    destruct (CstFullS5.prefix_ok text (S6.x_bom d) (S6.x_decl d) (dtd_bytes7 ++ render main) text_eq7 Hvalid Hx Hdecl Hhead) as (P1 & P2 & HWp).
    rewrite P1. cbn [bind]. rewrite P2. cbn [bind]. clear P1 P2.
    set (p0 := CstFullS5.pb (S6.x_bom d) + blen (r_opt r_xmldecl (S6.x_decl d))) in *.
    rewrite Ebody in HWp |- *.
    rewrite Epro in NR |- *. rewrite (dens_app epieces M0) in NR |- *. rewrite <- !app_assoc in NR |- *. rewrite !nsizes_app in NR.
    destruct (pairs_dens7 B0 R1) as (_ & Hn0 & _).
    (* before the DOCTYPE *)
    unfold parse_misc. cbn [CstLex.st s_rest]. fold (CstLex.st text p0 (r_pairs B0 ++ wB0 ++ rest0)).
    destruct (misc_loop_ok7 text D HD B0 p0 wB0 rest0 c0 (S (length (r_pairs B0 ++ wB0 ++ rest0))) HWp R1 R2 Hstop0)
      as (c1 & K0 & E1 & S1 & I1 & A1 & Tr1 & F1).
    { pose proof (pairs_len7 B0 R1). rewrite app_length. clia. }
    { exact I0. } { exact A0. } { unfold CstNsItems.node_room in *. clia. }
    rewrite E1. cbn [bind]. clear E1.
    pose proof (WV_app _ _ _ _ HWp (pairs_valid0 B0 R1)) as HWa.
    pose proof (WV_lit _ _ _ _ HWa (s_lit _ R2)) as HWd. pose proof (WV_W _ _ _ HWd) as HWd'.
    set (p1 := p0 + blen (r_pairs B0) + blen wB0) in *.
    rewrite (CstDoc.skip_spaces_none text) by (try exact HWd'; apply Hstop0).
    rewrite starts_with_st by exact HWd'. change (b "<!DOCTYPE") with E.kw_doctype.
    replace (prefix_b E.kw_doctype rest0) with true by (unfold rest0, r_doctype6; rewrite <- !app_assoc; rewrite prefix_b_app_same; reflexivity).
    cbn [negb bind].
    pose proof (CstFullS5Items.Stepn_nodes_len _ _ _ _ S1) as Ln1.
    rewrite (CstFullS5Items.Forall2_len_N _ _ _ F1) in Ln1. unfold len_N at 3 in Ln1. rewrite NT.tag_list_len in Ln1.
    pose proof (CstFullS5Items.Stepn_opt _ _ _ _ (proj1 S1)) as Lo1.
    pose proof (CstFullS5Items.Stepn_attrs_len _ _ _ _ (proj1 S1)) as La1. change (len_N []) with 0 in La1.
    destruct (sn_keep _ _ _ _ (proj1 S1)) as (_ & Ee1 & _ & Eld1).
    (* the DOCTYPE *)
    unfold rest0 in HWd |- *.
    destruct (doctype_ok8 text D HD p1 t (r_pairs B1 ++ wB1 ++ rest1) c1 HWd Ht I1 A1) as (c2 & Kd & es & E2 & S2 & Henv & I2 & A2 & Tr2 & F2).
    { unfold CstNsItems.node_room in *. rewrite Ln1, Lo1. clia. }
    rewrite E2. cbn [bind]. clear E2.
    rewrite Ee1, Hes0 in S2. cbn [app] in S2. set (c1' := set_entities c1 es) in *.
    pose proof (CstFullS5Items.Stepn_nodes_len _ _ _ _ S2) as Ln2. cbn [c1' c_doc set_entities] in Ln2.
    rewrite (CstFullS5Items.Forall2_len_N _ _ _ F2) in Ln2. unfold len_N at 3 in Ln2. rewrite NT.tag_list_len in Ln2.
    pose proof (CstFullS5Items.Stepn_opt _ _ _ _ (proj1 S2)) as Lo2. cbn [c1' c_opt set_entities] in Lo2.
    pose proof (CstFullS5Items.Stepn_attrs_len _ _ _ _ (proj1 S2)) as La2. change (len_N []) with 0 in La2. cbn [c1' c_doc set_entities] in La2.
    destruct (sn_keep _ _ _ _ (proj1 S2)) as (_ & Ee2 & _ & Eld2). cbn [c1' c_entities c_ld set_entities] in Ee2, Eld2.
    rewrite <- Edec in Henv.
    pose proof (WV_app _ _ _ _ HWd (doctype_valid8 t Ht)) as HWe.
    set (p2 := p1 + blen (r_doctype6 t)) in *.
    (* between the DOCTYPE and the root *)
    unfold parse_misc. cbn [CstLex.st s_rest]. fold (CstLex.st text p2 (r_pairs B1 ++ wB1 ++ rest1)).
    destruct (misc_loop_ok7 text D HD B1 p2 wB1 rest1 c2 (S (length (r_pairs B1 ++ wB1 ++ rest1))) HWe Q1 Q2 Hstop1)
      as (c3 & K1 & E3 & S3 & I3 & A3 & Tr3 & F3).
    { pose proof (pairs_len7 B1 Q1). rewrite app_length. clia. }
    { exact I2. } { exact A2. }
    { unfold CstNsItems.node_room in *. rewrite Ln2, Lo2, Ln1, Lo1. clia. }
    rewrite E3. cbn [bind]. clear E3.
    pose proof (WV_app _ _ _ _ HWe (pairs_valid0 B1 Q1)) as HWf.
    pose proof (WV_lit _ _ _ _ HWf (s_lit _ Q2)) as HWg.
    set (p3 := p2 + blen (r_pairs B1) + blen wB1) in *.
    pose proof (CstFullS5Items.Stepn_nodes_len _ _ _ _ S3) as Ln3.
    rewrite (CstFullS5Items.Forall2_len_N _ _ _ F3) in Ln3. unfold len_N at 3 in Ln3. rewrite NT.tag_list_len in Ln3.
    pose proof (CstFullS5Items.Stepn_opt _ _ _ _ (proj1 S3)) as Lo3.
    pose proof (CstFullS5Items.Stepn_attrs_len _ _ _ _ (proj1 S3)) as La3. change (len_N []) with 0 in La3.
    destruct (sn_keep _ _ _ _ (proj1 S3)) as (_ & Ee3 & _ & Eld3).
    (* the root and the epilog *)
    destruct (tail_ok7 text D HD decls es Henv Hdk Hcont name ens ws body A wE p3 c3 root' tr H5 H6 H2 Hinl Hlim Hprov Hnsr HinD HWg I3 A3)
      as (c5 & K23 & e23 & E5 & S5 & F5).
    { rewrite Eld3, Eld2, Eld1. exact Hld0. }
    { rewrite Ee3. exact Ee2. }
    { unfold CstNsItems.node_room in *. rewrite Ln3, Lo3, Ln2, Lo2, Ln1, Lo1. rewrite <- !N.add_assoc. exact NR. }
    { unfold CstNsItems.attr_room in *. rewrite La3, La2, La1. clia. }
    { unfold CstNsItems.ns_room in *. rewrite Tr3, Tr2, Tr1. exact SR. }
    fold root in E5, F5. fold rest1 in E5.
    match goal with |- exists cf K, ?X = Ok cf /\ _ => change X with (doc_tail text (CstLex.st text p3 rest1) c3) end. rewrite E5.
    exists c5, (K0 ++ Kd ++ K1 ++ K23). split; [reflexivity|].
    destruct S1 as (S1 & P1a & P1b). destruct S2 as (S2 & P2a & P2b). destruct S3 as (S3 & P3a & P3b). destruct S5 as (S5 & P5a & P5b).
    cbn [c1' c_parent_id c_parent_prefixes set_entities] in P2a, P2b.
    split; [|split].
    + rewrite (sn_nodes _ _ _ _ S5), (sn_nodes _ _ _ _ S3), (sn_nodes _ _ _ _ S2). cbn [c1' c_doc set_entities].
      rewrite (sn_nodes _ _ _ _ S1), <- !app_assoc. reflexivity.
    + congruence.
    + assert (X35 : DocExt (c_doc c3) (c_doc c5)) by (apply (Step0n_DocExt _ _ _ _ S5)).
      assert (X25 : DocExt (c_doc c2) (c_doc c5)) by (eapply DocExt_trans; [apply (Step0n_DocExt _ _ _ _ S3)|exact X35]).
      assert (X15 : DocExt (c_doc c1) (c_doc c5)).
      { eapply DocExt_trans; [|exact X25]. pose proof (Step0n_DocExt _ _ _ _ S2) as X. exact X. }
      do 3 rewrite CstNsDoc.tag_list_app.
      apply Forall2_app; [|apply Forall2_app; [|apply Forall2_app]].
      * apply (CstFullS5Items.kmn_Forall2_ext text D HD (c_doc c1)); [exact X15|exact F1].
      * apply (CstFullS5Items.kmn_Forall2_ext text D HD (c_doc c2)); [exact X25|]. rewrite P1a, Ln1 in F2. exact F2.
      * apply (CstFullS5Items.kmn_Forall2_ext text D HD (c_doc c3)); [exact X35|]. rewrite P2a, P1a, Ln2, Ln1 in F3. exact F3.
      * rewrite P3a, P2a, P1a, Ln3, Ln2, Ln1 in F5. exact F5.
  - (* without a DOCTYPE *)
    assert (Epro : S6.prolog_items d = []) by (unfold S6.prolog_items; rewrite Ex; reflexivity).
    assert (Edec : decls = []) by (unfold S6.decls; rewrite Ex; reflexivity).
    assert (Ebody : dtd_bytes7 ++ render main = r_pairs B1 ++ wB1 ++ rest1).
    { unfold dtd_bytes7. rewrite Ex, Emain. reflexivity. }
    assert (Erest : exists l', rest1 = 60 :: n :: l') by (unfold rest1; rewrite El; cbn [app]; eexists; reflexivity).
    destruct Erest as [l' Erest].
    destruct (head_pairs7 B1 wB1 n l' Q1 Q2 H63) as [Hdecl Hhead]. rewrite <- Erest, <- Ebody in Hdecl, Hhead.
    destruct (CstFullS5.prefix_ok text (S6.x_bom d) (S6.x_decl d) (dtd_bytes7 ++ render main) text_eq7 Hvalid Hx Hdecl Hhead) as (P1 & P2 & HWp).
    rewrite P1. cbn [bind]. rewrite P2. cbn [bind]. clear P1 P2.
    set (p0 := CstFullS5.pb (S6.x_bom d) + blen (r_opt r_xmldecl (S6.x_decl d))) in *.
    rewrite Ebody in HWp |- *.
    rewrite Epro in NR |- *. cbn [CstFullTree.dens app] in NR |- *. rewrite !nsizes_app in NR.
    unfold parse_misc. cbn [CstLex.st s_rest]. fold (CstLex.st text p0 (r_pairs B1 ++ wB1 ++ rest1)).
    destruct (misc_loop_ok7 text D HD B1 p0 wB1 rest1 c0 (S (length (r_pairs B1 ++ wB1 ++ rest1))) HWp Q1 Q2 Hstop1)
      as (c3 & K1 & E3 & S3 & I3 & A3 & Tr3 & F3).
    { pose proof (pairs_len7 B1 Q1). rewrite app_length. clia. }
    { exact I0. } { exact A0. } { unfold CstNsItems.node_room in *. clia. }
    rewrite E3. cbn [bind]. clear E3.
    pose proof (WV_app _ _ _ _ HWp (pairs_valid0 B1 Q1)) as HWf.
    pose proof (WV_lit _ _ _ _ HWf (s_lit _ Q2)) as HWg. pose proof (WV_W _ _ _ HWg) as HWg'.
    set (p3 := p0 + blen (r_pairs B1) + blen wB1) in *.
    rewrite (CstDoc.skip_spaces_none text) by (try exact HWg'; apply Hstop1).
    rewrite starts_with_st by exact HWg'. change (b "<!DOCTYPE") with [60; 33; 68; 79; 67; 84; 89; 80; 69]. rewrite Hdt1. cbn [bind].
    pose proof (CstFullS5Items.Stepn_nodes_len _ _ _ _ S3) as Ln3.
    rewrite (CstFullS5Items.Forall2_len_N _ _ _ F3) in Ln3. unfold len_N at 3 in Ln3. rewrite NT.tag_list_len in Ln3.
    pose proof (CstFullS5Items.Stepn_opt _ _ _ _ (proj1 S3)) as Lo3.
    pose proof (CstFullS5Items.Stepn_attrs_len _ _ _ _ (proj1 S3)) as La3. change (len_N []) with 0 in La3.
    destruct (sn_keep _ _ _ _ (proj1 S3)) as (_ & Ee3 & _ & Eld3).
    assert (Henv : Forall2 (uent_ok text) (map pd decls) []) by (rewrite Edec; constructor).
    destruct (tail_ok7 text D HD decls [] Henv Hdk Hcont name ens ws body A wE p3 c3 root' tr H5 H6 H2 Hinl Hlim Hprov Hnsr HinD HWg I3 A3)
      as (c5 & K23 & e23 & E5 & S5 & F5).
    { rewrite Eld3. exact Hld0. }
    { rewrite Ee3. exact Hes0. }
    { unfold CstNsItems.node_room in *. rewrite Ln3, Lo3. rewrite <- !N.add_assoc. exact NR. }
    { unfold CstNsItems.attr_room in *. rewrite La3. clia. }
    { unfold CstNsItems.ns_room in *. rewrite Tr3. exact SR. }
    fold root in E5, F5. fold rest1 in E5.
    match goal with |- exists cf K, ?X = Ok cf /\ _ => change X with (doc_tail text (CstLex.st text p3 rest1) c3) end. rewrite E5.
    exists c5, (K1 ++ K23). split; [reflexivity|].
    destruct S3 as (S3 & P3a & P3b). destruct S5 as (S5 & P5a & P5b).
    split; [|split].
    + rewrite (sn_nodes _ _ _ _ S5), (sn_nodes _ _ _ _ S3), <- !app_assoc. reflexivity.
    + congruence.
    + rewrite CstNsDoc.tag_list_app. apply Forall2_app.
      * apply (CstFullS5Items.kmn_Forall2_ext text D HD (c_doc c3)); [apply (Step0n_DocExt _ _ _ _ S5)|exact F3].
      * rewrite P3a, Ln3 in F5. exact F5.
Qed.

End Doc8.

Print Assumptions parse_document_ok_8.
