(* Proofs/StrictRunBuilder.v -- the strict loops of the builder (attribute normalisation, text
   processing, both reading a stream through the strict primitives), the strict callback at every
   entity level, and the theorem: parse_strict = parse. *)
From Coq Require Import Ascii String.
From Coq Require Import List Arith NArith Bool Lia ZifyBool ZifyN ZifyNat.
Import ListNotations.
From RX Require Import Generated.
From RX.Model Require Import Base CharClass Stream Tokenizer Doc Builder Parse.
From RX.Proofs Require Import Tactics NoPanicUtf8 NoPanicStream NoPanicTokenizer NoPanicBuilder
     NoPanicBuilderCtx NoPanicText NoPanicParse NoPanicFinal.
From RX.Proofs Require Import StrictModel StrictStream StrictTok StrictBuilder
     StrictRunModel StrictRunStream StrictRunTok.
Open Scope N_scope.

Tactic Notation "dsh" "as" simple_intropattern(p) :=
  match goal with |- bind ?a _ = bind ?a _ =>
    destruct a as p; cbn [bind];
    try solve [match goal with
               | |- Err _ = _ => reflexivity
               | |- Panic _ = _ => reflexivity
               | |- OutOfFuel = _ => reflexivity
               end]
  end.

Section WithText.
Variable text : bytes.
Hypothesis Hvalid : valid_utf8_b text = true.

Notation stream := Stream.stream.
Notation Bd := (Boundary text).
Notation SInv0 := (SInv0 text).
Notation SInv := (SInv text).
Notation Ext := (Ext text).
Notation Core := (Core text).

(* ---- attribute values ---- *)

Lemma attr_loop_s_eq lvl' nl entities :
  EntsOk text entities ->
  (forall value t ld, SliceOk text value -> Valid (tb_buf t) -> tb_pending_cr t = false ->
     nl entities value t ld = norm_attr_lvl text lvl' entities value t ld) ->
  forall fuel s t ld, SInv0 s -> PV text t (s_pos s) -> tb_pending_cr t = false ->
    attr_loop_s text nl entities fuel s t ld = attr_loop text lvl' entities fuel s t ld.
Proof.
  intros Hents Hnl. induction fuel as [|fu IH]; intros s t ld Hs Ht Hp; [reflexivity|].
  cbn [attr_loop_s attr_loop].
  destruct (at_end s) eqn:Eend; [reflexivity|].
  pose proof (curr_byte_unchecked_safe text s Hs Eend) as Pc.
  dsh as [x| | |]. cbn in Pc. destruct Pc as (r & Hr & Hlt).
  pose proof (SInv0_byte text s x r Hs Hr) as Hbyte.
  destruct (x =? 38) eqn:E38; cbn [negb].
  - assert (x = 38) by lia. subst x.
    assert (Hsi : SInv s) by (eapply SInv_of_byte; eauto).
    cbv zeta. rewrite (consume_reference_s_eq text Hvalid) by auto.
    pose proof (consume_reference_safe text Hvalid s Hsi) as Pr.
    dsh as [[[[name|ch] s1]|]| | |]; cbn in Pr.
    + destruct Pr as [H1 _].
      destruct (find_entity text entities (slice_bytes text name)) as [e|] eqn:Ef; [|reflexivity].
      apply find_entity_In in Ef. unfold EntsOk in Hents. rewrite Forall_forall in Hents.
      pose proof (Hents _ Ef) as He.
      dsh as [ld1| | |]. dsh as [ld2| | |].
      assert (Hv : Valid (tb_buf t)) by (eapply PV_valid; eauto; apply Hsi).
      rewrite Hnl by auto.
      pose proof (norm_attr_lvl_safe text Hvalid lvl' entities ltac:(unfold EntsOk; rewrite Forall_forall; auto)
                    (en_value e) t ld2 He Hv Hp) as Pn.
      dsh as [[t1 ld3]| | |]. cbn in Pn. destruct Pn as [Hv1 Hp1]. cbn [fst] in *.
      apply IH; auto; [apply H1|]. apply PV_of_valid; auto. apply H1.
    + destruct Pr as [H1 Hch]. cbn in Hch.
      destruct (push_char_bytes_attr _ _ t) as [t1|] eqn:Epush; [|reflexivity].
      apply push_char_bytes_attr_valid in Epush; auto; [|eapply PV_valid; eauto; apply Hsi].
      destruct Epush as [Hv1 Hp1].
      apply IH; auto; [apply H1|]. apply PV_of_valid; auto. apply H1.
    + reflexivity.
  - destruct ((x =? 60) && (0 <? ld_depth ld)); [reflexivity|].
    destruct (advance1_SInv0 text s Hs Hlt) as (s1 & -> & Hs1 & Hp1 & He1). cbn [bind].
    destruct (PV_byte_attr text Hvalid t (s_pos s) x r (curr_byte_opt s1) Ht Hp Hbyte) as [Ht1 Hpc1].
    apply IH; auto. rewrite Hp1. exact Ht1.
Qed.

Lemma norm_attr_lvl_s_eq : forall lvl entities, EntsOk text entities ->
  forall value t ld, SliceOk text value -> Valid (tb_buf t) -> tb_pending_cr t = false ->
  norm_attr_lvl_s text lvl entities value t ld = norm_attr_lvl text lvl entities value t ld.
Proof.
  induction lvl as [|lvl IH]; intros entities Hents value t ld Hv Hb Hp; [reflexivity|].
  rewrite norm_attr_lvl_S. cbn [norm_attr_lvl_s].
  destruct Hv as (Ha & He & Hae).
  pose proof (stream_from_substr_safe text (sl_start value) (sl_end value) Ha He Hae) as P.
  dsh as [s0| | |]. cbn in P. destruct P as (Hs0 & _ & _).
  apply (attr_loop_s_eq lvl (norm_attr_lvl_s text lvl) entities Hents).
  - intros v t' ld' ? ? ?. apply IH; auto.
  - apply Hs0.
  - apply PV_of_valid; auto. apply Hs0.
  - exact Hp.
Qed.

Lemma normalize_attribute_s_eq value c : Core c -> SliceOk text value ->
  normalize_attribute_s text value c = normalize_attribute text value c.
Proof.
  intros Hc Hv. unfold normalize_attribute_s, normalize_attribute. cbv zeta.
  destruct (existsb _ _); [|reflexivity].
  rewrite norm_attr_lvl_s_eq; auto; [apply Hc|apply Valid_nil].
Qed.

Lemma process_attribute_ss_eq r qn eq prefix local value c : Core c -> SliceOk text value ->
  slice_bytes text local <> [] ->
  process_attribute_ss text r qn eq prefix local value c =
  process_attribute text r qn eq prefix local value c.
Proof.
  intros Hc Hv Hl. unfold process_attribute_ss. rewrite normalize_attribute_s_eq by auto.
  rewrite process_attribute_s_eq by auto.
  destruct (normalize_attribute text value c) as [x|e|p|] eqn:E; try reflexivity.
  unfold process_attribute. rewrite E. reflexivity.
Qed.

(* ---- text ---- *)

Lemma parse_next_chunk_s_eq s es : SInv0 s -> at_end s = false ->
  parse_next_chunk_s text s es = parse_next_chunk text s es.
Proof.
  intros Hs Eend. unfold parse_next_chunk_s, parse_next_chunk. rewrite Eend.
  pose proof (curr_byte_unchecked_safe text s Hs Eend) as Pc.
  dsh as [x| | |]. cbn in Pc. destruct Pc as (r & Hr & Hlt).
  destruct (x =? 38) eqn:E38; [|reflexivity].
  assert (x = 38) by lia. subst x.
  assert (Hsi : SInv s) by (eapply SInv_of_byte; eauto).
  cbv zeta. rewrite (consume_reference_s_eq text Hvalid) by auto. reflexivity.
Qed.

Definition PcAgree (pcs pc : stream -> context -> res (stream * context)) : Prop :=
  forall s c, SInv s -> Core c -> pcs s c = pc s c.

Lemma text_loop_s_eq pcs pc r : PcOk text allowD pc -> PcAgree pcs pc ->
  forall fuel s buf c, SInv0 s -> PV text buf (s_pos s) -> Core c ->
    text_loop_s text pcs r fuel s buf c = text_loop text pc r fuel s buf c.
Proof.
  intros Hpc Hag. induction fuel as [|fu IH]; intros s buf c Hs Hb Hc; [reflexivity|].
  cbn [text_loop_s text_loop].
  destruct (at_end s) eqn:Eend; [reflexivity|].
  rewrite parse_next_chunk_s_eq by auto.
  pose proof (parse_next_chunk_safe text Hvalid s (c_entities c) Hs Eend ltac:(apply Hc)) as Pn.
  dsh as [[ch s1]| | |]. cbn in Pn. destruct Pn as [He1 Hch]. cbn [fst snd] in *.
  destruct ch as [x|cp|value].
  - destruct Hch as (Hs1 & Hp1 & r' & Hr').
    apply IH; auto. rewrite Hp1. eapply PV_byte_text; eauto. eapply SInv0_byte; eauto.
  - destruct Hch as (Hs1 & Hcp & Hbp).
    apply IH; auto; [apply Hs1|]. apply PV_of_valid; [|apply Hs1].
    apply push_char_bytes_text_valid; auto. eapply PV_valid; eauto.
  - destruct Hch as (Hs1 & Hv & Hbp).
    pose proof (finish_append_safe text buf r c ltac:(eapply PV_valid; eauto) Hc) as P1.
    dsh as [c1| | |]. cbn in P1. destruct P1 as [H1 Ht1].
    dsh as [ld1| | |]. dsh as [ld2| | |]. cbv zeta.
    destruct Hv as (Hva & Hve & Hvae).
    pose proof (stream_from_substr_safe text _ _ Hva Hve Hvae) as P2.
    dsh as [es| | |]. cbn in P2. destruct P2 as (Hes & _ & _).
    assert (Hc3 : Core (set_entity_floor (set_tag_name (set_ld c1 ld2) tag_name_null)
                          (len_N (c_parent_prefixes (set_ld c1 ld2))))).
    { apply Core_set_floor, Core_set_tag, Core_set_ld; auto. }
    rewrite Hag by auto.
    pose proof (Hpc es _ Hes Hc3) as P3.
    dsh as [[s2 c2]| | |]. cbn in P3. destruct P3 as [_ H2]. cbn [snd] in H2.
    destruct (negb _); [reflexivity|].
    apply IH; [apply Hs1| |].
    + apply PV_of_valid; [apply Valid_nil|apply Hs1].
    + apply Core_set_ld, Core_set_floor, Core_set_tag; exact H2.
Qed.

Lemma process_text_with_s_eq pcs pc t r c : PcOk text allowD pc -> PcAgree pcs pc ->
  NoPanicTokenizer.TokOk text (TText t r) -> Core c ->
  process_text_with_s text pcs t r c = process_text_with text pc t r c.
Proof.
  intros Hpc Hag (Ha & He & Hae & _) Hc. rewrite process_text_with_eq.
  unfold process_text_with_s. cbv zeta.
  destruct (negb (existsb _ _)); [reflexivity|].
  pose proof (stream_from_substr_safe text (fst r) (snd r) Ha He Hae) as P.
  dsh as [s0| | |]. cbn in P. destruct P as (Hs0 & _ & _).
  rewrite (text_loop_s_eq pcs pc r Hpc Hag); auto; [apply Hs0|].
  apply PV_of_valid; [apply Valid_nil|apply Hs0].
Qed.

(* ---- the callback ---- *)

Lemma token_with_ptext_eq p1 p2 tok c :
  (forall t r, tok = TText t r -> p1 t r c = p2 t r c) ->
  token_with text p1 tok c = token_with text p2 tok c.
Proof. intros H. destruct tok; cbn [token_with]; auto. Qed.

Lemma token_with_ss_eq pts pt tok c : TokOk2 text tok -> Core c ->
  (forall t r, NoPanicTokenizer.TokOk text (TText t r) -> pts t r c = pt t r c) ->
  token_with_ss text pts tok c = token_with text pt tok c.
Proof.
  intros Hok Hc Hpt.
  assert (E : token_with_s text pts tok c = token_with text pt tok c).
  { rewrite (token_with_s_eq text Hvalid) by auto. apply token_with_ptext_eq.
    intros t r ->. apply Hpt. apply Hok. }
  destruct tok; cbn [token_with_ss]; try exact E.
  cbn [token_with]. destruct Hok as [[Hv _] Hl]. apply process_attribute_ss_eq; auto.
Qed.

(* ---- the levels ---- *)

Notation Iout := (NoPanicParse.Iout text).
Notation Iin := (NoPanicParse.Iin text).

Lemma model_callback_ok lvl : forall tok c, TokOk2 text tok ->
  NoPanicTokenizer.St context Iout Iin (tok_pre tok) c ->
  safeP StrictRunTok.noP
        (token_with text (process_text_with text (parse_content_lvl text lvl)) tok c)
        (NoPanicTokenizer.St context Iout Iin (tok_post tok)).
Proof.
  intros tok c [Hok _] Hst.
  apply (callback_ok text Hvalid (process_text_with text (parse_content_lvl text lvl))); auto.
  intros t r c0 Htok Hc0. apply process_text_with_safe; auto. apply parse_content_lvl_safe; auto.
Qed.

Lemma St_Core tok c : NoPanicTokenizer.St context Iout Iin (tok_pre tok) c -> Core c.
Proof. destruct (tok_pre tok); [intros [H _]; exact H|auto]. Qed.

Lemma parse_content_lvl_ss_eq : forall lvl,
  PcAgree (parse_content_lvl_ss text lvl) (parse_content_lvl text lvl).
Proof.
  induction lvl as [|lvl IH]; intros s c Hs Hc; [reflexivity|].
  cbn [parse_content_lvl_ss parse_content_lvl].
  apply (parse_content_rel text Hvalid context _ _ Iout Iin); auto.
  - intros tok c0 Hok Hst.
    apply (token_with_ss_eq (process_text_with_s text (parse_content_lvl_ss text lvl))
             (process_text_with text (parse_content_lvl text lvl)) tok c0 Hok (St_Core tok c0 Hst)).
    intros t r Ht.
    apply (process_text_with_s_eq _ _ t r c0 (parse_content_lvl_safe text Hvalid lvl) IH Ht
             (St_Core tok c0 Hst)).
  - apply model_callback_ok.
Qed.

Lemma token_ss_eq tok c : TokOk2 text tok -> Core c -> token_ss text tok c = token text tok c.
Proof.
  intros Hok Hc. unfold token_ss, token, process_text_ss, process_text.
  apply (token_with_ss_eq (process_text_with_s text (parse_content_lvl_ss text entity_levels))
           (process_text_with text (parse_content_lvl text entity_levels)) tok c Hok Hc).
  intros t r Ht.
  apply (process_text_with_s_eq _ _ t r c (parse_content_lvl_safe text Hvalid entity_levels)
           (parse_content_lvl_ss_eq entity_levels) Ht Hc).
Qed.

Lemma parse_document_strict_eq dtd c : Core c ->
  parse_document_s text context (token_ss text) dtd c = parse_document text context (token text) dtd c.
Proof.
  intros Hc. apply (parse_document_rel text Hvalid context _ _ Iout Iin); auto.
  - intros tok c0 Hok Hst. apply token_ss_eq; auto. eapply St_Core; eauto.
  - apply (model_callback_ok entity_levels).
Qed.

End WithText.

Theorem strict_refines : forall text opt, valid_utf8_b text = true -> nodes_limit opt <= u32_max -> parse_strict text opt = parse text opt.
Proof.
  intros text opt Hvalid Hl. unfold parse_strict, parse. rewrite init_context_s_eq.
  destruct (init_context text opt) as [c0| | |] eqn:Hi; cbn [bind]; try reflexivity.
  rewrite parse_document_strict_eq; auto. eapply init_core; eauto.
Qed.
Print Assumptions strict_refines.

Theorem parse_strict_no_panic : forall text opt p, valid_utf8_b text = true -> nodes_limit opt <= u32_max ->
  parse_strict text opt <> Panic p.
Proof.
  intros text opt p Hvalid Hl. rewrite strict_refines by auto. apply parse_no_panic; auto.
Qed.
Print Assumptions parse_strict_no_panic.
