(* Proofs/NonVacuity_C16.v -- non-vacuity of the hypotheses of the theorems pinned under C16.
   (dtd_refused_full: CstFullS5.Example5.ex_refused.) *)
From Coq Require Import Ascii String List NArith Bool Lia.
Import ListNotations.
From RX Require Import Generated.
From RX.Model Require Import Base CharClass Stream Tokenizer Doc Builder Parse Api.
From RX.Proofs Require Import OptionsParam OptionsBuild OptionsMain OptionsDtd DefaultEntities DefaultTokenizer DefaultContent DefaultText DefaultMain.
From RX.Proofs Require Import NonVacuity_Doc NonVacuity_C09.
From RX.Proofs Require CstNsView CstFullMain CstFullS5.
From RX.Spec Require CstNs CstFull CstFullS5.
Open Scope N_scope.

(* dtd_flag_relation has no hypothesis; both disjuncts occur *)
Example nv_dtd_flag_left : parse text0 (opts false 100) = Err DtdDetected.
Proof. vm_compute. reflexivity. Qed.
Example nv_dtd_flag_right : exists d, parse text_nodtd (opts false 100) = Ok d /\ parse text_nodtd (opts true 100) = Ok d.
Proof. eexists. split; vm_compute; reflexivity. Qed.

(* no_doctype_no_difference *)
Example nv_no_doctype : contains_b (b "<!DOCTYPE") text_nodtd = false /\ contains_b (b "<!DOCTYPE") text0 = true.
Proof. split; vm_compute; reflexivity. Qed.
Example nv_no_doctype_applied : parse text_nodtd (opts false 100) = parse text_nodtd (opts true 100).
Proof. exact (no_doctype_no_difference _ _ (proj1 nv_no_doctype)). Qed.

(* no_entities_without_dtd *)
Example nv_no_entities_without_dtd :
  exists c c', init_context text_nodtd {| allow_dtd := false; nodes_limit := 100 |} = Ok c /\
               parse_document text_nodtd context (token text_nodtd) false c = Ok c' /\
               len_N (d_nodes (c_doc c')) = 6.
Proof. do 2 eexists. split; [vm_compute; reflexivity|]. split; vm_compute; reflexivity. Qed.

(* content_le_input *)
Example nv_content_le_input :
  exists d, valid_utf8_b text_nodtd = true /\ parse text_nodtd {| allow_dtd := false; nodes_limit := 100 |} = Ok d /\
            text_len text_nodtd d + value_len text_nodtd d = 5 /\ tlen text_nodtd = 65.
Proof. eexists. split; [vm_compute; reflexivity|]. split; [vm_compute; reflexivity|]. split; vm_compute; reflexivity. Qed.

(* no_dtd_any_option: BOM, XML declaration, no DOCTYPE, a namespaced root with attributes, text, references *)
Module G4.
Import RX.Spec.CstFull. Import RX.Spec.CstFullS5. Import RX.Proofs.CstNsView. Import RX.Proofs.CstFullMain. Import RX.Proofs.CstFullS5.
Import Example5.
Definition exn : S5.doc :=
  {| S5.x_bom := true;
     S5.x_decl := Some {| xd_version := ps [32; 13] [13] [9] 39 (b "1.0"); xd_encoding := Some (ps [10] [] [] 34 (b "UTF-8"));
                          xd_standalone := None; xd_ws := [13] |};
     S5.x_dtd := None;
     S5.x_main := {| d_before := [(IComment (b "c"), [13])]; d_ws0 := [10];
                     d_root := IElem (qn (b "p") [21517])
                                 [@EDecl epieces (layb [13] [13] [13] 39) (b "p") [lit (b "urn:x")];
                                  @EAttr epieces (layb [13; 10] [] [32] 34) (qn [] (b "a")) [E.EP (T.PPredef T.Amp); lit (b "x")]] [13]
                                 (Some ([ tx [lit (b "t"); E.EP (T.PPredef T.Lt); lit [13; 10]]; IElem (qn [] (b "c")) [] [13] None ], [13; 32]));
                     d_after := [([13], IComment (b "after"))]; d_ws_end := [10] |} |}.

Example nv_no_dtd_any_option :
  S5.wf_doc exn = true /\ S5.has_dtd exn = false /\
  N.of_nat (length (S5.sem exn)) < 100 /\ N.of_nat (length (S5.render exn)) <= u32_max /\
  S5.distinct_decls_le exn (N.to_nat 65535) /\ 1 + N.of_nat (S5.ns_cost exn) <= u32_max.
Proof.
  split; [vm_compute; reflexivity|]. split; [reflexivity|]. split; [vm_compute; reflexivity|].
  split; [vm_compute; intros H; discriminate H|].
  split; [|vm_compute; intros H; discriminate H].
  unfold S5.distinct_decls_le. apply CstFullMain.distinct_by_count.
  remember (length (doc_decls (S5.meaning_of exn) (S5.x_main exn))) as n eqn:En. vm_compute in En. subst n. lia.
Qed.

Example nv_no_dtd_any_option_applied :
  parse (S5.render exn) (OptionsMain.opts false 100) = parse (S5.render exn) (OptionsMain.opts true 100) /\
  exists doc, parse (S5.render exn) (OptionsMain.opts false 100) = Ok doc /\ view (S5.render exn) doc = Some (S5.sem exn).
Proof. destruct nv_no_dtd_any_option as (H1 & H2 & H3 & H4 & H5 & H6). exact (no_dtd_any_option exn 100 H1 H2 H3 H4 H5 H6). Qed.
Example nv_exn_nodes : length (S5.sem exn) = 5%nat.
Proof. vm_compute. reflexivity. Qed.
End G4.
