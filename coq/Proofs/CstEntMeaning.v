(* Proofs/CstEntMeaning.v -- C07, the semantic side (no parser): what the expansion derivations of
   CstEntSem.v / CstEntAttr.v produce is the Spec/CstText.v meaning of the inlined pieces, provided
   no CR LF pair is split by an entity boundary; and the inlining function of Spec/CstEnt.v yields
   such derivations. *)
From Coq Require Import List NArith PeanoNat Wf_nat Bool Lia ZifyBool ZifyN ZifyNat.
Import ListNotations.
From RX Require Import Generated.
From RX.Model Require Import Base Stream Builder Parse.
From RX.Spec Require Cst CstText CstEnt Chars Detector.
From RX.Spec Require Import Text.
From RX.Proofs Require Import TextMachine HoistProofs NoPanicUtf8 CstTextSem CstEntSem CstEntText CstEntAttr.
Open Scope N_scope.

(* ------------------------------------------------------------------------------------------ *)
(* cutting a chunk list where no CR LF pair is split                                          *)
(* ------------------------------------------------------------------------------------------ *)

Definition ends13 (cs : list chunk) : bool :=
  match last cs (CRef []) with CLit x => x =? 13 | _ => false end.
Definition starts10 (cs : list chunk) : bool :=
  match cs with CLit x :: _ => x =? 10 | _ => false end.

Lemma ends13_cons c a : a <> [] -> ends13 (c :: a) = ends13 a.
Proof. intros H. unfold ends13. destruct a; [congruence|reflexivity]. Qed.

Lemma ends13_app a b : b <> [] -> ends13 (a ++ b) = ends13 b.
Proof.
  intros H. induction a as [|c a IH]; [reflexivity|]. cbn [app]. rewrite ends13_cons; [exact IH|].
  destruct a; [exact H|discriminate].
Qed.

Lemma gen_app_nosplit_len (f : bytes -> bytes) (k : N -> N) : forall n a b, (length a <= n)%nat ->
  ends13 a && starts10 b = false -> gen f k (a ++ b) = gen f k a ++ gen f k b.
Proof.
  induction n as [|n IH]; intros a b Hl Hs.
  - destruct a; [rewrite gen_nil; reflexivity|cbn in Hl; lia].
  - destruct a as [|c a']; [rewrite gen_nil; reflexivity|]. cbn [length] in Hl.
    destruct a' as [|c' a''].
    + (* the last chunk of a *)
      cbn [app]. destruct c as [x|bs].
      * destruct (x =? 13) eqn:E13.
        -- unfold ends13 in Hs. cbn [last] in Hs. rewrite E13 in Hs. cbn [andb] in Hs.
           rewrite (gen_cr f k x b); [|exact E13|destruct b as [|[y|?] ?]; try exact I; exact Hs].
           rewrite (gen_cr f k x []) by (assumption || exact I). rewrite gen_nil. reflexivity.
        -- rewrite !(gen_lit_ne f k x) by assumption. rewrite gen_nil. reflexivity.
      * rewrite !gen_ref, gen_nil, app_nil_r. reflexivity.
    + assert (Hs' : ends13 (c' :: a'') && starts10 b = false) by (rewrite ends13_cons in Hs by discriminate; exact Hs).
      change ((c :: c' :: a'') ++ b) with (c :: (c' :: a'') ++ b).
      destruct c as [x|bs].
      * destruct (x =? 13) eqn:E13.
        -- destruct c' as [y|b2].
           ++ destruct (y =? 10) eqn:E10.
              ** cbn [app]. rewrite !(gen_crlf f k x y) by assumption. cbn [length] in Hl.
                 rewrite IH; [reflexivity|lia|].
                 destruct a'' as [|c2 a3]; [reflexivity|]. rewrite ends13_cons in Hs' by discriminate. exact Hs'.
              ** rewrite (gen_cr f k x ((CLit y :: a'') ++ b)) by (cbn [app]; assumption).
                 rewrite (gen_cr f k x (CLit y :: a'')) by assumption.
                 rewrite IH by (assumption || (cbn [length] in *; lia)). reflexivity.
           ++ rewrite (gen_cr f k x ((CRef b2 :: a'') ++ b)) by (cbn [app]; assumption || exact I).
              rewrite (gen_cr f k x (CRef b2 :: a'')) by (assumption || exact I).
              rewrite IH by (assumption || (cbn [length] in *; lia)). reflexivity.
        -- rewrite !(gen_lit_ne f k x) by assumption.
           rewrite IH by (assumption || (cbn [length] in *; lia)). reflexivity.
      * rewrite !gen_ref. rewrite IH by (assumption || (cbn [length] in *; lia)). rewrite app_assoc. reflexivity.
Qed.

Lemma decode_app_nosplit a b : ends13 a && starts10 b = false ->
  decode_chunks (a ++ b) = decode_chunks a ++ decode_chunks b.
Proof. intros H. rewrite !decode_chunks_gen. apply (gen_app_nosplit_len _ _ (length a)); [lia|exact H]. Qed.

(* ------------------------------------------------------------------------------------------ *)
(* pieces, marks and the line-end proviso                                                     *)
(* ------------------------------------------------------------------------------------------ *)

Definition chunks (ps : list T.piece) : list chunk := flat_map T.piece_chunks ps.

Lemma chunks_app a b : chunks (a ++ b) = chunks a ++ chunks b.
Proof. unfold chunks. apply flat_map_app. Qed.

Lemma mark_chunks p : E.is_mark p = true -> T.piece_chunks p = [].
Proof. destruct p as [[|x bs]| | |]; try discriminate. reflexivity. Qed.

Lemma marks_chunks l : forallb E.is_mark l = true -> chunks l = [].
Proof.
  induction l as [|p l IH]; intros H; [reflexivity|]. cbn [forallb] in H. apply andb_true_iff in H. destruct H as [H1 H2].
  unfold chunks. cbn [flat_map]. rewrite (mark_chunks p H1). apply IH. exact H2.
Qed.

Lemma nonmark_chunks p : E.is_mark p = false ->
  T.piece_chunks p <> [] /\ ends13 (T.piece_chunks p) = E.ends_cr p /\ starts10 (T.piece_chunks p) = E.starts_lf p.
Proof.
  destruct p as [[|x bs]|hex ds|e|bs]; intros H; try discriminate; cbn [T.piece_chunks E.ends_cr E.starts_lf].
  - split; [discriminate|]. split; [|reflexivity].
    unfold ends13. change (x :: bs) with ([x] ++ bs) at 2. rewrite rev_app_distr. cbn [rev app].
    rewrite <- (rev_involutive (map CLit (x :: bs))). rewrite <- map_rev.
    change (x :: bs) with ([x] ++ bs). rewrite rev_app_distr. cbn [rev app].
    destruct (rev bs) as [|z r] eqn:Er.
    + cbn. reflexivity.
    + cbn [app map rev]. rewrite last_last. reflexivity.
  - repeat split; discriminate || reflexivity.
  - repeat split; discriminate || reflexivity.
  - split; [discriminate|]. split; [|reflexivity]. unfold ends13.
    change (CRef [] :: map CLit bs ++ [CRef []]) with ((CRef [] :: map CLit bs) ++ [CRef []]). rewrite last_last. reflexivity.
Qed.

Lemma crlf_ok_marks pend l X : forallb E.is_mark l = true -> E.crlf_ok pend (l ++ X) = E.crlf_ok pend X.
Proof.
  induction l as [|p l IH]; intros H; [reflexivity|]. cbn [forallb] in H. apply andb_true_iff in H. destruct H as [H1 H2].
  cbn [app E.crlf_ok]. rewrite H1. apply IH. exact H2.
Qed.

(* nothing that follows, through marks only, starts with LF *)
Lemma crlf_ok_true_starts l : E.crlf_ok true l = true -> starts10 (chunks l) = false.
Proof.
  induction l as [|p l IH]; intros H; [reflexivity|]. cbn [E.crlf_ok] in H. unfold chunks. cbn [flat_map].
  destruct (E.is_mark p) eqn:Em.
  - rewrite (mark_chunks p Em). apply IH. exact H.
  - destruct (nonmark_chunks p Em) as (Hne & _ & Hs). cbn [andb] in H. apply andb_true_iff in H. destruct H as [H _].
    destruct (T.piece_chunks p) as [|c cs] eqn:Ec; [congruence|]. cbn [app].
    change (starts10 (c :: cs ++ flat_map T.piece_chunks l)) with (starts10 (c :: cs)). rewrite Hs.
    apply negb_true_iff in H. exact H.
Qed.

Lemma crlf_split_tail p l : E.crlf_split_ok (p :: l) = true -> E.crlf_split_ok l = true.
Proof. cbn [E.crlf_split_ok]. intros H. apply andb_true_iff in H. apply H. Qed.

Lemma crlf_split_app_r a b : E.crlf_split_ok (a ++ b) = true -> E.crlf_split_ok b = true.
Proof. induction a as [|p a IH]; [auto|]. cbn [app]. intros H. apply IH. apply (crlf_split_tail _ _ H). Qed.

Lemma crlf_ok_app_l pend a b : E.crlf_ok pend (a ++ b) = true -> E.crlf_ok pend a = true.
Proof.
  revert pend. induction a as [|p a IH]; intros pend H; [reflexivity|]. cbn [app E.crlf_ok] in *.
  destruct (E.is_mark p); [apply IH; exact H|]. apply andb_true_iff in H. destruct H as [H1 H2].
  rewrite H1. apply IH. exact H2.
Qed.

Lemma crlf_split_app_l a b : E.crlf_split_ok (a ++ b) = true -> E.crlf_split_ok a = true.
Proof.
  induction a as [|p a IH]; [reflexivity|]. cbn [app E.crlf_split_ok]. intros H. apply andb_true_iff in H.
  destruct H as [H1 H2]. rewrite (IH H2), andb_true_r.
  destruct (E.ends_cr p); [|reflexivity]. destruct a as [|m0 a']; [reflexivity|]. cbn [app] in H1.
  destruct (E.is_mark m0); [|reflexivity]. apply (crlf_ok_app_l _ _ _ H1).
Qed.

(* the chunks of A end with CR, A is followed by a mark: then what follows the mark does not start with LF *)
Lemma crlf_cut : forall A B, E.crlf_split_ok (A ++ E.mark :: B) = true ->
  ends13 (chunks A) = true -> E.crlf_ok true B = true.
Proof.
  induction A as [|p A IH]; intros B H He; [discriminate|].
  destruct (forallb E.is_mark A) eqn:EmA.
  - (* p is the last piece with chunks *)
    assert (Ec : chunks (p :: A) = T.piece_chunks p).
    { unfold chunks. cbn [flat_map]. fold (chunks A). rewrite (marks_chunks A EmA), app_nil_r. reflexivity. }
    rewrite Ec in He. destruct (E.is_mark p) eqn:Emp; [rewrite (mark_chunks p Emp) in He; discriminate|].
    destruct (nonmark_chunks p Emp) as (_ & H13 & _). rewrite H13 in He.
    cbn [app E.crlf_split_ok] in H. apply andb_true_iff in H. destruct H as [H _]. rewrite He in H.
    destruct A as [|m0 A'].
    + cbn [app] in H. exact H.
    + cbn [app forallb] in *. apply andb_true_iff in EmA. destruct EmA as [Em0 EmA']. rewrite Em0 in H.
      rewrite crlf_ok_marks in H by exact EmA'. cbn [E.crlf_ok] in H. exact H.
  - apply IH; [apply (crlf_split_tail p); exact H|].
    assert (Hne : chunks A <> []).
    { intros E0. clear - EmA E0. induction A as [|q A IH]; [discriminate|]. cbn [forallb] in EmA.
      unfold chunks in E0. cbn [flat_map] in E0. apply app_eq_nil in E0. destruct E0 as [E1 E2].
      destruct (E.is_mark q) eqn:Eq; [cbn [andb] in EmA; apply IH; assumption|].
      destruct (nonmark_chunks q Eq) as [Hn _]. congruence. }
    unfold chunks in He |- *. cbn [flat_map] in He. rewrite ends13_app in He by exact Hne. exact He.
Qed.

(* ------------------------------------------------------------------------------------------ *)
(* character data: the strings appended are the decoding of the inlined pieces                 *)
(* ------------------------------------------------------------------------------------------ *)

(* the buffer holds acc; q follows *)
Definition pend_ok (acc : list chunk) (q : list T.piece) : bool :=
  if ends13 acc then match q with m0 :: q' => if E.is_mark m0 then E.crlf_ok true q' else true | [] => true end
  else true.

Section Sem.
Variable decls : list E.edecl.
Hypothesis Hdecls : Forall decl_ok decls.

Lemma first_decl_ok n d vps : first_decl decls n = Some d -> E.e_value d = E.EText vps -> Forall (ep_ok true) vps.
Proof.
  intros Hf Hv. unfold first_decl in Hf. apply find_some in Hf. destruct Hf as [Hin _].
  rewrite Forall_forall in Hdecls. specialize (Hdecls _ Hin). unfold decl_ok in Hdecls. rewrite Hv in Hdecls. apply Hdecls.
Qed.

Lemma ep_nonmark m p : ep_ok m (E.EP p) -> E.is_mark p = false.
Proof.
  intros [Hv _]. destruct p as [[|x bs]| | |]; try reflexivity. cbn in Hv. discriminate.
Qed.

Lemma Exp_sem : forall m acc ps q tr F, Exp decls m acc ps q tr F ->
  Forall (ep_ok m) ps -> Forall (chunk_okm m) acc ->
  pend_ok acc q = true -> E.crlf_split_ok q = true ->
  concat F = decode_chunks (acc ++ chunks q).
Proof.
  intros m acc ps q tr F H.
  induction H as [m acc|m acc p r q tr F _ IH|m acc n r d vps qv trv Fv q tr F Hfd Hval _ IHv _ IHr];
    intros Hok Hacc Hp Hs.
  - unfold chunks. cbn [flat_map]. rewrite app_nil_r. destruct (emit_valid m acc Hacc) as [Eo _].
    unfold emit. rewrite <- Eo. destruct (run_text_chunks m acc); cbn [concat]; rewrite ?app_nil_r; reflexivity.
  - apply Forall_cons_iff in Hok. destruct Hok as [Hp0 Hr].
    unfold chunks. cbn [flat_map]. fold (chunks q). rewrite app_assoc. apply IH.
    + exact Hr.
    + apply Forall_app. split; [exact Hacc|apply ep_chunks; exact Hp0].
    + pose proof (ep_nonmark _ _ Hp0) as Em. destruct (nonmark_chunks p Em) as (Hne & H13 & _).
      unfold pend_ok. rewrite ends13_app by exact Hne. rewrite H13.
      cbn [E.crlf_split_ok] in Hs. apply andb_true_iff in Hs. destruct Hs as [Hs _]. exact Hs.
    + apply (crlf_split_tail _ _ Hs).
  - apply Forall_cons_iff in Hok. destruct Hok as [_ Hr].
    pose proof (first_decl_ok _ _ _ Hfd Hval) as Hvok.
    assert (Hs1 : E.crlf_split_ok (qv ++ E.mark :: q) = true) by (apply (crlf_split_tail _ _ Hs)).
    rewrite !concat_app.
    rewrite (IHv Hvok ltac:(constructor) eq_refl (crlf_split_app_l _ _ Hs1)).
    rewrite (IHr Hr ltac:(constructor) eq_refl (crlf_split_tail _ _ (crlf_split_app_r _ _ Hs1))).
    cbn [app]. destruct (emit_valid m acc Hacc) as [Eo _].
    replace (concat (emit m acc)) with (decode_chunks acc)
      by (unfold emit; rewrite <- Eo; destruct (run_text_chunks m acc); cbn [concat]; rewrite ?app_nil_r; reflexivity).
    change (E.mark :: qv ++ E.mark :: q) with ([E.mark] ++ qv ++ [E.mark] ++ q).
    rewrite !chunks_app. change (chunks [E.mark]) with (@nil chunk). cbn [app].
    rewrite (decode_app_nosplit acc).
    + f_equal. symmetry. apply decode_app_nosplit.
      destruct (ends13 (chunks qv)) eqn:E13; [|reflexivity]. cbn [andb].
      apply crlf_ok_true_starts. apply (crlf_cut qv q Hs1 E13).
    + unfold pend_ok in Hp. destruct (ends13 acc); [|reflexivity]. cbn [andb]. cbn [E.is_mark E.mark] in Hp.
      rewrite <- chunks_app. change (qv ++ q) with (qv ++ [] ++ q).
      pose proof (crlf_ok_true_starts _ Hp) as X. rewrite chunks_app in X. unfold chunks at 2 in X. cbn [flat_map] in X.
      change (T.piece_chunks E.mark) with (@nil chunk) in X. cbn [app] in X. fold (chunks q) in X.
      rewrite chunks_app. exact X.
Qed.

End Sem.

(* ------------------------------------------------------------------------------------------ *)
(* attribute values: the buffer is that of the inlined pieces at the top level                *)
(* ------------------------------------------------------------------------------------------ *)

Lemma nosplit_hoist a b : ends13 a && starts10 b = false -> ~ (HoistProofs.ends_cr a /\ HoistProofs.starts_lf b).
Proof.
  intros H [[a' ->] [b' ->]]. unfold ends13, starts10 in H. rewrite last_last in H. cbn in H. discriminate.
Qed.

Lemma pfa_pending x nx t : tb_pending_cr (tb_push_from_attr x nx t) = tb_pending_cr t.
Proof. unfold tb_push_from_attr. destruct ((x =? 13) && match nx with Some y => y =? 10 | None => false end); reflexivity. Qed.

Lemma pcba_pending d : forall bs t t', tb_pending_cr t = false -> push_char_bytes_attr bs d t = Some t' -> tb_pending_cr t' = false.
Proof.
  induction bs as [|x bs IH]; intros t t' Hp H; cbn [push_char_bytes_attr] in H; [injection H as <-; exact Hp|].
  destruct d.
  - destruct (x =? 60); [discriminate|]. apply (IH _ _ ltac:(rewrite pfa_pending; exact Hp) H).
  - apply (IH (tb_push_raw x t) _ eq_refl H).
Qed.

Lemma push_attr_pending d : forall cs t t', tb_pending_cr t = false -> push_attr_chunks d cs t = Some t' -> tb_pending_cr t' = false.
Proof.
  induction cs as [|[x|bs] cs IH]; intros t t' Hp H; cbn [push_attr_chunks] in H.
  - injection H as <-. exact Hp.
  - apply (IH _ _ ltac:(rewrite pfa_pending; exact Hp) H).
  - destruct (push_char_bytes_attr bs d t) as [t1|] eqn:E; [|discriminate].
    apply (IH _ _ (pcba_pending d _ _ _ Hp E) H).
Qed.

Definition plain_byte (x : N) : bool := negb ((x =? 9) || (x =? 10) || (x =? 13) || (x =? 60)).

Lemma pcba_eq : forall bs t, tb_pending_cr t = false -> forallb plain_byte bs = true ->
  push_char_bytes_attr bs true t = push_char_bytes_attr bs false t.
Proof.
  induction bs as [|x bs IH]; intros t Hp Hb; [reflexivity|]. cbn [forallb] in Hb. apply andb_true_iff in Hb.
  destruct Hb as [Hx Hb]. unfold plain_byte in Hx. cbn [push_char_bytes_attr].
  replace (x =? 60) with false by lia.
  assert (E : tb_push_from_attr x None t = tb_push_raw x t).
  { unfold tb_push_from_attr, tb_push_raw, tb_flush. rewrite Hp. rewrite andb_false_r.
    replace ((x =? 10) || (x =? 13) || (x =? 9)) with false by lia. reflexivity. }
  rewrite E. apply IH; [reflexivity|exact Hb].
Qed.

(* in entity mode a value piece that is no reference to '<' is pushed as at the top level *)
Lemma piece_push_eq p t : ep_ok true (E.EP p) -> E.is_lt_ref p = false -> tb_pending_cr t = false ->
  push_attr_chunks true (T.piece_chunks p) t = push_attr_chunks false (T.piece_chunks p) t.
Proof.
  intros [Hv Hc] Hlt Hp. specialize (Hc eq_refl).
  destruct p as [bs|hex ds|e|bs]; cbn [T.wf_vpiece] in Hv; try discriminate; cbn [T.piece_chunks].
  - apply (push_attr_lits_depth bs t).
  - cbn [push_attr_chunks]. rewrite pcba_eq; [reflexivity|exact Hp|].
    cbn [E.charref_ok_in_value] in Hc. cbv zeta in Hc.
    change (T.utf8 (T.ref_val hex ds)) with (encode_utf8 (T.ref_val hex ds)).
    destruct (T.ref_val hex ds <? 128) eqn:E128.
    + rewrite encode_ascii by exact E128. cbn [forallb]. unfold plain_byte. lia.
    + pose proof (encode_high _ E128) as Hh. revert Hh. apply CstLex.forallb_imp. intros x Hx. unfold plain_byte. lia.
  - cbn [push_attr_chunks]. rewrite pcba_eq; [reflexivity|exact Hp|]. destruct e; try reflexivity. discriminate.
Qed.

Section SemAttr.
Variable decls : list E.edecl.
Hypothesis Hdecls : Forall decl_ok decls.
Hypothesis Hadjs : Forall decl_adj decls.

Lemma first_decl_adj n d vps : first_decl decls n = Some d -> E.e_value d = E.EText vps -> E.no_adjacent_elit vps = true.
Proof.
  intros Hf Hv. unfold first_decl in Hf. apply find_some in Hf. destruct Hf as [Hin _].
  rewrite Forall_forall in Hadjs. specialize (Hadjs _ Hin). unfold decl_adj in Hadjs. rewrite Hv in Hadjs. exact Hadjs.
Qed.

Lemma AExp_sem : forall m ps t q tr t', AExp decls m ps t q tr t' ->
  Forall (ep_ok m) ps -> E.no_adjacent_elit ps = true -> tb_pending_cr t = false ->
  E.crlf_split_ok q = true ->
  push_attr_chunks false (chunks q) t = Some t' /\ tb_pending_cr t' = false.
Proof.
  intros m ps t q tr t' H.
  induction H as [m t|m p r t t1 q tr t' Hlt Hpush Hrest IH|m n r d vps t qv trv t1 q tr t' Hfd Hval _ IHv _ IHr];
    intros Hok Hadj Hp Hs.
  - split; [reflexivity|exact Hp].
  - apply Forall_cons_iff in Hok. destruct Hok as [Hp0 Hr].
    assert (Hpush' : push_attr_chunks false (T.piece_chunks p) t = Some t1).
    { destruct m; [|exact Hpush]. rewrite <- piece_push_eq; auto. }
    pose proof (push_attr_pending false _ _ _ Hp Hpush') as Hp1.
    destruct (IH Hr (no_adj_etail _ _ Hadj) Hp1 (crlf_split_tail _ _ Hs)) as [E1 Hp2].
    split; [|exact Hp2]. unfold chunks. cbn [flat_map]. fold (chunks q).
    rewrite push_attr_chunks_app; [rewrite Hpush'; cbn [HoistProofs.obind]; exact E1|].
    apply nosplit_hoist.
    pose proof (ep_nonmark _ _ Hp0) as Em. destruct (nonmark_chunks p Em) as (_ & H13 & _). rewrite H13.
    destruct (E.ends_cr p) eqn:Ecr; [|reflexivity]. cbn [andb].
    cbn [E.crlf_split_ok] in Hs. rewrite Ecr in Hs. apply andb_true_iff in Hs. destruct Hs as [Hs _].
    (* what follows p *)
    inversion Hrest as [? ?|? c r' ? ? q' ? ? ? ? ?|? ? r' ? ? ? qv' ? ? q' ? ?]; subst.
    + reflexivity.
    + (* another piece of the same list: not a literal *)
      assert (Hlit : E.is_elit (E.EP p) = true) by (destruct p as [[|? ?]| | |]; try discriminate; reflexivity).
      cbn [E.no_adjacent_elit] in Hadj. rewrite Hlit in Hadj. cbn [andb] in Hadj.
      apply andb_true_iff in Hadj. destruct Hadj as [Hc _]. apply negb_true_iff in Hc.
      apply Forall_cons_iff in Hr. destruct Hr as [[Hvc _] _].
      unfold chunks. cbn [flat_map].
      destruct c as [bs|hex ds|e|bs]; cbn [E.is_elit] in Hc; try discriminate; try reflexivity.
    + cbn [E.is_mark E.mark] in Hs. unfold chunks. cbn [flat_map T.piece_chunks E.mark map app].
      apply crlf_ok_true_starts. exact Hs.
  - apply Forall_cons_iff in Hok. destruct Hok as [_ Hr].
    pose proof (first_decl_ok decls Hdecls _ _ _ Hfd Hval) as Hvok.
    pose proof (first_decl_adj _ _ _ Hfd Hval) as Hvadj.
    assert (Hs1 : E.crlf_split_ok (qv ++ E.mark :: q) = true) by (apply (crlf_split_tail _ _ Hs)).
    destruct (IHv Hvok Hvadj Hp (crlf_split_app_l _ _ Hs1)) as [Ev Hp1].
    destruct (IHr Hr (no_adj_etail _ _ Hadj) Hp1 (crlf_split_tail _ _ (crlf_split_app_r _ _ Hs1))) as [Er Hp2].
    split; [|exact Hp2].
    change (E.mark :: qv ++ E.mark :: q) with ([E.mark] ++ qv ++ [E.mark] ++ q).
    rewrite !chunks_app. change (chunks [E.mark]) with (@nil chunk). cbn [app].
    rewrite push_attr_chunks_app; [rewrite Ev; cbn [HoistProofs.obind]; exact Er|].
    apply nosplit_hoist. destruct (ends13 (chunks qv)) eqn:E13; [|reflexivity]. cbn [andb].
    apply crlf_ok_true_starts. apply (crlf_cut qv q Hs1 E13).
Qed.

End SemAttr.

(* ------------------------------------------------------------------------------------------ *)
(* the inlining function of the specification yields these derivations                       *)
(* ------------------------------------------------------------------------------------------ *)

Section Link.
Variable decls : list E.edecl.
Hypothesis Hdecls : Forall decl_ok decls.

Lemma lookup_map (g : E.edecl -> option E.xval) n : forall l,
  E.lookup (map (fun e => (E.e_name e, g e)) l) n =
  match find (fun d => E.beq (E.e_name d) n) l with Some d => g d | None => None end.
Proof.
  induction l as [|e l IH]; [reflexivity|]. cbn [map E.lookup find]. destruct (E.beq (E.e_name e) n); [reflexivity|exact IH].
Qed.

Lemma lookup_level k n :
  E.lookup (E.level decls k) n =
  match k with
  | O => None
  | S k' => match first_decl decls n with
            | Some d => E.inline_value (E.level decls k') (E.e_value d)
            | None => None
            end
  end.
Proof.
  destruct k as [|k']; cbn [E.level].
  - rewrite (lookup_map (fun _ => None)). destruct (find _ decls); reflexivity.
  - apply (lookup_map (fun e => E.inline_value (E.level decls k') (E.e_value e))).
Qed.

(* a value found at level k, usable as pieces *)
Lemma lookup_pieces k n v qv : E.lookup (E.level decls k) n = Some v -> E.x_pieces v = Some qv ->
  exists k' d vps, k = S k' /\ first_decl decls n = Some d /\ E.e_value d = E.EText vps /\
                   E.inline_ps (E.level decls k') false true vps = Some (qv, E.x_trace v).
Proof.
  intros Hl Hx. rewrite lookup_level in Hl. destruct k as [|k']; [discriminate|].
  destruct (first_decl decls n) as [d|] eqn:Hf; [|discriminate].
  exists k', d. destruct (E.e_value d) as [vps|its] eqn:Ev; cbn [E.inline_value] in Hl.
  - exists vps. destruct (E.inline_ps (E.level decls k') false true vps) as [[a b0]|] eqn:Ei; [|discriminate].
    cbn [E.obind fst snd] in Hl. injection Hl as <-. cbn [E.x_pieces E.x_trace] in *. injection Hx as <-. auto.
  - destruct (E.inline_items _ _ _); cbn [E.obind] in Hl; [|discriminate]. injection Hl as <-. discriminate.
Qed.

Lemma inline_Exp : forall k ie ps q tr, E.inline_ps (E.level decls k) false ie ps = Some (q, tr) ->
  forall m acc, exists F, Exp decls m acc ps q tr F.
Proof.
  induction k as [k IHk] using lt_wf_ind. intros ie ps. induction ps as [|p ps IH]; intros q tr H m acc.
  - injection H as <- <-. eexists. constructor.
  - cbn [E.inline_ps] in H. destruct p as [p|n].
    + cbn [andb] in H. destruct (E.inline_ps (E.level decls k) false ie ps) as [[q' tr']|] eqn:Er; [|discriminate].
      cbn [E.obind fst snd] in H. injection H as <- <-.
      destruct (IH _ _ eq_refl m (acc ++ T.piece_chunks p)) as [F HF]. exists F. constructor. exact HF.
    + destruct (E.lookup (E.level decls k) n) as [v|] eqn:El; [|discriminate]. cbn [E.obind] in H.
      destruct (E.x_pieces v) as [qv|] eqn:Ex; [|discriminate]. cbn [E.obind andb] in H.
      destruct (E.inline_ps (E.level decls k) false ie ps) as [[q' tr']|] eqn:Er; [|discriminate].
      cbn [E.obind fst snd] in H. injection H as <- <-.
      destruct (lookup_pieces _ _ _ _ El Ex) as (k' & d & vps & -> & Hf & Hv & Hi).
      destruct (IHk k' ltac:(lia) true vps qv _ Hi true []) as [Fv HFv].
      destruct (IH _ _ eq_refl m []) as [F HF].
      eexists. eapply Exp_ref; eassumption.
Qed.

(* for_attr only removes results *)
Lemma inline_ps_attr tb ie : forall ps q tr, E.inline_ps tb true ie ps = Some (q, tr) ->
  E.inline_ps tb false ie ps = Some (q, tr).
Proof.
  induction ps as [|p ps IH]; intros q tr H; [exact H|]. cbn [E.inline_ps] in *. destruct p as [p|n].
  - cbn [andb] in *. destruct (ie && E.is_lt_ref p); [discriminate|].
    destruct (E.inline_ps tb true ie ps) as [[q' tr']|] eqn:Er; [|discriminate].
    rewrite (IH _ _ eq_refl). exact H.
  - destruct (E.lookup tb n) as [v|]; [|discriminate]. cbn [E.obind] in *.
    destruct (E.x_pieces v) as [qv|]; [|discriminate]. cbn [E.obind andb] in *.
    destruct (existsb E.is_lt_ref qv); [discriminate|].
    destruct (E.inline_ps tb true ie ps) as [[q' tr']|] eqn:Er; [|discriminate].
    rewrite (IH _ _ eq_refl). exact H.
Qed.

Lemma push_top_total cs t : tb_pending_cr t = false -> exists t', push_attr_chunks false cs t = Some t'.
Proof. intros H. destruct t as [b0 p]. cbn in H. subst p. rewrite attr_top_inv. eauto. Qed.

(* inside a value, with no reference to '<' anywhere in the result *)
Lemma inline_AExp_in : forall k ps q tr, E.inline_ps (E.level decls k) false true ps = Some (q, tr) ->
  existsb E.is_lt_ref q = false -> Forall (ep_ok true) ps ->
  forall t, tb_pending_cr t = false -> exists t', AExp decls true ps t q tr t' /\ tb_pending_cr t' = false.
Proof.
  induction k as [k IHk] using lt_wf_ind. induction ps as [|p ps IH]; intros q tr H Hlt Hok t Hp.
  - injection H as <- <-. exists t. split; [constructor|exact Hp].
  - apply Forall_cons_iff in Hok. destruct Hok as [Hp0 Hr]. cbn [E.inline_ps] in H. destruct p as [p|n].
    + cbn [andb] in H. destruct (E.inline_ps (E.level decls k) false true ps) as [[q' tr']|] eqn:Er; [|discriminate].
      cbn [E.obind fst snd] in H. injection H as <- <-. cbn [existsb] in Hlt. apply orb_false_iff in Hlt. destruct Hlt as [Hl1 Hl2].
      destruct (push_top_total (T.piece_chunks p) t Hp) as [t1 E1].
      assert (E1' : push_attr_chunks true (T.piece_chunks p) t = Some t1) by (rewrite piece_push_eq; auto).
      pose proof (push_attr_pending true _ _ _ Hp E1') as Hp1.
      destruct (IH _ _ eq_refl Hl2 Hr t1 Hp1) as (t' & HA & Hp').
      exists t'. split; [|exact Hp']. econstructor; [intros _; exact Hl1|exact E1'|exact HA].
    + destruct (E.lookup (E.level decls k) n) as [v|] eqn:El; [|discriminate]. cbn [E.obind] in H.
      destruct (E.x_pieces v) as [qv|] eqn:Ex; [|discriminate]. cbn [E.obind andb] in H.
      destruct (E.inline_ps (E.level decls k) false true ps) as [[q' tr']|] eqn:Er; [|discriminate].
      cbn [E.obind fst snd] in H. injection H as <- <-.
      cbn [existsb E.is_lt_ref E.mark] in Hlt. rewrite existsb_app in Hlt. cbn [existsb E.is_lt_ref E.mark] in Hlt.
      rewrite !orb_false_iff in Hlt. destruct Hlt as [_ [Hl1 [_ Hl2]]].
      destruct (lookup_pieces _ _ _ _ El Ex) as (k' & d & vps & -> & Hf & Hv & Hi).
      destruct (IHk k' ltac:(lia) vps qv _ Hi Hl1 (first_decl_ok decls Hdecls _ _ _ Hf Hv) t Hp) as (t1 & HA1 & Hp1).
      destruct (IH _ _ eq_refl Hl2 Hr t1 Hp1) as (t' & HA & Hp').
      exists t'. split; [|exact Hp']. eapply AExp_ref; eassumption.
Qed.

(* an attribute value, in mode m *)
Lemma inline_AExp : forall k m ps q tr, E.inline_ps (E.level decls k) true m ps = Some (q, tr) ->
  Forall (ep_ok m) ps ->
  forall t, tb_pending_cr t = false -> exists t', AExp decls m ps t q tr t' /\ tb_pending_cr t' = false.
Proof.
  intros k m. induction ps as [|p ps IH]; intros q tr H Hok t Hp.
  - injection H as <- <-. exists t. split; [constructor|exact Hp].
  - apply Forall_cons_iff in Hok. destruct Hok as [Hp0 Hr]. cbn [E.inline_ps] in H. destruct p as [p|n].
    + cbn [andb] in H. destruct (m && E.is_lt_ref p) eqn:Elt; [discriminate|].
      destruct (E.inline_ps (E.level decls k) true m ps) as [[q' tr']|] eqn:Er; [|discriminate].
      cbn [E.obind fst snd] in H. injection H as <- <-.
      destruct (push_top_total (T.piece_chunks p) t Hp) as [t1 E1].
      assert (E1' : push_attr_chunks m (T.piece_chunks p) t = Some t1).
      { destruct m; [|exact E1]. cbn [andb] in Elt. rewrite piece_push_eq; auto. }
      pose proof (push_attr_pending m _ _ _ Hp E1') as Hp1.
      destruct (IH _ _ eq_refl Hr t1 Hp1) as (t' & HA & Hp').
      exists t'. split; [|exact Hp']. econstructor; [intros ->; exact Elt|exact E1'|exact HA].
    + destruct (E.lookup (E.level decls k) n) as [v|] eqn:El; [|discriminate]. cbn [E.obind] in H.
      destruct (E.x_pieces v) as [qv|] eqn:Ex; [|discriminate]. cbn [E.obind andb] in H.
      destruct (existsb E.is_lt_ref qv) eqn:Elt; [discriminate|].
      destruct (E.inline_ps (E.level decls k) true m ps) as [[q' tr']|] eqn:Er; [|discriminate].
      cbn [E.obind fst snd] in H. injection H as <- <-.
      destruct (lookup_pieces _ _ _ _ El Ex) as (k' & d & vps & -> & Hf & Hv & Hi).
      destruct (inline_AExp_in k' vps qv _ Hi Elt (first_decl_ok decls Hdecls _ _ _ Hf Hv) t Hp) as (t1 & HA1 & Hp1).
      destruct (IH _ _ eq_refl Hr t1 Hp1) as (t' & HA & Hp').
      exists t'. split; [|exact Hp']. eapply AExp_ref; eassumption.
Qed.

End Link.

Print Assumptions Exp_sem.
Print Assumptions AExp_sem.
Print Assumptions inline_Exp.
Print Assumptions inline_AExp.
