(* Proofs/ErrShiftEntProlog.v -- C14 (entities), part 7: the general entities recorded by the DOCTYPE.
   When the prolog stands at a position q behind the DOCTYPE (state [prolog_state2] of
   ErrShiftDtdFinal.v) and the text goes on, every recorded entity has its name below q and its
   value at least 4 bytes below q: the value is followed by its quote and by ">", and the internal
   subset by "]" and ">" ([prolog_entities]).  The loop detector floor is still 0 ([prolog_floor]). *)
From Coq Require Import Ascii String.
From Coq Require Import List Arith NArith Bool Lia ZifyBool ZifyN ZifyNat.
Import ListNotations.
From RX Require Import Generated.
From RX.Model Require Import Base CharClass Stream Tokenizer Doc Builder Parse.
From RX.Proofs Require Import Tactics OptionsParam BudgetStream BudgetTok RangeShiftTokenizer
  ErrShiftMidCont ErrShiftDtdCont ErrShiftDtdFinal.
Open Scope N_scope.

Definition ENT (m p : N) (e : entity) : Prop :=
  sl_start (en_name e) <= sl_end (en_name e) /\ sl_end (en_name e) < p /\
  sl_start (en_value e) <= sl_end (en_value e) /\ sl_end (en_value e) + m <= p.
(* entities as stated, and the floor *)
Definition EI (m p : N) (c : context) : Prop := Forall (ENT m p) (c_entities c) /\ c_entity_floor c = 0.

Lemma ENT_mono m m' p p' e : m' <= m -> p <= p' -> ENT m p e -> ENT m' p' e.
Proof. intros H1 H2 (A & B & C & D). unfold ENT. lia. Qed.
Lemma EI_mono m m' p p' c : m' <= m -> p <= p' -> EI m p c -> EI m' p' c.
Proof. intros H1 H2 [H F]. split; [|exact F]. eapply Forall_impl; [|exact H]. intros e. apply ENT_mono; assumption. Qed.

Section P.
Variable T : bytes.
Notation tk := (Parse.token T).
Notation wfl := (wfl T).
Notation mvk := (mvk T).

(* the callback restricted to the tokens of a prolog *)
Definition evP (tok : Tokenizer.token) (c : context) : res context :=
  match tok with TComment _ _ | TPI _ _ _ | TEntityDecl _ _ => tk tok c | _ => Ok c end.

Lemma parse_comment_evP s c : parse_comment T context evP s c = parse_comment T context tk s c.
Proof. reflexivity. Qed.
Lemma parse_pi_evP s c : parse_pi T context evP s c = parse_pi T context tk s c.
Proof. reflexivity. Qed.
Lemma parse_entity_decl_evP s c : parse_entity_decl T context evP s c = parse_entity_decl T context tk s c.
Proof. reflexivity. Qed.

Lemma parse_misc_loop_evP : forall fuel s c, parse_misc_loop T context evP fuel s c = parse_misc_loop T context tk fuel s c.
Proof.
  induction fuel as [|fu IH]; intros s c; [reflexivity|]. cbn [parse_misc_loop].
  destruct (at_end s); [reflexivity|]. cbv zeta.
  destruct (starts_with _ (b "<!--")).
  { rewrite parse_comment_evP. destruct (parse_comment T context tk _ c) as [[s1 c1]| | |]; cbn [bind]; [apply IH|reflexivity..]. }
  destruct (starts_with _ (b "<?")); [|reflexivity].
  rewrite parse_pi_evP. destruct (parse_pi T context tk _ c) as [[s1 c1]| | |]; cbn [bind]; [apply IH|reflexivity..].
Qed.

Lemma parse_doctype_loop_evP : forall fuel st s c,
  parse_doctype_loop T context evP fuel st s c = parse_doctype_loop T context tk fuel st s c.
Proof.
  induction fuel as [|fu IH]; intros st s c; [reflexivity|]. cbn [parse_doctype_loop].
  destruct (at_end s); [reflexivity|]. cbv zeta.
  destruct (starts_with _ (b "<!ENTITY")).
  { rewrite parse_entity_decl_evP. destruct (parse_entity_decl T context tk _ c) as [[s1 c1]| | |]; cbn [bind]; [apply IH|reflexivity..]. }
  destruct (starts_with _ (b "<!--")).
  { rewrite parse_comment_evP. destruct (parse_comment T context tk _ c) as [[s1 c1]| | |]; cbn [bind]; [apply IH|reflexivity..]. }
  destruct (starts_with _ (b "<?")).
  { rewrite parse_pi_evP. destruct (parse_pi T context tk _ c) as [[s1 c1]| | |]; cbn [bind]; [apply IH|reflexivity..]. }
  destruct (starts_with _ (b "]")); [reflexivity|].
  destruct (_ || _); [|reflexivity].
  destruct (consume_decl T _) as [s1| | |]; [apply IH|reflexivity..].
Qed.

Lemma parse_doctype_evP s c : parse_doctype T context evP s c = parse_doctype T context tk s c.
Proof. reflexivity. Qed.

Lemma misc_steps_evP : forall n s c, misc_steps T context evP n s c = misc_steps T context tk n s c.
Proof.
  induction n as [|n IH]; intros s c; [reflexivity|]. cbn [misc_steps].
  destruct (at_end s); [reflexivity|]. cbv zeta.
  destruct (starts_with _ (b "<!--")).
  { rewrite parse_comment_evP. destruct (parse_comment T context tk _ c) as [[s1 c1]| | |]; [apply IH|reflexivity..]. }
  destruct (starts_with _ (b "<?")); [|reflexivity].
  rewrite parse_pi_evP. destruct (parse_pi T context tk _ c) as [[s1 c1]| | |]; [apply IH|reflexivity..].
Qed.

(* ---- comments and processing instructions keep the entities and the floor ---- *)
Lemma upd_keep_ctx kind r c x : append_node kind r c = Ok x ->
  c_entities (snd x) = c_entities c /\ c_entity_floor (snd x) = c_entity_floor c.
Proof. unfold append_node. intros H. bsteps. split; reflexivity. Qed.

Lemma reset_keep c c' : reset_after_text T c = Ok c' ->
  c_entities c' = c_entities c /\ c_entity_floor c' = c_entity_floor c.
Proof.
  unfold reset_after_text, merge_text. intros H. bsteps; split; reflexivity.
Qed.

Lemma leaf_keep kind r c c' :
  (let! c1 := reset_after_text T c in let! (_, c2) := append_node kind r c1 in Ok c2) = Ok c' ->
  c_entities c' = c_entities c /\ c_entity_floor c' = c_entity_floor c.
Proof.
  intros H. apply bind_ok in H. destruct H as [c1 [H1 H]]. apply bind_ok in H. destruct H as [[id c2] [H2 H]].
  injection H as <-. apply reset_keep in H1. apply upd_keep_ctx in H2. cbn [snd] in H2. destruct H1, H2. split; congruence.
Qed.

Section M.
Variable m0 : N.
Definition Inv (p : N) (c : context) : Prop := EI m0 p c.

Lemma Inv_mono p p' c : p <= p' -> Inv p c -> Inv p' c.
Proof. intros H. apply EI_mono; [lia|exact H]. Qed.

Lemma Hev_r tok r c c' p : tok_range tok = Some r -> evP tok c = Ok c' -> Inv p c -> p <= fst r -> fst r < snd r -> Inv (snd r) c'.
Proof.
  intros Ht H HI H1 H2. assert (Hp : p <= snd r) by lia.
  destruct tok; cbn [tok_range] in Ht; try discriminate; injection Ht as <-; cbn [evP] in H.
  - unfold Parse.token in H. cbn [token_with] in H. apply leaf_keep in H. destruct H as [E1 E2].
    destruct HI as [A B]. split; [rewrite E1; eapply Forall_impl; [|exact A]; intros e; apply ENT_mono; lia|congruence].
  - unfold Parse.token in H. cbn [token_with] in H. apply leaf_keep in H. destruct H as [E1 E2].
    destruct HI as [A B]. split; [rewrite E1; eapply Forall_impl; [|exact A]; intros e; apply ENT_mono; lia|congruence].
  - injection H as <-. eapply Inv_mono; eassumption.
  - injection H as <-. eapply Inv_mono; eassumption.
  - injection H as <-. eapply Inv_mono; eassumption.
Qed.

Lemma Hev_0 tok c c' p : tok_range tok = None -> is_decl tok = false -> evP tok c = Ok c' -> Inv p c -> Inv p c'.
Proof.
  intros Ht Hd H HI. destruct tok; cbn [tok_range is_decl] in *; try discriminate; cbn [evP] in H; injection H as <-; exact HI.
Qed.

End M.
Notation Inv2 := (Inv 2).

(* ---- the positions of a declaration ---- *)
Lemma name_fields s nm s' : consume_name T s = Ok (nm, s') -> sl_start nm = s_pos s /\ sl_end nm = s_pos s'.
Proof.
  unfold consume_name. cbv zeta. intros H. apply bind_ok in H. destruct H as [s1 [_ H]].
  apply bind_ok in H. destruct H as [n1 [Hn H]]. destruct (slice_len n1 =? 0).
  { exfalso. exact (err_from_not_ok _ _ _ _ H). }
  injection H as <- <-. unfold slice_back in Hn. apply mk_slice_fields in Hn. exact Hn.
Qed.

Lemma def_value s g v s' : parse_entity_def T s g = Ok (Some v, s') -> wfl s ->
  sl_start v <= sl_end v /\ sl_end v + 1 <= s_pos s'.
Proof.
  unfold parse_entity_def. intros H W. apply bind_ok in H. destruct H as [x [_ H]].
  destruct ((x =? 34) || (x =? 39)).
  - apply bind_ok in H. destruct H as [[quote s1] [H1 H]]. cbv beta iota zeta in H.
    apply (mv_consume_quote T) in H1; [|exact W]. destruct H1 as (W1 & _ & _).
    pose proof (mv_skip_bytes T (fun y => negb (y =? quote)) s1 W1) as (W2 & _ & Hp2).
    apply bind_ok in H. destruct H as [value [Hv H]].
    apply bind_ok in H. destruct H as [u [_ H]].
    apply bind_ok in H. destruct H as [s3 [H3 H]]. injection H as <- <-.
    unfold slice_back in Hv. apply mk_slice_fields in Hv. destruct Hv as [-> ->].
    apply (mv_consume_byte T) in H3; [|exact W2]. destruct H3 as (_ & _ & Hp3). split; lia.
  - destruct ((x =? 83) || (x =? 80)).
    + apply bind_ok in H. destruct H as [[found s1] [_ H]]. cbv beta iota in H.
      destruct found; [|exfalso; exact (err_at_not_ok _ _ _ _ H)].
      destruct g; [|discriminate]. cbv zeta in H.
      destruct (starts_with _ (b "NDATA")); [|discriminate].
      destruct (negb (starts_with_space s1)); [exfalso; exact (err_at_not_ok _ _ _ _ H)|].
      apply bind_ok in H. destruct H as [s2 [_ H]]. apply bind_ok in H. destruct H as [s3 [_ H]].
      apply bind_ok in H. destruct H as [s4 [_ H]]. discriminate.
    + exfalso. exact (err_at_not_ok _ _ _ _ H).
Qed.

Lemma ep_parse_entity_decl s c s' c' : parse_entity_decl T context evP s c = Ok (s', c') ->
  wfl s -> Inv2 (s_pos s) c -> mvk 0 s s' /\ Inv2 (s_pos s') c'.
Proof.
  unfold parse_entity_decl. intros H W HI.
  apply bind_ok in H. destruct H as [s1 [H1 H]]. apply (mv_advance T) in H1; [|exact W]. destruct H1 as (W1 & E1 & P1).
  apply bind_ok in H. destruct H as [s2 [H2 H]]. apply (mv_consume_spaces T) in H2; [|exact W1]. destruct H2 as (W2 & E2 & P2).
  destruct (try_consume_byte 37 s2) as [pe s3] eqn:Et. apply (mv_try_consume_byte T) in Et; [|exact W2]. destruct Et as (W3 & E3 & P3).
  apply bind_ok in H. destruct H as [s4 [H4 H]].
  assert (M4 : wfl s4 /\ s_end s4 = s_end s3 /\ s_pos s3 <= s_pos s4).
  { destruct pe; [apply (mv_consume_spaces T) in H4; [|exact W3]; destruct H4 as (A & B0 & C0); split; [exact A|split; [exact B0|lia]]
                 |injection H4 as <-; split; [exact W3|split; [reflexivity|lia]]]. }
  destruct M4 as (W4 & E4 & P4). cbv zeta in H.
  apply bind_ok in H. destruct H as [[name s5] [H5 H]]. cbv beta iota in H.
  pose proof (name_fields _ _ _ H5) as [Ns Ne].
  apply (mv_consume_name T) in H5; [|exact W4]. destruct H5 as (W5 & E5 & P5).
  apply bind_ok in H. destruct H as [s6 [H6 H]]. apply (mv_consume_spaces T) in H6; [|exact W5]. destruct H6 as (W6 & E6 & P6).
  apply bind_ok in H. destruct H as [[def s7] [H7 H]]. cbv beta iota in H.
  pose proof (fun v Hd => def_value s6 (negb pe) v s7 Hd W6) as Hval.
  pose proof H7 as H7'. apply (mv_parse_entity_def T) in H7'; [|exact W6]. destruct H7' as (W7 & E7 & P7).
  apply bind_ok in H. destruct H as [c1 [Hc1 H]]. cbv zeta in H.
  pose proof (mv_skip_spaces T s7 W7) as (W8 & E8 & P8).
  apply bind_ok in H. destruct H as [s9 [H9 H]]. injection H as <- <-.
  apply (mv_consume_byte T) in H9; [|exact W8]. destruct H9 as (W9 & E9 & P9).
  split; [split; [exact W9|split; lia]|].
  assert (Hmono : Inv2 (s_pos s9) c) by (eapply (Inv_mono 2); [|exact HI]; lia).
  destruct def as [d|]; [|injection Hc1 as <-; exact Hmono].
  destruct (negb pe); [|injection Hc1 as <-; exact Hmono].
  cbn [evP] in Hc1. unfold Parse.token in Hc1. cbn [token_with] in Hc1. injection Hc1 as <-.
  destruct Hmono as [A B]. split; [|exact B]. cbn [set_entities c_entities]. apply Forall_app. split; [exact A|].
  constructor; [|constructor]. rewrite H7 in Hval. destruct (Hval d eq_refl) as [V1 V2].
  unfold ENT. cbn [en_name en_value]. lia.
Qed.

Notation tp_comment := (tp_parse_comment T context evP Inv2 (Inv_mono 2) (Hev_r 2) (Hev_0 2)).
Notation tp_pi := (tp_parse_pi T context evP Inv2 (Inv_mono 2) (Hev_r 2) (Hev_0 2)).

(* the DOCTYPE: behind a closed internal subset the margin is 4 *)
Definition DPost (s' : stream) (c' : context) : Prop :=
  EI 2 (s_pos s') c' /\ (s_pos s' < s_end s' -> EI 4 (s_pos s') c').

Lemma ep_parse_doctype_loop : forall fuel st s c s' c',
  parse_doctype_loop T context evP fuel st s c = Ok (s', c') ->
  wfl s -> EI 2 (s_pos s) c -> mvk 0 s s' /\ DPost s' c'.
Proof.
  induction fuel as [|fu IH]; intros st s c s' c' H W HI; [discriminate|].
  cbn [parse_doctype_loop] in H. destruct (at_end s) eqn:Eend.
  { injection H as <- <-. split; [apply mvk_refl; exact W|]. split; [exact HI|]. unfold at_end in Eend. lia. }
  cbv zeta in H. pose proof (mv_skip_spaces T s W) as (W0 & E0 & P0). set (s0 := skip_spaces s) in *.
  assert (HI0 : EI 2 (s_pos s0) c) by (eapply EI_mono; [| |exact HI]; lia).
  assert (Hrec : forall s1 c1, wfl s1 -> s_end s1 = s_end s0 -> s_pos s0 <= s_pos s1 -> EI 2 (s_pos s1) c1 ->
            parse_doctype_loop T context evP fu st s1 c1 = Ok (s', c') -> mvk 0 s s' /\ DPost s' c').
  { intros s1 c1 W1 E1 P1 HI1 Hl. destruct (IH _ _ _ _ _ Hl W1 HI1) as [(A & B0 & C0) D]. split; [|exact D].
    split; [exact A|split; lia]. }
  destruct (starts_with s0 (b "<!ENTITY")).
  { apply bind_ok in H. destruct H as [[s1 c1] [H1 H]]. cbv beta iota in H.
    destruct (ep_parse_entity_decl _ _ _ _ H1 W0 HI0) as [(A & B0 & C0) D]. apply (Hrec s1 c1); try assumption; lia. }
  destruct (starts_with s0 (b "<!--")).
  { apply bind_ok in H. destruct H as [[s1 c1] [H1 H]]. cbv beta iota in H.
    destruct (tp_comment _ _ _ _ H1 W0 HI0) as [(A & B0 & C0) D]. apply (Hrec s1 c1); try assumption; lia. }
  destruct (starts_with s0 (b "<?")).
  { apply bind_ok in H. destruct H as [[s1 c1] [H1 H]]. cbv beta iota in H.
    destruct (tp_pi _ _ _ _ H1 W0 HI0) as [(A & B0 & C0) D]. apply (Hrec s1 c1); try assumption; lia. }
  destruct (starts_with s0 (b "]")).
  { apply bind_ok in H. destruct H as [s1 [H1 H]]. apply (mv_advance T) in H1; [|exact W0]. destruct H1 as (W1 & E1 & P1).
    cbv zeta in H. pose proof (mv_skip_spaces T s1 W1) as (W2 & E2 & P2).
    destruct (curr_byte_opt (skip_spaces s1)) as [x|]; [|discriminate].
    destruct (x =? 62); [|exfalso; exact (err_at_not_ok _ _ _ _ H)].
    apply bind_ok in H. destruct H as [s3 [H3 H]]. injection H as <- <-.
    apply (mv_advance T) in H3; [|exact W2]. destruct H3 as (W3 & E3 & P3).
    split; [split; [exact W3|split; lia]|].
    assert (G : EI 4 (s_pos s3) c).
    { destruct HI as [A B]. split; [|exact B]. eapply Forall_impl; [|exact A]. intros e (X1 & X2 & X3 & X4). unfold ENT. lia. }
    split; [eapply EI_mono; [| |exact G]; lia|intros _; exact G]. }
  destruct (_ || _); [|exfalso; exact (err_at_not_ok _ _ _ _ H)].
  destruct (consume_decl T s0) as [s1| | |] eqn:Ed; try discriminate; [|exfalso; exact (err_from_not_ok _ _ _ _ H)].
  apply (mv_consume_decl T) in Ed; [|exact W0]. destruct Ed as (W1 & E1 & P1).
  apply (Hrec s1 c); try assumption; [lia|]. eapply EI_mono; [| |exact HI0]; lia.
Qed.

Lemma ep_parse_doctype s c s' c' : parse_doctype T context evP s c = Ok (s', c') ->
  wfl s -> EI 4 (s_pos s) c -> mvk 0 s s' /\ DPost s' c'.
Proof.
  unfold parse_doctype. intros H W HI. cbv zeta in H.
  apply bind_ok in H. destruct H as [s1 [H1 H]]. apply (mv_parse_doctype_start T) in H1; [|exact W]. destruct H1 as (W1 & E1 & P1).
  pose proof (mv_skip_spaces T s1 W1) as (W2 & E2 & P2).
  destruct (match curr_byte_opt (skip_spaces s1) with Some x => x =? 62 | None => false end).
  - apply bind_ok in H. destruct H as [s3 [H3 H]]. injection H as <- <-.
    apply (mv_advance T) in H3; [|exact W2]. destruct H3 as (W3 & E3 & P3).
    split; [split; [exact W3|split; lia]|].
    assert (G : EI 4 (s_pos s3) c) by (eapply EI_mono; [| |exact HI]; lia).
    split; [eapply EI_mono; [| |exact G]; lia|intros _; exact G].
  - apply bind_ok in H. destruct H as [s3 [H3 H]].
    apply (mv_advance T) in H3; [|exact W2]. destruct H3 as (W3 & E3 & P3).
    destruct (ep_parse_doctype_loop _ _ _ _ _ _ H W3) as [(A & B0 & C0) D].
    { eapply EI_mono; [| |exact HI]; lia. }
    split; [|exact D]. split; [exact A|split; lia].
Qed.

Lemma ep_misc_steps m : forall n s c s' c', misc_steps T context evP n s c = Some (s', c') ->
  wfl s -> EI m (s_pos s) c -> 2 <= m -> wfl s' /\ s_end s' = s_end s /\ s_pos s <= s_pos s' /\ EI m (s_pos s') c'.
Proof.
  induction n as [|n IH]; intros s c s' c' H W HI Hm; cbn [misc_steps] in H.
  - injection H as <- <-. split; [exact W|split; [reflexivity|split; [lia|exact HI]]].
  - destruct (at_end s); [discriminate|]. cbv zeta in H.
    pose proof (mv_skip_spaces T s W) as (W0 & E0 & P0).
    assert (Keep : forall tok c1, (match tok with TComment _ _ | TPI _ _ _ => True | _ => False end) ->
              evP tok c = Ok c1 -> c_entities c1 = c_entities c /\ c_entity_floor c1 = c_entity_floor c).
    { intros tok c1 Ht He. destruct tok; try contradiction; cbn [evP] in He; unfold Parse.token in He; cbn [token_with] in He;
        apply leaf_keep in He; exact He. }
    destruct (starts_with _ (b "<!--")).
    + destruct (parse_comment T context evP (skip_spaces s) c) as [[s1 c1]| | |] eqn:E1; try discriminate. cbn [fst snd] in H.
      assert (HI1 : EI m (s_pos s1) c1 /\ wfl s1 /\ s_end s1 = s_end s /\ s_pos s <= s_pos s1).
      { pose proof E1 as E1'. apply (tp_comment _ _ _ _) in E1'; [|exact W0|eapply EI_mono; [| |exact HI]; lia].
        destruct E1' as [(A & B0 & C0) _].
        unfold parse_comment in E1. cbv zeta in E1. bsteps.
        match goal with Hc : evP (TComment ?a ?r) c = Ok _ |- _ => destruct (Keep (TComment a r) _ I Hc) as [K1 K2] end.
        split; [|split; [exact A|split; lia]]. destruct HI as [X Y]. split; [rewrite K1|congruence].
        eapply Forall_impl; [|exact X]. intros e. apply ENT_mono; lia. }
      destruct HI1 as (HI1 & W1 & E1e & P1). destruct (IH _ _ _ _ H W1 HI1 Hm) as (A & B0 & C0 & D).
      split; [exact A|split; [lia|split; [lia|exact D]]].
    + destruct (starts_with _ (b "<?")); [|discriminate].
      destruct (parse_pi T context evP (skip_spaces s) c) as [[s1 c1]| | |] eqn:E1; try discriminate. cbn [fst snd] in H.
      assert (HI1 : EI m (s_pos s1) c1 /\ wfl s1 /\ s_end s1 = s_end s /\ s_pos s <= s_pos s1).
      { pose proof E1 as E1'. apply (tp_pi _ _ _ _) in E1'; [|exact W0|eapply EI_mono; [| |exact HI]; lia].
        destruct E1' as [(A & B0 & C0) _].
        unfold parse_pi in E1. cbv zeta in E1.
        bsteps;
          (match goal with Hc : evP (TPI ?a ?v ?r) c = Ok _ |- _ => destruct (Keep (TPI a v r) _ I Hc) as [K1 K2] end;
           (split; [|split; [exact A|split; lia]]); destruct HI as [X Y]; (split; [rewrite K1|congruence]);
           eapply Forall_impl; [|exact X]; intros e; apply ENT_mono; lia). }
      destruct HI1 as (HI1 & W1 & E1e & P1). destruct (IH _ _ _ _ H W1 HI1 Hm) as (A & B0 & C0 & D).
      split; [exact A|split; [lia|split; [lia|exact D]]].
Qed.

(* ---- the state of the prolog behind the DOCTYPE ---- *)
Lemma doc_start_wfl s2 : doc_start T = Ok s2 -> wfl s2 /\ s_end s2 = tlen T.
Proof.
  unfold doc_start. cbv zeta. intros H. pose proof (wfl_new T) as W0.
  apply bind_ok in H. destruct H as [s1 [H1 H]].
  assert (W1 : wfl s1 /\ s_end s1 = tlen T).
  { destruct (starts_with _ _).
    - apply (mv_advance T) in H1; [|exact W0]. destruct H1 as (A & B0 & _). split; [exact A|rewrite B0; reflexivity].
    - injection H1 as <-. split; [exact W0|reflexivity]. }
  destruct W1 as [W1 E1]. destruct (starts_with_declaration s1).
  - apply (mv_parse_declaration T) in H; [|exact W1]. destruct H as (A & B0 & _). split; [exact A|congruence].
  - injection H as <-. split; assumption.
Qed.

Theorem prolog_entities opt n sQ cQ : prolog_state2 T opt n = Some (sQ, cQ) -> s_pos sQ < tlen T ->
  EI 4 (s_pos sQ) cQ.
Proof.
  unfold prolog_state2. intros H Hlt.
  destruct (init_context T opt) as [ci| | |] eqn:Ei; try discriminate.
  destruct (doc_start T) as [s2| | |] eqn:Es; try discriminate.
  destruct (parse_misc T context tk s2 ci) as [[s3 c3]| | |] eqn:Hm; try discriminate.
  cbv zeta in H. cbn [fst snd] in H.
  destruct (starts_with (skip_spaces s3) (b "<!DOCTYPE") && allow_dtd opt); [|discriminate].
  destruct (parse_doctype T context tk (skip_spaces s3) c3) as [[s4 c4]| | |] eqn:Hdt; try discriminate. cbn [fst snd] in H.
  destruct (doc_start_wfl s2 Es) as [W2 E2].
  assert (HI0 : EI 4 (s_pos s2) ci).
  { unfold init_context, push_ns in Ei. cbn in Ei. injection Ei as <-. split; [constructor|reflexivity]. }
  unfold parse_misc in Hm. rewrite <- parse_misc_loop_evP in Hm.
  apply (tp_parse_misc_loop T context evP (Inv 4) (Inv_mono 4) (Hev_r 4) (Hev_0 4)) in Hm; [|exact W2|exact HI0].
  destruct Hm as [(W3 & E3 & P3) HI3].
  pose proof (mv_skip_spaces T s3 W3) as (W3' & E3' & P3').
  rewrite <- parse_doctype_evP in Hdt.
  destruct (ep_parse_doctype _ _ _ _ Hdt W3') as [(W4 & E4 & P4) [D2 D4]].
  { eapply EI_mono; [| |exact HI3]; lia. }
  rewrite <- misc_steps_evP in H.
  destruct (s_pos s4 <? s_end s4) eqn:E.
  - destruct (ep_misc_steps 4 _ _ _ _ _ H W4 (D4 ltac:(lia)) ltac:(lia)) as (_ & _ & _ & G). exact G.
  - (* the text ended inside the DOCTYPE: no position is left *)
    destruct (ep_misc_steps 2 _ _ _ _ _ H W4 D2 ltac:(lia)) as (WQ & EQ & PQ & _). exfalso.
    destruct WQ as (_ & A & _). lia.
Qed.

End P.

Print Assumptions prolog_entities.
