(* Proofs/CstFullNsRejItems.v -- C06/C08 on the capstone fragment, rejection half: items one of whose start tags -- in the
   document or in the value of an entity with markup, under the scope of the place of the reference -- violates a
   namespace rule: the content loop fails with the error of the FIRST violated rule (Proofs/NsRejDefs.v, in reading
   order, on what the inlined items denote) after the items before have been read as in Proofs/CstFullS6Items.v. *)
From Coq Require Import Ascii String.
From Coq Require Import List NArith PeanoNat Bool Lia ZifyBool ZifyN ZifyNat.
Import ListNotations.
From RX Require Import Generated.
From RX.Model Require Import Base CharClass Stream Tokenizer Doc Builder Parse.
From RX.Spec Require Cst CstText CstEnt Detector Scope CstU CstNs.
From RX.Spec Require Chars.
From RX.Spec Require Import CstFullS5.
From RX.Spec Require Import Text CstFull CstFullS4.
From RX.Spec Require Import CstFullS6.
From RX.Proofs Require Import Tactics CstLex CstBuild CstULex TextMachine TextMerge HoistProofs NoPanicUtf8 DetectorProofs.
From RX.Proofs Require Import CstTextSem CstTextLex CstTextBuild CstEntSem CstEntMeaning CstEntRun CstEntInline.
From RX.Proofs Require Import CstNsLex CstNsView CstNsBuild CstFullLex CstFullBuild CstFullTree.
From RX.Proofs Require Import CstFullS2Sem CstFullS2Lex CstFullS2Build CstFullS3Sem CstFullS3Text CstFullS3Run CstFullS3Plug.
From RX.Proofs Require Import CstEntCFloor CstEntCBuild CstEntCSem CstEntCLoop.
From RX.Proofs Require Import CstFullS4Sem CstFullS4TSem CstFullS4TText CstFullS4Build CstFullS4Attr CstFullS6Text.
From RX.Proofs Require Import CstFullS5Ws CstFullS5Lex.
From RX.Proofs Require Import CstFullS6Items.
From RX.Proofs Require Import CstFullRejSem CstFullRejAttr CstFullRejText CstFullRejItems.
From RX.Proofs Require Import CstFullNsRejBuild CstFullNsRejText.
From RX.Proofs Require NsRejDefs NsRejBuild.
From RX.Proofs Require CstFullS5Items.
From RX.Proofs Require CstEntText CstEntCLex CstEntCText CstFullS6Lex CstNsItems CstNsDoc CstFullItems CstTextItems CstUItems ScopeProofs.
Open Scope N_scope.

Ltac clia := repeat match goal with H : @eq bool _ true |- _ => clear H end; lia.

Notation bd := (map (x_entry bpieces T.value_sem)).
Notation bden := (den bmeaning).
Notation bdens := (CstFullTree.dens bpieces bmeaning).

Lemma bind_err_assoc {A B0 C0} (a : res A) (f : A -> res B0) (g : B0 -> res C0) e :
  (let! x := a in f x) = Err e -> (let! x := a in let! y := f x in g y) = Err e.
Proof. destruct a as [x| | |]; cbn [bind]; intros H; try discriminate; [rewrite H|injection H as <-]; reflexivity. Qed.

Lemma items_viol_flush inh acc : items_viol inh (bdens (flush acc)) = None.
Proof. rewrite bdens_flush, bden_text. destruct (all_marks acc); reflexivity. Qed.

Lemma attrs_oks_flush acc : attrs_oks (bdens (flush acc)) = true.
Proof. rewrite bdens_flush, bden_text. destruct (all_marks acc); reflexivity. Qed.

Lemma decls_flush acc : NT.items_decls (bdens (flush acc)) = [].
Proof. rewrite bdens_flush, bden_text. destruct (all_marks acc); reflexivity. Qed.

Lemma V_single inh acc i : is_btext i = false -> V inh acc [i] = items_viol inh (bden i).
Proof.
  intros H. unfold V. rewrite walk_single by exact H. cbn [fst]. rewrite bdens_app, items_viol_app, items_viol_flush.
  cbn [CstFullTree.dens]. rewrite app_nil_r. reflexivity.
Qed.

Lemma Syn_single D acc i : is_btext i = false -> Syn D acc [i] ->
  attrs_oks (bden i) = true /\ incl (NT.items_decls (bden i)) D.
Proof.
  intros H [A B0]. rewrite walk_single in A, B0 by exact H. cbn [fst] in A, B0.
  rewrite bdens_app, attrs_oks_app, attrs_oks_flush in A. rewrite bdens_app, items_decls_app, decls_flush in B0.
  cbn [CstFullTree.dens andb app] in A, B0. rewrite app_nil_r in A, B0. auto.
Qed.

(* what holds of a start tag without a violation *)
Lemma tag_ok_parts inh name es : tag_viol inh name es = None -> forallb attr_name_ok es = true ->
  let sc := NT.esc es inh in
  Scope.bytes_eqb (CstNs.q_prefix name) CstNs.xmlns_b = false /\
  forallb ns_entry_ok es = true /\
  Scope.prefixes_unique (CstNs.own_bindings es) = true /\
  CstNs.is_bound (Scope.resolve_elem sc (CstNs.q_prefix name)) = true /\
  forallb (fun e => match e with
                    | CstNs.EAttr _ n _ => CstNs.is_bound (Scope.resolve_attr sc (CstNs.q_prefix n))
                    | CstNs.EDecl _ _ _ => true end) es = true /\
  CstNs.enames_distinct (map (fun a => (fst (fst a), snd (fst a))) (CstNs.sem_attrs sc es)) = true.
Proof.
  intros Hv Ha sc. pose proof (NsRejDefs.tag_viol_spec inh name es) as S. rewrite Hv in S. cbn [NsRejDefs.is_none] in S.
  unfold NsRejDefs.ns_tag in S. cbv zeta in S. rewrite !andb_true_iff in S. destruct S as [[[[[N1 N3] N6] N2e] N2a] N7].
  split; [apply negb_true_iff; exact N1|]. split; [rewrite ns_entries_ok_split, Ha, N3; reflexivity|].
  repeat (split; [assumption|]). exact N7.
Qed.

(* ------------------------------------------------------------------------------------------ *)
(* the start tag of an element with content, read (the tag itself obeys the rules)            *)
(* ------------------------------------------------------------------------------------------ *)
Section StartN.
Variable text : bytes.
Variable D : list Scope.binding.
Hypothesis HD : forall l, NoDup l -> incl l D -> N.of_nat (length l) <= 65535.
Variable decls : list xdecl.
Variable es : list entity.
Hypothesis Henv : Forall2 (uent_ok text) (map pd decls) es.
Hypothesis Hdecls : Forall udecl_okc (map pd decls).
Hypothesis Hcont : Forall decl_cont decls.
Variable k : nat.

Notation tb := (level decls k).
Notation W := (CstLex.W text).
Notation WV := (CstULex.WV text).
Notation WVs := (SL.WV text).
Notation sst4 := CstEntCLex.st.
Notation evl := (CstEntCBuild.evl text).
Notation CIn := (CstNsBuild.CIn text D).
Notation OR := (CstFullS6Text.OR text D es).
Notation Rooms := (CstFullS6Text.Rooms).
Notation SemI := (CstEntCText.SemI text).
Notation IHk := (IHok text D HD decls es Henv Hdecls Hcont k).
Notation rooms_single := (CstFullS6Items.rooms_single text D HD decls es k IHk).
Notation nattrs_walk := (CstFullS6Items.nattrs_walk text D HD decls es k IHk).
Notation ns_costs_walk := (CstFullS6Items.ns_costs_walk text D HD decls es k IHk).
Notation own_cost_eq := (CstFullS6Items.own_cost_eq text D HD decls es k IHk).
Notation flush_res := (CstFullS6Items.flush_res text D HD es).
Notation sentries_at := (CstFullS6Items.sentries_at text D HD decls es Henv Hdecls k IHk).

Lemma elem_start_n name ens ws cs ws2 inh m en tl p post c0 c frs acc lvl ens' tra itsc lda :
  wf_uitem_s m (IElem name ens ws (Some (cs, ws2))) = true ->
  WVs en tl p (r_item (@IElem epieces name ens ws (Some (cs, ws2))) ++ post) ->
  OR inh c0 c frs -> SemI frs acc ->
  m = (0 <? ld_depth (c_ld c)) -> ld_ok (c_ld c) ->
  c_entity_floor c <= len_N (c_parent_prefixes c) ->
  inline_entries tb m ens = Some (ens', tra) -> ld_run (c_ld c) tra = Some lda ->
  Pok acc [@IElem bpieces name ens' ws (Some (regroup itsc, ws2))] ->
  Rooms inh c0 acc [@IElem bpieces name ens' ws (Some (regroup itsc, ws2))] ->
  tag_viol inh (x_qname name) (bd ens') = None -> forallb attr_name_ok (bd ens') = true ->
  incl (CstNs.own_bindings (bd ens')) D ->
  let q := p + 1 + blen (r_qname name) + blen (flat_map r_entry ens) + blen ws + 1 in
  let post2 := [60; 47] ++ r_qname name ++ ws2 ++ [62] ++ post in
  let sc := NT.esc (bd ens') inh in
  exists c1,
    parse_element text context (evl lvl) (sst4 en tl p (r_item (@IElem epieces name ens ws (Some (cs, ws2))) ++ post)) c =
      Ok (true, sst4 en tl q (r_uitems cs ++ post2), c1) /\
    OR sc (sh c1) c1 [] /\ c_ld c1 = lda /\ ld_depth lda = ld_depth (c_ld c) /\ ld_ok lda /\
    c_entity_floor c1 <= len_N (c_parent_prefixes c1) /\
    Pok [] itsc /\ Rooms sc (sh c1) [] itsc /\
    WVs en tl q (r_uitems cs ++ post2).
Proof.
  intros Hwf HW HO HS Hm Hk Hfl Eat Ela HP HR Htv Hao HinD q0 post20 sc0. subst q0 post20 sc0.
  destruct (wf_elem_parts4 _ _ _ _ _ Hwf) as (Hn & Ha & Hw & Hw2 & Hna & Hcs). clear Hwf.
  set (el := @IElem bpieces name ens' ws (Some (regroup itsc, ws2))) in *.
  assert (Hprov : forallb (fun e => E.crlf_split_ok (e_value bpieces e)) ens' = true /\ forallb provisos_item (regroup itsc) = true).
  { destruct HP as [X _]. rewrite walk_single in X by reflexivity. cbn [fst] in X. rewrite forallb_app in X.
    apply andb_true_iff in X. destruct X as [_ X]. cbn [forallb] in X. unfold el in X. rewrite prov_elem, andb_true_r in X.
    apply andb_true_iff in X. exact X. }
  destruct Hprov as [Hpa Hpc]. destruct (provisos_walk itsc Hpc) as [Pc1 Pc2].
  set (outc := fst (walk [] itsc)) in *. set (accc := snd (walk [] itsc)) in *.
  destruct (tag_ok_parts inh (x_qname name) (bd ens') Htv Hao) as (N1 & Nent & N6 & N2e & N2a & N7).
  set (des := bd ens') in *. set (sc := NT.esc des inh) in *.
  rewrite r_uitem_elem in *. rewrite <- !app_assoc in HW |- *.
  set (post2 := [60; 47] ++ r_qname name ++ ws2 ++ [62] ++ post) in *.
  change ([62] ++ r_uitems cs ++ post2) with (tag_tail false ++ (r_uitems cs ++ post2)) in *.
  unfold r_qname at 1 in HW. unfold r_qname at 1. rewrite r_entries_x4 in HW |- *.
  rewrite (SL.lex_element_full text en tl context (evl lvl) p (x_qname name) _ ws false (r_uitems cs ++ post2) c HW (CstFullItems.uq_of _ Hn))
    by (try exact Hw; apply (uentries_of4 m); exact Ha).
  cbv zeta.
  destruct (flush_res inh c0 c frs acc HO HS) as (cr & Kt & Er & Ar & St & Ir & L1 & L2 & L3 & Tr0 & HKt & Ees & Epp).
  unfold start_toks_ns.
  match goal with |- context [evs context (evl lvl) (?tk :: ?r) c] => rewrite (evs_reset text lvl tk r c cr I Er Ar) end.
  destruct (rooms_single inh c0 acc el cr Kt eq_refl HR St Tr0 HKt) as (NR & AR & SR).
  unfold el in NR, AR, SR. rewrite den_elem in NR, AR, SR. change (@val_sem bpieces bmeaning) with T.value_sem in NR, AR, SR. fold des in NR, AR, SR.
  rewrite nsizes_one, NT.nsize_elem in NR.
  cbn [NT.nattrs_items NT.ns_costs] in AR, SR. rewrite NT.nattrs_elem, Nat.add_0_r in AR. rewrite NT.ns_cost_elem, Nat.add_0_r in SR.
  fold sc in SR. rewrite nattrs_walk in AR. rewrite ns_costs_walk in SR. rewrite bdens_regroup in NR. fold outc accc in NR, AR, SR.
  pose proof (WVs_full _ _ _ _ _ HW) as HWf. rewrite <- !app_assoc in HWf.
  pose proof (WV_lit _ _ _ _ HWf (eq_refl : forallb (fun y => y <? 128) [60] = true)) as HW1. change (blen [60]) with 1 in HW1.
  pose proof (WV_app _ _ _ _ HW1 (uq_valid _ (CstFullItems.uq_of _ Hn))) as HW2.
  rewrite <- r_entries_x4 in HW2.
  destruct (sentries_at _ m ens _ ens' tra (c_ld cr) lda HW2 Ha ltac:(rewrite L1; exact Hm) ltac:(rewrite L1; exact Hk) Eat ltac:(rewrite L1; exact Ela) Hpa)
    as (xs & Ex1 & Ex2 & Hok & Hnorms & Hdep).
  fold des in Ex2. rewrite <- Ex1 in HWf, HW |- *.
  destruct (start_tag_gn text D HD es lvl inh p (x_qname name) xs ws false (r_uitems cs ++ post2 ++ tl) cr lda (WV_W _ _ _ HWf)
              (CstFullItems.uq_local_ne _ Hn) N1 Hok Hnorms)
    as (c1 & kind & ext1 & E & S1 & Lx & Hkm & A1 & T1 & Lns1 & D1 & Fl1 & I1 & P1 & P2 & P3); try (rewrite Ex2; assumption); try assumption.
  { unfold CstNsItems.node_room, room in *. clia. }
  { rewrite Ex2, NT.sem_attrs_len. unfold CstNsItems.attr_room in AR. clia. }
  { rewrite Ex2, own_cost_eq. unfold CstNsItems.ns_room in SR. change (Scope.scope_of (CstNs.own_bindings des) inh) with sc. destruct (CstNs.own_bindings des); clia. }
  rewrite Ex2 in *. fold sc in Lx, Hkm, Lns1, I1.
  cbv zeta in E. apply bind_ok in E. destruct E as (cx & E0 & E1).
  unfold start_toks_ns in E0. rewrite E0. cbn [bind]. rewrite E1. cbn [bind negb]. clear E0 E1 cx.
  exists c1.
  set (q := p + 1 + blen (CstNs.r_qname (x_qname name)) + blen (flat_map CstNs.r_entry (raws xs)) + blen ws + blen (tag_tail false)) in *.
  assert (HW5 : WVs en tl q (r_uitems cs ++ post2)).
  { pose proof (SL.WV_lit text _ _ _ HW (eq_refl : forallb (fun y => y <? 128) [60] = true)) as B1. change (blen [60]) with 1 in B1.
    pose proof (SL.WV_app text _ _ _ B1 (uq_valid _ (CstFullItems.uq_of _ Hn))) as B2.
    assert (Hve : U8.Valid (flat_map CstNs.r_entry (raws xs))).
    { rewrite Ex1, <- r_entries_x4. apply (uentries_valid4 m). exact Ha. }
    pose proof (SL.WV_app text _ _ _ B2 Hve) as B3.
    pose proof (SL.WV_lit text _ _ _ B3 (s_lit _ Hw)) as B4.
    pose proof (SL.WV_lit text _ _ _ B4 (eq_refl : forallb (fun y => y <? 128) (tag_tail false) = true)) as B5. exact B5. }
  pose proof (Step0n_len _ _ _ _ S1) as Ln1. change (len_N [_]) with 1 in Ln1.
  change (d_nodes (c_doc (sh c1))) with (d_nodes (c_doc c1)) in Ln1. change (d_nodes (c_doc (sh cr))) with (d_nodes (c_doc cr)) in Ln1.
  pose proof (CstFullItems.Stepn_attrs_len _ _ _ _ S1) as La1. unfold len_N at 3 in La1. rewrite Lx, NT.sem_attrs_len in La1.
  change (d_attrs (c_doc (sh c1))) with (d_attrs (c_doc c1)) in La1. change (d_attrs (c_doc (sh cr))) with (d_attrs (c_doc cr)) in La1.
  pose proof (CstFullItems.Stepn_opt _ _ _ _ S1) as Lo1. change (c_opt (sh c1)) with (c_opt c1) in Lo1. change (c_opt (sh cr)) with (c_opt cr) in Lo1.
  destruct (sn_keep _ _ _ _ S1) as (_ & Kes & _).
  change (c_entities (sh c1)) with (c_entities c1) in Kes. change (c_entities (sh cr)) with (c_entities cr) in Kes.
  assert (HO1 : OR sc (sh c1) c1 []).
  { constructor; try assumption; try reflexivity; [apply CstEntText.same_frame_sym; apply sh_frame|congruence]. }
  change (p + 1 + blen (r_qname name) + blen (flat_map CstNs.r_entry (raws xs)) + blen ws + 1) with q.
  split; [reflexivity|]. split; [exact HO1|]. split; [exact D1|]. split; [rewrite Hdep, L1; reflexivity|].
  split; [apply (ld_ok_run _ _ _ Ela Hk)|].
  split; [rewrite Fl1, L3, P2, len_N_app, Epp; change (len_N [_]) with 1; clia|].
  split; [split; assumption|]. split; [|exact HW5].
  fold outc accc. split; [|split].
  + unfold CstNsItems.node_room in *. change (d_nodes (c_doc (sh c1))) with (d_nodes (c_doc c1)). change (c_opt (sh c1)) with (c_opt c1).
    rewrite Ln1, Lo1. fold outc accc. clia.
  + unfold CstNsItems.attr_room in *. change (d_attrs (c_doc (sh c1))) with (d_attrs (c_doc c1)). rewrite La1. fold outc. clia.
  + unfold CstNsItems.ns_room in *. change (d_ns_tree (c_doc (sh c1))) with (d_ns_tree (c_doc c1)). rewrite Lns1, own_cost_eq. fold outc.
    change (Scope.scope_of (CstNs.own_bindings des) inh) with sc. destruct (CstNs.own_bindings des); clia.
Qed.

End StartN.

Print Assumptions elem_start_n.

(* ------------------------------------------------------------------------------------------ *)
(* failing                                                                                    *)
(* ------------------------------------------------------------------------------------------ *)
Section NsItems.
Variable text : bytes.
Hypothesis Hvalid : valid_utf8_b text = true.
Variable D : list Scope.binding.
Hypothesis HD : forall l, NoDup l -> incl l D -> N.of_nat (length l) <= 65535.
Variable decls : list xdecl.
Variable es : list entity.
Hypothesis Henv : Forall2 (uent_ok text) (map pd decls) es.
Hypothesis Hdecls : Forall udecl_okc (map pd decls).
Hypothesis Hcont : Forall decl_cont decls.
Variable k : nat.
Hypothesis IHn : forall k', k = S k' -> forall cs, ItemsN text D decls es k' cs.

Notation tb := (level decls k).
Notation W := (CstLex.W text).
Notation WV := (CstULex.WV text).
Notation WVs := (SL.WV text).
Notation sst4 := CstEntCLex.st.
Notation evl := (CstEntCBuild.evl text).
Notation CIn := (CstNsBuild.CIn text D).
Notation OR := (CstFullS6Text.OR text D es).
Notation Res := (CstFullS6Text.Res text D es).
Notation Rooms := (CstFullS6Text.Rooms).
Notation NsOk := (CstFullS6Text.NsOk D).
Notation SemI := (CstEntCText.SemI text).
Notation decls3 := (map pd decls).
Notation IHk := (IHok text D HD decls es Henv Hdecls Hcont k).
Notation flush_res := (CstFullS6Items.flush_res text D HD es).
Notation sentries_at := (CstFullS6Items.sentries_at text D HD decls es Henv Hdecls k IHk).
Notation rooms_single := (CstFullS6Items.rooms_single text D HD decls es k IHk).
Notation own_cost_eq := (CstFullS6Items.own_cost_eq text D HD decls es k IHk).
Notation Rooms_app_l := (CstFullS6Text.Rooms_app_l D HD).
Notation Rooms_app_r := (CstFullS6Text.Rooms_app_r text D HD es).

(* ---- a text token ---- *)
Lemma tok_stretch_n inh l p more m c0 c frs acc L its tr ld' rl :
  WV p (E.r_epieces l ++ more) -> Forall (uep_ok m) l -> l <> [] ->
  m = (0 <? ld_depth (c_ld c)) -> N.of_nat L + ld_depth (c_ld c) = 12 -> ld_ok (c_ld c) ->
  OR inh c0 c frs -> SemI frs acc -> bnd acc = true -> c_entity_floor c <= len_N (c_parent_prefixes c) ->
  inline_run tb m l = Some (its, tr) -> ld_run (c_ld c) tr = Some ld' ->
  Pok acc its -> Rooms inh c0 acc its -> Syn D acc its -> V inh acc its = Some rl ->
  exists er, evl L (TText (sl p (p + blen (E.r_epieces l))) (p, p + blen (E.r_epieces l))) c = Err er /\ rule_error rl er = true.
Proof.
  intros HWv Hok Hne Hm Hlvl Hldok HO HS Hbnd Hfl Hin Hld HP HR HSy HV. pose proof (WV_W _ _ _ HWv) as HW.
  unfold CstEntCBuild.evl. cbn [token_with].
  rewrite process_text_with_unfold. unfold slice_bytes at 1. cbn [sl sl_start sl_end].
  rewrite (CstLex.W_sub _ _ _ _ HW).
  pose proof (CstLex.W_le _ _ _ (CstLex.W_app _ _ _ _ HW)) as Hle.
  destruct (existsb (fun x => (x =? 38) || (x =? 13)) (E.r_epieces l)) eqn:Efast; cbn [negb].
  2:{ destruct (existsb_or_false _ _ _ Efast) as [E38 _].
      destruct (inline_run_plain tb m l its tr E38 Hok Hin) as (_ & Htx & _). rewrite (V_texts inh acc its Htx) in HV. discriminate. }
  cbn [fst snd]. rewrite (stream_from_substr_W text p (E.r_epieces l) more HW). cbn [bind].
  destruct (TLn text D HD decls es Henv Hdecls Hcont k IHn l [] [] inh m (p + blen (E.r_epieces l)) p more c0 c frs acc
              (S (length (s_rest (sst (p + blen (E.r_epieces l)) p (E.r_epieces l ++ more))))) L
              (p, p + blen (E.r_epieces l)) its tr ld' rl Hok HWv eq_refl Hle Hm Hlvl Hldok (acc_nil m) eq_refl (Forall_nil _) HO HS Hbnd Hfl Hin Hld
              ltac:(rewrite app_nil_r; exact HP) ltac:(rewrite app_nil_r; exact HR) ltac:(rewrite app_nil_r; exact HSy) ltac:(rewrite app_nil_r; exact HV)
              ltac:(cbn [sst s_rest]; rewrite app_length; lia)) as (er & Ef & R).
  cbn [push_text_chunks] in Ef. rewrite Ef. eauto.
Qed.

(* ---- the segments of a run ---- *)
Lemma segs_n inh post en tl : text_stop post ->
  forall L prev p m c0 c frs acc lvl depth fuel its tr ld' rl,
  Forall (ueseg_wfm m) L -> ealt (prev :: L) -> WVs en tl p (flat_map r_eseg L ++ post) ->
  m = (0 <? ld_depth (c_ld c)) -> N.of_nat lvl + ld_depth (c_ld c) = 12 -> ld_ok (c_ld c) ->
  OR inh c0 c frs -> SemI frs acc -> seg_bnd L acc -> c_entity_floor c <= len_N (c_parent_prefixes c) ->
  inline_run tb m (flat_map seg_pieces L) = Some (its, tr) -> ld_run (c_ld c) tr = Some ld' ->
  Pok acc its -> Rooms inh c0 acc its -> Syn D acc its -> V inh acc its = Some rl ->
  exists er,
    parse_content_loop text context (evl lvl) (length L + fuel) depth (sst4 en tl p (flat_map r_eseg L ++ post)) c = Err er /\
    rule_error rl er = true.
Proof.
  intros Hpost. induction L as [|s L IH]; intros prev p m c0 c frs acc lvl depth fuel its tr ld' rl
    HF A HW Hm Hlvl Hldok HO HS Hb Hfl Hin Hld HP HR HSy HV.
  - cbn [flat_map inline_run] in Hin. injection Hin as <- <-. discriminate.
  - pose proof HF as HF0. apply Forall_cons_iff in HF. destruct HF as [[Hs Hsm] HL].
    assert (A' : ealt (s :: L)) by (destruct A as [_ A]; exact A).
    cbn [flat_map] in Hin, HW |- *. rewrite <- app_assoc in HW |- *.
    destruct (inline_run_app _ _ _ _ _ _ Hin) as (ia & tra & ib & trb & Ea & Eb & -> & ->).
    destruct (Pok_app _ _ _ HP) as [HPa HPb]. pose proof (Rooms_app_l _ _ _ _ _ HR) as HRa.
    destruct (Syn_app _ _ _ _ HSy) as [HSa HSb]. rewrite V_app in HV.
    assert (Hstop : is_ess s = true -> text_stop (flat_map r_eseg L ++ post)).
    { intros Hs1. destruct L as [|[l'|bs'] L']; cbn [flat_map app]; [exact Hpost| |reflexivity].
      destruct A' as [A' _]. specialize (A' Hs1). discriminate. }
    rewrite ld_run_app in Hld. destruct (ld_run (c_ld c) tra) as [ld1|] eqn:El1; [|discriminate].
    destruct (V inh acc ia) as [ra|] eqn:EVa.
    + (* the violation is in this segment *)
      injection HV as ->.
      destruct s as [l|bs]; cbn [r_eseg seg_pieces] in *.
      2:{ cbn [inline_run E.obind fst snd] in Ea. injection Ea as <- <-. unfold V in EVa. cbn [walk fst CstFullTree.dens NsRejDefs.items_viol] in EVa. discriminate. }
      pose proof (Hstop eq_refl) as Hstop'.
      destruct (ess_bytes_u D HD l Hs) as (Hu & Hb60 & x & r & Ex & Hx60). destruct Hs as (Hne & _ & _ & Hn3).
      pose proof (SL.WV_W text _ _ HW) as HW0.
      cbn [length Nat.add].
      assert (El : parse_content_loop text context (evl lvl) (S (length L + fuel)) depth (sst4 en tl p (E.r_epieces l ++ flat_map r_eseg L ++ post)) c =
                   let! (s0, c1) := parse_text text context (evl lvl) (sst4 en tl p (E.r_epieces l ++ flat_map r_eseg L ++ post)) c in
                   parse_content_loop text context (evl lvl) (length L + fuel) depth s0 c1).
      { revert HW0. rewrite Ex. cbn [app]. intros HW0. apply (loop_text text en tl); assumption. }
      rewrite El. clear El.
      rewrite (SL.lex_text_g text en tl) by assumption.
      pose proof (WVs_full _ _ _ _ _ HW) as HWf. rewrite <- app_assoc in HWf.
      destruct (tok_stretch_n inh l p _ m c0 c frs acc lvl ia tra ld1 rl HWf Hsm Hne Hm Hlvl Hldok HO HS Hb Hfl Ea El1 HPa HRa HSa EVa) as (er & Ef & R).
      rewrite Ef. cbn [bind]. eauto.
    + (* this segment is read *)
      pose proof (nsok_of D inh acc ia HSa EVa) as HNa.
      assert (Hone : exists c0a ca frsa K1 e1,
                parse_content_loop text context (evl lvl) (1 + (length L + fuel)) depth (sst4 en tl p (r_eseg s ++ flat_map r_eseg L ++ post)) c =
                parse_content_loop text context (evl lvl) (length L + fuel) depth (sst4 en tl (p + blen (r_eseg s)) (flat_map r_eseg L ++ post)) ca /\
                Res inh c0 c acc ia ld1 c0a ca frsa K1 e1).
      { destruct s as [l|bs].
        - destruct (segs_c text D HD decls es Henv Hdecls Hcont k IHk inh (flat_map r_eseg L ++ post) en tl (Hstop eq_refl)
                      [ESS l] prev p m c0 c frs acc lvl depth (length L + fuel)%nat ia tra ld1)
            as (c0a & ca & frsa & K1 & e1 & E1 & HRes1); try assumption.
          { constructor; [split; assumption|constructor]. }
          { destruct A as [A1 _]. split; [exact A1|exact I]. }
          { cbn [flat_map]. rewrite app_nil_r. exact HW. }
          { cbn [flat_map]. rewrite app_nil_r. exact Ea. }
          cbn [length Nat.add flat_map] in E1. rewrite app_nil_r in E1. exists c0a, ca, frsa, K1, e1. split; [exact E1|exact HRes1].
        - cbn [seg_pieces r_eseg] in *. cbn [inline_run E.obind fst snd] in Ea. injection Ea as <- <-. cbn [ld_run] in El1. injection El1 as <-.
          destruct Hs as [H1 H2]. rewrite <- !app_assoc in HW |- *. cbn [Nat.add].
          rewrite (loop_cdata text en tl) by (apply (SL.WV_W text _ _ HW)).
          change T.cdata_close with n3 in *.
          rewrite (SL.lex_cdata_u text en tl) by assumption.
          pose proof (WVs_full _ _ _ _ _ HW) as HWf. rewrite <- !app_assoc in HWf.
          destruct (tok_cdata_c text D HD decls es k IHk inh bs p _ c0 c frs acc lvl (WV_W _ _ _ HWf) HO HS) as (ca & E1 & HRes1).
          { destruct HPa as [_ X]. cbn [walk snd] in X. exact X. }
          { intros Z0. destruct HRa as [X _]. cbn [walk fst snd app] in X. apply (CstFullItems.node_room_room _ _ X).
            rewrite nsizes_flush, CstEntCText.all_marks_app. change (all_marks [T.PCData bs]) with false. rewrite andb_false_r. lia. }
          rewrite E1. cbn [bind]. eexists c0, ca, _, [], []. split; [|exact HRes1].
          f_equal. f_equal. rewrite !blen_app. change (blen T.cdata_open) with 9. change (blen n3) with 3. lia. }
      destruct Hone as (c0a & ca & frsa & K1 & e1 & E1 & HRes1).
      cbn [length]. change (S (length L) + fuel)%nat with (1 + (length L + fuel))%nat. rewrite E1.
      pose proof HRes1 as (S1 & O1 & M1 & F1 & Le1 & Nc1 & D1 & D1' & Fl1 & T1).
      assert (Hvs : U8.Valid (r_eseg s)) by (apply (eseg_valid D HD); exact Hs).
      apply (IH s (p + blen (r_eseg s)) m c0a ca frsa (snd (walk acc ia)) lvl depth fuel ib trb ld' rl HL A'); try assumption.
      * apply (SL.WV_app text _ _ _ HW Hvs).
      * rewrite D1, D1'. exact Hm.
      * rewrite D1, D1'. exact Hlvl.
      * rewrite D1. apply (ld_ok_run _ _ _ El1 Hldok).
      * destruct L as [|[l'|bs'] L']; try exact I. destruct s as [l|bs]; [destruct A' as [A' _]; specialize (A' eq_refl); discriminate|].
        cbn [seg_pieces inline_run E.obind fst snd] in Ea. injection Ea as <- <-. cbn [walk snd seg_bnd]. rewrite CstEntCText.bnd_snoc. reflexivity.
      * rewrite Fl1. rewrite (CstEntText.Run_pp _ _ _ (or_run _ _ _ _ _ _ _ O1)). destruct S1 as (_ & _ & ->).
        rewrite <- (CstEntText.Run_pp _ _ _ (or_run _ _ _ _ _ _ _ HO)). exact Hfl.
      * rewrite D1. exact Hld.
      * apply (Rooms_app_r _ _ _ _ _ _ _ _ _ _ _ _ HRes1 HR).
Qed.

(* ---- items ---- *)
Definition ItemN (i : uitem) : Prop :=
  forall inh m en tl p post c0 c frs acc lvl depth fuel its tr ld' rl,
    wf_uitem_s m i = true -> WVs en tl p (r_item i ++ post) ->
    (is_text epieces i = true -> text_stop post) ->
    OR inh c0 c frs -> SemI frs acc -> (is_text epieces i = true -> bnd acc = true) ->
    m = (0 <? ld_depth (c_ld c)) -> N.of_nat lvl + ld_depth (c_ld c) = 12 -> ld_ok (c_ld c) ->
    c_entity_floor c <= len_N (c_parent_prefixes c) ->
    inline_item tb m i = Some (its, tr) -> ld_run (c_ld c) tr = Some ld' ->
    Pok acc its -> Rooms inh c0 acc its -> Syn D acc its -> V inh acc its = Some rl ->
    exists er,
      parse_content_loop text context (evl lvl) (usteps i + fuel) depth (sst4 en tl p (r_item i ++ post)) c = Err er /\
      rule_error rl er = true.

Lemma ItemN_text ps : ItemN (IText ps).
Proof.
  intros inh m en tl p post c0 c frs acc lvl depth fuel its tr ld' rl Hwf HW Hstop HO HS Hb Hm Hlvl Hldok Hfl Hin Hld HP HR HSy HV.
  specialize (Hstop eq_refl). specialize (Hb eq_refl).
  cbn [wf_uitem_s r_item r_run epieces usteps inline_item] in *.
  apply andb_true_iff in Hwf. destruct Hwf as [Hne Hw].
  pose proof (esegs_wfm m ps Hw) as HF.
  rewrite <- (esegs_render (enc_epieces ps)) in HW |- *. rewrite <- (esegs_flat (enc_epieces ps)) in Hin.
  apply (segs_n inh post en tl Hstop (esegs (enc_epieces ps)) (ESC []) p m c0 c frs acc lvl depth fuel its tr ld' rl HF); try assumption.
  - apply ealt_sc. apply ealt_esegs.
  - destruct (esegs (enc_epieces ps)) as [|[l|bs] L]; try exact I. exact Hb.
Qed.

(* ---- a start tag that violates a rule ---- *)
Lemma elem_tag_n name ens ws body inh m en tl p post c0 c frs acc lvl ens' tra lda rl (el : bitem) :
  wf_uitem_s m (IElem name ens ws body) = true ->
  WVs en tl p (r_item (@IElem epieces name ens ws body) ++ post) ->
  OR inh c0 c frs -> SemI frs acc ->
  m = (0 <? ld_depth (c_ld c)) -> ld_ok (c_ld c) ->
  inline_entries tb m ens = Some (ens', tra) -> ld_run (c_ld c) tra = Some lda ->
  forallb (fun e => E.crlf_split_ok (e_value bpieces e)) ens' = true ->
  (exists body', el = @IElem bpieces name ens' ws body') -> Rooms inh c0 acc [el] ->
  forallb attr_name_ok (bd ens') = true -> incl (CstNs.own_bindings (bd ens')) D ->
  tag_viol inh (x_qname name) (bd ens') = Some rl ->
  exists er, parse_element text context (evl lvl) (sst4 en tl p (r_item (@IElem epieces name ens ws body) ++ post)) c = Err er /\
             rule_error rl er = true.
Proof.
  intros Hwf HW HO HS Hm Hldok Eat Ela Hprov [body' Eel] HR Hao HinD Htv.
  destruct (wf_elem_parts4 _ _ _ _ _ Hwf) as (Hn & Ha & Hw & _). clear Hwf.
  rewrite r_uitem_elem in *. rewrite <- !app_assoc in HW |- *.
  set (tail := match body with None => [47; 62] | Some (cs, ws2) => [62] ++ r_uitems cs ++ [60; 47] ++ r_qname name ++ ws2 ++ [62] end) in *.
  assert (Et : exists empty rest, tail ++ post = tag_tail empty ++ rest).
  { unfold tail. destruct body as [[cs ws2]|]; [exists false|exists true]; eexists; rewrite <- ?app_assoc; reflexivity. }
  destruct Et as (empty & rest & Et). rewrite Et in HW |- *.
  unfold r_qname at 1 in HW. unfold r_qname at 1. rewrite r_entries_x4 in HW |- *.
  rewrite (SL.lex_element_full text en tl context (evl lvl) p (x_qname name) _ ws empty rest c HW (CstFullItems.uq_of _ Hn))
    by (try exact Hw; apply (uentries_of4 m); exact Ha).
  cbv zeta.
  destruct (flush_res inh c0 c frs acc HO HS) as (cr & Kt & Er & Ar & St & Ir & L1 & L2 & L3 & Tr0 & HKt & Ees & Epp).
  unfold start_toks_ns.
  match goal with |- context [evs context (evl lvl) (?tk :: ?r) c] => rewrite (evs_reset text lvl tk r c cr I Er Ar) end.
  assert (Hnt : is_btext el = false) by (rewrite Eel; reflexivity).
  destruct (rooms_single inh c0 acc el cr Kt Hnt HR St Tr0 HKt) as (NR & AR & SR).
  rewrite Eel, den_elem in AR, SR. change (@val_sem bpieces bmeaning) with T.value_sem in AR, SR.
  cbn [NT.nattrs_items NT.ns_costs] in AR, SR. rewrite NT.nattrs_elem, Nat.add_0_r in AR. rewrite NT.ns_cost_elem, Nat.add_0_r in SR.
  pose proof (WVs_full _ _ _ _ _ HW) as HWf. rewrite <- !app_assoc in HWf.
  pose proof (WV_lit _ _ _ _ HWf (eq_refl : forallb (fun y => y <? 128) [60] = true)) as HW1. change (blen [60]) with 1 in HW1.
  pose proof (WV_app _ _ _ _ HW1 (uq_valid _ (CstFullItems.uq_of _ Hn))) as HW2.
  rewrite <- r_entries_x4 in HW2.
  destruct (sentries_at _ m ens _ ens' tra (c_ld cr) lda HW2 Ha ltac:(rewrite L1; exact Hm) ltac:(rewrite L1; exact Hldok) Eat ltac:(rewrite L1; exact Ela) Hprov)
    as (xs & Ex1 & Ex2 & Hok & Hnorms & Hdep).
  rewrite <- Ex1 in HWf |- *.
  destruct (start_tag_rej_gn text Hvalid D HD es lvl inh p (x_qname name) xs ws empty (rest ++ tl) cr lda rl (WV_W _ _ _ HWf)
              (CstFullItems.uq_local_ne _ Hn) Hok Hnorms) as (er & E & R); try (rewrite Ex2; assumption); try assumption.
  { rewrite Ex2, NT.sem_attrs_len. unfold CstNsItems.attr_room in AR. clia. }
  { rewrite Ex2, own_cost_eq. unfold CstNsItems.ns_room in SR. set (sc := NT.esc (bd ens') inh) in *.
    change (Scope.scope_of (CstNs.own_bindings (bd ens')) inh) with sc. destruct (CstNs.own_bindings (bd ens')); clia. }
  exists er. split; [|exact R]. apply bind_err_assoc. exact E.
Qed.

Lemma prov_el' acc name (ens' : list bentry) ws body : Pok acc [@IElem bpieces name ens' ws body] ->
  forallb (fun e => E.crlf_split_ok (e_value bpieces e)) ens' = true.
Proof.
  intros [X _]. rewrite walk_single in X by reflexivity. cbn [fst] in X. rewrite forallb_app in X.
  apply andb_true_iff in X. destruct X as [_ X]. cbn [forallb] in X. rewrite prov_elem, andb_true_r in X.
  apply andb_true_iff in X. apply X.
Qed.

(* the scope-independent conditions of an element, taken apart *)
Lemma syn_el acc name (ens' : list bentry) ws body : Syn D acc [@IElem bpieces name ens' ws body] ->
  forallb attr_name_ok (bd ens') = true /\ incl (CstNs.own_bindings (bd ens')) D /\
  match body with
  | None => True
  | Some (cs, _) => attrs_oks (bdens cs) = true /\ incl (NT.items_decls (bdens cs)) D
  end.
Proof.
  intros HSy. destruct (Syn_single D acc (@IElem bpieces name ens' ws body) eq_refl HSy) as [A B0].
  rewrite den_elem in A, B0. change (@val_sem bpieces bmeaning) with T.value_sem in A, B0.
  cbn [attrs_oks NT.items_decls] in A, B0. rewrite andb_true_r, attrs_ok_elem in A. rewrite app_nil_r, NT.item_decls_elem in B0.
  apply andb_true_iff in A. destruct A as [A1 A2]. split; [exact A1|].
  split; [intros z Hz; apply B0; apply in_or_app; left; exact Hz|].
  destruct body as [[cs ws2]|]; [|exact Logic.I]. split; [exact A2|]. intros z Hz. apply B0. apply in_or_app. right. exact Hz.
Qed.

Lemma ItemN_empty name ens ws : ItemN (IElem name ens ws None).
Proof.
  intros inh m en tl p post c0 c frs acc lvl depth fuel its tr ld' rl Hwf HW _ HO HS _ Hm Hlvl Hldok Hfl Hin Hld HP HR HSy HV.
  rewrite inline_item_elem in Hin. destruct (inline_entries tb m ens) as [[ens' tra]|] eqn:Eat; [|discriminate].
  cbn [E.obind fst snd] in Hin. injection Hin as <- <-.
  destruct (syn_el _ _ _ _ _ HSy) as (Hao & HinD & _).
  rewrite V_single in HV by reflexivity. rewrite den_elem in HV. change (@val_sem bpieces bmeaning) with T.value_sem in HV.
  cbn [NsRejDefs.items_viol] in HV. rewrite NsRejDefs.item_viol_elem in HV.
  destruct (tag_viol inh (x_qname name) (bd ens')) as [rt|] eqn:Etv; [|discriminate]. injection HV as ->.
  destruct (elem_tag_n name ens ws None inh m en tl p post c0 c frs acc lvl ens' tra ld' rl _ Hwf HW HO HS Hm Hldok Eat Hld (prov_el' _ _ _ _ _ HP)
              ltac:(eexists; reflexivity) HR Hao HinD Etv) as (er & E & R).
  destruct (wf_elem_parts4 _ _ _ _ _ Hwf) as (Hn & _).
  exists er. split; [|exact R]. cbn [usteps Nat.add]. rewrite r_uitem_elem in HW, E |- *. rewrite <- !app_assoc in HW, E |- *.
  unfold r_qname in HW, E |- *.
  rewrite (SL.loop_elem_q text en tl) by (try apply (SL.WV_W text _ _ HW); apply CstFullItems.uq_of; exact Hn).
  rewrite E. reflexivity.
Qed.

Lemma ItemN_open name ens ws cs ws2 : ItemsN text D decls es k cs -> ItemN (IElem name ens ws (Some (cs, ws2))).
Proof.
  intros HL inh m en tl p post c0 c frs acc lvl depth fuel its tr ld' rl Hwf HW _ HO HS _ Hm Hlvl Hldok Hfl Hin Hld HP HR HSy HV.
  rewrite inline_item_elem in Hin. destruct (inline_entries tb m ens) as [[ens' tra]|] eqn:Eat; [|discriminate].
  cbn [E.obind fst snd] in Hin. destruct (inline_items tb m cs) as [[itsc trc]|] eqn:Ecs; [|discriminate].
  cbn [E.obind fst snd] in Hin. injection Hin as <- <-.
  destruct (wf_elem_parts4 _ _ _ _ _ Hwf) as (Hn & _ & _ & Hw2 & Hna & Hcs).
  destruct (syn_el _ _ _ _ _ HSy) as (Hao & HinD & Hac & Hdc).
  rewrite V_single in HV by reflexivity. rewrite den_elem in HV. change (@val_sem bpieces bmeaning) with T.value_sem in HV.
  cbn [NsRejDefs.items_viol] in HV. rewrite NsRejDefs.item_viol_elem in HV.
  rewrite usteps_elem. cbn [Nat.add].
  assert (Eloop : forall X, parse_content_loop text context (evl lvl) (S X) depth
             (sst4 en tl p (r_item (@IElem epieces name ens ws (Some (cs, ws2))) ++ post)) c =
           let! (open, s, c1) := parse_element text context (evl lvl) (sst4 en tl p (r_item (@IElem epieces name ens ws (Some (cs, ws2))) ++ post)) c in
           parse_content_loop text context (evl lvl) X (if open then depth + 1 else depth) s c1).
  { intros X. revert HW. rewrite r_uitem_elem, <- !app_assoc. unfold r_qname at 1 3. intros HW.
    apply (SL.loop_elem_q text en tl); [apply (SL.WV_W text _ _ HW)|apply CstFullItems.uq_of; exact Hn]. }
  rewrite Eloop. clear Eloop.
  rewrite ld_run_app in Hld. destruct (ld_run (c_ld c) tra) as [lda|] eqn:Ela; [|discriminate].
  destruct (tag_viol inh (x_qname name) (bd ens')) as [rt|] eqn:Etv.
  - (* the tag *)
    injection HV as ->.
    destruct (elem_tag_n name ens ws (Some (cs, ws2)) inh m en tl p post c0 c frs acc lvl ens' tra lda rl _ Hwf HW HO HS Hm Hldok Eat Ela (prov_el' _ _ _ _ _ HP)
                ltac:(eexists; reflexivity) HR Hao HinD Etv) as (er & E & R).
    rewrite E. cbn [bind]. eauto.
  - (* the content *)
    destruct (elem_start_n text D HD decls es Henv Hdecls Hcont k name ens ws cs ws2 inh m en tl p post c0 c frs acc lvl
                ens' tra itsc lda Hwf HW HO HS Hm Hldok Hfl Eat Ela HP HR Etv Hao HinD)
      as (c1 & E1 & HO1 & D1 & D2 & Hok1 & Fl1 & HPc & HRc & HWc).
    rewrite E1. cbn [bind].
    replace (usteps_list cs + 1 + fuel)%nat with (usteps_list cs + S fuel)%nat by lia.
    set (sc := NT.esc (bd ens') inh) in *.
    rewrite bdens_regroup, bdens_app in HV, Hac, Hdc.
    rewrite items_viol_app, items_viol_flush in HV. rewrite attrs_oks_app, attrs_oks_flush, andb_true_r in Hac.
    rewrite items_decls_app, decls_flush, app_nil_r in Hdc.
    assert (HVc : V sc [] itsc = Some rl).
    { unfold V. change (CstNsTree.esc (bd ens') inh) with sc in HV. destruct (items_viol sc (bdens (fst (walk [] itsc)))); [exact HV|discriminate]. }
    apply (HL _ m en tl _ _ (sh c1) c1 [] [] lvl (depth + 1) (S fuel) itsc trc ld' rl Hcs Hna HWc ltac:(reflexivity) HO1 (CstEntCText.SemI_nil text)); try assumption.
    + destruct cs; [exact I|]. intros _. reflexivity.
    + rewrite D1, D2. exact Hm.
    + rewrite D1, D2. exact Hlvl.
    + rewrite D1. exact Hok1.
    + rewrite D1. exact Hld.
    + split; assumption.
Qed.

(* ---- lists of items ---- *)
Lemma ItemsN_of cs : Forall ItemN cs -> ItemsN text D decls es k cs.
Proof.
  induction 1 as [|i r Hi _ IH]; intros inh m en tl p post c0 c frs acc lvl depth fuel its tr ld' rl
    Hwf Hna HW Hpost HO HS Hb Hm Hlvl Hldok Hfl Hin Hld HP HR HSy HV.
  - cbn [inline_items] in Hin. injection Hin as <- <-. discriminate.
  - cbn [forallb] in Hwf. apply andb_true_iff in Hwf. destruct Hwf as [Hw1 Hw2].
    cbn [r_uitems flat_map] in HW |- *. fold (r_uitems r) in HW |- *. rewrite <- app_assoc in HW |- *.
    cbn [inline_items] in Hin.
    destruct (inline_item tb m i) as [[its1 tr1]|] eqn:Ei; [|discriminate]. cbn [E.obind fst snd] in Hin.
    destruct (inline_items tb m r) as [[its2 tr2]|] eqn:Er; [|discriminate]. cbn [E.obind fst snd] in Hin.
    injection Hin as <- <-.
    assert (Hna2 : no_adjacent_text epieces r = true).
    { destruct r as [|d r']; [reflexivity|]. cbn [no_adjacent_text] in Hna. apply andb_true_iff in Hna. apply Hna. }
    assert (Hnext : forall d r', r = d :: r' -> is_text epieces i = true -> is_text epieces d = false).
    { intros d r' -> Hi1. cbn [no_adjacent_text] in Hna. apply andb_true_iff in Hna.
      destruct Hna as [Hna _]. rewrite Hi1 in Hna. cbn [andb] in Hna. apply negb_true_iff in Hna. exact Hna. }
    assert (Hstop1 : is_text epieces i = true -> text_stop (r_uitems r ++ post)).
    { intros Hi1. destruct r as [|d r']; [exact Hpost|]. cbn [r_uitems flat_map]. rewrite <- app_assoc.
      apply (nontext_stop m); [apply (Hnext d r' eq_refl Hi1)|]. cbn [forallb] in Hw2. apply andb_true_iff in Hw2. apply Hw2. }
    destruct (Pok_app _ _ _ HP) as [HP1 HP2]. pose proof (Rooms_app_l _ _ _ _ _ HR) as HR1.
    destruct (Syn_app _ _ _ _ HSy) as [HS1 HS2]. rewrite V_app in HV.
    cbn [usteps_list]. rewrite <- Nat.add_assoc.
    rewrite ld_run_app in Hld. destruct (ld_run (c_ld c) tr1) as [ld1|] eqn:El1; [|discriminate].
    destruct (V inh acc its1) as [r1|] eqn:EV1.
    + injection HV as ->.
      apply (Hi inh m en tl p (r_uitems r ++ post) c0 c frs acc lvl depth (usteps_list r + fuel)%nat its1 tr1 ld1 rl Hw1 HW Hstop1 HO HS Hb Hm Hlvl Hldok Hfl Ei El1 HP1 HR1 HS1 EV1).
    + pose proof (nsok_of D inh acc its1 HS1 EV1) as HN1.
      destruct (ItemOK_all text D HD decls es Henv Hdecls Hcont k IHk i inh m en tl p (r_uitems r ++ post) c0 c frs acc lvl depth
                  (usteps_list r + fuel)%nat its1 tr1 ld1 Hw1 HW Hstop1 HO HS Hb Hm Hlvl Hldok Hfl Ei El1 HP1 HR1 HN1)
        as (c0a & ca & frsa & K1 & e1 & E1 & HRes1).
      rewrite E1. pose proof HRes1 as (S1 & O1 & M1 & F1 & Le1 & Nc1 & D1 & D1' & Fl1 & T1).
      apply (IH inh m en tl (p + blen (r_item i)) post c0a ca frsa (snd (walk acc its1)) lvl depth fuel its2 tr2 ld' rl Hw2 Hna2); try assumption.
      * apply (SL.WV_app text _ _ _ HW (uitem_valid m i Hw1)).
      * destruct r as [|d r']; [exact I|]. intros Hd. destruct (is_text epieces i) eqn:Eti.
        -- rewrite (Hnext d r' eq_refl eq_refl) in Hd. discriminate.
        -- destruct (inline_nontext_g decls k m i its1 tr1 Eti Ei) as (x & -> & Hx). rewrite walk_single by exact Hx. reflexivity.
      * rewrite D1, D1'. exact Hm.
      * rewrite D1, D1'. exact Hlvl.
      * rewrite D1. apply (ld_ok_run _ _ _ El1 Hldok).
      * rewrite Fl1. rewrite (CstEntText.Run_pp _ _ _ (or_run _ _ _ _ _ _ _ O1)). destruct S1 as (_ & _ & ->).
        rewrite <- (CstEntText.Run_pp _ _ _ (or_run _ _ _ _ _ _ _ HO)). exact Hfl.
      * rewrite D1. exact Hld.
      * apply (Rooms_app_r _ _ _ _ _ _ _ _ _ _ _ _ HRes1 HR).
Qed.

Theorem ItemN_all : forall i, ItemN i.
Proof.
  intros i. induction i as [n a w|n a w cs w2 IH|ps|bs|t s v] using fitem_ind.
  - apply ItemN_empty.
  - apply ItemN_open. apply ItemsN_of. exact IH.
  - apply ItemN_text.
  - intros inh m en tl p post c0 c frs acc lvl depth fuel its tr ld' rl _ _ _ _ _ _ _ _ _ _ Hin _ _ _ _ HV. cbn in Hin. injection Hin as <- _.
    rewrite V_single in HV by reflexivity. discriminate.
  - intros inh m en tl p post c0 c frs acc lvl depth fuel its tr ld' rl _ _ _ _ _ _ _ _ _ _ Hin _ _ _ _ HV. cbn in Hin. injection Hin as <- _.
    rewrite V_single in HV by reflexivity. discriminate.
Qed.

Theorem ItemsN_level : forall cs, ItemsN text D decls es k cs.
Proof. intros cs. apply ItemsN_of. apply Forall_forall. intros i _. apply ItemN_all. Qed.

End NsItems.

(* every level *)
Theorem NsFail_all text (Hvalid : valid_utf8_b text = true) D (HD : forall l, NoDup l -> incl l D -> N.of_nat (length l) <= 65535) decls es :
  Forall2 (uent_ok text) (map pd decls) es -> Forall udecl_okc (map pd decls) -> Forall decl_cont decls ->
  forall k cs, ItemsN text D decls es k cs.
Proof.
  intros Henv Hdecls Hcont. induction k as [|k IH]; intros cs.
  - apply (ItemsN_level text Hvalid D HD decls es Henv Hdecls Hcont 0). intros k' E0. discriminate.
  - apply (ItemsN_level text Hvalid D HD decls es Henv Hdecls Hcont (S k)). intros k' E0. injection E0 as <-. exact IH.
Qed.

Print Assumptions NsFail_all.
