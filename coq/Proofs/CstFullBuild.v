(* Proofs/CstFullBuild.v -- the capstone fragment (Spec/CstFull.v), builder completeness for a start tag
   whose entries have NORMALISED values: Proofs/CstNsBuild.v (start_tag_ok_ns) generalised.
   An entry is given three times: as written (s_raw: positions, tokens), as denoted (s_den: the
   Spec/CstNs.v entry with the normalised value: scopes, expanded names) and by the storage that
   [normalize_attribute] produces for its value (s_stor).  How a value is normalised is a stage
   matter: here it is the hypothesis [norm_ok].  No assumption on the characters of the text. *)
From Coq Require Import Ascii String.
From Coq Require Import List NArith PeanoNat Bool Lia ZifyBool ZifyN ZifyNat.
Import ListNotations.
From RX Require Import Generated.
From RX.Model Require Import Base CharClass Stream Tokenizer Doc Builder Parse.
From RX.Spec Require Cst Scope CstNs CstFull.
From RX.Proofs Require Import Tactics CstLex CstBuild CstNsLex CstNsView CstNsBuild.
From RX.Proofs Require ScopeProofs.
Open Scope N_scope.

Import CstNs.

Record sentry := { s_raw : entry; s_den : entry; s_stor : storage }.

(* same kind of entry, same name *)
Definition same_shape (e d : entry) : Prop :=
  match e, d with
  | EAttr _ n _, EAttr _ n' _ => n = n'
  | EDecl _ p _, EDecl _ p' _ => p = p'
  | _, _ => False
  end.

Lemma same_shape_qname e d : same_shape e d -> e_qname e = e_qname d.
Proof. destruct e as [l n v|l p u], d as [l' n' v'|l' p' u']; cbn [same_shape]; try contradiction; intros ->; reflexivity. Qed.

(* the slice of the value of the entry rendered at q *)
Definition vsl (q : N) (e : entry) : slice :=
  let l := e_layout e in
  let vs := q + blen (l_ws l) + blen (r_qname (e_qname e)) + blen (l_ws1 l) + 1 + blen (l_ws2 l) + 1 in
  sl vs (vs + blen (e_value e)).

Lemma ta_e_value q e : ta_value (ta_e q e) = Borrowed (SIn (vsl q e)).
Proof. reflexivity. Qed.

Definition ta_g (q : N) (e : entry) (stor : storage) : temp_attr :=
  {| ta_prefix := ta_prefix (ta_e q e); ta_local := ta_local (ta_e q e); ta_value := stor;
     ta_range := ta_range (ta_e q e); ta_qname_len := ta_qname_len (ta_e q e); ta_eq_len := ta_eq_len (ta_e q e) |}.

Fixpoint tas_g (q : N) (xs : list sentry) : list temp_attr :=
  match xs with
  | [] => []
  | x :: r => match s_den x with EAttr _ _ _ => [ta_g q (s_raw x) (s_stor x)] | EDecl _ _ _ => [] end
              ++ tas_g (q + blen (r_entry (s_raw x))) r
  end.

Definition raws (xs : list sentry) : list entry := map s_raw xs.
Definition dens (xs : list sentry) : list entry := map s_den xs.

Section Gen.
Variable text : bytes.
Variable D : list Scope.binding.
Hypothesis HD : forall l, NoDup l -> incl l D -> N.of_nat (length l) <= 65535.
Variable es0 : list entity.            (* the entities of the document (none before S3) *)

Notation W := (CstLex.W text).
Notation ev := (tok_ev text).
Notation TI := (CstNsBuild.TI text D).
Notation CIn := (CstNsBuild.CIn text D).
Notation NsInv := (CstNsBuild.NsInv text D).
Notation par_ok := (CstNsBuild.par_ok text).
Notation kmn := (CstNsBuild.kmn text).
Notation tview := (CstNsBuild.tview text).
Notation tname := (CstNsBuild.tname text).
Notation attr_res := (CstNsBuild.attr_res text).
Notation push_ns_ok := (CstNsBuild.push_ns_ok text D HD).
Notation par_ok_ext := (CstNsBuild.par_ok_ext text D HD).
Notation CIn_step := (CstNsBuild.CIn_step text D HD).
Notation qname_slices := (CstNsBuild.qname_slices text D HD).
Notation entry_slices := (CstNsBuild.entry_slices text D HD).
Notation bindings_of_push := (CstNsBuild.bindings_of_push text D HD).
Notation resolve_namespaces_ns := (CstNsBuild.resolve_namespaces_ns text D HD).
Notation resolve_attributes_ns := (CstNsBuild.resolve_attributes_ns text D HD).
Notation get_ns_ns := (CstNsBuild.get_ns_ns text D HD).
Notation kmn_ext := (CstNsBuild.kmn_ext text D HD).
Notation attrs_of_new := (CstNsBuild.attrs_of_new text D HD).
Notation CIn_intro := (CstNsBuild.CIn_intro text D).
Notation NsInv_same := (CstNsBuild.NsInv_same text D).
Notation NsInv_same2 := (CstNsBuild.NsInv_same2 text D).
Notation bindings_of_same := (CstNsBuild.bindings_of_same text).

(* what [normalize_attribute] needs of the context *)
Definition NC (c : context) : Prop := c_entities c = es0 /\ c_ld c = ld_init.
Definition norm_ok (v : slice) (stor : storage) : Prop :=
  forall c, NC c -> normalize_attribute text v c = Ok (stor, c).

Definition sentry_ok (q : N) (x : sentry) : Prop :=
  same_shape (s_raw x) (s_den x) /\ norm_ok (vsl q (s_raw x)) (s_stor x) /\
  storage_bytes text (s_stor x) = e_value (s_den x).

Fixpoint sentries_ok (q : N) (xs : list sentry) : Prop :=
  match xs with
  | [] => True
  | x :: r => sentry_ok q x /\ sentries_ok (q + blen (r_entry (s_raw x))) r
  end.

Lemma NC_keep c c' : c_entities c' = c_entities c -> c_ld c' = c_ld c -> NC c -> NC c'.
Proof. intros E1 E2 [H1 H2]. split; congruence. Qed.

Lemma Step0n_NC c c' K ext : Step0n c c' K ext -> NC c -> NC c'.
Proof. intros S. destruct (sn_keep _ _ _ _ S) as (_ & E1 & _ & E2). apply NC_keep; assumption. Qed.

Lemma ns_entry_decl_parts l p u : CstFull.ns_entry_ok (EDecl l p u) = true ->
  bytes_eqb p xmlns_str = false /\ bytes_eqb u ns_xmlns_uri = false /\
  (if bytes_eqb p ns_xml_prefix then bytes_eqb u ns_xml_uri = true else bytes_eqb u ns_xml_uri = false).
Proof.
  unfold CstFull.ns_entry_ok. rewrite !andb_true_iff. intros [[H2 H3] H4]. change Scope.bytes_eqb with bytes_eqb in H2, H3, H4.
  change xmlns_b with xmlns_str in H2. change xmlns_uri with ns_xmlns_uri in H3.
  change Scope.xml_prefix with ns_xml_prefix in H4. change Scope.xml_uri with ns_xml_uri in H4.
  split; [apply negb_true_iff; exact H2|]. split; [apply negb_true_iff; exact H3|].
  destruct (bytes_eqb p ns_xml_prefix); [exact H4|apply negb_true_iff; exact H4].
Qed.

Lemma tok_entry_g q x more c start own1 :
  W q (r_entry (s_raw x) ++ more) -> sentry_ok q x -> CstFull.ns_entry_ok (s_den x) = true -> NC c ->
  (forall b0, In b0 (own_bindings [s_den x]) -> existsb (fun o => Scope.prefix_eqb (fst o) (fst b0)) own1 = false) ->
  incl (own_bindings [s_den x]) D -> TI start own1 c ->
  exists d',
    ev (entry_tok q (s_raw x)) c = Ok (set_doc (set_cur_attrs c (c_cur_attrs c ++ tas_g q [x])) d') /\
    d_nodes d' = d_nodes (c_doc c) /\ d_attrs d' = d_attrs (c_doc c) /\ NsExt (c_doc c) d' /\
    TI start (own1 ++ own_bindings [s_den x]) (set_doc (set_cur_attrs c (c_cur_attrs c ++ tas_g q [x])) d') /\
    len_N (d_ns_tree d') = len_N (d_ns_tree (c_doc c)) + len_N (own_bindings [s_den x]).
Proof.
  intros HW (Hsh & Hnorm & Hst) Hns HC Hfresh HinD T. destruct (entry_slices _ _ _ HW) as (S1 & S2 & _).
  pose proof (same_shape_qname _ _ Hsh) as Eq. rewrite Eq in S1, S2.
  unfold tok_ev, Parse.token, entry_tok. cbv zeta. cbn [token_with].
  unfold ta_e in S1, S2. cbv zeta in S1, S2. cbn [ta_prefix ta_local] in S1, S2.
  unfold process_attribute.
  match goal with |- context [normalize_attribute text ?v c] => change v with (vsl q (s_raw x)) end.
  rewrite (Hnorm c HC). cbn [bind]. rewrite S1, S2, Hst.
  cbn [tas_g]. rewrite app_nil_r.
  destruct x as [e d stor]. cbn [s_raw s_den s_stor] in *.
  destruct d as [l n v|l p u]; cbn [e_qname e_value e_layout own_bindings flat_map app] in *.
  - (* an ordinary attribute *)
    unfold CstFull.ns_entry_ok in Hns. rewrite !andb_true_iff in Hns. destruct Hns as [Hx1 Hx2].
    change xmlns_b with xmlns_str in Hx1, Hx2. apply negb_true_iff in Hx1.
    change Scope.bytes_eqb with bytes_eqb in Hx1, Hx2. rewrite Hx1.
    replace ((slice_len (sl (q + blen (l_ws (e_layout e))) (q + blen (l_ws (e_layout e)) + blen (q_prefix (e_qname e)))) =? 0)
             && bytes_eqb (q_local n) xmlns_str) with false.
    2:{ unfold slice_len. cbn [sl sl_start sl_end]. apply negb_true_iff in Hx2. rewrite Eq.
        destruct (q_prefix n) as [|x0 pr]; [rewrite Hx2; symmetry; apply andb_false_r|].
        rewrite blen_cons. replace (q + blen (l_ws (e_layout e)) + (1 + blen pr) - (q + blen (l_ws (e_layout e))) =? 0) with false by lia. reflexivity. }
    exists (c_doc c). split.
    { reflexivity. }
    split; [reflexivity|]. split; [reflexivity|]. split; [apply NsExt_refl|]. rewrite app_nil_r. split.
    + destruct T as [T1 T2 T3 T4 T5]. constructor; assumption.
    + change (len_N []) with 0. lia.
  - (* a declaration *)
    destruct (ns_entry_decl_parts _ _ _ Hns) as (N3 & N4 & N5). destruct T as [T1 T2 T3 T4 T5].
    destruct p as [|x0 pr]; cbn [e_qname q_prefix q_local] in *.
    + (* xmlns="u" *)
      change (bytes_eqb [] xmlns_str) with false. cbv iota.
      unfold slice_len. cbn [sl sl_start sl_end]. rewrite Eq. cbn [q_prefix]. change (blen []) with 0.
      replace (q + blen (l_ws (e_layout e)) + 0 - (q + blen (l_ws (e_layout e))) =? 0) with true by lia.
      change (bytes_eqb xmlns_b xmlns_str) with true. cbn [andb].
      change (bytes_eqb [] ns_xml_prefix) with false in N5. cbv iota in N5. rewrite N5, N4.
      change (Scope.bytes_eqb [] Scope.xml_prefix) with false in *. cbv iota in *.
      rewrite T1. rewrite (ScopeProofs.ns_exists_spec text (c_doc c) start None own1 T2 T4). cbn [bind].
      pose proof (Hfresh (None, u) (or_introl eq_refl)) as Hf.
      match goal with |- context [if existsb ?f own1 then _ else _] => replace (existsb f own1) with false by (symmetry; exact Hf) end. clear Hf.
      destruct (push_ns_ok None stor (c_doc c) T3) as (d' & E & E1 & E2 & E3 & E4 & E5 & E6).
      { rewrite Hst. apply HinD. left. reflexivity. }
      rewrite Hst in E6.
      rewrite E. cbn [bind]. exists d'. rewrite ctx_eta2. split; [reflexivity|].
      split; [exact E1|]. split; [exact E2|]. split; [exact E3|]. split.
      * constructor; cbn [c_ns_start_idx c_doc set_doc set_cur_attrs]; try assumption.
        -- pose proof (NsExt_tree_len _ _ E3). lia.
        -- apply (bindings_of_push (c_doc c) d' start own1 (None, u)); assumption.
        -- apply Forall_app. split; [exact T5|]. constructor; [discriminate|constructor].
      * rewrite E5. reflexivity.
    + (* xmlns:p="u" *)
      set (p := x0 :: pr) in *.
      change (bytes_eqb xmlns_b xmlns_str) with true. cbv iota. rewrite N3, N4.
      change Scope.bytes_eqb with bytes_eqb in *. change Scope.xml_prefix with ns_xml_prefix in *.
      rewrite T1.
      assert (Hex : ns_exists text (c_doc c) start (@Some bytes p) =
                    Ok (existsb (fun o : Scope.binding => Scope.prefix_eqb (fst o) (Some p)) own1))
        by exact (ScopeProofs.ns_exists_spec text (c_doc c) start (Some p) own1 T2 T4).
      rewrite Hex. clear Hex.
      destruct (bytes_eqb p ns_xml_prefix) eqn:Ex; cbn [app] in *.
      * (* xmlns:xml with the xml URI: nothing is stored *)
        rewrite N5. cbn [negb andb bind].
        assert (Hno : existsb (fun o : Scope.binding => Scope.prefix_eqb (fst o) (Some p)) own1 = false).
        { apply ScopeProofs.existsb_prefix_false. intros o Ho. rewrite Forall_forall in T5. specialize (T5 o Ho).
          apply ScopeProofs.bytes_eqb_eq in Ex. rewrite Ex. exact T5. }
        match goal with |- context [if existsb ?f own1 then _ else _] => replace (existsb f own1) with false by (symmetry; exact Hno) end.
        exists (c_doc c). rewrite ctx_eta2. split; [f_equal; destruct c; reflexivity|].
        split; [reflexivity|]. split; [reflexivity|]. split; [apply NsExt_refl|]. rewrite app_nil_r. split.
        -- constructor; assumption.
        -- change (len_N []) with 0. lia.
      * rewrite N5. cbn [negb andb bind].
        pose proof (Hfresh (Some p, u) (or_introl eq_refl)) as Hf.
        match goal with |- context [if existsb ?f own1 then _ else _] => replace (existsb f own1) with false by (symmetry; exact Hf) end. clear Hf.
        match goal with |- context [push_ns text ?nm ?st (c_doc c)] =>
          destruct (push_ns_ok nm st (c_doc c) T3) as (d' & E & E1 & E2 & E3 & E4 & E5 & E6) end.
        { cbn [str_bytes]. rewrite S2, Hst. apply HinD. left. reflexivity. }
        cbn [str_bytes] in E6. rewrite S2, Hst in E6.
        rewrite E. cbn [bind]. exists d'. rewrite ctx_eta2. split; [reflexivity|].
        split; [exact E1|]. split; [exact E2|]. split; [exact E3|]. split.
        -- constructor; cbn [c_ns_start_idx c_doc set_doc set_cur_attrs]; try assumption.
           ++ pose proof (NsExt_tree_len _ _ E3). lia.
           ++ apply (bindings_of_push (c_doc c) d' start own1 (Some p, u)); assumption.
           ++ apply Forall_app. split; [exact T5|]. constructor; [|constructor]. cbn [fst]. intros K.
              apply (f_equal (fun o : option bytes => match o with Some y => y | None => [] end)) in K.
              apply (proj2 (ScopeProofs.bytes_eqb_eq _ _)) in K. change Scope.xml_prefix with ns_xml_prefix in K. rewrite K in Ex. discriminate.
        -- rewrite E5. reflexivity.
Qed.


Lemma tas_g_cons q x xs : tas_g q (x :: xs) = tas_g q [x] ++ tas_g (q + blen (r_entry (s_raw x))) xs.
Proof. cbn [tas_g]. rewrite app_nil_r. reflexivity. Qed.

Lemma dens_cons x xs : dens (x :: xs) = s_den x :: dens xs.
Proof. reflexivity. Qed.

Lemma entries_evs_g more : forall xs q c start own1,
  W q (flat_map r_entry (raws xs) ++ more) -> sentries_ok q xs ->
  forallb CstFull.ns_entry_ok (dens xs) = true -> NC c ->
  Scope.prefixes_unique (own1 ++ own_bindings (dens xs)) = true -> incl (own_bindings (dens xs)) D -> TI start own1 c ->
  exists d',
    evs context ev (entry_toks q (raws xs)) c = Ok (set_doc (set_cur_attrs c (c_cur_attrs c ++ tas_g q xs)) d') /\
    d_nodes d' = d_nodes (c_doc c) /\ d_attrs d' = d_attrs (c_doc c) /\ NsExt (c_doc c) d' /\
    TI start (own1 ++ own_bindings (dens xs)) (set_doc (set_cur_attrs c (c_cur_attrs c ++ tas_g q xs)) d') /\
    len_N (d_ns_tree d') = len_N (d_ns_tree (c_doc c)) + len_N (own_bindings (dens xs)).
Proof.
  induction xs as [|x xs IH]; intros q c start own1 HW Hok Hns HC Hu HinD T.
  - cbn [raws dens map entry_toks evs tas_g own_bindings flat_map]. exists (c_doc c). rewrite ctx_eta, app_nil_r.
    split; [reflexivity|]. split; [reflexivity|]. split; [reflexivity|]. split; [apply NsExt_refl|].
    split; [exact T|]. change (len_N []) with 0. lia.
  - cbn [dens map forallb] in Hns. apply andb_true_iff in Hns. destruct Hns as [Hw1 Hw2]. fold (dens xs) in Hw2.
    cbn [sentries_ok] in Hok. destruct Hok as [Ho1 Ho2].
    cbn [raws map flat_map] in HW. fold (raws xs) in HW. rewrite <- app_assoc in HW. rewrite dens_cons, own_cons in Hu, HinD.
    destruct (tok_entry_g q x _ c start own1 HW Ho1 Hw1 HC) as (d1 & E1 & N1 & A1 & X1 & T1 & L1).
    { intros b0 Hb. apply ScopeProofs.existsb_prefix_false. intros o Ho.
      apply ScopeProofs.prefixes_unique_app in Hu. destruct Hu as (_ & _ & Hu).
      intros K. apply (Hu o b0 Ho); [apply in_or_app; left; exact Hb|]. symmetry. exact K. }
    { intros y Hy. apply HinD. apply in_or_app. left. exact Hy. }
    { exact T. }
    cbn [raws map entry_toks evs]. fold (raws xs). rewrite E1. cbn [bind].
    destruct (IH (q + blen (r_entry (s_raw x))) (set_doc (set_cur_attrs c (c_cur_attrs c ++ tas_g q [x])) d1) start
                (own1 ++ own_bindings [s_den x]) (W_app _ _ _ _ HW) Ho2 Hw2)
      as (d2 & E2 & N2 & A2 & X2 & T2 & L2).
    { destruct HC as [H1 H2]. split; [exact H1|exact H2]. }
    { rewrite <- app_assoc. exact Hu. }
    { intros y Hy. apply HinD. apply in_or_app. right. exact Hy. }
    { exact T1. }
    rewrite E2. exists d2. cbn [c_cur_attrs c_doc set_doc set_cur_attrs] in *.
    rewrite dens_cons, own_cons, (tas_g_cons q x xs). rewrite <- !app_assoc in *.
    split; [reflexivity|]. split; [congruence|]. split; [congruence|].
    split; [eapply NsExt_trans; eassumption|]. split; [exact T2|].
    rewrite L2, L1, len_N_app. lia.
Qed.

Lemma sentry_slices q x more : W q (r_entry (s_raw x) ++ more) -> sentry_ok q x ->
  slice_bytes text (ta_prefix (ta_g q (s_raw x) (s_stor x))) = q_prefix (e_qname (s_den x)) /\
  slice_bytes text (ta_local (ta_g q (s_raw x) (s_stor x))) = q_local (e_qname (s_den x)) /\
  storage_bytes text (ta_value (ta_g q (s_raw x) (s_stor x))) = e_value (s_den x).
Proof.
  intros HW (Hsh & _ & Hst). destruct (entry_slices _ _ _ HW) as (S1 & S2 & _).
  rewrite (same_shape_qname _ _ Hsh) in S1, S2. cbn [ta_g ta_prefix ta_local ta_value]. auto.
Qed.

Lemma tas_sem_g sc more : forall xs q, W q (flat_map r_entry (raws xs) ++ more) -> sentries_ok q xs ->
  map (tview sc) (tas_g q xs) = sem_attrs sc (dens xs).
Proof.
  induction xs as [|x xs IH]; intros q HW Hok; [reflexivity|].
  cbn [raws map flat_map] in HW. fold (raws xs) in HW. rewrite <- app_assoc in HW. destruct Hok as [Ho1 Ho2].
  rewrite tas_g_cons, map_app, (IH _ (W_app _ _ _ _ HW) Ho2).
  unfold sem_attrs. rewrite dens_cons. cbn [flat_map]. f_equal.
  destruct (sentry_slices _ _ _ HW Ho1) as (S1 & S2 & S3).
  cbn [tas_g]. destruct (s_den x) as [l n v|l pr u]; cbn [app map]; [|reflexivity].
  unfold CstNsBuild.tview, CstNsBuild.tname. cbn [fst snd]. rewrite S1, S2, S3. reflexivity.
Qed.

Lemma bound_tas_g sc more : forall xs q, W q (flat_map r_entry (raws xs) ++ more) -> sentries_ok q xs ->
  forallb (fun e => match e with EAttr _ n _ => is_bound (Scope.resolve_attr sc (q_prefix n)) | EDecl _ _ _ => true end) (dens xs) = true ->
  Forall (fun t => is_bound (Scope.resolve_attr sc (slice_bytes text (ta_prefix t))) = true) (tas_g q xs).
Proof.
  induction xs as [|x xs IH]; intros q HW Hok H; [constructor|].
  cbn [raws map flat_map] in HW. fold (raws xs) in HW. rewrite <- app_assoc in HW. destruct Hok as [Ho1 Ho2].
  rewrite dens_cons in H. cbn [forallb] in H. apply andb_true_iff in H. destruct H as [H1 H2].
  rewrite tas_g_cons. apply Forall_app. split; [|apply IH; [apply (W_app _ _ _ _ HW)|exact Ho2|exact H2]].
  destruct (sentry_slices _ _ _ HW Ho1) as (S1 & _).
  cbn [tas_g]. destruct (s_den x) as [l n v|l pr u]; cbn [app]; [|constructor]. constructor; [|constructor]. rewrite S1. exact H1.
Qed.

Lemma start_tag_ok_g inh p name xs ws_end empty post c :
  W p ([60] ++ r_qname name ++ flat_map r_entry (raws xs) ++ ws_end ++ tag_tail empty ++ post) ->
  let own := own_bindings (dens xs) in
  let sc := Scope.scope_of own inh in
  q_local name <> [] -> Scope.bytes_eqb (q_prefix name) xmlns_b = false ->
  sentries_ok (p + 1 + blen (r_qname name)) xs ->
  forallb CstFull.ns_entry_ok (dens xs) = true -> Scope.prefixes_unique own = true ->
  is_bound (Scope.resolve_elem sc (q_prefix name)) = true ->
  forallb (fun e => match e with EAttr _ n _ => is_bound (Scope.resolve_attr sc (q_prefix n)) | EDecl _ _ _ => true end) (dens xs) = true ->
  enames_distinct (map (fun a => (fst (fst a), snd (fst a))) (sem_attrs sc (dens xs))) = true ->
  incl own D ->
  CIn inh c -> NC c -> room c ->
  len_N (d_attrs (c_doc c)) + N.of_nat (length (sem_attrs sc (dens xs))) < u32_max ->
  len_N (d_ns_tree (c_doc c)) + own_cost own sc <= u32_max ->
  let q' := p + 1 + blen (r_qname name) + blen (flat_map r_entry (raws xs)) + blen ws_end in
  let id := len_N (d_nodes (c_doc c)) in
  exists c' kind ext,
    (let! c1 := evs context ev (start_toks_ns p name (raws xs)) c in ev (end_tok q' empty) c1) = Ok c' /\
    Step0n c c' [(Some (c_parent_id c), kind)] ext /\ length ext = length (sem_attrs sc (dens xs)) /\
    (forall m, kmn (c_doc c') (Some (c_parent_id c), kind)
                 (c_parent_id c, VElem (ns_of (Scope.resolve_elem sc (q_prefix name))) (q_local name) (sem_attrs sc (dens xs)) sc m)) /\
    c_after_text c' = [] /\ tn_set c' /\
    len_N (d_ns_tree (c_doc c')) = len_N (d_ns_tree (c_doc c)) + own_cost own sc /\
    if empty
    then CIn inh c' /\ c_parent_id c' = c_parent_id c /\ c_parent_prefixes c' = c_parent_prefixes c
    else CIn sc c' /\ c_parent_id c' = id /\
         c_parent_prefixes c' = c_parent_prefixes c ++ [sl (p + 1) (p + 1 + blen (q_prefix name))] /\
         c_awaiting c' = [].
Proof.
  intros HW own sc Hn N1 Hok Hns N6 N2e N2a N7 HinD I HC R Hlim Hnsc q' id.
  pose proof (W_app _ _ _ _ HW) as HW1. change (blen [60]) with 1 in HW1.
  pose proof (W_app _ _ _ _ HW1) as HW2.
  destruct (qname_slices _ _ _ HW1) as [Sp Sl].
  pose proof (tas_sem_g sc _ xs _ HW2 Hok) as Tsem.
  pose proof (bound_tas_g sc _ xs _ HW2 Hok N2a) as Tb.
  set (T := tas_g (p + 1 + blen (r_qname name)) xs) in *.
  unfold start_toks_ns. cbn [evs].
  (* ElementStart *)
  unfold tok_ev at 1, Parse.token at 1. cbn [token_with].
  rewrite reset_after_text_ok by apply (cn_at _ _ _ _ I). cbn [bind].
  rewrite Sp. change Scope.bytes_eqb with bytes_eqb in N1. change xmlns_b with xmlns_str in N1. rewrite N1. cbn [bind].
  fold (tok_ev text). fold (tn_of_ns p name).
  set (c0 := set_tag_name (set_after_text c []) (tn_of_ns p name)).
  (* entries *)
  assert (T0 : TI (c_ns_start_idx c) [] c0).
  { constructor; cbn; try reflexivity.
    - rewrite (cn_ns _ _ _ _ I). lia.
    - apply (cn_inv _ _ _ _ I).
    - rewrite (cn_ns _ _ _ _ I). unfold ScopeProofs.bindings_of. cbn [fst snd]. rewrite N.sub_diag. reflexivity.
    - constructor. }
  assert (HC0 : NC c0) by (destruct HC as [H1 H2]; split; [exact H1|exact H2]).
  destruct (entries_evs_g _ xs _ c0 (c_ns_start_idx c) [] HW2 Hok Hns HC0 N6 HinD T0) as (d1 & E1 & Nd1 & A1 & X1 & T1 & L1).
  rewrite E1. cbn [bind]. cbn [app] in T1. fold own in T1, L1. fold T in T1 |- *.
  change (c_doc c0) with (c_doc c) in Nd1, A1, X1, L1.
  replace (c_cur_attrs c0) with (@nil temp_attr) in * by (symmetry; apply (cn_cur _ _ _ _ I)). cbn [app] in *.
  set (c1 := set_doc (set_cur_attrs c0 T) d1) in *.
  (* ElementEnd *)
  unfold tok_ev, Parse.token, end_tok. cbn [token_with].
  rewrite reset_after_text_ok by (cbn; lia). cbn [bind].
  set (c1' := set_after_text c1 []).
  unfold process_element.
  replace (slice_len (tn_name (c_tag_name c1')) =? 0) with false.
  2:{ cbn. unfold slice_len. cbn [sl sl_start sl_end]. rewrite r_qname_len.
      destruct (q_local name); [congruence|]. rewrite blen_cons. lia. }
  destruct (cn_par _ _ _ _ I) as (par & k & Epar & Hpar).
  assert (T1' : TI (c_ns_start_idx c1') own c1') by exact T1.
  destruct (resolve_namespaces_ns inh own c1' par k T1') as (r & d2 & E2 & Nd2 & A2 & V2 & (t2 & Tr2) & Ok2 & B2 & R1 & R2 & L2).
  { cbn. rewrite Nd1. apply (cn_pid _ _ _ _ I). }
  { cbn. unfold absn. rewrite Nd1. exact Epar. }
  { apply (par_ok_ext (c_doc c) d1); [exact X1|exact Hpar]. }
  { cbn. destruct k; try exact Logic.I. cbn [CstNsBuild.par_ok] in Hpar. rewrite (cn_ns _ _ _ _ I). apply Hpar. }
  { apply (cn_uniq _ _ _ _ I). }
  { cbn. rewrite (cn_ns _ _ _ _ I). fold sc. exact Hnsc. }
  rewrite E2. cbn [bind]. clear E2.
  change (c_doc c1') with d1 in Nd2, A2, V2, Tr2, L2.
  change (c_ns_start_idx c1') with (c_ns_start_idx c) in L2.
  set (c3 := set_ns_start_idx (set_doc c1' d2) (len_N (d_ns_tree (c_doc (set_doc c1' d2))))).
  assert (Hxml2 : nth_error (d_ns_values d2) 0 = Some xml_ns) by (rewrite V2; apply (nsi_xml _ _ _ (ti_inv _ _ _ _ _ T1))).
  destruct (resolve_attributes_ns r sc c3) as (new & E3 & F3).
  { exact B2. } { exact R1. } { exact R2. } { exact Hxml2. } { exact Tb. }
  { cbn [c_cur_attrs c3 set_ns_start_idx set_doc c1' set_after_text c1 set_cur_attrs].
    rewrite <- N7. rewrite <- Tsem, !map_map. reflexivity. }
  { cbn. rewrite A2, A1. unfold len_N at 2. fold T. rewrite <- (map_length (tview sc)), Tsem. exact Hlim. }
  rewrite E3. cbn [bind]. clear E3.
  change (c_cur_attrs c3) with T in F3. change (c_doc c3) with d2 in F3.
  cbn [c_cur_attrs c_doc c3 set_ns_start_idx set_doc c1' set_after_text c1 set_cur_attrs c_tag_name c0 set_tag_name
       tn_of_ns tn_prefix tn_prefix_pos tn_name tn_pos].
  rewrite A2, A1. set (A := d_attrs (c_doc c)).
  set (d4 := set_attrs d2 (A ++ new)).
  destruct (get_ns_ns d4 r sc (p + 1) (sl (p + 1) (p + 1 + blen (q_prefix name)))) as (tns & E4 & U4).
  { rewrite (bindings_of_same d2 d4 r eq_refl eq_refl). exact B2. }
  { exact R1. } { exact R2. } { exact Hxml2. } { rewrite Sp. exact N2e. }
  rewrite Sp in U4.
  assert (Hnew : length new = length T) by (clear - F3; induction F3; cbn [length]; lia).
  set (ar := attr_range A T).
  set (kind := KElement tns (sl (p + 1 + q_off name) (p + 1 + blen (r_qname name))) ar r).
  assert (Hkm : forall m d', DocExt d4 d' ->
            kmn d' (Some (c_parent_id c), kind)
                (c_parent_id c, VElem (ns_of (Scope.resolve_elem sc (q_prefix name))) (q_local name) (sem_attrs sc (dens xs)) sc m)).
  { intros m d' HE. apply (kmn_ext d4 d' _ _ HE). split; [reflexivity|]. cbn [snd kind].
    split; [exact U4|]. split; [exact Sl|]. split.
    - unfold ar. rewrite <- Tsem. apply (attrs_of_new d2 d4 sc A T new); [reflexivity|exact F3|apply NsExt_same; reflexivity].
    - unfold ar, attr_range. cbn [d4 set_attrs d_attrs]. rewrite len_N_app.
      replace (len_N new) with (len_N T) by (unfold len_N; lia).
      split; [destruct T; cbn [fst snd]; lia|]. split; [destruct T; cbn [fst snd]; lia|].
      unfold scope_at. rewrite (bindings_of_same d2 d4 r eq_refl eq_refl). exact B2. }
  assert (Hext : NsExt (c_doc c) d2).
  { eapply NsExt_trans; [exact X1|]. split; [exists t2; exact Tr2|exists []; rewrite app_nil_r; exact V2]. }
  assert (Hcost : len_N (d_ns_tree d2) = len_N (d_ns_tree (c_doc c)) + own_cost own sc).
  { rewrite L2. unfold own_cost. rewrite (cn_ns _ _ _ _ I). change (c_doc c0) with (c_doc c) in L1.
    unfold sc. clear - L1. clearbody own. destruct own; [rewrite L1; change (len_N []) with 0; lia|reflexivity]. }
  assert (Hinv2 : NsInv d2) by (apply (NsInv_same d1 d2 (ti_inv _ _ _ _ _ T1) Ok2 V2)).
  assert (Htn : forall tn2 : N, blen (q_local name) <> 0) by (intros _; destruct (q_local name); [congruence|rewrite blen_cons; lia]).
  rewrite E4. cbn [bind].
  destruct empty; cbv iota; cbn [bind]; fold kind;
  (match goal with |- context [append_node kind ?rg ?cc] =>
    destruct (append_node_ok kind rg cc) as (nodes' & E & M & Ln);
      [cbn; rewrite Nd2, Nd1; apply (cn_pid _ _ _ _ I)|cbn; rewrite Nd2, Nd1; apply (cn_aw _ _ _ _ I)
      |unfold room in *; cbn; rewrite Nd2, Nd1; exact R|]; rewrite E; clear E end);
  cbn [bind]; cbn in M, Ln; rewrite Nd2, Nd1 in M, Ln; fold (absn (c_doc c)) in M.
  - eexists. exists kind, new. split; [reflexivity|].
    match goal with |- Step0n c ?c' _ _ /\ _ => assert (S : Step0n c c' [(Some (c_parent_id c), kind)] new) end.
    { constructor.
      - repeat split.
      - cbn. symmetry. apply (cn_cur _ _ _ _ I).
      - exact M.
      - reflexivity.
      - exact Hext. }
    split; [exact S|]. split; [rewrite Hnew, <- (map_length (tview sc) T), Tsem; reflexivity|].
    split; [intros m; apply Hkm; cbn; apply DocExt_same; reflexivity|].
    split; [reflexivity|]. split.
    { unfold tn_set. cbn. unfold slice_len. cbn [sl sl_start sl_end]. rewrite r_qname_len. specialize (Htn 0). lia. }
    split; [exact Hcost|].
    split; [|split; reflexivity].
    eapply CIn_intro; [exact I|exact S| | | | | | | |].
    + reflexivity.
    + apply (NsInv_same2 d2); [exact Hinv2|reflexivity|reflexivity].
    + cbn. apply (cn_pp _ _ _ _ I).
    + cbn. rewrite Ln. pose proof (cn_pid _ _ _ _ I). lia.
    + cbn. exists par, k. split.
      * unfold absn. cbn. rewrite M. rewrite nth_error_app1; [exact Epar|].
        pose proof (cn_pid _ _ _ _ I) as Hp. rewrite <- absn_len in Hp. unfold len_N in Hp. lia.
      * apply (par_ok_ext (c_doc c)); [|exact Hpar]. eapply NsExt_trans; [exact Hext|apply NsExt_same; reflexivity].
    + apply (cn_uniq _ _ _ _ I).
    + unfold kind. cbn. constructor; [|constructor]. rewrite Ln, Nd2, Nd1. lia.
    + cbn. lia.
  - eexists. exists kind, new. split; [reflexivity|].
    match goal with |- Step0n c ?c' _ _ /\ _ => assert (S : Step0n c c' [(Some (c_parent_id c), kind)] new) end.
    { constructor.
      - repeat split.
      - cbn. symmetry. apply (cn_cur _ _ _ _ I).
      - exact M.
      - reflexivity.
      - exact Hext. }
    split; [exact S|]. split; [rewrite Hnew, <- (map_length (tview sc) T), Tsem; reflexivity|].
    split; [intros m; apply Hkm; cbn; apply DocExt_same; reflexivity|].
    split; [reflexivity|]. split.
    { unfold tn_set. cbn. unfold slice_len. cbn [sl sl_start sl_end]. rewrite r_qname_len. specialize (Htn 0). lia. }
    split; [exact Hcost|].
    split; [|split; [cbn; rewrite Nd2, Nd1; reflexivity|split; reflexivity]].
    eapply CIn_intro; [exact I|exact S| | | | | | | |].
    + reflexivity.
    + apply (NsInv_same2 d2); [exact Hinv2|reflexivity|reflexivity].
    + cbn. destruct (c_parent_prefixes c); discriminate.
    + cbn. rewrite Ln, Nd2, Nd1. lia.
    + cbn. exists (Some (c_parent_id c)), kind. split.
      * unfold absn. cbn. rewrite M, Nd2, Nd1.
        replace (N.to_nat (len_N (d_nodes (c_doc c)))) with (length (absn (c_doc c)))
          by (unfold absn, len_N; rewrite map_length; lia).
        rewrite nth_error_app2 by lia. rewrite Nat.sub_diag. reflexivity.
      * cbn [CstNsBuild.par_ok kind]. split; [transitivity (ScopeProofs.bindings_of text d2 r); [apply bindings_of_same; reflexivity|exact B2]|]. split; [exact R1|exact R2].
    + apply ScopeProofs.scope_prefixes_unique; [exact N6|apply (cn_uniq _ _ _ _ I)].
    + cbn. constructor.
    + cbn. lia.
Qed.

End Gen.

Print Assumptions start_tag_ok_g.
