(* Proofs/CstEntItems.v -- C07 on whole documents whose entities are all character data:
   parse_content_loop with the real callback on the rendering of an item of Spec/CstEnt.v appends
   exactly the rows of what the item is inlined to. *)
From Coq Require Import Ascii String.
From Coq Require Import List NArith PeanoNat Bool Lia ZifyBool ZifyN ZifyNat.
Import ListNotations.
From RX Require Import Generated.
From RX.Model Require Import Base CharClass Stream Tokenizer Doc Builder Parse.
From RX.Spec Require Cst CstText CstEnt Detector.
From RX.Spec Require Import Text.
From RX.Proofs Require Import Tactics CstLex CstBuild CstTree CstItems CstDoc TextMerge DetectorProofs.
From RX.Proofs Require Import CstTextSem CstTextLex CstTextBuild CstTextItems.
From RX.Proofs Require Import CstEntSem CstEntText CstEntAttr CstEntMeaning CstEntRun CstEntLex CstEntDtd CstEntBuild CstEntInline.
Open Scope N_scope.

(* ---- induction on items, list versions ---- *)
Section EItemInd.
Variable P : E.item -> Prop.
Hypothesis Hempty : forall n a w, P (E.IElem n a w None).
Hypothesis Helem : forall n a w cs w2, Forall P cs -> P (E.IElem n a w (Some (cs, w2))).
Hypothesis Htext : forall ps, P (E.IText ps).
Hypothesis Hcomment : forall bs, P (E.IComment bs).
Hypothesis Hpi : forall t s v, P (E.IPI t s v).

Fixpoint eitem_ind (i : E.item) : P i :=
  match i with
  | E.IElem n a w None => Hempty n a w
  | E.IElem n a w (Some (cs, w2)) =>
    Helem n a w cs w2
      ((fix go (l : list E.item) : Forall P l :=
          match l with [] => Forall_nil P | c :: r => Forall_cons c (eitem_ind c) (go r) end) cs)
  | E.IText ps => Htext ps
  | E.IComment bs => Hcomment bs
  | E.IPI t s v => Hpi t s v
  end.
End EItemInd.

Fixpoint ewf_items (l : list E.item) : bool :=
  match l with [] => true | c :: r => E.wf_item false c && ewf_items r end.

Lemma er_item_elem name attrs ws body :
  E.r_item (E.IElem name attrs ws body) =
  [60] ++ name ++ flat_map E.r_attr attrs ++ ws ++
  match body with
  | None => [47; 62]
  | Some (cs, ws2) => [62] ++ E.r_items cs ++ [60; 47] ++ name ++ ws2 ++ [62]
  end.
Proof.
  destruct body as [[cs ws2]|]; [|reflexivity]. cbn [E.r_item].
  replace ((fix go (l : list E.item) : bytes := match l with [] => [] | c :: r => E.r_item c ++ go r end) cs)
    with (E.r_items cs); [reflexivity|].
  induction cs as [|c r IH]; [reflexivity|]. unfold E.r_items in *. cbn [flat_map]. rewrite IH. reflexivity.
Qed.

Lemma ewf_item_elem name attrs ws body :
  E.wf_item false (E.IElem name attrs ws body) =
  Cst.wf_name name && negb (T.is_xmlns name)
  && forallb (E.wf_attr false) attrs && forallb (fun a => negb (T.is_xmlns (E.a_name a))) attrs
  && Cst.names_distinct (map E.a_name attrs) && Cst.wf_ws ws &&
  match body with
  | None => true
  | Some (cs, ws2) => Cst.wf_ws ws2 && E.no_adjacent_text cs && ewf_items cs
  end.
Proof. destruct body as [[cs ws2]|]; reflexivity. Qed.

Lemma ewf_elem_parts name attrs ws body : E.wf_item false (E.IElem name attrs ws body) = true ->
  Cst.wf_name name = true /\ forallb (E.wf_attr false) attrs = true /\ forallb enot_xmlns attrs = true /\
  Cst.names_distinct (map E.a_name attrs) = true /\ Cst.wf_ws ws = true /\
  match body with
  | None => True
  | Some (cs, ws2) => Cst.wf_ws ws2 = true /\ E.no_adjacent_text cs = true /\ ewf_items cs = true
  end.
Proof.
  rewrite ewf_item_elem, !andb_true_iff. intros [[[[[[H1 _] H2] H3] H4] H5] H6].
  repeat split; try assumption. destruct body as [[cs ws2]|]; [|exact Logic.I].
  rewrite !andb_true_iff in H6. tauto.
Qed.

Lemma inline_elem tb ie name attrs ws body :
  E.inline_item tb ie (E.IElem name attrs ws body) =
  E.obind (E.inline_attrs tb ie attrs) (fun a =>
  match body with
  | None => Some ([T.IElem name (fst a) ws None], snd a)
  | Some (cs, ws2) =>
    E.obind (E.inline_items tb ie cs) (fun b0 =>
    Some ([T.IElem name (fst a) ws (Some (E.regroup (fst b0), ws2))], snd a ++ snd b0))
  end).
Proof.
  destruct body as [[cs ws2]|]; [|reflexivity]. cbn [E.inline_item]. destruct (E.inline_attrs tb ie attrs); [|reflexivity].
  cbn [E.obind].
  assert (Ego : forall l, (fix go (l : list E.item) : option (list E.T.item * list Detector.lop) :=
                             match l with
                             | [] => Some ([], [])
                             | c :: r => E.obind (E.inline_item tb ie c) (fun x => E.obind (go r) (fun y =>
                                         Some (fst x ++ fst y, snd x ++ snd y)))
                             end) l = E.inline_items tb ie l).
  { induction l as [|c r IH]; [reflexivity|]. cbn [E.inline_items]. rewrite <- IH. reflexivity. }
  rewrite Ego. reflexivity.
Qed.

Lemma prov_elem n a w body :
  E.provisos_item (T.IElem n a w body) =
  forallb (fun x => E.crlf_split_ok (T.a_value x)) a &&
  match body with None => true | Some (cs, _) => forallb E.provisos_item cs end.
Proof.
  destruct body as [[cs w2]|]; [|reflexivity]. cbn [E.provisos_item]. f_equal.
Qed.

Fixpoint esteps (i : E.item) : nat :=
  match i with
  | E.IElem _ _ _ (Some (cs, _)) =>
    S ((fix go (l : list E.item) : nat := match l with [] => O | c :: r => esteps c + go r end) cs + 1)
  | E.IText ps => length (esegs ps)
  | _ => 1
  end%nat.
Fixpoint esteps_list (l : list E.item) : nat :=
  match l with [] => O | c :: r => (esteps c + esteps_list r)%nat end.

Lemma esteps_elem n a w cs w2 : esteps (E.IElem n a w (Some (cs, w2))) = S (esteps_list cs + 1)%nat.
Proof. reflexivity. Qed.

Definition is_eelem (i : E.item) : bool := match i with E.IElem _ _ _ _ => true | _ => false end.

Lemma nattrs_items_app l1 l2 : nattrs_items (l1 ++ l2) = (nattrs_items l1 + nattrs_items l2)%nat.
Proof. induction l1 as [|c r IH]; [reflexivity|]. cbn [app nattrs_items]. rewrite IH. lia. Qed.

Section EItems.
Variable text : bytes.
Hypothesis Hascii : Forall (fun x => x < 128) text.
Variable decls : list E.edecl.
Variable es : list entity.
Hypothesis Henv : Forall2 (ent_ok text) decls es.
Hypothesis Hdecls : Forall decl_ok decls.
Hypothesis Hadjs : Forall decl_adj decls.
Hypothesis Hetext : Forall (fun d => exists vps, E.e_value d = E.EText vps) decls.
Variable k : nat.

Notation tb := (E.level decls k).
Notation ev := (tok_ev text).
Notation loop := (parse_content_loop text context (tok_ev text)).
Notation st := (CstLex.st text).
Notation W := (CstLex.W text).

(* ------------------------------------------------------------------------------------------ *)
(* a run of character data                                                                    *)
(* ------------------------------------------------------------------------------------------ *)

Lemma ess_bytes l : eseg_wf (ESS l) ->
  forallb (fun x => T.is_tplain x && negb (x =? 60)) (E.r_epieces l) = true /\
  exists x r, E.r_epieces l = x :: r /\ x <> 60.
Proof.
  intros (Hne & Hok & _). pose proof (ep_bytes false l Hok) as Hb. split; [exact Hb|].
  destruct l as [|pc l']; [congruence|]. apply Forall_cons_iff in Hok. destruct Hok as [Hp _].
  assert (Hx : exists x r, E.r_epiece pc = x :: r).
  { destruct pc as [q|n]; [destruct Hp as [Hv _]; apply (r_piece_ne 60 q Hv)|cbn; eauto]. }
  destruct Hx as (x & r & Er). rewrite r_epieces_cons, Er in Hb |- *. cbn [app forallb] in Hb |- *.
  exists x, (r ++ E.r_epieces l'). split; [reflexivity|]. lia.
Qed.

(* one iteration of the content loop per segment *)
Lemma eseg_step_ss l p rest c0 c frs fuel depth q tr F ld' :
  W p (E.r_epieces l ++ rest) -> eseg_wf (ESS l) -> text_stop rest ->
  Exp decls false [] l q tr F -> ld_run ld_init tr = Some ld' ->
  c_ld c = ld_init -> c_entities c = es -> CI c0 -> (frs = [] -> F <> [] -> room c0) -> c_after_text c0 = [] -> Run c0 c frs ->
  exists c' G,
    loop (S fuel) depth (st p (E.r_epieces l ++ rest)) c = loop fuel depth (st (p + blen (E.r_epieces l)) rest) c' /\
    Run c0 c' (frs ++ G) /\ map (cow_bytes text) G = F /\
    c_ld c' = ld_init /\ c_tag_name c' = c_tag_name c /\ c_entity_floor c' = c_entity_floor c.
Proof.
  intros HW Hwf Hstop He Hld Hc Hes I R Hat HR.
  destruct (ess_bytes l Hwf) as (Hb & x & r & Ex & Hx60). destruct Hwf as (Hne & Hok & _ & Hn3).
  rewrite Ex in HW |- *. cbn [app] in HW |- *. rewrite (loop_text text) by assumption.
  change (x :: r ++ rest) with ((x :: r) ++ rest) in *. rewrite <- Ex in *.
  rewrite (lex_text' text Hascii) by assumption.
  destruct (tok_estretch text Hascii decls es Henv Hdecls p l rest c0 c frs q tr F ld' HW Hok Hne He Hld Hc Hes I R Hat HR)
    as (c' & G & E' & HR' & HG & K1 & K2 & K3).
  rewrite E'. cbn [bind]. exists c', G. repeat split; auto.
Qed.

Lemma eseg_step_sc bs p rest c0 c frs fuel depth :
  W p (r_eseg (ESC bs) ++ rest) -> eseg_wf (ESC bs) -> c_ld c = ld_init ->
  CI c0 -> (frs = [] -> room c0) -> c_after_text c0 = [] -> Run c0 c frs ->
  exists c' G,
    loop (S fuel) depth (st p (r_eseg (ESC bs) ++ rest)) c = loop fuel depth (st (p + blen (r_eseg (ESC bs))) rest) c' /\
    Run c0 c' (frs ++ G) /\ map (cow_bytes text) G = [norm_eol bs] /\
    c_ld c' = ld_init /\ c_tag_name c' = c_tag_name c /\ c_entity_floor c' = c_entity_floor c.
Proof.
  intros HW Hwf Hc I R Hat HR.
  assert (Hld : LD c) by (unfold LD; rewrite Hc; reflexivity).
  pose proof (seg_step text Hascii (SC bs) p rest c fuel depth HW Hwf Hld (fun H => ltac:(discriminate H))) as Es.
  cbn [r_eseg]. cbn [r_seg] in Es. rewrite Es.
  destruct (run_append (frag p (SC bs)) (seg_range p (SC bs)) c0 c frs HR I R Hat) as (c' & Ea & HRa & L1 & L2 & L3).
  rewrite Ea. cbn [bind]. exists c', [frag p (SC bs)]. split; [reflexivity|]. split; [exact HRa|]. split.
  - cbn [map]. rewrite (frag_bytes text p (SC bs) rest HW Hwf). reflexivity.
  - repeat split; congruence.
Qed.

Lemma ealt_stop s L post : ealt (s :: L) -> text_follow post -> is_ess s = true -> text_stop (flat_map r_eseg L ++ post).
Proof.
  intros A Hp Hs. destruct L as [|[l|bs] L']; cbn [flat_map app].
  - apply text_follow_stop. exact Hp.
  - destruct A as [A _]. specialize (A Hs). discriminate.
  - reflexivity.
Qed.

Lemma run_loop_e c0 post : CI c0 -> c_after_text c0 = [] -> text_follow post ->
  forall L Q tr FF, RunExp decls L Q tr FF ->
  forall prev p c frs fuel depth ld',
  (frs = [] -> concat FF <> [] -> room c0) -> Forall eseg_wf L -> ealt (prev :: L) -> W p (flat_map r_eseg L ++ post) ->
  ld_run ld_init tr = Some ld' -> c_ld c = ld_init -> c_entities c = es -> Run c0 c frs ->
  exists c' G,
    loop (length L + fuel) depth (st p (flat_map r_eseg L ++ post)) c =
    loop fuel depth (st (p + blen (flat_map r_eseg L)) post) c' /\
    Run c0 c' (frs ++ G) /\ map (cow_bytes text) G = concat FF /\
    c_ld c' = ld_init /\ c_tag_name c' = c_tag_name c /\ c_entity_floor c' = c_entity_floor c /\ ld' = ld_init.
Proof.
  intros I Hat Hp L Q tr FF H.
  induction H as [|ps q tr F L Q tr' FF He HR IH|bs L Q tr' FF HR IH];
    intros prev p c frs fuel depth ld' R HF A HW Hld Hc Hes HRun.
  - cbn [length flat_map app Nat.add concat]. rewrite blen_nil, N.add_0_r. exists c, []. rewrite app_nil_r.
    cbn [ld_run] in Hld. injection Hld as <-. repeat split; auto.
  - apply Forall_cons_iff in HF. destruct HF as [Hs HL]. cbn [flat_map] in HW |- *. rewrite <- app_assoc in HW |- *.
    assert (A' : ealt (ESS ps :: L)) by (destruct A as [_ A]; exact A).
    rewrite ld_run_app in Hld. destruct (ld_run ld_init tr) as [ld1|] eqn:El1; [|discriminate].
    cbn [length Nat.add r_eseg] in *.
    destruct (eseg_step_ss ps p (flat_map r_eseg L ++ post) c0 c frs (length L + fuel) depth q tr F ld1 HW Hs
                (ealt_stop _ _ _ A' Hp eq_refl) He El1 Hc Hes I
                (fun Z0 Z1 => R Z0 ltac:(cbn [concat]; intros Z2; apply app_eq_nil in Z2; destruct Z2; contradiction)) Hat HRun)
      as (c1 & G1 & E1 & HR1 & HG1 & K1 & K2 & K3).
    rewrite E1.
    assert (E1d : ld1 = ld_init).
    { destruct Hs as (Hne & Hok & _).
      destruct (TL text Hascii decls es Henv Hdecls false [] ps q tr F He (p + blen (E.r_epieces ps)) p
                  (flat_map r_eseg L ++ post) c0 c frs (S (length (E.r_epieces ps))) entity_levels (p, p) ld1)
        as (_ & _ & _ & _ & _ & _ & Kd & _); try assumption; try reflexivity.
      - apply (W_le _ _ _ (W_app _ _ _ _ HW)).
      - rewrite Hc. reflexivity.
      - constructor.
      - rewrite Hc. exact El1.
      - rewrite Hc. reflexivity.
      - intros Z0 Z1. apply (R Z0). cbn [concat]. intros Z2. apply app_eq_nil in Z2. destruct Z2; contradiction.
      - lia.
      - apply (ld_run_init tr ld1 El1). rewrite Kd, Hc. reflexivity. }
    subst ld1.
    destruct (IH (ESS ps) (p + blen (E.r_epieces ps)) c1 (frs ++ G1) fuel depth ld'
                (fun Z0 Z1 => R (proj1 (app_eq_nil _ _ Z0)) ltac:(cbn [concat]; intros Z2; apply app_eq_nil in Z2; destruct Z2; contradiction))
                HL A' (W_app _ _ _ _ HW) Hld K1)
      as (c' & G & E' & HR' & HG & J1 & J2 & J3 & J4).
    { rewrite (Run_entities _ _ _ HR1). rewrite <- Hes. symmetry. apply (Run_entities _ _ _ HRun). }
    { exact HR1. }
    rewrite E'. exists c', (G1 ++ G). split; [rewrite blen_app, N.add_assoc; reflexivity|].
    split; [rewrite app_assoc; exact HR'|]. split; [rewrite map_app, HG1, HG; reflexivity|].
    repeat split; congruence.
  - apply Forall_cons_iff in HF. destruct HF as [Hs HL]. cbn [flat_map] in HW |- *. rewrite <- app_assoc in HW |- *.
    assert (A' : ealt (ESC bs :: L)) by (destruct A as [_ A]; exact A).
    cbn [length Nat.add] in *.
    destruct (eseg_step_sc bs p (flat_map r_eseg L ++ post) c0 c frs (length L + fuel) depth HW Hs Hc I
                (fun Z0 => R Z0 ltac:(cbn [concat app]; discriminate)) Hat HRun)
      as (c1 & G1 & E1 & HR1 & HG1 & K1 & K2 & K3).
    rewrite E1.
    destruct (IH (ESC bs) (p + blen (r_eseg (ESC bs))) c1 (frs ++ G1) fuel depth ld'
                (fun Z0 Z1 => R (proj1 (app_eq_nil _ _ Z0)) ltac:(cbn [concat app]; discriminate))
                HL A' (W_app _ _ _ _ HW) Hld K1)
      as (c' & G & E' & HR' & HG & J1 & J2 & J3 & J4).
    { rewrite (Run_entities _ _ _ HR1). rewrite <- Hes. symmetry. apply (Run_entities _ _ _ HRun). }
    { exact HR1. }
    rewrite E'. exists c', (G1 ++ G). split; [rewrite blen_app, N.add_assoc; reflexivity|].
    split; [rewrite app_assoc; exact HR'|]. split; [rewrite map_app, HG1, HG; reflexivity|].
    repeat split; congruence.
Qed.


(* ------------------------------------------------------------------------------------------ *)
(* what is proved of every item                                                               *)
(* ------------------------------------------------------------------------------------------ *)

Definition den (its : list T.item) : list Cst.item := map erase (E.regroup its).

Definition PIe (i : E.item) : Prop :=
  forall p post c depth fuel its tr ld',
    E.wf_item false i = true -> W p (E.r_item i ++ post) ->
    (E.is_text i = true -> text_follow post) ->
    CI c -> c_ld c = ld_init -> c_entities c = es -> c_after_text c = [] ->
    E.inline_item tb false i = Some (its, tr) -> ld_run ld_init tr = Some ld' ->
    forallb E.provisos_item (E.regroup its) = true ->
    node_room c (nsizes (den its)) -> attr_room c (nattrs_items (den its)) ->
    exists c' K ext,
      loop (esteps i + fuel) depth (st p (E.r_item i ++ post)) c =
      loop fuel depth (st (p + blen (E.r_item i)) post) c' /\
      Step c c' K ext /\ CI c' /\ c_after_text c' = [] /\ (tn_set c -> tn_set c') /\
      (is_eelem i = true -> tn_set c') /\
      Forall2 (km text (d_attrs (c_doc c'))) K (tag_list (c_parent_id c) (len_N (d_nodes (c_doc c))) (den its)) /\
      length ext = nattrs_items (den its) /\ ld' = ld_init.

Lemma Step_keep c c' K ext : Step c c' K ext -> c_ld c' = c_ld c /\ c_entities c' = c_entities c.
Proof. intros [S _]. destruct (s_keep _ _ _ _ S) as (_ & _ & E1 & _ & E2 & _). auto. Qed.

Lemma RunExp_marks L Q tr FF : RunExp decls L Q tr FF -> Forall eseg_wf L ->
  (concat FF = [] <-> forallb E.is_mark Q = true).
Proof.
  intros H. induction H as [|ps q tr F L Q tr' FF He HR IH|bs L Q tr' FF HR IH]; intros HF.
  - cbn. tauto.
  - apply Forall_cons_iff in HF. destruct HF as [(_ & Hok & _) HL]. cbn [concat]. rewrite forallb_app.
    pose proof (Exp_empty decls Hdecls _ _ _ _ _ _ He Hok ltac:(constructor)) as X. specialize (IH HL).
    split.
    + intros E0. apply app_eq_nil in E0. destruct E0 as [E1 E2]. destruct (proj1 X E1) as [_ M1]. rewrite M1, (proj1 IH E2). reflexivity.
    + intros M. apply andb_true_iff in M. destruct M as [M1 M2]. rewrite (proj2 X (conj eq_refl M1)), (proj2 IH M2). reflexivity.
  - cbn [concat forallb E.is_mark app]. split; discriminate.
Qed.

Lemma Run_nil_eq c0 c : Run c0 c [] -> c_ld c = c_ld c0 -> c_tag_name c = c_tag_name c0 ->
  c_entity_floor c = c_entity_floor c0 -> c = c0.
Proof. intros HR A B0 C0. symmetry. apply context_eq; auto. Qed.

Lemma ealt_sc bs L : ealt L -> ealt (ESC bs :: L).
Proof. intros A. destruct L; [exact Logic.I|]. split; [discriminate|exact A]. Qed.

Lemma PIe_text ps : PIe (E.IText ps).
Proof.
  intros p post c depth fuel its tr ld' Hwf HW Hfol I Hc Hes Hat Hin Hld Hprov NR _.
  specialize (Hfol eq_refl). cbn [E.wf_item E.r_item esteps E.inline_item] in *.
  unfold E.wf_epieces in Hwf. rewrite !andb_true_iff in Hwf. destruct Hwf as [Hne [Hw Hadj]].
  destruct (inline_run_flat decls Hetext k false ps its tr Hin) as [Htexts Hps].
  pose proof (esegs_wf ps Hw Hadj) as HF.
  rewrite <- (esegs_flat ps) in Hps at 1.
  destruct (RunExp_of decls k (esegs ps) _ _ Hps) as [FF HFF].
  rewrite <- (esegs_render ps) in HW |- *.
  pose proof (RunExp_marks _ _ _ _ HFF HF) as Hmarks.
  destruct (regroup_texts its Htexts) as [[Hm Er]|[Hm (qs & M & Er & Ep & HM)]].
  - (* only marks: nothing is appended, no node *)
    unfold den in *. rewrite Er in *. cbn [map tag_list nattrs_items] in *.
    destruct (run_loop_e c post I Hat Hfol (esegs ps) _ _ _ HFF (ESC []) p c [] fuel depth ld') as
      (c' & G & E' & HR' & HG & K1 & K2 & K3 & K4); try assumption.
    + intros _ Hn. exfalso. apply Hn. apply (proj2 Hmarks). exact Hm.
    + apply ealt_sc. apply ealt_esegs.
    + apply same_frame_refl.
    + rewrite E'. rewrite (proj2 Hmarks Hm) in HG. destruct G; [|discriminate]. cbn [app] in HR'.
      assert (Ec : c' = c) by (apply Run_nil_eq; congruence). subst c'.
      exists c, [], []. split; [reflexivity|]. split; [apply Step_refl|]. split; [exact I|]. split; [exact Hat|].
      split; [auto|]. split; [discriminate|]. split; [constructor|]. split; [reflexivity|exact K4].
  - (* one Text node *)
    unfold den in *. rewrite Er in *. cbn [map erase tag_list nattrs_items] in *. rewrite app_nil_r.
    assert (R : room c) by (apply (node_room_room _ _ NR); unfold nsizes; cbn; lia).
    assert (Hcr : E.crlf_split_ok (pieces_of its) = true).
    { cbn [forallb E.provisos_item] in Hprov. rewrite andb_true_r in Hprov. rewrite Ep. apply crlf_split_marks; assumption. }
    destruct (run_loop_e c post I Hat Hfol (esegs ps) _ _ _ HFF (ESC []) p c [] fuel depth ld') as
      (c' & G & E' & HR' & HG & K1 & K2 & K3 & K4); try assumption.
    + intros _ _. exact R.
    + apply ealt_sc. apply ealt_esegs.
    + apply same_frame_refl.
    + rewrite E'. cbn [app] in HR'.
      assert (HGne : G <> []).
      { intros ->. cbn [map] in HG. symmetry in HG. apply (proj1 Hmarks) in HG. congruence. }
      destruct G as [|t0 rest]; [congruence|]. cbn [Run] in HR'. destruct HR' as (nodes' & Mn & SF).
      assert (Ec : set_after_text (run_ctx c nodes') (t0 :: rest) = c') by (apply context_eq; [exact SF|cbn; congruence..]).
      destruct (run_reset text c nodes' t0 rest I Mn) as (c2 & stg & Ereset & S & I2 & A2 & Tn & Hst & _).
      rewrite Ec in Ereset.
      pose proof (W_app _ _ _ _ HW) as HWend.
      rewrite (loop_reset_eq text _ c2 _ post Ereset A2 Hfol HWend).
      exists c2, [(Some (c_parent_id c), KText stg)], []. split; [reflexivity|].
      split; [exact S|]. split; [exact I2|]. split; [exact A2|]. split; [apply same_tn; exact Tn|].
      split; [discriminate|]. split; [|split; [reflexivity|exact K4]].
      cbn [tag]. constructor; [|constructor]. split; [reflexivity|]. cbn [snd].
      rewrite Hst, HG. rewrite (concat_concat FF) || idtac.
      rewrite <- (text_sem_marks qs M HM), <- Ep.
      rewrite <- (RunExp_sem decls Hdecls _ _ _ _ HFF HF (ealt_esegs ps) Hcr).
      clear. induction FF as [|F FF IH]; [reflexivity|]. cbn [concat map]. rewrite concat_app, IH. reflexivity.
Qed.


(* ---- comments and processing instructions: as in Spec/Cst.v ---- *)
Lemma PIe_misc i ci : (i = E.IComment (match ci with Cst.IComment bs => bs | _ => [] end) /\ exists bs, ci = Cst.IComment bs) \/
                      (exists t s v, i = E.IPI t s v /\ ci = Cst.IPI t s v) ->
  CstItems.PI text ci -> PIe i.
Proof.
  intros Hi HPI p post c depth fuel its tr ld' Hwf HW _ I Hc Hes Hat Hin Hld _ NR AR.
  assert (E0 : its = [match ci with Cst.IComment bs => T.IComment bs | Cst.IPI t s v => T.IPI t s v | _ => T.IComment [] end] /\
               tr = [] /\ den its = [ci] /\ E.r_item i = Cst.r_item ci /\ Cst.wf_item ci = E.wf_item false i /\
               Cst.is_text ci = false /\ esteps i = CstItems.steps ci).
  { destruct Hi as [[-> [bs ->]]|(t & s0 & v & -> & ->)]; cbn [E.inline_item] in Hin; injection Hin as <- <-; repeat split; reflexivity. }
  destruct E0 as (-> & -> & Ed & Er & Ew & Et & Est). rewrite Ed in *. rewrite Er in *. rewrite Est.
  cbn [ld_run] in Hld. injection Hld as <-.
  destruct (HPI p post c depth fuel ltac:(rewrite Ew; exact Hwf) HW ltac:(intros Z; congruence) I ltac:(intros Z; congruence))
    as (c' & K & ext & E' & S & I' & A & T1 & T2 & F & L).
  { unfold nsizes in NR. cbn [sem_items] in NR. rewrite app_nil_r in NR. exact NR. }
  { cbn [nattrs_items] in AR. rewrite Nat.add_0_r in AR. exact AR. }
  exists c', K, ext. split; [exact E'|]. split; [exact S|]. split; [exact I'|]. split; [apply A; exact Et|].
  split; [exact T1|]. split; [destruct Hi as [[-> _]|(? & ? & ? & -> & _)]; discriminate|].
  split; [cbn [tag_list]; rewrite app_nil_r; exact F|]. split; [cbn [nattrs_items]; lia|reflexivity].
Qed.

Lemma PIe_comment bs : PIe (E.IComment bs).
Proof. apply (PIe_misc _ (Cst.IComment bs)); [left; split; [reflexivity|eauto]|apply (PI_comment text Hascii)]. Qed.

Lemma PIe_pi t s v : PIe (E.IPI t s v).
Proof. apply (PIe_misc _ (Cst.IPI t s v)); [right; eauto|apply (PI_pi text Hascii)]. Qed.


(* ---- elements ---- *)
Lemma inline_attrs_len tb0 ie : forall attrs attrs' tr, E.inline_attrs tb0 ie attrs = Some (attrs', tr) ->
  length attrs' = length attrs.
Proof.
  induction attrs as [|a r IH]; intros attrs' tr H; cbn [E.inline_attrs] in H.
  - injection H as <- <-. reflexivity.
  - destruct (E.inline_attr tb0 ie a) as [[a' ta]|]; [|discriminate]. cbn [E.obind fst snd] in H.
    destruct (E.inline_attrs tb0 ie r) as [[r' tr']|] eqn:Er; [|discriminate]. cbn [E.obind fst snd] in H.
    injection H as <- <-. cbn [length]. rewrite (IH _ _ eq_refl). reflexivity.
Qed.

Lemma raws_wf attrs : forallb (E.wf_attr false) attrs = true -> Forall wf_rattr (map raw attrs).
Proof.
  intros Ha. apply Forall_forall. intros ra Hra. apply in_map_iff in Hra. destruct Hra as (a & <- & Hin).
  rewrite forallb_forall in Ha. apply (ewf_attr_parts _ (Ha a Hin)).
Qed.

Lemma den_single i : is_titext i = false -> den [i] = [erase i].
Proof. intros H. unfold den. rewrite regroup_nontext by exact H. reflexivity. Qed.

Lemma PIe_empty name attrs ws : PIe (E.IElem name attrs ws None).
Proof.
  intros p post c depth fuel its tr ld' Hwf HW _ I Hc Hes Hat Hin Hld Hprov NR AR.
  destruct (ewf_elem_parts _ _ _ _ Hwf) as (Hn & Ha & Hx & Hd & Hw & _). clear Hwf.
  rewrite inline_elem in Hin. destruct (E.inline_attrs tb false attrs) as [[attrs' tra]|] eqn:Eat; [|discriminate].
  cbn [E.obind fst snd] in Hin. injection Hin as <- <-.
  pose proof (inline_attrs_len _ _ _ _ _ Eat) as Elen.
  rewrite den_single in * by reflexivity. cbn [E.regroup forallb] in Hprov. rewrite prov_elem, !andb_true_r in Hprov.
  rewrite er_item_elem in *. rewrite <- !app_assoc in HW |- *.
  change ([47; 62] ++ post) with (tag_tail true ++ post) in *.
  cbn [esteps Nat.add]. rewrite (loop_elem' text) by assumption.
  rewrite <- raws_render in HW |- *.
  rewrite (lex_relement text Hascii) by (try assumption; apply raws_wf; exact Ha).
  cbv zeta. rewrite raws_render in HW |- *.
  rewrite erase_elem in NR, AR. cbn [nattrs_items] in AR. rewrite nattrs_elem, map_length, !Nat.add_0_r in AR.
  destruct (start_tag_e text Hascii decls es Henv Hdecls Hadjs p name attrs attrs' tra k ws true post c ld'
              HW (wf_name_ne _ Hn) Ha Hx Hd Eat Hprov Hld I Hc Hes)
    as (c' & ar & E & S & Hkm & I' & A & Tt & Eld & P1 & P2);
    [apply (node_room_room _ _ NR); unfold nsizes; cbn; lia|unfold attr_room, len_N in *; lia|].
  cbv zeta in E. apply bind_ok in E. destruct E as (c1 & E1 & E2).
  rewrite E1. cbn [bind]. rewrite E2. cbn [bind negb].
  exists c', [(Some (c_parent_id c), KElement None (sl (p + 1) (p + 1 + blen name)) ar (1, 1))],
    (map ad_of (tas_e (p + 1 + blen name) attrs attrs')).
  split.
  - f_equal. f_equal. rewrite !blen_app. change (blen [60]) with 1. change (blen (tag_tail true)) with 2.
    change (blen [47; 62]) with 2. lia.
  - rewrite erase_elem.
    split; [split; [exact S|split; assumption]|]. split; [exact I'|]. split; [exact A|].
    split; [intros _; exact Tt|]. split; [intros _; exact Tt|]. split.
    + cbn [tag_list tag app]. fold (CstTree.eattrs (map erase_attr attrs')). rewrite eattrs_erase.
      constructor; [|constructor]. apply Hkm.
    + split; [|exact Eld]. cbn [nattrs_items]. rewrite map_length, nattrs_elem, map_length, !Nat.add_0_r.
      destruct (tas_e_facts text decls (ws ++ tag_tail true ++ post) k attrs attrs' tra (p + 1 + blen name)) as (_ & _ & _ & Tl).
      { pose proof (W_app _ _ _ _ HW) as X. change (blen [60]) with 1 in X. apply (W_app _ _ _ _ X). }
      { exact Ha. } { exact Eat. }
      unfold len_N in Tl. lia.
Qed.

(* ---- lists of children ---- *)
Definition PLe (cs : list E.item) : Prop :=
  forall p post c depth fuel its tr ld',
    ewf_items cs = true -> E.no_adjacent_text cs = true -> W p (E.r_items cs ++ post) -> text_follow post ->
    CI c -> c_ld c = ld_init -> c_entities c = es -> c_after_text c = [] ->
    E.inline_items tb false cs = Some (its, tr) -> ld_run ld_init tr = Some ld' ->
    forallb E.provisos_item (E.regroup its) = true ->
    node_room c (nsizes (den its)) -> attr_room c (nattrs_items (den its)) ->
    exists c' K ext,
      loop (esteps_list cs + fuel) depth (st p (E.r_items cs ++ post)) c =
      loop fuel depth (st (p + blen (E.r_items cs)) post) c' /\
      Step c c' K ext /\ CI c' /\ c_after_text c' = [] /\ (tn_set c -> tn_set c') /\
      Forall2 (km text (d_attrs (c_doc c'))) K (tag_list (c_parent_id c) (len_N (d_nodes (c_doc c))) (den its)) /\
      length ext = nattrs_items (den its) /\ ld' = ld_init.

(* what a non-text item is inlined to *)
Lemma inline_nontext i its tr : E.is_text i = false -> E.inline_item tb false i = Some (its, tr) ->
  exists x, its = [x] /\ is_titext x = false.
Proof.
  destruct i as [n a w body|ps|bs|t s0 v]; intros Ht H; try discriminate.
  - rewrite inline_elem in H. destruct (E.inline_attrs tb false a) as [[a' ta]|]; [|discriminate]. cbn [E.obind] in H.
    destruct body as [[cs w2]|].
    + destruct (E.inline_items tb false cs) as [[b0 tb0]|]; [|discriminate]. cbn [E.obind] in H. injection H as <- _. eauto.
    + injection H as <- _. eauto.
  - cbn in H. injection H as <- _. eauto.
  - cbn in H. injection H as <- _. eauto.
Qed.

Lemma inline_text_all ps its tr : E.inline_item tb false (E.IText ps) = Some (its, tr) -> forallb is_titext its = true.
Proof. intros H. apply (inline_run_flat decls Hetext k false ps its tr H). Qed.

Lemma enontext_follow d rest : E.is_text d = false -> E.wf_item false d = true -> text_follow (E.r_item d ++ rest).
Proof.
  intros Ht Hwf. destruct d as [n a w body|ps|bs|t s0 v]; try discriminate.
  - destruct (ewf_elem_parts _ _ _ _ Hwf) as (Hn & _). rewrite er_item_elem.
    destruct n as [|x n]; [discriminate|]. cbn [Cst.wf_name] in Hn. apply andb_true_iff in Hn. destruct Hn as [Hn _].
    destruct (name_start_byte _ Hn) as (_ & _ & _ & _ & _ & H33 & _).
    cbn [app]. eexists. eexists. split; [reflexivity|]. intros E0. congruence.
  - cbn [E.r_item Cst.r_item app]. eexists. eexists. split; [reflexivity|]. intros _. reflexivity.
  - cbn [E.r_item Cst.r_item app]. eexists. eexists. split; [reflexivity|]. intros E0. discriminate.
Qed.

Lemma r_items_cons i r : E.r_items (i :: r) = E.r_item i ++ E.r_items r.
Proof. reflexivity. Qed.

Lemma PLe_of cs : Forall PIe cs -> PLe cs.
Proof.
  induction 1 as [|i r Hi _ IH]; intros p post c depth fuel its tr ld' Hwf Hna HW Hfol I Hc Hes Hat Hin Hld Hprov NR AR.
  - cbn [E.inline_items] in Hin. injection Hin as <- <-. cbn [ld_run] in Hld. injection Hld as <-.
    exists c, [], []. cbn [esteps_list E.r_items flat_map app Nat.add blen length] in *.
    change (N.of_nat 0) with 0. rewrite N.add_0_r.
    split; [reflexivity|]. split; [apply Step_refl|]. split; [exact I|]. split; [exact Hat|]. split; [auto|].
    split; [constructor|auto].
  - cbn [ewf_items] in Hwf. apply andb_true_iff in Hwf. destruct Hwf as [Hw1 Hw2].
    rewrite r_items_cons in HW |- *. rewrite <- app_assoc in HW |- *.
    cbn [E.inline_items] in Hin.
    destruct (E.inline_item tb false i) as [[its1 tr1]|] eqn:Ei; [|discriminate]. cbn [E.obind fst snd] in Hin.
    destruct (E.inline_items tb false r) as [[its2 tr2]|] eqn:Er; [|discriminate]. cbn [E.obind fst snd] in Hin.
    injection Hin as <- <-.
    assert (Hna2 : E.no_adjacent_text r = true).
    { destruct r as [|d r']; [reflexivity|]. cbn [E.no_adjacent_text] in Hna. apply andb_true_iff in Hna. apply Hna. }
    assert (Hnext : forall d r', r = d :: r' -> E.is_text i = true -> E.is_text d = false).
    { intros d r' -> Hi1. cbn [E.no_adjacent_text] in Hna. apply andb_true_iff in Hna.
      destruct Hna as [Hna _]. rewrite Hi1 in Hna. cbn [andb] in Hna. apply negb_true_iff in Hna. exact Hna. }
    (* re-grouping does not cross the item boundary *)
    assert (Ereg : E.regroup (its1 ++ its2) = E.regroup its1 ++ E.regroup its2).
    { destruct (E.is_text i) eqn:Eti.
      - apply regroup_app. destruct r as [|d r']; [cbn [E.inline_items] in Er; injection Er as <- _; exact Logic.I|].
        cbn [E.inline_items] in Er. destruct (E.inline_item tb false d) as [[itd trd]|] eqn:Ed; [|discriminate].
        cbn [E.obind fst snd] in Er. destruct (E.inline_items tb false r') as [[itr trr]|]; [|discriminate].
        cbn [E.obind fst snd] in Er. injection Er as <- _.
        destruct (inline_nontext d itd trd (Hnext d r' eq_refl eq_refl) Ed) as (x & -> & Hx). exact Hx.
      - destruct (inline_nontext i its1 tr1 Eti Ei) as (x & -> & Hx). cbn [app]. rewrite !regroup_nontext by exact Hx. reflexivity. }
    unfold den in NR, AR |- *. rewrite Ereg in *. rewrite map_app in *. fold (den its1) in *. fold (den its2) in *.
    rewrite nsizes_app in NR. rewrite nattrs_items_app in AR. rewrite forallb_app in Hprov.
    apply andb_true_iff in Hprov. destruct Hprov as [Hp1 Hp2].
    rewrite ld_run_app in Hld. destruct (ld_run ld_init tr1) as [ld1|] eqn:El1; [|discriminate].
    assert (Hfollow : E.is_text i = true -> text_follow (E.r_items r ++ post)).
    { intros Hi1. destruct r as [|d r']; [exact Hfol|].
      rewrite r_items_cons, <- app_assoc. apply enontext_follow; [apply (Hnext d r' eq_refl Hi1)|].
      cbn [ewf_items] in Hw2. apply andb_true_iff in Hw2. apply Hw2. }
    destruct (Hi p (E.r_items r ++ post) c depth (esteps_list r + fuel)%nat its1 tr1 ld1 Hw1 HW Hfollow I Hc Hes Hat Ei El1 Hp1)
      as (c1 & K1 & e1 & E1 & S1 & I1 & A1 & T1 & _ & F1 & L1 & Eld1).
    { unfold node_room in *. lia. }
    { unfold attr_room in *. lia. }
    subst ld1.
    pose proof (Step_nodes_len _ _ _ _ S1) as Ln1.
    rewrite (Forall2_len_N _ _ _ F1) in Ln1. unfold len_N at 3 in Ln1. rewrite tag_list_len in Ln1.
    pose proof (Step_attrs_len _ _ _ _ (proj1 S1)) as La1. unfold len_N at 3 in La1. rewrite L1 in La1.
    pose proof (Step_opt _ _ _ _ (proj1 S1)) as Lo1.
    destruct (Step_keep _ _ _ _ S1) as [Kld Kes].
    destruct (IH (p + blen (E.r_item i)) post c1 depth fuel its2 tr2 ld' Hw2 Hna2 (W_app _ _ _ _ HW) Hfol I1
                ltac:(congruence) ltac:(congruence) A1 Er Hld Hp2)
      as (c2 & K2 & e2 & E2 & S2 & I2 & A2 & T2 & F2 & L2 & Eld2).
    { unfold node_room in *. rewrite Ln1, Lo1. lia. }
    { unfold attr_room in *. rewrite La1. lia. }
    exists c2, (K1 ++ K2), (e1 ++ e2). split.
    { cbn [esteps_list]. rewrite <- Nat.add_assoc, E1, E2. f_equal. f_equal. rewrite blen_app. lia. }
    split; [eapply Step_trans; eassumption|]. split; [exact I2|]. split; [exact A2|]. split; [auto|]. split.
    + rewrite tag_list_app. apply Forall2_app.
      * rewrite (s_attrs _ _ _ _ (proj1 S2)). apply km_Forall2_ext. exact F1.
      * destruct S1 as (_ & P1 & _). rewrite P1, Ln1 in F2. exact F2.
    + split; [|exact Eld2]. rewrite app_length, L1, L2, nattrs_items_app. reflexivity.
Qed.

Ltac clia := repeat match goal with H : @eq bool _ true |- _ => clear H end; lia.

(* after the start tag of an open element: the children, then the end tag *)
Lemma eopen_body name attrs attrs' ws cs ws2 p post c c1 ar its2 tr2 ld2 :
  PLe cs ->
  Cst.wf_name name = true -> Cst.wf_ws ws2 = true -> E.no_adjacent_text cs = true -> ewf_items cs = true ->
  W p ([60] ++ name ++ flat_map E.r_attr attrs ++ ws ++ tag_tail false ++ E.r_items cs ++ [60; 47] ++ name ++ ws2 ++ [62] ++ post) ->
  CI c -> c_ld c = ld_init -> c_entities c = es ->
  E.inline_items tb false cs = Some (its2, tr2) -> ld_run ld_init tr2 = Some ld2 ->
  forallb E.provisos_item (E.regroup its2) = true -> length attrs' = length attrs ->
  node_room c (1 + nsizes (den its2)) -> attr_room c (length attrs + nattrs_items (den its2)) ->
  Step0 c c1 [(Some (c_parent_id c), KElement None (sl (p + 1) (p + 1 + blen name)) ar (1, 1))]
        (map ad_of (tas_e (p + 1 + blen name) attrs attrs')) ->
  (forall m, km text (d_attrs (c_doc c1)) (Some (c_parent_id c), KElement None (sl (p + 1) (p + 1 + blen name)) ar (1, 1))
     (c_parent_id c, Cst.VElem name (T.eattrs attrs') m)) ->
  CI c1 -> c_after_text c1 = [] -> tn_set c1 ->
  c_parent_id c1 = len_N (d_nodes (c_doc c)) -> c_parent_prefixes c1 = c_parent_prefixes c ++ [sl (p + 1) (p + 1)] ->
  len_N (tas_e (p + 1 + blen name) attrs attrs') = len_N attrs ->
  let q := p + 1 + blen name + blen (flat_map E.r_attr attrs) + blen ws + blen (tag_tail false) in
  let e := q + blen (E.r_items cs) in
  forall d fuel,
  exists c3 K ext,
    loop (esteps_list cs + S fuel) d (st q (E.r_items cs ++ [60; 47] ++ name ++ ws2 ++ [62] ++ post)) c1 =
    (let! c' := Ok c3 in
     if d =? 0 then Ok (st (e + 2 + blen name + blen ws2 + 1) post, c')
     else loop fuel (d - 1) (st (e + 2 + blen name + blen ws2 + 1) post) c') /\
    Step c c3 K ext /\ CI c3 /\ c_after_text c3 = [] /\ tn_set c3 /\
    Forall2 (km text (d_attrs (c_doc c3))) K
      (tag_list (c_parent_id c) (len_N (d_nodes (c_doc c)))
         [erase (T.IElem name attrs' ws (Some (E.regroup its2, ws2)))]) /\
    length ext = nattrs_items [erase (T.IElem name attrs' ws (Some (E.regroup its2, ws2)))] /\ ld2 = ld_init.
Proof.
  intros HPL Hn Hw2 Hna Hcs HW I Hc Hes Hin2 Hld2 Hprov2 Elen NR AR S1 Hkm I1 A1 T1 P1 P2 Tl q e d fuel.
  set (post2 := [60; 47] ++ name ++ ws2 ++ [62] ++ post) in *.
  pose proof (W_app _ _ _ _ HW) as HW1. change (blen [60]) with 1 in HW1.
  pose proof (W_app _ _ _ _ HW1) as HW2. pose proof (W_app _ _ _ _ HW2) as HW3.
  pose proof (W_app _ _ _ _ HW3) as HW4. pose proof (W_app _ _ _ _ HW4) as HW5. fold q in HW5.
  pose proof (Step0_len _ _ _ _ S1) as Ln1. change (len_N [_]) with 1 in Ln1.
  pose proof (Step_attrs_len _ _ _ _ S1) as La1. rewrite len_N_map, Tl in La1.
  pose proof (Step_opt _ _ _ _ S1) as Lo1.
  destruct (s_keep _ _ _ _ S1) as (_ & _ & Kes & _ & Kld & _).
  destruct (HPL q post2 c1 d (S fuel) its2 tr2 ld2 Hcs Hna HW5 (close_follow name ws2 post) I1
              ltac:(congruence) ltac:(congruence) A1 Hin2 Hld2 Hprov2)
    as (c2 & K2 & e2 & E2 & S2 & I2 & A2 & T2 & F2 & L2 & Eld2).
  { unfold node_room in *. rewrite Ln1, Lo1. clia. }
  { unfold attr_room, len_N in *. rewrite La1. clia. }
  rewrite E2. clear E2.
  pose proof (W_app _ _ _ _ HW5) as HW6. fold e in HW6 |- *.
  unfold post2 in HW6 |- *. rewrite (loop_close text) by exact HW6.
  rewrite (lex_close text Hascii) by assumption. cbv zeta.
  destruct S2 as (S2 & Pid2 & Pp2).
  pose proof (W_app _ _ _ _ HW6) as HW7. change (blen [60; 47]) with 2 in HW7.
  destruct (close_tag_ok text (sl (e + 2) (e + 2)) (sl (e + 2) (e + 2 + blen name))
              (e, e + 2 + blen name + blen ws2 + 1) c2 (c_parent_id c) None
              (sl (p + 1) (p + 1 + blen name)) ar (1, 1) name (c_parent_prefixes c) (sl (p + 1) (p + 1)) I2)
    as (c3 & E3 & S3 & I3 & Pid3 & Pp3 & A3 & Tn3).
  { rewrite Pid2, P1, (s_nodes _ _ _ _ S2), (s_nodes _ _ _ _ S1).
    replace (N.to_nat (len_N (d_nodes (c_doc c)))) with (length (absn (c_doc c)))
      by (unfold absn, len_N; rewrite map_length; clia).
    rewrite <- app_assoc, nth_error_app2 by clia. rewrite Nat.sub_diag. reflexivity. }
  { apply (W_slice _ _ _ _ HW1). }
  { apply (W_slice _ _ _ _ HW7). }
  { apply slice_empty. }
  { rewrite Pp2, P2. reflexivity. }
  { apply (ci_pp _ I). }
  { apply slice_empty. }
  { apply T2. exact T1. }
  { rewrite (Step0_len _ _ _ _ S2), Ln1. pose proof (ci_pid _ I). clia. }
  { destruct (ci_par _ I) as (par & k0 & Ep & Hk). exists par, k0. split; [|exact Hk].
    rewrite (s_nodes _ _ _ _ S2), (s_nodes _ _ _ _ S1), <- app_assoc.
    rewrite nth_error_app1; [exact Ep|].
    pose proof (ci_pid _ I) as Hp. rewrite <- absn_len in Hp. unfold len_N in Hp. clia. }
  rewrite E3. cbn [bind].
  exists c3, ((Some (c_parent_id c), KElement None (sl (p + 1) (p + 1 + blen name)) ar (1, 1)) :: K2),
    (map ad_of (tas_e (p + 1 + blen name) attrs attrs') ++ e2).
  split; [reflexivity|].
  pose proof (Step0_trans _ _ _ _ _ _ _ (Step0_trans _ _ _ _ _ _ _ S1 S2) S3) as S13.
  rewrite !app_nil_r in S13. cbn [app] in S13.
  split; [split; [exact S13|split; [exact Pid3|exact Pp3]]|]. split; [exact I3|]. split; [exact A3|].
  assert (T3 : tn_set c3) by (apply (same_tn _ _ Tn3); apply T2; exact T1).
  split; [exact T3|]. rewrite erase_elem. split; [|split; [|exact Eld2]].
  - cbn [tag_list]. rewrite app_nil_r, tag_elem. fold (CstTree.eattrs (map erase_attr attrs')). rewrite eattrs_erase, map_length.
    rewrite (s_attrs _ _ _ _ S3), app_nil_r. constructor.
    + rewrite (s_attrs _ _ _ _ S2). apply km_ext. apply Hkm.
    + rewrite P1, Ln1 in F2. exact F2.
  - cbn [nattrs_items]. rewrite app_length, map_length, L2, nattrs_elem, map_length.
    unfold len_N in Tl. unfold den. clia.
Qed.

Lemma PIe_open name attrs ws cs ws2 : PLe cs -> PIe (E.IElem name attrs ws (Some (cs, ws2))).
Proof.
  intros HPL p post c depth fuel its tr ld' Hwf HW _ I Hc Hes Hat Hin Hld Hprov NR AR.
  destruct (ewf_elem_parts _ _ _ _ Hwf) as (Hn & Ha & Hx & Hd & Hw & Hw2 & Hna & Hcs). clear Hwf.
  rewrite inline_elem in Hin. destruct (E.inline_attrs tb false attrs) as [[attrs' tra]|] eqn:Eat; [|discriminate].
  cbn [E.obind fst snd] in Hin. destruct (E.inline_items tb false cs) as [[its2 tr2]|] eqn:Ecs; [|discriminate].
  cbn [E.obind fst snd] in Hin. injection Hin as <- <-.
  pose proof (inline_attrs_len _ _ _ _ _ Eat) as Elen.
  rewrite den_single in * by reflexivity. cbn [E.regroup forallb] in Hprov. rewrite prov_elem, andb_true_r in Hprov.
  apply andb_true_iff in Hprov. destruct Hprov as [Hpa Hpc].
  rewrite ld_run_app in Hld. destruct (ld_run ld_init tra) as [lda|] eqn:Ela; [|discriminate].
  rewrite er_item_elem in *. rewrite <- !app_assoc in HW |- *.
  change ([62] ++ E.r_items cs ++ [60; 47] ++ name ++ ws2 ++ [62] ++ post)
    with (tag_tail false ++ (E.r_items cs ++ [60; 47] ++ name ++ ws2 ++ [62] ++ post)) in *.
  rewrite erase_elem in NR, AR. unfold nsizes in NR. cbn [sem_items] in NR. rewrite app_nil_r in NR.
  fold (nsize (Cst.IElem name (map erase_attr attrs') ws (Some (map erase (E.regroup its2), ws2)))) in NR. rewrite nsize_elem in NR.
  cbn [nattrs_items] in AR. rewrite nattrs_elem, map_length, Nat.add_0_r in AR.
  rewrite esteps_elem. cbn [Nat.add]. rewrite (loop_elem' text) by assumption.
  rewrite <- raws_render in HW |- *.
  rewrite (lex_relement text Hascii) by (try assumption; apply raws_wf; exact Ha).
  cbv zeta. rewrite raws_render in HW |- *.
  destruct (start_tag_e text Hascii decls es Henv Hdecls Hadjs p name attrs attrs' tra k ws false _ c lda
              HW (wf_name_ne _ Hn) Ha Hx Hd Eat Hpa Ela I Hc Hes)
    as (c1 & ar & E & S1 & Hkm & I1 & A1 & T1 & Elda & P1 & P2 & P3);
    [unfold node_room, room in *; clia|unfold attr_room, len_N in *; clia|].
  subst lda.
  cbv zeta in E. apply bind_ok in E. destruct E as (c0 & E0 & E1).
  rewrite E0. cbn [bind]. rewrite E1. cbn [bind negb]. clear E0 E1 c0.
  replace (esteps_list cs + 1 + fuel)%nat with (esteps_list cs + S fuel)%nat by clia.
  destruct (tas_e_facts text decls (ws ++ tag_tail false ++ E.r_items cs ++ [60; 47] ++ name ++ ws2 ++ [62] ++ post) k attrs attrs' tra (p + 1 + blen name))
    as (_ & _ & _ & Tl).
  { pose proof (W_app _ _ _ _ HW) as X. change (blen [60]) with 1 in X. apply (W_app _ _ _ _ X). }
  { exact Ha. } { exact Eat. }
  destruct (eopen_body name attrs attrs' ws cs ws2 p post c c1 ar its2 tr2 ld' HPL Hn Hw2 Hna Hcs HW I Hc Hes Ecs Hld Hpc Elen
              NR ltac:(rewrite <- Elen; exact AR) S1 Hkm I1 A1 T1 P1 P2 Tl (depth + 1) fuel)
    as (c3 & K & ext & E & S3 & I3 & A3 & T3 & F3 & L3 & Eld3).
  rewrite E. cbn [bind]. replace (depth + 1 =? 0) with false by clia.
  replace (depth + 1 - 1) with depth by clia.
  exists c3, K, ext. split.
  { f_equal. f_equal. rewrite !blen_app. change (blen [60]) with 1. change (blen [60; 47]) with 2.
    change (blen [62]) with 1. change (blen (tag_tail false)) with 1. clear. clia. }
  split; [exact S3|]. split; [exact I3|]. split; [exact A3|]. split; [intros _; exact T3|]. split; [intros _; exact T3|].
  split; [exact F3|]. split; [exact L3|exact Eld3].
Qed.

Theorem PIe_all : forall i, PIe i.
Proof.
  intros i. induction i as [n a w|n a w cs w2 IH|ps|bs|t s v] using eitem_ind.
  - apply PIe_empty.
  - apply PIe_open. apply PLe_of. exact IH.
  - apply PIe_text.
  - apply PIe_comment.
  - apply PIe_pi.
Qed.

Theorem PLe_all : forall cs, PLe cs.
Proof. intros cs. apply PLe_of. apply Forall_forall. intros i _. apply PIe_all. Qed.

(* ---- the root element: parse_element, then parse_content at depth 0 ---- *)
Lemma esteps_le : forall i, E.wf_item false i = true -> (esteps i <= length (E.r_item i))%nat.
Proof.
  intros i. induction i as [n a w|n a w cs w2 IH|ps|bs|t s v] using eitem_ind; intros Hwf.
  - rewrite er_item_elem, !app_length. cbn [esteps length]. lia.
  - destruct (ewf_elem_parts _ _ _ _ Hwf) as (_ & _ & _ & _ & _ & _ & _ & Hcs).
    rewrite er_item_elem, esteps_elem, !app_length. cbn [length].
    assert (G : (esteps_list cs <= length (E.r_items cs))%nat).
    { clear - IH Hcs. induction IH as [|c r Hc _ IHr]; [cbn; lia|].
      cbn [ewf_items] in Hcs. apply andb_true_iff in Hcs. destruct Hcs as [H1 H2].
      rewrite r_items_cons. cbn [esteps_list]. rewrite app_length. specialize (Hc H1). specialize (IHr H2). lia. }
    lia.
  - cbn [esteps E.r_item]. rewrite <- (esegs_render ps).
    cbn [E.wf_item] in Hwf. unfold E.wf_epieces in Hwf. rewrite !andb_true_iff in Hwf. destruct Hwf as [_ [H1 H2]].
    pose proof (esegs_wf ps H1 H2) as HF. clear - HF.
    induction HF as [|s L Hs _ IH]; [cbn; lia|]. cbn [length flat_map]. rewrite app_length.
    assert (1 <= length (r_eseg s))%nat; [|lia].
    destruct s as [l|bs]; cbn [r_eseg].
    + destruct (ess_bytes l Hs) as (_ & x & r & -> & _). cbn; lia.
    + rewrite !app_length. cbn. lia.
  - cbn [E.r_item Cst.r_item esteps]. rewrite !app_length. cbn [length]. lia.
  - cbn [E.r_item Cst.r_item esteps]. rewrite !app_length. cbn [length]. lia.
Qed.

Lemma esteps_list_le : forall cs, ewf_items cs = true -> (esteps_list cs <= length (E.r_items cs))%nat.
Proof.
  induction cs as [|c r IH]; intros Hwf; [cbn; lia|].
  cbn [ewf_items] in Hwf. apply andb_true_iff in Hwf. destruct Hwf as [H1 H2].
  rewrite r_items_cons. cbn [esteps_list]. rewrite app_length. pose proof (esteps_le c H1). specialize (IH H2). lia.
Qed.

Lemma root_ok_e name attrs ws body p post c its tr ld' :
  E.wf_item false (E.IElem name attrs ws body) = true ->
  W p (E.r_item (E.IElem name attrs ws body) ++ post) ->
  CI c -> c_ld c = ld_init -> c_entities c = es ->
  E.inline_item tb false (E.IElem name attrs ws body) = Some (its, tr) -> ld_run ld_init tr = Some ld' ->
  forallb E.provisos_item (E.regroup its) = true ->
  node_room c (nsizes (den its)) -> attr_room c (nattrs_items (den its)) ->
  exists c' K ext,
    (let! (open, s, c) := parse_element text context ev
                            (st p (E.r_item (E.IElem name attrs ws body) ++ post)) c in
     if open then parse_content text context ev s c else Ok (s, c)) =
    Ok (st (p + blen (E.r_item (E.IElem name attrs ws body))) post, c') /\
    Step c c' K ext /\ CI c' /\ c_after_text c' = [] /\
    Forall2 (km text (d_attrs (c_doc c'))) K (tag_list (c_parent_id c) (len_N (d_nodes (c_doc c))) (den its)) /\
    length ext = nattrs_items (den its).
Proof.
  intros Hwf HW I Hc Hes Hin Hld Hprov NR AR. destruct body as [[cs ws2]|].
  - (* open *)
    destruct (ewf_elem_parts _ _ _ _ Hwf) as (Hn & Ha & Hx & Hd & Hw & Hw2 & Hna & Hcs). clear Hwf.
    rewrite inline_elem in Hin. destruct (E.inline_attrs tb false attrs) as [[attrs' tra]|] eqn:Eat; [|discriminate].
    cbn [E.obind fst snd] in Hin. destruct (E.inline_items tb false cs) as [[its2 tr2]|] eqn:Ecs; [|discriminate].
    cbn [E.obind fst snd] in Hin. injection Hin as <- <-.
    pose proof (inline_attrs_len _ _ _ _ _ Eat) as Elen.
    rewrite den_single in * by reflexivity. cbn [E.regroup forallb] in Hprov. rewrite prov_elem, andb_true_r in Hprov.
    apply andb_true_iff in Hprov. destruct Hprov as [Hpa Hpc].
    rewrite ld_run_app in Hld. destruct (ld_run ld_init tra) as [lda|] eqn:Ela; [|discriminate].
    rewrite er_item_elem in *. rewrite <- !app_assoc in HW |- *.
    change ([62] ++ E.r_items cs ++ [60; 47] ++ name ++ ws2 ++ [62] ++ post)
      with (tag_tail false ++ (E.r_items cs ++ [60; 47] ++ name ++ ws2 ++ [62] ++ post)) in *.
    rewrite erase_elem in NR, AR. unfold nsizes in NR. cbn [sem_items] in NR. rewrite app_nil_r in NR.
    fold (nsize (Cst.IElem name (map erase_attr attrs') ws (Some (map erase (E.regroup its2), ws2)))) in NR. rewrite nsize_elem in NR.
    cbn [nattrs_items] in AR. rewrite nattrs_elem, map_length, Nat.add_0_r in AR.
    rewrite <- raws_render in HW |- *.
    rewrite (lex_relement text Hascii) by (try assumption; apply raws_wf; exact Ha).
    cbv zeta. rewrite raws_render in HW |- *.
    destruct (start_tag_e text Hascii decls es Henv Hdecls Hadjs p name attrs attrs' tra k ws false _ c lda
                HW (wf_name_ne _ Hn) Ha Hx Hd Eat Hpa Ela I Hc Hes)
      as (c1 & ar & E & S1 & Hkm & I1 & A1 & T1 & Elda & P1 & P2 & P3);
      [unfold node_room, room in *; clia|unfold attr_room, len_N in *; clia|].
    subst lda.
    cbv zeta in E. apply bind_ok in E. destruct E as (c0 & E0 & E1).
    rewrite E0. cbn [bind]. rewrite E1. cbn [bind negb]. clear E0 E1 c0.
    unfold parse_content. cbn [CstLex.st s_rest].
    set (post2 := [60; 47] ++ name ++ ws2 ++ [62] ++ post) in *.
    pose proof (esteps_list_le cs Hcs) as Hst.
    replace (S (length (E.r_items cs ++ post2)))
      with (esteps_list cs + S (length (E.r_items cs ++ post2) - esteps_list cs))%nat
      by (rewrite app_length; clia).
    destruct (tas_e_facts text decls (ws ++ tag_tail false ++ E.r_items cs ++ post2) k attrs attrs' tra (p + 1 + blen name))
      as (_ & _ & _ & Tl).
    { pose proof (W_app _ _ _ _ HW) as X. change (blen [60]) with 1 in X. apply (W_app _ _ _ _ X). }
    { exact Ha. } { exact Eat. }
    destruct (eopen_body name attrs attrs' ws cs ws2 p post c c1 ar its2 tr2 ld' (PLe_all cs) Hn Hw2 Hna Hcs HW I Hc Hes Ecs Hld Hpc Elen
                NR ltac:(rewrite <- Elen; exact AR) S1 Hkm I1 A1 T1 P1 P2 Tl 0 (length (E.r_items cs ++ post2) - esteps_list cs)%nat)
      as (c3 & K & ext & E & S3 & I3 & A3 & T3 & F3 & L3 & Eld3).
    unfold post2 in E |- *. rewrite E. cbn [bind]. change (0 =? 0) with true. cbv iota.
    exists c3, K, ext. split; [|split; [exact S3|split; [exact I3|split; [exact A3|split; [exact F3|exact L3]]]]].
    f_equal. f_equal. f_equal. rewrite !blen_app. change (blen [60]) with 1. change (blen [60; 47]) with 2.
    change (blen [62]) with 1. change (blen (tag_tail false)) with 1. clear. clia.
  - (* empty *)
    destruct (ewf_elem_parts _ _ _ _ Hwf) as (Hn & Ha & Hx & Hd & Hw & _). clear Hwf.
    rewrite inline_elem in Hin. destruct (E.inline_attrs tb false attrs) as [[attrs' tra]|] eqn:Eat; [|discriminate].
    cbn [E.obind fst snd] in Hin. injection Hin as <- <-.
    pose proof (inline_attrs_len _ _ _ _ _ Eat) as Elen.
    rewrite den_single in * by reflexivity. cbn [E.regroup forallb] in Hprov. rewrite prov_elem, !andb_true_r in Hprov.
    rewrite er_item_elem in *. rewrite <- !app_assoc in HW |- *.
    change ([47; 62] ++ post) with (tag_tail true ++ post) in *.
    rewrite <- raws_render in HW |- *.
    rewrite (lex_relement text Hascii) by (try assumption; apply raws_wf; exact Ha).
    cbv zeta. rewrite raws_render in HW |- *.
    rewrite erase_elem in NR, AR. cbn [nattrs_items] in AR. rewrite nattrs_elem, map_length, !Nat.add_0_r in AR.
    destruct (start_tag_e text Hascii decls es Henv Hdecls Hadjs p name attrs attrs' tra k ws true post c ld'
                HW (wf_name_ne _ Hn) Ha Hx Hd Eat Hprov Hld I Hc Hes)
      as (c' & ar & E & S & Hkm & I' & A & Tt & Eld & P1 & P2);
      [apply (node_room_room _ _ NR); unfold nsizes; cbn; lia|unfold attr_room, len_N in *; lia|].
    cbv zeta in E. apply bind_ok in E. destruct E as (c1 & E1 & E2).
    rewrite E1. cbn [bind]. rewrite E2. cbn [bind negb].
    exists c', [(Some (c_parent_id c), KElement None (sl (p + 1) (p + 1 + blen name)) ar (1, 1))],
      (map ad_of (tas_e (p + 1 + blen name) attrs attrs')).
    split.
    + f_equal. f_equal. f_equal. rewrite !blen_app. change (blen [60]) with 1. change (blen (tag_tail true)) with 2.
      change (blen [47; 62]) with 2. lia.
    + rewrite erase_elem.
      split; [split; [exact S|split; assumption]|]. split; [exact I'|]. split; [exact A|]. split.
      * cbn [tag_list tag app]. fold (CstTree.eattrs (map erase_attr attrs')). rewrite eattrs_erase.
        constructor; [|constructor]. apply Hkm.
      * cbn [nattrs_items]. rewrite map_length, nattrs_elem, map_length, !Nat.add_0_r.
        destruct (tas_e_facts text decls (ws ++ tag_tail true ++ post) k attrs attrs' tra (p + 1 + blen name)) as (_ & _ & _ & Tl).
        { pose proof (W_app _ _ _ _ HW) as X. change (blen [60]) with 1 in X. apply (W_app _ _ _ _ X). }
        { exact Ha. } { exact Eat. }
        unfold len_N in Tl. lia.
Qed.

End EItems.

Print Assumptions PIe_all.
Print Assumptions root_ok_e.
