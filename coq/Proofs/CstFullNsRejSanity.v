(* Proofs/CstFullNsRejSanity.v -- the hypotheses of the theorems of Proofs/CstFullNsRejMain.v are satisfiable and their
   conclusions are what the model computes: boolean versions of the hypotheses ([hypsN]) and of the first violation
   ([fv6]) hold, by computation, of sample documents of Spec/CstFullS6.v, so that each rejection below is an INSTANCE of
   [ns_violation_variant_full_s6] -- with the variant and the payload spelled out.  The two counterexamples to the
   statement as it was asked for (see the header of Proofs/CstFullNsRejMain.v) are at the end. *)
From Coq Require Import Ascii String.
From Coq Require Import List NArith PeanoNat Bool Lia ZifyBool ZifyN ZifyNat.
Import ListNotations.
From RX Require Import Generated.
From RX.Model Require Import Base CharClass Stream Tokenizer Doc Builder Parse.
From RX.Spec Require Cst CstText CstEnt Detector CstNs CstU Scope.
From RX.Spec Require Import Text CstFull CstFullS4 CstFullS6.
From RX.Proofs Require Import CstNsView CstFullMain CstFullS4Sem CstFullS6Sanity.
From RX.Proofs Require Import CstFullRejSem CstFullRejTrace CstFullRejMain CstFullRejSanity.
From RX.Proofs Require Import CstFullNsRejBuild CstFullNsRejText CstFullNsRejMain.
From RX.Proofs Require NsRejDefs NsRejBuild ScopeProofs CstFullS4Main.
Open Scope N_scope.

Import NsRejDefs.

(* ---- the hypotheses shared by the theorems, as a boolean ---- *)
Definition hypsN (c : S6.doc) (opt : options) : bool :=
  wf_syntax6 c && (negb (S6.has_dtd c) || allow_dtd opt) &&
  match ginline6 c with
  | Some (cT, tr) =>
    Detector.within_limits 10 255 0 0 tr && provisos_item (d_root cT) && attrs_named_ok cT &&
    (N.of_nat (length (usem6 c cT)) <? nodes_limit opt) && (N.of_nat (length (usem6 c cT)) <? u32_max) &&
    (N.of_nat (CstFullS4Main.vattrs (usem6 c cT)) <? u32_max) &&
    (length (doc_decls bmeaning cT) <=? N.to_nat 65535)%nat &&
    (1 + N.of_nat (CstFull.ns_cost bmeaning cT) <=? u32_max)
  | None => false
  end.

Definition fv6 (c : S6.doc) : option rule :=
  match ginline6 c with Some (cT, _) => first_violation6 cT | None => None end.

Theorem variant_b c opt rl : hypsN c opt = true -> fv6 c = Some rl ->
  exists e, parse (S6.render c) opt = Err e /\ rule_error rl e = true.
Proof.
  unfold hypsN, fv6. intros H Hv. destruct (ginline6 c) as [[cT tr]|] eqn:Hi; [|discriminate].
  rewrite !andb_true_iff in H. destruct H as [[H1 H2] [[[[[[[H3 H4] H5] H6] H7] H8] H9] H10]].
  apply (ns_violation_variant_full_s6 c opt cT tr rl); try assumption; try lia.
  - intros Hd. rewrite Hd in H2. exact H2.
  - apply distinct_by_count. apply Nat.leb_le. exact H9.
Qed.

Corollary unknown_ns_b c opt p : hypsN c opt = true -> fv6 c = Some (UnboundPrefix p) ->
  exists tp, parse (S6.render c) opt = Err (UnknownNamespace p tp).
Proof.
  intros H Hv. destruct (variant_b c opt _ H Hv) as (e & E & R). destruct e; try discriminate R.
  cbn [NsRejBuild.rule_error] in R. apply ScopeProofs.bytes_eqb_eq in R. subst. eauto.
Qed.
Corollary dup_attr_b c opt l : hypsN c opt = true -> fv6 c = Some (DupAttr l) ->
  exists tp, parse (S6.render c) opt = Err (DuplicatedAttribute l tp).
Proof.
  intros H Hv. destruct (variant_b c opt _ H Hv) as (e & E & R). destruct e; try discriminate R.
  cbn [NsRejBuild.rule_error] in R. apply ScopeProofs.bytes_eqb_eq in R. subst. eauto.
Qed.
Corollary dup_prefix_b c opt p : hypsN c opt = true -> fv6 c = Some (DupPrefix p) ->
  exists tp, parse (S6.render c) opt = Err (DuplicatedNamespace p tp).
Proof.
  intros H Hv. destruct (variant_b c opt _ H Hv) as (e & E & R). destruct e; try discriminate R.
  cbn [NsRejBuild.rule_error] in R. apply ScopeProofs.bytes_eqb_eq in R. subst. eauto.
Qed.
Corollary xml_prefix_uri_b c opt : hypsN c opt = true -> fv6 c = Some XmlPrefixOtherUri ->
  exists tp, parse (S6.render c) opt = Err (InvalidXmlPrefixUri tp).
Proof. intros H Hv. destruct (variant_b c opt _ H Hv) as (e & E & R). destruct e; try discriminate R. eauto. Qed.
Corollary xml_uri_b c opt : hypsN c opt = true -> fv6 c = Some XmlUriOtherPrefix ->
  exists tp, parse (S6.render c) opt = Err (UnexpectedXmlUri tp).
Proof. intros H Hv. destruct (variant_b c opt _ H Hv) as (e & E & R). destruct e; try discriminate R. eauto. Qed.
Corollary xmlns_uri_b c opt : hypsN c opt = true -> fv6 c = Some XmlnsUriBound ->
  exists tp, parse (S6.render c) opt = Err (UnexpectedXmlnsUri tp).
Proof. intros H Hv. destruct (variant_b c opt _ H Hv) as (e & E & R). destruct e; try discriminate R. eauto. Qed.
Corollary elem_xmlns_b c opt : hypsN c opt = true -> fv6 c = Some ElemPrefixXmlns ->
  exists tp, parse (S6.render c) opt = Err (InvalidElementNamePrefix tp).
Proof. intros H Hv. destruct (variant_b c opt _ H Hv) as (e & E & R). destruct e; try discriminate R. eauto. Qed.
Corollary decl_xmlns_b c opt : hypsN c opt = true -> fv6 c = Some DeclXmlns ->
  exists tp, parse (S6.render c) opt = Err (InvalidElementNamePrefix tp).
Proof. intros H Hv. destruct (variant_b c opt _ H Hv) as (e & E & R). destruct e; try discriminate R. eauto. Qed.

Definition Accepted (c : S6.doc) : Prop :=
  exists x, parse (S6.render c) opt_dtd = Ok x /\ view (S6.render c) x = Some (S6.sem c).

(* ------------------------------------------------------------------------------------------ *)
(* instances                                                                                  *)
(* ------------------------------------------------------------------------------------------ *)
Definition qb := b "q".
Definition urn := XT (b "u") [lit (b "urn:x")].
(* one declaration <!ENTITY e "<q:x/>">, referred to where q is bound, and where it is not *)
Definition eq_ := XC (b "e") [em qb (b "x") []].
Definition bound_at_ref := with_sub [eq_] (el [] (b "r") [dc1 qb [lit (b "urn:q")]] [tx [rf (b "e")]]).
Definition unbound_at_2nd := with_sub [eq_] (r0 [el [] (b "a") [dc1 qb [lit (b "urn:q")]] [tx [rf (b "e")]]; tx [lit (b "t"); rf (b "e")]]).
Example same_decl_accepted : Accepted bound_at_ref.
Proof. apply within_accepted_b; vm_compute; reflexivity. Qed.
Example same_decl_rejected : exists tp, parse (S6.render unbound_at_2nd) opt_dtd = Err (UnknownNamespace qb tp).
Proof. apply unknown_ns_b; vm_compute; reflexivity. Qed.
(* ... nested: the prefix is used two entities deep, in an attribute name *)
Definition deep_unbound := with_sub [XC (b "i") [em [] (b "x") [at1 qb (b "k") [lit (b "v")]]]; XC (b "o") [el [] (b "w") [] [tx [rf (b "i")]]]]
                             (r0 [tx [rf (b "o")]]).
Example deep_rejected : exists tp, parse (S6.render deep_unbound) opt_dtd = Err (UnknownNamespace qb tp).
Proof. apply unknown_ns_b; vm_compute; reflexivity. Qed.
(* Unicode prefixes: U+540D bound at the first reference, not at the second *)
Definition uni := with_sub [XC [eacute] [em [na] [eacute] []]]
                    (r0 [el [] (b "a") [dc1 [na] [lit [na]]] [tx [rf [eacute]]]; tx [rf [eacute]]]).
Example unicode_prefix_rejected : exists tp, parse (S6.render uni) opt_dtd = Err (UnknownNamespace (utf8s [na]) tp).
Proof. apply unknown_ns_b; vm_compute; reflexivity. Qed.

(* a duplicate attribute AFTER expansion: p:a and q:a, both prefixes bound to the URI supplied through &u; *)
Definition dup_after := with_sub [urn] (em [] (b "r") [dc1 p_ [rf (b "u")]; dc1 qb [lit (b "urn:x")]; at2 p_ (b "a") [lit (b "1")]; at2 qb (b "a") [lit (b "2")]]).
Example dup_attr_rejected : exists tp, parse (S6.render dup_after) opt_dtd = Err (DuplicatedAttribute (b "a") tp).
Proof. apply dup_attr_b; vm_compute; reflexivity. Qed.
(* ... and with different URIs the same tag is accepted *)
Definition nodup_after := with_sub [urn] (em [] (b "r") [dc1 p_ [rf (b "u")]; dc1 qb [lit (b "urn:y")]; at2 p_ (b "a") [lit (b "1")]; at2 qb (b "a") [lit (b "2")]]).
Example nodup_accepted : Accepted nodup_after.
Proof. apply within_accepted_b; vm_compute; reflexivity. Qed.
(* ... inside a markup entity, the two prefixes bound at the place of the reference *)
Definition dup_in_entity := with_sub [urn; XC (b "m") [em [] (b "x") [at1 p_ (b "a") [lit (b "1")]; at1 qb (b "a") [lit (b "2")]]]]
                              (el [] (b "r") [dc1 p_ [rf (b "u")]] [el [] (b "s") [dc1 qb [rf (b "u")]] [tx [rf (b "m")]]]).
Example dup_in_entity_rejected : exists tp, parse (S6.render dup_in_entity) opt_dtd = Err (DuplicatedAttribute (b "a") tp).
Proof. apply dup_attr_b; vm_compute; reflexivity. Qed.

(* the reserved names, the URI coming through references *)
Definition xml_wrong := with_sub [urn] (em [] (b "r") [dc1 (b "xml") [rf (b "u")]]).
Example xml_prefix_wrong_uri : exists tp, parse (S6.render xml_wrong) opt_dtd = Err (InvalidXmlPrefixUri tp).
Proof. apply xml_prefix_uri_b; vm_compute; reflexivity. Qed.
Definition xml_right := with_sub [XT (b "x") [lit (b "http://www.w3.org/XML/1998/namespace")]] (em [] (b "r") [dc1 (b "xml") [rf (b "x")]; at2 (b "xml") (b "lang") [lit (b "en")]]).
Example xml_prefix_right_uri : Accepted xml_right.
Proof. apply within_accepted_b; vm_compute; reflexivity. Qed.
Definition xml_uri_other := with_sub [XT (b "x") [lit (b "http://www.w3.org/XML/1998/namespace")]] (em [] (b "r") [dc1 p_ [rf (b "x")]]).
Example xml_uri_on_other_prefix : exists tp, parse (S6.render xml_uri_other) opt_dtd = Err (UnexpectedXmlUri tp).
Proof. apply xml_uri_b; vm_compute; reflexivity. Qed.
Definition xmlns_uri := with_sub [XT (b "x") [lit (b "http://www.w3.org/2000/xmlns/")]] (em [] (b "r") [dc1 [] [rf (b "x")]]).
Example xmlns_uri_bound : exists tp, parse (S6.render xmlns_uri) opt_dtd = Err (UnexpectedXmlnsUri tp).
Proof. apply xmlns_uri_b; vm_compute; reflexivity. Qed.
Definition dup_prefix := with_sub [urn; XC (b "m") [em [] (b "x") [dc1 p_ [rf (b "u")]; dc1 p_ [lit (b "w")]]]] (r0 [tx [rf (b "m")]]).
Example dup_prefix_in_entity : exists tp, parse (S6.render dup_prefix) opt_dtd = Err (DuplicatedNamespace p_ tp).
Proof. apply dup_prefix_b; vm_compute; reflexivity. Qed.
Definition decl_xmlns := with_sub [] (em [] (b "r") [dc1 (b "xmlns") [lit (b "u")]]).
Example xmlns_declared : exists tp, parse (S6.render decl_xmlns) opt_dtd = Err (InvalidElementNamePrefix tp).
Proof. apply decl_xmlns_b; vm_compute; reflexivity. Qed.

(* the order of the checks: the first violation in reading order wins (an unbound prefix in the first child, a duplicate
   declaration in the second) *)
Definition two_viol := with_sub [eq_] (r0 [tx [rf (b "e")]; em [] (b "y") [dc1 p_ [lit (b "u")]; dc1 p_ [lit (b "w")]]]).
Example first_wins : exists tp, parse (S6.render two_viol) opt_dtd = Err (UnknownNamespace qb tp).
Proof. apply unknown_ns_b; vm_compute; reflexivity. Qed.

(* everything at once: ex1 of Proofs/CstFullS6Sanity.v without the declaration of q on the root: the markup entity m
   uses q, bound only at the place of the reference -- the first reference (in the root) now fails, the second (under
   xmlns:q="other-q") would have been fine *)
Definition ex1_noq : S6.doc :=
  {| S6.x_bom := S6.x_bom ex1; S6.x_decl := S6.x_decl ex1; S6.x_dtd := S6.x_dtd ex1;
     S6.x_main := {| d_before := d_before (S6.x_main ex1); d_ws0 := d_ws0 (S6.x_main ex1);
                     d_root := match d_root (S6.x_main ex1) with
                               | IElem n (e1 :: _ :: e3) w body => IElem n (e1 :: e3) w body
                               | i => i end;
                     d_after := d_after (S6.x_main ex1); d_ws_end := d_ws_end (S6.x_main ex1) |} |}.
Example ex1_noq_rejected : exists tp, parse (S6.render ex1_noq) opt_dtd = Err (UnknownNamespace qb tp).
Proof. apply unknown_ns_b; vm_compute; reflexivity. Qed.

(* ------------------------------------------------------------------------------------------ *)
(* the two counterexamples to the statement as asked for                                      *)
(* ------------------------------------------------------------------------------------------ *)
Definition nsok6 (c : S6.doc) : option bool :=
  match ginline6 c with Some (cT, _) => Some (forallb (ns_ok []) (den bmeaning (d_root cT))) | None => None end.
Definition named_ok6 (c : S6.doc) : option bool :=
  match ginline6 c with Some (cT, _) => Some (attrs_named_ok cT) | None => None end.

(* (1) an ordinary attribute NAMED xmlns:p: syntactically well-formed, the unfolding fails ns_ok of Spec/CstFull.v -- and the
   model, which reads it as the declaration it spells, answers Ok *)
Definition attr_xmlns := with_sub [] (em [] (b "r") [at2 (b "xmlns") (b "p") [lit (b "u")]]).
Example attr_named_xmlns :
  wf_syntax6 attr_xmlns = true /\ limits_of6 attr_xmlns = Some true /\ nsok6 attr_xmlns = Some false /\ named_ok6 attr_xmlns = Some false /\
  match parse (S6.render attr_xmlns) opt_dtd with Ok _ => True | _ => False end.
Proof. split; [|split; [|split; [|split]]]; vm_compute; first [reflexivity|exact I]. Qed.

(* (2) an element named xmlns:r: the error is InvalidElementNamePrefix, which is not among the six variants asked for *)
Definition elem_xmlns := with_sub [] (em (b "xmlns") (b "r") []).
Example elem_prefix_xmlns : exists tp, parse (S6.render elem_xmlns) opt_dtd = Err (InvalidElementNamePrefix tp).
Proof. apply elem_xmlns_b; vm_compute; reflexivity. Qed.

Print Assumptions variant_b.
Print Assumptions same_decl_rejected.
Print Assumptions ex1_noq_rejected.
