(* TruncDtdBuild.v -- C08, truncation, general case, part 2: the builder against the counter
   when entities are declared and expanded.  The invariant of TruncBuild without its two
   clauses on entities; an entity expansion is followed with a virtual counter that also sees
   the tokens of the entity value: it comes back to where it was. *)
From Coq Require Import Ascii String.
From Coq Require Import PeanoNat Lia ZifyBool ZifyN ZifyNat.
From RX Require Import Generated.
From RX.Model Require Import Base CharClass Stream Tokenizer Doc Builder Parse.
From RX.Proofs Require Import Tactics OptionsParam OptionsBuild BudgetStream BudgetBuild BudgetNoEnt
  TruncBuild.

(* the invariant, whatever the entities and the floor *)
Definition Jg (c : context) (st : cst) : Prop :=
  exists stk, c_parent_id c = hd 0 stk /\
              len_N (c_parent_prefixes c) = N.of_nat (length stk) + 1 /\
              Jn (d_nodes (c_doc c)) stk st.

Lemma Jg_depth c st : Jg c st -> len_N (c_parent_prefixes c) = cs_depth st + 1.
Proof. intros (stk & _ & E & (Hd & _)). lia. Qed.

(* Jg only looks at three components *)
Lemma Jg_comp c c' st : c_parent_id c' = c_parent_id c -> c_parent_prefixes c' = c_parent_prefixes c ->
  d_nodes (c_doc c') = d_nodes (c_doc c) -> Jg c st -> Jg c' st.
Proof. intros E1 E2 E3 (stk & H1 & H2 & H3). exists stk. rewrite E1, E2, E3. auto. Qed.

Lemma Jg_same c c' st : frame c c' -> stab None (d_nodes (c_doc c)) (d_nodes (c_doc c')) ->
  Jg c st -> Jg c' st.
Proof.
  intros (F1 & F2 & _) Hs (stk & E3 & E4 & HJ). exists stk. rewrite F1, F2.
  split; [exact E3|]. split; [exact E4|]. eapply Jn_same; eauto.
Qed.

Lemma Jg_app_nonel c c' st nodes1 ndn : frame c c' ->
  stab None (d_nodes (c_doc c)) nodes1 -> d_nodes (c_doc c') = nodes1 ++ [ndn] -> is_el ndn = false ->
  Jg c st -> Jg c' st.
Proof.
  intros (F1 & F2 & _) Hs Hn Hk (stk & E3 & E4 & HJ). exists stk. rewrite F1, F2, Hn.
  split; [exact E3|]. split; [exact E4|]. apply Jn_app_nonel; [exact Hk|]. eapply Jn_same; eauto.
Qed.

Section WithText.
Variable text : bytes.

Lemma Jg_append_text t r c c' st : append_text t r c = Ok c' -> Jg c st ->
  Jg c' st /\ c_entity_floor c' = c_entity_floor c.
Proof.
  intros H HJ. destruct (fr_append_text _ _ _ _ H) as [Hf [Hs|(nodes1 & ndn & Hs & Hn & Hk)]].
  - split; [eapply Jg_same; eauto|apply Hf].
  - split; [eapply Jg_app_nonel; eauto|apply Hf].
Qed.

Lemma Jg_reset c c' st : reset_after_text text c = Ok c' -> Jg c st ->
  Jg c' st /\ c_entity_floor c' = c_entity_floor c.
Proof.
  intros H HJ. destruct (fr_reset_after_text _ _ _ H) as [Hf Hs].
  split; [eapply Jg_same; eauto|apply Hf].
Qed.

Lemma Jg_append_nonel k r c id c' st : append_node k r c = Ok (id, c') -> is_element_kind k = false ->
  Jg c st -> Jg c' st /\ c_entity_floor c' = c_entity_floor c.
Proof.
  intros H Hk HJ. pose proof (fr_append_node _ _ _ _ _ H) as Hf.
  destruct (append_node_nodes _ _ _ _ _ H) as (_ & nodes1 & ndn & Hs & Hn & _ & Hk' & _).
  split; [eapply Jg_app_nonel; eauto; congruence|apply Hf].
Qed.

Lemma Jg_cdata t r c c' st : process_cdata text t r c = Ok c' -> Jg c st ->
  Jg c' st /\ c_entity_floor c' = c_entity_floor c.
Proof.
  unfold process_cdata. intros H HJ. destruct (mem_b 13 _); eapply Jg_append_text; eauto.
Qed.

(* an element token; a close tag is above the floor *)
Lemma Jg_element e r c c' st : process_element text e r c = Ok c' -> Jg c st ->
  Jg c' (estep e r st) /\ c_entity_floor c' = c_entity_floor c /\
  (match e with EClose _ _ => c_entity_floor c < len_N (c_parent_prefixes c) | _ => True end).
Proof.
  unfold process_element. intros H HJ.
  destruct (slice_len (tn_name (c_tag_name c)) =? 0).
  { destruct e; try discriminate. exfalso. eapply err_from_not_ok; eauto. }
  apply bind_ok in H. destruct H as [[nss c1] [H1 H]]. cbv beta iota zeta in H.
  apply bind_ok in H. destruct H as [[ats c2] [H2 H]]. cbv beta iota zeta in H.
  destruct (fr_resolve_namespaces _ _ _ _ H1) as [F1 N1].
  destruct (fr_resolve_attributes _ _ _ _ _ H2) as [F2 N2]. cproj.
  assert (Hfr : frame c c2) by (clear - F1 F2; unfold frame in *; cproj;
    repeat match goal with H : _ /\ _ |- _ => destruct H end; repeat split; congruence).
  assert (HJ2 : Jg c2 st).
  { eapply (Jg_same c); [exact Hfr| |exact HJ]. rewrite N2, N1. apply stab_refl. }
  destruct Hfr as (Fp & Fpp & _ & Ffl).
  clear HJ H1 H2 F1 F2 N1 N2.
  destruct HJ2 as (stk & E3 & E4 & HJ).
  destruct e as [|pr lo|].
  - (* <e> *)
    apply bind_ok in H. destruct H as [ns [_ H]]. cbv beta in H.
    apply bind_ok in H. destruct H as [[id c3] [H3 H]]. cbv beta iota in H. inversion H; subst c'. clear H.
    pose proof (fr_append_node _ _ _ _ _ H3) as (F1 & F2 & F3 & F4).
    destruct (append_node_nodes _ _ _ _ _ H3) as (Eid & nodes1 & ndn & Hs & Hn & Hp & Hk & Hr).
    split; [|cproj; split; [congruence|exact I]].
    exists (id :: stk). cproj. rewrite Hn. split; [reflexivity|]. split.
    { unfold len_N in *. rewrite F2, app_length. cbn [length]. lia. }
    assert (El : id = len_N nodes1).
    { rewrite Eid. unfold cnt, len_N. destruct Hs as [L _]. rewrite L. reflexivity. }
    rewrite El. apply Jn_open; [rewrite Hk; reflexivity|rewrite Hp, E3; reflexivity|].
    eapply Jn_same; eauto.
  - (* </e> *)
    destruct (len_N (c_parent_prefixes c2) <=? c_entity_floor c2) eqn:Efl; [exfalso; eapply err_from_not_ok; eauto|].
    apply bind_ok in H. destruct H as [pnd [Hpnd H]]. cbv beta in H.
    apply bind_ok in H. destruct H as [pp [_ H]]. cbv beta in H.
    apply bind_ok in H. destruct H as [nodes' [Hupd H]]. cbv beta zeta in H.
    apply bind_ok in H. destruct H as [u [_ H]]. cbv beta zeta in H.
    destruct (nd_parent pnd) as [pid|] eqn:Epid; [|exfalso; eapply err_from_not_ok; eauto].
    cproj.
    destruct (removelast (c_parent_prefixes c2)) as [|q qs] eqn:Erl; [discriminate|].
    inversion H; subst c'. clear H.
    split; [|cproj; split; [congruence|rewrite <- Fpp, <- Ffl; lia]].
    destruct stk as [|x rs].
    { exfalso. cbn [length] in E4. destruct (c_parent_prefixes c2) as [|a [|b0 l]]; cbn in *; try discriminate; lia. }
    cbn [hd] in E3.
    assert (Hst : stab (Some (N.to_nat x)) (d_nodes (c_doc c2)) nodes').
    { rewrite <- E3. eapply (upd_node_stab _ _ _ _ false); [|exact Hupd]. intros nd. repeat split; try reflexivity.
      discriminate. }
    assert (Hx : exists ndx, nth_error nodes' (N.to_nat x) = Some ndx /\ snd (nd_range ndx) = snd r).
    { unfold upd_node in Hupd. destruct (list_upd _ _ _) as [l0|] eqn:El; [|discriminate]. inversion Hupd; subst l0.
      destruct (list_upd_nth _ _ _ _ El) as [_ Hn]. rewrite E3 in Hn. specialize (Hn (N.to_nat x)).
      rewrite Nat.eqb_refl in Hn.
      destruct (nth_N (d_nodes (c_doc c2)) (c_parent_id c2)) as [p0|] eqn:Ep; [|discriminate].
      unfold nth_N in Ep. destruct (len_N (d_nodes (c_doc c2)) <=? c_parent_id c2); [discriminate|]. rewrite E3 in Ep. rewrite Ep in Hn. cbn [option_map] in Hn.
      eexists. split; [exact Hn|]. reflexivity. }
    destruct Hx as (ndx & Hx & Hxe).
    assert (Hpid : pid = hd 0 rs).
    { destruct HJ as (_ & _ & _ & Hc & _). cbn [chain] in Hc. destruct Hc as [(nd & Hn & Hp) _].
      destruct (nth_N (d_nodes (c_doc c2)) (c_parent_id c2)) as [p0|] eqn:Ep; [|discriminate].
      inversion Hpnd; subst p0. unfold nth_N in Ep. destruct (len_N (d_nodes (c_doc c2)) <=? c_parent_id c2); [discriminate|].
      rewrite E3, Hn in Ep. inversion Ep; subst nd. congruence. }
    exists rs. cproj. split; [exact Hpid|]. split.
    { rewrite <- Erl. unfold len_N in *. cbn [length] in E4.
      assert (Hrl : forall (l : list slice), l <> [] -> length (removelast l) = (length l - 1)%nat).
      { intros l Hl. pose proof (app_removelast_last empty_slice Hl) as E.
        apply (f_equal (@length _)) in E. rewrite app_length in E. cbn [length] in E. lia. }
      rewrite Hrl; [lia|]. intros Hn. rewrite Hn in Erl. discriminate. }
    eapply Jn_close; eauto.
  - (* <e/> *)
    apply bind_ok in H. destruct H as [ns [_ H]]. cbv beta in H.
    apply bind_ok in H. destruct H as [[id c3] [H3 H]]. cbv beta iota in H. inversion H; subst c'. clear H.
    pose proof (fr_append_node _ _ _ _ _ H3) as (F1 & F2 & F3 & F4).
    destruct (append_node_nodes _ _ _ _ _ H3) as (Eid & nodes1 & ndn & Hs & Hn & Hp & Hk & Hr).
    split; [|cproj; split; [congruence|exact I]].
    exists stk. cproj. rewrite F1, F2, Hn. split; [exact E3|]. split; [exact E4|].
    apply Jn_empty; [rewrite Hk; reflexivity|rewrite Hp, E3; reflexivity|rewrite Hr; reflexivity|].
    eapply Jn_same; eauto.
Qed.

(** * One token, given what text tokens do *)

Definition is_txt (tk : Tokenizer.token) : bool := match tk with TText _ _ => true | _ => false end.

(* the condition under which a text token is harmless: inside the root, or after it *)
Definition inroot (st : cst) : Prop := cs_root st = None -> 1 <= cs_depth st.

Definition ptext_ok (ptext : slice -> range -> context -> res context) : Prop :=
  forall t r c c' st, ptext t r c = Ok c' -> Jg c st -> inroot st ->
    Jg c' st /\ c_entity_floor c' = c_entity_floor c.

Lemma Jg_token ptext tk c c' st : ptext_ok ptext ->
  token_with text ptext tk c = Ok c' -> Jg c st -> (is_txt tk = true -> inroot st) ->
  Jg c' (cstep tk st) /\ c_entity_floor c' = c_entity_floor c /\
  (match tk with
   | TElementEnd (EClose _ _) _ => c_entity_floor c < len_N (c_parent_prefixes c)
   | _ => True end).
Proof.
  intros Hpt H HJ Hin.
  destruct tk; cbn [token_with cstep is_txt] in *.
  - usteps. destruct (Jg_reset _ _ _ Hb HJ) as [HJ1 F1].
    destruct (Jg_append_nonel _ _ _ _ _ _ Hb0 eq_refl HJ1) as [HJ2 F2]. split; [exact HJ2|]. split; [congruence|exact I].
  - usteps. destruct (Jg_reset _ _ _ Hb HJ) as [HJ1 F1].
    destruct (Jg_append_nonel _ _ _ _ _ _ Hb0 eq_refl HJ1) as [HJ2 F2]. split; [exact HJ2|]. split; [congruence|exact I].
  - inversion H; subst. split; [|split; [reflexivity|exact I]]. eapply Jg_comp; [| | |exact HJ]; reflexivity.
  - usteps. destruct (Jg_reset _ _ _ Hb HJ) as [HJ1 F1]. split; [|split; [cproj; exact F1|exact I]].
    eapply Jg_comp; [| | |exact HJ1]; reflexivity.
  - destruct (fr_process_attribute _ _ _ _ _ _ _ _ _ H) as [Hf Hn].
    split; [|split; [apply Hf|exact I]]. eapply Jg_same; eauto. rewrite Hn. apply stab_refl.
  - usteps. destruct (Jg_reset _ _ _ Hb HJ) as [HJ1 F1].
    destruct (Jg_element _ _ _ _ _ H HJ1) as (HJ2 & F2 & Hcl).
    pose proof (fr_reset_after_text _ _ _ Hb) as [(_ & Fpp & _) _].
    split; [exact HJ2|]. split; [congruence|]. destruct e; try exact I. rewrite <- Fpp, <- F1. exact Hcl.
  - destruct (Hpt _ _ _ _ _ H HJ (Hin eq_refl)) as [HJ1 F1]. auto.
  - destruct (Jg_cdata _ _ _ _ _ H HJ) as [HJ1 F1]. auto.
Qed.

(** * The product of a callback on contexts with the counter *)

Definition evx (tk : Tokenizer.token -> context -> res context)
           (tok : Tokenizer.token) (x : context * cst) : res (context * cst) :=
  let! c' := tk tok (fst x) in Ok (c', cstep tok (snd x)).

Lemma content_product tk s c sv s' c' : parse_content text context tk s c = Ok (s', c') ->
  exists sv', parse_content text (context * cst) (evx tk) s (c, sv) = Ok (s', (c', sv')).
Proof.
  intros H.
  pose proof (b_parse_content text context (context * cst) tk (evx tk) False UnexpectedEndOfStream
                (fun a x => a = fst x) (fun _ => False)) as HB.
  assert (Hev : forall tok c1 c2, c1 = fst c2 ->
     grel False UnexpectedEndOfStream (fun a x => a = fst x) (fun _ => False) (tk tok c1) (evx tk tok c2)).
  { intros tok c1 [c2 s2] ->. unfold evx. cbn [fst snd]. destruct (tk tok c2); cbn [bind]; constructor. reflexivity. }
  specialize (HB Hev (fun _ _ _ _ F => F) s c (c, sv) eq_refl). rewrite H in HB.
  inversion HB as [x1 x2 HR E1 E2| | | |]; subst. destruct x2 as [s2 [c2 sv2]]. destruct HR as [Hs Hc].
  cbn [fst snd] in *. subst. eauto.
Qed.

(** * Entity expansion: the nested run, and the text token, level by level *)

Lemma estep_root_same e r st : inroot st -> (match e with EClose _ _ => 2 <= cs_depth st \/ cs_root st <> None | _ => True end) ->
  cs_root (estep e r st) = cs_root st.
Proof.
  intros Hin Hc. destruct e; cbn [estep]; [reflexivity| |].
  - cbn [cs_root]. destruct (cs_root st) eqn:E; [reflexivity|]. destruct Hc as [Hc|Hc]; [|congruence].
    replace (cs_depth st =? 1) with false by lia. reflexivity.
  - destruct (cs_root st) eqn:E; [exact E|]. specialize (Hin E).
    replace (cs_depth st =? 0) with false by lia. exact E.
Qed.

Section Level.
Variable lvl : nat.
Hypothesis Hpt : ptext_ok (process_text_with text (parse_content_lvl text lvl)).

Notation tkl := (token_with text (process_text_with text (parse_content_lvl text lvl))).

(* a run over an entity value that comes back to its floor leaves the invariant as it was *)
Lemma nested_run s c s' c' st : parse_content_lvl text (S lvl) s c = Ok (s', c') ->
  Jg c st -> inroot st -> c_entity_floor c = len_N (c_parent_prefixes c) ->
  len_N (c_parent_prefixes c') = c_entity_floor c' ->
  Jg c' st /\ c_entity_floor c' = c_entity_floor c.
Proof.
  intros H HJ Hin Hfl Hend. cbn [parse_content_lvl] in H.
  destruct (content_product tkl s c st s' c' H) as [sv' Hp].
  set (F := c_entity_floor c) in *.
  pose proof (Jg_depth _ _ HJ) as Hd0.
  (* the invariant of the nested run *)
  set (Inv0 := fun x : context * cst =>
         Jg (fst x) (snd x) /\ cs_root (snd x) = cs_root st /\ c_entity_floor (fst x) = F /\
         F <= len_N (c_parent_prefixes (fst x))).
  assert (HI : Inv0 (c', sv')).
  { eapply (u_parse_content text (context * cst) (evx tkl) Inv0); [|exact Hp|].
    - intros tok [c1 s1] [c2 s2] Hev (HJ1 & Hr1 & Hf1 & Hl1). unfold evx in Hev. cbn [fst snd] in *.
      apply bind_ok in Hev. destruct Hev as [c3 [Ht Hev]]. inversion Hev; subst c3 s2. clear Hev.
      pose proof (Jg_depth _ _ HJ1) as Hd1.
      assert (Hin1 : inroot s1).
      { intros Hn. rewrite Hr1 in Hn. specialize (Hin Hn). lia. }
      destruct (Jg_token _ _ _ _ _ Hpt Ht HJ1 (fun _ => Hin1)) as (HJ2 & F2 & Hcl).
      pose proof (Jg_depth _ _ HJ2) as Hd2.
      split; [exact HJ2|]. split; [|split; [exact (eq_trans F2 Hf1)|]].
      + destruct tok; cbn [cstep]; try exact Hr1. rewrite <- Hr1. apply estep_root_same; [exact Hin1|].
        destruct e; cbv iota; try exact I.
        destruct (cs_root s1) eqn:Er; [right; discriminate|left].
        specialize (Hin (eq_sym Hr1)). lia.
      + cbn [fst snd]. destruct tok as [? ? ?|? ?|? ?|? ? ?|? ? ? ? ? ?|ee rr|? ?|? ?]; cbn [cstep] in Hd2; try lia.
        destruct ee; cbn [estep cs_depth] in Hd2; try lia.
        destruct (cs_root s1); [lia|]. destruct (cs_depth s1 =? 0) eqn:E0; cbn [cs_depth] in Hd2; lia.
    - unfold Inv0. cbn [fst snd]. split; [exact HJ|]. split; [reflexivity|]. split; [reflexivity|lia]. }
  destruct HI as (HJ' & Hr' & Hf' & _). cbn [fst snd] in *.
  pose proof (Jg_depth _ _ HJ') as Hd'.
  assert (Esv : sv' = st).
  { destruct sv' as [d' r'], st as [d0 r0]. cbn [cs_depth cs_root] in *. f_equal; [lia|exact Hr']. }
  rewrite Esv in HJ'. split; [exact HJ'|exact Hf'].
Qed.

(* the loop of process_text *)
Lemma pt_loop_Jg r fuel : forall s buf c buf' c' st,
  pt_loop text (parse_content_lvl text (S lvl)) r fuel s buf c = Ok (buf', c') ->
  Jg c st -> inroot st -> Jg c' st /\ c_entity_floor c' = c_entity_floor c.
Proof.
  induction fuel; intros s buf c buf' c' st H HJ Hin; [discriminate|].
  cbn [pt_loop] in H. destruct (at_end s); [inversion H; subst; auto|].
  apply bind_ok in H. destruct H as [[ch s1] [_ H]]. cbv beta iota in H.
  destruct ch as [x|cp|value]; try (eapply IHfuel; eauto; fail).
  apply bind_ok in H. destruct H as [ca [Hflush H]]. cbv beta in H.
  assert (Hca : Jg ca st /\ c_entity_floor ca = c_entity_floor c).
  { destruct (negb (tb_is_empty buf)).
    - apply bind_ok in Hflush. destruct Hflush as [bs [_ Hf]]. eapply Jg_append_text; eauto.
    - inversion Hflush; subst. auto. }
  destruct Hca as [HJa Fa].
  apply bind_ok in H. destruct H as [ld1 [_ H]]. cbv beta in H.
  apply bind_ok in H. destruct H as [ld2 [_ H]]. cbv beta zeta in H.
  apply bind_ok in H. destruct H as [es [_ H]]. cbv beta in H.
  apply bind_ok in H. destruct H as [[es' c2] [Hrun H]]. cbv beta iota in H.
  destruct (negb (len_N (c_parent_prefixes c2) =? c_entity_floor c2)) eqn:Echk; [discriminate|].
  eapply nested_run in Hrun; [ | | exact Hin | cproj; reflexivity | lia ].
  2: { eapply Jg_comp; [| | |exact HJa]; reflexivity. }
  destruct Hrun as [HJ2 F2]. cproj.
  eapply IHfuel in H; [ | | exact Hin ].
  2: { eapply Jg_comp; [| | |exact HJ2]; reflexivity. }
  destruct H as [HJ' F']. cproj. split; [exact HJ'|congruence].
Qed.

Lemma ptext_ok_S : ptext_ok (process_text_with text (parse_content_lvl text (S lvl))).
Proof.
  intros t r c c' st H HJ Hin. rewrite process_text_with_eq in H.
  destruct (negb (existsb _ _)); [eapply Jg_append_text; eauto|].
  apply bind_ok in H. destruct H as [s0 [_ H]]. cbv beta in H.
  apply bind_ok in H. destruct H as [[buf c1] [Hl H]]. cbv beta iota in H.
  destruct (pt_loop_Jg _ _ _ _ _ _ _ _ Hl HJ Hin) as [HJ1 F1].
  destruct (negb (tb_is_empty buf)).
  - apply bind_ok in H. destruct H as [bs [_ H]]. destruct (Jg_append_text _ _ _ _ _ H HJ1) as [HJ2 F2].
    split; [exact HJ2|congruence].
  - inversion H; subst. auto.
Qed.

End Level.

Lemma ptext_ok_lvl : forall lvl, ptext_ok (process_text_with text (parse_content_lvl text lvl)).
Proof.
  induction lvl; [|apply ptext_ok_S; exact IHlvl].
  (* at level 0 a nested run is out of fuel *)
  intros t r c c' st H HJ Hin. rewrite process_text_with_eq in H.
  destruct (negb (existsb _ _)); [eapply Jg_append_text; eauto|].
  apply bind_ok in H. destruct H as [s0 [_ H]]. cbv beta in H.
  apply bind_ok in H. destruct H as [[buf c1] [Hl H]]. cbv beta iota in H.
  assert (Hc1 : c1 = c).
  { clear - Hl. revert Hl. generalize (Datatypes.S (length (s_rest s0))) as fuel. generalize tb_new as b0.
    revert c1. generalize s0 as s. intros s c1 b0 fuel. revert s b0.
    induction fuel; intros s b0 Hl; [discriminate|]. cbn [pt_loop] in Hl.
    destruct (at_end s); [inversion Hl; reflexivity|].
    apply bind_ok in Hl. destruct Hl as [[ch s1] [_ Hl]]. cbv beta iota in Hl.
    destruct ch as [x|cp|value]; try (eapply IHfuel; eauto; fail).
    exfalso. usteps; cbn [parse_content_lvl] in *; discriminate. }
  subst c1. destruct (negb (tb_is_empty buf)).
  - apply bind_ok in H. destruct H as [bs [_ H]]. eapply Jg_append_text; eauto.
  - inversion H; subst. auto.
Qed.

(* the callback of the tokenizer *)
Lemma Jg_token_top tk c c' st : token text tk c = Ok c' -> Jg c st -> (is_txt tk = true -> inroot st) ->
  Jg c' (cstep tk st).
Proof.
  intros H HJ Hin. unfold token, process_text in H.
  destruct (Jg_token _ _ _ _ _ (ptext_ok_lvl entity_levels) H HJ Hin) as [HJ' _]. exact HJ'.
Qed.

End WithText.
