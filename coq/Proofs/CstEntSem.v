(* Proofs/CstEntSem.v -- Spec/CstEnt.v, facts that do not involve the model: the expansion of a
   run of character data with references as a derivation (what is flushed where), decoding in
   entity mode, cutting a chunk list where no CR LF pair is split. *)
From Coq Require Import List NArith PeanoNat Bool Lia ZifyBool ZifyN ZifyNat.
Import ListNotations.
From RX Require Import Generated.
From RX.Model Require Import Base.
From RX.Spec Require Cst CstText CstEnt Chars Detector.
From RX.Spec Require Import Text.
From RX.Proofs Require Import TextMachine NoPanicUtf8 CstTextSem.
Open Scope N_scope.

Module E := CstEnt.

(* ------------------------------------------------------------------------------------------ *)
(* decoding in entity mode                                                                    *)
(* ------------------------------------------------------------------------------------------ *)

Lemma norm_eol_app_no13 : forall bs l, forallb (fun x => negb (x =? 13)) bs = true ->
  norm_eol (bs ++ l) = bs ++ norm_eol l.
Proof.
  induction bs as [|x bs IH]; intros l H; [reflexivity|]. cbn [forallb] in H. apply andb_true_iff in H.
  destruct H as [H1 H2]. cbn [app]. rewrite norm_eol_ne by lia. rewrite IH by exact H2. reflexivity.
Qed.

(* a chunk whose reference bytes contain neither CR nor LF, and are not empty *)
Definition chunk_plain (c : chunk) : Prop :=
  match c with
  | CLit _ => True
  | CRef bs => bs <> [] /\ forallb (fun x => negb (x =? 13) && negb (x =? 10)) bs = true
  end.

Lemma in_entity_decode_len : forall n cs, (length cs <= n)%nat -> Forall chunk_plain cs ->
  norm_eol (concat (map chunk_bytes cs)) = decode_chunks cs.
Proof.
  induction n as [|n IH]; intros cs Hl HF.
  - destruct cs; [reflexivity|cbn in Hl; lia].
  - rewrite decode_chunks_gen. destruct cs as [|[x|bs] r]; [reflexivity| |].
    + inversion HF as [|? ? _ Hr]; subst. cbn [length] in Hl. cbn [map concat chunk_bytes app].
      destruct (x =? 13) eqn:E13.
      * destruct r as [|[y|b2] r'].
        -- rewrite (gen_cr _ _ x []) by (assumption || exact I). rewrite gen_nil.
           cbn [map concat]. apply norm_eol_cr_end. exact E13.
        -- cbn [map concat chunk_bytes app]. destruct (y =? 10) eqn:E10.
           ++ rewrite (gen_crlf _ _ x y) by assumption. rewrite norm_eol_crlf by assumption.
              inversion Hr; subst. cbn [length] in Hl. rewrite <- decode_chunks_gen, <- IH by (assumption || lia).
              reflexivity.
           ++ rewrite (gen_cr _ _ x (CLit y :: r')) by assumption. rewrite norm_eol_cr_other by assumption.
              rewrite <- decode_chunks_gen, <- (IH (CLit y :: r')) by (assumption || (cbn [length] in *; lia)). reflexivity.
        -- rewrite (gen_cr _ _ x (CRef b2 :: r')) by (assumption || exact I).
           rewrite <- decode_chunks_gen, <- (IH (CRef b2 :: r')) by (assumption || (cbn [length] in *; lia)).
           cbn [map concat chunk_bytes]. inversion Hr as [|? ? Hc _]; subst. cbn [chunk_plain] in Hc. destruct Hc as [Hne Hb].
           destruct b2 as [|z b2]; [congruence|]. cbn [app forallb] in *.
           rewrite norm_eol_cr_other; [reflexivity|exact E13|lia].
      * rewrite (gen_lit_ne _ _ x) by assumption. rewrite norm_eol_ne by assumption.
        rewrite <- decode_chunks_gen, <- IH by (assumption || lia). reflexivity.
    + inversion HF as [|? ? Hc Hr]; subst. cbn [chunk_plain] in Hc. destruct Hc as [Hne Hb]. cbn [length] in Hl. cbn [map concat chunk_bytes].
      rewrite gen_ref, norm_eol_app_no13.
      * rewrite <- decode_chunks_gen, <- IH by (assumption || lia). reflexivity.
      * revert Hb. apply CstLex.forallb_imp. intros z Hz. lia.
Qed.

(* in entity mode the crate normalises the line ends of the whole string; when no referenced
   character is a CR or a LF this is the decoding of the chunk list *)
Lemma in_entity_decode : forall cs, Forall chunk_plain cs -> run_text_chunks true cs = decode_chunks cs.
Proof. intros cs H. rewrite text_chunks_in_entity. apply (in_entity_decode_len (length cs)); [lia|exact H]. Qed.

(* ------------------------------------------------------------------------------------------ *)
(* the expansion of character data with references, as a derivation                           *)
(* ------------------------------------------------------------------------------------------ *)

(* what is appended when the buffer that holds the chunks [acc] is finished in mode m *)
Definition emit (m : bool) (acc : list chunk) : list bytes :=
  match run_text_chunks m acc with [] => [] | o => [o] end.

Section Decls.
Variable decls : list E.edecl.

Definition first_decl (n : bytes) : option E.edecl := find (fun d => E.beq (E.e_name d) n) decls.

(* Exp m acc ps q tr F: reading the pieces ps in mode m (true: inside an entity value) with the
   chunks acc already in the buffer gives the inlined pieces q (with marks), the trace tr, and
   appends the strings F (a reference flushes the buffer; the last element of F is the final
   buffer, flushed when the token ends) *)
Inductive Exp : bool -> list chunk -> list E.epiece -> list T.piece -> list Detector.lop -> list bytes -> Prop :=
| Exp_nil : forall m acc, Exp m acc [] [] [] (emit m acc)
| Exp_piece : forall m acc p r q tr F,
    Exp m (acc ++ T.piece_chunks p) r q tr F -> Exp m acc (E.EP p :: r) (p :: q) tr F
| Exp_ref : forall m acc n r d vps qv trv Fv q tr F,
    first_decl n = Some d -> E.e_value d = E.EText vps ->
    Exp true [] vps qv trv Fv -> Exp m [] r q tr F ->
    Exp m acc (E.ERef n :: r) (E.mark :: qv ++ E.mark :: q)
        (Detector.Enter :: trv ++ Detector.Exit :: tr) (emit m acc ++ Fv ++ F).

End Decls.
