(* Proofs/CstSound6U.v -- C08 soundness on stage S6 (Spec/CstFullS6.v), markup-valued entities DECLARED but
   never referenced: the fragment [in_fragment_6u], the statement and sanity examples.
   [in_fragment_6u text] is [in_fragment_6a text] (Proofs/CstSound6.v: P0-P7, P8' -- every declared
   literal is a well-formed S6 value, a literal with '<' being checked by the crate's own content
   tokenizer -- and no '&' inside a literal that contains '<') together with
     U  [markup_unref text] (scan): for every general entity declaration whose literal contains '<',
        "&name;" (name: the bytes of the declared name) occurs nowhere in the input.  A syntactic
        over-approximation of "no markup-valued entity is referenced from the body": the crate never
        expands such an entity, its value only has to be a well-formed S6 value (P8'). *)
From Coq Require Import String.
From Coq Require Import List NArith Bool Lia.
Import ListNotations.
From RX Require Import Generated.
From RX.Model Require Import Base CharClass Stream Tokenizer Doc Builder Parse.
From RX.Spec Require Cst Chars CstU CstNs CstText CstEnt Scope.
From RX.Spec Require Import CstFull CstFullS5 CstFullS6.
From RX.Proofs Require Import CstSound CstSoundT CstSoundN CstSoundP CstSound6 CstSound6Sanity.
Open Scope N_scope.

(* [s] starts a declaration: if its literal contains '<', "&name;" does not occur in [text] *)
Definition unref_decl (text s : bytes) : bool :=
  if prefix_b (b "<!ENTITY") s then
    let r := skip_ws (skipn 8 s) in
    if is_pe r then true
    else match skip_ws (drop_name r) with
         | q :: v => if ((q =? 39) || (q =? 34)) && mem_b 60 (take_until q v)
                     then negb (contains_b ([38] ++ name_run r ++ [59]) text) else true
         | [] => true
         end
  else true.
Definition markup_unref (text : bytes) : bool := all_suffixes (unref_decl text) text.
Definition in_fragment_6u (text : bytes) : bool := in_fragment_6a text && markup_unref text.

Definition parse_sound_fragment_6u_stmt : Prop :=
  forall text opt d, in_fragment_6u text = true -> allow_dtd opt = true -> parse text opt = Ok d ->
  exists c : S6.doc, S6.wf_doc c = true /\ S6.render c = text.

(* ---- sanity ---- *)
Definition witness_6u (c : S6.doc) : bool := let text := S6.render c in in_fragment_6u text && acc6 text && S6.wf_doc c.

(* three markup entities are declared (one with namespaces, attributes, a comment, a PI, a CDATA
   section), none is referenced; the character-data entities are used in text, in an attribute
   value and in a namespace URI *)
Example ex6u_ok : witness_6u (mk6
  [ XEntity (xdc (b "u") (X4.XText [elit "urn:"; E.ERef (b "n")]));
    XEntity (xdc (b "m1") (X4.XContent [eem [] (b "i") []]));
    XEntity (xdc (b "n") (X4.XText [elit "v"; E.EP (T.PCharRef true (b "41"))]));
    XEntity (xdc (b "m2") (X4.XContent
      [ etx [elit "head "];
        eel (b "p") (b "x") [dq (b "q") [elit "urn:q"]; eat (b "q") (b "a") [elit "1"]]
            [ @IComment epieces (b " c "); etx [elit "t"; E.EP (T.PCData (b "<raw>"))]; @IPI epieces (b "pi") [32] (b "d"); eem (b "p") (b "y") [] ];
        etx [elit " end"] ]));
    XEntity (xdc (b "m3") (X4.XContent [@IComment epieces (b "only a comment")])) ]
  (eel (b "p") (b "r") [dq (b "p") [E.ERef (b "u")]; eat [] (b "a") [E.ERef (b "n"); elit "x"]]
       [etx [elit "t "; E.ERef (b "n"); elit " t "; E.ERef (b "u")]; eem [] (b "c") []])) = true.
Proof. vm_compute. reflexivity. Qed.

(* in the fragment of CstSound6.v, outside this one: a markup entity is referenced; '&' in a markup value *)
Example ex6u_out : forallb (fun t => in_fragment_6 (b t) && negb (in_fragment_6u (b t)))
  [ "<!DOCTYPE r [<!ENTITY m '<b/>'>]><r>&m;</r>"; "<!DOCTYPE r [<!ENTITY m '<b/>'><!ENTITY f 'x&m;'>]><r/>";
    "<!DOCTYPE r [<!ENTITY m '<b>&amp;</b>'>]><r/>" ]%string = true.
Proof. vm_compute. reflexivity. Qed.

(* the 12 documents of cex6_unused (accepted, broken unused markup values) stay outside *)
Example cex6u_unused : forallb (fun t => acc6 (b t) && negb (in_fragment_6u (b t)))
  [ "<!DOCTYPE r [<!ENTITY e '<b>'>]><r/>"; "<!DOCTYPE r [<!ENTITY e '</r>'>]><r/>"; "<!DOCTYPE r [<!ENTITY e '<a></b>'>]><r/>";
    "<!DOCTYPE r [<!ENTITY e '<a b=1/>'>]><r/>"; "<!DOCTYPE r [<!ENTITY e '<a b=""x"" b=""y""'>]><r/>";
    "<!DOCTYPE r [<!ENTITY e '<!-- -- -->'>]><r/>"; "<!DOCTYPE r [<!ENTITY e '<?xml v?>'>]><r/>";
    "<!DOCTYPE r [<!ENTITY e '<a/>]]>'>]><r/>"; "<!DOCTYPE r [<!ENTITY e '<![CDATA[x'>]><r/>";
    "<!DOCTYPE r [<!ENTITY e '<a>&#60;</a>'>]><r/>"; "<!DOCTYPE r [<!ENTITY e '<a>%</a>'>]><r/>";
    "<!DOCTYPE r [<!ENTITY e '<a x=""&y""/>'>]><r/>" ]%string = true.
Proof. vm_compute. reflexivity. Qed.
