(* Proofs/CstEntRejSem.v -- C09 on whole documents, the semantic side (no parser).
   To say what a document with a reference cycle, or with references nested too deep, "would be
   inlined to", the table of Spec/CstEnt.v is built over a bottom level in which every declared
   entity has a (dummy) value instead of none: [glevel decls k].  Inlining with glevel 12 succeeds
   whenever every referenced name is declared and the restrictions on attribute values hold -- cycle
   or not --, and whenever an expansion is within the limits of the loop detector (depth <= 10) it
   never reaches the bottom level, so that it is the inlining of Spec/CstEnt.v ([agree_*]). *)
From Coq Require Import List NArith PeanoNat Bool Lia ZifyBool ZifyN ZifyNat.
Import ListNotations.
From RX Require Import Generated.
From RX.Model Require Import Base Stream Builder Parse.
From RX.Spec Require Cst CstText CstEnt Chars Detector.
From RX.Spec Require Import Text.
From RX.Proofs Require Import DetectorProofs CstTextSem CstTextItems CstEntSem CstEntText CstEntAttr CstEntMeaning CstEntInline CstEntItems.
Open Scope N_scope.

Definition dummy (v : E.evalue) : E.xval :=
  match v with
  | E.EText _ => {| E.x_items := [T.IText []]; E.x_pieces := Some []; E.x_trace := [] |}
  | E.EContent _ => {| E.x_items := []; E.x_pieces := None; E.x_trace := [] |}
  end.

Fixpoint glevel (decls : list E.edecl) (k : nat) : E.table :=
  match k with
  | O => map (fun e => (E.e_name e, Some (dummy (E.e_value e)))) decls
  | S k' => let tb := glevel decls k' in map (fun e => (E.e_name e, E.inline_value tb (E.e_value e))) decls
  end.

(* two levels more than the detector allows *)
Definition glevels : nat := 12.

(* E.inline with a given table *)
Definition inline_with (tb : E.table) (d : E.doc) : option (T.doc * list Detector.lop) :=
  E.obind (E.inline_item tb false (E.d_root d)) (fun x =>
  match fst x with
  | [root] =>
    Some ({| T.d_before := map (fun p => (E.misc_item (fst p), snd p)) (E.d_before d)
                           ++ map (fun p => (E.misc_item (snd p), fst p)) (E.d_mid d);
             T.d_ws0 := E.d_ws0 d; T.d_root := root;
             T.d_after := map (fun p => (fst p, E.misc_item (snd p))) (E.d_after d);
             T.d_ws_end := E.d_ws_end d |}, snd x)
  | _ => None
  end).

Definition ginline (d : E.doc) := inline_with (glevel (E.t_decls (E.d_dtd d)) glevels) d.

Lemma inline_with_table d : E.inline d = inline_with (E.table_of d) d.
Proof. reflexivity. Qed.

(* everything in E.wf_doc that does not look at the inlining *)
Definition wf_syntax (d : E.doc) : bool :=
  Cst.wf_ws (E.d_ws0 d) && Cst.wf_ws (E.d_ws1 d) && Cst.wf_ws (E.d_ws_end d) &&
  forallb (fun p => E.is_misc (fst p) && E.wf_item false (fst p) && Cst.wf_ws (snd p)) (E.d_before d) &&
  E.wf_dtd (E.d_dtd d) &&
  forallb (fun p => Cst.wf_ws (fst p) && E.is_misc (snd p) && E.wf_item false (snd p)) (E.d_mid d) &&
  match E.d_root d with E.IElem _ _ _ _ => E.wf_item false (E.d_root d) | _ => false end &&
  forallb (fun p => Cst.wf_ws (fst p) && E.is_misc (snd p) && E.wf_item false (snd p)) (E.d_after d).

Lemma wf_doc_split d : E.wf_doc d = wf_syntax d &&
  match E.inline d with
  | None => false
  | Some (c, tr) => Detector.within_limits 10 255 0 0 tr && E.provisos_item (T.d_root c)
  end.
Proof. reflexivity. Qed.

Section G.
Variable decls : list E.edecl.

Lemma lookup_glevel k n :
  E.lookup (glevel decls k) n =
  match first_decl decls n with
  | Some d => match k with O => Some (dummy (E.e_value d)) | S k' => E.inline_value (glevel decls k') (E.e_value d) end
  | None => None
  end.
Proof.
  destruct k as [|k']; cbn [glevel].
  - rewrite (lookup_map (fun e => Some (dummy (E.e_value e)))). reflexivity.
  - rewrite (lookup_map (fun e => E.inline_value (glevel decls k') (E.e_value e))). reflexivity.
Qed.

(* ---- the detector on the traces of an inlining ---- *)
Lemma enter_d ld ld1 : ld_enter ld = Some ld1 -> ld_depth ld1 = ld_depth ld + 1 /\ ld_depth ld < 10.
Proof.
  intros Eenter. rewrite (mk_eta ld) in Eenter. apply ld_enter_some in Eenter. destruct Eenter as [Hlt [[H0 ->]|[H0 [_ ->]]]].
  - unfold DetectorProofs.mk. cbn. rewrite H0. split; [reflexivity|lia].
  - unfold DetectorProofs.mk. cbn. split; [reflexivity|exact Hlt].
Qed.

Lemma dec_d ld : 0 < ld_depth ld -> ld_depth (dec_depth ld) = ld_depth ld - 1.
Proof. intros H. unfold dec_depth. cbn [ld_depth]. replace (0 <? ld_depth ld) with true by lia. reflexivity. Qed.

(* what is proved of each inlining function at level k: if the detector runs through the trace,
   the result is that of Spec/CstEnt.v and the depth is what it was *)
Definition Agree {A} (k : nat) (g : E.table -> option (A * list Detector.lop)) : Prop :=
  forall res tr ld ld', g (glevel decls k) = Some (res, tr) -> ld_run ld tr = Some ld' ->
    12 <= N.of_nat k + ld_depth ld ->
    g (E.level decls k) = Some (res, tr) /\ ld_depth ld' = ld_depth ld.

Definition AgreeV (k : nat) : Prop :=
  forall v x ld ld', E.inline_value (glevel decls k) v = Some x -> ld_run ld (E.x_trace x) = Some ld' ->
    12 <= N.of_nat k + ld_depth ld ->
    E.inline_value (E.level decls k) v = Some x /\ ld_depth ld' = ld_depth ld.

(* a reference *)
Lemma agree_lookup k n v ld ld1 ld1' :
  (forall k', k = S k' -> AgreeV k') ->
  E.lookup (glevel decls k) n = Some v -> ld_enter ld = Some ld1 -> ld_run ld1 (E.x_trace v) = Some ld1' ->
  12 <= N.of_nat k + ld_depth ld ->
  E.lookup (E.level decls k) n = Some v /\ ld_depth (dec_depth ld1') = ld_depth ld.
Proof.
  intros IH Hl He Hr Hk. destruct (enter_d _ _ He) as [D1 D2].
  rewrite lookup_glevel in Hl. rewrite lookup_level. destruct (first_decl decls n) as [d|]; [|discriminate].
  destruct k as [|k']; [lia|].
  destruct (IH k' eq_refl _ _ ld1 ld1' Hl Hr ltac:(lia)) as [E1 E2].
  split; [exact E1|]. rewrite dec_d by lia. lia.
Qed.

Section Lvl.
Variable k : nat.
Hypothesis IH : forall k', k = S k' -> AgreeV k'.

Lemma agree_ps fa ie : forall ps, Agree k (fun tb => E.inline_ps tb fa ie ps).
Proof.
  induction ps as [|p ps IHp]; intros res tr ld ld' H Hr Hk.
  - cbn [E.inline_ps] in *. injection H as <- <-. cbn [ld_run] in Hr. injection Hr as <-. auto.
  - cbn [E.inline_ps] in *. destruct p as [q|n].
    + destruct (fa && ie && E.is_lt_ref q); [discriminate|].
      destruct (E.inline_ps (glevel decls k) fa ie ps) as [[q' tr']|] eqn:Er; [|discriminate]. cbn [E.obind fst snd] in H.
      injection H as <- <-. destruct (IHp _ _ _ _ Er Hr Hk) as [E1 E2]. rewrite E1. auto.
    + destruct (E.lookup (glevel decls k) n) as [v|] eqn:El; [|discriminate]. cbn [E.obind] in H.
      destruct (E.x_pieces v) as [qv|] eqn:Ex; [|discriminate]. cbn [E.obind] in H.
      destruct (fa && existsb E.is_lt_ref qv) eqn:Elt; [discriminate|].
      destruct (E.inline_ps (glevel decls k) fa ie ps) as [[q' tr']|] eqn:Er; [|discriminate]. cbn [E.obind fst snd] in H.
      injection H as <- <-.
      cbn [ld_run] in Hr. destruct (ld_enter ld) as [ld1|] eqn:Een; [|discriminate].
      rewrite ld_run_app in Hr. destruct (ld_run ld1 (E.x_trace v)) as [ld1'|] eqn:Er1; [|discriminate]. cbn [ld_run] in Hr.
      destruct (agree_lookup k n v ld ld1 ld1' IH El Een Er1 Hk) as [L1 L2].
      destruct (IHp _ _ _ _ Er Hr ltac:(lia)) as [E1 E2].
      rewrite L1. cbn [E.obind]. rewrite Ex. cbn [E.obind]. rewrite Elt, E1. split; [reflexivity|lia].
Qed.

Lemma agree_run ie : forall ps, Agree k (fun tb => E.inline_run tb ie ps).
Proof.
  induction ps as [|p ps IHp]; intros res tr ld ld' H Hr Hk.
  - cbn [E.inline_run] in *. injection H as <- <-. cbn [ld_run] in Hr. injection Hr as <-. auto.
  - cbn [E.inline_run] in *. destruct p as [q|n].
    + destruct (E.inline_run (glevel decls k) ie ps) as [[q' tr']|] eqn:Er; [|discriminate]. cbn [E.obind fst snd] in H.
      injection H as <- <-. destruct (IHp _ _ _ _ Er Hr Hk) as [E1 E2]. rewrite E1. auto.
    + destruct (E.lookup (glevel decls k) n) as [v|] eqn:El; [|discriminate]. cbn [E.obind] in H.
      destruct (E.inline_run (glevel decls k) ie ps) as [[q' tr']|] eqn:Er; [|discriminate]. cbn [E.obind fst snd] in H.
      injection H as <- <-.
      cbn [ld_run] in Hr. destruct (ld_enter ld) as [ld1|] eqn:Een; [|discriminate].
      rewrite ld_run_app in Hr. destruct (ld_run ld1 (E.x_trace v)) as [ld1'|] eqn:Er1; [|discriminate]. cbn [ld_run] in Hr.
      destruct (agree_lookup k n v ld ld1 ld1' IH El Een Er1 Hk) as [L1 L2].
      destruct (IHp _ _ _ _ Er Hr ltac:(lia)) as [E1 E2].
      rewrite L1. cbn [E.obind]. rewrite E1. split; [reflexivity|lia].
Qed.

Lemma agree_attrs ie : forall attrs, Agree k (fun tb => E.inline_attrs tb ie attrs).
Proof.
  induction attrs as [|a r IHa]; intros res tr ld ld' H Hr Hk.
  - cbn [E.inline_attrs] in *. injection H as <- <-. cbn [ld_run] in Hr. injection Hr as <-. auto.
  - cbn [E.inline_attrs] in *. unfold E.inline_attr in *.
    destruct (E.inline_ps (glevel decls k) true ie (E.a_value a)) as [[qv tra]|] eqn:Ea; [|discriminate].
    cbn [E.obind fst snd] in H.
    destruct (E.inline_attrs (glevel decls k) ie r) as [[ar trr]|] eqn:Er; [|discriminate].
    cbn [E.obind fst snd] in H. injection H as <- <-.
    rewrite ld_run_app in Hr. destruct (ld_run ld tra) as [ld1|] eqn:El1; [|discriminate].
    destruct (agree_ps true ie _ _ _ _ _ Ea El1 Hk) as [E1 E2].
    destruct (IHa _ _ _ _ Er Hr ltac:(lia)) as [E3 E4].
    rewrite E1. cbn [E.obind fst snd]. rewrite E3. split; [reflexivity|lia].
Qed.

Definition AgreeL (ie : bool) (cs : list E.item) : Prop := Agree k (fun tb => E.inline_items tb ie cs).

Lemma agree_items_of ie cs : Forall (fun i => Agree k (fun tb => E.inline_item tb ie i)) cs -> AgreeL ie cs.
Proof.
  induction 1 as [|i r Hi _ IHr]; intros res tr ld ld' H Hr Hk.
  - cbn [E.inline_items] in *. injection H as <- <-. cbn [ld_run] in Hr. injection Hr as <-. auto.
  - cbn [E.inline_items] in *.
    destruct (E.inline_item (glevel decls k) ie i) as [[its1 tr1]|] eqn:Ei; [|discriminate]. cbn [E.obind fst snd] in H.
    destruct (E.inline_items (glevel decls k) ie r) as [[its2 tr2]|] eqn:Er; [|discriminate]. cbn [E.obind fst snd] in H.
    injection H as <- <-.
    rewrite ld_run_app in Hr. destruct (ld_run ld tr1) as [ld1|] eqn:El1; [|discriminate].
    destruct (Hi _ _ _ _ Ei El1 Hk) as [E1 E2]. destruct (IHr _ _ _ _ Er Hr ltac:(lia)) as [E3 E4].
    rewrite E1. cbn [E.obind fst snd]. rewrite E3. split; [reflexivity|lia].
Qed.

Lemma agree_item ie : forall i, Agree k (fun tb => E.inline_item tb ie i).
Proof.
  intros i. induction i as [n a w|n a w cs w2 IHc|ps|bs|t s v] using eitem_ind; intros res tr ld ld' H Hr Hk.
  - rewrite inline_elem in *. destruct (E.inline_attrs (glevel decls k) ie a) as [[a' ta]|] eqn:Ea; [|discriminate].
    cbn [E.obind fst snd] in H. injection H as <- <-.
    destruct (agree_attrs ie _ _ _ _ _ Ea Hr Hk) as [E1 E2]. rewrite E1. auto.
  - rewrite inline_elem in *. destruct (E.inline_attrs (glevel decls k) ie a) as [[a' ta]|] eqn:Ea; [|discriminate].
    cbn [E.obind fst snd] in H. destruct (E.inline_items (glevel decls k) ie cs) as [[b0 tb0]|] eqn:Ec; [|discriminate].
    cbn [E.obind fst snd] in H. injection H as <- <-.
    rewrite ld_run_app in Hr. destruct (ld_run ld ta) as [ld1|] eqn:El1; [|discriminate].
    destruct (agree_attrs ie _ _ _ _ _ Ea El1 Hk) as [E1 E2].
    destruct (agree_items_of ie cs IHc _ _ _ _ Ec Hr ltac:(lia)) as [E3 E4].
    rewrite E1. cbn [E.obind fst snd]. rewrite E3. split; [reflexivity|lia].
  - cbn [E.inline_item] in *. apply (agree_run ie ps _ _ _ _ H Hr Hk).
  - cbn [E.inline_item] in *. injection H as <- <-. cbn [ld_run] in Hr. injection Hr as <-. auto.
  - cbn [E.inline_item] in *. injection H as <- <-. cbn [ld_run] in Hr. injection Hr as <-. auto.
Qed.

Lemma agree_items ie cs : AgreeL ie cs.
Proof. apply agree_items_of. apply Forall_forall. intros i _. apply agree_item. Qed.

Lemma agree_value : AgreeV k.
Proof.
  intros v x ld ld' H Hr Hk. destruct v as [ps|its]; cbn [E.inline_value] in *.
  - destruct (E.inline_ps (glevel decls k) false true ps) as [[q tr]|] eqn:Ei; [|discriminate].
    cbn [E.obind fst snd] in H. injection H as <-. cbn [E.x_trace] in Hr.
    destruct (agree_ps false true ps _ _ _ _ Ei Hr Hk) as [E1 E2]. rewrite E1. auto.
  - destruct (E.inline_items (glevel decls k) true its) as [[it tr]|] eqn:Ei; [|discriminate].
    cbn [E.obind fst snd] in H. injection H as <-. cbn [E.x_trace] in Hr.
    destruct (agree_items true its _ _ _ _ Ei Hr Hk) as [E1 E2]. rewrite E1. auto.
Qed.

End Lvl.

Theorem agree_value_all : forall k, AgreeV k.
Proof.
  induction k as [|k IHk].
  - apply agree_value. intros k' E0. discriminate.
  - apply agree_value. intros k' E0. injection E0 as <-. exact IHk.
Qed.

Lemma IHall k : forall k', k = S k' -> AgreeV k'.
Proof. intros k' _. apply agree_value_all. Qed.

End G.

(* ------------------------------------------------------------------------------------------ *)
(* the traces of an inlining are well nested                                                  *)
(* ------------------------------------------------------------------------------------------ *)
Inductive Bal : list Detector.lop -> Prop :=
| Bal_nil : Bal []
| Bal_app : forall a b0, Bal a -> Bal b0 -> Bal (a ++ b0)
| Bal_ent : forall t r, Bal t -> Bal r -> Bal (Detector.Enter :: t ++ Detector.Exit :: r).

Lemma depth_after_app a : forall b0 d, Detector.depth_after d (a ++ b0) =
  match Detector.depth_after d a with Some d' => Detector.depth_after d' b0 | None => None end.
Proof.
  induction a as [|[|] a IH]; intros b0 d; cbn [app Detector.depth_after]; [reflexivity|apply IH|].
  destruct (d =? 0); [reflexivity|apply IH].
Qed.

Lemma Bal_depth tr : Bal tr -> forall d, Detector.depth_after d tr = Some d.
Proof.
  induction 1 as [|a b0 _ IHa _ IHb|t r _ IHt _ IHr]; intros d.
  - reflexivity.
  - rewrite depth_after_app, IHa. apply IHb.
  - cbn [Detector.depth_after]. rewrite depth_after_app, IHt. cbn [Detector.depth_after].
    replace (d + 1 =? 0) with false by lia. replace (d + 1 - 1) with d by lia. apply IHr.
Qed.

Section B.
Variable decls : list E.edecl.

Definition BalT (tb : E.table) : Prop := forall n v, E.lookup tb n = Some v -> Bal (E.x_trace v).

Section Tb.
Variable tb : E.table.
Hypothesis Htb : BalT tb.

Lemma bal_ps fa ie : forall ps q tr, E.inline_ps tb fa ie ps = Some (q, tr) -> Bal tr.
Proof.
  induction ps as [|p ps IH]; intros q tr H; cbn [E.inline_ps] in H.
  - injection H as _ <-. constructor.
  - destruct p as [p|n].
    + destruct (fa && ie && E.is_lt_ref p); [discriminate|].
      destruct (E.inline_ps tb fa ie ps) as [[q' tr']|] eqn:Er; [|discriminate]. cbn [E.obind fst snd] in H.
      injection H as _ <-. apply (IH _ _ eq_refl).
    + destruct (E.lookup tb n) as [v|] eqn:El; [|discriminate]. cbn [E.obind] in H.
      destruct (E.x_pieces v) as [qv|]; [|discriminate]. cbn [E.obind] in H.
      destruct (fa && existsb E.is_lt_ref qv); [discriminate|].
      destruct (E.inline_ps tb fa ie ps) as [[q' tr']|] eqn:Er; [|discriminate]. cbn [E.obind fst snd] in H.
      injection H as _ <-. apply Bal_ent; [apply (Htb n v El)|apply (IH _ _ eq_refl)].
Qed.

Lemma bal_run ie : forall ps its tr, E.inline_run tb ie ps = Some (its, tr) -> Bal tr.
Proof.
  induction ps as [|p ps IH]; intros its tr H; cbn [E.inline_run] in H.
  - injection H as _ <-. constructor.
  - destruct p as [p|n].
    + destruct (E.inline_run tb ie ps) as [[q' tr']|] eqn:Er; [|discriminate]. cbn [E.obind fst snd] in H.
      injection H as _ <-. apply (IH _ _ eq_refl).
    + destruct (E.lookup tb n) as [v|] eqn:El; [|discriminate]. cbn [E.obind] in H.
      destruct (E.inline_run tb ie ps) as [[q' tr']|] eqn:Er; [|discriminate]. cbn [E.obind fst snd] in H.
      injection H as _ <-. apply Bal_ent; [apply (Htb n v El)|apply (IH _ _ eq_refl)].
Qed.

Lemma bal_attrs ie : forall attrs a' tr, E.inline_attrs tb ie attrs = Some (a', tr) -> Bal tr.
Proof.
  induction attrs as [|a r IH]; intros a' tr H; cbn [E.inline_attrs] in H.
  - injection H as _ <-. constructor.
  - unfold E.inline_attr in H. destruct (E.inline_ps tb true ie (E.a_value a)) as [[qv tra]|] eqn:Ea; [|discriminate].
    cbn [E.obind fst snd] in H. destruct (E.inline_attrs tb ie r) as [[ar trr]|] eqn:Er; [|discriminate].
    cbn [E.obind fst snd] in H. injection H as _ <-. apply Bal_app; [apply (bal_ps _ _ _ _ _ Ea)|apply (IH _ _ eq_refl)].
Qed.

Lemma bal_items_of ie cs : Forall (fun i => forall its tr, E.inline_item tb ie i = Some (its, tr) -> Bal tr) cs ->
  forall its tr, E.inline_items tb ie cs = Some (its, tr) -> Bal tr.
Proof.
  induction 1 as [|i r Hi _ IH]; intros its tr H; cbn [E.inline_items] in H.
  - injection H as _ <-. constructor.
  - destruct (E.inline_item tb ie i) as [[its1 tr1]|] eqn:Ei; [|discriminate]. cbn [E.obind fst snd] in H.
    destruct (E.inline_items tb ie r) as [[its2 tr2]|] eqn:Er; [|discriminate]. cbn [E.obind fst snd] in H.
    injection H as _ <-. apply Bal_app; [apply (Hi _ _ eq_refl)|apply (IH _ _ eq_refl)].
Qed.

Lemma bal_item ie : forall i its tr, E.inline_item tb ie i = Some (its, tr) -> Bal tr.
Proof.
  intros i. induction i as [n a w|n a w cs w2 IHc|ps|bs|t s v] using eitem_ind; intros its tr H.
  - rewrite inline_elem in H. destruct (E.inline_attrs tb ie a) as [[a' ta]|] eqn:Ea; [|discriminate].
    cbn [E.obind fst snd] in H. injection H as _ <-. apply (bal_attrs _ _ _ _ Ea).
  - rewrite inline_elem in H. destruct (E.inline_attrs tb ie a) as [[a' ta]|] eqn:Ea; [|discriminate].
    cbn [E.obind fst snd] in H. destruct (E.inline_items tb ie cs) as [[b0 tb0]|] eqn:Ec; [|discriminate].
    cbn [E.obind fst snd] in H. injection H as _ <-.
    apply Bal_app; [apply (bal_attrs _ _ _ _ Ea)|apply (bal_items_of ie cs IHc _ _ Ec)].
  - cbn [E.inline_item] in H. apply (bal_run _ _ _ _ H).
  - cbn in H. injection H as _ <-. constructor.
  - cbn in H. injection H as _ <-. constructor.
Qed.

Lemma bal_items ie cs its tr : E.inline_items tb ie cs = Some (its, tr) -> Bal tr.
Proof. apply bal_items_of. apply Forall_forall. intros i _. apply bal_item. Qed.

Lemma bal_value v x : E.inline_value tb v = Some x -> Bal (E.x_trace x).
Proof.
  destruct v as [ps|its]; cbn [E.inline_value]; intros H.
  - destruct (E.inline_ps tb false true ps) as [[q tr]|] eqn:Ei; [|discriminate]. cbn [E.obind fst snd] in H.
    injection H as <-. apply (bal_ps _ _ _ _ _ Ei).
  - destruct (E.inline_items tb true its) as [[it tr]|] eqn:Ei; [|discriminate]. cbn [E.obind fst snd] in H.
    injection H as <-. apply (bal_items _ _ _ _ Ei).
Qed.
End Tb.

Lemma balT_glevel : forall k, BalT (glevel decls k).
Proof.
  induction k as [|k IH]; intros n v Hl; rewrite lookup_glevel in Hl; destruct (first_decl decls n) as [d|]; try discriminate.
  - injection Hl as <-. destruct (E.e_value d); constructor.
  - apply (bal_value (glevel decls k) IH _ _ Hl).
Qed.

End B.

(* a well nested trace that is not within the limits stops the detector *)
Lemma limits_fail tr : Bal tr -> Detector.within_limits 10 255 0 0 tr = false -> ld_run ld_init tr = None.
Proof.
  intros Hb Hw. destruct (ld_run ld_init tr) as [st|] eqn:E; [|reflexivity].
  pose proof (detector_sound tr st E ltac:(rewrite (Bal_depth tr Hb); discriminate)) as X.
  unfold ld_max_depth, ld_max_refs in X. congruence.
Qed.

Print Assumptions agree_value_all.
Print Assumptions limits_fail.
