(* Proofs/CstRangeGDefs.v -- C13 / C18 on the later stages of the capstone fragment (Spec/CstFull.v), part 1:
   what the stages S3.. plug into the frame of CstRangeFDefs.v, computed from the abstract document
   alone (no model).

   Stage S3 (character-data entities over Unicode): the fragments of a run are those of
   CstRangeEDefs.v ([run_frags]: a reference flushes the buffer, the value of an entity is a token of
   its own whose range lies inside the declaration's literal in the DOCTYPE, a value without '&' and
   CR is appended as it is) on the UTF-8 encoded pieces and declarations. *)
From Coq Require Import List NArith Bool Lia.
Import ListNotations.
From RX.Spec Require Cst CstNs CstU CstText CstEnt Scope.
From RX.Spec Require Import Text CstFull.
From RX.Proofs Require Import CstRangeDefs CstRangeTDefs CstRangeEDefs CstRangeFDefs.
Open Scope N_scope.

(* ---- a document of the frame written at offset p0 of the input ---- *)
Definition fdoc_items_from (Sy : syntax) (p0 : N) (c : doc Sy) : list (N * item Sy) :=
  fbefore_at Sy (p0 + nlen (d_ws0 c)) (d_before c) ++ fitems_at Sy (p0 + froot_offset Sy c) (d_root c)
  ++ fafter_at Sy (p0 + froot_offset Sy c + nlen (r_item (d_root c))) (d_after c).

(* ------------------------------------------------------------------------------------------ *)
(* stage S3                                                                                   *)
(* ------------------------------------------------------------------------------------------ *)
Section S3R.
Variable tb : E.table.                                   (* the meaning of the entities *)
Variable vt : list (bytes * (N * E.evalue)).             (* where their values are written *)

(* a value (of an attribute or of a namespace declaration) written without '&', TAB, LF, CR is
   stored as the slice between the quotes; otherwise as new bytes: the normalised value -- so a
   value with an entity reference is always Owned *)
Definition vstore3 (p : N) (v : val epieces) : tstore :=
  if needs_norm_b (r_val epieces v) then TOwned (eval_sem tb v)
  else TBorrowed (p, p + nlen (r_val epieces v)).

(* a run: no node if it has no fragment; otherwise ONE Text node with the range of the FIRST
   fragment; Borrowed iff there is exactly one fragment and that one is Borrowed -- a literal or a
   CDATA section of the body, or the literal value of an entity inside the DOCTYPE *)
Definition run_nodes3 (p : N) (r : run epieces) : list ((N * N) * tstore) :=
  match run_frags vt p (enc_epieces r) with
  | [] => []
  | [(rg, Some sp)] => [(rg, TBorrowed sp)]
  | (rg, _) :: _ => [(rg, TOwned (match erun_sem tb r with Some bs => bs | None => [] end))]
  end.
End S3R.

(* the offsets of a document of stage S3 *)
Definition s3_dtd_offset (d : S3.doc) : N := nlen (S3.x_ws0 d) + fbefore_len epieces (S3.x_before d).
Definition s3_decls_offset (d : S3.doc) : N :=
  let t := enc_dtd (S3.x_dtd d) in
  s3_dtd_offset d + 9 + nlen (E.t_ws1 t) + nlen (E.t_name t) + nlen (E.t_ws2 t) + 1.
Definition s3_main_offset (d : S3.doc) : N := s3_dtd_offset d + nlen (E.r_dtd (enc_dtd (S3.x_dtd d))).
Definition s3_vtable (d : S3.doc) : list (bytes * (N * E.evalue)) :=
  vtable_at (s3_decls_offset d) (E.t_decls (enc_dtd (S3.x_dtd d))).

(* the items in document order: those before the DOCTYPE, then those of the main document *)
Definition s3_items_at (d : S3.doc) : list (N * item epieces) :=
  fbefore_at epieces (nlen (S3.x_ws0 d)) (S3.x_before d) ++ fdoc_items_from epieces (s3_main_offset d) (S3.x_main d).

Definition vstore_s3 (d : S3.doc) := vstore3 (table_of (S3.x_dtd d)).
Definition run_nodes_s3 (d : S3.doc) := run_nodes3 (table_of (S3.x_dtd d)) (s3_vtable d).

Definition fnodes3 (d : S3.doc) : list ((N * N) * tshape) := flat_map (fnode_of epieces (run_nodes_s3 d)) (s3_items_at d).
(* (1) the ranges of the nodes below the Root, in document order *)
Definition fspans3 (d : S3.doc) : list (N * N) := map fst (fnodes3 d).
(* (2) what they hold *)
Definition fshapes3 (d : S3.doc) : list tshape := map snd (fnodes3 d).
Definition fattr_spans3 (d : S3.doc) : list faspan := flat_map (fitem_aspans epieces (vstore_s3 d)) (s3_items_at d).
Definition fns_table3 (d : S3.doc) : list fnsdesc :=
  map snd (dedupe [xml_binding] (flat_map (fitem_decls epieces (S3.meaning_of d) (vstore_s3 d)) (s3_items_at d))).
Definition fattrs_small3 (d : S3.doc) : Prop := Forall faspan_small (fattr_spans3 d).
