(* Proofs/CstSoundTCor.v -- C08/C04/C05 on the fragment of Spec/CstText.v (references, CDATA,
   normalised attribute values): soundness (CstSoundTDoc.v) and completeness (CstTextMain.v). *)
From Coq Require Import List NArith Bool Lia ZifyBool ZifyN ZifyNat.
Import ListNotations.
From RX Require Import Generated.
From RX.Model Require Import Base CharClass Stream Tokenizer Doc Builder Parse.
From RX.Spec Require Cst CstText.
From RX.Proofs Require CstMain CstTextMain.
From RX.Proofs Require Import CstSoundT CstSoundTDoc.
Open Scope N_scope.

Theorem parse_sound_and_complete_t : forall text opt d,
  in_fragment_t text = true -> parse text opt = Ok d ->
  N.of_nat (length text) <= nodes_limit opt ->      (* room for all nodes *)
  N.of_nat (length text) <= u32_max ->              (* the input is at most u32::MAX bytes long *)
  exists c : CstText.doc,
    CstText.wf_doc c = true /\ CstText.render c = text /\ CstMain.view text d = CstText.sem c.
Proof.
  intros text opt d Hf H Hlim Hsz.
  destruct (parse_sound_fragment_t text opt d Hf H) as (c & Hwf & Hr).
  exists c. split; [exact Hwf|]. split; [exact Hr|].
  destruct (CstTextMain.trender_bounds c Hwf) as [B1 _]. rewrite Hr in B1.
  destruct (CstTextMain.parse_render_sem_text c opt Hwf) as (d' & Hp & Hv & _).
  - lia.
  - rewrite Hr. exact Hsz.
  - rewrite Hr in Hp, Hv. rewrite H in Hp. injection Hp as <-. exact Hv.
Qed.
Print Assumptions parse_sound_and_complete_t.
