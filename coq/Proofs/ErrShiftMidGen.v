(* Proofs/ErrShiftMidGen.v -- C14 (whitespace inserted inside the prolog), part 1: the lockstep
   lemmas of ErrShift*.v hold for ANY prefix [ws] in front of a valid UTF-8 text, not only for
   whitespace: the only lemmas of ErrShift*.v that used the whitespace hypothesis are
   consume_reference and what depends on it; they are proved here without it. *)
From Coq Require Import Ascii String.
From Coq Require Import List Arith NArith Bool Lia ZifyBool ZifyN ZifyNat.
Import ListNotations.
From RX Require Import Generated.
From RX.Model Require Import Base CharClass Stream Tokenizer Doc Builder Parse.
From RX.Proofs Require Import Tactics NoPanicUtf8 NoPanicStream BorrowLocal BorrowParse RangeBuilder
  RangeShiftBase RangeShiftStream RangeShiftTokenizer RangeShiftBuilder RangeShiftParse
  ErrShiftBase ErrShiftStream ErrShiftTokenizer ErrShiftBuilder ErrShiftParse.
Open Scope N_scope.

Section Gen.
Variable ws text : bytes.                      (* [ws]: any bytes *)
Hypothesis Hvalid : valid_utf8_b text = true.
Notation text2 := (ws ++ text).
Notation k := (blen ws).
Notation shs := (sh_s k).
Notation shl := (sh_sl k).
Notation shc := (sh_ctx k).
Notation shd := (sh_doc k).
Notation rsimE := (rsimE ws text).
Notation sh_refres := (RangeShiftStream.sh_refres ws).
Notation sh_chunk := (RangeShiftBuilder.sh_chunk ws).
Notation shpc := (RangeShiftParse.shpc ws).

Ltac cproj :=
  cbn [sh_ctx sh_doc c_opt c_ns_start_idx c_cur_attrs c_awaiting c_parent_prefixes c_entities c_after_text
       c_parent_id c_tag_name c_entity_floor c_ld c_doc
       set_doc set_ns_start_idx set_cur_attrs set_awaiting set_parent_prefixes set_entities
       set_after_text set_parent_id set_tag_name set_entity_floor set_ld
       d_nodes d_attrs d_ns_values d_ns_tree set_nodes set_attrs fst snd pmap] in *; unfold idf in *.
Ltac eat := apply (err_at_shE ws text Hvalid); pc.
Ltac efr := apply (err_from_shE ws text Hvalid); [pc|first [reflexivity|cbn [sh_rng fst snd]; lia]].
Ltac use L := solve [eapply L; try eassumption; try (intros; reflexivity)].

Lemma consume_reference_g s :
  rsimE sh_refres (consume_reference text s) (consume_reference text2 (shs s)).
Proof.
  unfold consume_reference.
  rewrite (try_consume_byte_sh ws 38 s). destruct (try_consume_byte 38 s) as [ok s1]. cbn [pmap fst snd idf].
  destruct (negb ok); [reflexivity|].
  rewrite (try_consume_byte_sh ws 35 s1). destruct (try_consume_byte 35 s1) as [is_num s2]. cbn [pmap fst snd idf].
  eapply rsimE_bind with (f := sh_refres).
  - destruct is_num.
    + rewrite (try_consume_byte_sh ws 120 s2). destruct (try_consume_byte 120 s2) as [is_hex s3].
      cbn [pmap fst snd idf].
      eapply rsimE_bind; [use consume_bytes_shE|]. intros [value s4] _. cbn [pmap fst snd]. cbv beta iota.
      rewrite (slice_bytes_shift ws). destruct (slice_bytes text value); [reflexivity|].
      destruct (u32_max <? _); [reflexivity|]. destruct (negb _); reflexivity.
    + pose proof (consume_name_shE ws text Hvalid s2) as H.
      destruct (consume_name text s2) as [[name s3]| | |]; cbn in H.
      * rewrite H. cbn [pmap fst snd]. rewrite (slice_bytes_shift ws).
        repeat match goal with |- context [if ?b then _ else _] => destruct b end; reflexivity.
      * destruct H as [e' [-> _]]. reflexivity.
      * rewrite H. reflexivity.
      * rewrite H. reflexivity.
  - intros [[r s5]|] _; cbn [RangeShiftStream.sh_refres option_map pmap fst snd]; [|reflexivity].
    pose proof (consume_byte_shE ws text Hvalid 59 s5) as H. destruct (consume_byte text 59 s5); cbn in H.
    + rewrite H. reflexivity.
    + destruct H as [e' [-> _]]. reflexivity.
    + rewrite H. reflexivity.
    + rewrite H. reflexivity.
Qed.

Lemma norm_loop_g rec1 rec2 entities :
  (forall v t ld, rsimE idf (rec1 entities v t ld) (rec2 (map (sh_ent k) entities) (shl v) t ld)) ->
  forall fuel s t ld,
    rsimE idf (norm_loop text rec1 entities fuel s t ld)
          (norm_loop text2 rec2 (map (sh_ent k) entities) fuel (shs s) t ld).
Proof.
  intros Hrec. induction fuel as [|fu IH]; intros s t ld; cbn [norm_loop]; [reflexivity|].
  rewrite (at_end_sh ws). destruct (at_end s); [reflexivity|].
  eapply rsimE_bind; [use curr_byte_unchecked_simE|]. intros x _. unfold idf.
  destruct (negb (x =? 38)).
  - destruct (_ && _); [eat|].
    eapply rsimE_bind; [use advance_shE|]. intros s1 _. cbv beta. rewrite (curr_byte_opt_sh ws). apply IH.
  - cbv zeta.
    eapply rsimE_bind; [apply consume_reference_g|]. intros r _.
    destruct r as [[[name|ch] s1]|]; cbn [sh_refres option_map pmap sh_ref fst snd].
    + rewrite (slice_bytes_shift ws), find_entity_sh.
      destruct (find_entity text entities (slice_bytes text name)) as [e|]; cbn [option_map];
        [|efr].
      eapply rsimE_bind; [use inc_references_shE|]. intros ld1 _. unfold idf.
      eapply rsimE_bind; [use inc_depth_shE|]. intros ld2 _. unfold idf.
      eapply rsimE_bind; [apply (Hrec (en_value e))|]. intros [t1 ld3] _. unfold idf. apply IH.
    + destruct (push_char_bytes_attr _ _ _); [apply IH|efr].
    + efr.
Qed.

Lemma norm_attr_lvl_g : forall lvl entities value t ld,
  rsimE idf (norm_attr_lvl text lvl entities value t ld)
        (norm_attr_lvl text2 lvl (map (sh_ent k) entities) (shl value) t ld).
Proof.
  induction lvl as [|lvl IH]; intros entities value t ld; [reflexivity|].
  rewrite !norm_attr_lvl_S. cbn [sh_sl sl_start sl_end].
  eapply rsimE_bind; [use stream_from_substr_shE|]. intros s0 _. cbv beta. rewrite s_rest_sh.
  apply norm_loop_g. intros v t1 ld1. apply IH.
Qed.

Lemma normalize_attribute_g value c :
  rsimE (pmap (sh_sto k) shc) (normalize_attribute text value c)
        (normalize_attribute text2 (shl value) (shc c)).
Proof.
  unfold normalize_attribute. cbv zeta. rewrite (slice_bytes_shift ws). cproj.
  destruct (existsb _ _); [|reflexivity].
  eapply rsimE_bind; [apply norm_attr_lvl_g|]. intros [t ld] _. unfold idf.
  eapply rsimE_bind; [apply id_simE; np|]. intros bs _. reflexivity.
Qed.

Lemma process_attribute_g r ql el prefix local value c :
  rsimE shc (process_attribute text r ql el prefix local value c)
        (process_attribute text2 (sh_rng k r) ql el (shl prefix) (shl local) (shl value) (shc c)).
Proof.
  unfold process_attribute.
  eapply rsimE_bind; [apply normalize_attribute_g|]. intros [v c1] _. cbn [pmap fst snd]. cbv beta iota zeta.
  rewrite !(slice_bytes_shift ws), storage_bytes_sh. cproj. rewrite !ns_exists_sh.
  destruct (bytes_eqb (slice_bytes text prefix) xmlns_str).
  - destruct (bytes_eqb _ _); [efr|].
    destruct (bytes_eqb _ _); [efr|].
    destruct (_ && _); [efr|].
    destruct (_ && _); [efr|].
    eapply rsimE_bind; [apply id_simE; np|]. intros ex _. unfold idf.
    destruct ex; [efr|].
    destruct (negb _); [|reflexivity].
    eapply rsimE_bind; [use push_ns_shE|]. intros d1 _. reflexivity.
  - rewrite ?(slice_len_shift ws).
    match goal with |- rsimE _ (if ?b then _ else _) _ => destruct b end.
    + destruct (bytes_eqb _ _); [efr|].
      destruct (bytes_eqb _ _); [efr|].
      eapply rsimE_bind; [apply id_simE; np|]. intros ex _. unfold idf.
      destruct ex; [efr|].
      eapply rsimE_bind; [use push_ns_shE|]. intros d1 _. reflexivity.
    + apply rsimE_ret. unfold sh_ctx. cproj. rewrite map_app. reflexivity.
Qed.

Lemma parse_next_chunk_g s entities :
  rsimE (pmap sh_chunk shs) (parse_next_chunk text s entities)
        (parse_next_chunk text2 (shs s) (map (sh_ent k) entities)).
Proof.
  unfold parse_next_chunk. rewrite (at_end_sh ws). destruct (at_end s); [reflexivity|].
  eapply rsimE_bind; [use curr_byte_unchecked_simE|]. intros x _. unfold idf.
  destruct (x =? 38).
  - cbv zeta. eapply rsimE_bind; [apply consume_reference_g|]. intros r _.
    destruct r as [[[name|ch] s1]|]; cbn [sh_refres option_map pmap sh_ref fst snd].
    + rewrite (slice_bytes_shift ws), find_entity_sh.
      destruct (find_entity text entities (slice_bytes text name)); cbn [option_map];
        [reflexivity|efr].
    + reflexivity.
    + efr.
  - eapply rsimE_bind; [use advance_shE|]. intros s1 _. reflexivity.
Qed.

Lemma token_with_g ptext1 ptext2 :
  (forall t r c, rsimE shc (ptext1 t r c) (ptext2 (shl t) (sh_rng k r) (shc c))) ->
  forall tok c, tok_wf tok ->
    rsimE shc (token_with text ptext1 tok c) (token_with text2 ptext2 (sh_tok k tok) (shc c)).
Proof.
  intros Hp tok c Hwf. unfold token_with.
  destruct tok as [tgt content r | t r | name value | prefix local start | r ql el prefix local value
                  | e r | t r | t r]; cbn [sh_tok].
  - eapply rsimE_bind; [apply (reset_after_text_shE ws text)|]. intros c1 _. cbv beta.
    eapply rsimE_bind; [apply (append_node_shE ws text (KPI tgt content) r c1); reflexivity|].
    intros [id c2] _. reflexivity.
  - eapply rsimE_bind; [apply (reset_after_text_shE ws text)|]. intros c1 _. cbv beta.
    eapply rsimE_bind; [apply (append_node_shE ws text (KComment t) r c1); reflexivity|].
    intros [id c2] _. reflexivity.
  - apply rsimE_ret. unfold sh_ctx. cproj. rewrite map_app. reflexivity.
  - cbn [tok_wf] in Hwf. destruct Hwf as [Hl Hp0].
    eapply rsimE_bind; [apply (reset_after_text_shE ws text)|]. intros c1 _. cbv beta.
    rewrite (slice_bytes_shift ws). destruct (bytes_eqb _ _); [efr|].
    replace (start + k + 1) with (start + 1 + k) by lia.
    apply rsimE_ret. unfold sh_ctx, set_tag_name, sh_tn. cproj. cbn [tn_name tn_prefix tn_pos tn_prefix_pos].
    destruct (slice_len local =? 0) eqn:E; [lia|]. rewrite (sh_sl0_real ws text _ Hp0). reflexivity.
  - apply (process_attribute_g).
  - eapply rsimE_bind; [apply (reset_after_text_shE ws text)|]. intros c1 _. cbv beta.
    apply (process_element_shE ws text Hvalid).
  - apply Hp.
  - apply (process_cdata_shE ws text).
Qed.

Lemma ptext_loop_g pc1 pc2 r :
  (forall es c, rsimE shpc (pc1 es c) (pc2 (shs es) (shc c))) ->
  forall fuel s buf c,
    rsimE (pmap idf shc) (ptext_loop text pc1 r fuel s buf c)
          (ptext_loop text2 pc2 (sh_rng k r) fuel (shs s) buf (shc c)).
Proof.
  intros Hpc. induction fuel as [|fu IH]; intros s buf c; cbn [ptext_loop]; [reflexivity|].
  rewrite (at_end_sh ws). destruct (at_end s); [reflexivity|]. cproj.
  eapply rsimE_bind; [apply (parse_next_chunk_g)|]. intros [ch s1] _.
  cbn [pmap fst snd]. cbv beta iota. destruct ch as [x|cp|value]; cbn [sh_chunk].
  - apply IH.
  - apply IH.
  - eapply rsimE_bind with (f := shc).
    { destruct (negb (tb_is_empty buf)); [|reflexivity].
      eapply rsimE_bind; [apply id_simE; np|]. intros bs _. apply (append_text_shE ws text (CowOwned bs)). }
    intros c1 _. cbv beta. cproj.
    eapply rsimE_bind; [apply (inc_references_shE ws text Hvalid)|]. intros ld1 _. unfold idf.
    eapply rsimE_bind; [apply (inc_depth_shE ws text Hvalid)|]. intros ld2 _. unfold idf. cbv zeta.
    cbn [sh_sl sl_start sl_end].
    eapply rsimE_bind; [apply (stream_from_substr_shE ws text)|]. intros es _. cbv beta. cproj.
    rewrite len_N_map.
    eapply rsimE_bind.
    { match goal with |- rsimE _ _ (pc2 _ ?c2) =>
        change c2 with (shc (set_entity_floor (set_tag_name (set_ld c1 ld2) tag_name_null)
                                              (len_N (c_parent_prefixes c1))))
      end. apply Hpc. }
    intros [s2 c2] _. cbn [shpc fst snd]. cbv beta iota. cproj. rewrite len_N_map.
    destruct (negb _); [apply rsimE_same_err; reflexivity|].
    match goal with |- rsimE _ (ptext_loop _ _ _ _ _ _ ?ca) (ptext_loop _ _ _ _ _ _ ?cb) =>
      change cb with (shc ca)
    end. apply IH.
Qed.

Lemma process_text_with_g pc1 pc2 :
  (forall es c, rsimE shpc (pc1 es c) (pc2 (shs es) (shc c))) ->
  forall t r c, rsimE shc (process_text_with text pc1 t r c)
                      (process_text_with text2 pc2 (shl t) (sh_rng k r) (shc c)).
Proof.
  intros Hpc t r c. rewrite !process_text_with_eq. cbv zeta. rewrite (slice_bytes_shift ws).
  destruct (negb _); [apply (append_text_shE ws text (CowBorrowed t))|].
  cbn [sh_rng fst snd].
  eapply rsimE_bind; [apply (stream_from_substr_shE ws text)|]. intros s0 _. cbv beta. rewrite s_rest_sh.
  eapply rsimE_bind; [apply (ptext_loop_g pc1 pc2 r Hpc)|]. intros [buf c1] _. cbn [pmap fst snd idf]. cbv beta iota.
  destruct (negb _); [|reflexivity].
  eapply rsimE_bind; [apply id_simE; np|]. intros bs _. apply (append_text_shE ws text (CowOwned bs)).
Qed.

Lemma parse_content_lvl_g : forall lvl es c,
  rsimE shpc (parse_content_lvl text lvl es c) (parse_content_lvl text2 lvl (shs es) (shc c)).
Proof.
  induction lvl as [|lvl IH]; intros es c; cbn [parse_content_lvl]; [reflexivity|].
  apply (parse_content_shE ws text Hvalid context _ _ shc).
  intros tok c0 Hwf. apply token_with_g; [|exact Hwf].
  intros t r c1. apply process_text_with_g. exact IH.
Qed.

Lemma token_g tok c : tok_wf tok ->
  rsimE shc (Parse.token text tok c) (Parse.token text2 (sh_tok k tok) (shc c)).
Proof.
  intros Hwf. unfold Parse.token, process_text. apply token_with_g; [|exact Hwf].
  intros t r c1. apply process_text_with_g. apply parse_content_lvl_g.
Qed.

End Gen.
