(* Proofs/ErrShiftSubDoc.v -- C14 (inside the internal subset), part 7.  COPY of ErrShiftEntDoc.v
   over the ErrShiftSub files, plus, at the end, the loop of the internal subset from its head
   ([dtd_head_ps]) and the rest of the document from there ([cont3_ps]).  Original header:
   Proofs/ErrShiftSubDoc.v -- C14 (entities), part 5: the rest of parse_document from the loop head
   of the second parse_misc ([cont2] of ErrShiftDtdCont.v) on the two texts
   (A0 ++ W) ++ post  and  (A0 ++ W) ++ ws ++ post  (W, ws whitespace), from the position |A0| in
   both; and the final checks of parse ([post] of ErrShiftMidCore.v) on related contexts. *)
From Coq Require Import Ascii String.
From Coq Require Import List Arith NArith Bool Lia ZifyBool ZifyN ZifyNat.
Import ListNotations.
From RX Require Import Generated.
From RX.Model Require Import Base CharClass Stream Tokenizer Doc Builder Parse.
From RX.Proofs Require Import Tactics NoPanicUtf8 NoPanicStream PositionProofs BorrowLocal BorrowParse
  RangeShiftBase RangeShiftStream RangeShiftTokenizer RangeShiftBuilder
  ErrShiftBase ErrShiftBuilder ErrShiftMidFrame ErrShiftMidCont ErrShiftMidCore ErrShiftDtdCont
  ErrShiftSubBase ErrShiftSubStream ErrShiftSubTok ErrShiftSubBuild ErrShiftSubCont.
Open Scope N_scope.

(* ---- scan over a run of bytes that all satisfy f ---- *)
Lemma scan_app_all f : forall (A l : bytes) r, forallb f A = true ->
  scan f (A ++ l) (length A + r) = (length A + scan f l r)%nat.
Proof.
  induction A as [|a A IH]; intros l r H; [reflexivity|]. cbn [forallb] in H. apply andb_true_iff in H.
  destruct H as [H1 H2]. cbn [app length Nat.add scan]. rewrite H1, IH by exact H2. reflexivity.
Qed.

(* ---- the final checks only look at the links and at "is an element" ---- *)
Section Links.
Variable g : node_data -> node_data.
Hypothesis g_links : forall n, nd_parent (g n) = nd_parent n /\ nd_prev_sibling (g n) = nd_prev_sibling n /\
  nd_next_subtree (g n) = nd_next_subtree n /\ nd_last_child (g n) = nd_last_child n /\
  is_element_kind (nd_kind (g n)) = is_element_kind (nd_kind n).
Variable d d' : document.
Hypothesis Hd : d_nodes d' = map g (d_nodes d).

Lemma get_node_g id : get_node d' id = option_map g (get_node d id).
Proof. unfold get_node. rewrite Hd. apply nth_N_map. Qed.
Lemma node_unwrap_g id : node_unwrap d' id = node_unwrap d id.
Proof. unfold node_unwrap. rewrite get_node_g. destruct (get_node d id); reflexivity. Qed.
Lemma opt_unwrap_node_g o : opt_unwrap_node d' o = opt_unwrap_node d o.
Proof. unfold opt_unwrap_node. destruct o; [rewrite node_unwrap_g|]; reflexivity. Qed.
Lemma node_data_of_g id : node_data_of d' id = match node_data_of d id with
  | Ok nd => Ok (g nd) | Err e => Err e | Panic p => Panic p | OutOfFuel => OutOfFuel end.
Proof. unfold node_data_of. rewrite get_node_g. destruct (get_node d id); reflexivity. Qed.
Lemma first_child_g id : first_child d' id = first_child d id.
Proof.
  unfold first_child. rewrite node_data_of_g. destruct (node_data_of d id) as [a| | |]; cbn [bind]; try reflexivity.
  destruct (g_links a) as (_ & _ & _ & -> & _). destruct (nd_last_child a); [|reflexivity].
  destruct (node_id_new (id + 1)); cbn [bind]; try reflexivity. rewrite node_unwrap_g. reflexivity.
Qed.
Lemma last_child_g id : last_child d' id = last_child d id.
Proof.
  unfold last_child. rewrite node_data_of_g. destruct (node_data_of d id) as [a| | |]; cbn [bind]; try reflexivity.
  destruct (g_links a) as (_ & _ & _ & -> & _). apply opt_unwrap_node_g.
Qed.
Lemma next_sibling_g id : next_sibling d' id = next_sibling d id.
Proof.
  unfold next_sibling. rewrite node_data_of_g. destruct (node_data_of d id) as [a| | |]; cbn [bind]; try reflexivity.
  destruct (g_links a) as (_ & _ & -> & _). destruct (nd_next_subtree a) as [n|]; [|reflexivity].
  rewrite node_unwrap_g. destruct (node_unwrap d n) as [a0| | |]; cbn [bind]; try reflexivity.
  rewrite node_data_of_g. destruct (node_data_of d a0) as [a1| | |]; cbn [bind]; try reflexivity.
  destruct (g_links a1) as (_ & -> & _). reflexivity.
Qed.
Lemma children_g id : children d' id = children d id.
Proof. unfold children. rewrite first_child_g, last_child_g. reflexivity. Qed.
Lemma children_next_g it : children_next d' it = children_next d it.
Proof.
  unfold children_next. destruct (opt_N_eqb _ _); [reflexivity|]. destruct (ch_front it); [|reflexivity].
  rewrite next_sibling_g. reflexivity.
Qed.
Lemma node_is_element_g n : node_is_element d' n = node_is_element d n.
Proof.
  unfold node_is_element. rewrite node_data_of_g. destruct (node_data_of d n) as [a| | |]; cbn [bind]; try reflexivity.
  destruct (g_links a) as (_ & _ & _ & _ & ->). reflexivity.
Qed.
Lemma children_any_element_g : forall fuel it,
  children_any_element fuel d' it = children_any_element fuel d it.
Proof.
  induction fuel as [|fu IH]; intros it; cbn [children_any_element]; [reflexivity|].
  rewrite children_next_g. destruct (children_next d it) as [[o it']| | |]; cbn [bind]; try reflexivity.
  destruct o as [n|]; [|reflexivity]. rewrite node_is_element_g.
  destruct (node_is_element d n) as [a| | |]; cbn [bind]; try reflexivity. destruct a; [reflexivity|apply IH].
Qed.
End Links.

Section XPost.
Variable P k : N.

Lemma x_links n : nd_parent (x_node P k n) = nd_parent n /\ nd_prev_sibling (x_node P k n) = nd_prev_sibling n /\
  nd_next_subtree (x_node P k n) = nd_next_subtree n /\ nd_last_child (x_node P k n) = nd_last_child n /\
  is_element_kind (nd_kind (x_node P k n)) = is_element_kind (nd_kind n).
Proof. repeat split. cbn [x_node nd_kind]. destruct (nd_kind n); reflexivity. Qed.

Lemma post_x c : post (x_ctx P k c) = rmapd (x_doc P k) (post c).
Proof.
  unfold post. cbv zeta.
  assert (Ech : forall id, children (x_doc P k (c_doc c)) id = children (c_doc c) id).
  { intros id. exact (children_g (x_node P k) x_links (c_doc c) (x_doc P k (c_doc c)) eq_refl id). }
  assert (Eany : forall fuel it, children_any_element fuel (x_doc P k (c_doc c)) it = children_any_element fuel (c_doc c) it).
  { intros fuel it. exact (children_any_element_g (x_node P k) x_links (c_doc c) (x_doc P k (c_doc c)) eq_refl fuel it). }
  change (c_doc (x_ctx P k c)) with (x_doc P k (c_doc c)). rewrite Ech.
  destruct (children (c_doc c) 0) as [it| | |]; cbn [bind rmapd]; try reflexivity.
  replace (length (d_nodes (x_doc P k (c_doc c)))) with (length (d_nodes (c_doc c)))
    by (cbn [x_doc d_nodes]; rewrite map_length; reflexivity).
  rewrite Eany.
  destruct (children_any_element _ (c_doc c) it) as [he| | |]; cbn [bind rmapd]; try reflexivity.
  destruct (negb he); [reflexivity|].
  change (c_parent_prefixes (x_ctx P k c)) with (map (m_sl P k) (c_parent_prefixes c)).
  rewrite len_N_map. destruct (1 <? _); reflexivity.
Qed.

Lemma Inv_x olds c : Inv olds c -> Inv olds (x_ctx P k c).
Proof.
  intros [H1 H2 H3 H4]. unfold Inv. cbn [x_ctx x_doc c_doc c_parent_id d_nodes]. split.
  - rewrite map_length. exact H1.
  - exact H2.
  - intros i n Hn. rewrite nth_error_map in Hn. destruct (nth_error (d_nodes (c_doc c)) i) as [n0|] eqn:E; [|discriminate].
    injection Hn as <-. exact (H3 _ _ E).
  - intros i n Hi Hn. rewrite nth_error_map in Hn. destruct (nth_error (d_nodes (c_doc c)) i) as [n0|] eqn:E; [|discriminate].
    injection Hn as <-. pose proof (H4 _ _ Hi E) as Ht. cbn [x_node nd_kind]. destruct (nd_kind n0); cbn in *; auto.
Qed.
End XPost.

Lemma post_pc olds c : Forall (fun o => ntext (fst o)) olds -> Inv olds c ->
  post (pc olds c) = rmapd (pd olds) (post c).
Proof.
  intros Holds HI. unfold post. cbv zeta.
  change (c_doc (pc olds c)) with (pd olds (c_doc c)). rewrite children_pd.
  destruct (children (c_doc c) 0) as [it| | |]; cbn [bind rmapd]; try reflexivity.
  replace (length (d_nodes (pd olds (c_doc c)))) with (length (d_nodes (c_doc c))).
  2:{ cbn [pd set_nodes d_nodes]. unfold pn. rewrite imap_length. reflexivity. }
  rewrite (children_any_element_pd olds Holds _ (c_parent_id c)) by exact HI.
  destruct (children_any_element _ (c_doc c) it) as [he| | |]; cbn [bind rmapd]; try reflexivity.
  destruct (negb he); [reflexivity|].
  change (c_parent_prefixes (pc olds c)) with (c_parent_prefixes c). destruct (1 <? _); reflexivity.
Qed.

(* ------------------------------------------------------------------ *)
Section Cont.
Variable A0 W ws post : bytes.
Hypothesis HW : forallb byte_is_space W = true.
Hypothesis Hws : forallb byte_is_space ws = true.
Hypothesis Hv : valid_utf8_b post = true.
Hypothesis Hpost : post <> [].
Definition SS : setting := {| st_pre := A0 ++ W; st_ws := ws; st_post := post; st_Hws := Hws; st_Hv := Hv |}.
Notation pre := (A0 ++ W).
Notation T1 := (pre ++ post).
Notation T2 := (pre ++ ws ++ post).
Notation T2' := ((A0 ++ (W ++ ws)) ++ post).
Notation P := (blen pre).
Notation k := (blen ws).
Notation psim := (psim SS).
Notation F := (F SS).
Notation SI := (SI SS).

Lemma T2_eq : T2' = T2.
Proof. rewrite <- !app_assoc. reflexivity. Qed.

(* the two streams at the loop head *)
Notation s1 := (sQ A0 W post).
Notation s2 := (sQ A0 (W ++ ws) post).

Lemma skip_head : skip_spaces s2 = F true (skip_spaces s1) /\ SI true (skip_spaces s1).
Proof.
  unfold skip_spaces, skip_bytes, sQ. cbn [s_pos s_end s_rest]. cbv zeta.
  set (m := scan byte_is_space post (length post)).
  assert (E1 : scan byte_is_space (W ++ post) (N.to_nat (tlen T1 - blen A0)) = (length W + m)%nat).
  { replace (N.to_nat (tlen T1 - blen A0)) with (length W + length post)%nat by (unfold tlen, blen; rewrite !app_length; lia).
    apply scan_app_all. exact HW. }
  assert (E2 : scan byte_is_space ((W ++ ws) ++ post) (N.to_nat (tlen T2' - blen A0)) = (length (W ++ ws) + m)%nat).
  { replace (N.to_nat (tlen T2' - blen A0)) with (length (W ++ ws) + length post)%nat by (unfold tlen, blen; rewrite !app_length; lia).
    apply scan_app_all. rewrite forallb_app, HW, Hws. reflexivity. }
  rewrite E1, E2.
  assert (Hm : (m <= length post)%nat) by apply scan_le.
  assert (R1 : skipn (length W + m) (W ++ post) = skipn m post).
  { rewrite skipn_app_hi by lia. f_equal. lia. }
  assert (R2 : skipn (length (W ++ ws) + m) ((W ++ ws) ++ post) = skipn m post).
  { rewrite skipn_app_hi by lia. f_equal. lia. }
  rewrite R1, R2. split.
  - unfold ErrShiftSubBase.F. cbn [s_pos s_end s_rest ErrShiftSubBase.dd SS st_pre st_ws st_post].
    f_equal.
    + unfold blen. rewrite !app_length. lia.
    + unfold tlen, blen. rewrite !app_length. lia.
    + symmetry. unfold blen. rewrite !skipn_app_hi by (rewrite ?app_length; lia). f_equal. rewrite !app_length. lia.
  - unfold ErrShiftSubBase.SI. cbn [s_pos s_end s_rest SS st_pre st_post].
    split; [|split; [|split]].
    + unfold blen. rewrite skipn_app_hi by (rewrite app_length; lia). f_equal. rewrite app_length. lia.
    + unfold tlen, blen. rewrite !app_length. lia.
    + lia.
    + unfold blen. rewrite !app_length. lia.
Qed.

Variable C : Type.
Variable ev1 ev2 : Tokenizer.token -> C -> res C.
Variable fc : C -> C.
Variable CIv : C -> Prop.
Hypothesis Hev : forall tok c, TokI SS true tok -> CIv c ->
  psim CIv fc (ev1 tok c) (ev2 (sh_tok (dd SS true) tok) (fc c)).
Notation PI := (PI SS true C CIv).
Notation shp := (shp SS true C fc).
Notation she := (she SS true C fc).

Lemma at_end_head : at_end s1 = false /\ at_end s2 = false.
Proof.
  unfold at_end, sQ. cbn [s_pos s_end]. unfold tlen, blen. rewrite !app_length.
  assert (Hl : (0 < length post)%nat).
  { destruct (length post) eqn:E; [apply length_zero_iff_nil in E; congruence|lia]. }
  split; lia.
Qed.

Lemma misc_head_ps fu fu' c : (fu <= fu')%nat -> CIv c ->
  psim PI shp (parse_misc_loop T1 C ev1 (S fu) s1 c) (parse_misc_loop T2' C ev2 (S fu') s2 (fc c)).
Proof.
  intros Hle Hc. rewrite T2_eq. cbn [parse_misc_loop]. destruct at_end_head as [-> ->]. cbv zeta.
  destruct skip_head as [-> H1]. set (s := skip_spaces s1) in *.
  rewrite !(starts_with_F SS) by exact H1.
  destruct (starts_with s (b "<!--")).
  { eapply psim_bind; [apply (parse_comment_ps SS true C ev1 ev2 fc CIv Hev); assumption|]. intros [s4 c4] [H4 Hc4].
    apply (parse_misc_loop_ps SS true C ev1 ev2 fc CIv Hev); assumption. }
  destruct (starts_with s (b "<?")).
  { eapply psim_bind; [apply (parse_pi_ps SS true C ev1 ev2 fc CIv Hev); assumption|]. intros [s4 c4] [H4 Hc4].
    apply (parse_misc_loop_ps SS true C ev1 ev2 fc CIv Hev); assumption. }
  apply psim_ret; [split; assumption|reflexivity].
Qed.

Lemma doc_tail2_ps x : PI x -> psim CIv fc (doc_tail2 T1 C ev1 x) (doc_tail2 T2 C ev2 (shp x)).
Proof.
  destruct x as [s5 c5]. intros [H5 Hc5]. cbn [fst snd] in *. unfold doc_tail2. cbn [ErrShiftSubTok.shp fst snd]. cbv zeta.
  destruct (skip_spaces_F SS true s5 H5) as [-> H5'].
  rewrite (curr_byte_opt_F SS) by exact H5'.
  eapply psim_bind with (I := PI) (g := shp).
  { destruct (match curr_byte_opt (skip_spaces s5) with Some x => x =? 60 | None => false end);
      [|apply psim_ret; [split; assumption|reflexivity]].
    eapply psim_bind; [apply (parse_element_ps SS true C ev1 ev2 fc CIv Hev); assumption|].
    intros [[o s8] c8] [H8 Hc8]. cbn [ErrShiftSubTok.she fst snd] in *.
    destruct o; [|apply psim_ret; [split; assumption|reflexivity]].
    apply (parse_content_ps SS true C ev1 ev2 fc CIv Hev); assumption. }
  intros [s7 c7] [H7 Hc7]. cbn [ErrShiftSubTok.shp fst snd] in *.
  eapply psim_bind; [apply (parse_misc_ps SS true C ev1 ev2 fc CIv Hev); assumption|]. intros [s9 c9] [H9 Hc9].
  cbn [ErrShiftSubTok.shp fst snd] in *. rewrite (at_end_F SS).
  destruct (negb (at_end s9)); [apply (err_at_ps SS); [pc|exact H9]|apply psim_ret; [exact Hc9|reflexivity]].
Qed.

Lemma cont2_ps fu fu' c : (fu <= fu')%nat -> CIv c ->
  psim CIv fc (cont2 T1 C ev1 (S fu) s1 c) (cont2 T2' C ev2 (S fu') s2 (fc c)).
Proof.
  intros Hle Hc. unfold cont2. eapply psim_bind; [apply misc_head_ps; assumption|].
  intros x Hx. rewrite T2_eq. apply doc_tail2_ps. exact Hx.
Qed.


(* ---- from a head of the loop of the internal subset ---- *)
Lemma dtd_head_ps start fu fu' c : start < P -> (fu <= fu')%nat -> CIv c ->
  psim PI shp (parse_doctype_loop T1 C ev1 (S fu) start s1 c) (parse_doctype_loop T2' C ev2 (S fu') start s2 (fc c)).
Proof.
  intros Hst Hle Hc. rewrite T2_eq. rewrite !dtd_loop_S. destruct at_end_head as [-> ->].
  destruct skip_head as [-> H1].
  apply (dtd_body_ps SS true C ev1 ev2 fc CIv Hev); try assumption.
  intros s c1 Hs Hc1. apply (parse_doctype_loop_ps SS true C ev1 ev2 fc CIv Hev start Hst); assumption.
Qed.

Lemma cont3_ps start fu fu' c : start < P -> (fu <= fu')%nat -> CIv c ->
  psim CIv fc (cont3 T1 C ev1 (S fu) start s1 c) (cont3 T2' C ev2 (S fu') start s2 (fc c)).
Proof.
  intros Hst Hle Hc. unfold cont3. eapply psim_bind; [apply dtd_head_ps; assumption|].
  intros [s c1] [Hs Hc1]. cbn [ErrShiftSubTok.shp fst snd] in *. rewrite T2_eq. unfold cont2.
  eapply psim_bind.
  { apply (parse_misc_loop_ps SS true C ev1 ev2 fc CIv Hev); [|assumption..]. pose proof (rest_len_le SS true s Hs). lia. }
  intros x Hx. apply doc_tail2_ps. exact Hx.
Qed.

End Cont.
